(* L1 proofs: size bookkeeping (per-stripe counters vs. occupied slots) and resize limits
   (validated setters, check_resize_validity, reserve_calc, the freshly constructed table).
   Only lemmas; no definition of the model is changed here. *)
From Coq Require Import NArith ZArith List Bool Lia FMapPositive FinFun.
From LC Require Import gen.HashGen Bits Core Api InvDefs.
Import ListNotations.
Local Open Scope N_scope.

(* Helper lemmas whose natural names are also used by sibling files (ArrLemmas.v, Iter.v) carry
   the prefix [st_] here, so that importing several of these files is unambiguous. *)

(* ================================================================== A. validated setters *)

Lemma set_mlf_op_invalid_nan t : set_mlf_op t MNaN = (t, exn_out EInvalidArgument).
Proof. reflexivity. Qed.

(* NOTE: a zero denominator is answered with EUnmodelled by the model, so [d <> 0] is needed in
   every rational case. *)
Lemma set_mlf_op_invalid_neg t n d :
  d <> 0 -> n <> 0 -> set_mlf_op t (MRat true n d) = (t, exn_out EInvalidArgument).
Proof.
  intros Hd Hn. unfold set_mlf_op.
  apply N.eqb_neq in Hd. apply N.eqb_neq in Hn. rewrite Hd, Hn. reflexivity.
Qed.

Lemma set_mlf_op_invalid_gt1 t neg n d :
  d <> 0 -> d < n -> set_mlf_op t (MRat neg n d) = (t, exn_out EInvalidArgument).
Proof.
  intros Hd Hlt. unfold set_mlf_op.
  apply N.eqb_neq in Hd. rewrite Hd.
  destruct (neg && negb (n =? 0)); [reflexivity|].
  apply N.ltb_lt in Hlt. rewrite Hlt. reflexivity.
Qed.

(* the arguments outside the domain [0,1] *)
Definition mlf_out_of_domain (a : mlfarg) : Prop :=
  match a with
  | MNaN => True
  | MRat neg n d => d <> 0 /\ ((neg = true /\ n <> 0) \/ d < n)
  end.

Lemma set_mlf_op_invalid t a :
  mlf_out_of_domain a -> set_mlf_op t a = (t, exn_out EInvalidArgument).
Proof.
  destruct a as [neg n d|]; simpl; [|reflexivity].
  intros [Hd [[Hneg Hn]|Hlt]].
  - subst neg. apply set_mlf_op_invalid_neg; assumption.
  - apply set_mlf_op_invalid_gt1; assumption.
Qed.

Lemma set_mlf_op_valid t neg n d :
  d <> 0 -> n <= d -> (neg = false \/ n = 0) ->
  set_mlf_op t (MRat neg n d) = (set_mlf t n d, [RNone]).
Proof.
  intros Hd Hle Hs. unfold set_mlf_op.
  apply N.eqb_neq in Hd. rewrite Hd.
  assert (E1 : neg && negb (n =? 0) = false).
  { destruct Hs as [->| ->]; [reflexivity|]. rewrite N.eqb_refl. apply andb_false_r. }
  rewrite E1.
  assert (E2 : (d <? n) = false) by (apply N.ltb_ge; exact Hle).
  rewrite E2. reflexivity.
Qed.

Lemma set_mlf_fields t n d :
  cur (set_mlf t n d) = cur t /\ old (set_mlf t n d) = old t /\
  locks (set_mlf t n d) = locks t /\ nrem (set_mlf t n d) = nrem t /\
  rc (set_mlf t n d) = rc t /\ mhp (set_mlf t n d) = mhp t /\
  workers (set_mlf t n d) = workers t /\
  mlfn (set_mlf t n d) = n /\ mlfd (set_mlf t n d) = d.
Proof. repeat split. Qed.

(* the setter is total on rationals with a non-zero denominator: either rejected with no
   effect, or accepted *)
Lemma set_mlf_op_cases t neg n d :
  d <> 0 ->
  set_mlf_op t (MRat neg n d) = (t, exn_out EInvalidArgument) \/
  (n <= d /\ (neg = false \/ n = 0) /\ set_mlf_op t (MRat neg n d) = (set_mlf t n d, [RNone])).
Proof.
  intro Hd.
  destruct (N.lt_ge_cases d n) as [Hlt|Hle].
  - left. apply set_mlf_op_invalid_gt1; assumption.
  - destruct neg.
    + destruct (N.eq_dec n 0) as [E|E].
      * right. split; [exact Hle|]. split; [right; exact E|].
        apply set_mlf_op_valid; auto.
      * left. apply set_mlf_op_invalid_neg; assumption.
    + right. split; [exact Hle|]. split; [left; reflexivity|].
      apply set_mlf_op_valid; auto.
Qed.

Lemma set_mhp_op_invalid t m :
  m < hashpower t -> set_mhp_op t m = (t, exn_out EInvalidArgument).
Proof. intro H. unfold set_mhp_op. apply N.ltb_lt in H. rewrite H. reflexivity. Qed.

Lemma set_mhp_op_valid t m :
  hashpower t <= m -> set_mhp_op t m = (set_mhp t m, [RNone]).
Proof. intro H. unfold set_mhp_op. apply N.ltb_ge in H. rewrite H. reflexivity. Qed.

Lemma set_mhp_op_spec t m :
  (m < hashpower t -> set_mhp_op t m = (t, exn_out EInvalidArgument)) /\
  (hashpower t <= m -> set_mhp_op t m = (set_mhp t m, [RNone])).
Proof. split; [apply set_mhp_op_invalid|apply set_mhp_op_valid]. Qed.

Lemma set_mhp_fields t m :
  cur (set_mhp t m) = cur t /\ old (set_mhp t m) = old t /\
  locks (set_mhp t m) = locks t /\ nrem (set_mhp t m) = nrem t /\
  rc (set_mhp t m) = rc t /\ mlfn (set_mhp t m) = mlfn t /\ mlfd (set_mhp t m) = mlfd t /\
  workers (set_mhp t m) = workers t /\ mhp (set_mhp t m) = m.
Proof. repeat split. Qed.

(* whatever the outcome, the lock list and the bucket arrays are untouched *)
Lemma set_mhp_op_locks t m : locks (fst (set_mhp_op t m)) = locks t.
Proof. unfold set_mhp_op. destruct (m <? hashpower t); reflexivity. Qed.

Lemma set_mhp_op_cur t m : cur (fst (set_mhp_op t m)) = cur t.
Proof. unfold set_mhp_op. destruct (m <? hashpower t); reflexivity. Qed.

(* ================================================================== B. check_resize_validity *)

Section Validity.
Variable c : config.

Lemma crv_explicit_never_lf t o n :
  check_resize_validity c false t o n <> inl (Some ELoadFactorTooLow).
Proof.
  unfold check_resize_validity.
  destruct (negb (mhp t =? NO_MAXIMUM_HASHPOWER) && (mhp t <? n)); [discriminate|].
  cbn [andb].
  destruct (negb (hashpower t =? o)); discriminate.
Qed.

Lemma crv_guard_iff t n :
  negb (mhp t =? NO_MAXIMUM_HASHPOWER) && (mhp t <? n) = true <->
  (mhp t <> NO_MAXIMUM_HASHPOWER /\ mhp t < n).
Proof.
  rewrite andb_true_iff, negb_true_iff, N.eqb_neq, N.ltb_lt. reflexivity.
Qed.

Lemma crv_maxhp_iff auto t o n :
  check_resize_validity c auto t o n = inl (Some EMaxHashpower) <->
  (mhp t <> NO_MAXIMUM_HASHPOWER /\ mhp t < n).
Proof.
  rewrite <- crv_guard_iff. unfold check_resize_validity.
  destruct (negb (mhp t =? NO_MAXIMUM_HASHPOWER) && (mhp t <? n)).
  - split; reflexivity.
  - split; [|discriminate].
    destruct (auto && lf_lt_mlf c t); [discriminate|].
    destruct (negb (hashpower t =? o)); discriminate.
Qed.

Lemma crv_lf_iff auto t o n :
  check_resize_validity c auto t o n = inl (Some ELoadFactorTooLow) <->
  (~ (mhp t <> NO_MAXIMUM_HASHPOWER /\ mhp t < n) /\ auto = true /\ lf_lt_mlf c t = true).
Proof.
  rewrite <- crv_guard_iff. unfold check_resize_validity.
  destruct (negb (mhp t =? NO_MAXIMUM_HASHPOWER) && (mhp t <? n)).
  - split; [discriminate|]. intros [H _]. exfalso. apply H. reflexivity.
  - destruct auto; cbn [andb].
    + destruct (lf_lt_mlf c t).
      * split; [intros _; repeat split; discriminate|reflexivity].
      * split; [destruct (negb (hashpower t =? o)); discriminate|].
        intros [_ [_ H]]. discriminate.
    + split; [destruct (negb (hashpower t =? o)); discriminate|].
      intros [_ [H _]]. discriminate.
Qed.

Lemma crv_ok auto t o n :
  check_resize_validity c auto t o n = inr St_ok ->
  (mhp t = NO_MAXIMUM_HASHPOWER \/ n <= mhp t) /\
  (auto = true -> lf_lt_mlf c t = false) /\
  hashpower t = o.
Proof.
  unfold check_resize_validity.
  destruct (mhp t =? NO_MAXIMUM_HASHPOWER) eqn:E1; cbn [negb andb].
  - apply N.eqb_eq in E1.
    destruct (auto && lf_lt_mlf c t) eqn:E3; [discriminate|].
    destruct (hashpower t =? o) eqn:E4; cbn [negb]; [|discriminate].
    intros _. split; [left; exact E1|]. split.
    + intro Ha. subst auto. exact E3.
    + apply N.eqb_eq. exact E4.
  - destruct (mhp t <? n) eqn:E2; [discriminate|].
    apply N.ltb_ge in E2.
    destruct (auto && lf_lt_mlf c t) eqn:E3; [discriminate|].
    destruct (hashpower t =? o) eqn:E4; cbn [negb]; [|discriminate].
    intros _. split; [right; exact E2|]. split.
    + intro Ha. subst auto. exact E3.
    + apply N.eqb_eq. exact E4.
Qed.

(* the only possible results *)
Lemma crv_cases auto t o n :
  check_resize_validity c auto t o n = inl (Some EMaxHashpower) \/
  check_resize_validity c auto t o n = inl (Some ELoadFactorTooLow) \/
  check_resize_validity c auto t o n = inr St_under_expansion \/
  check_resize_validity c auto t o n = inr St_ok.
Proof.
  unfold check_resize_validity.
  destruct (negb (mhp t =? NO_MAXIMUM_HASHPOWER) && (mhp t <? n)); [auto|].
  destruct (auto && lf_lt_mlf c t); [auto|].
  destruct (negb (hashpower t =? o)); auto.
Qed.

(* a request within the limit, at the hashpower the caller observed, and (for automatic
   expansion) with the load factor at or above the minimum, is accepted *)
Lemma crv_ok_intro auto t n :
  (mhp t = NO_MAXIMUM_HASHPOWER \/ n <= mhp t) ->
  (auto = true -> lf_lt_mlf c t = false) ->
  check_resize_validity c auto t (hashpower t) n = inr St_ok.
Proof.
  intros Hm Hl. unfold check_resize_validity.
  assert (E : negb (mhp t =? NO_MAXIMUM_HASHPOWER) && (mhp t <? n) = false).
  { destruct Hm as [Hm|Hm].
    - rewrite Hm, N.eqb_refl. reflexivity.
    - apply N.ltb_ge in Hm. rewrite Hm. apply andb_false_r. }
  rewrite E.
  assert (E2 : auto && lf_lt_mlf c t = false).
  { destruct auto; [apply Hl; reflexivity|reflexivity]. }
  rewrite E2, N.eqb_refl. reflexivity.
Qed.

End Validity.

(* ================================================================== D. counter sums *)

Lemma sum_cnt_nil : sum_cnt [] = 0%Z.
Proof. reflexivity. Qed.

Lemma sum_cnt_cons l la : sum_cnt (l :: la) = (cnt l + sum_cnt la)%Z.
Proof. reflexivity. Qed.

Lemma sum_cnt_app la lb : sum_cnt (la ++ lb) = (sum_cnt la + sum_cnt lb)%Z.
Proof.
  induction la as [|l la IH].
  - rewrite app_nil_l, sum_cnt_nil. lia.
  - rewrite <- app_comm_cons, !sum_cnt_cons, IH. lia.
Qed.

Lemma sum_cnt_repeat_dflt n : sum_cnt (repeat dflt_lock n) = 0%Z.
Proof.
  induction n as [|n IH]; [reflexivity|].
  cbn [repeat]. rewrite sum_cnt_cons, IH. reflexivity.
Qed.

Lemma sum_cnt_map_const (f : lockm -> lockm) la :
  (forall l, cnt (f l) = 0%Z) -> sum_cnt (map f la) = 0%Z.
Proof.
  intro Hf. induction la as [|l la IH]; [reflexivity|].
  cbn [map]. rewrite sum_cnt_cons, IH, Hf. reflexivity.
Qed.

Lemma sum_cnt_map_same (f : lockm -> lockm) la :
  (forall l, cnt (f l) = cnt l) -> sum_cnt (map f la) = sum_cnt la.
Proof.
  intro Hf. induction la as [|l la IH]; [reflexivity|].
  cbn [map]. rewrite !sum_cnt_cons, IH, Hf. reflexivity.
Qed.

Lemma st_upd_length {A} (f : A -> A) l : forall i, length (upd i f l) = length l.
Proof.
  induction l as [|x r IH]; intro i; [destruct i; reflexivity|].
  destruct i as [|i]; cbn [upd length]; [reflexivity|]. rewrite IH. reflexivity.
Qed.

Lemma upd_out_of_range {A} (f : A -> A) l : forall i, (length l <= i)%nat -> upd i f l = l.
Proof.
  induction l as [|x r IH]; intros i Hi; [destruct i; reflexivity|].
  destruct i as [|i]; cbn [length] in Hi; [lia|].
  cbn [upd]. rewrite IH by lia. reflexivity.
Qed.

Lemma nth_upd_same {A} (f : A -> A) (d : A) l :
  forall i, (i < length l)%nat -> nth i (upd i f l) d = f (nth i l d).
Proof.
  induction l as [|x r IH]; intros i Hi; cbn [length] in Hi; [lia|].
  destruct i as [|i]; cbn [upd nth]; [reflexivity|]. apply IH. lia.
Qed.

Lemma nth_upd_other {A} (f : A -> A) (d : A) l :
  forall i j, i <> j -> nth j (upd i f l) d = nth j l d.
Proof.
  induction l as [|x r IH]; intros i j Hij; [destruct i; reflexivity|].
  destruct i as [|i]; destruct j as [|j]; cbn [upd nth]; try reflexivity; [congruence|].
  apply IH. congruence.
Qed.

Lemma sum_cnt_upd (f : lockm -> lockm) la :
  forall i, (i < length la)%nat ->
  sum_cnt (upd i f la) =
  (sum_cnt la - cnt (nth i la dflt_lock) + cnt (f (nth i la dflt_lock)))%Z.
Proof.
  induction la as [|l la IH]; intros i Hi; cbn [length] in Hi; [lia|].
  destruct i as [|i]; cbn [upd nth]; rewrite !sum_cnt_cons.
  - lia.
  - rewrite IH by lia. lia.
Qed.

Lemma sum_cnt_upd_out (f : lockm -> lockm) la i :
  (length la <= i)%nat -> sum_cnt (upd i f la) = sum_cnt la.
Proof. intro H. rewrite upd_out_of_range by exact H. reflexivity. Qed.

Lemma st_last_upd_last {A} (f : A -> A) (d : A) l :
  l <> [] -> last (upd_last f l) d = f (last l d).
Proof.
  induction l as [|x r IH]; intro Hne; [congruence|].
  destruct r as [|y r]; [reflexivity|].
  change (upd_last f (x :: y :: r)) with (x :: upd_last f (y :: r)).
  change (last (x :: y :: r) d) with (last (y :: r) d).
  assert (Hn : upd_last f (y :: r) <> []).
  { destruct r; cbn [upd_last]; discriminate. }
  destruct (upd_last f (y :: r)) as [|z q] eqn:E; [congruence|].
  change (last (x :: z :: q) d) with (last (z :: q) d).
  apply IH. discriminate.
Qed.

Lemma st_upd_last_nonnil {A} (f : A -> A) l : l <> [] -> upd_last f l <> [].
Proof.
  destruct l as [|x r]; [congruence|]. intros _.
  destruct r; cbn [upd_last]; discriminate.
Qed.

Lemma st_upd_last_length {A} (f : A -> A) l : length (upd_last f l) = length l.
Proof.
  induction l as [|x r IH]; [reflexivity|].
  destruct r as [|y r]; [reflexivity|].
  change (upd_last f (x :: y :: r)) with (x :: upd_last f (y :: r)).
  cbn [length] in *. rewrite IH. reflexivity.
Qed.

Lemma cur_locks_upd_last t (f : lockarr -> lockarr) :
  locks t <> [] -> cur_locks (set_locks t (upd_last f (locks t))) = f (cur_locks t).
Proof. intro H. unfold cur_locks. cbn [locks set_locks]. apply st_last_upd_last. exact H. Qed.

Lemma st_cur_locks_upd_cur_lock t l f :
  locks t <> [] -> cur_locks (upd_cur_lock t l f) = upd (N.to_nat l) f (cur_locks t).
Proof. intro H. unfold upd_cur_lock. apply cur_locks_upd_last. exact H. Qed.

Lemma st_locks_upd_cur_lock_nonnil t l f : locks t <> [] -> locks (upd_cur_lock t l f) <> [].
Proof. intro H. unfold upd_cur_lock. cbn [locks set_locks]. apply st_upd_last_nonnil. exact H. Qed.

Lemma st_cur_upd_cur_lock t l f : cur (upd_cur_lock t l f) = cur t.
Proof. reflexivity. Qed.

Section Resize.
Variable c : config.

Lemma maybe_resize_locks_cur t nb : cur (maybe_resize_locks c t nb) = cur t.
Proof. unfold maybe_resize_locks. destruct (_ && _); reflexivity. Qed.

Lemma maybe_resize_locks_old t nb : old (maybe_resize_locks c t nb) = old t.
Proof. unfold maybe_resize_locks. destruct (_ && _); reflexivity. Qed.

Lemma maybe_resize_locks_scalars t nb :
  let t' := maybe_resize_locks c t nb in
  nrem t' = nrem t /\ rc t' = rc t /\ mlfn t' = mlfn t /\ mlfd t' = mlfd t /\
  mhp t' = mhp t /\ workers t' = workers t.
Proof. cbv zeta. unfold maybe_resize_locks. destruct (_ && _); repeat split. Qed.

Lemma maybe_resize_locks_nonnil t nb : locks t <> [] -> locks (maybe_resize_locks c t nb) <> [].
Proof.
  intro H. unfold maybe_resize_locks. destruct (_ && _); [|exact H].
  cbn [locks set_locks]. intro E. apply app_eq_nil in E. destruct E as [_ E]. discriminate.
Qed.

(* the current lock array after maybe_resize_locks: the old one, possibly extended by
   fresh (zero, migrated) stripes *)
Lemma maybe_resize_locks_cur_locks t nb :
  exists k, cur_locks (maybe_resize_locks c t nb) = cur_locks t ++ repeat dflt_lock k.
Proof.
  unfold maybe_resize_locks. destruct (_ && _).
  - eexists. unfold cur_locks at 1. cbn [locks set_locks]. rewrite last_last. reflexivity.
  - exists O. cbn [repeat]. rewrite app_nil_r. reflexivity.
Qed.

Lemma maybe_resize_locks_sum t nb :
  sum_cnt (cur_locks (maybe_resize_locks c t nb)) = sum_cnt (cur_locks t).
Proof.
  destruct (maybe_resize_locks_cur_locks t nb) as [k E]. rewrite E.
  rewrite sum_cnt_app, sum_cnt_repeat_dflt. lia.
Qed.

Lemma maybe_resize_locks_length t nb :
  (length (cur_locks t) <= length (cur_locks (maybe_resize_locks c t nb)))%nat.
Proof.
  destruct (maybe_resize_locks_cur_locks t nb) as [k E]. rewrite E.
  rewrite app_length. lia.
Qed.

(* exact length: min(kmax, nb) when it grows *)
Lemma maybe_resize_locks_length_eq t nb :
  length (cur_locks (maybe_resize_locks c t nb)) =
  Nat.max (length (cur_locks t)) (N.to_nat (N.min (kmax c) nb)).
Proof.
  unfold maybe_resize_locks.
  destruct (N.of_nat (length (cur_locks t)) <? kmax c) eqn:E1;
  destruct (N.of_nat (length (cur_locks t)) <? nb) eqn:E2; cbn [andb].
  - apply N.ltb_lt in E1. apply N.ltb_lt in E2.
    unfold cur_locks at 1. cbn [locks set_locks]. rewrite last_last.
    rewrite app_length, repeat_length. lia.
  - apply N.ltb_ge in E2. lia.
  - apply N.ltb_ge in E1. lia.
  - apply N.ltb_ge in E1. lia.
Qed.

(* stripes that existed before keep their contents *)
Lemma maybe_resize_locks_nth t nb i :
  (i < length (cur_locks t))%nat ->
  nth i (cur_locks (maybe_resize_locks c t nb)) dflt_lock = nth i (cur_locks t) dflt_lock.
Proof.
  intro Hi. destruct (maybe_resize_locks_cur_locks t nb) as [k E]. rewrite E.
  apply app_nth1. exact Hi.
Qed.

Lemma maybe_resize_locks_all_migrated t nb :
  all_migrated t -> all_migrated (maybe_resize_locks c t nb).
Proof.
  intros H l Hin. destruct (maybe_resize_locks_cur_locks t nb) as [k E]. rewrite E in Hin.
  apply in_app_or in Hin. destruct Hin as [Hin|Hin]; [apply H; exact Hin|].
  apply repeat_spec in Hin. subst l. reflexivity.
Qed.

End Resize.

Lemma tsize_nil t : locks t = [] -> tsize t = 0.
Proof. intro H. unfold tsize. rewrite H. reflexivity. Qed.

Lemma tsize_spec t :
  locks t <> [] -> (0 <= sum_cnt (cur_locks t) < 2 ^ 64)%Z ->
  Z.of_N (tsize t) = sum_cnt (cur_locks t).
Proof.
  intros Hne Hr. unfold tsize. destruct (locks t) as [|x r] eqn:E; [congruence|].
  change 18446744073709551616%Z with (2 ^ 64)%Z.
  rewrite Z.mod_small by exact Hr. apply Z2N.id. lia.
Qed.

(* without the range hypothesis: the cast to size_t *)
Lemma tsize_mod t :
  locks t <> [] -> Z.of_N (tsize t) = (sum_cnt (cur_locks t) mod 2 ^ 64)%Z.
Proof.
  intros Hne. unfold tsize. destruct (locks t) as [|x r] eqn:E; [congruence|].
  change 18446744073709551616%Z with (2 ^ 64)%Z.
  apply Z2N.id. apply Z.mod_pos_bound. reflexivity.
Qed.

(* ================================================================== E. element count vs slot updates *)

Lemma st_pidx_inj a b : pidx a = pidx b -> a = b.
Proof.
  intro H. unfold pidx in H.
  assert (E : N.pos (N.succ_pos a) = N.pos (N.succ_pos b)) by (rewrite H; reflexivity).
  rewrite !N.succ_pos_spec in E. lia.
Qed.

Lemma bget_bset_same a b s e : bget (bset a b s e) b s = e.
Proof.
  unfold bget, bset, sset. cbn [bsl]. rewrite PositiveMap.gss.
  destruct e as [x|]; [apply PositiveMap.gss|apply PositiveMap.grs].
Qed.

Lemma st_bget_bset_other a b s e b' s' :
  (b', s') <> (b, s) -> bget (bset a b s e) b' s' = bget a b' s'.
Proof.
  intro Hne. unfold bget, bset, sset. cbn [bsl].
  destruct (N.eq_dec b' b) as [Eb|Eb].
  - subst b'. rewrite PositiveMap.gss.
    assert (Hs : pidx s' <> pidx s).
    { intro E. apply st_pidx_inj in E. subst s'. apply Hne. reflexivity. }
    destruct (PositiveMap.find (pidx b) (bsl a)) as [row|].
    + destruct e as [x|]; [apply PositiveMap.gso|apply PositiveMap.gro]; exact Hs.
    + destruct e as [x|].
      * rewrite PositiveMap.gso by exact Hs. apply PositiveMap.gempty.
      * rewrite PositiveMap.gro by exact Hs. apply PositiveMap.gempty.
  - rewrite PositiveMap.gso; [reflexivity|].
    intro E. apply st_pidx_inj in E. contradiction.
Qed.

Lemma st_bget_bset a b s e b' s' :
  bget (bset a b s e) b' s' = if (b' =? b) && (s' =? s) then e else bget a b' s'.
Proof.
  destruct (b' =? b) eqn:Eb; destruct (s' =? s) eqn:Es; cbn [andb].
  - apply N.eqb_eq in Eb. apply N.eqb_eq in Es. subst. apply bget_bset_same.
  - apply N.eqb_neq in Es. apply st_bget_bset_other. congruence.
  - apply N.eqb_neq in Eb. apply st_bget_bset_other. congruence.
  - apply N.eqb_neq in Eb. apply st_bget_bset_other. congruence.
Qed.

Lemma st_bhp_bset a b s e : bhp (bset a b s e) = bhp a.
Proof. reflexivity. Qed.

Lemma st_bdead_bset a b s e : bdead (bset a b s e) = bdead a.
Proof. reflexivity. Qed.

Lemma st_bget_bnew hp b s : bget (bnew hp) b s = None.
Proof. unfold bget, bnew. cbn [bsl]. rewrite PositiveMap.gempty. reflexivity. Qed.

Lemma bget_bclear a b s : bget (bclear a) b s = None.
Proof. unfold bget, bclear. cbn [bsl]. rewrite PositiveMap.gempty. reflexivity. Qed.

Lemma bget_bdealloc a b s : bget (bdealloc a) b s = None.
Proof. unfold bget, bdealloc. cbn [bsl]. rewrite PositiveMap.gempty. reflexivity. Qed.

Lemma occupied_true_iff a b s : occupied a b s = true <-> exists e, bget a b s = Some e.
Proof.
  unfold occupied. destruct (bget a b s) as [e|].
  - split; [intros _; exists e; reflexivity|reflexivity].
  - split; [discriminate|intros [e H]; discriminate].
Qed.

Lemma occupied_false_iff a b s : occupied a b s = false <-> bget a b s = None.
Proof.
  unfold occupied. destruct (bget a b s) as [e|]; split; congruence.
Qed.

(* ---- generic list facts *)

Lemma filter_none {A} (f : A -> bool) l :
  (forall x, In x l -> f x = false) -> filter f l = [].
Proof.
  induction l as [|x l IH]; intro H; [reflexivity|].
  cbn [filter]. rewrite (H x) by (left; reflexivity).
  apply IH. intros y Hy. apply H. right. exact Hy.
Qed.

(* two predicates that differ at exactly one element of a duplicate-free list *)
Lemma filter_length_flip {A} (f g : A -> bool) (x : A) l :
  NoDup l -> In x l -> f x = false -> g x = true ->
  (forall y, In y l -> y <> x -> f y = g y) ->
  length (filter g l) = S (length (filter f l)).
Proof.
  intros Hnd Hin Hf Hg Hext.
  induction l as [|a l IH]; [destruct Hin|].
  inversion Hnd as [|a' l' Hnotin Hnd']; subst a' l'.
  destruct Hin as [Ea|Hin].
  - subst a. cbn [filter]. rewrite Hf, Hg. cbn [length]. f_equal. f_equal.
    apply filter_ext_in. intros y Hy. symmetry. apply Hext; [right; exact Hy|].
    intro E. subst y. contradiction.
  - assert (Hax : a <> x) by (intro E; subst a; contradiction).
    cbn [filter]. rewrite (Hext a) by (auto using in_eq).
    assert (IH' : length (filter g l) = S (length (filter f l))).
    { apply IH; [exact Hnd'|exact Hin|].
      intros y Hy Hyx. apply Hext; [right; exact Hy|exact Hyx]. }
    destruct (g a); cbn [length]; rewrite IH'; reflexivity.
Qed.

Lemma filter_length_bound {A} (f : A -> bool) l : (length (filter f l) <= length l)%nat.
Proof.
  induction l as [|x l IH]; [apply le_n|].
  cbn [filter]. destruct (f x); cbn [length]; lia.
Qed.

Lemma NoDup_app_intro {A} (l1 l2 : list A) :
  NoDup l1 -> NoDup l2 -> (forall x, In x l1 -> ~ In x l2) -> NoDup (l1 ++ l2).
Proof.
  intros H1 H2 Hd. induction l1 as [|a l1 IH]; [exact H2|].
  inversion H1 as [|a' l' Hn H1']; subst a' l'.
  rewrite <- app_comm_cons. constructor.
  - intro Hin. apply in_app_or in Hin. destruct Hin as [Hin|Hin]; [contradiction|].
    apply (Hd a); [left; reflexivity|exact Hin].
  - apply IH; [exact H1'|]. intros x Hx. apply Hd. right. exact Hx.
Qed.

Lemma NoDup_list_prod_intro {A B} (l1 : list A) (l2 : list B) :
  NoDup l1 -> NoDup l2 -> NoDup (list_prod l1 l2).
Proof.
  intros H1 H2. induction l1 as [|a l1 IH]; [constructor|].
  inversion H1 as [|a' l' Hn H1']; subst a' l'.
  cbn [list_prod]. apply NoDup_app_intro.
  - apply Injective_map_NoDup; [|exact H2]. intros x y E. congruence.
  - apply IH. exact H1'.
  - intros [x y] Hx Hy. apply in_map_iff in Hx. destruct Hx as [z [Ez _]].
    inversion Ez; subst. apply in_prod_iff in Hy. destruct Hy as [Hy _]. contradiction.
Qed.

Lemma st_In_nseq n x : In x (nseq n) <-> x < n.
Proof.
  unfold nseq. rewrite in_map_iff. split.
  - intros [k [Ek Hk]]. apply in_seq in Hk. subst x. lia.
  - intro H. exists (N.to_nat x). split; [apply N2Nat.id|]. apply in_seq. lia.
Qed.

Lemma NoDup_nseq n : NoDup (nseq n).
Proof.
  unfold nseq. apply Injective_map_NoDup; [|apply seq_NoDup].
  intros x y E. apply Nat2N.inj. exact E.
Qed.

Lemma st_nseq_length n : length (nseq n) = N.to_nat n.
Proof. unfold nseq. rewrite map_length, seq_length. reflexivity. Qed.

Section Count.
Variable c : config.

Lemma st_In_positions hp b s : In (b, s) (positions c hp) <-> b < 2 ^ hp /\ s < spb c.
Proof. unfold positions. rewrite in_prod_iff, !st_In_nseq. reflexivity. Qed.

Lemma NoDup_positions hp : NoDup (positions c hp).
Proof. unfold positions. apply NoDup_list_prod_intro; apply NoDup_nseq. Qed.

Lemma st_positions_length hp : length (positions c hp) = (N.to_nat (2 ^ hp) * N.to_nat (spb c))%nat.
Proof. unfold positions. rewrite prod_length, !st_nseq_length. reflexivity. Qed.

Definition occ_at (a : barray) (p : N * N) : bool := occupied a (fst p) (snd p).

Lemma count_arr_unfold a : count_arr c a = length (filter (occ_at a) (positions c (bhp a))).
Proof. reflexivity. Qed.

Lemma st_In_occ_list a b s :
  In (b, s) (occ_list c a) <-> (b < 2 ^ bhp a /\ s < spb c) /\ occupied a b s = true.
Proof.
  unfold occ_list. rewrite filter_In, st_In_positions. cbn [fst snd]. reflexivity.
Qed.

Lemma NoDup_occ_list a : NoDup (occ_list c a).
Proof. unfold occ_list. apply NoDup_filter. apply NoDup_positions. Qed.

Lemma count_arr_le a : (count_arr c a <= N.to_nat (2 ^ bhp a) * N.to_nat (spb c))%nat.
Proof.
  unfold count_arr, occ_list. rewrite <- st_positions_length. apply filter_length_bound.
Qed.

(* arrays that agree on occupancy of the in-range positions have the same count *)
Lemma count_arr_ext a a' :
  bhp a' = bhp a ->
  (forall b s, b < 2 ^ bhp a -> s < spb c -> occupied a' b s = occupied a b s) ->
  count_arr c a' = count_arr c a.
Proof.
  intros Hhp Hocc. rewrite !count_arr_unfold, Hhp. f_equal.
  apply filter_ext_in. intros [b s] Hin. apply st_In_positions in Hin. destruct Hin as [Hb Hs].
  unfold occ_at. cbn [fst snd]. apply Hocc; assumption.
Qed.

Lemma count_arr_empty a :
  (forall b s, bget a b s = None) -> count_arr c a = O.
Proof.
  intro H. rewrite count_arr_unfold. rewrite filter_none; [reflexivity|].
  intros [b s] _. unfold occ_at. cbn [fst snd]. apply occupied_false_iff. apply H.
Qed.

Lemma count_arr_bnew hp : count_arr c (bnew hp) = O.
Proof. apply count_arr_empty. intros b s. apply st_bget_bnew. Qed.

Lemma count_arr_bclear a : count_arr c (bclear a) = O.
Proof. apply count_arr_empty. intros b s. apply bget_bclear. Qed.

Lemma count_arr_bdealloc a : count_arr c (bdealloc a) = O.
Proof. apply count_arr_empty. intros b s. apply bget_bdealloc. Qed.

(* filling an empty in-range slot *)
Lemma count_arr_add a b s e :
  b < 2 ^ bhp a -> s < spb c -> bget a b s = None ->
  count_arr c (bset a b s (Some e)) = S (count_arr c a).
Proof.
  intros Hb Hs Hnone. rewrite !count_arr_unfold, st_bhp_bset.
  apply filter_length_flip with (x := (b, s)).
  - apply NoDup_positions.
  - apply st_In_positions. split; assumption.
  - unfold occ_at. cbn [fst snd]. apply occupied_false_iff. exact Hnone.
  - unfold occ_at. cbn [fst snd]. unfold occupied. rewrite bget_bset_same. reflexivity.
  - intros [b' s'] _ Hne. unfold occ_at, occupied. cbn [fst snd].
    rewrite st_bget_bset_other by exact Hne. reflexivity.
Qed.

(* emptying an occupied in-range slot *)
Lemma count_arr_del a b s e :
  b < 2 ^ bhp a -> s < spb c -> bget a b s = Some e ->
  count_arr c a = S (count_arr c (bset a b s None)).
Proof.
  intros Hb Hs Hsome. rewrite !count_arr_unfold, st_bhp_bset.
  apply filter_length_flip with (x := (b, s)).
  - apply NoDup_positions.
  - apply st_In_positions. split; assumption.
  - unfold occ_at. cbn [fst snd]. unfold occupied. rewrite bget_bset_same. reflexivity.
  - unfold occ_at. cbn [fst snd]. unfold occupied. rewrite Hsome. reflexivity.
  - intros [b' s'] _ Hne. unfold occ_at, occupied. cbn [fst snd].
    rewrite st_bget_bset_other by exact Hne. reflexivity.
Qed.

Lemma count_arr_del_pred a b s e :
  b < 2 ^ bhp a -> s < spb c -> bget a b s = Some e ->
  count_arr c (bset a b s None) = pred (count_arr c a) /\ (0 < count_arr c a)%nat.
Proof.
  intros Hb Hs Hsome. rewrite (count_arr_del a b s e Hb Hs Hsome). split; [reflexivity|lia].
Qed.

(* overwriting an occupied slot (anywhere) with another element *)
Lemma count_arr_replace a b s e e' :
  bget a b s = Some e -> count_arr c (bset a b s (Some e')) = count_arr c a.
Proof.
  intro Hsome. apply count_arr_ext; [reflexivity|].
  intros b' s' _ _. unfold occupied. rewrite st_bget_bset.
  destruct ((b' =? b) && (s' =? s)) eqn:E; [|reflexivity].
  apply andb_true_iff in E. destruct E as [E1 E2].
  apply N.eqb_eq in E1. apply N.eqb_eq in E2. subst. rewrite Hsome. reflexivity.
Qed.

(* writing None to an empty slot, or anything to an out-of-range slot, changes nothing *)
Lemma count_arr_del_empty a b s :
  bget a b s = None -> count_arr c (bset a b s None) = count_arr c a.
Proof.
  intro Hnone. apply count_arr_ext; [reflexivity|].
  intros b' s' _ _. unfold occupied. rewrite st_bget_bset.
  destruct ((b' =? b) && (s' =? s)) eqn:E; [|reflexivity].
  apply andb_true_iff in E. destruct E as [E1 E2].
  apply N.eqb_eq in E1. apply N.eqb_eq in E2. subst. rewrite Hnone. reflexivity.
Qed.

Lemma count_arr_out_of_range a b s e :
  ~ (b < 2 ^ bhp a /\ s < spb c) -> count_arr c (bset a b s e) = count_arr c a.
Proof.
  intro Hout. apply count_arr_ext; [reflexivity|].
  intros b' s' Hb Hs. unfold occupied. rewrite st_bget_bset_other; [reflexivity|].
  intro E. inversion E; subst. apply Hout. split; assumption.
Qed.

(* the cuckoo move: an element leaves an occupied in-range slot for an empty in-range slot *)
Lemma count_arr_move a b1 s1 e b2 s2 e' :
  b1 < 2 ^ bhp a -> s1 < spb c -> b2 < 2 ^ bhp a -> s2 < spb c ->
  bget a b1 s1 = Some e -> bget a b2 s2 = None ->
  count_arr c (bset (bset a b2 s2 (Some e')) b1 s1 None) = count_arr c a.
Proof.
  intros Hb1 Hs1 Hb2 Hs2 Hsome Hnone.
  assert (Hne : (b1, s1) <> (b2, s2)).
  { intro E. inversion E; subst. congruence. }
  assert (H1 : count_arr c (bset a b2 s2 (Some e')) = S (count_arr c a))
    by (apply count_arr_add; assumption).
  assert (H2 : bget (bset a b2 s2 (Some e')) b1 s1 = Some e)
    by (rewrite st_bget_bset_other by exact Hne; exact Hsome).
  assert (H3 := count_arr_del (bset a b2 s2 (Some e')) b1 s1 e Hb1 Hs1 H2).
  lia.
Qed.

(* variants taking the range from arr_ok *)
Section WithHash.
Variable hash : N -> N.

Lemma count_arr_del_ok a b s e :
  arr_ok c hash a -> bget a b s = Some e ->
  count_arr c (bset a b s None) = pred (count_arr c a) /\ (0 < count_arr c a)%nat.
Proof.
  intros Hok Hsome. destruct (ao_range c hash a Hok b s e Hsome) as [Hb Hs].
  apply count_arr_del_pred with (e := e); assumption.
Qed.

Lemma count_arr_move_ok a b1 s1 e b2 s2 e' :
  arr_ok c hash a -> b2 < 2 ^ bhp a -> s2 < spb c ->
  bget a b1 s1 = Some e -> bget a b2 s2 = None ->
  count_arr c (bset (bset a b2 s2 (Some e')) b1 s1 None) = count_arr c a.
Proof.
  intros Hok Hb2 Hs2 Hsome Hnone. destruct (ao_range c hash a Hok b1 s1 e Hsome) as [Hb Hs].
  apply count_arr_move with (e := e); assumption.
Qed.

(* in a well-formed array every occupied slot is counted: the count is positive iff some
   slot is occupied *)
Lemma count_arr_pos_iff a :
  arr_ok c hash a -> ((0 < count_arr c a)%nat <-> exists b s e, bget a b s = Some e).
Proof.
  intro Hok. split.
  - intro Hpos. unfold count_arr in Hpos. destruct (occ_list c a) as [|[b s] r] eqn:E.
    + cbn [length] in Hpos. lia.
    + assert (Hin : In (b, s) (occ_list c a)) by (rewrite E; left; reflexivity).
      apply st_In_occ_list in Hin. destruct Hin as [_ Hocc].
      apply occupied_true_iff in Hocc. destruct Hocc as [e He]. exists b, s, e. exact He.
  - intros [b [s [e He]]]. apply (count_arr_del_ok a b s e Hok He).
Qed.

End WithHash.
End Count.

(* ================================================================== F. [counted] is preserved *)

Lemma locks_set_nrem t n : locks (set_nrem t n) = locks t.
Proof. unfold set_nrem. destruct (n =? 0); reflexivity. Qed.

Lemma cur_set_nrem t n : cur (set_nrem t n) = cur t.
Proof. unfold set_nrem. destruct (n =? 0); reflexivity. Qed.

Lemma cur_locks_set_nrem t n : cur_locks (set_nrem t n) = cur_locks t.
Proof. unfold cur_locks. rewrite locks_set_nrem. reflexivity. Qed.

Section Counted.
Variable c : config.

Lemma counted_set_cur_same t a :
  count_arr c a = count_arr c (cur t) -> counted c t -> counted c (set_cur t a).
Proof.
  intros Hc Ht. unfold counted in *. cbn [cur set_cur].
  change (cur_locks (set_cur t a)) with (cur_locks t). rewrite Hc. exact Ht.
Qed.

Lemma counted_set_nrem t n : counted c t -> counted c (set_nrem t n).
Proof. unfold counted. rewrite cur_locks_set_nrem, cur_set_nrem. auto. Qed.

(* the counter arithmetic of add_to_bucket / del_from_bucket *)
Lemma add_to_bucket_sum t b s p k v :
  locks t <> [] ->
  (N.to_nat (lock_ind_gen (kmax c) b) < length (cur_locks t))%nat ->
  sum_cnt (cur_locks (add_to_bucket c t b s p k v)) = (sum_cnt (cur_locks t) + 1)%Z.
Proof.
  intros Hne Hl. unfold add_to_bucket, lockind.
  rewrite st_cur_locks_upd_cur_lock by exact Hne.
  match goal with |- context [cur_locks (set_cur t ?a)] =>
    change (cur_locks (set_cur t a)) with (cur_locks t) end.
  rewrite sum_cnt_upd by exact Hl. cbn [cnt]. lia.
Qed.

Lemma del_from_bucket_sum t b s :
  locks t <> [] ->
  (N.to_nat (lock_ind_gen (kmax c) b) < length (cur_locks t))%nat ->
  sum_cnt (cur_locks (del_from_bucket c t b s)) = (sum_cnt (cur_locks t) - 1)%Z.
Proof.
  intros Hne Hl. unfold del_from_bucket, lockind.
  rewrite st_cur_locks_upd_cur_lock by exact Hne.
  match goal with |- context [cur_locks (set_cur t ?a)] =>
    change (cur_locks (set_cur t a)) with (cur_locks t) end.
  rewrite sum_cnt_upd by exact Hl. cbn [cnt]. lia.
Qed.

Lemma add_to_bucket_cur t b s p k v :
  cur (add_to_bucket c t b s p k v) =
  bset (cur t) b s (Some {| ekey := k; eval := v; epart := p; ehusk := false |}).
Proof. reflexivity. Qed.

Lemma del_from_bucket_cur t b s : cur (del_from_bucket c t b s) = bset (cur t) b s None.
Proof. reflexivity. Qed.

Lemma add_to_bucket_locks_nonnil t b s p k v :
  locks t <> [] -> locks (add_to_bucket c t b s p k v) <> [].
Proof. intro H. unfold add_to_bucket. apply st_locks_upd_cur_lock_nonnil. exact H. Qed.

Lemma del_from_bucket_locks_nonnil t b s :
  locks t <> [] -> locks (del_from_bucket c t b s) <> [].
Proof. intro H. unfold del_from_bucket. apply st_locks_upd_cur_lock_nonnil. exact H. Qed.

Lemma add_to_bucket_locks_length t b s p k v :
  locks t <> [] ->
  length (cur_locks (add_to_bucket c t b s p k v)) = length (cur_locks t).
Proof.
  intro Hne. unfold add_to_bucket. rewrite st_cur_locks_upd_cur_lock by exact Hne.
  rewrite st_upd_length. reflexivity.
Qed.

Lemma del_from_bucket_locks_length t b s :
  locks t <> [] ->
  length (cur_locks (del_from_bucket c t b s)) = length (cur_locks t).
Proof.
  intro Hne. unfold del_from_bucket. rewrite st_cur_locks_upd_cur_lock by exact Hne.
  rewrite st_upd_length. reflexivity.
Qed.

Lemma counted_add_to_bucket t b s p k v :
  counted c t -> locks t <> [] ->
  b < 2 ^ bhp (cur t) -> s < spb c -> bget (cur t) b s = None ->
  (N.to_nat (lock_ind_gen (kmax c) b) < length (cur_locks t))%nat ->
  counted c (add_to_bucket c t b s p k v).
Proof.
  intros Hc Hne Hb Hs Hnone Hl. unfold counted in *.
  rewrite add_to_bucket_sum by assumption.
  rewrite add_to_bucket_cur, count_arr_add by assumption.
  rewrite Hc. lia.
Qed.

Lemma counted_del_from_bucket t b s e :
  counted c t -> locks t <> [] ->
  b < 2 ^ bhp (cur t) -> s < spb c -> bget (cur t) b s = Some e ->
  (N.to_nat (lock_ind_gen (kmax c) b) < length (cur_locks t))%nat ->
  counted c (del_from_bucket c t b s).
Proof.
  intros Hc Hne Hb Hs Hsome Hl. unfold counted in *.
  rewrite del_from_bucket_sum by assumption.
  rewrite del_from_bucket_cur.
  rewrite Hc, (count_arr_del c (cur t) b s e Hb Hs Hsome). lia.
Qed.

(* the same two facts for a settled table: every side condition but the slot's state follows
   from the invariant *)
Lemma counted_add_to_bucket_settled hash t b s p k v :
  settled c hash t -> counted c t ->
  b < 2 ^ bhp (cur t) -> s < spb c -> bget (cur t) b s = None ->
  counted c (add_to_bucket c t b s p k v).
Proof.
  intros Hst Hc Hb Hs Hnone.
  apply counted_add_to_bucket; try assumption.
  - apply (se_locks c hash t Hst).
  - apply (se_cover c hash t Hst). exact Hb.
Qed.

Lemma counted_del_from_bucket_settled hash t b s e :
  settled c hash t -> counted c t -> bget (cur t) b s = Some e ->
  counted c (del_from_bucket c t b s).
Proof.
  intros Hst Hc Hsome.
  destruct (ao_range c hash (cur t) (se_arr c hash t Hst) b s e Hsome) as [Hb Hs].
  apply counted_del_from_bucket with (e := e); try assumption.
  - apply (se_locks c hash t Hst).
  - apply (se_cover c hash t Hst). exact Hb.
Qed.

Lemma counted_maybe_resize_locks t nb :
  counted c t -> counted c (maybe_resize_locks c t nb).
Proof.
  unfold counted. rewrite maybe_resize_locks_sum, maybe_resize_locks_cur. auto.
Qed.

Lemma cuckoo_clear_cur t : cur (cuckoo_clear t) = bclear (cur t).
Proof. unfold cuckoo_clear. cbn [cur set_locks]. rewrite cur_set_nrem. reflexivity. Qed.

Lemma cuckoo_clear_cur_locks t :
  locks t <> [] -> cur_locks (cuckoo_clear t) = map (fun _ => dflt_lock) (cur_locks t).
Proof.
  intro Hne. unfold cuckoo_clear.
  rewrite cur_locks_upd_last.
  - rewrite cur_locks_set_nrem. reflexivity.
  - rewrite locks_set_nrem. exact Hne.
Qed.

Lemma cuckoo_clear_locks_nonnil t : locks t <> [] -> locks (cuckoo_clear t) <> [].
Proof.
  intro Hne. unfold cuckoo_clear. cbn [locks set_locks]. apply st_upd_last_nonnil.
  rewrite locks_set_nrem. exact Hne.
Qed.

Lemma counted_cuckoo_clear t : locks t <> [] -> counted c (cuckoo_clear t).
Proof.
  intro Hne. unfold counted.
  rewrite cuckoo_clear_cur_locks by exact Hne.
  rewrite cuckoo_clear_cur, count_arr_bclear.
  rewrite sum_cnt_map_const; [reflexivity|]. intro l. reflexivity.
Qed.

Lemma cuckoo_clear_tsize t : tsize (cuckoo_clear t) = 0.
Proof.
  destruct (locks t) as [|x r] eqn:E.
  - apply tsize_nil. unfold cuckoo_clear. cbn [locks set_locks].
    rewrite locks_set_nrem. cbn [locks set_cur]. rewrite E. reflexivity.
  - assert (Hne : locks t <> []) by (rewrite E; discriminate).
    apply N2Z.inj. rewrite tsize_mod by (apply cuckoo_clear_locks_nonnil; exact Hne).
    rewrite cuckoo_clear_cur_locks by exact Hne.
    rewrite sum_cnt_map_const; [reflexivity|]. intro l. reflexivity.
Qed.

(* ---- operator>> *)

Lemma cur_locks_set_mhp_op t m : cur_locks (fst (set_mhp_op t m)) = cur_locks t.
Proof. unfold cur_locks. rewrite set_mhp_op_locks. reflexivity. Qed.

Definition stream_in_pre (t : table) (im : image) : table :=
  fst (set_mhp_op
    (set_mlf
      (let t1 := set_cur t {| bhp := ihp im; bsl := isl im; bdead := false |} in
       let t2 := maybe_resize_locks c t1 (bucket_count t1) in
       let t3 := set_locks t2 (upd_last (map (fun lk => {| cnt := 0%Z; mig := mig lk |})) (locks t2)) in
       if 0 <? isize im
       then upd_cur_lock t3 0 (fun lk => {| cnt := Z.of_N (isize im); mig := mig lk |})
       else t3)
      (imlfn im) (imlfd im))
    (imhp im)).

(* the result of operator>> is [stream_in_pre] up to the resize-counter bump at the end *)
Lemma stream_in_fst t im :
  cur (fst (stream_in c t im)) = cur (stream_in_pre t im) /\
  locks (fst (stream_in c t im)) = locks (stream_in_pre t im).
Proof.
  unfold stream_in, stream_in_pre. cbv zeta.
  match goal with |- context [let '(a, b) := ?x in _] => destruct x as [t6 o] end.
  cbn [fst].
  destruct o as [|r0 o']; [split; reflexivity|].
  destruct r0; try (split; reflexivity).
  destruct o'; split; reflexivity.
Qed.

Lemma stream_in_cur_locks_pre t im :
  cur_locks (fst (stream_in c t im)) = cur_locks (stream_in_pre t im).
Proof. unfold cur_locks. destruct (stream_in_fst t im) as [_ Hl]. rewrite Hl. reflexivity. Qed.

Lemma stream_in_cur t im :
  cur (fst (stream_in c t im)) = {| bhp := ihp im; bsl := isl im; bdead := false |}.
Proof.
  destruct (stream_in_fst t im) as [Hcur _]. rewrite Hcur. unfold stream_in_pre.
  rewrite set_mhp_op_cur. cbv zeta. cbn [cur set_mlf].
  destruct (0 <? isize im).
  - rewrite st_cur_upd_cur_lock. cbn [cur set_locks]. rewrite maybe_resize_locks_cur. reflexivity.
  - cbn [cur set_locks]. rewrite maybe_resize_locks_cur. reflexivity.
Qed.

Lemma stream_in_sum t im :
  locks t <> [] -> cur_locks t <> [] ->
  sum_cnt (cur_locks (fst (stream_in c t im))) = Z.of_N (isize im).
Proof.
  intros Hne Hcl.
  rewrite stream_in_cur_locks_pre. unfold stream_in_pre. rewrite cur_locks_set_mhp_op. cbv zeta.
  match goal with |- context [cur_locks (set_mlf ?x ?n ?d)] =>
    change (cur_locks (set_mlf x n d)) with (cur_locks x) end.
  set (t1 := set_cur t {| bhp := ihp im; bsl := isl im; bdead := false |}).
  set (t2 := maybe_resize_locks c t1 (bucket_count t1)).
  assert (Hne2 : locks t2 <> []) by (apply maybe_resize_locks_nonnil; exact Hne).
  assert (Hcl2 : exists y r, cur_locks t2 = y :: r).
  { destruct (maybe_resize_locks_cur_locks c t1 (bucket_count t1)) as [k E].
    fold t2 in E. change (cur_locks t1) with (cur_locks t) in E.
    destruct (cur_locks t) as [|y r]; [congruence|].
    rewrite <- app_comm_cons in E. eauto. }
  destruct Hcl2 as [y [r Ecl]].
  set (zero := fun lk : lockm => {| cnt := 0%Z; mig := mig lk |}).
  set (t3 := set_locks t2 (upd_last (map zero) (locks t2))).
  assert (E3 : cur_locks t3 = map zero (cur_locks t2)).
  { unfold t3. apply cur_locks_upd_last. exact Hne2. }
  assert (Hne3 : locks t3 <> []).
  { unfold t3. cbn [locks set_locks]. apply st_upd_last_nonnil. exact Hne2. }
  assert (S3 : sum_cnt (map zero (y :: r)) = 0%Z).
  { apply sum_cnt_map_const. intro l. reflexivity. }
  destruct (0 <? isize im) eqn:Ez.
  - rewrite st_cur_locks_upd_cur_lock by exact Hne3.
    rewrite E3, Ecl.
    rewrite sum_cnt_upd by (cbn [map length]; lia).
    rewrite S3. cbn [map nth N.to_nat zero cnt]. lia.
  - apply N.ltb_ge in Ez. rewrite E3, Ecl, S3. lia.
Qed.

(* reading a stream establishes [counted] exactly when the recorded size is the number of
   (in-range) elements in the image *)
Lemma counted_stream_in t im :
  locks t <> [] -> cur_locks t <> [] ->
  (counted c (fst (stream_in c t im)) <->
   Z.of_N (isize im) =
   Z.of_nat (count_arr c {| bhp := ihp im; bsl := isl im; bdead := false |})).
Proof.
  intros Hne Hcl. unfold counted.
  rewrite stream_in_sum by assumption. rewrite stream_in_cur. reflexivity.
Qed.

End Counted.

(* ================================================================== G. the fresh table *)

Section NewTable.
Variable c : config.
Variable hash : N -> N.

Lemma arr_ok_bnew hp : hp < 62 -> arr_ok c hash (bnew hp).
Proof.
  intro H. constructor.
  - exact H.
  - intros b s e He. rewrite st_bget_bnew in He. discriminate.
  - intros b s e He. rewrite st_bget_bnew in He. discriminate.
  - intros b s e He. rewrite st_bget_bnew in He. discriminate.
  - intros b s e He. rewrite st_bget_bnew in He. discriminate.
  - intros b s e b' s' e' He. rewrite st_bget_bnew in He. discriminate.
Qed.

Lemma new_table_cur_locks n :
  cur_locks (new_table c n) =
  repeat dflt_lock (N.to_nat (N.min (hashsize (reserve_calc c n)) (kmax c))).
Proof. reflexivity. Qed.

Lemma new_table_ok n :
  cfg_ok c -> reserve_calc c n < 62 ->
  settled c hash (new_table c n) /\ counted c (new_table c n) /\
  tsize (new_table c n) = 0 /\ mhp (new_table c n) = NO_MAXIMUM_HASHPOWER /\
  hashpower (new_table c n) = reserve_calc c n.
Proof.
  intros Hcfg Hhp.
  assert (Hsum : sum_cnt (cur_locks (new_table c n)) = 0%Z).
  { rewrite new_table_cur_locks. apply sum_cnt_repeat_dflt. }
  split; [|split; [|split; [|split]]].
  - constructor.
    + cbn [cur new_table]. apply arr_ok_bnew. exact Hhp.
    + reflexivity.
    + intros l Hin. rewrite new_table_cur_locks in Hin. apply repeat_spec in Hin.
      subst l. reflexivity.
    + cbn [locks new_table]. discriminate.
    + intros b Hb. cbn [cur new_table bnew bhp] in Hb.
      rewrite new_table_cur_locks, repeat_length.
      unfold kmax. rewrite lock_ind_gen_spec by (apply (co_lbits c Hcfg)).
      rewrite hashsize_spec by lia.
      assert (Hm : b mod 2 ^ lbits c < 2 ^ lbits c)
        by (apply N.mod_lt, N.pow_nonzero; lia).
      assert (Hle : b mod 2 ^ lbits c <= b)
        by (apply N.mod_le, N.pow_nonzero; lia).
      set (x := b mod 2 ^ lbits c) in *.
      set (P := 2 ^ lbits c) in *. set (Q := 2 ^ reserve_calc c n) in *.
      clearbody x P Q. lia.
  - unfold counted. rewrite Hsum. cbn [cur new_table]. rewrite count_arr_bnew. reflexivity.
  - apply N2Z.inj. rewrite tsize_mod by (cbn [locks new_table]; discriminate).
    rewrite Hsum. reflexivity.
  - reflexivity.
  - reflexivity.
Qed.

End NewTable.

(* ================================================================== C. reserve_calc *)

Lemma wrap64_shiftl_small k : k <= 63 -> wrap64 (N.shiftl 1 k) = 2 ^ k.
Proof.
  intro H. rewrite N.shiftl_1_l. unfold wrap64. apply wrap_small.
  apply pow2_lt_mono. lia.
Qed.

Lemma wrap64_shiftl_64 : wrap64 (N.shiftl 1 64) = 0.
Proof. reflexivity. Qed.

Lemma wrap64_le x : wrap64 x <= x.
Proof. unfold wrap64, wrap. apply N.mod_le. apply N.pow_nonzero. lia. Qed.

(* the loop stops at the first blog2 with 2^blog2 >= buckets, provided it does so before the
   shift overflows (buckets <= 2^63) *)
Lemma reserve_calc_loop_inv buckets : forall fuel blog2,
  buckets <= 2 ^ 63 ->
  blog2 + N.of_nat fuel = 65 ->
  (forall j, j < blog2 -> 2 ^ j < buckets) ->
  blog2 <= reserve_calc_loop buckets blog2 fuel /\
  reserve_calc_loop buckets blog2 fuel <= 63 /\
  buckets <= 2 ^ reserve_calc_loop buckets blog2 fuel /\
  (forall j, j < reserve_calc_loop buckets blog2 fuel -> 2 ^ j < buckets).
Proof.
  assert (H6364 : 2 ^ 63 < 2 ^ 64) by (apply pow2_lt_mono; lia).
  induction fuel as [|fuel IH]; intros blog2 Hb Hsum Hinv.
  - exfalso. assert (E : blog2 = 65) by lia. subst blog2.
    assert (H := Hinv 64 ltac:(lia)).
    set (P := 2 ^ 63) in *. set (Q := 2 ^ 64) in *. clearbody P Q. lia.
  - assert (Hle : blog2 <= 63).
    { destruct (N.le_gt_cases blog2 63) as [H|H]; [exact H|]. exfalso.
      assert (H' := Hinv 63 ltac:(lia)).
      set (P := 2 ^ 63) in *. clearbody P. lia. }
    cbn [reserve_calc_loop]. rewrite wrap64_shiftl_small by exact Hle.
    destruct (2 ^ blog2 <? buckets) eqn:Et.
    + apply N.ltb_lt in Et.
      destruct (IH (blog2 + 1)) as [H1 [H2 [H3 H4]]].
      * exact Hb.
      * lia.
      * intros j Hj. destruct (N.eq_dec j blog2) as [->|Hne]; [exact Et|].
        apply Hinv. lia.
      * split; [lia|]. split; [exact H2|]. split; [exact H3|exact H4].
    + apply N.ltb_ge in Et.
      split; [lia|]. split; [exact Hle|]. split; [exact Et|exact Hinv].
Qed.

(* without the bound: the result is still large enough, but may be 65 (see below) *)
Lemma reserve_calc_loop_upper buckets : forall fuel blog2,
  buckets < 2 ^ 64 ->
  blog2 + N.of_nat fuel = 65 ->
  blog2 <= reserve_calc_loop buckets blog2 fuel /\
  reserve_calc_loop buckets blog2 fuel <= 65 /\
  buckets <= 2 ^ reserve_calc_loop buckets blog2 fuel.
Proof.
  induction fuel as [|fuel IH]; intros blog2 Hb Hsum.
  - cbn [reserve_calc_loop]. assert (E : blog2 = 65) by lia. subst blog2.
    split; [lia|]. split; [lia|].
    assert (H : 2 ^ 64 < 2 ^ 65) by (apply pow2_lt_mono; lia).
    set (P := 2 ^ 64) in *. set (Q := 2 ^ 65) in *. clearbody P Q. lia.
  - cbn [reserve_calc_loop].
    destruct (wrap64 (N.shiftl 1 blog2) <? buckets) eqn:Et.
    + destruct (IH (blog2 + 1) Hb ltac:(lia)) as [H1 [H2 H3]].
      split; [lia|]. split; [exact H2|exact H3].
    + apply N.ltb_ge in Et. split; [lia|]. split; [lia|].
      eapply N.le_trans; [exact Et|].
      rewrite N.shiftl_1_l. apply wrap64_le.
Qed.

(* more than 2^63 buckets: the shift wraps to 0 at blog2 = 64 and the loop runs out of fuel *)
Lemma reserve_calc_loop_overflow buckets : forall fuel blog2,
  2 ^ 63 < buckets ->
  blog2 + N.of_nat fuel = 65 ->
  reserve_calc_loop buckets blog2 fuel = 65.
Proof.
  induction fuel as [|fuel IH]; intros blog2 Hb Hsum.
  - cbn [reserve_calc_loop]. lia.
  - cbn [reserve_calc_loop].
    assert (Et : (wrap64 (N.shiftl 1 blog2) <? buckets) = true).
    { apply N.ltb_lt. destruct (N.le_gt_cases blog2 63) as [H|H].
      - rewrite wrap64_shiftl_small by exact H.
        assert (Hp : 2 ^ blog2 <= 2 ^ 63) by (apply pow2_le_mono; exact H).
        set (P := 2 ^ blog2) in *. set (Q := 2 ^ 63) in *. clearbody P Q. lia.
      - assert (E : blog2 = 64) by lia. subst blog2. rewrite wrap64_shiftl_64.
        assert (Hp := pow2_pos 63). set (Q := 2 ^ 63) in *. clearbody Q. lia. }
    rewrite Et. apply IH; [exact Hb|lia].
Qed.

Section Reserve.
Variable c : config.

(* the bucket count computed by reserve_calc is ceil(n / spb) when n + spb does not wrap *)
Lemma reserve_calc_buckets n :
  0 < spb c -> n + spb c < 2 ^ 64 ->
  wrap64 (wrap64 (n + spb c) + 18446744073709551616 - 1) / spb c = (n + spb c - 1) / spb c.
Proof.
  intros Hs Hn. f_equal. unfold wrap64. rewrite (wrap_small 64 (n + spb c)) by exact Hn.
  change 18446744073709551616 with (2 ^ 64).
  unfold wrap.
  replace (n + spb c + 2 ^ 64 - 1) with (n + spb c - 1 + 1 * 2 ^ 64) by lia.
  rewrite N.mod_add by (apply N.pow_nonzero; lia).
  apply N.mod_small. lia.
Qed.

Lemma reserve_calc_unfold n :
  0 < spb c -> n + spb c < 2 ^ 64 ->
  reserve_calc c n = reserve_calc_loop ((n + spb c - 1) / spb c) 0 reserve_calc_loop_fuel.
Proof.
  intros Hs Hn. unfold reserve_calc. cbv zeta. rewrite reserve_calc_buckets by assumption.
  reflexivity.
Qed.

(* ceil(n/spb) * spb >= n, and anything below ceil(n/spb) is too small *)
Lemma ceil_div_props n s :
  0 < s ->
  n <= ((n + s - 1) / s) * s /\ (forall p, p < (n + s - 1) / s -> p * s < n).
Proof.
  intro Hs.
  assert (Hne : s <> 0) by lia.
  assert (Hdm := N.div_mod (n + s - 1) s Hne).
  assert (Hr := N.mod_lt (n + s - 1) s Hne).
  set (q := (n + s - 1) / s) in *. set (r := (n + s - 1) mod s) in *. clearbody q r.
  split.
  - lia.
  - intros p Hp.
    assert (Hm : s * (p + 1) <= s * q) by (apply N.mul_le_mono_l; lia).
    lia.
Qed.

(* MAIN: the requested capacity fits, and the hashpower is the least that fits.
   The hypothesis n <= 2^63 * spb is necessary: see reserve_calc_overflow. *)
Lemma reserve_calc_spec n :
  0 < spb c -> n + spb c < 2 ^ 64 -> n <= 2 ^ 63 * spb c ->
  n <= 2 ^ reserve_calc c n * spb c /\
  (forall h', h' < reserve_calc c n -> 2 ^ h' * spb c < n) /\
  reserve_calc c n <= 63.
Proof.
  intros Hs Hn Hbig.
  rewrite reserve_calc_unfold by assumption.
  destruct (ceil_div_props n (spb c) Hs) as [Hceil Hmin].
  assert (Hq : (n + spb c - 1) / spb c <= 2 ^ 63).
  { apply N.lt_succ_r. apply N.div_lt_upper_bound; [lia|].
    set (P := 2 ^ 63) in *. clearbody P. lia. }
  set (q := (n + spb c - 1) / spb c) in *. clearbody q.
  destruct (reserve_calc_loop_inv q reserve_calc_loop_fuel 0 Hq) as [_ [H63 [Hfit Hleast]]].
  - reflexivity.
  - intros j Hj. lia.
  - set (h := reserve_calc_loop q 0 reserve_calc_loop_fuel) in *. clearbody h.
    split; [|split].
    + assert (Hm : q * spb c <= 2 ^ h * spb c) by (apply N.mul_le_mono_r; exact Hfit).
      set (P := 2 ^ h) in *. clearbody P. lia.
    + intros h' Hh'. apply Hmin. apply Hleast. exact Hh'.
    + exact H63.
Qed.

(* with at least two slots per bucket the extra hypothesis is automatic *)
Lemma reserve_calc_spec_spb2 n :
  2 <= spb c -> n + spb c < 2 ^ 64 ->
  n <= 2 ^ reserve_calc c n * spb c /\
  (forall h', h' < reserve_calc c n -> 2 ^ h' * spb c < n) /\
  reserve_calc c n <= 63.
Proof.
  intros Hs Hn. apply reserve_calc_spec; [lia|exact Hn|].
  assert (E : 2 ^ 64 = 2 ^ 63 * 2) by reflexivity.
  assert (Hm : 2 ^ 63 * 2 <= 2 ^ 63 * spb c) by (apply N.mul_le_mono_l; exact Hs).
  set (P := 2 ^ 63) in *. set (Q := 2 ^ 64) in *. clearbody P Q. lia.
Qed.

(* unconditional part: the result always fits the request and is at most 65 *)
Lemma reserve_calc_fits n :
  0 < spb c -> n + spb c < 2 ^ 64 ->
  n <= 2 ^ reserve_calc c n * spb c /\ reserve_calc c n <= 65.
Proof.
  intros Hs Hn.
  rewrite reserve_calc_unfold by assumption.
  destruct (ceil_div_props n (spb c) Hs) as [Hceil _].
  assert (Hq : (n + spb c - 1) / spb c < 2 ^ 64).
  { eapply N.le_lt_trans; [apply N.div_le_upper_bound with (q := n + spb c - 1); [lia|]|].
    - assert (H1 : 1 * (n + spb c - 1) <= spb c * (n + spb c - 1))
        by (apply N.mul_le_mono_r; lia).
      lia.
    - set (Q := 2 ^ 64) in *. clearbody Q. lia. }
  set (q := (n + spb c - 1) / spb c) in *. clearbody q.
  destruct (reserve_calc_loop_upper q reserve_calc_loop_fuel 0 Hq) as [_ [H65 Hfit]].
  - reflexivity.
  - set (h := reserve_calc_loop q 0 reserve_calc_loop_fuel) in *. clearbody h.
    split; [|exact H65].
    assert (Hm : q * spb c <= 2 ^ h * spb c) by (apply N.mul_le_mono_r; exact Hfit).
    set (P := 2 ^ h) in *. clearbody P. lia.
Qed.

(* DISCREPANCY with the wanted statement (h least, h <= 64): when more than 2^63 buckets are
   needed (only possible with spb = 1) the model answers 65, which is neither <= 64 nor least.
   Concrete instance: spb = 1, n = 2^63 + 1. *)
Lemma reserve_calc_overflow n :
  0 < spb c -> n + spb c < 2 ^ 64 -> 2 ^ 63 * spb c < n -> reserve_calc c n = 65.
Proof.
  intros Hs Hn Hbig.
  rewrite reserve_calc_unfold by assumption.
  apply reserve_calc_loop_overflow; [|reflexivity].
  destruct (ceil_div_props n (spb c) Hs) as [Hceil _].
  set (q := (n + spb c - 1) / spb c) in *. clearbody q.
  destruct (N.lt_ge_cases (2 ^ 63) q) as [H|H]; [exact H|]. exfalso.
  assert (Hm : q * spb c <= 2 ^ 63 * spb c) by (apply N.mul_le_mono_r; exact H).
  set (P := 2 ^ 63) in *. clearbody P. lia.
Qed.

End Reserve.

Example reserve_calc_overflow_example :
  let c1 := {| spb := 1; lbits := 16; simple := true; nothrow := true; destructive := false |} in
  (2 ^ 63 + 1) + spb c1 < 2 ^ 64 /\ reserve_calc c1 (2 ^ 63 + 1) = 65.
Proof. cbv zeta. split; vm_compute; reflexivity. Qed.
