(* L1 refinement on settled tables (no deferred migration): the insert family through expansions,
   clear, rehash/reserve, iteration.  Composes ArrLemmas, Stats, InsertLemmas, Resize, Iter. *)
From Coq Require Import NArith ZArith List Bool Lia FMapPositive.
From LC Require Import gen.HashGen Bits Core Api InvDefs ArrLemmas Stats InsertLemmas Resize Iter.
Import ListNotations.
Local Open Scope N_scope.

Section Refine.
Variable c : config.
Variable hash : N -> N.
Hypothesis Hc : cfg_ok c.

Notation arr_ok := (arr_ok c hash).
Notation settled := (settled c hash).
Notation counted := (counted c).
Notation same_contents := (same_contents c hash).

(* ================================================================== A. counting by keys *)

Definition key_at (a : barray) (p : N * N) : N :=
  match bget a (fst p) (snd p) with Some e => ekey e | None => 0 end.
Definition keys_of (a : barray) : list N := map (key_at a) (occ_list c a).

Lemma NoDup_map_on {A B : Type} (f : A -> B) (l : list A) :
  NoDup l -> (forall x y, In x l -> In y l -> f x = f y -> x = y) -> NoDup (map f l).
Proof.
  induction l as [|x l IH]; intros Hn Hinj; cbn [map]; [constructor|].
  inversion Hn as [|x' l' Hx Hl]; subst x' l'. constructor.
  - intro Hin. apply in_map_iff in Hin. destruct Hin as [y [Hy Hyin]].
    assert (E : y = x) by (apply Hinj; [right; exact Hyin|left; reflexivity|exact Hy]).
    subst y. contradiction.
  - apply IH; [exact Hl|]. intros y z Hy Hz. apply Hinj; right; assumption.
Qed.

Lemma keys_of_length a : length (keys_of a) = count_arr c a.
Proof. unfold keys_of, count_arr. apply map_length. Qed.

Lemma In_keys_of a k : arr_ok a -> (In k (keys_of a) <-> key_in a k).
Proof.
  intro Ha. unfold keys_of. rewrite in_map_iff. split.
  - intros [p [Hk Hp]]. apply In_occ_list in Hp. destruct Hp as [_ [_ Ho]].
    apply occupied_true in Ho. destruct Ho as [e He].
    unfold key_at in Hk. rewrite He in Hk. exists (fst p), (snd p), e. split; assumption.
  - intros [b [s [e [He Hk]]]]. exists (b, s). split.
    + unfold key_at. cbn [fst snd]. rewrite He. exact Hk.
    + apply In_occ_list. cbn [fst snd]. destruct (ao_range _ _ _ Ha _ _ _ He) as [Hb Hs].
      split; [exact Hb|]. split; [exact Hs|]. apply occupied_true. exists e. exact He.
Qed.

Lemma NoDup_keys_of a : arr_ok a -> NoDup (keys_of a).
Proof.
  intro Ha. unfold keys_of. apply NoDup_map_on; [apply occ_list_NoDup|].
  intros p q Hp Hq E.
  apply In_occ_list in Hp. destruct Hp as [_ [_ Hp]]. apply occupied_true in Hp. destruct Hp as [e He].
  apply In_occ_list in Hq. destruct Hq as [_ [_ Hq]]. apply occupied_true in Hq. destruct Hq as [e' He'].
  unfold key_at in E. rewrite He, He' in E.
  destruct (ao_uniq _ _ _ Ha _ _ _ _ _ _ He He' E) as [E1 E2].
  destruct p as [p1 p2], q as [q1 q2]. cbn [fst snd] in E1, E2. subst. reflexivity.
Qed.

Lemma count_arr_keys a a' :
  arr_ok a -> arr_ok a' -> (forall k, key_in a k <-> key_in a' k) -> count_arr c a = count_arr c a'.
Proof.
  intros Ha Ha' H. rewrite <- !keys_of_length. apply Nat.le_antisymm.
  - apply NoDup_incl_length; [apply NoDup_keys_of; exact Ha|].
    intros k Hk. apply (In_keys_of a' k Ha'). apply H. apply (In_keys_of a k Ha). exact Hk.
  - apply NoDup_incl_length; [apply NoDup_keys_of; exact Ha'|].
    intros k Hk. apply (In_keys_of a k Ha). apply H. apply (In_keys_of a' k Ha'). exact Hk.
Qed.

Lemma count_arr_holds a a' :
  arr_ok a -> arr_ok a' -> (forall k v, holds a' k v <-> holds a k v) -> count_arr c a' = count_arr c a.
Proof.
  intros Ha Ha' H. apply count_arr_keys; [exact Ha'|exact Ha|].
  intro k. rewrite !key_in_holds. split; intros [v Hv]; exists v; apply H; exact Hv.
Qed.

Lemma key_in_iff_holds a a' k :
  (forall k v, holds a' k v <-> holds a k v) -> (key_in a' k <-> key_in a k).
Proof.
  intro H. rewrite !key_in_holds. split; intros [v Hv]; exists v; apply H; exact Hv.
Qed.

(* ================================================================== B. the invariant *)

Definition good (t : table) : Prop :=
  settled t /\ counted t /\ bhp (cur t) < 60 /\ (length (cur_locks t) <= N.to_nat (kmax c))%nat.

(* the user-set limits *)
Definition lim_same (t t' : table) : Prop :=
  mlfn t' = mlfn t /\ mlfd t' = mlfd t /\ mhp t' = mhp t /\ workers t' = workers t.

(* same abstract contents and limits, hashpower not smaller *)
Definition evolves (t t' : table) : Prop :=
  good t' /\ (forall k v, holds (cur t') k v <-> holds (cur t) k v) /\ lim_same t t' /\
  bhp (cur t) <= bhp (cur t').

(* every doubling is immediate *)
Definition immediate (mode : bool) (t : table) : Prop := mode = true \/ mhp t <= lbits c.

Lemma lim_same_refl t : lim_same t t.
Proof. repeat split. Qed.

Lemma lim_same_trans t t' t'' : lim_same t t' -> lim_same t' t'' -> lim_same t t''.
Proof.
  intros [A1 [A2 [A3 A4]]] [B1 [B2 [B3 B4]]]. repeat split; congruence.
Qed.

Lemma evolves_refl t : good t -> evolves t t.
Proof.
  intro G. split; [exact G|]. split; [intros k v; reflexivity|]. split; [apply lim_same_refl|lia].
Qed.

Lemma evolves_trans t t' t'' : evolves t t' -> evolves t' t'' -> evolves t t''.
Proof.
  intros [_ [H1 [L1 B1]]] [G2 [H2 [L2 B2]]]. split; [exact G2|].
  split; [intros k v; rewrite H2; apply H1|]. split; [eapply lim_same_trans; eassumption|lia].
Qed.

Lemma same_contents_lim t t' : same_contents t t' -> lim_same t t'.
Proof.
  intros [_ [_ [_ [E _]]]]. rewrite E. repeat split.
Qed.

Lemma good_same_contents t t' : good t -> same_contents t t' -> evolves t t' /\ bhp (cur t') = bhp (cur t).
Proof.
  intros [St [Ct [Hb Hl]]] Hsc. assert (Hlim := same_contents_lim t t' Hsc).
  destruct Hsc as [St' [Hhp [Hlk [_ Hh]]]].
  assert (Hcl : cur_locks t' = cur_locks t) by (apply cur_locks_locks; exact Hlk).
  split; [|exact Hhp]. split.
  - split; [exact St'|]. split.
    + unfold InvDefs.counted in *. rewrite Hcl, Ct. f_equal. symmetry.
      apply count_arr_holds; [apply (se_arr _ _ _ St)|apply (se_arr _ _ _ St')|exact Hh].
    + split; [lia|]. rewrite Hcl. exact Hl.
  - split; [exact Hh|]. split; [exact Hlim|lia].
Qed.

(* ================================================================== C. automatic doubling *)

Lemma hashpower_eq t : hashpower t = bhp (cur t).
Proof. reflexivity. Qed.

Lemma lf_mlfn0 t : mlfn t = 0 -> lf_lt_mlf c t = false.
Proof. intro H. unfold lf_lt_mlf. rewrite H, N.mul_0_l. apply N.ltb_ge. lia. Qed.

Lemma lf_true_mlfn t : lf_lt_mlf c t = true -> mlfn t <> 0.
Proof. intros H E. rewrite (lf_mlfn0 t E) in H. discriminate. Qed.

Lemma fast_double_f_nothrow_unfold n auto mode t hp :
  nothrow c = true ->
  fast_double_f c hash (S n) auto mode t hp =
  match check_resize_validity c auto t hp (hp + 1) with
  | inl (Some e) => (t, inl e)
  | inl None => (t, inl EUnmodelled)
  | inr St_ok => (fast_double_body c hash mode t (hp + 1), inr St_ok)
  | inr st => (t, inr st)
  end.
Proof. intro H. cbn [fast_double_f]. rewrite H. reflexivity. Qed.

(* a doubling is immediate when the old array has fewer buckets than stripes, or in locked mode *)
Lemma fast_double_body_good mode t :
  good t ->
  hashsize (bhp (cur t)) < kmax c \/ mode = true ->
  bhp (cur t) + 1 < 60 ->
  let t' := fast_double_body c hash mode t (bhp (cur t) + 1) in
  good t' /\ bhp (cur t') = bhp (cur t) + 1 /\
  (forall k v, holds (cur t') k v <-> holds (cur t) k v) /\
  lim_same t t' /\ rc t' = wrap64 (rc t + 1) /\ nrem t' = 0.
Proof.
  intros [St [Ct [Hb Hl]]] Him Hb1.
  assert (Him' : hashsize (bhp (cur t)) < kmax c \/
                 mode = true /\ (length (cur_locks t) <= N.to_nat (kmax c))%nat).
  { destruct Him as [H|H]; [left; exact H|right; split; [exact H|exact Hl]]. }
  assert (Hb2 : bhp (cur t) + 1 < 62) by lia.
  destruct (fast_double_body_immediate c hash Hc mode t St Ct Hb2 Him')
    as [St' [Ct' [Hhp [Hh [Hrc [M1 [M2 [M3 [M4 [Hnr Hlen]]]]]]]]]].
  cbv zeta. split.
  - split; [exact St'|]. split; [exact Ct'|]. split; [lia|]. rewrite Hlen.
    apply Nat.max_lub; [exact Hl|]. lia.
  - split; [exact Hhp|]. split; [exact Hh|]. split; [repeat split; assumption|].
    split; assumption.
Qed.

Definition maxed (t : table) (new_hp : N) : Prop :=
  mhp t <> NO_MAXIMUM_HASHPOWER /\ mhp t < new_hp.

Lemma maxed_dec t n : maxed t n \/ ~ maxed t n.
Proof.
  unfold maxed. destruct (N.eq_dec (mhp t) NO_MAXIMUM_HASHPOWER) as [E|E].
  - right. intros [H _]. contradiction.
  - destruct (N.lt_ge_cases (mhp t) n) as [L|L].
    + left. split; assumption.
    + right. intros [_ H]. lia.
Qed.

(* with [mhp t <= lbits c] a permitted doubling starts below the stripe count *)
Lemma immediate_small mode t :
  immediate mode t -> ~ maxed t (bhp (cur t) + 1) -> bhp (cur t) < 60 ->
  hashsize (bhp (cur t)) < kmax c \/ mode = true.
Proof.
  intros [Hm|Hm] Hnm Hb; [right; exact Hm|left].
  assert (Hlb := co_lbits _ Hc).
  assert (Hle : bhp (cur t) + 1 <= lbits c).
  { destruct (N.le_gt_cases (bhp (cur t) + 1) (mhp t)) as [L|L]; [lia|].
    exfalso. apply Hnm. split; [|exact L]. unfold NO_MAXIMUM_HASHPOWER. lia. }
  rewrite hashsize_spec by lia. unfold kmax. apply pow2_lt_mono. lia.
Qed.

(* item 1, for any positive fuel and both kinds of request *)
Lemma fast_double_f_good n auto mode t :
  nothrow c = true -> good t -> immediate mode t ->
  let hp := bhp (cur t) in
  let r := fast_double_f c hash (S n) auto mode t hp in
  (maxed t (hp + 1) -> r = (t, inl EMaxHashpower)) /\
  (~ maxed t (hp + 1) -> auto = true -> lf_lt_mlf c t = true -> r = (t, inl ELoadFactorTooLow)) /\
  (~ maxed t (hp + 1) -> (auto = true -> lf_lt_mlf c t = false) ->
     r = (fast_double_body c hash mode t (hp + 1), inr St_ok) /\
     (hp + 1 < 60 ->
      let t' := fast_double_body c hash mode t (hp + 1) in
      good t' /\ bhp (cur t') = hp + 1 /\
      (forall k v, holds (cur t') k v <-> holds (cur t) k v) /\
      lim_same t t' /\ immediate mode t' /\ rc t' = wrap64 (rc t + 1) /\ nrem t' = 0)).
Proof.
  intros Hnt G Him hp r. subst r. rewrite (fast_double_f_nothrow_unfold n auto mode t hp Hnt).
  subst hp.
  split; [|split].
  - intro Hm. apply (crv_maxhp_iff c auto t (bhp (cur t)) (bhp (cur t) + 1)) in Hm. rewrite Hm. reflexivity.
  - intros Hm Ha Hlf.
    assert (E : check_resize_validity c auto t (bhp (cur t)) (bhp (cur t) + 1) = inl (Some ELoadFactorTooLow)).
    { apply crv_lf_iff. split; [exact Hm|]. split; assumption. }
    rewrite E. reflexivity.
  - intros Hm Hlf.
    assert (E : check_resize_validity c auto t (bhp (cur t)) (bhp (cur t) + 1) = inr St_ok).
    { rewrite <- (hashpower_eq t) at 1. apply crv_ok_intro; [|exact Hlf].
      unfold maxed in Hm. set (hp := bhp (cur t)) in *.
      destruct (N.eq_dec (mhp t) NO_MAXIMUM_HASHPOWER) as [E|E]; [left; exact E|right].
      destruct (N.le_gt_cases (hp + 1) (mhp t)) as [L|L]; [exact L|]. exfalso. apply Hm. split; assumption. }
    rewrite E. split; [reflexivity|]. intro Hb1.
    assert (Hb : bhp (cur t) < 60) by (destruct G as [_ [_ [Hb _]]]; exact Hb).
    destruct (fast_double_body_good mode t G (immediate_small mode t Him Hm Hb) Hb1)
      as [G' [Hhp [Hh [Hlim [Hrc Hnr]]]]].
    cbv zeta. split; [exact G'|]. split; [exact Hhp|]. split; [exact Hh|]. split; [exact Hlim|].
    split; [|split; assumption].
    destruct Him as [Hmode|Hmhp]; [left; exact Hmode|right].
    destruct Hlim as [_ [_ [E3 _]]]. rewrite E3. exact Hmhp.
Qed.

(* item 1 *)
Theorem cuckoo_fast_double_good mode t :
  nothrow c = true -> good t -> immediate mode t ->
  let hp := bhp (cur t) in
  (maxed t (hp + 1) -> cuckoo_fast_double c hash mode t hp = (t, inl EMaxHashpower)) /\
  (~ maxed t (hp + 1) -> lf_lt_mlf c t = true ->
     cuckoo_fast_double c hash mode t hp = (t, inl ELoadFactorTooLow)) /\
  (~ maxed t (hp + 1) -> lf_lt_mlf c t = false ->
     exists t', cuckoo_fast_double c hash mode t hp = (t', inr St_ok) /\
     (hp + 1 < 60 ->
      good t' /\ bhp (cur t') = hp + 1 /\
      (forall k v, holds (cur t') k v <-> holds (cur t) k v) /\
      lim_same t t' /\ immediate mode t' /\ rc t' = wrap64 (rc t + 1) /\ nrem t' = 0)).
Proof.
  intros Hnt G Him hp. unfold cuckoo_fast_double, resize_fuel.
  destruct (fast_double_f_good 5 true mode t Hnt G Him) as [H1 [H2 H3]]. cbv zeta in H1, H2, H3.
  fold hp in H1, H2, H3.
  split; [exact H1|]. split.
  - intros Hm Hlf. apply H2; [exact Hm|reflexivity|exact Hlf].
  - intros Hm Hlf. destruct (H3 Hm (fun _ => Hlf)) as [E Hg].
    eexists. split; [exact E|]. exact Hg.
Qed.

(* ================================================================== D. the insert loop *)

(* exceptions a policy check or a fuel bound may raise *)
Definition exn_ok (auto : bool) (t : table) (e : exn) : Prop :=
  (e = EMaxHashpower /\ mhp t <> NO_MAXIMUM_HASHPOWER) \/
  (e = ELoadFactorTooLow /\ auto = true /\ mlfn t <> 0) \/
  e = EOutOfFuel.

(* the table an exception leaves behind (the rebuild path of a type whose move is destructive
   leaves moved-from elements: known finding, excluded here) *)
Definition fail_ok (t t' : table) : Prop :=
  nothrow c = true \/ destructive c = false -> evolves t t'.

(* the run reached a well-formed table of 2^59 buckets and was allowed to double it *)
Definition esc (t : table) : Prop :=
  exists tm, evolves t tm /\ bhp (cur tm) = 59 /\ 60 <= mhp t.

Definition fd_post (t : table) (r : rres) : Prop :=
  esc t \/
  match snd r with
  | inr St_ok => evolves t (fst r) /\ bhp (cur t) < bhp (cur (fst r))
  | inr _ => False
  | inl e => exn_ok true t e /\ fail_ok t (fst r)
  end.

(* what the insert loop needs of its expansion function; [lim] constrains the maximum hashpower *)
Definition fd_ok (lim : N -> Prop) (fd : bool -> table -> N -> rres) (mode : bool) : Prop :=
  forall t, good t -> lim (mhp t) -> fd_post t (fd mode t (bhp (cur t))).

Lemma esc_evolves t t1 : evolves t t1 -> esc t1 -> esc t.
Proof.
  intros Ev [tm [Ev' [Hb Hm]]]. exists tm. split; [eapply evolves_trans; eassumption|].
  split; [exact Hb|]. destruct Ev as [_ [_ [[_ [_ [E _]]] _]]]. rewrite <- E. exact Hm.
Qed.

Lemma exn_ok_lim auto t t1 e : lim_same t t1 -> exn_ok auto t1 e -> exn_ok auto t e.
Proof.
  intros [E1 [_ [E3 _]]] [[He Hm]|[[He [Ha Hm]]|He]].
  - left. split; [exact He|]. rewrite <- E3. exact Hm.
  - right. left. split; [exact He|]. split; [exact Ha|]. rewrite <- E1. exact Hm.
  - right. right. exact He.
Qed.

Lemma fail_ok_evolves t t1 t2 : evolves t t1 -> fail_ok t1 t2 -> fail_ok t t2.
Proof. intros Ev Hf H. eapply evolves_trans; [exact Ev|apply Hf; exact H]. Qed.

Lemma evolves_good t t' : evolves t t' -> good t'.
Proof. intros [G _]. exact G. Qed.

Lemma evolves_lim t t' : evolves t t' -> lim_same t t'.
Proof. intros [_ [_ [L _]]]. exact L. Qed.

Lemma evolves_key_in t t' k : evolves t t' -> (key_in (cur t') k <-> key_in (cur t) k).
Proof. intros [_ [H _]]. apply key_in_iff_holds. exact H. Qed.

Lemma fd_ok_nothrow n mode :
  nothrow c = true ->
  fd_ok (fun x => mode = true \/ x <= lbits c) (fast_double_f c hash (S n) true) mode.
Proof.
  intros Hnt t G Hl. assert (Him : immediate mode t) by exact Hl.
  destruct (fast_double_f_good n true mode t Hnt G Him) as [H1 [H2 H3]]. cbv zeta in H1, H2, H3.
  unfold fd_post.
  destruct (maxed_dec t (bhp (cur t) + 1)) as [Hm|Hm].
  - rewrite (H1 Hm). right. cbn [fst snd]. split.
    + left. split; [reflexivity|]. destruct Hm as [Hm _]. exact Hm.
    + intros _. apply evolves_refl. exact G.
  - destruct (lf_lt_mlf c t) eqn:Hlf.
    + rewrite (H2 Hm eq_refl eq_refl). right. cbn [fst snd]. split.
      * right. left. split; [reflexivity|]. split; [reflexivity|]. apply lf_true_mlfn. exact Hlf.
      * intros _. apply evolves_refl. exact G.
    + destruct (H3 Hm (fun _ => eq_refl)) as [E Hg]. rewrite E. cbn [fst snd].
      destruct (N.lt_ge_cases (bhp (cur t) + 1) 60) as [L|L].
      * right. destruct (Hg L) as [G' [Hhp [Hh [Hlim _]]]]. split; [|lia].
        split; [exact G'|]. split; [exact Hh|]. split; [exact Hlim|lia].
      * left. exists t. split; [apply evolves_refl; exact G|].
        assert (Hb : bhp (cur t) < 60) by (destruct G as [_ [_ [Hb _]]]; exact Hb).
        split; [lia|]. unfold maxed in Hm.
        destruct (N.eq_dec (mhp t) NO_MAXIMUM_HASHPOWER) as [E'|E'].
        { rewrite E'. unfold NO_MAXIMUM_HASHPOWER. lia. }
        destruct (N.lt_ge_cases (mhp t) (bhp (cur t) + 1)) as [L'|L']; [|lia].
        exfalso. apply Hm. split; assumption.
Qed.

Definition il_post (t : table) (k : N) (t' : table) (res : il_result) : Prop :=
  esc t \/
  match res with
  | IL_pos pos j1 j2 =>
      evolves t t' /\ j1 = i1_of hash (bhp (cur t')) k /\ j2 = i2_of hash (bhp (cur t')) k /\
      ((pstatus pos = St_duplicated /\ key_in (cur t) k /\ bhp (cur t') = bhp (cur t) /\
        exists e, bget (cur t') (pindex pos) (pslot pos) = Some e /\ ekey e = k) \/
       (pstatus pos = St_ok /\ ~ key_in (cur t) k /\
        bget (cur t') (pindex pos) (pslot pos) = None /\
        cand hash (bhp (cur t')) k (pindex pos) /\ pslot pos < spb c))
  | IL_exn e => ~ key_in (cur t) k /\ exn_ok true t e /\ fail_ok t t'
  end.

Lemma il_post_evolves t t2 k t' res :
  evolves t t2 -> ~ key_in (cur t) k -> il_post t2 k t' res -> il_post t k t' res.
Proof.
  intros Ev Hk [He|H]; [left; eapply esc_evolves; eassumption|right].
  destruct res as [pos j1 j2|e].
  - destruct H as [Ev' [E1 [E2 Hcase]]]. split; [eapply evolves_trans; eassumption|].
    split; [exact E1|]. split; [exact E2|].
    destruct Hcase as [[_ [Hin _]]|[Hs [_ Hrest]]].
    + exfalso. apply Hk. apply (evolves_key_in t t2 k Ev). exact Hin.
    + right. split; [exact Hs|]. split; [exact Hk|exact Hrest].
  - destruct H as [_ [He Hf]]. split; [exact Hk|].
    split; [eapply exn_ok_lim; [apply (evolves_lim _ _ Ev)|exact He]|].
    eapply fail_ok_evolves; eassumption.
Qed.

(* a present key is found by the first probe: no displacement, no expansion, no exception *)
Lemma insert_loop_present fd mode t k fuel :
  good t -> key_in (cur t) k ->
  forall t' res,
  cuckoo_insert_loop c hash fd mode t k (i1_of hash (bhp (cur t)) k) (i2_of hash (bhp (cur t)) k) (S fuel)
    = (t', res) ->
  exists pos, res = IL_pos pos (i1_of hash (bhp (cur t)) k) (i2_of hash (bhp (cur t)) k) /\
    evolves t t' /\ bhp (cur t') = bhp (cur t) /\ pstatus pos = St_duplicated /\
    exists e, bget (cur t') (pindex pos) (pslot pos) = Some e /\ ekey e = k.
Proof.
  intros G Hk t' res E. assert (St : settled t) by (destruct G as [St _]; exact St).
  destruct (cuckoo_insert_spec c hash Hc mode t k St) as [t1 [r1 [E1 [Hsc [Hin _]]]]].
  cbv zeta in E1, Hin. destruct (Hin Hk) as [pos [-> [Hs He]]].
  rewrite (cuckoo_insert_loop_done c hash fd mode t k _ _ fuel t1 pos E1 (or_intror Hs)) in E.
  injection E as <- <-. exists pos. split; [reflexivity|].
  destruct (good_same_contents t t1 G Hsc) as [Ev Hhp].
  split; [exact Ev|]. split; [exact Hhp|]. split; [exact Hs|exact He].
Qed.

Lemma insert_loop_absent lim fd mode :
  fd_ok lim fd mode ->
  forall fuel t k, good t -> lim (mhp t) -> ~ key_in (cur t) k ->
  forall t' res,
  cuckoo_insert_loop c hash fd mode t k (i1_of hash (bhp (cur t)) k) (i2_of hash (bhp (cur t)) k) fuel
    = (t', res) ->
  il_post t k t' res.
Proof.
  intro Hfd. induction fuel as [|f IH]; intros t k G Hl Hk t' res E.
  - cbn [cuckoo_insert_loop] in E. injection E as <- <-. right. split; [exact Hk|].
    split; [right; right; reflexivity|]. intros _. apply evolves_refl. exact G.
  - assert (St : settled t) by (destruct G as [St _]; exact St).
    cbn [cuckoo_insert_loop] in E.
    destruct (cuckoo_insert_spec c hash Hc mode t k St) as [t1 [r1 [E1 [Hsc [_ Hout]]]]].
    cbv zeta in E1, Hout. rewrite E1 in E.
    destruct (good_same_contents t t1 G Hsc) as [Ev1 Hhp1].
    destruct (Hout Hk) as [->|[pos [-> Hcase]]].
    + injection E as <- <-. right. split; [exact Hk|]. split; [right; right; reflexivity|].
      intros _. exact Ev1.
    + destruct Hcase as [[Hs [Hg [Hidx Hslot]]]|Hs]; rewrite Hs in E.
      * injection E as <- <-. right. split; [exact Ev1|]. rewrite Hhp1.
        split; [reflexivity|]. split; [reflexivity|]. right.
        split; [exact Hs|]. split; [exact Hk|]. split; [exact Hg|]. split; [exact Hidx|exact Hslot].
      * assert (G1 := evolves_good _ _ Ev1). assert (L1 := evolves_lim _ _ Ev1).
        assert (Hl1 : lim (mhp t1)) by (destruct L1 as [_ [_ [E3 _]]]; rewrite E3; exact Hl).
        assert (Hp := Hfd t1 G1 Hl1). rewrite Hhp1 in Hp. rewrite hashpower_eq in E.
        destruct (fd mode t1 (bhp (cur t))) as [t2 r2]. unfold fd_post in Hp. cbn [fst snd] in Hp.
        destruct Hp as [He|Hp]; [left; eapply esc_evolves; eassumption|].
        destruct r2 as [e|st].
        { injection E as <- <-. destruct Hp as [He Hf]. right. split; [exact Hk|].
          split; [eapply exn_ok_lim; eassumption|]. eapply fail_ok_evolves; eassumption. }
        destruct st; try contradiction. destruct Hp as [Ev2 Hlt].
        assert (Ev02 : evolves t t2) by (eapply evolves_trans; eassumption).
        assert (G2 := evolves_good _ _ Ev2).
        assert (St2 : settled t2) by (destruct G2 as [St2 _]; exact St2).
        rewrite (snapshot_and_lock_two_settled c hash mode t2 k (se_mig _ _ _ St2)) in E.
        rewrite hashpower_eq in E.
        assert (Hl2 : lim (mhp t2)).
        { destruct (evolves_lim _ _ Ev02) as [_ [_ [E3 _]]]. rewrite E3. exact Hl. }
        assert (Hk2 : ~ key_in (cur t2) k).
        { intro H. apply Hk. apply (evolves_key_in t t2 k Ev02). exact H. }
        apply (il_post_evolves t t2 k t' res Ev02 Hk).
        apply (IH t2 k G2 Hl2 Hk2 t' res E).
Qed.

(* item 2 (generic in the expansion function) *)
Theorem insert_loop_gen lim fd mode :
  fd_ok lim fd mode ->
  forall fuel t k, good t -> lim (mhp t) ->
  forall t' res,
  cuckoo_insert_loop c hash fd mode t k (i1_of hash (bhp (cur t)) k) (i2_of hash (bhp (cur t)) k) (S fuel)
    = (t', res) ->
  il_post t k t' res.
Proof.
  intros Hfd fuel t k G Hl t' res E.
  assert (St : settled t) by (destruct G as [St _]; exact St).
  destruct (key_in_dec c hash t k (se_arr _ _ _ St)) as [Hk|Hk].
  - destruct (insert_loop_present fd mode t k fuel G Hk t' res E) as [pos [-> [Ev [Hhp [Hs He]]]]].
    right. split; [exact Ev|]. rewrite Hhp. split; [reflexivity|]. split; [reflexivity|].
    left. split; [exact Hs|]. split; [exact Hk|]. split; [reflexivity|]. exact He.
  - apply (insert_loop_absent lim fd mode Hfd (S fuel) t k G Hl Hk t' res E).
Qed.

(* ================================================================== E. the insert family *)

(* [a'] is [a] with key k bound to o (None: no binding) *)
Definition upd_holds (a a' : barray) (k : N) (o : option Z) : Prop :=
  forall k' v', holds a' k' v' <-> (k' <> k /\ holds a k' v') \/ (k' = k /\ o = Some v').

(* the binding of the key after the functor ran on current value cv *)
Definition final_of (g : Z -> bool -> option (Z * bool)) (cv : Z) (ins : bool) : option Z :=
  match g cv ins with
  | None => Some cv
  | Some (v', false) => Some v'
  | Some (_, true) => None
  end.

Definition log_of (g : Z -> bool -> option (Z * bool)) (cv : Z) (ins : bool) : list rv :=
  match g cv ins with None => [] | Some _ => [RFn cv ins] end.

Definition ures := (exn + (bool * list rv * (N * N)))%type.

(* uprase_gen with the expansion function abstracted (insert_with is the other instance) *)
Definition uprase_with (fd : bool -> table -> N -> rres) (mode : bool) (t : table) (k : N) (v : Z)
  (g : Z -> bool -> option (Z * bool)) : table * ures :=
  let '(t1, i1, i2) := snapshot_and_lock_two c hash mode t k in
  match cuckoo_insert_loop c hash fd mode t1 k i1 i2 insert_loop_fuel with
  | (t2, IL_exn e) => (t2, inl e)
  | (t2, IL_pos pos _ _) =>
    let inserted := match pstatus pos with St_ok => true | _ => false end in
    let t3 := if inserted then add_to_bucket c t2 (pindex pos) (pslot pos) (hashed_partial hash k) k v else t2 in
    let cur_v := val_at t3 (pindex pos) (pslot pos) in
    match g cur_v inserted with
    | None => (t3, inr (inserted, [], (pindex pos, pslot pos)))
    | Some (v', er) =>
      let t4 := set_val t3 (pindex pos) (pslot pos) v' in
      let t5 := if er then del_from_bucket c t4 (pindex pos) (pslot pos) else t4 in
      (t5, inr (inserted, [RFn cur_v inserted], (pindex pos, pslot pos)))
    end
  end.

Lemma uprase_gen_eq mode t k v g :
  uprase_gen c hash mode t k v g = uprase_with (cuckoo_fast_double c hash) mode t k v g.
Proof. unfold uprase_gen, uprase_with. reflexivity. Qed.

Lemma insert_with_eq fd t k v :
  insert_with c hash fd t k v =
  match uprase_with fd false t k v (fun _ _ => None) with
  | (t', inl e) => (t', Some e)
  | (t', inr _) => (t', None)
  end.
Proof.
  unfold insert_with, uprase_with.
  destruct (snapshot_and_lock_two c hash false t k) as [[t1 i1] i2].
  destruct (cuckoo_insert_loop c hash fd false t1 k i1 i2 insert_loop_fuel) as [t2 [pos j1 j2|e]];
    [|reflexivity].
  destruct (pstatus pos); reflexivity.
Qed.

Lemma good_set_val t b s e v :
  good t -> bget (cur t) b s = Some e ->
  let t' := set_val t b s v in
  good t' /\ lim_same t t' /\ bhp (cur t') = bhp (cur t) /\
  (exists e', bget (cur t') b s = Some e' /\ ekey e' = ekey e /\ eval e' = v) /\
  (forall k' v', holds (cur t') k' v' <-> (k' = ekey e /\ v' = v) \/ (k' <> ekey e /\ holds (cur t) k' v')).
Proof.
  intros [St [Ct [Hb Hl]]] He.
  destruct (set_val_settled c hash t b s e v St He) as [St' [Hhp [Hlk [He' Hh]]]].
  cbv zeta in *. split; [|split; [|split; [exact Hhp|split; [exact He'|exact Hh]]]].
  - split; [exact St'|]. split; [|split; [lia|]].
    + rewrite (set_val_occupied t b s e v He). apply counted_set_cur_same; [|exact Ct].
      apply (count_arr_replace c (cur t) b s e _ He).
    + rewrite (cur_locks_locks _ _ Hlk). exact Hl.
  - rewrite (set_val_occupied t b s e v He). repeat split.
Qed.

Lemma lim_same_del t b s : lim_same t (del_from_bucket c t b s).
Proof. repeat split. Qed.

Lemma lim_same_add t b s p k v : lim_same t (add_to_bucket c t b s p k v).
Proof. repeat split. Qed.

Lemma good_del t b s e :
  good t -> bget (cur t) b s = Some e ->
  let t' := del_from_bucket c t b s in
  good t' /\ lim_same t t' /\ bhp (cur t') = bhp (cur t) /\
  (forall k' v', holds (cur t') k' v' <-> holds (cur t) k' v' /\ k' <> ekey e).
Proof.
  intros [St [Ct [Hb Hl]]] He.
  destruct (del_from_bucket_settled c hash t b s e St He) as [St' [Hhp Hh]].
  cbv zeta in *. split; [|split; [apply lim_same_del|split; [exact Hhp|exact Hh]]].
  split; [exact St'|]. split; [|split; [lia|]].
  - apply (counted_del_from_bucket_settled c hash t b s e St Ct He).
  - rewrite (del_from_bucket_locks_length c t b s (se_locks _ _ _ St)). exact Hl.
Qed.

Lemma good_add t b s k v :
  good t -> bget (cur t) b s = None -> cand hash (bhp (cur t)) k b -> s < spb c ->
  ~ key_in (cur t) k ->
  let t' := add_to_bucket c t b s (partial_key (hash k)) k v in
  good t' /\ lim_same t t' /\ bhp (cur t') = bhp (cur t) /\
  bget (cur t') b s = Some {| ekey := k; eval := v; epart := partial_key (hash k); ehusk := false |} /\
  (forall k' v', holds (cur t') k' v' <-> (k' = k /\ v' = v) \/ (k' <> k /\ holds (cur t) k' v')).
Proof.
  intros [St [Ct [Hb Hl]]] Hg Hcand Hs Hk.
  assert (Hr : b < 2 ^ bhp (cur t)) by (apply (cand_range c hash t k b (se_arr _ _ _ St) Hcand)).
  destruct (add_to_bucket_settled c hash t b s k v St Hg Hr Hs Hcand Hk) as [St' [Hhp Hh]].
  cbv zeta in *. split; [|split; [apply lim_same_add|split; [exact Hhp|split; [|exact Hh]]]].
  - split; [exact St'|]. split; [|split; [lia|]].
    + apply (counted_add_to_bucket_settled c hash t b s _ k v St Ct Hr Hs Hg).
    + rewrite (add_to_bucket_locks_length c t b s _ k v (se_locks _ _ _ St)). exact Hl.
  - rewrite cur_add_to_bucket. apply bget_bset_eq.
Qed.

(* the part of uprase_fn after the position is known *)
Definition finish (t3 : table) (b s : N) (ins : bool) (g : Z -> bool -> option (Z * bool)) : table * ures :=
  let cur_v := val_at t3 b s in
  match g cur_v ins with
  | None => (t3, inr (ins, [], (b, s)))
  | Some (v', er) =>
    let t4 := set_val t3 b s v' in
    let t5 := if er then del_from_bucket c t4 b s else t4 in
    (t5, inr (ins, [RFn cur_v ins], (b, s)))
  end.

Lemma finish_good t3 b s e ins g :
  good t3 -> bget (cur t3) b s = Some e ->
  exists t', finish t3 b s ins g = (t', inr (ins, log_of g (eval e) ins, (b, s))) /\
    good t' /\ lim_same t3 t' /\ bhp (cur t') = bhp (cur t3) /\
    upd_holds (cur t3) (cur t') (ekey e) (final_of g (eval e) ins) /\
    (forall vf, final_of g (eval e) ins = Some vf ->
       exists e', bget (cur t') b s = Some e' /\ ekey e' = ekey e /\ eval e' = vf).
Proof.
  intros G He. assert (St : settled t3) by (destruct G as [St _]; exact St).
  assert (Ha := se_arr _ _ _ St).
  assert (Hself : holds (cur t3) (ekey e) (eval e)) by (exists b, s, e; repeat split; exact He).
  unfold finish, log_of, final_of, val_at. rewrite He.
  destruct (g (eval e) ins) as [[v' er]|].
  2:{ exists t3. split; [reflexivity|]. split; [exact G|]. split; [apply lim_same_refl|].
      split; [reflexivity|]. split.
      - intros k' v'. split.
        + intro H. destruct (N.eq_dec k' (ekey e)) as [E|E].
          * right. split; [exact E|]. subst k'. f_equal. apply (holds_fun c hash _ _ _ _ Ha Hself H).
          * left. split; assumption.
        + intros [[_ H]|[E H]]; [exact H|]. injection H as <-. subst k'. exact Hself.
      - intros vf H. injection H as <-. exists e. repeat split. exact He. }
  destruct (good_set_val t3 b s e v' G He) as [G4 [L4 [Hhp4 [[e4 [He4 [Hk4 Hv4]]] Hh4]]]].
  cbv zeta in G4, L4, Hhp4, He4, Hh4. destruct er.
  - destruct (good_del (set_val t3 b s v') b s e4 G4 He4) as [G5 [L5 [Hhp5 Hh5]]].
    cbv zeta in G5, L5, Hhp5, Hh5.
    eexists. split; [reflexivity|]. split; [exact G5|].
    split; [eapply lim_same_trans; eassumption|]. split; [congruence|]. split.
    + intros k' v''. rewrite Hh5, Hh4, Hk4. split.
      * intros [[[E _]|[E H]] Hne]; [contradiction|]. left. split; assumption.
      * intros [[E H]|[_ H]]; [|discriminate]. split; [right; split; assumption|exact E].
    + intros vf H. discriminate.
  - eexists. split; [reflexivity|]. split; [exact G4|]. split; [exact L4|]. split; [exact Hhp4|]. split.
    + intros k' v''. rewrite Hh4. split.
      * intros [[E1 E2]|[E H]]; [right; split; [exact E1|f_equal; symmetry; exact E2]|left; split; assumption].
      * intros [[E H]|[E H]]; [right; split; assumption|left]. injection H as <-. split; [exact E|reflexivity].
    + intros vf H. injection H as <-. exists e4. split; [exact He4|]. split; assumption.
Qed.

Definition up_post (t : table) (k : N) (v : Z) (g : Z -> bool -> option (Z * bool)) (t' : table)
  (r : ures) : Prop :=
  match r with
  | inl e => ~ key_in (cur t) k /\ exn_ok true t e /\ fail_ok t t'
  | inr (ins, log, (b, s)) =>
      good t' /\ lim_same t t' /\ bhp (cur t) <= bhp (cur t') /\
      exists cv,
        ((ins = false /\ holds (cur t) k cv /\ bhp (cur t') = bhp (cur t)) \/
         (ins = true /\ ~ key_in (cur t) k /\ cv = v)) /\
        log = log_of g cv ins /\
        upd_holds (cur t) (cur t') k (final_of g cv ins) /\
        (forall vf, final_of g cv ins = Some vf ->
           exists e, bget (cur t') b s = Some e /\ ekey e = k /\ eval e = vf)
  end.

Lemma upd_holds_pre a0 a a' k o :
  (forall k' v', holds a k' v' <-> holds a0 k' v') -> upd_holds a a' k o -> upd_holds a0 a' k o.
Proof.
  intros H U k' v'. rewrite (U k' v'), (H k' v'). reflexivity.
Qed.

(* item 3 (generic): any member of the insert family, any expansion function *)
Theorem uprase_with_good lim fd mode :
  fd_ok lim fd mode ->
  forall t k v g, good t -> lim (mhp t) ->
  forall t' r, uprase_with fd mode t k v g = (t', r) ->
  (key_in (cur t) k -> up_post t k v g t' r) /\
  (~ key_in (cur t) k -> esc t \/ up_post t k v g t' r).
Proof.
  intros Hfd t k v g G Hl t' r E.
  assert (St : settled t) by (destruct G as [St _]; exact St).
  unfold uprase_with in E.
  rewrite (snapshot_and_lock_two_settled c hash mode t k (se_mig _ _ _ St)) in E.
  rewrite hashpower_eq in E. change insert_loop_fuel with (S 69) in E.
  destruct (cuckoo_insert_loop c hash fd mode t k (i1_of hash (bhp (cur t)) k)
              (i2_of hash (bhp (cur t)) k) (S 69)) as [t2 res] eqn:El.
  split.
  - intro Hk.
    destruct (insert_loop_present fd mode t k 69 G Hk t2 res El) as [pos [-> [Ev [Hhp [Hs [e [He Hek]]]]]]].
    rewrite Hs in E. cbv zeta in E. fold (finish t2 (pindex pos) (pslot pos) false g) in E.
    destruct (finish_good t2 (pindex pos) (pslot pos) e false g (evolves_good _ _ Ev) He)
      as [t5 [Ef [G5 [L5 [Hhp5 [Hu Hp]]]]]].
    rewrite Ef in E. injection E as <- <-. unfold up_post. rewrite Hek in Hu, Hp.
    destruct Ev as [_ [Hh [L2 _]]].
    split; [exact G5|]. split; [exact (lim_same_trans _ _ _ L2 L5)|]. split; [lia|].
    exists (eval e). split.
    + left. split; [reflexivity|]. split; [|congruence]. apply Hh. exists (pindex pos), (pslot pos), e.
      repeat split; assumption.
    + split; [reflexivity|]. split; [|exact Hp]. eapply upd_holds_pre; eassumption.
  - intro Hk.
    assert (Hil := insert_loop_absent lim fd mode Hfd (S 69) t k G Hl Hk t2 res El).
    destruct Hil as [He|Hil]; [left; exact He|right].
    destruct res as [pos j1 j2|e].
    2:{ injection E as <- <-. exact Hil. }
    destruct Hil as [Ev [_ [_ [[_ [Hin _]]|[Hs [_ [Hg [Hcand Hslot]]]]]]]]; [contradiction|].
    rewrite Hs in E. cbv zeta in E. unfold hashed_partial in E.
    assert (G2 := evolves_good _ _ Ev).
    assert (Hk2 : ~ key_in (cur t2) k).
    { intro H. apply Hk. apply (evolves_key_in t t2 k Ev). exact H. }
    destruct (good_add t2 (pindex pos) (pslot pos) k v G2 Hg Hcand Hslot Hk2)
      as [G3 [L3 [Hhp3 [He3 Hh3]]]]. cbv zeta in G3, L3, Hhp3, He3, Hh3.
    set (t3 := add_to_bucket c t2 (pindex pos) (pslot pos) (partial_key (hash k)) k v) in *.
    fold (finish t3 (pindex pos) (pslot pos) true g) in E.
    destruct (finish_good t3 (pindex pos) (pslot pos) _ true g G3 He3)
      as [t5 [Ef [G5 [L5 [Hhp5 [Hu Hp]]]]]]. cbn [ekey eval] in Ef, Hu, Hp.
    rewrite Ef in E. injection E as <- <-. unfold up_post.
    destruct Ev as [_ [Hh [L2 Hb2]]].
    split; [exact G5|].
    split; [exact (lim_same_trans _ _ _ L2 (lim_same_trans _ _ _ L3 L5))|].
    split; [lia|]. exists v. split; [right; split; [reflexivity|split; [exact Hk|reflexivity]]|].
    split; [reflexivity|]. split; [|exact Hp].
    intros k' v'. rewrite (Hu k' v'), (Hh3 k' v'), (Hh k' v'). split.
    + intros [[Hne [[E1 _]|[_ H]]]|H]; [contradiction|left; split; assumption|right; exact H].
    + intros [[Hne H]|H]; [left; split; [exact Hne|right; split; assumption]|right; exact H].
Qed.

End Refine.
