(* L1 refinement on settled tables (no deferred migration): the insert family through expansions,
   clear, rehash/reserve, iteration.  Composes ArrLemmas, Stats, InsertLemmas, Resize, Iter. *)
From Coq Require Import NArith ZArith List Bool Lia FMapPositive.
From LC Require Import gen.HashGen Bits Core Api InvDefs ArrLemmas Stats InsertLemmas Resize Iter.
Import ListNotations.
Local Open Scope N_scope.

Section Refine.
Variable c : config.
Variable hash : N -> N.
Hypothesis Hc : cfg_ok c.

Notation arr_ok := (arr_ok c hash).
Notation settled := (settled c hash).
Notation counted := (counted c).
Notation same_contents := (same_contents c hash).

(* ================================================================== A. counting by keys *)

Definition key_at (a : barray) (p : N * N) : N :=
  match bget a (fst p) (snd p) with Some e => ekey e | None => 0 end.
Definition keys_of (a : barray) : list N := map (key_at a) (occ_list c a).

Lemma NoDup_map_on {A B : Type} (f : A -> B) (l : list A) :
  NoDup l -> (forall x y, In x l -> In y l -> f x = f y -> x = y) -> NoDup (map f l).
Proof.
  induction l as [|x l IH]; intros Hn Hinj; cbn [map]; [constructor|].
  inversion Hn as [|x' l' Hx Hl]; subst x' l'. constructor.
  - intro Hin. apply in_map_iff in Hin. destruct Hin as [y [Hy Hyin]].
    assert (E : y = x) by (apply Hinj; [right; exact Hyin|left; reflexivity|exact Hy]).
    subst y. contradiction.
  - apply IH; [exact Hl|]. intros y z Hy Hz. apply Hinj; right; assumption.
Qed.

Lemma keys_of_length a : length (keys_of a) = count_arr c a.
Proof. unfold keys_of, count_arr. apply map_length. Qed.

Lemma In_keys_of a k : arr_ok a -> (In k (keys_of a) <-> key_in a k).
Proof.
  intro Ha. unfold keys_of. rewrite in_map_iff. split.
  - intros [p [Hk Hp]]. apply In_occ_list in Hp. destruct Hp as [_ [_ Ho]].
    apply occupied_true in Ho. destruct Ho as [e He].
    unfold key_at in Hk. rewrite He in Hk. exists (fst p), (snd p), e. split; assumption.
  - intros [b [s [e [He Hk]]]]. exists (b, s). split.
    + unfold key_at. cbn [fst snd]. rewrite He. exact Hk.
    + apply In_occ_list. cbn [fst snd]. destruct (ao_range _ _ _ Ha _ _ _ He) as [Hb Hs].
      split; [exact Hb|]. split; [exact Hs|]. apply occupied_true. exists e. exact He.
Qed.

Lemma NoDup_keys_of a : arr_ok a -> NoDup (keys_of a).
Proof.
  intro Ha. unfold keys_of. apply NoDup_map_on; [apply occ_list_NoDup|].
  intros p q Hp Hq E.
  apply In_occ_list in Hp. destruct Hp as [_ [_ Hp]]. apply occupied_true in Hp. destruct Hp as [e He].
  apply In_occ_list in Hq. destruct Hq as [_ [_ Hq]]. apply occupied_true in Hq. destruct Hq as [e' He'].
  unfold key_at in E. rewrite He, He' in E.
  destruct (ao_uniq _ _ _ Ha _ _ _ _ _ _ He He' E) as [E1 E2].
  destruct p as [p1 p2], q as [q1 q2]. cbn [fst snd] in E1, E2. subst. reflexivity.
Qed.

Lemma count_arr_keys a a' :
  arr_ok a -> arr_ok a' -> (forall k, key_in a k <-> key_in a' k) -> count_arr c a = count_arr c a'.
Proof.
  intros Ha Ha' H. rewrite <- !keys_of_length. apply Nat.le_antisymm.
  - apply NoDup_incl_length; [apply NoDup_keys_of; exact Ha|].
    intros k Hk. apply (In_keys_of a' k Ha'). apply H. apply (In_keys_of a k Ha). exact Hk.
  - apply NoDup_incl_length; [apply NoDup_keys_of; exact Ha'|].
    intros k Hk. apply (In_keys_of a k Ha). apply H. apply (In_keys_of a' k Ha'). exact Hk.
Qed.

Lemma count_arr_holds a a' :
  arr_ok a -> arr_ok a' -> (forall k v, holds a' k v <-> holds a k v) -> count_arr c a' = count_arr c a.
Proof.
  intros Ha Ha' H. apply count_arr_keys; [exact Ha'|exact Ha|].
  intro k. rewrite !key_in_holds. split; intros [v Hv]; exists v; apply H; exact Hv.
Qed.

Lemma key_in_iff_holds a a' k :
  (forall k v, holds a' k v <-> holds a k v) -> (key_in a' k <-> key_in a k).
Proof.
  intro H. rewrite !key_in_holds. split; intros [v Hv]; exists v; apply H; exact Hv.
Qed.

(* ================================================================== B. the invariant *)

(* the hashpower respects the user-set maximum *)
Definition within (t : table) : Prop :=
  mhp t = NO_MAXIMUM_HASHPOWER \/ bhp (cur t) <= mhp t.

Definition good (t : table) : Prop :=
  settled t /\ counted t /\ bhp (cur t) < 60 /\ (length (cur_locks t) <= N.to_nat (kmax c))%nat /\
  within t.

Lemma within_same t t' : mhp t' = mhp t -> bhp (cur t') = bhp (cur t) -> within t -> within t'.
Proof. unfold within. intros -> ->. exact (fun H => H). Qed.

(* the user-set limits *)
Definition lim_same (t t' : table) : Prop :=
  mlfn t' = mlfn t /\ mlfd t' = mlfd t /\ mhp t' = mhp t /\ workers t' = workers t.

(* same abstract contents and limits, hashpower not smaller *)
Definition evolves (t t' : table) : Prop :=
  good t' /\ (forall k v, holds (cur t') k v <-> holds (cur t) k v) /\ lim_same t t' /\
  bhp (cur t) <= bhp (cur t').

(* every doubling is immediate *)
Definition immediate (mode : bool) (t : table) : Prop := mode = true \/ mhp t <= lbits c.

Lemma lim_same_refl t : lim_same t t.
Proof. repeat split. Qed.

Lemma lim_same_trans t t' t'' : lim_same t t' -> lim_same t' t'' -> lim_same t t''.
Proof.
  intros [A1 [A2 [A3 A4]]] [B1 [B2 [B3 B4]]]. repeat split; congruence.
Qed.

Lemma evolves_refl t : good t -> evolves t t.
Proof.
  intro G. split; [exact G|]. split; [intros k v; reflexivity|]. split; [apply lim_same_refl|lia].
Qed.

Lemma evolves_trans t t' t'' : evolves t t' -> evolves t' t'' -> evolves t t''.
Proof.
  intros [_ [H1 [L1 B1]]] [G2 [H2 [L2 B2]]]. split; [exact G2|].
  split; [intros k v; rewrite H2; apply H1|]. split; [eapply lim_same_trans; eassumption|lia].
Qed.

Lemma same_contents_lim t t' : same_contents t t' -> lim_same t t'.
Proof.
  intros [_ [_ [_ [E _]]]]. rewrite E. repeat split.
Qed.

Lemma good_same_contents t t' : good t -> same_contents t t' -> evolves t t' /\ bhp (cur t') = bhp (cur t).
Proof.
  intros [St [Ct [Hb [Hl Hw]]]] Hsc. assert (Hlim := same_contents_lim t t' Hsc).
  destruct Hsc as [St' [Hhp [Hlk [_ Hh]]]].
  assert (Hcl : cur_locks t' = cur_locks t) by (apply cur_locks_locks; exact Hlk).
  split; [|exact Hhp]. split.
  - split; [exact St'|]. split.
    + unfold InvDefs.counted in *. rewrite Hcl, Ct. f_equal. symmetry.
      apply count_arr_holds; [apply (se_arr _ _ _ St)|apply (se_arr _ _ _ St')|exact Hh].
    + split; [lia|]. split; [rewrite Hcl; exact Hl|].
      apply (within_same t t' (proj1 (proj2 (proj2 Hlim))) Hhp Hw).
  - split; [exact Hh|]. split; [exact Hlim|lia].
Qed.

(* ================================================================== C. automatic doubling *)

Lemma hashpower_eq t : hashpower t = bhp (cur t).
Proof. reflexivity. Qed.

Lemma lf_mlfn0 t : mlfn t = 0 -> lf_lt_mlf c t = false.
Proof. intro H. unfold lf_lt_mlf. rewrite H, N.mul_0_l. apply N.ltb_ge. lia. Qed.

Lemma lf_true_mlfn t : lf_lt_mlf c t = true -> mlfn t <> 0.
Proof. intros H E. rewrite (lf_mlfn0 t E) in H. discriminate. Qed.

Lemma fast_double_f_nothrow_unfold n auto mode t hp :
  nothrow c = true ->
  fast_double_f c hash (S n) auto mode t hp =
  match check_resize_validity c auto t hp (hp + 1) with
  | inl (Some e) => (t, inl e)
  | inl None => (t, inl EUnmodelled)
  | inr St_ok => (fast_double_body c hash mode t (hp + 1), inr St_ok)
  | inr st => (t, inr st)
  end.
Proof. intro H. cbn [fast_double_f]. rewrite H. reflexivity. Qed.

Definition maxed (t : table) (new_hp : N) : Prop :=
  mhp t <> NO_MAXIMUM_HASHPOWER /\ mhp t < new_hp.

Lemma maxed_dec t n : maxed t n \/ ~ maxed t n.
Proof.
  unfold maxed. destruct (N.eq_dec (mhp t) NO_MAXIMUM_HASHPOWER) as [E|E].
  - right. intros [H _]. contradiction.
  - destruct (N.lt_ge_cases (mhp t) n) as [L|L].
    + left. split; assumption.
    + right. intros [_ H]. lia.
Qed.

(* a doubling is immediate when the old array has fewer buckets than stripes, or in locked mode *)
Lemma fast_double_body_good mode t :
  good t ->
  hashsize (bhp (cur t)) < kmax c \/ mode = true ->
  bhp (cur t) + 1 < 60 ->
  ~ maxed t (bhp (cur t) + 1) ->
  let t' := fast_double_body c hash mode t (bhp (cur t) + 1) in
  good t' /\ bhp (cur t') = bhp (cur t) + 1 /\
  (forall k v, holds (cur t') k v <-> holds (cur t) k v) /\
  lim_same t t' /\ rc t' = wrap64 (rc t + 1) /\ nrem t' = 0.
Proof.
  intros [St [Ct [Hb [Hl Hw]]]] Him Hb1 Hnm.
  assert (Him' : hashsize (bhp (cur t)) < kmax c \/
                 mode = true /\ (length (cur_locks t) <= N.to_nat (kmax c))%nat).
  { destruct Him as [H|H]; [left; exact H|right; split; [exact H|exact Hl]]. }
  assert (Hb2 : bhp (cur t) + 1 < 62) by lia.
  destruct (fast_double_body_immediate c hash Hc mode t St Ct Hb2 Him')
    as [St' [Ct' [Hhp [Hh [Hrc [M1 [M2 [M3 [M4 [Hnr Hlen]]]]]]]]]].
  cbv zeta. split.
  - split; [exact St'|]. split; [exact Ct'|]. split; [lia|]. split.
    + rewrite Hlen. apply Nat.max_lub; [exact Hl|]. lia.
    + unfold within. rewrite M3, Hhp. unfold maxed in Hnm.
      destruct (N.eq_dec (mhp t) NO_MAXIMUM_HASHPOWER) as [E|E]; [left; exact E|right].
      destruct (N.le_gt_cases (bhp (cur t) + 1) (mhp t)) as [L|L]; [exact L|].
      exfalso. apply Hnm. split; assumption.
  - split; [exact Hhp|]. split; [exact Hh|]. split; [repeat split; assumption|].
    split; assumption.
Qed.

(* with [mhp t <= lbits c] a permitted doubling starts below the stripe count *)
Lemma immediate_small mode t :
  immediate mode t -> ~ maxed t (bhp (cur t) + 1) -> bhp (cur t) < 60 ->
  hashsize (bhp (cur t)) < kmax c \/ mode = true.
Proof.
  intros [Hm|Hm] Hnm Hb; [right; exact Hm|left].
  assert (Hlb := co_lbits _ Hc).
  assert (Hle : bhp (cur t) + 1 <= lbits c).
  { destruct (N.le_gt_cases (bhp (cur t) + 1) (mhp t)) as [L|L]; [lia|].
    exfalso. apply Hnm. split; [|exact L]. unfold NO_MAXIMUM_HASHPOWER. lia. }
  rewrite hashsize_spec by lia. unfold kmax. apply pow2_lt_mono. lia.
Qed.

(* item 1, for any positive fuel and both kinds of request *)
Lemma fast_double_f_good n auto mode t :
  nothrow c = true -> good t -> immediate mode t ->
  let hp := bhp (cur t) in
  let r := fast_double_f c hash (S n) auto mode t hp in
  (maxed t (hp + 1) -> r = (t, inl EMaxHashpower)) /\
  (~ maxed t (hp + 1) -> auto = true -> lf_lt_mlf c t = true -> r = (t, inl ELoadFactorTooLow)) /\
  (~ maxed t (hp + 1) -> (auto = true -> lf_lt_mlf c t = false) ->
     r = (fast_double_body c hash mode t (hp + 1), inr St_ok) /\
     (hp + 1 < 60 ->
      let t' := fast_double_body c hash mode t (hp + 1) in
      good t' /\ bhp (cur t') = hp + 1 /\
      (forall k v, holds (cur t') k v <-> holds (cur t) k v) /\
      lim_same t t' /\ immediate mode t' /\ rc t' = wrap64 (rc t + 1) /\ nrem t' = 0)).
Proof.
  intros Hnt G Him hp r. subst r. rewrite (fast_double_f_nothrow_unfold n auto mode t hp Hnt).
  subst hp.
  split; [|split].
  - intro Hm. apply (crv_maxhp_iff c auto t (bhp (cur t)) (bhp (cur t) + 1)) in Hm. rewrite Hm. reflexivity.
  - intros Hm Ha Hlf.
    assert (E : check_resize_validity c auto t (bhp (cur t)) (bhp (cur t) + 1) = inl (Some ELoadFactorTooLow)).
    { apply crv_lf_iff. split; [exact Hm|]. split; assumption. }
    rewrite E. reflexivity.
  - intros Hm Hlf.
    assert (E : check_resize_validity c auto t (bhp (cur t)) (bhp (cur t) + 1) = inr St_ok).
    { rewrite <- (hashpower_eq t) at 1. apply crv_ok_intro; [|exact Hlf].
      unfold maxed in Hm. set (hp := bhp (cur t)) in *.
      destruct (N.eq_dec (mhp t) NO_MAXIMUM_HASHPOWER) as [E|E]; [left; exact E|right].
      destruct (N.le_gt_cases (hp + 1) (mhp t)) as [L|L]; [exact L|]. exfalso. apply Hm. split; assumption. }
    rewrite E. split; [reflexivity|]. intro Hb1.
    assert (Hb : bhp (cur t) < 60) by (destruct G as [_ [_ [Hb _]]]; exact Hb).
    destruct (fast_double_body_good mode t G (immediate_small mode t Him Hm Hb) Hb1 Hm)
      as [G' [Hhp [Hh [Hlim [Hrc Hnr]]]]].
    cbv zeta. split; [exact G'|]. split; [exact Hhp|]. split; [exact Hh|]. split; [exact Hlim|].
    split; [|split; assumption].
    destruct Him as [Hmode|Hmhp]; [left; exact Hmode|right].
    destruct Hlim as [_ [_ [E3 _]]]. rewrite E3. exact Hmhp.
Qed.

(* item 1 *)
Theorem cuckoo_fast_double_good mode t :
  nothrow c = true -> good t -> immediate mode t ->
  let hp := bhp (cur t) in
  (maxed t (hp + 1) -> cuckoo_fast_double c hash mode t hp = (t, inl EMaxHashpower)) /\
  (~ maxed t (hp + 1) -> lf_lt_mlf c t = true ->
     cuckoo_fast_double c hash mode t hp = (t, inl ELoadFactorTooLow)) /\
  (~ maxed t (hp + 1) -> lf_lt_mlf c t = false ->
     exists t', cuckoo_fast_double c hash mode t hp = (t', inr St_ok) /\
     (hp + 1 < 60 ->
      good t' /\ bhp (cur t') = hp + 1 /\
      (forall k v, holds (cur t') k v <-> holds (cur t) k v) /\
      lim_same t t' /\ immediate mode t' /\ rc t' = wrap64 (rc t + 1) /\ nrem t' = 0)).
Proof.
  intros Hnt G Him hp. unfold cuckoo_fast_double, resize_fuel.
  destruct (fast_double_f_good 5 true mode t Hnt G Him) as [H1 [H2 H3]]. cbv zeta in H1, H2, H3.
  fold hp in H1, H2, H3.
  split; [exact H1|]. split.
  - intros Hm Hlf. apply H2; [exact Hm|reflexivity|exact Hlf].
  - intros Hm Hlf. destruct (H3 Hm (fun _ => Hlf)) as [E Hg].
    eexists. split; [exact E|]. exact Hg.
Qed.

(* ================================================================== D. the insert loop *)

(* exceptions a policy check or a fuel bound may raise *)
Definition exn_ok0 (auto : bool) (t : table) (e : exn) : Prop :=
  (e = EMaxHashpower /\ mhp t <> NO_MAXIMUM_HASHPOWER) \/
  (e = ELoadFactorTooLow /\ auto = true /\ mlfn t <> 0) \/
  e = EOutOfFuel.

(* ... and, on the automatic-doubling path of a nothrow type, the state that justifies them *)
Definition exn_ok (auto : bool) (t t' : table) (e : exn) : Prop :=
  exn_ok0 auto t e /\
  (nothrow c = true ->
   (e = EMaxHashpower -> bhp (cur t') = mhp t) /\
   (e = ELoadFactorTooLow -> lf_lt_mlf c t' = true)).

(* the table an exception leaves behind (the rebuild path of a type whose move is destructive
   leaves moved-from elements: known finding, excluded here) *)
Definition fail_ok (t t' : table) : Prop :=
  nothrow c = true \/ destructive c = false -> evolves t t'.

(* the run reached a well-formed table of 2^59 buckets and was allowed to double it *)
Definition esc (t : table) : Prop :=
  exists tm, evolves t tm /\ bhp (cur tm) = 59 /\ 60 <= mhp t.

Definition fd_post (t : table) (r : rres) : Prop :=
  esc t \/
  match snd r with
  | inr St_ok => evolves t (fst r) /\ bhp (cur t) < bhp (cur (fst r))
  | inr _ => False
  | inl e => exn_ok true t (fst r) e /\ fail_ok t (fst r)
  end.

(* what the insert loop needs of its expansion function; [lim] constrains the maximum hashpower *)
Definition fd_ok (lim : N -> Prop) (fd : bool -> table -> N -> rres) (mode : bool) : Prop :=
  forall t, good t -> lim (mhp t) -> fd_post t (fd mode t (bhp (cur t))).

Lemma esc_evolves t t1 : evolves t t1 -> esc t1 -> esc t.
Proof.
  intros Ev [tm [Ev' [Hb Hm]]]. exists tm. split; [eapply evolves_trans; eassumption|].
  split; [exact Hb|]. destruct Ev as [_ [_ [[_ [_ [E _]]] _]]]. rewrite <- E. exact Hm.
Qed.

Lemma exn_ok0_lim auto t t1 e : lim_same t t1 -> exn_ok0 auto t1 e -> exn_ok0 auto t e.
Proof.
  intros [E1 [_ [E3 _]]] [[He Hm]|[[He [Ha Hm]]|He]].
  - left. split; [exact He|]. rewrite <- E3. exact Hm.
  - right. left. split; [exact He|]. split; [exact Ha|]. rewrite <- E1. exact Hm.
  - right. right. exact He.
Qed.

Lemma exn_ok_lim auto t t1 t' e : lim_same t t1 -> exn_ok auto t1 t' e -> exn_ok auto t t' e.
Proof.
  intros L [H0 H1]. split; [eapply exn_ok0_lim; eassumption|].
  destruct L as [_ [_ [E3 _]]]. rewrite <- E3. exact H1.
Qed.

Lemma exn_ok_fuel auto t t' : exn_ok auto t t' EOutOfFuel.
Proof. split; [right; right; reflexivity|]. intros _. split; intro H; discriminate. Qed.

Lemma fail_ok_evolves t t1 t2 : evolves t t1 -> fail_ok t1 t2 -> fail_ok t t2.
Proof. intros Ev Hf H. eapply evolves_trans; [exact Ev|apply Hf; exact H]. Qed.

Lemma evolves_good t t' : evolves t t' -> good t'.
Proof. intros [G _]. exact G. Qed.

Lemma evolves_lim t t' : evolves t t' -> lim_same t t'.
Proof. intros [_ [_ [L _]]]. exact L. Qed.

Lemma evolves_key_in t t' k : evolves t t' -> (key_in (cur t') k <-> key_in (cur t) k).
Proof. intros [_ [H _]]. apply key_in_iff_holds. exact H. Qed.

Lemma fd_ok_nothrow n mode :
  nothrow c = true ->
  fd_ok (fun x => mode = true \/ x <= lbits c) (fast_double_f c hash (S n) true) mode.
Proof.
  intros Hnt t G Hl. assert (Him : immediate mode t) by exact Hl.
  destruct (fast_double_f_good n true mode t Hnt G Him) as [H1 [H2 H3]]. cbv zeta in H1, H2, H3.
  unfold fd_post.
  destruct (maxed_dec t (bhp (cur t) + 1)) as [Hm|Hm].
  - rewrite (H1 Hm). right. cbn [fst snd]. split.
    + split; [left; split; [reflexivity|destruct Hm as [Hm _]; exact Hm]|].
      intros _. split; [|intro H; discriminate]. intros _.
      destruct G as [_ [_ [_ [_ Hw]]]]. destruct Hm as [Hm1 Hm2]. destruct Hw as [Hw|Hw]; [contradiction|lia].
    + intros _. apply evolves_refl. exact G.
  - destruct (lf_lt_mlf c t) eqn:Hlf.
    + rewrite (H2 Hm eq_refl eq_refl). right. cbn [fst snd]. split.
      * split; [right; left; split; [reflexivity|split; [reflexivity|apply lf_true_mlfn; exact Hlf]]|].
        intros _. split; [intro H; discriminate|]. intros _. exact Hlf.
      * intros _. apply evolves_refl. exact G.
    + destruct (H3 Hm (fun _ => eq_refl)) as [E Hg]. rewrite E. cbn [fst snd].
      destruct (N.lt_ge_cases (bhp (cur t) + 1) 60) as [L|L].
      * right. destruct (Hg L) as [G' [Hhp [Hh [Hlim _]]]]. split; [|lia].
        split; [exact G'|]. split; [exact Hh|]. split; [exact Hlim|lia].
      * left. exists t. split; [apply evolves_refl; exact G|].
        assert (Hb : bhp (cur t) < 60) by (destruct G as [_ [_ [Hb _]]]; exact Hb).
        split; [lia|]. unfold maxed in Hm.
        destruct (N.eq_dec (mhp t) NO_MAXIMUM_HASHPOWER) as [E'|E'].
        { rewrite E'. unfold NO_MAXIMUM_HASHPOWER. lia. }
        destruct (N.lt_ge_cases (mhp t) (bhp (cur t) + 1)) as [L'|L']; [|lia].
        exfalso. apply Hm. split; assumption.
Qed.

Definition il_post (t : table) (k : N) (t' : table) (res : il_result) : Prop :=
  esc t \/
  match res with
  | IL_pos pos j1 j2 =>
      evolves t t' /\ j1 = i1_of hash (bhp (cur t')) k /\ j2 = i2_of hash (bhp (cur t')) k /\
      ((pstatus pos = St_duplicated /\ key_in (cur t) k /\ bhp (cur t') = bhp (cur t) /\
        exists e, bget (cur t') (pindex pos) (pslot pos) = Some e /\ ekey e = k) \/
       (pstatus pos = St_ok /\ ~ key_in (cur t) k /\
        bget (cur t') (pindex pos) (pslot pos) = None /\
        cand hash (bhp (cur t')) k (pindex pos) /\ pslot pos < spb c))
  | IL_exn e => ~ key_in (cur t) k /\ exn_ok true t t' e /\ fail_ok t t'
  end.

Lemma il_post_evolves t t2 k t' res :
  evolves t t2 -> ~ key_in (cur t) k -> il_post t2 k t' res -> il_post t k t' res.
Proof.
  intros Ev Hk [He|H]; [left; eapply esc_evolves; eassumption|right].
  destruct res as [pos j1 j2|e].
  - destruct H as [Ev' [E1 [E2 Hcase]]]. split; [eapply evolves_trans; eassumption|].
    split; [exact E1|]. split; [exact E2|].
    destruct Hcase as [[_ [Hin _]]|[Hs [_ Hrest]]].
    + exfalso. apply Hk. apply (evolves_key_in t t2 k Ev). exact Hin.
    + right. split; [exact Hs|]. split; [exact Hk|exact Hrest].
  - destruct H as [_ [He Hf]]. split; [exact Hk|].
    split; [eapply exn_ok_lim; [apply (evolves_lim _ _ Ev)|exact He]|].
    eapply fail_ok_evolves; eassumption.
Qed.

(* a present key is found by the first probe: no displacement, no expansion, no exception *)
Lemma insert_loop_present fd mode t k fuel :
  good t -> key_in (cur t) k ->
  forall t' res,
  cuckoo_insert_loop c hash fd mode t k (i1_of hash (bhp (cur t)) k) (i2_of hash (bhp (cur t)) k) (S fuel)
    = (t', res) ->
  exists pos, res = IL_pos pos (i1_of hash (bhp (cur t)) k) (i2_of hash (bhp (cur t)) k) /\
    evolves t t' /\ bhp (cur t') = bhp (cur t) /\ pstatus pos = St_duplicated /\
    exists e, bget (cur t') (pindex pos) (pslot pos) = Some e /\ ekey e = k.
Proof.
  intros G Hk t' res E. assert (St : settled t) by (destruct G as [St _]; exact St).
  destruct (cuckoo_insert_spec c hash Hc mode t k St) as [t1 [r1 [E1 [Hsc [Hin _]]]]].
  cbv zeta in E1, Hin. destruct (Hin Hk) as [pos [-> [Hs He]]].
  rewrite (cuckoo_insert_loop_done c hash fd mode t k _ _ fuel t1 pos E1 (or_intror Hs)) in E.
  injection E as <- <-. exists pos. split; [reflexivity|].
  destruct (good_same_contents t t1 G Hsc) as [Ev Hhp].
  split; [exact Ev|]. split; [exact Hhp|]. split; [exact Hs|exact He].
Qed.

Lemma insert_loop_absent lim fd mode :
  fd_ok lim fd mode ->
  forall fuel t k, good t -> lim (mhp t) -> ~ key_in (cur t) k ->
  forall t' res,
  cuckoo_insert_loop c hash fd mode t k (i1_of hash (bhp (cur t)) k) (i2_of hash (bhp (cur t)) k) fuel
    = (t', res) ->
  il_post t k t' res.
Proof.
  intro Hfd. induction fuel as [|f IH]; intros t k G Hl Hk t' res E.
  - cbn [cuckoo_insert_loop] in E. injection E as <- <-. right. split; [exact Hk|].
    split; [apply exn_ok_fuel|]. intros _. apply evolves_refl. exact G.
  - assert (St : settled t) by (destruct G as [St _]; exact St).
    cbn [cuckoo_insert_loop] in E.
    destruct (cuckoo_insert_spec c hash Hc mode t k St) as [t1 [r1 [E1 [Hsc [_ Hout]]]]].
    cbv zeta in E1, Hout. rewrite E1 in E.
    destruct (good_same_contents t t1 G Hsc) as [Ev1 Hhp1].
    destruct (Hout Hk) as [->|[pos [-> Hcase]]].
    + injection E as <- <-. right. split; [exact Hk|]. split; [apply exn_ok_fuel|].
      intros _. exact Ev1.
    + destruct Hcase as [[Hs [Hg [Hidx Hslot]]]|Hs]; rewrite Hs in E.
      * injection E as <- <-. right. split; [exact Ev1|]. rewrite Hhp1.
        split; [reflexivity|]. split; [reflexivity|]. right.
        split; [exact Hs|]. split; [exact Hk|]. split; [exact Hg|]. split; [exact Hidx|exact Hslot].
      * assert (G1 := evolves_good _ _ Ev1). assert (L1 := evolves_lim _ _ Ev1).
        assert (Hl1 : lim (mhp t1)) by (destruct L1 as [_ [_ [E3 _]]]; rewrite E3; exact Hl).
        assert (Hp := Hfd t1 G1 Hl1). rewrite Hhp1 in Hp. rewrite hashpower_eq in E.
        destruct (fd mode t1 (bhp (cur t))) as [t2 r2]. unfold fd_post in Hp. cbn [fst snd] in Hp.
        destruct Hp as [He|Hp]; [left; eapply esc_evolves; eassumption|].
        destruct r2 as [e|st].
        { injection E as <- <-. destruct Hp as [He Hf]. right. split; [exact Hk|].
          split; [eapply exn_ok_lim; eassumption|]. eapply fail_ok_evolves; eassumption. }
        destruct st; try contradiction. destruct Hp as [Ev2 Hlt].
        assert (Ev02 : evolves t t2) by (eapply evolves_trans; eassumption).
        assert (G2 := evolves_good _ _ Ev2).
        assert (St2 : settled t2) by (destruct G2 as [St2 _]; exact St2).
        rewrite (snapshot_and_lock_two_settled c hash mode t2 k (se_mig _ _ _ St2)) in E.
        rewrite hashpower_eq in E.
        assert (Hl2 : lim (mhp t2)).
        { destruct (evolves_lim _ _ Ev02) as [_ [_ [E3 _]]]. rewrite E3. exact Hl. }
        assert (Hk2 : ~ key_in (cur t2) k).
        { intro H. apply Hk. apply (evolves_key_in t t2 k Ev02). exact H. }
        apply (il_post_evolves t t2 k t' res Ev02 Hk).
        apply (IH t2 k G2 Hl2 Hk2 t' res E).
Qed.

(* item 2 (generic in the expansion function) *)
Theorem insert_loop_gen lim fd mode :
  fd_ok lim fd mode ->
  forall fuel t k, good t -> lim (mhp t) ->
  forall t' res,
  cuckoo_insert_loop c hash fd mode t k (i1_of hash (bhp (cur t)) k) (i2_of hash (bhp (cur t)) k) (S fuel)
    = (t', res) ->
  il_post t k t' res.
Proof.
  intros Hfd fuel t k G Hl t' res E.
  assert (St : settled t) by (destruct G as [St _]; exact St).
  destruct (key_in_dec c hash t k (se_arr _ _ _ St)) as [Hk|Hk].
  - destruct (insert_loop_present fd mode t k fuel G Hk t' res E) as [pos [-> [Ev [Hhp [Hs He]]]]].
    right. split; [exact Ev|]. rewrite Hhp. split; [reflexivity|]. split; [reflexivity|].
    left. split; [exact Hs|]. split; [exact Hk|]. split; [reflexivity|]. exact He.
  - apply (insert_loop_absent lim fd mode Hfd (S fuel) t k G Hl Hk t' res E).
Qed.

(* ================================================================== E. the insert family *)

(* [a'] is [a] with key k bound to o (None: no binding) *)
Definition upd_holds (a a' : barray) (k : N) (o : option Z) : Prop :=
  forall k' v', holds a' k' v' <-> (k' <> k /\ holds a k' v') \/ (k' = k /\ o = Some v').

(* the binding of the key after the functor ran on current value cv *)
Definition final_of (g : Z -> bool -> option (Z * bool)) (cv : Z) (ins : bool) : option Z :=
  match g cv ins with
  | None => Some cv
  | Some (v', false) => Some v'
  | Some (_, true) => None
  end.

Definition log_of (g : Z -> bool -> option (Z * bool)) (cv : Z) (ins : bool) : list rv :=
  match g cv ins with None => [] | Some _ => [RFn cv ins] end.

Definition ures := (exn + (bool * list rv * (N * N)))%type.

(* uprase_gen with the expansion function and the loop fuel abstracted (insert_with is the other
   instance) *)
Definition uprase_f (fuel : nat) (fd : bool -> table -> N -> rres) (mode : bool) (t : table) (k : N) (v : Z)
  (g : Z -> bool -> option (Z * bool)) : table * ures :=
  let '(t1, i1, i2) := snapshot_and_lock_two c hash mode t k in
  match cuckoo_insert_loop c hash fd mode t1 k i1 i2 fuel with
  | (t2, IL_exn e) => (t2, inl e)
  | (t2, IL_pos pos _ _) =>
    let inserted := match pstatus pos with St_ok => true | _ => false end in
    let t3 := if inserted then add_to_bucket c t2 (pindex pos) (pslot pos) (hashed_partial hash k) k v else t2 in
    let cur_v := val_at t3 (pindex pos) (pslot pos) in
    match g cur_v inserted with
    | None => (t3, inr (inserted, [], (pindex pos, pslot pos)))
    | Some (v', er) =>
      let t4 := set_val t3 (pindex pos) (pslot pos) v' in
      let t5 := if er then del_from_bucket c t4 (pindex pos) (pslot pos) else t4 in
      (t5, inr (inserted, [RFn cur_v inserted], (pindex pos, pslot pos)))
    end
  end.

Definition uprase_with (fd : bool -> table -> N -> rres) := uprase_f insert_loop_fuel fd.

Lemma uprase_gen_eq mode t k v g :
  uprase_gen c hash mode t k v g = uprase_with (cuckoo_fast_double c hash) mode t k v g.
Proof. unfold uprase_gen, uprase_with, uprase_f. reflexivity. Qed.

Lemma insert_with_eq fd t k v :
  insert_with c hash fd t k v =
  match uprase_with fd false t k v (fun _ _ => None) with
  | (t', inl e) => (t', Some e)
  | (t', inr _) => (t', None)
  end.
Proof.
  unfold insert_with, uprase_with, uprase_f.
  destruct (snapshot_and_lock_two c hash false t k) as [[t1 i1] i2].
  destruct (cuckoo_insert_loop c hash fd false t1 k i1 i2 insert_loop_fuel) as [t2 [pos j1 j2|e]];
    [|reflexivity].
  destruct (pstatus pos); reflexivity.
Qed.

Lemma good_set_val t b s e v :
  good t -> bget (cur t) b s = Some e ->
  let t' := set_val t b s v in
  good t' /\ lim_same t t' /\ bhp (cur t') = bhp (cur t) /\
  (exists e', bget (cur t') b s = Some e' /\ ekey e' = ekey e /\ eval e' = v) /\
  (forall k' v', holds (cur t') k' v' <-> (k' = ekey e /\ v' = v) \/ (k' <> ekey e /\ holds (cur t) k' v')).
Proof.
  intros [St [Ct [Hb [Hl Hw]]]] He.
  destruct (set_val_settled c hash t b s e v St He) as [St' [Hhp [Hlk [He' Hh]]]].
  cbv zeta in *. split; [|split; [|split; [exact Hhp|split; [exact He'|exact Hh]]]].
  - split; [exact St'|]. split; [|split; [lia|split]].
    + rewrite (set_val_occupied t b s e v He). apply counted_set_cur_same; [|exact Ct].
      apply (count_arr_replace c (cur t) b s e _ He).
    + rewrite (cur_locks_locks _ _ Hlk). exact Hl.
    + apply (within_same t _); [|exact Hhp|exact Hw].
      rewrite (set_val_occupied t b s e v He). reflexivity.
  - rewrite (set_val_occupied t b s e v He). repeat split.
Qed.

Lemma lim_same_del t b s : lim_same t (del_from_bucket c t b s).
Proof. repeat split. Qed.

Lemma lim_same_add t b s p k v : lim_same t (add_to_bucket c t b s p k v).
Proof. repeat split. Qed.

Lemma good_del t b s e :
  good t -> bget (cur t) b s = Some e ->
  let t' := del_from_bucket c t b s in
  good t' /\ lim_same t t' /\ bhp (cur t') = bhp (cur t) /\
  (forall k' v', holds (cur t') k' v' <-> holds (cur t) k' v' /\ k' <> ekey e).
Proof.
  intros [St [Ct [Hb [Hl Hw]]]] He.
  destruct (del_from_bucket_settled c hash t b s e St He) as [St' [Hhp Hh]].
  cbv zeta in *. split; [|split; [apply lim_same_del|split; [exact Hhp|exact Hh]]].
  split; [exact St'|]. split; [|split; [lia|split]].
  - apply (counted_del_from_bucket_settled c hash t b s e St Ct He).
  - rewrite (del_from_bucket_locks_length c t b s (se_locks _ _ _ St)). exact Hl.
  - apply (within_same t _); [reflexivity|exact Hhp|exact Hw].
Qed.

Lemma good_add t b s k v :
  good t -> bget (cur t) b s = None -> cand hash (bhp (cur t)) k b -> s < spb c ->
  ~ key_in (cur t) k ->
  let t' := add_to_bucket c t b s (partial_key (hash k)) k v in
  good t' /\ lim_same t t' /\ bhp (cur t') = bhp (cur t) /\
  bget (cur t') b s = Some {| ekey := k; eval := v; epart := partial_key (hash k); ehusk := false |} /\
  (forall k' v', holds (cur t') k' v' <-> (k' = k /\ v' = v) \/ (k' <> k /\ holds (cur t) k' v')).
Proof.
  intros [St [Ct [Hb [Hl Hw]]]] Hg Hcand Hs Hk.
  assert (Hr : b < 2 ^ bhp (cur t)) by (apply (cand_range c hash t k b (se_arr _ _ _ St) Hcand)).
  destruct (add_to_bucket_settled c hash t b s k v St Hg Hr Hs Hcand Hk) as [St' [Hhp Hh]].
  cbv zeta in *. split; [|split; [apply lim_same_add|split; [exact Hhp|split; [|exact Hh]]]].
  - split; [exact St'|]. split; [|split; [lia|split]].
    + apply (counted_add_to_bucket_settled c hash t b s _ k v St Ct Hr Hs Hg).
    + rewrite (add_to_bucket_locks_length c t b s _ k v (se_locks _ _ _ St)). exact Hl.
    + apply (within_same t _); [reflexivity|exact Hhp|exact Hw].
  - rewrite cur_add_to_bucket. apply bget_bset_eq.
Qed.

(* the part of uprase_fn after the position is known *)
Definition finish (t3 : table) (b s : N) (ins : bool) (g : Z -> bool -> option (Z * bool)) : table * ures :=
  let cur_v := val_at t3 b s in
  match g cur_v ins with
  | None => (t3, inr (ins, [], (b, s)))
  | Some (v', er) =>
    let t4 := set_val t3 b s v' in
    let t5 := if er then del_from_bucket c t4 b s else t4 in
    (t5, inr (ins, [RFn cur_v ins], (b, s)))
  end.

Lemma finish_good t3 b s e ins g :
  good t3 -> bget (cur t3) b s = Some e ->
  exists t', finish t3 b s ins g = (t', inr (ins, log_of g (eval e) ins, (b, s))) /\
    good t' /\ lim_same t3 t' /\ bhp (cur t') = bhp (cur t3) /\
    upd_holds (cur t3) (cur t') (ekey e) (final_of g (eval e) ins) /\
    (forall vf, final_of g (eval e) ins = Some vf ->
       exists e', bget (cur t') b s = Some e' /\ ekey e' = ekey e /\ eval e' = vf).
Proof.
  intros G He. assert (St : settled t3) by (destruct G as [St _]; exact St).
  assert (Ha := se_arr _ _ _ St).
  assert (Hself : holds (cur t3) (ekey e) (eval e)) by (exists b, s, e; repeat split; exact He).
  unfold finish, log_of, final_of, val_at. rewrite He.
  destruct (g (eval e) ins) as [[v' er]|].
  2:{ exists t3. split; [reflexivity|]. split; [exact G|]. split; [apply lim_same_refl|].
      split; [reflexivity|]. split.
      - intros k' v'. split.
        + intro H. destruct (N.eq_dec k' (ekey e)) as [E|E].
          * right. split; [exact E|]. subst k'. f_equal. apply (holds_fun c hash _ _ _ _ Ha Hself H).
          * left. split; assumption.
        + intros [[_ H]|[E H]]; [exact H|]. injection H as <-. subst k'. exact Hself.
      - intros vf H. injection H as <-. exists e. repeat split. exact He. }
  destruct (good_set_val t3 b s e v' G He) as [G4 [L4 [Hhp4 [[e4 [He4 [Hk4 Hv4]]] Hh4]]]].
  cbv zeta in G4, L4, Hhp4, He4, Hh4. destruct er.
  - destruct (good_del (set_val t3 b s v') b s e4 G4 He4) as [G5 [L5 [Hhp5 Hh5]]].
    cbv zeta in G5, L5, Hhp5, Hh5.
    eexists. split; [reflexivity|]. split; [exact G5|].
    split; [eapply lim_same_trans; eassumption|]. split; [congruence|]. split.
    + intros k' v''. rewrite Hh5, Hh4, Hk4. split.
      * intros [[[E _]|[E H]] Hne]; [contradiction|]. left. split; assumption.
      * intros [[E H]|[_ H]]; [|discriminate]. split; [right; split; assumption|exact E].
    + intros vf H. discriminate.
  - eexists. split; [reflexivity|]. split; [exact G4|]. split; [exact L4|]. split; [exact Hhp4|]. split.
    + intros k' v''. rewrite Hh4. split.
      * intros [[E1 E2]|[E H]]; [right; split; [exact E1|f_equal; symmetry; exact E2]|left; split; assumption].
      * intros [[E H]|[E H]]; [right; split; assumption|left]. injection H as <-. split; [exact E|reflexivity].
    + intros vf H. injection H as <-. exists e4. split; [exact He4|]. split; assumption.
Qed.

Definition up_post (t : table) (k : N) (v : Z) (g : Z -> bool -> option (Z * bool)) (t' : table)
  (r : ures) : Prop :=
  match r with
  | inl e => ~ key_in (cur t) k /\ exn_ok true t t' e /\ fail_ok t t'
  | inr (ins, log, (b, s)) =>
      good t' /\ lim_same t t' /\ bhp (cur t) <= bhp (cur t') /\
      exists cv,
        ((ins = false /\ holds (cur t) k cv /\ bhp (cur t') = bhp (cur t)) \/
         (ins = true /\ ~ key_in (cur t) k /\ cv = v)) /\
        log = log_of g cv ins /\
        upd_holds (cur t) (cur t') k (final_of g cv ins) /\
        (forall vf, final_of g cv ins = Some vf ->
           exists e, bget (cur t') b s = Some e /\ ekey e = k /\ eval e = vf)
  end.

Lemma upd_holds_pre a0 a a' k o :
  (forall k' v', holds a k' v' <-> holds a0 k' v') -> upd_holds a a' k o -> upd_holds a0 a' k o.
Proof.
  intros H U k' v'. rewrite (U k' v'), (H k' v'). reflexivity.
Qed.

Lemma uprase_f_finish fuel fd mode t k v g :
  settled t ->
  uprase_f fuel fd mode t k v g =
  match cuckoo_insert_loop c hash fd mode t k (i1_of hash (bhp (cur t)) k) (i2_of hash (bhp (cur t)) k) fuel with
  | (t2, IL_exn e) => (t2, inl e)
  | (t2, IL_pos pos _ _) =>
    match pstatus pos with
    | St_ok => finish (add_to_bucket c t2 (pindex pos) (pslot pos) (partial_key (hash k)) k v)
                      (pindex pos) (pslot pos) true g
    | _ => finish t2 (pindex pos) (pslot pos) false g
    end
  end.
Proof.
  intro St. unfold uprase_f.
  rewrite (snapshot_and_lock_two_settled c hash mode t k (se_mig _ _ _ St)). rewrite hashpower_eq.
  destruct (cuckoo_insert_loop c hash fd mode t k (i1_of hash (bhp (cur t)) k)
              (i2_of hash (bhp (cur t)) k) fuel) as [t2 [pos j1 j2|e]]; [|reflexivity].
  destruct (pstatus pos); reflexivity.
Qed.

(* item 3 (generic): any member of the insert family, any expansion function, any positive fuel *)
Theorem uprase_f_good lim fd mode n :
  fd_ok lim fd mode ->
  forall t k v g, good t -> lim (mhp t) ->
  forall t' r, uprase_f (S n) fd mode t k v g = (t', r) ->
  (key_in (cur t) k -> up_post t k v g t' r) /\
  (~ key_in (cur t) k -> esc t \/ up_post t k v g t' r).
Proof.
  intros Hfd t k v g G Hl t' r E.
  assert (St : settled t) by (destruct G as [St _]; exact St).
  rewrite (uprase_f_finish (S n) fd mode t k v g St) in E.
  destruct (cuckoo_insert_loop c hash fd mode t k (i1_of hash (bhp (cur t)) k)
              (i2_of hash (bhp (cur t)) k) (S n)) as [t2 res] eqn:El.
  split.
  - intro Hk.
    destruct (insert_loop_present fd mode t k n G Hk t2 res El) as [pos [-> [Ev [Hhp [Hs [e [He Hek]]]]]]].
    rewrite Hs in E.
    destruct (finish_good t2 (pindex pos) (pslot pos) e false g (evolves_good _ _ Ev) He)
      as [t5 [Ef [G5 [L5 [Hhp5 [Hu Hp]]]]]].
    rewrite Ef in E. injection E as <- <-. unfold up_post. rewrite Hek in Hu, Hp.
    destruct Ev as [_ [Hh [L2 _]]].
    split; [exact G5|]. split; [exact (lim_same_trans _ _ _ L2 L5)|]. split; [lia|].
    exists (eval e). split.
    + left. split; [reflexivity|]. split; [|congruence]. apply Hh. exists (pindex pos), (pslot pos), e.
      repeat split; assumption.
    + split; [reflexivity|]. split; [|exact Hp]. eapply upd_holds_pre; eassumption.
  - intro Hk.
    assert (Hil := insert_loop_absent lim fd mode Hfd (S n) t k G Hl Hk t2 res El).
    destruct Hil as [He|Hil]; [left; exact He|right].
    destruct res as [pos j1 j2|e].
    2:{ injection E as <- <-. exact Hil. }
    destruct Hil as [Ev [_ [_ [[_ [Hin _]]|[Hs [_ [Hg [Hcand Hslot]]]]]]]]; [contradiction|].
    rewrite Hs in E.
    assert (G2 := evolves_good _ _ Ev).
    assert (Hk2 : ~ key_in (cur t2) k).
    { intro H. apply Hk. apply (evolves_key_in t t2 k Ev). exact H. }
    destruct (good_add t2 (pindex pos) (pslot pos) k v G2 Hg Hcand Hslot Hk2)
      as [G3 [L3 [Hhp3 [He3 Hh3]]]]. cbv zeta in G3, L3, Hhp3, He3, Hh3.
    set (t3 := add_to_bucket c t2 (pindex pos) (pslot pos) (partial_key (hash k)) k v) in *.
    destruct (finish_good t3 (pindex pos) (pslot pos) _ true g G3 He3)
      as [t5 [Ef [G5 [L5 [Hhp5 [Hu Hp]]]]]]. cbn [ekey eval] in Ef, Hu, Hp.
    rewrite Ef in E. injection E as <- <-. unfold up_post.
    destruct Ev as [_ [Hh [L2 Hb2]]].
    split; [exact G5|].
    split; [exact (lim_same_trans _ _ _ L2 (lim_same_trans _ _ _ L3 L5))|].
    split; [lia|]. exists v. split; [right; split; [reflexivity|split; [exact Hk|reflexivity]]|].
    split; [reflexivity|]. split; [|exact Hp].
    intros k' v'. rewrite (Hu k' v'), (Hh3 k' v'), (Hh k' v'). split.
    + intros [[Hne [[E1 _]|[_ H]]]|H]; [contradiction|left; split; assumption|right; exact H].
    + intros [[Hne H]|H]; [left; split; [exact Hne|right; split; assumption]|right; exact H].
Qed.

Lemma insert_loop_fuel_S : insert_loop_fuel = S 69.
Proof. reflexivity. Qed.

Theorem uprase_with_good lim fd mode :
  fd_ok lim fd mode ->
  forall t k v g, good t -> lim (mhp t) ->
  forall t' r, uprase_with fd mode t k v g = (t', r) ->
  (key_in (cur t) k -> up_post t k v g t' r) /\
  (~ key_in (cur t) k -> esc t \/ up_post t k v g t' r).
Proof.
  unfold uprase_with. rewrite insert_loop_fuel_S. apply uprase_f_good.
Qed.

(* ================================================================== F. items 2 and 3 for nothrow types *)

Lemma esc_capped t : mhp t <= 59 -> ~ esc t.
Proof. intros H [tm [_ [_ H60]]]. lia. Qed.

Lemma immediate_lim mode t t' : lim_same t t' -> immediate mode t -> immediate mode t'.
Proof.
  intros [_ [_ [E _]]] [H|H]; [left; exact H|right]. rewrite E. exact H.
Qed.

Lemma fd_ok_cuckoo_fast_double mode :
  nothrow c = true ->
  fd_ok (fun x => mode = true \/ x <= lbits c) (cuckoo_fast_double c hash) mode.
Proof. intro Hnt. exact (fd_ok_nothrow 5 mode Hnt). Qed.

(* item 2 *)
Theorem cuckoo_insert_loop_good mode fuel t k :
  nothrow c = true -> good t -> immediate mode t ->
  forall t' res,
  cuckoo_insert_loop c hash (cuckoo_fast_double c hash) mode t k
    (i1_of hash (bhp (cur t)) k) (i2_of hash (bhp (cur t)) k) (S fuel) = (t', res) ->
  esc t \/
  (evolves t t' /\ immediate mode t' /\
   match res with
   | IL_pos pos j1 j2 =>
       j1 = i1_of hash (bhp (cur t')) k /\ j2 = i2_of hash (bhp (cur t')) k /\
       ((pstatus pos = St_duplicated /\ key_in (cur t) k /\ bhp (cur t') = bhp (cur t) /\
         exists e, bget (cur t') (pindex pos) (pslot pos) = Some e /\ ekey e = k) \/
        (pstatus pos = St_ok /\ ~ key_in (cur t) k /\
         bget (cur t') (pindex pos) (pslot pos) = None /\
         cand hash (bhp (cur t')) k (pindex pos) /\ pslot pos < spb c))
   | IL_exn e => ~ key_in (cur t) k /\ exn_ok true t t' e
   end).
Proof.
  intros Hnt G Him t' res E.
  destruct (insert_loop_gen _ _ mode (fd_ok_cuckoo_fast_double mode Hnt) fuel t k G Him t' res E)
    as [He|H]; [left; exact He|right].
  destruct res as [pos j1 j2|e].
  - destruct H as [Ev H]. split; [exact Ev|].
    split; [exact (immediate_lim mode t t' (evolves_lim _ _ Ev) Him)|exact H].
  - destruct H as [Hk [He Hf]]. assert (Ev : evolves t t') by (apply Hf; left; exact Hnt).
    split; [exact Ev|]. split; [exact (immediate_lim mode t t' (evolves_lim _ _ Ev) Him)|].
    split; assumption.
Qed.

(* item 3: every member of the insert family (insert, insert_or_assign, upsert, uprase_fn,
   locked_table::insert, operator[]) is uprase_gen with some g *)
Theorem uprase_gen_good mode t k v g :
  nothrow c = true -> good t -> immediate mode t ->
  forall t' r, uprase_gen c hash mode t k v g = (t', r) ->
  (forall v0, holds (cur t) k v0 ->
     exists b s, r = inr (false, log_of g v0 false, (b, s)) /\
       good t' /\ lim_same t t' /\ immediate mode t' /\ bhp (cur t') = bhp (cur t) /\
       upd_holds (cur t) (cur t') k (final_of g v0 false) /\
       (forall vf, final_of g v0 false = Some vf ->
          exists e, bget (cur t') b s = Some e /\ ekey e = k /\ eval e = vf)) /\
  (~ key_in (cur t) k ->
     esc t \/
     (exists e, r = inl e /\ exn_ok true t t' e /\ evolves t t' /\ immediate mode t') \/
     (exists b s, r = inr (true, log_of g v true, (b, s)) /\
        good t' /\ lim_same t t' /\ immediate mode t' /\ bhp (cur t) <= bhp (cur t') /\
        upd_holds (cur t) (cur t') k (final_of g v true) /\
        (forall vf, final_of g v true = Some vf ->
           exists e, bget (cur t') b s = Some e /\ ekey e = k /\ eval e = vf))).
Proof.
  intros Hnt G Him t' r E. rewrite uprase_gen_eq in E.
  destruct (uprase_with_good _ _ mode (fd_ok_cuckoo_fast_double mode Hnt) t k v g G Him t' r E)
    as [Hin Hout].
  assert (St : settled t) by (destruct G as [St _]; exact St).
  split.
  - intros v0 Hv0.
    assert (Hk : key_in (cur t) k) by (apply key_in_holds; exists v0; exact Hv0).
    specialize (Hin Hk). unfold up_post in Hin.
    destruct r as [e|[[ins lg] [b s]]]; [destruct Hin as [Hn _]; contradiction|].
    destruct Hin as [G' [L [Hb [cv [Hcase [Hlg [Hu Hp]]]]]]].
    destruct Hcase as [[-> [Hcv Hhp]]|[_ [Hn _]]]; [|contradiction].
    assert (cv = v0) by (apply (holds_fun c hash _ _ _ _ (se_arr _ _ _ St) Hcv Hv0)). subst cv.
    exists b, s. split; [rewrite Hlg; reflexivity|]. split; [exact G'|]. split; [exact L|].
    split; [exact (immediate_lim mode t t' L Him)|]. split; [exact Hhp|]. split; assumption.
  - intro Hk. destruct (Hout Hk) as [He|Hp]; [left; exact He|right]. unfold up_post in Hp.
    destruct r as [e|[[ins lg] [b s]]].
    + left. destruct Hp as [_ [He Hf]]. assert (Ev : evolves t t') by (apply Hf; left; exact Hnt).
      exists e. split; [reflexivity|]. split; [exact He|]. split; [exact Ev|].
      exact (immediate_lim mode t t' (evolves_lim _ _ Ev) Him).
    + right. destruct Hp as [G' [L [Hb [cv [Hcase [Hlg [Hu Hp]]]]]]].
      destruct Hcase as [[_ [Hcv _]]|[-> [_ ->]]].
      { exfalso. apply Hk. apply key_in_holds. exists cv. exact Hcv. }
      exists b, s. split; [rewrite Hlg; reflexivity|]. split; [exact G'|]. split; [exact L|].
      split; [exact (immediate_lim mode t t' L Him)|]. split; [exact Hb|]. split; assumption.
Qed.

(* ================================================================== G. clear *)

(* item 6 *)
Theorem cuckoo_clear_good t :
  good t ->
  good (cuckoo_clear t) /\ (forall k v, ~ holds (cur (cuckoo_clear t)) k v) /\
  lim_same t (cuckoo_clear t) /\ bhp (cur (cuckoo_clear t)) = bhp (cur t) /\
  tsize (cuckoo_clear t) = 0.
Proof.
  intros [St [Ct [Hb [Hl Hw]]]].
  assert (Hn := se_locks _ _ _ St).
  assert (Hg : forall b s, bget (cur (cuckoo_clear t)) b s = None).
  { intros b s. rewrite cuckoo_clear_cur. apply bget_bclear. }
  assert (Hhp : bhp (cur (cuckoo_clear t)) = bhp (cur t)) by (rewrite cuckoo_clear_cur; reflexivity).
  assert (Hcl := cuckoo_clear_cur_locks t Hn).
  split; [|split; [|split; [repeat split|split; [exact Hhp|apply cuckoo_clear_tsize]]]].
  - split; [|split; [apply counted_cuckoo_clear; exact Hn|split; [lia|split]]].
    + constructor.
      * constructor.
        -- rewrite Hhp. apply (ao_hp _ _ _ (se_arr _ _ _ St)).
        -- intros b s e H. rewrite Hg in H. discriminate.
        -- intros b s e H. rewrite Hg in H. discriminate.
        -- intros b s e H. rewrite Hg in H. discriminate.
        -- intros b s e H. rewrite Hg in H. discriminate.
        -- intros b s e b' s' e' H. rewrite Hg in H. discriminate.
      * rewrite cuckoo_clear_cur. apply (se_alive _ _ _ St).
      * intros l Hin. rewrite Hcl in Hin. apply in_map_iff in Hin. destruct Hin as [x [<- _]]. reflexivity.
      * apply cuckoo_clear_locks_nonnil. exact Hn.
      * intros b Hlt. rewrite Hcl, map_length. apply (se_cover _ _ _ St). rewrite <- Hhp. exact Hlt.
    + rewrite Hcl, map_length. exact Hl.
    + apply (within_same t _); [reflexivity|exact Hhp|exact Hw].
  - intros k v [b [s [e [H _]]]]. rewrite Hg in H. discriminate.
Qed.

(* ================================================================== H. iteration *)

Definition kvs (o : list rv) : list (N * Z) :=
  flat_map (fun r => match r with RKV k v => [(k, v)] | _ => [] end) o.

Definition kv_at (a : barray) (p : N * N) : N * Z :=
  match bget a (fst p) (snd p) with Some e => (ekey e, eval e) | None => (0, 0%Z) end.

Lemma kvs_visits t : forall l,
  (forall p, In p l -> In p (occ_list c (cur t))) ->
  kvs (flat_map (visit t) l) = map (kv_at (cur t)) l.
Proof.
  induction l as [|p l IH]; intro Hl; [reflexivity|].
  cbn [flat_map map]. unfold kvs in *. rewrite flat_map_app. rewrite IH by (intros q Hq; apply Hl; right; exact Hq).
  destruct (visit_occ c t p (Hl p (or_introl eq_refl))) as [e [He Hv]].
  rewrite Hv. unfold kv_at. rewrite He. reflexivity.
Qed.

Lemma map_fst_kv_at a l : map fst (map (kv_at a) l) = map (key_at a) l.
Proof.
  rewrite map_map. apply map_ext. intro p. unfold kv_at, key_at.
  destruct (bget a (fst p) (snd p)); reflexivity.
Qed.

(* item 7: a forward traversal reports exactly the contents, each key once *)
Theorem traverse_fwd_good t :
  good t ->
  let out := traverse_fwd c t (it_begin c t) (trav_fuel c t) in
  (forall k v, In (RKV k v) out <-> holds (cur t) k v) /\
  (forall k v, In (k, v) (kvs out) <-> holds (cur t) k v) /\
  NoDup (map fst (kvs out)) /\
  length (kvs out) = count_arr c (cur t).
Proof.
  intros [St [_ [Hb _]]] out. assert (Ha := se_arr _ _ _ St).
  assert (Hhp : hashpower t < 62) by (rewrite hashpower_eq; lia).
  assert (Eo : out = flat_map (visit t) (occ_list c (cur t))).
  { unfold out. apply traverse_fwd_spec; [apply (co_spb _ Hc)|exact Hhp]. }
  assert (Ek : kvs out = map (kv_at (cur t)) (occ_list c (cur t))).
  { rewrite Eo. apply kvs_visits. intros p Hp. exact Hp. }
  assert (Hkv : forall k v, In (k, v) (kvs out) <-> holds (cur t) k v).
  { intros k v. rewrite Ek, in_map_iff. split.
    - intros [p [Hkv Hp]]. destruct (occ_in_range c t p Hp) as [_ [_ [e He]]].
      unfold kv_at in Hkv. rewrite He in Hkv. injection Hkv as <- <-.
      exists (fst p), (snd p), e. repeat split. exact He.
    - intros [b [s [e [He [Hk Hv]]]]]. exists (b, s). split.
      + unfold kv_at. cbn [fst snd]. rewrite He, Hk, Hv. reflexivity.
      + apply In_occ_list. cbn [fst snd]. destruct (ao_range _ _ _ Ha _ _ _ He) as [H1 H2].
        split; [exact H1|]. split; [exact H2|]. apply occupied_true. exists e. exact He. }
  split; [|split; [exact Hkv|split]].
  - intros k v. rewrite <- Hkv. unfold kvs. rewrite in_flat_map. split.
    + intro H. exists (RKV k v). split; [exact H|left; reflexivity].
    + intros [r [Hr Hin]]. destruct r; cbn in Hin; try contradiction.
      destruct Hin as [Hin|[]]. injection Hin as <- <-. exact Hr.
  - rewrite Ek, map_fst_kv_at. apply NoDup_keys_of. exact Ha.
  - rewrite Ek, map_length. reflexivity.
Qed.

(* ================================================================== I. the rebuild (cuckoo_expand_simple) *)

(* the temporary map runs in normal mode: its doublings are immediate only below the stripe count;
   58 is the model's bound on rebuild targets *)
Definition limC (x : N) : Prop := x <= lbits c /\ x <= 58.

Lemma good_ext_w t t' :
  cur t' = cur t -> locks t' = locks t -> good t -> within t' -> good t'.
Proof.
  intros Ec El [St [Ct [Hb [Hl _]]]] Hw.
  assert (Hcl : cur_locks t' = cur_locks t) by (apply cur_locks_locks; exact El).
  split; [|split; [|split; [|split]]].
  - constructor.
    + rewrite Ec. apply (se_arr _ _ _ St).
    + rewrite Ec. apply (se_alive _ _ _ St).
    + apply (all_migrated_locks t t' El). apply (se_mig _ _ _ St).
    + rewrite El. apply (se_locks _ _ _ St).
    + rewrite Ec, Hcl. apply (se_cover _ _ _ St).
  - unfold InvDefs.counted in *. rewrite Hcl, Ec. exact Ct.
  - rewrite Ec. exact Hb.
  - rewrite Hcl. exact Hl.
  - exact Hw.
Qed.

Lemma good_ext t t' :
  cur t' = cur t -> locks t' = locks t -> mhp t' = mhp t -> good t -> good t'.
Proof.
  intros Ec El Em G. apply (good_ext_w t t' Ec El G).
  apply (within_same t t' Em); [rewrite Ec; reflexivity|]. destruct G as [_ [_ [_ [_ Hw]]]]. exact Hw.
Qed.

Lemma rehash_with_workers_good t :
  good t ->
  let t1 := rehash_with_workers c hash t in
  good t1 /\ cur t1 = cur t /\ locks t1 = locks t /\ lim_same t t1 /\ rc t1 = rc t.
Proof.
  intro G. assert (St : settled t) by (destruct G as [St _]; exact St).
  unfold rehash_with_workers. rewrite (rehash_all_settled c hash _ t 0 (se_mig _ _ _ St)).
  destruct (set_nrem_fields t 0) as [E1 [E2 [E3 [E4 [E5 [E6 [E7 E8]]]]]]].
  cbv zeta. split; [apply (good_ext t _ E1 E2 E7 G)|]. split; [exact E1|]. split; [exact E2|].
  split; [|exact E4]. repeat split; assumption.
Qed.

Lemma reserve_calc_pow hp : hp <= 58 -> reserve_calc c (wrap64 (hashsize hp * spb c)) = hp.
Proof.
  intro H. assert (Hs := co_spb _ Hc). assert (Hs8 := co_spb_max _ Hc).
  rewrite hashsize_spec by lia.
  assert (Hp : 2 ^ hp <= 2 ^ 58) by (apply pow2_le_mono; exact H).
  assert (Hpp := pow2_pos hp).
  assert (Hn : 2 ^ hp * spb c <= 2 ^ 58 * 8) by (apply N.mul_le_mono; assumption).
  change (2 ^ 58 * 8) with 2305843009213693952 in Hn.
  unfold wrap64. rewrite wrap_small by (change (2 ^ 64) with 18446744073709551616; lia).
  destruct (reserve_calc_spec c (2 ^ hp * spb c) Hs) as [H1 [H2 _]].
  - change (2 ^ 64) with 18446744073709551616. lia.
  - apply N.mul_le_mono_r. apply pow2_le_mono. lia.
  - set (r := reserve_calc c (2 ^ hp * spb c)) in *.
    apply N.le_antisymm.
    + destruct (N.le_gt_cases r hp) as [L|L]; [exact L|]. specialize (H2 hp L). lia.
    + destruct (N.le_gt_cases hp r) as [L|L]; [exact L|]. exfalso.
      assert (Hlt := pow2_lt_mono r hp L).
      apply N.mul_le_mono_pos_r in H1; [|exact Hs]. lia.
Qed.

(* the temporary map of a rebuild *)
Definition new_map (auto : bool) (t1 : table) (new_hp : N) : table :=
  let nm00 := set_workers (new_table c (wrap64 (hashsize new_hp * spb c))) (workers t1) in
  let nm01 := if auto then set_mlf nm00 (mlfn t1) (mlfd t1) else set_mlf nm00 0 1 in
  set_mhp nm01 (mhp t1).

Lemma new_map_good auto t1 new_hp :
  new_hp <= 58 -> mhp t1 = NO_MAXIMUM_HASHPOWER \/ new_hp <= mhp t1 ->
  let nm := new_map auto t1 new_hp in
  good nm /\ bhp (cur nm) = new_hp /\ mhp nm = mhp t1 /\
  mlfn nm = (if auto then mlfn t1 else 0) /\ (forall k v, ~ holds (cur nm) k v).
Proof.
  intros H58 Hmax. cbv zeta.
  set (n := wrap64 (hashsize new_hp * spb c)).
  assert (Er : reserve_calc c n = new_hp) by (apply reserve_calc_pow; exact H58).
  assert (Hr62 : reserve_calc c n < 62) by lia.
  destruct (new_table_ok c hash n Hc Hr62) as [St [Ct [_ [_ Hhp]]]].
  rewrite hashpower_eq, Er in Hhp.
  assert (Ec : cur (new_map auto t1 new_hp) = cur (new_table c n)) by (destruct auto; reflexivity).
  assert (El : locks (new_map auto t1 new_hp) = locks (new_table c n)) by (destruct auto; reflexivity).
  assert (Em : mhp (new_map auto t1 new_hp) = mhp t1) by (destruct auto; reflexivity).
  assert (Hw : within (new_map auto t1 new_hp)).
  { unfold within. rewrite Em, Ec, Hhp. exact Hmax. }
  assert (G0 : good (new_table c n)).
  { split; [exact St|]. split; [exact Ct|]. split; [lia|]. split.
    - rewrite new_table_cur_locks, repeat_length. lia.
    - left. reflexivity. }
  split; [apply (good_ext_w _ _ Ec El G0 Hw)|]. split; [rewrite Ec; exact Hhp|]. split; [exact Em|].
  split; [destruct auto; reflexivity|].
  intros k v [b [s [e [He _]]]]. rewrite Ec in He.
  change (cur (new_table c n)) with (bnew (reserve_calc c n)) in He. rewrite bget_bnew in He. discriminate.
Qed.

(* one insertion into the temporary map *)
Lemma insert_with_good lim fd :
  fd_ok lim fd false ->
  forall nm k v, good nm -> lim (mhp nm) -> mhp nm <= 59 -> ~ key_in (cur nm) k ->
  forall nm' r, insert_with c hash fd nm k v = (nm', r) ->
  match r with
  | Some e => exn_ok true nm nm' e /\ fail_ok nm nm'
  | None =>
      good nm' /\ lim_same nm nm' /\ bhp (cur nm) <= bhp (cur nm') /\
      forall k' v', holds (cur nm') k' v' <-> (k' = k /\ v' = v) \/ (k' <> k /\ holds (cur nm) k' v')
  end.
Proof.
  intros Hfd nm k v G Hl Hcap Hk nm' r E. rewrite insert_with_eq in E.
  destruct (uprase_with fd false nm k v (fun _ _ => None)) as [t' ur] eqn:Eu.
  destruct (uprase_with_good lim fd false Hfd nm k v _ G Hl t' ur Eu) as [_ Hout].
  destruct (Hout Hk) as [He|Hp]; [exfalso; exact (esc_capped nm Hcap He)|].
  unfold up_post in Hp. destruct ur as [e|[[ins lg] [b s]]]; injection E as <- <-.
  - destruct Hp as [_ [He Hf]]. split; assumption.
  - destruct Hp as [G' [L [Hb [cv [Hcase [_ [Hu _]]]]]]].
    split; [exact G'|]. split; [exact L|]. split; [exact Hb|].
    destruct Hcase as [[_ [Hcv _]]|[-> [_ ->]]].
    { exfalso. apply Hk. apply key_in_holds. exists cv. exact Hcv. }
    change (final_of (fun _ _ => None) v true) with (Some v) in Hu.
    intros k' v'. rewrite (Hu k' v'). split.
    + intros [[Hne H]|[E H]]; [right; split; assumption|left].
      injection H as <-. split; [exact E|reflexivity].
    + intros [[E1 E2]|[Hne H]]; [right; split; [exact E1|rewrite E2; reflexivity]|left; split; assumption].
Qed.

(* positions before the frontier, in (bucket, slot) order *)
Definition plt (p q : N * N) : Prop := fst p < fst q \/ (fst p = fst q /\ snd p < snd q).

Lemma plt_weaken b s p : plt p (b, s) -> plt p (b, s + 1).
Proof. unfold plt. cbn [fst snd]. lia. Qed.

Lemma plt_succ_inv b s b' s' : plt (b', s') (b, s + 1) -> plt (b', s') (b, s) \/ (b' = b /\ s' = s).
Proof. unfold plt. cbn [fst snd]. lia. Qed.

Lemma plt_irrefl p : ~ plt p p.
Proof. unfold plt. lia. Qed.

(* the state of the move loop: everything before the frontier has been inserted into nm *)
Record xinv (a0 : barray) (nm0 : table) (fr : N * N) (src : barray) (nm : table) : Prop := {
  xv_good : good nm;
  xv_lim : lim_same nm0 nm;
  xv_hp : bhp (cur nm0) <= bhp (cur nm);
  xv_holds : forall k v, holds (cur nm) k v <->
      exists b s e, plt (b, s) fr /\ bget a0 b s = Some e /\ ekey e = k /\ eval e = v;
  xv_rest : forall b s, ~ plt (b, s) fr -> bget src b s = bget a0 b s;
  xv_nd : destructive c = false -> forall b s, bget src b s = bget a0 b s;
  xv_hpsrc : bhp src = bhp a0;
  xv_dead : bdead src = bdead a0
}.

Definition xfail (a0 : barray) (nm0 : table) (src' : barray) (ex : exn) : Prop :=
  exn_ok0 true nm0 ex /\ bhp src' = bhp a0 /\ bdead src' = bdead a0 /\
  (destructive c = false -> forall b s, bget src' b s = bget a0 b s).

Lemma expand_move_slots_inv lim fd a0 nm0 b :
  fd_ok lim fd false -> arr_ok a0 -> lim (mhp nm0) -> mhp nm0 <= 59 ->
  forall n s src nm, s + N.of_nat n = spb c -> xinv a0 nm0 (b, s) src nm ->
  forall src' nm' r,
  expand_move_slots c (insert_with c hash fd) src nm b s n = (src', nm', r) ->
  match r with
  | None => xinv a0 nm0 (b, spb c) src' nm'
  | Some ex => xfail a0 nm0 src' ex
  end.
Proof.
  intros Hfd Ha0 Hl0 Hcap. induction n as [|n IH]; intros s src nm Hs X src' nm' r E.
  - cbn [expand_move_slots] in E. injection E as <- <- <-. replace (spb c) with s by lia. exact X.
  - cbn [expand_move_slots] in E.
    assert (Hnot : ~ plt (b, s) (b, s)) by apply plt_irrefl.
    assert (Hsrc : bget src b s = bget a0 b s) by (apply (xv_rest _ _ _ _ _ X); exact Hnot).
    destruct (bget src b s) as [e|] eqn:Eb.
    + symmetry in Hsrc.
      assert (Hk : ~ key_in (cur nm) (ekey e)).
      { intro Hin. apply key_in_holds in Hin. destruct Hin as [v' Hv'].
        apply (xv_holds _ _ _ _ _ X) in Hv'. destruct Hv' as [b' [s' [e' [Hlt [He' [Hk' _]]]]]].
        destruct (ao_uniq _ _ _ Ha0 _ _ _ _ _ _ He' Hsrc Hk') as [-> ->]. exact (Hnot Hlt). }
      assert (G := xv_good _ _ _ _ _ X). assert (L := xv_lim _ _ _ _ _ X).
      assert (Hm : mhp nm = mhp nm0) by (destruct L as [_ [_ [Hm _]]]; exact Hm).
      assert (Hl : lim (mhp nm)) by (rewrite Hm; exact Hl0).
      assert (Hcap' : mhp nm <= 59) by (rewrite Hm; exact Hcap).
      destruct (insert_with c hash fd nm (ekey e) (eval e)) as [nm1 r1] eqn:Ei.
      assert (Hi := insert_with_good lim fd Hfd nm (ekey e) (eval e) G Hl Hcap' Hk nm1 r1 Ei).
      set (src1 := bset src b s (Some (husk_of c e))) in *.
      assert (Hnd1 : destructive c = false -> forall b' s', bget src1 b' s' = bget a0 b' s').
      { intros Hd b' s'. unfold src1, husk_of. rewrite Hd.
        destruct (bget_bset_cases src b s (Some e) b' s') as [[-> [-> H]]|[Hne H]]; rewrite H.
        - symmetry. exact Hsrc.
        - apply (xv_nd _ _ _ _ _ X Hd). }
      assert (Hhp1 : bhp src1 = bhp a0) by (unfold src1; rewrite bhp_bset; apply (xv_hpsrc _ _ _ _ _ X)).
      assert (Hdd1 : bdead src1 = bdead a0) by (unfold src1; rewrite bdead_bset; apply (xv_dead _ _ _ _ _ X)).
      destruct r1 as [ex|].
      * injection E as <- <- <-. destruct Hi as [Hex _].
        split; [eapply exn_ok0_lim; [exact L|exact (proj1 Hex)]|]. split; [exact Hhp1|]. split; [exact Hdd1|exact Hnd1].
      * destruct Hi as [G1 [L1 [Hb1 Hh1]]].
        apply (IH (s + 1) src1 nm1); [lia| |exact E]. constructor.
        -- exact G1.
        -- exact (lim_same_trans _ _ _ L L1).
        -- assert (Hx := xv_hp _ _ _ _ _ X). lia.
        -- intros k v. rewrite (Hh1 k v). split.
           ++ intros [[-> ->]|[Hne H]].
              ** exists b, s, e. split; [unfold plt; cbn [fst snd]; lia|]. split; [exact Hsrc|]. split; reflexivity.
              ** apply (xv_holds _ _ _ _ _ X) in H. destruct H as [b' [s' [e' [Hlt H]]]].
                 exists b', s', e'. split; [apply plt_weaken; exact Hlt|exact H].
           ++ intros [b' [s' [e' [Hlt [He' [Hk' Hv']]]]]].
              destruct (plt_succ_inv b s b' s' Hlt) as [Hlt'|[-> ->]].
              ** right. split.
                 { intro Ek. rewrite <- Hk' in Ek.
                   destruct (ao_uniq _ _ _ Ha0 _ _ _ _ _ _ He' Hsrc Ek) as [-> ->]. exact (Hnot Hlt'). }
                 apply (xv_holds _ _ _ _ _ X). exists b', s', e'.
                 split; [exact Hlt'|]. split; [exact He'|]. split; assumption.
              ** left. rewrite Hsrc in He'. injection He' as <-. split; symmetry; assumption.
        -- intros b' s' Hn. unfold src1.
           destruct (bget_bset_cases src b s (Some (husk_of c e)) b' s') as [[-> [-> H]]|[Hne H]].
           ++ exfalso. apply Hn. unfold plt. cbn [fst snd]. lia.
           ++ rewrite H. apply (xv_rest _ _ _ _ _ X). intro Hlt. apply Hn. apply plt_weaken. exact Hlt.
        -- exact Hnd1.
        -- exact Hhp1.
        -- exact Hdd1.
    + apply (IH (s + 1) src nm); [lia| |exact E]. constructor.
      * apply (xv_good _ _ _ _ _ X).
      * apply (xv_lim _ _ _ _ _ X).
      * apply (xv_hp _ _ _ _ _ X).
      * intros k v. rewrite (xv_holds _ _ _ _ _ X k v).
        split; intros [b' [s' [e' [Hlt H]]]]; exists b', s', e'.
        -- split; [apply plt_weaken; exact Hlt|exact H].
        -- split; [|exact H]. destruct (plt_succ_inv b s b' s' Hlt) as [Hlt'|[-> ->]]; [exact Hlt'|].
           destruct H as [H _]. rewrite <- Hsrc in H. discriminate.
      * intros b' s' Hn. apply (xv_rest _ _ _ _ _ X). intro Hlt. apply Hn. apply plt_weaken. exact Hlt.
      * apply (xv_nd _ _ _ _ _ X).
      * apply (xv_hpsrc _ _ _ _ _ X).
      * apply (xv_dead _ _ _ _ _ X).
Qed.

Lemma xinv_next a0 nm0 b src nm :
  arr_ok a0 -> xinv a0 nm0 (b, spb c) src nm -> xinv a0 nm0 (b + 1, 0) src nm.
Proof.
  intros Ha0 X. constructor.
  - apply (xv_good _ _ _ _ _ X).
  - apply (xv_lim _ _ _ _ _ X).
  - apply (xv_hp _ _ _ _ _ X).
  - intros k v. rewrite (xv_holds _ _ _ _ _ X k v).
    split; intros [b' [s' [e' [Hlt [He' H]]]]]; exists b', s', e'.
    + split; [|split; [exact He'|exact H]]. unfold plt in *. cbn [fst snd] in *. lia.
    + split; [|split; [exact He'|exact H]]. destruct (ao_range _ _ _ Ha0 _ _ _ He') as [_ Hs].
      unfold plt in *. cbn [fst snd] in *. lia.
  - intros b' s' Hn. apply (xv_rest _ _ _ _ _ X). intro Hlt. apply Hn.
    unfold plt in *. cbn [fst snd] in *. lia.
  - apply (xv_nd _ _ _ _ _ X).
  - apply (xv_hpsrc _ _ _ _ _ X).
  - apply (xv_dead _ _ _ _ _ X).
Qed.

Lemma expand_move_buckets_inv lim fd a0 nm0 :
  fd_ok lim fd false -> arr_ok a0 -> lim (mhp nm0) -> mhp nm0 <= 59 ->
  forall n b src nm, b + N.of_nat n = 2 ^ bhp a0 -> xinv a0 nm0 (b, 0) src nm ->
  forall src' nm' r,
  expand_move_buckets c (insert_with c hash fd) src nm b n = (src', nm', r) ->
  match r with
  | None => xinv a0 nm0 (2 ^ bhp a0, 0) src' nm'
  | Some ex => xfail a0 nm0 src' ex
  end.
Proof.
  intros Hfd Ha0 Hl0 Hcap. induction n as [|n IH]; intros b src nm Hb X src' nm' r E.
  - cbn [expand_move_buckets] in E. injection E as <- <- <-.
    replace (2 ^ bhp a0) with b by lia. exact X.
  - cbn [expand_move_buckets] in E.
    destruct (expand_move_slots c (insert_with c hash fd) src nm b 0 (N.to_nat (spb c)))
      as [[src1 nm1] r1] eqn:Es.
    assert (Hs0 : 0 + N.of_nat (N.to_nat (spb c)) = spb c) by lia.
    assert (Hs := expand_move_slots_inv lim fd a0 nm0 b Hfd Ha0 Hl0 Hcap (N.to_nat (spb c)) 0 src nm
                    Hs0 X src1 nm1 r1 Es).
    destruct r1 as [ex|].
    + injection E as <- <- <-. exact Hs.
    + apply (IH (b + 1) src1 nm1); [lia| |exact E]. apply xinv_next; assumption.
Qed.

(* the body of expand_simple_f at positive fuel, with the temporary map's expansion function
   abstracted *)
Definition es_body (fd : bool -> table -> N -> rres) (auto : bool) (t : table) (new_hp : N) : rres :=
  let hp := hashpower t in
  match check_resize_validity c auto t hp new_hp with
  | inl (Some e) => (t, inl e)
  | inl None => (t, inl EUnmodelled)
  | inr St_ok =>
    if 58 <? new_hp then (t, inl EUnmodelled) else
    let t1 := rehash_with_workers c hash t in
    let nm0 := new_map auto t1 new_hp in
    let ins := insert_with c hash fd in
    match expand_move_buckets c ins (cur t1) nm0 0 (N.to_nat (hashsize hp)) with
    | (src', nm1, Some ex) => (set_cur t1 src', inl ex)
    | (src', nm1, None) =>
      let nm2 := rehash_with_workers c hash nm1 in
      let t2 := maybe_resize_locks c t1 (bucket_count nm2) in
      let t3 := set_cur t2 (cur nm2) in
      (set_rc t3 (wrap64 (rc t3 + 1)), inr St_ok)
    end
  | inr st => (t, inr st)
  end.

Lemma expand_simple_f_S f auto mode t new_hp :
  expand_simple_f c hash (S f) auto mode t new_hp = es_body (fast_double_f c hash f true) auto t new_hp.
Proof. reflexivity. Qed.

Lemma fast_double_f_S f auto mode t hp :
  fast_double_f c hash (S f) auto mode t hp =
  if negb (nothrow c) then expand_simple_f c hash f auto mode t (hp + 1)
  else match check_resize_validity c auto t hp (hp + 1) with
       | inl (Some e) => (t, inl e)
       | inl None => (t, inl EUnmodelled)
       | inr St_ok => (fast_double_body c hash mode t (hp + 1), inr St_ok)
       | inr st => (t, inr st)
       end.
Proof. reflexivity. Qed.

Lemma fast_double_f_S_throw f auto mode t hp :
  nothrow c = false ->
  fast_double_f c hash (S f) auto mode t hp = expand_simple_f c hash f auto mode t (hp + 1).
Proof. intro H. rewrite fast_double_f_S, H. reflexivity. Qed.

Lemma crv_self auto t n :
  let r := check_resize_validity c auto t (hashpower t) n in
  (maxed t n /\ r = inl (Some EMaxHashpower)) \/
  (~ maxed t n /\ auto = true /\ lf_lt_mlf c t = true /\ r = inl (Some ELoadFactorTooLow)) \/
  (~ maxed t n /\ (auto = true -> lf_lt_mlf c t = false) /\ r = inr St_ok).
Proof.
  cbv zeta. destruct (maxed_dec t n) as [Hm|Hm].
  - left. split; [exact Hm|]. apply crv_maxhp_iff. exact Hm.
  - right. destruct auto.
    + destruct (lf_lt_mlf c t) eqn:Hlf.
      * left. split; [exact Hm|]. split; [reflexivity|]. split; [reflexivity|].
        apply crv_lf_iff. split; [exact Hm|]. split; [reflexivity|exact Hlf].
      * right. split; [exact Hm|]. split; [reflexivity|].
        apply crv_ok_intro; [|intros _; exact Hlf]. unfold maxed in Hm.
        destruct (N.eq_dec (mhp t) NO_MAXIMUM_HASHPOWER) as [E|E]; [left; exact E|right].
        destruct (N.le_gt_cases n (mhp t)) as [L|L]; [exact L|]. exfalso. apply Hm. split; assumption.
    + right. split; [exact Hm|]. split; [intro H; discriminate|].
      apply crv_ok_intro; [|intro H; discriminate]. unfold maxed in Hm.
      destruct (N.eq_dec (mhp t) NO_MAXIMUM_HASHPOWER) as [E|E]; [left; exact E|right].
      destruct (N.le_gt_cases n (mhp t)) as [L|L]; [exact L|]. exfalso. apply Hm. split; assumption.
Qed.

Definition es_post (auto : bool) (t : table) (new_hp : N) (r : rres) : Prop :=
  match snd r with
  | inr St_ok =>
      good (fst r) /\ (forall k v, holds (cur (fst r)) k v <-> holds (cur t) k v) /\
      lim_same t (fst r) /\ new_hp <= bhp (cur (fst r)) /\ rc (fst r) = wrap64 (rc t + 1) /\
      ~ maxed t new_hp /\ (auto = true -> lf_lt_mlf c t = false)
  | inr _ => False
  | inl e =>
      exn_ok0 auto t e /\
      (destructive c = false -> evolves t (fst r) /\ bhp (cur (fst r)) = bhp (cur t))
  end.

Lemma es_body_good fd auto t new_hp :
  fd_ok limC fd false -> good t -> limC (mhp t) ->
  es_post auto t new_hp (es_body fd auto t new_hp).
Proof.
  intros Hfd G [Hlb H58]. unfold es_body. cbv zeta.
  destruct (crv_self auto t new_hp) as [[Hm E]|[[Hm [Ha [Hlf E]]]|[Hm [Hlf E]]]];
    cbv zeta in E; rewrite E; unfold es_post; cbn [fst snd].
  - split; [left; split; [reflexivity|destruct Hm as [Hm _]; exact Hm]|].
    intros _. split; [apply evolves_refl; exact G|reflexivity].
  - split; [right; left; split; [reflexivity|split; [exact Ha|apply lf_true_mlfn; exact Hlf]]|].
    intros _. split; [apply evolves_refl; exact G|reflexivity].
  - assert (Hne : mhp t <> NO_MAXIMUM_HASHPOWER) by (unfold NO_MAXIMUM_HASHPOWER; lia).
    assert (Hnh : new_hp <= mhp t).
    { destruct (N.le_gt_cases new_hp (mhp t)) as [L|L]; [exact L|]. exfalso. apply Hm. split; assumption. }
    assert (Hn58 : new_hp <= 58) by lia.
    replace (58 <? new_hp) with false by (symmetry; apply N.ltb_ge; exact Hn58).
    destruct (rehash_with_workers_good t G) as [G1 [Ec1 [El1 [L1 Hrc1]]]]. cbv zeta in G1, Ec1, El1, L1, Hrc1.
    set (t1 := rehash_with_workers c hash t) in *.
    assert (Hm1 : mhp t1 = mhp t) by (destruct L1 as [_ [_ [H _]]]; exact H).
    assert (Hmax1 : mhp t1 = NO_MAXIMUM_HASHPOWER \/ new_hp <= mhp t1) by (right; rewrite Hm1; exact Hnh).
    destruct (new_map_good auto t1 new_hp Hn58 Hmax1) as [G0 [Hhp0 [Hm0 [Hmlf0 Hempty]]]].
    cbv zeta in G0, Hhp0, Hm0, Hmlf0, Hempty.
    set (nm0 := new_map auto t1 new_hp) in *.
    assert (St1 : settled t1) by (destruct G1 as [St1 _]; exact St1).
    assert (Ha0 : arr_ok (cur t1)) by (apply (se_arr _ _ _ St1)).
    assert (Hb1 : bhp (cur t1) < 60) by (destruct G1 as [_ [_ [Hb1 _]]]; exact Hb1).
    assert (X0 : xinv (cur t1) nm0 (0, 0) (cur t1) nm0).
    { constructor.
      - exact G0.
      - apply lim_same_refl.
      - lia.
      - intros k v. split.
        + intro H. exfalso. exact (Hempty k v H).
        + intros [b [s [e [Hlt _]]]]. exfalso. unfold plt in Hlt. cbn [fst snd] in Hlt. lia.
      - intros b s _. reflexivity.
      - intros _ b s. reflexivity.
      - reflexivity.
      - reflexivity. }
    assert (Hl0 : limC (mhp nm0)) by (rewrite Hm0, Hm1; split; assumption).
    assert (Hcap0 : mhp nm0 <= 59) by (rewrite Hm0, Hm1; lia).
    assert (Hn : 0 + N.of_nat (N.to_nat (hashsize (hashpower t))) = 2 ^ bhp (cur t1)).
    { rewrite hashpower_eq, <- Ec1, hashsize_spec by lia. lia. }
    destruct (expand_move_buckets c (insert_with c hash fd) (cur t1) nm0 0
                (N.to_nat (hashsize (hashpower t)))) as [[src' nm1] r] eqn:Em.
    assert (Hx := expand_move_buckets_inv limC fd (cur t1) nm0 Hfd Ha0 Hl0 Hcap0 _ 0 (cur t1) nm0
                    Hn X0 src' nm1 r Em).
    destruct r as [ex|]; cbn [fst snd].
    + (* an insertion into the temporary map failed *)
      destruct Hx as [Hex [Hhps [Hdds Hnd]]].
      split.
      * destruct Hex as [[He Hmx]|[[He [_ Hml]]|He]].
        -- left. split; [exact He|]. rewrite <- Hm1, <- Hm0. exact Hmx.
        -- right. left. split; [exact He|]. rewrite Hmlf0 in Hml. destruct auto; [|contradiction].
           split; [reflexivity|]. destruct L1 as [H _]. rewrite <- H. exact Hml.
        -- right. right. exact He.
      * intro Hd. specialize (Hnd Hd).
        assert (Hbeq : beq (cur t1) src') by (split; [symmetry; exact Hhps|intros b s; symmetry; apply Hnd]).
        assert (Hcnt : count_arr c src' = count_arr c (cur t1)).
        { apply count_arr_ext; [exact Hhps|]. intros b s _ _. unfold occupied. rewrite Hnd. reflexivity. }
        destruct G1 as [_ [Ct1 [_ [Hl1 Hw1]]]].
        split; [|rewrite <- Ec1; exact Hhps]. split; [|split; [|split]].
        -- split; [|split; [|split; [|split]]].
           ++ apply settled_set_cur; [exact St1|apply (arr_ok_ext c hash _ _ Hbeq Ha0)| |exact Hhps].
              rewrite Hdds. apply (se_alive _ _ _ St1).
           ++ apply counted_set_cur_same; [exact Hcnt|exact Ct1].
           ++ cbn [cur set_cur]. rewrite Hhps. exact Hb1.
           ++ rewrite cur_locks_set_cur. exact Hl1.
           ++ apply (within_same t1 _); [reflexivity|exact Hhps|exact Hw1].
        -- intros k v. cbn [cur set_cur]. rewrite <- (holds_ext _ _ k v Hbeq), Ec1. reflexivity.
        -- apply (lim_same_trans _ _ _ L1). repeat split.
        -- cbn [cur set_cur]. rewrite Hhps, Ec1. lia.
    + (* every element moved *)
      assert (G1' := xv_good _ _ _ _ _ Hx). assert (Lx := xv_lim _ _ _ _ _ Hx).
      assert (Hhpx := xv_hp _ _ _ _ _ Hx).
      assert (Hh : forall k v, holds (cur nm1) k v <-> holds (cur t1) k v).
      { intros k v. rewrite (xv_holds _ _ _ _ _ Hx k v). split.
        - intros [b [s [e [_ [He [Hk Hv]]]]]]. exists b, s, e. split; [exact He|]. split; assumption.
        - intros [b [s [e [He [Hk Hv]]]]]. exists b, s, e. split; [|split; [exact He|split; assumption]].
          destruct (ao_range _ _ _ Ha0 _ _ _ He) as [Hb _]. left. cbn [fst]. exact Hb. }
      destruct (rehash_with_workers_good nm1 G1') as [_ [Ec2 _]]. cbv zeta in Ec2.
      set (nm2 := rehash_with_workers c hash nm1) in *.
      assert (St' : settled nm1) by (destruct G1' as [S _]; exact S).
      assert (Hb' : bhp (cur nm1) < 60) by (destruct G1' as [_ [_ [H _]]]; exact H).
      assert (Hw' : within nm1) by (destruct G1' as [_ [_ [_ [_ H]]]]; exact H).
      assert (Enb : bucket_count nm2 = 2 ^ bhp (cur nm1)).
      { unfold bucket_count. rewrite hashpower_eq, Ec2. apply hashsize_spec. lia. }
      rewrite Enb.
      set (t2 := maybe_resize_locks c t1 (2 ^ bhp (cur nm1))).
      set (t' := set_rc (set_cur t2 (cur nm2)) (wrap64 (rc (set_cur t2 (cur nm2)) + 1))).
      assert (Ect : cur t' = cur nm1) by (rewrite <- Ec2; reflexivity).
      assert (Elt : locks t' = locks t2) by reflexivity.
      assert (Hclt : cur_locks t' = cur_locks t2) by (apply cur_locks_locks; exact Elt).
      destruct (maybe_resize_locks_scalars c t1 (2 ^ bhp (cur nm1))) as [_ [S2 [S3 [S4 [S5 S6]]]]].
      fold t2 in S2, S3, S4, S5, S6.
      assert (Hlen := maybe_resize_locks_length_eq c t1 (2 ^ bhp (cur nm1))). fold t2 in Hlen.
      destruct G1 as [_ [Ct1 [_ [Hl1 Hw1]]]].
      assert (Hmx : mhp nm1 = mhp t1) by (destruct Lx as [_ [_ [H _]]]; rewrite H; exact Hm0).
      split; [|split; [|split; [|split; [|split; [|split; [exact Hm|exact Hlf]]]]]].
      * split; [|split; [|split; [|split]]].
        -- constructor.
           ++ rewrite Ect. apply (se_arr _ _ _ St').
           ++ rewrite Ect. apply (se_alive _ _ _ St').
           ++ apply (all_migrated_locks t2 t' Elt).
              apply maybe_resize_locks_all_migrated. apply (se_mig _ _ _ St1).
           ++ rewrite Elt. apply maybe_resize_locks_nonnil. apply (se_locks _ _ _ St1).
           ++ rewrite Ect, Hclt. apply (cover_min c Hc). rewrite Hlen. lia.
        -- unfold InvDefs.counted in *. rewrite Hclt, Ect. unfold t2.
           rewrite maybe_resize_locks_sum, Ct1. f_equal. symmetry.
           apply count_arr_holds; [exact Ha0|apply (se_arr _ _ _ St')|exact Hh].
        -- rewrite Ect. exact Hb'.
        -- rewrite Hclt, Hlen. apply Nat.max_lub; [exact Hl1|lia].
        -- unfold within in *. rewrite Ect. change (mhp t') with (mhp t2). rewrite S5, <- Hmx. exact Hw'.
      * intros k v. rewrite Ect, (Hh k v), Ec1. reflexivity.
      * apply (lim_same_trans _ _ _ L1). change (lim_same t1 t2). repeat split; assumption.
      * rewrite Ect. lia.
      * change (rc t') with (wrap64 (rc t2 + 1)). rewrite S2, Hrc1. reflexivity.
Qed.


Lemma es_body_maxed fd auto t new_hp :
  maxed t new_hp -> es_body fd auto t new_hp = (t, inl EMaxHashpower).
Proof.
  intro Hm. unfold es_body. cbv zeta.
  destruct (crv_self auto t new_hp) as [[_ E]|[[Hn _]|[Hn _]]]; [|contradiction|contradiction].
  cbv zeta in E. rewrite E. reflexivity.
Qed.

Lemma es_body_lf fd t new_hp :
  ~ maxed t new_hp -> lf_lt_mlf c t = true -> es_body fd true t new_hp = (t, inl ELoadFactorTooLow).
Proof.
  intros Hm Hlf. unfold es_body. cbv zeta.
  destruct (crv_self true t new_hp) as [[Hn _]|[[_ [_ [_ E]]]|[_ [H _]]]]; [contradiction| |].
  - cbv zeta in E. rewrite E. reflexivity.
  - rewrite (H eq_refl) in Hlf. discriminate.
Qed.

Lemma fd_ok_weaken (lim lim' : N -> Prop) fd mode :
  (forall x, lim' x -> lim x) -> fd_ok lim fd mode -> fd_ok lim' fd mode.
Proof. intros H Hfd t G Hl. apply Hfd; [exact G|apply H; exact Hl]. Qed.

(* both resize functions, at any fuel, for either kind of element type *)
Lemma resize_f_good : forall fuel,
  (forall mode, fd_ok limC (fast_double_f c hash fuel true) mode) /\
  (forall auto mode t new_hp, good t -> limC (mhp t) ->
     es_post auto t new_hp (expand_simple_f c hash fuel auto mode t new_hp)).
Proof.
  induction fuel as [|f [IH1 IH2]].
  - split.
    + intros mode t G Hl. cbn [fast_double_f]. right. cbn [fst snd].
      split; [apply exn_ok_fuel|]. intros _. apply evolves_refl. exact G.
    + intros auto mode t new_hp G Hl. cbn [expand_simple_f]. unfold es_post. cbn [fst snd].
      split; [right; right; reflexivity|]. intros _. split; [apply evolves_refl; exact G|reflexivity].
  - split.
    + intro mode. destruct (nothrow c) eqn:Hnt.
      * apply (fd_ok_weaken (fun x => mode = true \/ x <= lbits c)); [|apply fd_ok_nothrow; exact Hnt].
        intros x [H _]. right. exact H.
      * intros t G Hl. rewrite (fast_double_f_S_throw f true mode t _ Hnt).
        assert (Hp := IH2 true mode t (bhp (cur t) + 1) G Hl). unfold es_post in Hp. unfold fd_post. right.
        destruct (expand_simple_f c hash f true mode t (bhp (cur t) + 1)) as [t' [e|st]]; cbn [fst snd] in *.
        -- destruct Hp as [He Hd]. split; [split; [exact He|intro H; congruence]|].
           intros [H|H]; [congruence|]. apply (Hd H).
        -- destruct st; try contradiction. destruct Hp as [G' [Hh [L [Hb _]]]].
           split; [|lia]. split; [exact G'|]. split; [exact Hh|]. split; [exact L|lia].
    + intros auto mode t new_hp G Hl. rewrite expand_simple_f_S.
      apply es_body_good; [apply IH1|exact G|exact Hl].
Qed.

(* item 4 *)
Theorem cuckoo_expand_simple_good auto mode t new_hp :
  good t -> limC (mhp t) ->
  let r := cuckoo_expand_simple c hash auto mode t new_hp in
  (maxed t new_hp -> r = (t, inl EMaxHashpower)) /\
  (~ maxed t new_hp -> auto = true -> lf_lt_mlf c t = true -> r = (t, inl ELoadFactorTooLow)) /\
  es_post auto t new_hp r.
Proof.
  intros G Hl r. subst r. unfold cuckoo_expand_simple, resize_fuel.
  split; [|split].
  - intro Hm. rewrite expand_simple_f_S. apply es_body_maxed. exact Hm.
  - intros Hm -> Hlf. rewrite expand_simple_f_S. apply es_body_lf; assumption.
  - apply (proj2 (resize_f_good 6) auto mode t new_hp G Hl).
Qed.

(* the automatic expansion of any element type under a small maximum hashpower *)
Lemma fd_ok_capped mode : fd_ok limC (cuckoo_fast_double c hash) mode.
Proof. exact (proj1 (resize_f_good 6) mode). Qed.

(* item 3 without the nothrow assumption (limits capped as for the rebuild) *)
Theorem uprase_gen_good_capped mode t k v g :
  good t -> limC (mhp t) ->
  forall t' r, uprase_gen c hash mode t k v g = (t', r) -> up_post t k v g t' r.
Proof.
  intros G Hl t' r E. rewrite uprase_gen_eq in E.
  destruct (uprase_with_good limC _ mode (fd_ok_capped mode) t k v g G Hl t' r E) as [Hin Hout].
  assert (St : settled t) by (destruct G as [St _]; exact St).
  destruct (key_in_dec c hash t k (se_arr _ _ _ St)) as [Hk|Hk]; [exact (Hin Hk)|].
  destruct (Hout Hk) as [He|H]; [|exact H].
  exfalso. destruct Hl as [_ H58]. apply (esc_capped t); [lia|exact He].
Qed.

(* ================================================================== J. rehash and reserve *)

Lemma cuckoo_reserve_eq mode t n :
  cuckoo_reserve c hash mode t n = cuckoo_rehash c hash mode t (reserve_calc c n).
Proof. reflexivity. Qed.

(* item 5 *)
Theorem cuckoo_rehash_good mode t n :
  good t -> limC (mhp t) ->
  forall t' r, cuckoo_rehash c hash mode t n = (t', r) ->
  (r = inr false <-> n = bhp (cur t)) /\
  (r = inr false -> t' = t) /\
  (r = inr true ->
     good t' /\ (forall k v, holds (cur t') k v <-> holds (cur t) k v) /\ lim_same t t' /\
     n <= bhp (cur t') /\ rc t' = wrap64 (rc t + 1) /\ ~ maxed t n) /\
  (forall e, r = inl e ->
     n <> bhp (cur t) /\ exn_ok0 false t e /\ e <> ELoadFactorTooLow /\
     (maxed t n -> t' = t /\ e = EMaxHashpower) /\
     (destructive c = false -> evolves t t' /\ bhp (cur t') = bhp (cur t))).
Proof.
  intros G Hl t' r E. unfold cuckoo_rehash in E. rewrite hashpower_eq in E.
  destruct (N.eqb_spec n (bhp (cur t))) as [Heq|Hne].
  - injection E as <- <-. split; [split; [intros _; exact Heq|reflexivity]|].
    split; [reflexivity|]. split; [intro H; discriminate|]. intros e H. discriminate.
  - destruct (cuckoo_expand_simple_good false mode t n G Hl) as [Hmx [_ Hp]]. cbv zeta in Hmx, Hp.
    unfold es_post in Hp.
    destruct (cuckoo_expand_simple c hash false mode t n) as [t1 [e|st]] eqn:Ees; cbn [fst snd] in Hp.
    + injection E as <- <-. split; [split; [intro H; discriminate|intro H; contradiction]|].
      split; [intro H; discriminate|]. split; [intro H; discriminate|].
      intros e' H. injection H as <-. destruct Hp as [He Hd]. split; [exact Hne|]. split; [exact He|].
      split.
      * intro H. subst e. destruct He as [[H _]|[[_ [H _]]|H]]; discriminate.
      * split; [|exact Hd]. intro Hm. specialize (Hmx Hm). injection Hmx as <- <-. split; reflexivity.
    + destruct st; try contradiction. injection E as <- <-.
      split; [split; [intro H; discriminate|intro H; contradiction]|].
      split; [intro H; discriminate|]. split; [|intros e H; discriminate].
      intros _. destruct Hp as [G' [Hh [L [Hb [Hrc [Hm _]]]]]].
      split; [exact G'|]. split; [exact Hh|]. split; [exact L|]. split; [exact Hb|]. split; assumption.
Qed.

Theorem cuckoo_reserve_good mode t n :
  good t -> limC (mhp t) ->
  forall t' r, cuckoo_reserve c hash mode t n = (t', r) ->
  let new_hp := reserve_calc c n in
  (r = inr false <-> new_hp = bhp (cur t)) /\
  (r = inr false -> t' = t) /\
  (r = inr true ->
     good t' /\ (forall k v, holds (cur t') k v <-> holds (cur t) k v) /\ lim_same t t' /\
     new_hp <= bhp (cur t') /\ rc t' = wrap64 (rc t + 1) /\ ~ maxed t new_hp /\
     (n + spb c < 2 ^ 64 -> n <= 2 ^ bhp (cur t') * spb c)) /\
  (forall e, r = inl e ->
     new_hp <> bhp (cur t) /\ exn_ok0 false t e /\ e <> ELoadFactorTooLow /\
     (maxed t new_hp -> t' = t /\ e = EMaxHashpower) /\
     (destructive c = false -> evolves t t' /\ bhp (cur t') = bhp (cur t))).
Proof.
  intros G Hl t' r E new_hp. rewrite cuckoo_reserve_eq in E. fold new_hp in E.
  destruct (cuckoo_rehash_good mode t new_hp G Hl t' r E) as [H1 [H2 [H3 H4]]].
  split; [exact H1|]. split; [exact H2|]. split; [|exact H4].
  intro Hr. destruct (H3 Hr) as [G' [Hh [L [Hb [Hrc Hm]]]]].
  split; [exact G'|]. split; [exact Hh|]. split; [exact L|]. split; [exact Hb|]. split; [exact Hrc|].
  split; [exact Hm|]. intro Hn.
  destruct (reserve_calc_fits c n (co_spb _ Hc) Hn) as [Hfit _]. fold new_hp in Hfit.
  assert (Hp := pow2_le_mono _ _ Hb).
  eapply N.le_trans; [exact Hfit|]. apply N.mul_le_mono_r. exact Hp.
Qed.

(* ================================================================== K. lookups, setters, construction *)

Lemma upd_holds_same a a' k v0 :
  arr_ok a -> holds a k v0 -> upd_holds a a' k (Some v0) ->
  forall k' v', holds a' k' v' <-> holds a k' v'.
Proof.
  intros Ha H0 U k' v'. rewrite (U k' v'). split.
  - intros [[_ H]|[-> H]]; [exact H|]. injection H as <-. exact H0.
  - intro H. destruct (N.eq_dec k' k) as [E|E]; [right|left; split; assumption].
    split; [exact E|]. subst k'. f_equal. apply (holds_fun c hash _ _ _ _ Ha H0 H).
Qed.

Lemma upd_holds_absent_none a a' k :
  ~ key_in a k -> upd_holds a a' k None -> forall k' v', holds a' k' v' <-> holds a k' v'.
Proof.
  intros Hk U k' v'. rewrite (U k' v'). split.
  - intros [[_ H]|[_ H]]; [exact H|discriminate].
  - intro H. left. split; [|exact H]. intro E. subst k'. apply Hk. apply key_in_holds. exists v'. exact H.
Qed.

(* find / contains / update / update_fn / erase / erase_fn and their locked_table forms *)
Theorem lookup_fn_good mode t k g :
  good t ->
  forall t' r, lookup_fn c hash mode t k g = (t', r) ->
  good t' /\ lim_same t t' /\ bhp (cur t') = bhp (cur t) /\
  ((~ key_in (cur t) k /\ r = None /\ t' = t) \/
   (exists v0, holds (cur t) k v0 /\ r = Some v0 /\
      upd_holds (cur t) (cur t') k (if snd (g v0) then None else Some (fst (g v0))))).
Proof.
  intros G t' r E. assert (St : settled t) by (destruct G as [St _]; exact St).
  assert (Ha := se_arr _ _ _ St).
  destruct (key_in_dec c hash t k Ha) as [Hk|Hk].
  2:{ rewrite (lookup_fn_absent c hash mode t k g St Hk) in E. injection E as <- <-.
      split; [exact G|]. split; [apply lim_same_refl|]. split; [reflexivity|]. left.
      split; [exact Hk|]. split; reflexivity. }
  unfold lookup_fn in E.
  rewrite (snapshot_and_lock_two_settled c hash mode t k (se_mig _ _ _ St)) in E.
  rewrite hashpower_eq in E. unfold hashed_partial in E.
  destruct (cuckoo_find_cases c hash t k Ha) as [[Hs [_ [_ [e [He Hek]]]]]|[_ Hn]]; [|contradiction].
  cbv zeta in Hs, He. rewrite Hs in E. unfold val_at in E. rewrite He in E.
  set (pos := cuckoo_find c t k (partial_key (hash k)) (i1_of hash (bhp (cur t)) k)
                (i2_of hash (bhp (cur t)) k)) in *.
  assert (Hself : holds (cur t) k (eval e)).
  { exists (pindex pos), (pslot pos), e. split; [exact He|]. split; [exact Hek|reflexivity]. }
  destruct (g (eval e)) as [v' er] eqn:Eg. cbv beta iota zeta in E.
  destruct (good_set_val t (pindex pos) (pslot pos) e v' G He) as [G4 [L4 [Hhp4 [[e4 [He4 [Hk4 Hv4]]] Hh4]]]].
  cbv zeta in G4, L4, Hhp4, He4, Hh4. rewrite Hek in Hh4, Hk4.
  destruct er.
  - destruct (good_del (set_val t (pindex pos) (pslot pos) v') (pindex pos) (pslot pos) e4 G4 He4)
      as [G5 [L5 [Hhp5 Hh5]]]. cbv zeta in G5, L5, Hhp5, Hh5. rewrite Hk4 in Hh5.
    injection E as <- <-. split; [exact G5|]. split; [exact (lim_same_trans _ _ _ L4 L5)|].
    split; [congruence|]. right. exists (eval e). split; [exact Hself|]. split; [reflexivity|].
    rewrite Eg. cbn [fst snd]. intros k' v''. rewrite Hh5, Hh4. split.
    + intros [[[E1 _]|[E1 H]] Hne]; [contradiction|]. left. split; assumption.
    + intros [[E1 H]|[_ H]]; [|discriminate]. split; [right; split; assumption|exact E1].
  - injection E as <- <-. split; [exact G4|]. split; [exact L4|]. split; [exact Hhp4|].
    right. exists (eval e). split; [exact Hself|]. split; [reflexivity|].
    rewrite Eg. cbn [fst snd]. intros k' v''. rewrite Hh4. split.
    + intros [[E1 E2]|[E1 H]]; [right; split; [exact E1|rewrite E2; reflexivity]|left; split; assumption].
    + intros [[E1 H]|[E1 H]]; [right; split; assumption|left]. injection H as <-. split; [exact E1|reflexivity].
Qed.

Lemma good_set_mlf t n d : good t -> good (set_mlf t n d).
Proof. intro G. apply (good_ext t (set_mlf t n d)); [reflexivity|reflexivity|reflexivity|exact G]. Qed.

Lemma good_set_workers t w : good t -> good (set_workers t w).
Proof. intro G. apply (good_ext t (set_workers t w)); [reflexivity|reflexivity|reflexivity|exact G]. Qed.

Lemma good_set_mhp t m : good t -> bhp (cur t) <= m -> good (set_mhp t m).
Proof.
  intros G H. apply (good_ext_w t (set_mhp t m)); [reflexivity|reflexivity|exact G|]. right. exact H.
Qed.

Lemma good_new_table n :
  reserve_calc c n < 60 ->
  good (new_table c n) /\ (forall k v, ~ holds (cur (new_table c n)) k v) /\
  bhp (cur (new_table c n)) = reserve_calc c n.
Proof.
  intro H. assert (Hr62 : reserve_calc c n < 62) by lia.
  destruct (new_table_ok c hash n Hc Hr62) as [St [Ct [_ [_ Hhp]]]]. rewrite hashpower_eq in Hhp.
  split; [|split; [|exact Hhp]].
  - split; [exact St|]. split; [exact Ct|]. split; [lia|]. split.
    + rewrite new_table_cur_locks, repeat_length. lia.
    + left. reflexivity.
  - intros k v [b [s [e [He _]]]].
    change (cur (new_table c n)) with (bnew (reserve_calc c n)) in He. rewrite bget_bnew in He. discriminate.
Qed.

(* entering locked_table mode on a settled table *)
Lemma good_lock t : good t -> good (rehash_with_workers c hash t) /\ cur (rehash_with_workers c hash t) = cur t.
Proof. intro G. destruct (rehash_with_workers_good t G) as [G1 [E _]]. split; assumption. Qed.

End Refine.

(* Why the insert-family theorems carry the [esc] alternative and why an exception may leave a
   LARGER table: with a degenerate hash function one failing insert doubles the table repeatedly
   until a policy stops it (here maximum_hashpower = 4, minimum_load_factor = 0).  With no maximum
   and minimum_load_factor = 0 only the loop fuel stops it, far beyond hashpower 60. *)
Module RefineExample.
Definition c1 : config := {| spb := 1; lbits := 16; simple := true; nothrow := true; destructive := false |}.
Definition h0 (_ : N) : N := 0.
Definition ins (t : table) (k : N) := uprase_gen c1 h0 false t k 7%Z (fun _ _ => None).
Definition t0 := set_mlf (set_mhp (new_table c1 0) 4) 0 1.
Definition t2 := fst (ins (fst (ins t0 1)) 2).

Example repeated_doubling :
  (bhp (cur t2), bhp (cur (fst (ins t2 3))), snd (ins t2 3), rc (fst (ins t2 3)))
  = (1, 4, inl EMaxHashpower, 4).
Proof. vm_compute. reflexivity. Qed.
End RefineExample.
