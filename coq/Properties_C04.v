(* C04 - every operation terminates and leaves no lock behind: the protocol statements.
   lock_order + progress: no reachable state of any finite set of threads is a deadlock.
   idle_holds_nothing: an operation that has returned (state Idle, or any state before its first
   acquisition) owns no lock; only a thread in AH (an active locked_table) keeps ownership.
   PARTIAL: termination under fair scheduling is not proved; [progress] excludes deadlock but not an
   unbounded sequence of mutually invalidated retries (DESIGN 6.4).  Bounded bodies: see
   InsertLemmas.slot_search_fuel_enough / cuckoopath_search_shape (BFS dequeues and path length).
   Statements only; closed by [exact] of lemmas of ConcInv.v. *)
From Coq Require Import NArith List.
From LC Require Import Conc ConcInv.
Import ListNotations.

Theorem C04_lock_order : forall hp0 rc0 arrs0, arrs_ok arrs0 -> forall s, reachable hp0 rc0 arrs0 s ->
  forall t a l a' l', waiting_for (sh_ s) (thr s t) = Some (a, l) -> holds_lock (sh_ s) (thr s t) a' l' ->
  a' < a \/ (a' = a /\ l' < l).
Proof. exact lock_order. Qed.
Print Assumptions C04_lock_order.

Theorem C04_no_deadlock : forall hp0 rc0 arrs0 s n, arrs_ok arrs0 -> reachable hp0 rc0 arrs0 s ->
  (forall t, n <= t -> thr s t = Idle) -> (exists t, thr s t <> Idle) ->
  exists t lb s', t < n /\ thr s t <> Idle /\ gstep s t lb = Some s'.
Proof. exact progress. Qed.
Print Assumptions C04_no_deadlock.

Theorem C04_returned_operation_holds_no_lock : forall hp0 rc0 arrs0, arrs_ok arrs0 -> forall s, reachable hp0 rc0 arrs0 s ->
  forall t, holds_nothing (thr s t) -> forall a l, g_held (sh_ s) a l <> Some t.
Proof. exact idle_holds_nothing. Qed.
Print Assumptions C04_returned_operation_holds_no_lock.

(* a locked_table (state AH) owns every lock of every array from its first one on, including arrays
   created while it was active *)
Theorem C04_locked_table_owns_everything : forall hp0 rc0 arrs0, arrs_ok arrs0 -> forall s, reachable hp0 rc0 arrs0 s ->
  forall t first d, thr s t = AH first d ->
  d = g_dirty (sh_ s) /\ first + 1 <= g_narr0 (sh_ s) /\ g_narr0 (sh_ s) <= narr (sh_ s) /\ (forall a l, first <= a -> a < narr (sh_ s) -> l < asz (sh_ s) a -> g_held (sh_ s) a l = Some t).
Proof. exact all_holder_facts. Qed.
Print Assumptions C04_locked_table_owns_everything.
