(* C04 - every operation terminates and leaves no lock behind: the protocol statements.
   lock_order + progress: no reachable state of any finite set of threads is a deadlock.
   idle_holds_nothing: an operation that has returned (state Idle, or any state before its first
   acquisition) owns no lock; only a thread in AH (an active locked_table) keeps ownership.
   No spinning (ConcBound.v): the only backward edge of the snapshot protocol is the failed validation
   EC -> EF -> S0; each such retry of a thread consumes a distinct increment of the generation counter,
   i.e. a resize completed by some thread (retries <= bumps + 1); lock_all / unlock_all acquire / release
   every stripe exactly once even when arrays are appended meanwhile.  PARTIAL: a bound on the number of
   resizes themselves is data-dependent (sequential model: the hashpower grows strictly and is bounded,
   see Refine.v [esc]); termination under a fair scheduler is not stated as one theorem.  Bounded bodies: see
   InsertLemmas.slot_search_fuel_enough / cuckoopath_search_shape (BFS dequeues and path length).
   Statements only; closed by [exact] of lemmas of ConcInv.v. *)
From Coq Require Import NArith List.
From LC Require Import Conc ConcInv.
Import ListNotations.

Theorem C04_lock_order : forall hp0 rc0 arrs0, arrs_ok arrs0 -> forall s, reachable hp0 rc0 arrs0 s ->
  forall t a l a' l', waiting_for (sh_ s) (thr s t) = Some (a, l) -> holds_lock (sh_ s) (thr s t) a' l' ->
  a' < a \/ (a' = a /\ l' < l).
Proof. exact lock_order. Qed.
Print Assumptions C04_lock_order.

Theorem C04_no_deadlock : forall hp0 rc0 arrs0 s n, arrs_ok arrs0 -> reachable hp0 rc0 arrs0 s ->
  (forall t, n <= t -> thr s t = Idle) -> (exists t, thr s t <> Idle) ->
  exists t lb s', t < n /\ thr s t <> Idle /\ gstep s t lb = Some s'.
Proof. exact progress. Qed.
Print Assumptions C04_no_deadlock.

Theorem C04_returned_operation_holds_no_lock : forall hp0 rc0 arrs0, arrs_ok arrs0 -> forall s, reachable hp0 rc0 arrs0 s ->
  forall t, holds_nothing (thr s t) -> forall a l, g_held (sh_ s) a l <> Some t.
Proof. exact idle_holds_nothing. Qed.
Print Assumptions C04_returned_operation_holds_no_lock.

(* a locked_table (state AH) owns every lock of every array from its first one on, including arrays
   created while it was active *)
Theorem C04_locked_table_owns_everything : forall hp0 rc0 arrs0, arrs_ok arrs0 -> forall s, reachable hp0 rc0 arrs0 s ->
  forall t first d, thr s t = AH first d ->
  d = g_dirty (sh_ s) /\ first + 1 <= g_narr0 (sh_ s) /\ g_narr0 (sh_ s) <= narr (sh_ s) /\ (forall a l, first <= a -> a < narr (sh_ s) -> l < asz (sh_ s) a -> g_held (sh_ s) a l = Some t).
Proof. exact all_holder_facts. Qed.
Print Assumptions C04_locked_table_owns_everything.

(* ---- no spinning: a validation failure (retry) needs a completed resize in between; lock_all / unlock_all are bounded loops (ConcBound.v) ---- *)
From LC Require Import ConcBound.
Theorem C04_retries_bounded_by_completed_resizes :
  forall (hp0 rc0 : N) (arrs0 : list nat) (s : gstate),
  reachable hp0 rc0 arrs0 s ->
  forall (t : tid) (tr : list (tid * label)) (s' : gstate),
  run s tr s' -> retries t s tr <= bumps tr + stale (sh_ s) (thr s t) /\ retries t s tr <= bumps tr + 1.
Proof. exact retries_le_bumps_reachable. Qed.
Print Assumptions C04_retries_bounded_by_completed_resizes.

Theorem C04_retries_from_quiescent_start :
  forall (hp0 rc0 : N) (arrs0 : list nat) (t : tid) (tr : list (tid * label)) (s' : gstate),
  run (ginit hp0 rc0 arrs0) tr s' -> retries t (ginit hp0 rc0 arrs0) tr <= bumps tr.
Proof. exact retries_le_bumps_init. Qed.
Print Assumptions C04_retries_from_quiescent_start.

Theorem C04_retry_needs_a_completed_resize :
  forall (t : tid) (tr : list (tid * label)) (s s1 : gstate) (lb : label) (s' : gstate) (c : N),
  run s tr s1 ->
  gstep s1 t lb = Some s' ->
  is_fail (thr s1 t) (thr s' t) = true ->
  snapc (thr s1 t) = Some c ->
  snapc (thr s t) = Some c /\ noload t tr /\ (c = g_rc (sh_ s) -> exists u : tid, In (u, FA_RC) tr) \/
  (exists (tr1 tr2 : list (tid * label)) (u : tid),
  tr = tr1 ++ (t, LD_RC c) :: tr2 /\ noload t tr2 /\ In (u, FA_RC) tr2).
Proof. exact retry_needs_bump_gen. Qed.
Print Assumptions C04_retry_needs_a_completed_resize.

Theorem C04_generation_counts_completed_resizes :
  forall (tr : list (tid * label)) (s s' : gstate),
  run s tr s' -> g_rc (sh_ s') = (g_rc (sh_ s) + N.of_nat (bumps tr))%N.
Proof. exact rc_counts_bumps. Qed.
Print Assumptions C04_generation_counts_completed_resizes.

Theorem C04_lock_all_acquires_each_stripe_once :
  forall (hp0 rc0 : N) (arrs0 : list nat),
  arrs_ok arrs0 ->
  forall s : gstate,
  reachable hp0 rc0 arrs0 s ->
  forall (t : tid) (first : nat) (tr : list (tid * label)) (s' : gstate) (d : bool),
  run s tr s' ->
  thr s t = AR first first 0 ->
  Forall (fun e : tid * label => ends_acq t e = false) tr ->
  thr s' t = AH first d ->
  locked_steps t tr = stripes_from (sh_ s') first /\ next_steps t tr = arrays_from (sh_ s') first.
Proof. exact lock_all_exact_reachable. Qed.
Print Assumptions C04_lock_all_acquires_each_stripe_once.

Theorem C04_lock_all_bounded_while_arrays_are_appended :
  forall (hp0 rc0 : N) (arrs0 : list nat),
  arrs_ok arrs0 ->
  forall s : gstate,
  reachable hp0 rc0 arrs0 s ->
  forall (t : tid) (first : nat) (tr : list (tid * label)) (s' : gstate),
  run s tr s' ->
  acquiring first (thr s t) ->
  Forall (fun e : tid * label => ends_acq t e = false) tr ->
  locked_steps t tr <= stripes_from (sh_ s') first /\ next_steps t tr <= arrays_from (sh_ s') first.
Proof. exact lock_all_bounded_reachable. Qed.
Print Assumptions C04_lock_all_bounded_while_arrays_are_appended.

Theorem C04_unlock_all_releases_each_stripe_once :
  forall (hp0 rc0 : N) (arrs0 : list nat),
  arrs_ok arrs0 ->
  forall s : gstate,
  reachable hp0 rc0 arrs0 s ->
  forall (t : tid) (first : nat) (d : bool) (a l : nat) (tr : list (tid * label)) (s1 s' : gstate),
  thr s t = AH first d ->
  gstep s t (UNLOCK a l) = Some s1 ->
  run s1 tr s' ->
  Forall (fun e : tid * label => is_next t e = false) tr ->
  usteps t ((t, UNLOCK a l) :: tr) <= stripes_from (sh_ s) first.
Proof. exact unlock_all_total_reachable. Qed.
Print Assumptions C04_unlock_all_releases_each_stripe_once.

(* ---- every sequential call completes (NoFuel.v): the model's loops carry fuel where the C++ has unbounded loops; fuel is never exhausted on well-formed tables, so the refinement theorems cover every run (the displacement loop runs exactly once sequentially; the insert loop strictly grows the table, which is bounded) ---- *)
From LC Require Import NoFuel.
Theorem C04_displacement_loop_runs_once :
  forall (c : Core.config) (hash : N -> N),
  InvDefs.cfg_ok c ->
  forall (mode : bool) (t : Core.table) (hp i1 i2 : N) (fuel : nat),
  InvDefs.all_migrated t ->
  tags_ok hash (Core.cur t) ->
  Core.run_cuckoo_loop c hash mode t hp i1 i2 (S fuel) = Core.run_cuckoo_loop c hash mode t hp i1 i2 1 /\
  snd (Core.run_cuckoo_loop c hash mode t hp i1 i2 (S fuel)) <> Core.RC_fuel.
Proof. exact run_cuckoo_loop_once. Qed.
Print Assumptions C04_displacement_loop_runs_once.

Theorem C04_displacement_never_out_of_fuel :
  forall (c : Core.config) (hash : N -> N),
  InvDefs.cfg_ok c ->
  forall (mode : bool) (t : Core.table) (i1 i2 : N),
  InvDefs.settled c hash t -> snd (Core.run_cuckoo c hash mode t i1 i2) <> Core.RC_fuel.
Proof. exact run_cuckoo_no_fuel. Qed.
Print Assumptions C04_displacement_never_out_of_fuel.

Theorem C04_displacement_never_out_of_fuel_with_pending_stripes :
  forall (c : Core.config) (hash : N -> N),
  InvDefs.cfg_ok c ->
  forall (t : Core.table) (i1 i2 : N),
  Lazy.wf c hash t -> snd (Core.run_cuckoo c hash false t i1 i2) <> Core.RC_fuel.
Proof. exact run_cuckoo_no_fuel_wf. Qed.
Print Assumptions C04_displacement_never_out_of_fuel_with_pending_stripes.

Theorem C04_cuckoo_insert_completes :
  forall (c : Core.config) (hash : N -> N),
  InvDefs.cfg_ok c ->
  forall (mode : bool) (t : Core.table) (k i1 i2 : N),
  InvDefs.settled c hash t ->
  exists (t' : Core.table) (pos : Core.table_position),
  Core.cuckoo_insert c hash mode t k i1 i2 = (t', Core.CI_pos pos).
Proof. exact cuckoo_insert_pos. Qed.
Print Assumptions C04_cuckoo_insert_completes.

Theorem C04_insert_loop_completes :
  forall (c : Core.config) (hash : N -> N),
  InvDefs.cfg_ok c ->
  forall (mode : bool) (t : Core.table) (k : N),
  Core.nothrow c = true ->
  Refine.good c hash t ->
  Refine.immediate c mode t ->
  forall (t' : Core.table) (res : Core.il_result),
  Core.cuckoo_insert_loop c hash (Core.cuckoo_fast_double c hash) mode t k
  (InvDefs.i1_of hash (Core.bhp (Core.cur t)) k) (InvDefs.i2_of hash (Core.bhp (Core.cur t)) k)
  Core.insert_loop_fuel = (t', res) -> Refine.esc c hash t \/ res <> Core.IL_exn Core.EOutOfFuel.
Proof. exact insert_loop_no_fuel. Qed.
Print Assumptions C04_insert_loop_completes.

Theorem C04_insert_family_completes :
  forall (c : Core.config) (hash : N -> N),
  InvDefs.cfg_ok c ->
  forall (mode : bool) (t : Core.table) (k : N) (v : Z) (g : Z -> bool -> option (Z * bool)),
  Core.nothrow c = true ->
  Refine.good c hash t ->
  Refine.immediate c mode t ->
  Refine.esc c hash t \/ snd (Api.uprase_gen c hash mode t k v g) <> inl Core.EOutOfFuel.
Proof. exact uprase_gen_no_fuel. Qed.
Print Assumptions C04_insert_family_completes.

Theorem C04_insert_family_completes_below_limit :
  forall (c : Core.config) (hash : N -> N),
  InvDefs.cfg_ok c ->
  forall (mode : bool) (t : Core.table) (k : N) (v : Z) (g : Z -> bool -> option (Z * bool)),
  Core.nothrow c = true ->
  Refine.good c hash t ->
  Refine.immediate c mode t ->
  (Core.mhp t <= 59)%N -> snd (Api.uprase_gen c hash mode t k v g) <> inl Core.EOutOfFuel.
Proof. exact uprase_gen_no_fuel_capped. Qed.
Print Assumptions C04_insert_family_completes_below_limit.

Theorem C04_rehash_completes :
  forall (c : Core.config) (hash : N -> N),
  InvDefs.cfg_ok c ->
  forall (mode : bool) (t : Core.table) (n : N),
  Core.nothrow c = true ->
  Refine.good c hash t ->
  Refine.limC c (Core.mhp t) -> snd (Core.cuckoo_rehash c hash mode t n) <> inl Core.EOutOfFuel.
Proof. exact cuckoo_rehash_no_fuel. Qed.
Print Assumptions C04_rehash_completes.

Theorem C04_reserve_completes :
  forall (c : Core.config) (hash : N -> N),
  InvDefs.cfg_ok c ->
  forall (mode : bool) (t : Core.table) (n : N),
  Core.nothrow c = true ->
  Refine.good c hash t ->
  Refine.limC c (Core.mhp t) -> snd (Core.cuckoo_reserve c hash mode t n) <> inl Core.EOutOfFuel.
Proof. exact cuckoo_reserve_no_fuel. Qed.
Print Assumptions C04_reserve_completes.

Theorem C04_doubling_completes :
  forall (c : Core.config) (hash : N -> N) (mode : bool) (t : Core.table) (hp : N),
  Core.nothrow c = true -> snd (Core.cuckoo_fast_double c hash mode t hp) <> inl Core.EOutOfFuel.
Proof. exact cuckoo_fast_double_no_fuel. Qed.
Print Assumptions C04_doubling_completes.

Theorem C04_more_fuel_same_result :
  forall (c : Core.config) (hash : N -> N) (n : nat),
  (forall (m : nat) (auto mode : bool) (t : Core.table) (hp : N),
  snd (Core.fast_double_f c hash n auto mode t hp) <> inl Core.EOutOfFuel ->
  Core.fast_double_f c hash (n + m) auto mode t hp = Core.fast_double_f c hash n auto mode t hp) /\
  (forall (m : nat) (auto mode : bool) (t : Core.table) (new_hp : N),
  snd (Core.expand_simple_f c hash n auto mode t new_hp) <> inl Core.EOutOfFuel ->
  Core.expand_simple_f c hash (n + m) auto mode t new_hp =
  Core.expand_simple_f c hash n auto mode t new_hp).
Proof. exact resize_mono. Qed.
Print Assumptions C04_more_fuel_same_result.

Theorem C04_rebuild_out_of_fuel_only_far_below_limit :
  forall (c : Core.config) (hash : N -> N),
  InvDefs.cfg_ok c ->
  forall (mode : bool) (t : Core.table) (k : N) (v : Z) (g : Z -> bool -> option (Z * bool)),
  Core.nothrow c = false ->
  Refine.good c hash t ->
  Refine.limC c (Core.mhp t) ->
  snd (Api.uprase_gen c hash mode t k v g) = inl Core.EOutOfFuel ->
  (Core.bhp (Core.cur t) + 3 <= Core.mhp t)%N.
Proof. exact uprase_gen_fuel_room. Qed.
Print Assumptions C04_rebuild_out_of_fuel_only_far_below_limit.
