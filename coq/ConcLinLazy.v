(* L2 x L1, deferred regime: linearizability (by linearization points) of libcuckoo's
   single-critical-section operations THROUGH deferred (lazy, per-stripe) migration.

   ConcLin.v composes the lock / snapshot protocol (Conc.v, ConcInv.v) with the sequential table
   model under the table invariant [Refine.good] (= settled: NO deferred migration pending), and its
   resize step must produce a settled table.  That excludes the real automatic doubling of a table
   with at least as many buckets as lock stripes in normal mode ([cuckoo_fast_double]), which leaves
   EVERY stripe un-migrated, the elements still sitting in the superseded array.

   This file ports the development to the invariant [LazyRefine.lgood] and the abstraction
   [Lazy.lholds]:
     - the combined system [cstepL] is ConcLin's, except that the resize step may install ANY
       [lgood] table of the stored size with the same abstract contents [lholds] (instances:
       [fast_double_is_resize_step], [rww_is_resize_step], [rehash_is_resize_step]);
     - a linearization step evaluates the same concrete code path ([ConcLin.lin_data], candidate
       buckets from the thread's size snapshot) on an [lgood] table; that code migrates the stripes
       it locks as a side effect;
     - [lin_step_specL] (composition lemma), [cinvL_reachable] (invariant),
       [linearizable_by_points_lazy], [lookup_none_absent_lazy] and the other corollaries;
     - [LazyExample.lazy_run]: a reachable combined state whose table is NOT fully migrated, reached
       by a doubling under all locks, on which a lookup and an insert linearize.

   Everything of ConcLin.v that does not mention [settled] / [good] / [holds (cur _)] is reused:
   the abstract specification ([contents], [spec_step], [legal]), the snapshot variants of the code
   ([lookup_snap], [uprase_snap], [lin_data]), histories ([hev], [lins], [tphase]), [cstate],
   [tied], the protocol facts and the executable scheduler [cexec] / [crun]. *)
From Coq Require Import NArith ZArith List Bool Arith Lia.
From LC Require Import gen.HashGen Bits Core Api InvDefs ArrLemmas InsertLemmas Resize Lazy Refine
  LazyRefine Conc ConcInv ConcLin.
Import ListNotations.

(* ================================================================== A. data steps on lgood tables *)
Section DataL.
Variable c : config.
Variable hash : N -> N.
Hypothesis Hc : cfg_ok c.

Notation lgood := (lgood c hash).
Notation lholds := (lholds c).

(* [LazyRefine.lupd] IS [ConcLin.cupd] on the abstraction [lholds] *)
Lemma lupd_cupd t t' k o : lupd c t t' k o -> cupd (lholds t) (lholds t') k o.
Proof. intro U. exact U. Qed.

Lemma lholds_cfun t : lgood t -> cfun (lholds t).
Proof.
  intros G k v v' H1 H2. exact (lholds_fun c hash Hc t k v v' (lgood_wf c hash t G) H1 H2).
Qed.

(* find / update / erase at a CURRENT snapshot, on a table with deferred migration pending *)
Lemma lookup_linL t k g t' r :
  lgood t -> lookup_snap c hash (bhp (cur t)) t k g = (t', r) ->
  lgood t' /\ bhp (cur t') = bhp (cur t) /\
  spec_step (lholds t) (DLookup k g) (RLookup r) (lholds t').
Proof.
  intros G E. change (bhp (cur t)) with (hashpower t) in E at 1. rewrite lookup_snap_current in E.
  destruct (lookup_fn_lgood c hash Hc t k g G t' r E)
    as [G' [_ [Hhp [[Hk [-> Ev]]|[v0 [Hv [-> U]]]]]]].
  - split; [exact G'|]. split; [exact Hhp|]. apply SS_lookup_miss; [exact Hk|].
    destruct Ev as [_ [Hh _]]. intros k' v'. symmetry. apply Hh.
  - split; [exact G'|]. split; [exact Hhp|]. eapply SS_lookup_hit; [exact Hv|exact U].
Qed.

(* the insert family at a CURRENT snapshot, when no expansion is needed ([uprase_snap] is enabled).
   Proved from the single-iteration facts of Lazy / LazyRefine ([snapshot_lgood], [cuckoo_insert_wf],
   [lgood_add], [finish_lgood]); neither [nothrow] nor the escape clause [lesc] of
   [uprase_gen_lgood] is needed, because the enabled step never doubles the table. *)
Lemma uprase_linL t k v g t' ins lg :
  lgood t -> uprase_snap c hash (bhp (cur t)) t k v g = Some (t', (ins, lg)) ->
  lgood t' /\ bhp (cur t') = bhp (cur t) /\
  spec_step (lholds t) (DUprase k v g) (RUprase ins lg) (lholds t').
Proof.
  intros G E.
  destruct (snapshot_lgood c hash Hc t k G) as [_ [Ev0 [Hbc [Hsd S0]]]].
  cbv zeta in Ev0, Hbc, Hsd, S0.
  unfold uprase_snap in E. cbv zeta in E.
  change (index_hash (bhp (cur t)) (hash k)) with (i1_of hash (bhp (cur t)) k) in E.
  change (alt_index (bhp (cur t)) (partial_key (hash k)) (i1_of hash (bhp (cur t)) k))
    with (i2_of hash (bhp (cur t)) k) in E.
  set (t0 := lock_two c hash false t (i1_of hash (bhp (cur t)) k) (i2_of hash (bhp (cur t)) k)) in *.
  assert (G0 := levolves_lgood c hash _ _ Ev0). assert (W0 := lgood_wf c hash _ G0).
  assert (Hh0 : forall k' v', lholds t0 k' v' <-> lholds t k' v') by apply S0.
  destruct Hsd as [M1 M2].
  destruct (cuckoo_insert_wf c hash Hc t0 k W0 M1 M2) as [t1 [res [E1 [W1 [V1 [Hin Hout]]]]]].
  cbv zeta in E1, Hout. rewrite Hbc in E1, Hout. rewrite E1 in E.
  destruct (lmv_lgood c hash t0 t1 G0 W1 V1) as [Ev1 Hhp1].
  assert (G1 := levolves_lgood c hash _ _ Ev1).
  assert (Hh1 : forall k' v', lholds t1 k' v' <-> lholds t k' v').
  { intros k' v'. destruct Ev1 as [_ [H _]]. rewrite (H k' v'). apply Hh0. }
  destruct (lholds_dec c hash Hc t k (lgood_wf c hash t G)) as [[v0 Hv0]|Hk].
  - (* the key is there: duplicated *)
    assert (Hk0 : exists x, lholds t0 k x) by (exists v0; apply Hh0; exact Hv0).
    destruct (Hin Hk0) as [pos [-> [Hs [e [He Hek]]]]]. rewrite Hs in E.
    destruct (finish_lgood c hash Hc t1 (pindex pos) (pslot pos) e false g G1 He)
      as [t5 [Ef [G5 [_ [Hhp5 [Hu _]]]]]].
    assert (Hve : eval e = v0).
    { apply (lholds_fun c hash Hc t k _ _ (lgood_wf c hash t G)); [|exact Hv0]. apply Hh1. left.
      exists (pindex pos), (pslot pos), e. split; [exact He|]. split; [exact Hek|reflexivity]. }
    rewrite Hek, Hve in Hu.
    unfold finish in Ef. cbv zeta in Ef.
    assert (Hval : val_at t1 (pindex pos) (pslot pos) = v0).
    { unfold val_at. rewrite He. exact Hve. }
    rewrite Hve in Ef. rewrite Hval in Ef, E.
    destruct (g v0 false) as [[v' er]|];
      injection E as <- <- <-; injection Ef as Et Elog; rewrite Et, Elog;
      (split; [exact G5|]); (split; [congruence|]);
      (eapply SS_uprase_hit; [exact Hv0|apply (lupd_pre c t t1); [exact Hh1|exact Hu]]).
  - (* the key is absent: a free slot in one of the two buckets (possibly after displacement) *)
    assert (Hk0 : forall x, ~ lholds t0 k x) by (intros x H; apply (Hk x); apply Hh0; exact H).
    destruct (Hout Hk0) as [->|[pos [-> Hcase]]]; [discriminate|].
    destruct Hcase as [[Hs [Hg [Hidx Hslot]]]|Hs]; rewrite Hs in E; [|discriminate].
    assert (Hcand : cand hash (bhp (cur t1)) k (pindex pos)) by (rewrite Hhp1, Hbc; exact Hidx).
    assert (Hk1 : forall x, ~ lholds t1 k x) by (intros x H; apply (Hk x); apply Hh1; exact H).
    assert (Hsd1 : stripes_done c hash t1 k).
    { apply (stripes_done_lmv c hash t0 t1 k V1). split; assumption. }
    assert (Hmg := stripes_done_cand c hash t1 k _ Hsd1 Hcand).
    destruct (lgood_add c hash Hc t1 (pindex pos) (pslot pos) k v G1 Hg Hcand Hslot Hmg Hk1)
      as [G3 [_ [Hhp3 [He3 Hh3]]]]. cbv zeta in G3, Hhp3, He3, Hh3.
    unfold hashed_partial in E.
    set (t3 := add_to_bucket c t1 (pindex pos) (pslot pos) (partial_key (hash k)) k v) in *.
    destruct (finish_lgood c hash Hc t3 (pindex pos) (pslot pos) _ true g G3 He3)
      as [t5 [Ef [G5 [_ [Hhp5 [Hu _]]]]]]. cbn [ekey eval] in Ef, Hu.
    unfold finish in Ef. cbv zeta in Ef.
    assert (Hval : val_at t3 (pindex pos) (pslot pos) = v).
    { unfold val_at. rewrite He3. reflexivity. }
    rewrite Hval in Ef, E.
    assert (Hspec : cupd (lholds t) (lholds t5) k (final_of g v true)).
    { intros k' v'. rewrite (Hu k' v'), (Hh3 k' v'), (Hh1 k' v'). split.
      - intros [[Hne [[E2 _]|[_ H]]]|H]; [contradiction|left; split; assumption|right; exact H].
      - intros [[Hne H]|H]; [left; split; [exact Hne|right; split; assumption]|right; exact H]. }
    destruct (g v true) as [[v' er]|];
      injection E as <- <- <-; injection Ef as Et Elog; rewrite Et, Elog;
      (split; [exact G5|]); (split; [congruence|]);
      (apply SS_uprase_new; [exact Hk|exact Hspec]).
Qed.

Lemma lin_data_specL t op t' r :
  lgood t -> lin_data c hash (bhp (cur t)) t op = Some (t', r) ->
  lgood t' /\ bhp (cur t') = bhp (cur t) /\ spec_step (lholds t) op r (lholds t').
Proof.
  intros G E. destruct op as [k g|k v g]; simpl in E.
  - destruct (lookup_snap c hash (bhp (cur t)) t k g) as [t1 r1] eqn:El. injection E as <- <-.
    apply lookup_linL; assumption.
  - destruct (uprase_snap c hash (bhp (cur t)) t k v g) as [[t1 [i lg]]|] eqn:Eu; [|discriminate].
    injection E as <- <-. apply uprase_linL; assumption.
Qed.

End DataL.

(* ================================================================== B. the combined system *)
Section SystemL.
Variable c : config.
Variable hash : N -> N.
Hypothesis Hc : cfg_ok c.

Notation lgood := (lgood c hash).
Notation lholds := (lholds c).

(* ConcLin.cstep with the table invariant [lgood] and the abstraction [lholds]; the states
   ([cstate]), the events and the protocol labels are ConcLin's *)
Inductive cstepL (s : cstate) : cstate -> Prop :=
(* a thread between operations starts a stripe operation *)
| CL_invoke : forall t op p',
    cur_op s t = None -> gstep (pr s) t (BEGIN 1) = Some p' ->
    cstepL s {| pr := p'; tbl := tbl s; cur_op := updf (cur_op s) t (Some op);
                res_of := updf (res_of s) t None; hist := hist s ++ [HInv t op] |}
(* any protocol step that is not tied to data *)
| CL_proto : forall t lb p',
    tied lb = false -> gstep (pr s) t lb = Some p' ->
    cstepL s {| pr := p'; tbl := tbl s; cur_op := cur_op s; res_of := res_of s; hist := hist s |}
(* the linearization point: inside a validated critical section, the concrete code path evaluated
   with the thread's own size snapshot.  In normal mode that code first migrates the lock stripes
   it takes ([lock_two] with mode false), so the step includes the lazy migration. *)
| CL_lin : forall t sn sa x r op tbl' rs,
    thr (pr s) t = CS sn sa (x :: r) -> cur_op s t = Some op -> res_of s t = None ->
    lin_data c hash (sh sn) (tbl s) op = Some (tbl', rs) ->
    cstepL s {| pr := pr s; tbl := tbl'; cur_op := cur_op s;
                res_of := updf (res_of s) t (Some rs); hist := hist s ++ [HLin t op rs] |}
(* response *)
| CL_ret : forall t op rs p',
    cur_op s t = Some op -> res_of s t = Some rs -> gstep (pr s) t (NEXT 0) = Some p' ->
    cstepL s {| pr := p'; tbl := tbl s; cur_op := updf (cur_op s) t None;
                res_of := updf (res_of s) t None; hist := hist s ++ [HRes t op rs] |}
(* a resize: the size store under all locks, together with ANY well-formed table of that size with
   the same abstract contents; deferred migration may be pending in it (and in the table replaced) *)
| CL_resize : forall t first d v tbl' p',
    thr (pr s) t = AH first d -> gstep (pr s) t (ST_HP v) = Some p' ->
    lgood tbl' -> bhp (cur tbl') = v -> (forall k x, lholds tbl' k x <-> lholds (tbl s) k x) ->
    cstepL s {| pr := p'; tbl := tbl'; cur_op := cur_op s; res_of := res_of s; hist := hist s |}
(* a thread with no map operation in flight starts / finishes a whole-table operation *)
| CL_whole_begin : forall t p',
    cur_op s t = None -> gstep (pr s) t (BEGIN 3) = Some p' ->
    cstepL s {| pr := p'; tbl := tbl s; cur_op := cur_op s; res_of := res_of s; hist := hist s |}
| CL_whole_end : forall t p',
    cur_op s t = None -> gstep (pr s) t (NEXT 0) = Some p' ->
    cstepL s {| pr := p'; tbl := tbl s; cur_op := cur_op s; res_of := res_of s; hist := hist s |}.

(* the settled system is a sub-system: every step of ConcLin.cstep between states is a step here *)
Lemma cstep_cstepL s s' : good c hash (tbl s) -> cstep c hash s s' -> cstepL s s'.
Proof.
  intros G ST. destruct ST.
  - apply CL_invoke; assumption.
  - eapply CL_proto; eassumption.
  - eapply CL_lin; eassumption.
  - eapply CL_ret; eassumption.
  - eapply CL_resize; try eassumption.
    + apply good_lgood. assumption.
    + intros k x. rewrite (good_lholds c hash tbl' k x) by assumption.
      rewrite (good_lholds c hash (tbl s) k x) by assumption.
      match goal with H : ceq _ _ |- _ => apply H end.
  - eapply CL_whole_begin; eassumption.
  - eapply CL_whole_end; eassumption.
Qed.

Variables (hp0 rc0 : N) (arrs0 : list nat) (t0 : table).
Hypothesis OK : arrs_ok arrs0.
Hypothesis G0 : lgood t0.            (* the initial table may itself have migration pending *)
Hypothesis HP0 : bhp (cur t0) = hp0.

Notation cinit := (cinit hp0 rc0 arrs0 t0).

Inductive creachL : cstate -> Prop :=
| crL_init : creachL cinit
| crL_step : forall s s', creachL s -> cstepL s s' -> creachL s'.

(* ------------------------------------------------------------------ the invariant *)
Record CInvL (s : cstate) : Prop := {
  (* (i) the protocol component is a reachable state of Conc.v (hence ConcInv.Inv) *)
  cl_reach : reachable hp0 rc0 arrs0 (pr s);
  (* (ii) LINK: the protocol's size variable is the hashpower of the table *)
  cl_link : g_hp (sh_ (pr s)) = bhp (cur (tbl s));
  (* (iii) the table is well formed; deferred migration may be pending *)
  cl_good : lgood (tbl s);
  (* (iv) bookkeeping *)
  cl_book : forall t, cur_op s t = None -> res_of s t = None;
  (* the linearization points so far are a legal sequential execution ending in the contents *)
  cl_legal : legal (lholds t0) (lins (hist s)) (lholds (tbl s));
  (* every thread's events alternate invoke / linearize / respond, in step with its state *)
  cl_hist : forall t, tphase t (hist s) (phase_of (cur_op s t) (res_of s t))
}.

Lemma CInvL_Inv s : CInvL s -> Inv (pr s).
Proof. intro H. eapply reachable_Inv; [exact OK|apply H]. Qed.

Lemma cinvL_init : CInvL cinit.
Proof.
  split; simpl.
  - apply reach_init.
  - symmetry. exact HP0.
  - exact G0.
  - reflexivity.
  - apply legal_nil, ceq_refl.
  - intro t. apply tp_nil.
Qed.

(* THE COMPOSITION LEMMA.  At a linearization step the thread's snapshot is the current size
   ([validated_current] + LINK), so the snapshot code path is the sequential code path of Api.v on
   the shared table (which migrates the stripes it locks), and by LazyRefine the result and the new
   abstract contents are those of the sequential map specification on [lholds]. *)
Lemma lin_step_specL s t sn sa x r op tbl' rs :
  CInvL s -> thr (pr s) t = CS sn sa (x :: r) ->
  lin_data c hash (sh sn) (tbl s) op = Some (tbl', rs) ->
  sh sn = hashpower (tbl s) /\
  lgood tbl' /\ bhp (cur tbl') = bhp (cur (tbl s)) /\
  spec_step (lholds (tbl s)) op rs (lholds tbl') /\
  match op, rs with
  | DLookup k g, RLookup o => lookup_fn c hash false (tbl s) k g = (tbl', o)
  | DUprase k v g, RUprase i lg =>
      exists p, uprase_gen c hash false (tbl s) k v g = (tbl', inr (i, lg, p))
  | _, _ => False
  end.
Proof.
  intros HI Ht E.
  destruct (validated_current hp0 rc0 arrs0 OK (pr s) (cl_reach _ HI) t sn sa x r (or_introl Ht))
    as (_ & Hsh & _).
  assert (Hcur : sh sn = hashpower (tbl s)).
  { unfold hashpower. rewrite Hsh. apply (cl_link _ HI). }
  rewrite Hcur in E. split; [exact Hcur|].
  destruct (lin_data_specL c hash Hc (tbl s) op tbl' rs (cl_good _ HI) E) as [G' [Hhp S]].
  split; [exact G'|]. split; [exact Hhp|]. split; [exact S|].
  apply (lin_data_sequential c hash). exact E.
Qed.

Theorem cinvL_step s s' : CInvL s -> cstepL s s' -> CInvL s'.
Proof.
  intros HI ST. destruct HI as [R L G B LG TH]. destruct ST.
  - (* invoke *)
    split; simpl.
    + eapply reach_step; eassumption.
    + rewrite (gstep_hp_other _ _ _ _ H0); [exact L|intros v; discriminate].
    + exact G.
    + intros u. destruct (Nat.eq_dec u t) as [->|N].
      * rewrite !updf_same. reflexivity.
      * rewrite !updf_other by exact N. apply B.
    + rewrite lins_app. simpl. rewrite app_nil_r. exact LG.
    + intros u. destruct (Nat.eq_dec u t) as [->|N].
      * rewrite !updf_same. simpl. eapply tp_snoc; [|apply ps_inv].
        specialize (TH t). rewrite H in TH. exact TH.
      * rewrite !updf_other by exact N. apply tphase_other; [apply TH|simpl; congruence].
  - (* protocol step *)
    split; simpl; try assumption.
    + eapply reach_step; eassumption.
    + rewrite (gstep_hp_other _ _ _ _ H0); [exact L|apply tied_not_store; exact H].
  - (* linearization point *)
    destruct (lin_step_specL s t sn sa x r op tbl' rs
                (Build_CInvL s R L G B LG TH) H H2) as [_ [G' [Hhp [S _]]]].
    split; simpl.
    + exact R.
    + rewrite Hhp. exact L.
    + exact G'.
    + intros u Hu. destruct (Nat.eq_dec u t) as [->|N]; [congruence|].
      rewrite updf_other by exact N. apply B. exact Hu.
    + rewrite lins_app. simpl. eapply legal_snoc; eassumption.
    + intros u. destruct (Nat.eq_dec u t) as [->|N].
      * rewrite updf_same, H0. simpl. eapply tp_snoc; [|apply ps_lin].
        specialize (TH t). rewrite H0, H1 in TH. exact TH.
      * rewrite updf_other by exact N. apply tphase_other; [apply TH|simpl; congruence].
  - (* response *)
    split; simpl.
    + eapply reach_step; eassumption.
    + rewrite (gstep_hp_other _ _ _ _ H1); [exact L|intros v; discriminate].
    + exact G.
    + intros u. destruct (Nat.eq_dec u t) as [->|N].
      * rewrite !updf_same. reflexivity.
      * rewrite !updf_other by exact N. apply B.
    + rewrite lins_app. simpl. rewrite app_nil_r. exact LG.
    + intros u. destruct (Nat.eq_dec u t) as [->|N].
      * rewrite !updf_same. simpl. eapply tp_snoc; [|apply ps_res].
        specialize (TH t). rewrite H, H0 in TH. exact TH.
      * rewrite !updf_other by exact N. apply tphase_other; [apply TH|simpl; congruence].
  - (* resize *)
    split; simpl; try assumption.
    + eapply reach_step; eassumption.
    + rewrite (gstep_hp_store _ _ _ _ H0). symmetry. assumption.
    + eapply legal_ceq_r; [|exact LG]. intros k x. symmetry. apply H3.
  - (* whole-table operation begins *)
    split; simpl; try assumption.
    + eapply reach_step; eassumption.
    + rewrite (gstep_hp_other _ _ _ _ H0); [exact L|intros v; discriminate].
  - (* whole-table operation ends *)
    split; simpl; try assumption.
    + eapply reach_step; eassumption.
    + rewrite (gstep_hp_other _ _ _ _ H0); [exact L|intros v; discriminate].
Qed.

Theorem cinvL_reachable s : creachL s -> CInvL s.
Proof. induction 1; [apply cinvL_init|eapply cinvL_step; eassumption]. Qed.

(* ================================================================== C. the theorems *)

(* LINEARIZABILITY BY LINEARIZATION POINTS, THROUGH DEFERRED MIGRATION.  In every reachable state
   of the combined system (whose table may have any number of lock stripes not yet migrated):
   (a) the linearization points of the history, in the order in which they happened, are a legal
       sequential execution of the map specification from the initial abstract contents
       [lholds t0] to the abstract contents [lholds (tbl s)] of the shared table;
   (b) every response [HRes t op r] is preceded by ITS linearization point [HLin t op r] (same
       operation, same result), which is preceded by ITS invocation [HInv t op]; thread t has no
       other event in between, and before the invocation thread t was between operations;
   (c) every linearization point is preceded by its invocation, with no event of the thread in
       between. *)
Theorem linearizable_by_points_lazy s : creachL s ->
  legal (lholds t0) (lins (hist s)) (lholds (tbl s)) /\
  (forall t op r h1 h2, hist s = h1 ++ HRes t op r :: h2 ->
     exists ha hb hc, h1 = ha ++ HInv t op :: hb ++ HLin t op r :: hc /\
       quiet t hb /\ quiet t hc /\ tphase t ha PIdle) /\
  (forall t op r h1 h2, hist s = h1 ++ HLin t op r :: h2 ->
     exists ha hb, h1 = ha ++ HInv t op :: hb /\ quiet t hb /\ tphase t ha PIdle).
Proof.
  intro R. assert (HI := cinvL_reachable s R). split; [apply HI|]. split.
  - intros t op r h1 h2 E. assert (T := cl_hist _ HI t). rewrite E in T.
    change (h1 ++ HRes t op r :: h2) with (h1 ++ [HRes t op r] ++ h2) in T. rewrite app_assoc in T.
    apply tphase_prefix in T. destruct T as [p1 T]. apply tphase_snoc_inv in T.
    destruct T as [p [T S]]. inversion S; subst; [simpl in *; congruence|].
    destruct (tphase_shape _ _ _ T) as [ha [hb [hc [E1 [Q1 [Q2 T0]]]]]].
    exists ha, hb, hc. repeat split; assumption.
  - intros t op r h1 h2 E. assert (T := cl_hist _ HI t). rewrite E in T.
    change (h1 ++ HLin t op r :: h2) with (h1 ++ [HLin t op r] ++ h2) in T. rewrite app_assoc in T.
    apply tphase_prefix in T. destruct T as [p1 T]. apply tphase_snoc_inv in T.
    destruct T as [p [T S]]. inversion S; subst; [simpl in *; congruence|].
    destruct (tphase_shape _ _ _ T) as [ha [hb [E1 [Q1 T0]]]].
    exists ha, hb. repeat split; assumption.
Qed.

(* one completed operation, with the real-time reading *)
Corollary completed_op_linearized_lazy s t op r h1 h2 : creachL s ->
  hist s = h1 ++ HRes t op r :: h2 ->
  exists ha hb hc,
    hist s = ha ++ HInv t op :: hb ++ HLin t op r :: hc ++ HRes t op r :: h2 /\
    quiet t hb /\ quiet t hc /\
    lins (hist s) = lins (ha ++ hb) ++ (op, r) :: lins hc ++ lins h2.
Proof.
  intros R E. destruct (linearizable_by_points_lazy s R) as [_ [Hb _]].
  destruct (Hb t op r h1 h2 E) as [ha [hb [hc [E1 [Q1 [Q2 _]]]]]].
  exists ha, hb, hc. split; [|split; [exact Q1|split; [exact Q2|]]].
  - rewrite E, E1. rewrite <- !app_assoc. simpl. rewrite <- !app_assoc. reflexivity.
  - rewrite E, E1. rewrite !lins_app. simpl. rewrite !lins_app. simpl.
    rewrite <- !app_assoc. reflexivity.
Qed.

(* what a linearization point saw: THE abstract contents at that point of the sequential execution *)
Corollary lin_point_spec_lazy s l1 op r l2 : creachL s ->
  lins (hist s) = l1 ++ (op, r) :: l2 ->
  forall m, legal (lholds t0) l1 m ->
  exists m', spec_step m op r m' /\ legal m' l2 (lholds (tbl s)).
Proof.
  intros R E m Lm. destruct (linearizable_by_points_lazy s R) as [L _]. rewrite E in L.
  apply legal_app_inv in L. destruct L as [m0 [L1 L2]]. inversion L2; subst.
  assert (Em : ceq m0 m).
  { eapply legal_det; [apply (lholds_cfun c hash Hc); exact G0|eassumption|eassumption]. }
  exists a1. split; [eapply spec_step_ceq_l; eassumption|assumption].
Qed.

(* "a key that is present is never reported absent", also while its stripe is not yet migrated and
   the key still sits in the superseded bucket array: a lookup whose linearization point reports
   [None] happened at a point of the sequential execution where the key was absent *)
Corollary lookup_none_absent_lazy s l1 k g l2 : creachL s ->
  lins (hist s) = l1 ++ (DLookup k g, RLookup None) :: l2 ->
  forall m, legal (lholds t0) l1 m -> forall v, ~ m k v.
Proof.
  intros R E m Lm. destruct (lin_point_spec_lazy s l1 _ _ l2 R E m Lm) as [m' [S _]].
  inversion S; subst. assumption.
Qed.

Corollary lookup_some_present_lazy s l1 k g v l2 : creachL s ->
  lins (hist s) = l1 ++ (DLookup k g, RLookup (Some v)) :: l2 ->
  forall m, legal (lholds t0) l1 m -> m k v.
Proof.
  intros R E m Lm. destruct (lin_point_spec_lazy s l1 _ _ l2 R E m Lm) as [m' [S _]].
  inversion S; subst. assumption.
Qed.

Corollary uprase_inserted_iff_absent_lazy s l1 k v g i lg l2 : creachL s ->
  lins (hist s) = l1 ++ (DUprase k v g, RUprase i lg) :: l2 ->
  forall m, legal (lholds t0) l1 m -> (i = true <-> forall v0, ~ m k v0).
Proof.
  intros R E m Lm. destruct (lin_point_spec_lazy s l1 _ _ l2 R E m Lm) as [m' [S _]].
  inversion S; subst.
  - split; [discriminate|]. intro H. exfalso. eapply H. eassumption.
  - split; [intros _; assumption|reflexivity].
Qed.

Theorem resize_excludes_critical_sections_lazy s t first d : creachL s ->
  thr (pr s) t = AH first d -> forall u, ~ validated (thr (pr s) u).
Proof.
  intros R Ht u V. assert (HI := cinvL_reachable s R).
  apply (validated_excludes_all_holder hp0 rc0 arrs0 (pr s) u OK (cl_reach _ HI) V t).
  rewrite Ht. exact I.
Qed.

Theorem lin_snapshot_current_lazy s t sn sa x r : creachL s ->
  thr (pr s) t = CS sn sa (x :: r) -> sh sn = hashpower (tbl s).
Proof.
  intros R Ht. assert (HI := cinvL_reachable s R).
  destruct (validated_current hp0 rc0 arrs0 OK (pr s) (cl_reach _ HI) t sn sa x r (or_introl Ht))
    as (_ & Hsh & _).
  unfold hashpower. rewrite Hsh. apply (cl_link _ HI).
Qed.

End SystemL.

(* ================================================================== D. instances of the resize step *)
Section Instances.
Variable c : config.
Variable hash : N -> N.
Hypothesis Hc : cfg_ok c.

Notation lgood := (lgood c hash).
Notation lholds := (lholds c).
Local Open Scope N_scope.

(* what [CL_resize] asks of the new table [t'] when the table replaced is [t] *)
Definition resize_ok (t t' : table) (v : N) : Prop :=
  lgood t' /\ bhp (cur t') = v /\ (forall k x, lholds t' k x <-> lholds t k x).

Lemma resize_ok_cstepL s t first d v tbl' p' :
  thr (pr s) t = AH first d -> gstep (pr s) t (ST_HP v) = Some p' -> resize_ok (tbl s) tbl' v ->
  cstepL c hash s {| pr := p'; tbl := tbl'; cur_op := cur_op s; res_of := res_of s; hist := hist s |}.
Proof. intros Ht Hg [G [Hv Hh]]. eapply CL_resize; eassumption. Qed.

(* any evolution step of LazyRefine is admissible *)
Lemma levolves_resize_ok t t' : levolves c hash t t' -> resize_ok t t' (bhp (cur t')).
Proof. intros [G [Hh _]]. split; [exact G|]. split; [reflexivity|exact Hh]. Qed.

(* THE AUTOMATIC DOUBLING IN NORMAL MODE.  For a well-formed table (migration possibly pending) that
   may grow, [fast_double_body c hash false t (hp + 1)] satisfies the requirements of the resize
   step; if the type is nothrow-movable and the load factor allows it, this IS the table that
   [cuckoo_fast_double] (called by the insert loop on a full table) returns; and when the table has
   at least as many buckets as lock stripes, NO stripe of the result is migrated and its current
   array is EMPTY: ConcLin's abstraction [holds (cur _)] would have lost every element. *)
Theorem fast_double_is_resize_step t :
  lgood t -> bhp (cur t) + 1 < 60 -> ~ maxed t (bhp (cur t) + 1) ->
  let t' := fast_double_body c hash false t (bhp (cur t) + 1) in
  resize_ok t t' (bhp (cur t) + 1) /\
  (nothrow c = true -> lf_lt_mlf c t = false ->
     cuckoo_fast_double c hash false t (bhp (cur t)) = (t', inr St_ok)) /\
  (kmax c <= hashsize (bhp (cur t)) ->
     ~ all_migrated t' /\ ~ good c hash t' /\ (forall l, l < kmax c -> mig (lock_at t' l) = false) /\
     (forall k x, ~ holds (cur t') k x)).
Proof.
  intros G Hb Hm t'. subst t'.
  destruct (fast_double_body_lgood c hash Hc t G Hb Hm) as [G' [Hhp [Hh [_ [_ [_ Hd]]]]]].
  cbv zeta in G', Hhp, Hh, Hd.
  split; [split; [exact G'|split; [exact Hhp|exact Hh]]|]. split.
  - intros Hnt Hlf. destruct (cuckoo_fast_double_lgood c hash Hc t Hnt G) as [_ [_ H3]].
    cbv zeta in H3. destruct (H3 Hm Hlf) as [E _]. exact E.
  - intro Hbig. destruct (Hd Hbig) as [_ [Hcur [_ Hmig]]].
    destruct (deferred_state_reached c hash Hc t G Hb Hm Hbig) as [_ [Hn Hng]]. cbv zeta in Hn, Hng.
    split; [exact Hn|]. split; [exact Hng|]. split; [exact Hmig|].
    intros k x [b [sl [e [He _]]]]. rewrite Hcur, bget_bnew in He. discriminate.
Qed.

Corollary fast_double_cstepL s t first d p' :
  lgood (tbl s) -> bhp (cur (tbl s)) + 1 < 60 -> ~ maxed (tbl s) (bhp (cur (tbl s)) + 1) ->
  thr (pr s) t = AH first d -> gstep (pr s) t (ST_HP (bhp (cur (tbl s)) + 1)) = Some p' ->
  cstepL c hash s {| pr := p'; tbl := fast_double_body c hash false (tbl s) (bhp (cur (tbl s)) + 1);
                     cur_op := cur_op s; res_of := res_of s; hist := hist s |}.
Proof.
  intros G Hb Hm Ht Hg. eapply resize_ok_cstepL; [exact Ht|exact Hg|].
  apply (fast_double_is_resize_step (tbl s) G Hb Hm).
Qed.

(* lock_table / the first phase of every explicit resize: finishing the pending migration *)
Theorem rww_is_resize_step t :
  lgood t -> resize_ok t (rehash_with_workers c hash t) (bhp (cur t)) /\
             all_migrated (rehash_with_workers c hash t).
Proof.
  intro G. destruct (rww_levolves c hash Hc t G) as [[G' [Hh _]] Hhp].
  split; [split; [exact G'|split; [exact Hhp|exact Hh]]|].
  destruct (rww_lgood c hash Hc t G) as [[St _] _]. apply (se_mig _ _ _ St).
Qed.

(* rehash / reserve, whatever the outcome (no change, rebuilt table, exception) *)
Theorem rehash_is_resize_step t n t' r :
  lgood t -> limC c (mhp t) -> destructive c = false ->
  cuckoo_rehash c hash false t n = (t', r) -> resize_ok t t' (bhp (cur t')).
Proof.
  intros G Hl Hd E. destruct (cuckoo_rehash_lgood c hash Hc t n G Hl t' r E) as [_ [H2 [H3 H4]]].
  destruct r as [e|[|]].
  - destruct (H4 e eq_refl) as [_ [_ [_ [_ Hev]]]]. destruct (Hev Hd) as [Ev _].
    apply levolves_resize_ok. exact Ev.
  - destruct (H3 eq_refl) as [G' [Hh _]]. split; [apply good_lgood; exact G'|].
    split; [reflexivity|]. intros k x. rewrite (good_lholds c hash t' k x G'). apply Hh.
  - rewrite (H2 eq_refl). apply levolves_resize_ok. apply levolves_refl. exact G.
Qed.

Theorem reserve_is_resize_step t n t' r :
  lgood t -> limC c (mhp t) -> destructive c = false ->
  cuckoo_reserve c hash false t n = (t', r) -> resize_ok t t' (bhp (cur t')).
Proof.
  intros G Hl Hd E. rewrite cuckoo_reserve_eq in E. eapply rehash_is_resize_step; eassumption.
Qed.

End Instances.

(* ================================================================== E. the executable scheduler *)
(* ConcLin's scheduler [cexec] / [crun] never fires a resize, so it is sound for [cstepL] as is *)
Section ExecL.
Variable c : config.
Variable hash : N -> N.

Lemma cexec_soundL s a s' : cexec c hash s a = Some s' -> cstepL c hash s s'.
Proof.
  destruct a as [t op|t lb|t|t|t|t]; simpl.
  - destruct (cur_op s t) eqn:E1; [discriminate|].
    destruct (gstep (pr s) t (BEGIN 1)) eqn:E2; [|discriminate].
    intro H. injection H as <-. apply CL_invoke; assumption.
  - destruct (tied lb) eqn:E1; [discriminate|].
    destruct (gstep (pr s) t lb) eqn:E2; [|discriminate].
    intro H. injection H as <-. eapply CL_proto; eassumption.
  - destruct (thr (pr s) t) eqn:E1; try discriminate. destruct got as [|x r]; [discriminate|].
    destruct (cur_op s t) as [op|] eqn:E2; [|discriminate].
    destruct (res_of s t) eqn:E3; [discriminate|].
    destruct (lin_data c hash (sh sn) (tbl s) op) as [[tbl' rs]|] eqn:E4; [|discriminate].
    intro H. injection H as <-. eapply CL_lin; eassumption.
  - destruct (cur_op s t) as [op|] eqn:E1; [|discriminate].
    destruct (res_of s t) as [rs|] eqn:E2; [|discriminate].
    destruct (gstep (pr s) t (NEXT 0)) eqn:E3; [|discriminate].
    intro H. injection H as <-. eapply CL_ret; eassumption.
  - destruct (cur_op s t) eqn:E1; [discriminate|].
    destruct (gstep (pr s) t (BEGIN 3)) eqn:E2; [|discriminate].
    intro H. injection H as <-. eapply CL_whole_begin; eassumption.
  - destruct (cur_op s t) eqn:E1; [discriminate|].
    destruct (gstep (pr s) t (NEXT 0)) eqn:E2; [|discriminate].
    intro H. injection H as <-. eapply CL_whole_end; eassumption.
Qed.

Lemma crun_reachL hp0 rc0 arrs0 t0 l : forall s s',
  creachL c hash hp0 rc0 arrs0 t0 s -> crun c hash s l = Some s' -> creachL c hash hp0 rc0 arrs0 t0 s'.
Proof.
  induction l as [|a l IH]; simpl; intros s s' R H.
  - injection H as <-. exact R.
  - destruct (cexec c hash s a) as [s1|] eqn:E; [|discriminate].
    eapply IH; [|exact H]. eapply crL_step; [exact R|]. eapply cexec_soundL. exact E.
Qed.
End ExecL.

(* ================================================================== F. non-vacuity: a run through a
   table that is NOT fully migrated.
   4 lock stripes (lbits = 2), 4 slots per bucket, initial table of 4 buckets (hashpower 2), one lock
   array of 4 locks in the protocol.
   Thread 0 inserts key 5 (stripes 0 and 1).  Thread 1 invokes a lookup of key 5.  Thread 0 invokes
   an insert of key 3, enters and leaves its critical section without effect (the code path of a
   full table), takes ALL locks and doubles the table: the resize step installs
   [fast_double_body cl hx false _ 3], which is exactly what [cuckoo_fast_double] returns; its
   current array is empty, none of its 4 stripes is migrated, it is not [Refine.good].  Thread 0
   bumps the generation and releases.  Thread 1 then takes a fresh snapshot (size 3), locks stripes
   0 and 1 and its lookup linearizes: the step migrates those two stripes and finds 7.  Thread 0
   retries, locks stripe 3 and its insert linearizes.  Stripe 2 is still un-migrated at the end. *)
Module LazyExample.
Definition cl : config := {| spb := 4; lbits := 2; simple := false; nothrow := true; destructive := false |}.
Definition hx (k : N) : N := (k * 2654435761)%N.
Definition tl : table := new_table cl 16.
Definition op_ins5 : dop := DUprase 5%N 7%Z (fun _ _ => None).
Definition op_ins3 : dop := DUprase 3%N 8%Z (fun _ _ => None).
Definition op_find5 : dop := DLookup 5%N (fun v => (v, false)).

Lemma cl_ok : cfg_ok cl.
Proof. split; simpl; lia. Qed.

Lemma tl_lgood : lgood cl hx tl /\ bhp (cur tl) = 2%N.
Proof.
  destruct (good_new_table cl hx cl_ok 16%N) as [G _]; [vm_compute; reflexivity|].
  split; [apply good_lgood; exact G|]. vm_compute. reflexivity.
Qed.

Lemma arrs_ok4 : arrs_ok [4].
Proof. split; [discriminate|repeat constructor]. Qed.

Definition sched1 : list action :=
  [ AInvoke 0 op_ins5; AProto 0 (LD_RC 0%N); AProto 0 (LD_HP 2%N); AProto 0 (CURLOCKS 0);
    AProto 0 (LOCKREQ 0 0); AProto 0 (LOCKED 0 0); AProto 0 (LD_RC 0%N);
    AProto 0 (LOCKREQ 0 1); AProto 0 (LOCKED 0 1); ALin 0;
    AProto 0 (UNLOCK 0 0); AProto 0 (UNLOCK 0 1); ARet 0;
    AInvoke 1 op_find5; AInvoke 0 op_ins3;
    AProto 0 (LD_RC 0%N); AProto 0 (LD_HP 2%N); AProto 0 (CURLOCKS 0);
    AProto 0 (LOCKREQ 0 3); AProto 0 (LOCKED 0 3); AProto 0 (LD_RC 0%N);
    AProto 0 (UNLOCK 0 3); AProto 0 (NEXT 3); AProto 0 (ALL_FIRST 0);
    AProto 0 (LOCKREQ 0 0); AProto 0 (LOCKED 0 0); AProto 0 (LOCKREQ 0 1); AProto 0 (LOCKED 0 1);
    AProto 0 (LOCKREQ 0 2); AProto 0 (LOCKED 0 2); AProto 0 (LOCKREQ 0 3); AProto 0 (LOCKED 0 3);
    AProto 0 (ALL_NEXT false) ].

Definition sched2 : list action :=
  [ AProto 0 FA_RC; AProto 0 (UNLOCK 0 0); AProto 0 (UNLOCK 0 1); AProto 0 (UNLOCK 0 2);
    AProto 0 (UNLOCK 0 3); AProto 0 (NEXT 1);
    AProto 1 (LD_RC 1%N); AProto 1 (LD_HP 3%N); AProto 1 (CURLOCKS 0);
    AProto 1 (LOCKREQ 0 0); AProto 1 (LOCKED 0 0); AProto 1 (LD_RC 1%N);
    AProto 1 (LOCKREQ 0 1); AProto 1 (LOCKED 0 1); ALin 1 ].

Definition sched3 : list action :=
  [ AProto 0 (LD_RC 1%N); AProto 0 (LD_HP 3%N); AProto 0 (CURLOCKS 0);
    AProto 0 (LOCKREQ 0 3); AProto 0 (LOCKED 0 3); AProto 0 (LD_RC 1%N); ALin 0;
    AProto 0 (UNLOCK 0 3); ARet 0;
    AProto 1 (UNLOCK 0 0); AProto 1 (UNLOCK 0 1); ARet 1 ].


Lemma not_all_migrated t : forallb mig (cur_locks t) = false -> ~ all_migrated t.
Proof.
  intros H A. assert (H1 : forallb mig (cur_locks t) = true) by (apply forallb_forall; exact A).
  congruence.
Qed.

Definition hasb (a : barray) (nb ns : nat) (k : N) (v : Z) : bool :=
  existsb (fun b => existsb (fun s =>
    match bget a (N.of_nat b) (N.of_nat s) with
    | Some e => N.eqb (ekey e) k && Z.eqb (eval e) v
    | None => false
    end) (seq 0 ns)) (seq 0 nb).

Lemma hasb_holds a nb ns k v : hasb a nb ns k v = true -> holds a k v.
Proof.
  unfold hasb. intro H. apply existsb_exists in H. destruct H as [b [_ H]].
  apply existsb_exists in H. destruct H as [s [_ H]].
  destruct (bget a (N.of_nat b) (N.of_nat s)) as [e|] eqn:E; [|discriminate].
  apply andb_true_iff in H. destruct H as [H1 H2].
  apply N.eqb_eq in H1. apply Z.eqb_eq in H2.
  exists (N.of_nat b), (N.of_nat s), e. split; [exact E|]. split; assumption.
Qed.

Notation reach := (creachL cl hx 2%N 0%N [4] tl).

Example lazy_run :
  exists s1 s2 s3 s4,
    (* s1: key 5 inserted; thread 0, in the middle of an insert of key 3, holds all locks *)
    reach s1 /\ thr (pr s1) 0 = AH 0 false /\ lholds cl (tbl s1) 5%N 7%Z /\
    (* s2: after the resize step = the automatic doubling of the real code *)
    reach s2 /\ cstepL cl hx s1 s2 /\
    cuckoo_fast_double cl hx false (tbl s1) 2%N = (tbl s2, inr St_ok) /\
    hashpower (tbl s2) = 3%N /\
    ~ all_migrated (tbl s2) /\ ~ good cl hx (tbl s2) /\
    (forall k x, ~ holds (cur (tbl s2)) k x) /\ lholds cl (tbl s2) 5%N 7%Z /\
    (* s3: thread 1's lookup of key 5 has linearized on that table, and found the key *)
    reach s3 /\ ~ all_migrated (tbl s3) /\
    hist s3 = [ HInv 0 op_ins5; HLin 0 op_ins5 (RUprase true []); HRes 0 op_ins5 (RUprase true []);
                HInv 1 op_find5; HInv 0 op_ins3; HLin 1 op_find5 (RLookup (Some 7%Z)) ] /\
    (* s4: thread 0's insert of key 3 has linearized too; both have returned; stripe 2 is still
       not migrated *)
    reach s4 /\ ~ all_migrated (tbl s4) /\
    hist s4 = [ HInv 0 op_ins5; HLin 0 op_ins5 (RUprase true []); HRes 0 op_ins5 (RUprase true []);
                HInv 1 op_find5; HInv 0 op_ins3; HLin 1 op_find5 (RLookup (Some 7%Z));
                HLin 0 op_ins3 (RUprase true []); HRes 0 op_ins3 (RUprase true []);
                HRes 1 op_find5 (RLookup (Some 7%Z)) ] /\
    lholds cl (tbl s4) 5%N 7%Z /\ lholds cl (tbl s4) 3%N 8%Z.
Proof.
  destruct tl_lgood as [G0 Hhp0].
  destruct (crun cl hx (cinit 2%N 0%N [4] tl) sched1) as [s1|] eqn:E1.
  2:{ vm_compute in E1. discriminate. }
  assert (R1 : reach s1) by (eapply crun_reachL; [apply crL_init|exact E1]).
  assert (G1 := cl_good _ _ _ _ _ _ _ (cinvL_reachable cl hx cl_ok 2%N 0%N [4] tl arrs_ok4 G0 Hhp0 s1 R1)).
  assert (Ht : thr (pr s1) 0 = AH 0 false) by (vm_compute in E1; injection E1 as <-; reflexivity).
  assert (Hhp : bhp (cur (tbl s1)) = 2%N) by (vm_compute in E1; injection E1 as <-; reflexivity).
  assert (Hmhp : mhp (tbl s1) = NO_MAXIMUM_HASHPOWER) by (vm_compute in E1; injection E1 as <-; reflexivity).
  assert (Hlf : lf_lt_mlf cl (tbl s1) = false) by (vm_compute in E1; injection E1 as <-; reflexivity).
  assert (H5 : lholds cl (tbl s1) 5%N 7%Z).
  { vm_compute in E1. injection E1 as <-. left. apply (hasb_holds _ 4 4). vm_compute. reflexivity. }
  assert (Hb : (bhp (cur (tbl s1)) + 1 < 60)%N) by (rewrite Hhp; reflexivity).
  assert (Hm : ~ maxed (tbl s1) (bhp (cur (tbl s1)) + 1)) by (intros [H _]; apply H; exact Hmhp).
  assert (Hbig : (kmax cl <= hashsize (bhp (cur (tbl s1))))%N) by (rewrite Hhp; apply N.leb_le; reflexivity).
  destruct (fast_double_is_resize_step cl hx cl_ok (tbl s1) G1 Hb Hm) as [[G2 [Hhp2 Hh2]] [Hfd Hdef]].
  cbv zeta in G2, Hhp2, Hh2, Hfd, Hdef.
  destruct (Hdef Hbig) as [Hnm2 [Hng2 [_ Hempty]]].
  destruct (gstep (pr s1) 0 (ST_HP (bhp (cur (tbl s1)) + 1))) as [p2|] eqn:E2.
  2:{ unfold gstep in E2. rewrite Ht in E2. discriminate. }
  assert (ST2 := fast_double_cstepL cl hx cl_ok s1 0 0 false p2 G1 Hb Hm Ht E2).
  assert (R2 := crL_step cl hx 2%N 0%N [4] tl _ _ R1 ST2).
  match type of R2 with creachL _ _ _ _ _ _ ?s2 =>
    destruct (crun cl hx s2 sched2) as [s3|] eqn:E3 end.
  2:{ vm_compute in E1. injection E1 as <-. vm_compute in E2. injection E2 as <-.
      vm_compute in E3. discriminate. }
  assert (R3 := crun_reachL cl hx 2%N 0%N [4] tl _ _ _ R2 E3).
  destruct (crun cl hx s3 sched3) as [s4|] eqn:E4.
  2:{ vm_compute in E1. injection E1 as <-. vm_compute in E2. injection E2 as <-.
      vm_compute in E3. injection E3 as <-. vm_compute in E4. discriminate. }
  assert (R4 := crun_reachL cl hx 2%N 0%N [4] tl _ _ _ R3 E4).
  eexists s1, _, s3, s4.
  split; [exact R1|]. split; [exact Ht|]. split; [exact H5|].
  split; [exact R2|]. split; [exact ST2|]. cbn [tbl].
  split; [rewrite <- Hhp; apply Hfd; [reflexivity|exact Hlf]|].
  split; [unfold hashpower; rewrite Hhp2, Hhp; reflexivity|].
  split; [exact Hnm2|]. split; [exact Hng2|]. split; [exact Hempty|].
  split; [apply Hh2; exact H5|].
  split; [exact R3|].
  clear R1 R2 R3 ST2 G1 G2 Hh2 Hfd Hdef Hnm2 Hng2 Hempty H5.
  vm_compute in E1. injection E1 as <-. vm_compute in E2. injection E2 as <-.
  vm_compute in E3. injection E3 as <-. vm_compute in E4. injection E4 as <-.
  split; [apply not_all_migrated; vm_compute; reflexivity|].
  split; [reflexivity|].
  split; [exact R4|]. clear R4.
  split; [apply not_all_migrated; vm_compute; reflexivity|].
  split; [reflexivity|].
  split; left; apply (hasb_holds _ 8 4); vm_compute; reflexivity.
Qed.

(* the theorems apply to it: their hypotheses hold of the example's initial state *)
Example lazy_run_linearizable : forall s, reach s ->
  legal (lholds cl tl) (lins (hist s)) (lholds cl (tbl s)).
Proof.
  intros s R. destruct tl_lgood as [G E].
  apply (linearizable_by_points_lazy cl hx cl_ok 2%N 0%N [4] tl arrs_ok4 G E s R).
Qed.

(* the data side alone: on the doubled, un-migrated table the code path with the CURRENT size finds
   the key (migrating two of the four stripes on the way); with a STALE size snapshot it misses it.
   This is why the composition needs [validated_current] and LINK in the deferred regime as well. *)
Example stale_snapshot_misses_lazy :
  let t1 := fst (uprase_gen cl hx false tl 5%N 7%Z (fun _ _ => None)) in
  let td := fast_double_body cl hx false t1 3%N in
  hashpower td = 3%N /\ map mig (cur_locks td) = [false; false; false; false] /\
  snd (lookup_snap cl hx 3%N td 5%N (fun v => (v, false))) = Some 7%Z /\
  map mig (cur_locks (fst (lookup_snap cl hx 3%N td 5%N (fun v => (v, false))))) =
    [true; true; false; false] /\
  snd (lookup_snap cl hx 2%N td 5%N (fun v => (v, false))) = None.
Proof. vm_compute. repeat split. Qed.
End LazyExample.
