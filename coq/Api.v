(* L1 API layer: the public operations of cuckoohash_map / locked_table as steps over a world of
   tables (definitions only). *)
From Coq Require Import NArith ZArith List Bool FMapPositive.
From LC Require Import gen.HashGen Core.
Import ListNotations.
Local Open Scope N_scope.

(* functor shapes used by scripts; theorems quantify over an arbitrary [fapply] *)
Inductive fnk :=
| FNoop
| FAdd (d : Z)            (* v += d ; erase = false *)
| FSet (d : Z)            (* v := d *)
| FEraseIfEq (d : Z)      (* erase iff v = d (no mutation) *)
| FAddEraseIfEven (d : Z) (* v += d ; erase iff new v even *)
| FCtx (a b : Z).         (* NEWLY_INSERTED: v += a ; ALREADY_EXISTED: v += b ; erase iff new v = 0 *)

Definition fapply_std (f : fnk) (v : Z) (newly : bool) : Z * bool :=
  match f with
  | FNoop => (v, false)
  | FAdd d => ((v + d)%Z, false)
  | FSet d => (d, false)
  | FEraseIfEq d => (v, Z.eqb v d)
  | FAddEraseIfEven d => ((v + d)%Z, Z.even (v + d))
  | FCtx a b => let v' := if newly then (v + a)%Z else (v + b)%Z in (v', Z.eqb v' 0)
  end.

Inductive mlfarg := MRat (neg : bool) (n d : N) | MNaN.

Inductive op :=
(* normal mode *)
| OFind (k : N) | OFindThrow (k : N) | OContains (k : N) | OFindFn (k : N)
| OUpdate (k : N) (v : Z) | OUpdateFn (k : N) (f : fnk)
| OInsert (k : N) (v : Z) | OIoa (k : N) (v : Z)
| OUpsert (k : N) (f : fnk) (two : bool) (v : Z) | OUprase (k : N) (f : fnk) (two : bool) (v : Z)
| OErase (k : N) | OEraseFn (k : N) (f : fnk)
| ORehash (n : N) | OReserve (n : N) | OClear
| OMlf (a : mlfarg) | OMhp (n : N) | OWorkers (n : N)
(* locked_table *)
| OLock | OUnlock
| LInsert (k : N) (v : Z) | LEraseKey (k : N) | LEraseIt (r : nat) (dst : nat)
| LFind (k : N) (r : nat) | LAt (k : N) | LIdx (k : N) | LCount (k : N) | LRange (k : N)
| LRehash (n : N) | LReserve (n : N) | LClear
| ItBegin (r : nat) | ItEnd (r : nat) | ItInc (r : nat) | ItDec (r : nat) | ItGet (r : nat)
| ItSet (r : nat) (v : Z) | ItEq (r1 r2 : nat)
| LTraverse | LRTraverse
| StreamOut (s : nat) | StreamIn (s : nat)
(* special members; [a] = this table, [b] = other table *)
| OCopyTo (b : nat) | OMoveTo (b : nat) | OAssignTo (b : nat) | OMoveAssignTo (b : nat) | OSwap (b : nat)
| OCopyAllocTo (b : nat) (eq : bool) | OMoveAllocTo (b : nat) (eq : bool)
| ODestroy | ONew (n : N).

Inductive rv :=
| RBool (b : bool) | RNat (n : N) | RInt (z : Z) | RNone | RPos (b s : N) | RExn (e : exn)
| RFn (v : Z) (newly : bool) | RKV (k : N) (v : Z).

Definition out := list rv.

(* stream image: what operator<< of a locked_table writes, structurally *)
Record image := { ihp : N; isl : slotmap; isize : N; imlfn : N; imlfd : N; imhp : N }.

Record tslot := { tb : table; active : bool (* a locked_table holds it *) }.

Record world := {
  tabs : list (option tslot);
  its : list (option (N * N));  (* iterator registers of the active locked_table; None = unset *)
  imgs : list (option image)
}.

Fixpoint set_nth {A} (n : nat) (x : A) (l : list A) : list A :=
  match l, n with
  | [], _ => []
  | _ :: r, O => x :: r
  | y :: r, S n' => y :: set_nth n' x r
  end.

Section Step.
Variable c : config.
Variable hash : N -> N.
Variable fapply : fnk -> Z -> bool -> Z * bool.   (* arbitrary functor semantics *)

Notation snap := (snapshot_and_lock_two c hash).
Notation cfind := (cuckoo_find c).
Notation hpart := (hashed_partial hash).

Definition val_at (t : table) (b s : N) : Z :=
  match bget (cur t) b s with Some e => eval e | None => 0%Z end.

Definition set_val (t : table) (b s : N) (v : Z) : table :=
  match bget (cur t) b s with
  | Some e => set_cur t (bset (cur t) b s (Some {| ekey := ekey e; eval := v; epart := epart e; ehusk := ehusk e |}))
  | None => t
  end.

(* find_fn / update_fn / erase_fn : [g] receives the stored value, returns new value and erase flag *)
Definition lookup_fn (mode : bool) (t : table) (k : N) (g : Z -> Z * bool) : table * option Z :=
  let '(t1, i1, i2) := snap mode t k in
  let pos := cfind t1 k (hpart k) i1 i2 in
  match pstatus pos with
  | St_ok =>
    let v := val_at t1 (pindex pos) (pslot pos) in
    let '(v', er) := g v in
    let t2 := set_val t1 (pindex pos) (pslot pos) v' in
    let t3 := if er then del_from_bucket c t2 (pindex pos) (pslot pos) else t2 in
    (t3, Some v)
  | _ => (t1, None)
  end.

(* uprase_fn: returns (table, result) where result = inl exn | inr (inserted, functor log) *)
Definition uprase_gen (mode : bool) (t : table) (k : N) (v : Z) (g : Z -> bool -> option (Z * bool))
  : table * (exn + (bool * list rv * (N * N))) :=
  let '(t1, i1, i2) := snap mode t k in
  match cuckoo_insert_loop c hash (cuckoo_fast_double c hash) mode t1 k i1 i2 insert_loop_fuel with
  | (t2, IL_exn e) => (t2, inl e)
  | (t2, IL_pos pos _ _) =>
    let inserted := match pstatus pos with St_ok => true | _ => false end in
    let t3 := if inserted then add_to_bucket c t2 (pindex pos) (pslot pos) (hpart k) k v else t2 in
    let cur_v := val_at t3 (pindex pos) (pslot pos) in
    match g cur_v inserted with
    | None => (t3, inr (inserted, [], (pindex pos, pslot pos)))
    | Some (v', er) =>
      let t4 := set_val t3 (pindex pos) (pslot pos) v' in
      let t5 := if er then del_from_bucket c t4 (pindex pos) (pslot pos) else t4 in
      (t5, inr (inserted, [RFn cur_v inserted], (pindex pos, pslot pos)))
    end
  end.

(* InvokeUpraseFn: a one-argument functor is not invoked for NEWLY_INSERTED *)
Definition invoke (f : fnk) (two : bool) (keep_erase : bool) : Z -> bool -> option (Z * bool) :=
  fun v newly =>
    if negb two && newly then None
    else let '(v', er) := fapply f v newly in Some (v', keep_erase && er).

Definition exn_out (e : exn) : out := [RExn e].

(* minimum_load_factor(mlf) *)
Definition set_mlf_op (t : table) (a : mlfarg) : table * out :=
  match a with
  | MNaN => (t, exn_out EInvalidArgument)  (* !(mlf >= 0.0) holds for NaN *)
  | MRat neg n d =>
    if d =? 0 then (t, exn_out EUnmodelled)
    else if neg && negb (n =? 0) then (t, exn_out EInvalidArgument)
    else if d <? n then (t, exn_out EInvalidArgument)
    else (set_mlf t n d, [RNone])
  end.

Definition set_mhp_op (t : table) (m : N) : table * out :=
  if m <? hashpower t then (t, exn_out EInvalidArgument) else (set_mhp t m, [RNone]).

(* forward / backward traversal of a locked table, as lists of (key,value) *)
Fixpoint traverse_fwd (t : table) (p : N * N) (n : nat) : list rv :=
  match n with
  | O => []
  | S n' =>
    if (fst p =? fst (end_pos t)) && (snd p =? 0) then []
    else match bget (cur t) (fst p) (snd p) with
         | Some e => RPos (fst p) (snd p) :: RKV (ekey e) (eval e) :: traverse_fwd t (it_next c t p) n'
         | None => [RExn EUnmodelled]
         end
  end.

Fixpoint traverse_bwd (t : table) (p : N * N) (n : nat) : list rv :=
  match n with
  | O => []
  | S n' =>
    if (fst p =? fst (it_begin c t)) && (snd p =? snd (it_begin c t)) then []
    else match it_prev c t p with
         | None => [RExn EUnmodelled]
         | Some p' =>
           match bget (cur t) (fst p') (snd p') with
           | Some e => RPos (fst p') (snd p') :: RKV (ekey e) (eval e) :: traverse_bwd t p' n'
           | None => [RExn EUnmodelled]
           end
         end
  end.

Definition trav_fuel (t : table) : nat := S (N.to_nat (bucket_count t * spb c)).

(* operator<< *)
Definition stream_out (t : table) : image :=
  {| ihp := hashpower t; isl := bsl (cur t); isize := tsize t;
     imlfn := mlfn t; imlfd := mlfd t; imhp := mhp t |}.

(* operator>> on a locked table *)
Definition stream_in (t : table) (im : image) : table * out :=
  let t1 := set_cur t {| bhp := ihp im; bsl := isl im; bdead := false |} in
  let t2 := maybe_resize_locks c t1 (bucket_count t1) in
  let t3 := set_locks t2 (upd_last (map (fun lk => {| cnt := 0%Z; mig := mig lk |})) (locks t2)) in
  let t4 := if 0 <? isize im then upd_cur_lock t3 0 (fun lk => {| cnt := Z.of_N (isize im); mig := mig lk |}) else t3 in
  (* lt.minimum_load_factor(mlf); lt.maximum_hashpower(mhp) : validated setters *)
  let t5 := set_mlf t4 (imlfn im) (imlfd im) in
  let '(t6, o) := set_mhp_op t5 (imhp im) in
  (* lt.bump_resize_counter(): reached only if the validated setter did not throw *)
  match o with
  | [RNone] => (set_rc t6 (wrap64 (rc t6 + 1)), o)
  | _ => (t6, o)
  end.

(* add_locks_from_other *)
Definition add_locks_from_other (t other : table) : table :=
  set_locks t (locks t ++ [cur_locks other]).

Definition moved_from_barray (a : barray) : barray := bdealloc a.

(* element-wise transfer by move (bucket_container move with unequal allocators): the source
   keeps its (now moved-from) elements and its storage *)
Definition husk_all (a : barray) : barray :=
  {| bhp := bhp a; bsl := PositiveMap.map (PositiveMap.map (husk_of c)) (bsl a); bdead := bdead a |}.

Definition get_tab (w : world) (i : nat) : option tslot := nth i (tabs w) None.
Definition put_tab (w : world) (i : nat) (x : option tslot) : world :=
  {| tabs := set_nth i x (tabs w); its := its w; imgs := imgs w |}.
Definition put_t (w : world) (i : nat) (s : tslot) (t : table) : world :=
  put_tab w i (Some {| tb := t; active := active s |}).
Definition get_it_raw (w : world) (r : nat) : option (N * N) := nth r (its w) None.
Definition put_it (w : world) (r : nat) (p : N * N) : world :=
  {| tabs := tabs w; its := set_nth r (Some p) (its w); imgs := imgs w |}.
Definition reset_its (w : world) : world :=
  {| tabs := tabs w; its := map (fun _ => None) (its w); imgs := imgs w |}.

Definition bool_or_exn (r : exn + bool) : out :=
  match r with inl e => exn_out e | inr b => [RBool b] end.

Definition is_end (t : table) (p : N * N) : bool := (fst p =? fst (end_pos t)) && (snd p =? snd (end_pos t)).

(* an iterator register may be used only while it denotes a slot of the current array or end() *)
Definition valid_pos (t : table) (p : N * N) : bool :=
  ((fst p <? bucket_count t) && (snd p <? spb c)) || is_end t p.
Definition get_it (w : world) (t : table) (r : nat) : option (N * N) :=
  match get_it_raw w r with
  | Some p => if valid_pos t p then Some p else None
  | None => None
  end.

(* one operation on table [a] *)
Definition step_some (w : world) (a : nat) (s : tslot) (o : op) : world * out :=
    let t := tb s in
    let normal := negb (active s) in
    let need_normal (r : world * out) := if normal then r else (w, exn_out EUnmodelled) in
    let need_locked (r : world * out) := if active s then r else (w, exn_out EUnmodelled) in
    match o with
    | OFind k => need_normal (
        let '(t1, r) := lookup_fn false t k (fun v => (v, false)) in
        (put_t w a s t1, match r with Some v => [RBool true; RInt v] | None => [RBool false] end))
    | OFindThrow k => need_normal (
        let '(t1, r) := lookup_fn false t k (fun v => (v, false)) in
        (put_t w a s t1, match r with Some v => [RInt v] | None => exn_out EOutOfRange end))
    | OContains k => need_normal (
        let '(t1, r) := lookup_fn false t k (fun v => (v, false)) in
        (put_t w a s t1, [RBool (match r with Some _ => true | None => false end)]))
    | OFindFn k => need_normal (
        let '(t1, r) := lookup_fn false t k (fun v => (v, false)) in
        (put_t w a s t1, match r with Some v => [RBool true; RFn v false] | None => [RBool false] end))
    | OUpdate k v => need_normal (
        let '(t1, r) := lookup_fn false t k (fun _ => (v, false)) in
        (put_t w a s t1, [RBool (match r with Some _ => true | None => false end)]))
    | OUpdateFn k f => need_normal (
        let '(t1, r) := lookup_fn false t k (fun v => (fst (fapply f v false), false)) in
        (put_t w a s t1, match r with Some v => [RBool true; RFn v false] | None => [RBool false] end))
    | OErase k => need_normal (
        let '(t1, r) := lookup_fn false t k (fun v => (v, true)) in
        (put_t w a s t1, [RBool (match r with Some _ => true | None => false end)]))
    | OEraseFn k f => need_normal (
        let '(t1, r) := lookup_fn false t k (fun v => fapply f v false) in
        (put_t w a s t1, match r with Some v => [RBool true; RFn v false] | None => [RBool false] end))
    | OInsert k v => need_normal (
        match uprase_gen false t k v (fun _ _ => None) with
        | (t1, inl e) => (put_t w a s t1, exn_out e)
        | (t1, inr (ins, _, _)) => (put_t w a s t1, [RBool ins])
        end)
    | OIoa k v => need_normal (
        match uprase_gen false t k v (fun _ newly => if newly then None else Some (v, false)) with
        | (t1, inl e) => (put_t w a s t1, exn_out e)
        | (t1, inr (ins, _, _)) => (put_t w a s t1, [RBool ins])
        end)
    | OUpsert k f two v => need_normal (
        match uprase_gen false t k v (invoke f two false) with
        | (t1, inl e) => (put_t w a s t1, exn_out e)
        | (t1, inr (ins, lg, _)) => (put_t w a s t1, RBool ins :: lg)
        end)
    | OUprase k f two v => need_normal (
        match uprase_gen false t k v (invoke f two true) with
        | (t1, inl e) => (put_t w a s t1, exn_out e)
        | (t1, inr (ins, lg, _)) => (put_t w a s t1, RBool ins :: lg)
        end)
    | ORehash n => need_normal (let '(t1, r) := cuckoo_rehash c hash false t n in (put_t w a s t1, bool_or_exn r))
    | OReserve n => need_normal (let '(t1, r) := cuckoo_reserve c hash false t n in (put_t w a s t1, bool_or_exn r))
    | OClear => need_normal (put_t w a s (cuckoo_clear t), [RNone])
    | OMlf x => let '(t1, r) := set_mlf_op t x in (put_t w a s t1, r)
    | OMhp m => let '(t1, r) := set_mhp_op t m in (put_t w a s t1, r)
    | OWorkers n => (put_t w a s (set_workers t n), [RNone])
    | OLock => need_normal (reset_its (put_tab w a (Some {| tb := rehash_with_workers c hash t; active := true |})), [RNone])
    | OUnlock => need_locked (put_tab w a (Some {| tb := t; active := false |}), [RNone])
    | LInsert k v => need_locked (
        match uprase_gen true t k v (fun _ _ => None) with
        | (t1, inl e) => (put_t w a s t1, exn_out e)
        | (t1, inr (ins, _, p)) => (put_t w a s t1, [RPos (fst p) (snd p); RBool ins])
        end)
    | LIdx k => need_locked (
        match uprase_gen true t k 0%Z (fun _ _ => None) with
        | (t1, inl e) => (put_t w a s t1, exn_out e)
        | (t1, inr (_, _, p)) => (put_t w a s t1, [RInt (val_at t1 (fst p) (snd p))])
        end)
    | LEraseKey k => need_locked (
        let '(t1, r) := lookup_fn true t k (fun v => (v, true)) in
        (put_t w a s t1, [RNat (match r with Some _ => 1 | None => 0 end)]))
    | LEraseIt r dst => need_locked (
        match get_it w t r with None => (w, exn_out EUnmodelled) | Some p =>
        if occupied (cur t) (fst p) (snd p) then
          let t1 := del_from_bucket c t (fst p) (snd p) in
          let p' := it_make c t1 p in
          (put_it (put_t w a s t1) dst p', [RPos (fst p') (snd p')])
        else (w, exn_out EUnmodelled) end)
    | LFind k r => need_locked (
        let '(t1, i1, i2) := snap true t k in
        let pos := cfind t1 k (hpart k) i1 i2 in
        let p := match pstatus pos with St_ok => (pindex pos, pslot pos) | _ => it_end t1 end in
        (put_it w r p, [RPos (fst p) (snd p)]))
    | LAt k => need_locked (
        let '(t1, r) := lookup_fn true t k (fun v => (v, false)) in
        (w, match r with Some v => [RInt v] | None => exn_out EOutOfRange end))
    | LCount k => need_locked (
        let '(t1, r) := lookup_fn true t k (fun v => (v, false)) in
        (w, [RNat (match r with Some _ => 1 | None => 0 end)]))
    | LRange k => need_locked (
        let '(t1, i1, i2) := snap true t k in
        let pos := cfind t1 k (hpart k) i1 i2 in
        match pstatus pos with
        | St_ok => let p := (pindex pos, pslot pos) in let q := it_next c t p in
                   (w, [RPos (fst p) (snd p); RPos (fst q) (snd q)])
        | _ => let e := it_end t in (w, [RPos (fst e) (snd e); RPos (fst e) (snd e)])
        end)
    | LRehash n => need_locked (let '(t1, r) := cuckoo_rehash c hash true t n in
                                (put_t w a s t1, match r with inl e => exn_out e | inr _ => [RNone] end))
    | LReserve n => need_locked (let '(t1, r) := cuckoo_reserve c hash true t n in
                                 (put_t w a s t1, match r with inl e => exn_out e | inr _ => [RNone] end))
    | LClear => need_locked (put_t w a s (cuckoo_clear t), [RNone])
    | ItBegin r => need_locked (let p := it_begin c t in (put_it w r p, [RPos (fst p) (snd p)]))
    | ItEnd r => need_locked (let p := it_end t in (put_it w r p, [RPos (fst p) (snd p)]))
    | ItInc r => need_locked (
        match get_it w t r with None => (w, exn_out EUnmodelled) | Some p =>
        if is_end t p then (w, exn_out EUnmodelled)
        else let q := it_next c t p in (put_it w r q, [RPos (fst q) (snd q)]) end)
    | ItDec r => need_locked (
        match get_it w t r with None => (w, exn_out EUnmodelled) | Some p =>
        match it_prev c t p with
        | Some q => (put_it w r q, [RPos (fst q) (snd q)])
        | None => (w, exn_out EUnmodelled)
        end end)
    | ItGet r => need_locked (
        match get_it w t r with None => (w, exn_out EUnmodelled) | Some p =>
        match bget (cur t) (fst p) (snd p) with
        | Some e => (w, [RKV (ekey e) (eval e)])
        | None => (w, exn_out EUnmodelled)
        end end)
    | ItSet r v => need_locked (
        match get_it w t r with None => (w, exn_out EUnmodelled) | Some p =>
        if occupied (cur t) (fst p) (snd p) then (put_t w a s (set_val t (fst p) (snd p) v), [RNone])
        else (w, exn_out EUnmodelled) end)
    | ItEq r1 r2 => need_locked (
        match get_it_raw w r1, get_it_raw w r2 with
        | Some p, Some q => (w, [RBool ((fst p =? fst q) && (snd p =? snd q))])
        | _, _ => (w, exn_out EUnmodelled)
        end)
    | LTraverse => need_locked (w, traverse_fwd t (it_begin c t) (trav_fuel t))
    | LRTraverse => need_locked (w, traverse_bwd t (it_end t) (trav_fuel t))
    | StreamOut si => need_locked (
        ({| tabs := tabs w; its := its w; imgs := set_nth si (Some (stream_out t)) (imgs w) |}, [RNone]))
    | StreamIn si => need_locked (
        match nth si (imgs w) None with
        | None => (w, exn_out EUnmodelled)
        | Some im => let '(t1, r) := stream_in t im in (reset_its (put_t w a s t1), r)
        end)
    | ODestroy => need_normal (put_tab w a None, [RNone])
    | OCopyTo b =>
        match get_tab w b with
        | Some _ => (w, exn_out EUnmodelled)
        | None => (put_tab w b (Some {| tb := t; active := false |}), [RNone])
        end
    | OMoveTo b =>
        match get_tab w b with
        | Some _ => (w, exn_out EUnmodelled)
        | None =>
          (* defaulted move constructor: bucket arrays are stolen, the lock list is moved (source list
             becomes empty), atomics are copied *)
          let src := set_locks (set_old (set_cur t (moved_from_barray (cur t))) (moved_from_barray (old t))) [] in
          (put_tab (put_t w a s src) b (Some {| tb := t; active := false |}), [RNone])
        end
    | OAssignTo b =>
        match get_tab w b with
        | None => (w, exn_out EUnmodelled)
        | Some sb =>
          if Nat.eqb a b then
            (* self copy-assignment: bucket_container::operator= destroys its own array first *)
            (w, exn_out EUnmodelled)
          else (put_tab w b (Some {| tb := t; active := active sb |}), [RNone])
        end
    | OMoveAssignTo b =>
        match get_tab w b with
        | None => (w, exn_out EUnmodelled)
        | Some sb =>
          if Nat.eqb a b then (w, exn_out EUnmodelled) else
          let src := set_locks (set_old (set_cur t (moved_from_barray (cur t))) (moved_from_barray (old t))) [] in
          (put_tab (put_t w a s src) b (Some {| tb := t; active := active sb |}), [RNone])
        end
    | OSwap b =>
        match get_tab w b with
        | None => (w, exn_out EUnmodelled)
        | Some sb =>
          let u := tb sb in
          (* swap(): hash_fn_, eq_fn_, buckets_, old_buckets_, all_locks_, the lazy-rehash counter,
             minimum_load_factor_, maximum_hashpower_, max_num_worker_threads_, resize_counter_ *)
          let t' := {| cur := cur u; old := old u; locks := locks u; nrem := nrem u; rc := rc u;
                       mlfn := mlfn u; mlfd := mlfd u; mhp := mhp u; workers := workers u |} in
          let u' := {| cur := cur t; old := old t; locks := locks t; nrem := nrem t; rc := rc t;
                       mlfn := mlfn t; mlfd := mlfd t; mhp := mhp t; workers := workers t |} in
          if Nat.eqb a b then (w, [RNone])
          else (put_tab (put_t w a s t') b (Some {| tb := u'; active := active sb |}), [RNone])
        end
    | OCopyAllocTo b eq =>
        match get_tab w b with
        | Some _ => (w, exn_out EUnmodelled)
        | None =>
          let t' := if eq then t else add_locks_from_other (set_locks t []) t in
          (put_tab w b (Some {| tb := t'; active := false |}), [RNone])
        end
    | OMoveAllocTo b eq =>
        match get_tab w b with
        | Some _ => (w, exn_out EUnmodelled)
        | None =>
          if eq then
            let src := set_locks (set_old (set_cur t (moved_from_barray (cur t))) (moved_from_barray (old t))) [] in
            (put_tab (put_t w a s src) b (Some {| tb := t; active := false |}), [RNone])
          else
            (* unequal allocators: elements are moved one by one into fresh arrays; the source keeps
               its arrays (holding moved-from elements) and its lock list *)
            let src := set_old (set_cur t (husk_all (cur t))) (husk_all (old t)) in
            let dst := add_locks_from_other (set_locks t []) t in
            (put_tab (put_t w a s src) b (Some {| tb := dst; active := false |}), [RNone])
        end
    | ONew _ => (w, exn_out EUnmodelled)
    end.

Definition step (w : world) (a : nat) (o : op) : world * out :=
  match get_tab w a with
  | None =>
    match o with
    | ONew n => (put_tab w a (Some {| tb := new_table c n; active := false |}), [RNone])
    | _ => (w, exn_out EUnmodelled)
    end
  | Some s => step_some w a s o
  end.

End Step.

Definition init_world : world :=
  {| tabs := repeat None 4; its := repeat None 4; imgs := repeat None 4 |}.
