(* Codec.v: machine-checked facts about the file format of the C wrapper (CApi.v):
   little-endian encoding, two's-complement ints, record/file round trips, and the
   truncation theorem of property C14 (every strict prefix of a written file fails to decode). *)
From Coq Require Import NArith ZArith List Bool Lia Arith.
From LC Require Import CApi.
Import ListNotations.
Local Open Scope N_scope.

Ltac Zify.zify_post_hook ::= Z.div_mod_to_equations.

(* ------------------------------------------------------------------ ranges *)
Definition key_ok (k : N) : Prop := k < 2 ^ 32.
Definition int_ok (z : Z) : Prop := (-2147483648 <= z < 2147483648)%Z.
Definition pair_ok (kv : N * Z) : Prop := key_ok (fst kv) /\ int_ok (snd kv).

(* ------------------------------------------------------------------ 1. little endian *)
Lemma le_bytes_length : forall n x, length (le_bytes n x) = n.
Proof.
  induction n as [|n IH]; intros x; cbn [le_bytes length].
  - reflexivity.
  - now rewrite IH.
Qed.

Lemma le_bytes_lt : forall n x, Forall (fun b => b < 256) (le_bytes n x).
Proof.
  induction n as [|n IH]; intros x; cbn [le_bytes].
  - constructor.
  - constructor.
    + apply N.mod_lt. discriminate.
    + apply IH.
Qed.

Lemma pow256_succ : forall n, 256 ^ N.of_nat (S n) = 256 * 256 ^ N.of_nat n.
Proof.
  intros n. rewrite Nat2N.inj_succ. apply N.pow_succ_r'.
Qed.

Lemma le_value_le_bytes : forall n x, x < 256 ^ N.of_nat n -> le_value (le_bytes n x) = x.
Proof.
  induction n as [|n IH]; intros x Hx.
  - cbn [le_bytes le_value]. change (256 ^ N.of_nat 0) with 1 in Hx. lia.
  - cbn [le_bytes le_value].
    rewrite pow256_succ in Hx.
    assert (Hq : x / 256 < 256 ^ N.of_nat n).
    { apply N.div_lt_upper_bound; [discriminate | exact Hx]. }
    rewrite (IH _ Hq).
    pose proof (N.div_mod x 256 ltac:(discriminate)) as Hdm.
    lia.
Qed.

(* the general form: decoding always yields the value modulo 256^n *)
Lemma le_value_le_bytes_mod : forall n x, le_value (le_bytes n x) = x mod 256 ^ N.of_nat n.
Proof.
  induction n as [|n IH]; intros x.
  - cbn [le_bytes le_value]. change (256 ^ N.of_nat 0) with 1. now rewrite N.mod_1_r.
  - cbn [le_bytes le_value]. rewrite IH, pow256_succ.
    assert (Hp : 256 ^ N.of_nat n <> 0) by (apply N.pow_nonzero; discriminate).
    rewrite (N.mod_mul_r x 256 (256 ^ N.of_nat n)) by (discriminate || exact Hp).
    reflexivity.
Qed.

Theorem le_roundtrip : forall n x,
  length (le_bytes n x) = n /\
  Forall (fun b => b < 256) (le_bytes n x) /\
  (x < 256 ^ N.of_nat n -> le_value (le_bytes n x) = x).
Proof.
  intros n x. split; [apply le_bytes_length|]. split; [apply le_bytes_lt|].
  apply le_value_le_bytes.
Qed.

(* ------------------------------------------------------------------ 2. ints *)
Lemma int_to_u32_lt : forall z, int_to_u32 z < 2 ^ 32.
Proof.
  intros z. unfold int_to_u32. change (2 ^ 32) with 4294967296.
  pose proof (Z.mod_pos_bound z 4294967296 ltac:(reflexivity)) as Hb.
  remember (z mod 4294967296)%Z as m eqn:Hm. clear Hm. lia.
Qed.

Lemma u32_int_roundtrip : forall z, int_ok z -> u32_to_int (int_to_u32 z) = z.
Proof.
  intros z Hz. unfold int_ok in Hz. unfold u32_to_int, int_to_u32.
  assert (Hm : (z mod 4294967296 = if z <? 0 then z + 4294967296 else z)%Z).
  { destruct (Z.ltb_spec z 0) as [Hn|Hn].
    - symmetry. apply (Z.mod_unique_pos z 4294967296 (-1) (z + 4294967296)); lia.
    - apply Z.mod_small. lia. }
  rewrite Hm. clear Hm.
  destruct (Z.ltb_spec z 0) as [Hn|Hn].
  - destruct (N.ltb_spec (Z.to_N (z + 4294967296)) 2147483648) as [Hl|Hl]; lia.
  - destruct (N.ltb_spec (Z.to_N z) 2147483648) as [Hl|Hl]; lia.
Qed.

Theorem int_roundtrip : forall z, int_ok z ->
  u32_to_int (int_to_u32 z) = z /\ int_to_u32 z < 2 ^ 32.
Proof.
  intros z Hz. split; [now apply u32_int_roundtrip | apply int_to_u32_lt].
Qed.

(* ------------------------------------------------------------------ take_bytes *)
Lemma firstn_length_app : forall (A : Type) (a b : list A), firstn (length a) (a ++ b) = a.
Proof.
  intros A a b. induction a as [|x a IH]; cbn [length app firstn].
  - destruct b; reflexivity.
  - now rewrite IH.
Qed.

Lemma skipn_length_app : forall (A : Type) (a b : list A), skipn (length a) (a ++ b) = b.
Proof.
  intros A a b. induction a as [|x a IH]; cbn [length app skipn].
  - reflexivity.
  - exact IH.
Qed.

Lemma take_bytes_app : forall n a b, length a = n -> take_bytes n (a ++ b) = Some (a, b).
Proof.
  intros n a b Hl. subst n. unfold take_bytes.
  assert (Hle : Nat.leb (length a) (length (a ++ b)) = true).
  { apply Nat.leb_le. rewrite app_length. lia. }
  rewrite Hle, firstn_length_app, skipn_length_app. reflexivity.
Qed.

Lemma take_bytes_short : forall n bs, (length bs < n)%nat -> take_bytes n bs = None.
Proof.
  intros n bs Hl. unfold take_bytes.
  assert (Hle : Nat.leb n (length bs) = false) by (apply Nat.leb_gt; exact Hl).
  now rewrite Hle.
Qed.

Lemma take_bytes_long : forall n bs, (n <= length bs)%nat ->
  take_bytes n bs = Some (firstn n bs, skipn n bs).
Proof.
  intros n bs Hl. unfold take_bytes.
  assert (Hle : Nat.leb n (length bs) = true) by (apply Nat.leb_le; exact Hl).
  now rewrite Hle.
Qed.

(* ------------------------------------------------------------------ 3. one record *)
Lemma decode_records_S : forall n bs,
  decode_records (S n) bs =
  match take_bytes 4 bs with
  | None => None
  | Some (kb, r1) =>
    match take_bytes 4 r1 with
    | None => None
    | Some (vb, r2) =>
      match decode_records n r2 with
      | None => None
      | Some ps => Some ((le_value kb, u32_to_int (le_value vb)) :: ps)
      end
    end
  end.
Proof. reflexivity. Qed.

Lemma encode_pair_length : forall kv, length (encode_pair kv) = 8%nat.
Proof.
  intros kv. unfold encode_pair. rewrite app_length, !le_bytes_length. reflexivity.
Qed.

Lemma pow256_4 : 256 ^ N.of_nat 4 = 2 ^ 32.
Proof. reflexivity. Qed.

Lemma pow256_8 : 256 ^ N.of_nat 8 = 2 ^ 64.
Proof. reflexivity. Qed.

(* one record step over an encoded pair followed by anything *)
Lemma decode_records_cons : forall n k z rest,
  key_ok k -> int_ok z ->
  decode_records (S n) (encode_pair (k, z) ++ rest) =
  match decode_records n rest with
  | None => None
  | Some ps => Some ((k, z) :: ps)
  end.
Proof.
  intros n k z rest Hk Hz. rewrite decode_records_S.
  unfold encode_pair. cbn [fst snd]. rewrite <- app_assoc.
  rewrite (take_bytes_app 4 (le_bytes 4 k)) by apply le_bytes_length.
  rewrite (take_bytes_app 4 (le_bytes 4 (int_to_u32 z))) by apply le_bytes_length.
  rewrite (le_value_le_bytes 4 k) by (rewrite pow256_4; exact Hk).
  rewrite (le_value_le_bytes 4 (int_to_u32 z)) by (rewrite pow256_4; apply int_to_u32_lt).
  rewrite (u32_int_roundtrip z Hz). reflexivity.
Qed.

Theorem pair_roundtrip : forall k z, key_ok k -> int_ok z ->
  length (encode_pair (k, z)) = 8%nat /\
  decode_records 1 (encode_pair (k, z)) = Some [(k, z)] /\
  (forall rest, decode_records 1 (encode_pair (k, z) ++ rest) = Some [(k, z)]).
Proof.
  intros k z Hk Hz. split; [apply encode_pair_length|].
  assert (H : forall rest, decode_records 1 (encode_pair (k, z) ++ rest) = Some [(k, z)]).
  { intros rest. rewrite (decode_records_cons 0 k z rest Hk Hz). reflexivity. }
  split; [|exact H].
  specialize (H []). rewrite app_nil_r in H. exact H.
Qed.

(* ------------------------------------------------------------------ 6. lengths *)
Lemma flat_map_encode_length : forall ps, length (flat_map encode_pair ps) = (8 * length ps)%nat.
Proof.
  induction ps as [|kv ps IH]; cbn [flat_map length].
  - reflexivity.
  - rewrite app_length, encode_pair_length, IH. lia.
Qed.

Theorem encode_length : forall cnt ps,
  length (encode_file cnt ps) = (8 + 8 * length ps)%nat.
Proof.
  intros cnt ps. unfold encode_file.
  rewrite app_length, le_bytes_length, flat_map_encode_length. reflexivity.
Qed.

(* ------------------------------------------------------------------ 4. whole file *)
Lemma decode_records_encode : forall ps extra,
  Forall pair_ok ps ->
  decode_records (length ps) (flat_map encode_pair ps ++ extra) = Some ps.
Proof.
  induction ps as [|[k z] ps IH]; intros extra Hok.
  - reflexivity.
  - inversion Hok as [|kv ps' Hkv Hps]; subst.
    destruct Hkv as [Hk Hz]. cbn [fst snd] in Hk, Hz.
    cbn [flat_map length]. rewrite <- app_assoc.
    rewrite (decode_records_cons (length ps) k z _ Hk Hz).
    rewrite (IH extra Hps). reflexivity.
Qed.

Theorem decode_encode_extra : forall ps extra,
  Forall pair_ok ps ->
  N.of_nat (length ps) < 2 ^ 64 ->
  decode_file (encode_file (N.of_nat (length ps)) ps ++ extra)
  = Some (N.of_nat (length ps), ps).
Proof.
  intros ps extra Hok Hcnt. unfold decode_file, encode_file.
  rewrite <- app_assoc.
  rewrite (take_bytes_app 8 (le_bytes 8 (N.of_nat (length ps)))) by apply le_bytes_length.
  rewrite (le_value_le_bytes 8 (N.of_nat (length ps))) by (rewrite pow256_8; exact Hcnt).
  rewrite Nat2N.id.
  rewrite (decode_records_encode ps extra Hok). reflexivity.
Qed.

Theorem decode_encode : forall ps,
  Forall pair_ok ps ->
  N.of_nat (length ps) < 2 ^ 64 ->
  decode_file (encode_file (N.of_nat (length ps)) ps) = Some (N.of_nat (length ps), ps).
Proof.
  intros ps Hok Hcnt.
  pose proof (decode_encode_extra ps [] Hok Hcnt) as H.
  rewrite app_nil_r in H. exact H.
Qed.

(* ------------------------------------------------------------------ 5. truncation *)
Lemma decode_records_short : forall n bs,
  (length bs < 8 * n)%nat -> decode_records n bs = None.
Proof.
  induction n as [|n IH]; intros bs Hl.
  - lia.
  - rewrite decode_records_S.
    destruct (le_lt_dec 4 (length bs)) as [H4|H4].
    + rewrite (take_bytes_long 4 bs H4).
      assert (Hs1 : length (skipn 4 bs) = (length bs - 4)%nat) by apply skipn_length.
      destruct (le_lt_dec 4 (length (skipn 4 bs))) as [H8|H8].
      * rewrite (take_bytes_long 4 _ H8).
        assert (Hs2 : length (skipn 4 (skipn 4 bs)) = (length (skipn 4 bs) - 4)%nat)
          by apply skipn_length.
        rewrite (IH (skipn 4 (skipn 4 bs))) by lia. reflexivity.
      * rewrite (take_bytes_short 4 _ H8). reflexivity.
    + rewrite (take_bytes_short 4 bs H4). reflexivity.
Qed.

Lemma decode_records_long : forall n bs,
  (8 * n <= length bs)%nat -> decode_records n bs <> None.
Proof.
  induction n as [|n IH]; intros bs Hl.
  - cbn [decode_records]. discriminate.
  - rewrite decode_records_S.
    assert (Hs1 : length (skipn 4 bs) = (length bs - 4)%nat) by apply skipn_length.
    assert (Hs2 : length (skipn 4 (skipn 4 bs)) = (length (skipn 4 bs) - 4)%nat)
      by apply skipn_length.
    rewrite (take_bytes_long 4 bs) by lia.
    rewrite (take_bytes_long 4 (skipn 4 bs)) by lia.
    specialize (IH (skipn 4 (skipn 4 bs)) ltac:(lia)).
    destruct (decode_records n (skipn 4 (skipn 4 bs))) as [ps|].
    + discriminate.
    + now contradiction IH.
Qed.

(* the record loop succeeds exactly when enough bytes remain *)
Corollary decode_records_None_iff : forall n bs,
  decode_records n bs = None <-> (length bs < 8 * n)%nat.
Proof.
  intros n bs. split.
  - intros Hn. destruct (le_lt_dec (8 * n) (length bs)) as [Hge|Hlt]; [|exact Hlt].
    exfalso. exact (decode_records_long n bs Hge Hn).
  - apply decode_records_short.
Qed.

(* truncation depends only on the count field being intact, not on the pair ranges *)
Lemma prefix_fails_gen : forall cnt (recs : list N) j,
  cnt < 2 ^ 64 ->
  length recs = (8 * N.to_nat cnt)%nat ->
  (j < 8 + length recs)%nat ->
  decode_file (firstn j (le_bytes 8 cnt ++ recs)) = None.
Proof.
  intros cnt recs j Hcnt Hrecs Hj. unfold decode_file.
  destruct (le_lt_dec 8 j) as [H8|H8].
  - rewrite firstn_app, le_bytes_length.
    rewrite (firstn_all2 (le_bytes 8 cnt)) by (rewrite le_bytes_length; exact H8).
    rewrite (take_bytes_app 8 (le_bytes 8 cnt)) by apply le_bytes_length.
    rewrite (le_value_le_bytes 8 cnt) by (rewrite pow256_8; exact Hcnt).
    rewrite decode_records_short; [reflexivity|].
    rewrite firstn_length. lia.
  - rewrite take_bytes_short; [reflexivity|].
    rewrite firstn_length. lia.
Qed.

Theorem prefix_fails : forall ps j,
  Forall pair_ok ps ->
  N.of_nat (length ps) < 2 ^ 64 ->
  (j < length (encode_file (N.of_nat (length ps)) ps))%nat ->
  decode_file (firstn j (encode_file (N.of_nat (length ps)) ps)) = None.
Proof.
  intros ps j _ Hcnt Hj. rewrite encode_length in Hj. unfold encode_file.
  apply prefix_fails_gen.
  - exact Hcnt.
  - rewrite Nat2N.id. apply flat_map_encode_length.
  - rewrite flat_map_encode_length. exact Hj.
Qed.

(* the same statement phrased with an explicit prefix/suffix split *)
Corollary prefix_fails_app : forall ps p q,
  Forall pair_ok ps ->
  N.of_nat (length ps) < 2 ^ 64 ->
  encode_file (N.of_nat (length ps)) ps = p ++ q ->
  q <> [] ->
  decode_file p = None.
Proof.
  intros ps p q Hok Hcnt Heq Hq.
  assert (Hp : p = firstn (length p) (encode_file (N.of_nat (length ps)) ps)).
  { rewrite Heq. symmetry. apply firstn_length_app. }
  rewrite Hp. apply prefix_fails; [exact Hok | exact Hcnt |].
  rewrite Heq, app_length. destruct q as [|b q]; [now contradiction Hq|].
  cbn [length]. lia.
Qed.

(* ------------------------------------------------------------------ 7. non-vacuity *)
Definition ex_pairs : list (N * Z) := [(7, (-3)%Z); (4294967295, 2147483647%Z)].

Example ex_pairs_ok : Forall pair_ok ex_pairs /\ N.of_nat (length ex_pairs) < 2 ^ 64.
Proof.
  split.
  - repeat constructor; cbn [fst snd]; unfold key_ok; try reflexivity; lia.
  - reflexivity.
Qed.

Example ex_file_bytes :
  encode_file 2 ex_pairs =
  [2;0;0;0;0;0;0;0; 7;0;0;0; 253;255;255;255; 255;255;255;255; 255;255;255;127].
Proof. vm_compute. reflexivity. Qed.

Example ex_decodes : decode_file (encode_file 2 ex_pairs) = Some (2, ex_pairs).
Proof. vm_compute. reflexivity. Qed.

Example ex_prefix23_fails : decode_file (firstn 23 (encode_file 2 ex_pairs)) = None.
Proof. vm_compute. reflexivity. Qed.

Example ex_prefix7_fails : decode_file (firstn 7 (encode_file 2 ex_pairs)) = None.
Proof. vm_compute. reflexivity. Qed.

(* out-of-range inputs do NOT round-trip: the range hypotheses are necessary *)
Example ex_key_out_of_range :
  decode_file (encode_file 1 [(4294967296, 0%Z)]) = Some (1, [(0, 0%Z)]).
Proof. vm_compute. reflexivity. Qed.

Example ex_val_out_of_range :
  decode_file (encode_file 1 [(1, 2147483648%Z)]) = Some (1, [(1, (-2147483648)%Z)]).
Proof. vm_compute. reflexivity. Qed.

(* a count that disagrees with the number of records: too small silently drops records,
   too large is a short read *)
Example ex_count_small : decode_file (encode_file 1 ex_pairs) = Some (1, [(7, (-3)%Z)]).
Proof. vm_compute. reflexivity. Qed.

Example ex_count_large : decode_file (encode_file 3 ex_pairs) = None.
Proof. vm_compute. reflexivity. Qed.
