(* L1 proofs: the locked_table iterator model (it_begin, it_next, it_prev, it_make in Core) and the traversals (traverse_fwd, traverse_bwd in Api).

   Everything is stated against  occ := occ_list c (cur t),  the occupied positions of the
   current bucket array in iteration (lexicographic (bucket, slot)) order.

   Hypotheses used:  0 < spb c  and  hashpower t < 62  (so bucket_count t = 2 ^ hashpower t).
   The range hypothesis (every stored element sits at an in-range position) is NOT needed for
   the iterator theorems, because the iterator only ever looks at in-range positions and
   occ_list only lists in-range positions; it is needed only for in_occ_iff_occupied. *)
From Coq Require Import NArith ZArith List Bool Lia ZifyN ZifyNat ZifyBool Sorted FMapPositive.
From LC Require Import gen.HashGen Bits Core Api InvDefs.
Import ListNotations.
Local Open Scope N_scope.

(* ------------------------------------------------------------------ generic list lemmas *)
Section ListLemmas.
Context {A : Type}.
Variable R : A -> A -> Prop.

Lemma SSorted_app (l1 l2 : list A) :
  StronglySorted R l1 -> StronglySorted R l2 ->
  (forall x y, In x l1 -> In y l2 -> R x y) -> StronglySorted R (l1 ++ l2).
Proof.
  intros H1 H2 H. induction l1 as [|x l1 IH]; cbn [app]; [exact H2|].
  apply StronglySorted_inv in H1. destruct H1 as [Hs Hf].
  constructor.
  - apply IH; [exact Hs|]. intros x0 y Hx Hy. apply H; [right; exact Hx|exact Hy].
  - apply Forall_app. split; [exact Hf|]. apply Forall_forall. intros y Hy.
    apply H; [left; reflexivity|exact Hy].
Qed.

Lemma SSorted_app_inv (l1 l2 : list A) :
  StronglySorted R (l1 ++ l2) ->
  StronglySorted R l1 /\ StronglySorted R l2 /\ (forall x y, In x l1 -> In y l2 -> R x y).
Proof.
  induction l1 as [|x l1 IH]; cbn [app]; intro H.
  - split; [constructor|]. split; [exact H|]. intros x y [].
  - apply StronglySorted_inv in H. destruct H as [Hs Hf].
    destruct (IH Hs) as [I1 [I2 I3]].
    apply Forall_app in Hf. destruct Hf as [Hf1 Hf2].
    split; [constructor; assumption|]. split; [exact I2|].
    intros x0 y [<-|Hx] Hy.
    + rewrite Forall_forall in Hf2. apply Hf2. exact Hy.
    + apply I3; assumption.
Qed.

Lemma SSorted_filter (f : A -> bool) (l : list A) :
  StronglySorted R l -> StronglySorted R (filter f l).
Proof.
  induction 1 as [|x l Hs IH Hf]; cbn [filter]; [constructor|].
  destruct (f x); [|exact IH].
  constructor; [exact IH|].
  rewrite Forall_forall in *. intros y Hy. apply filter_In in Hy. apply Hf. apply Hy.
Qed.

Lemma SSorted_map {B : Type} (S : B -> B -> Prop) (g : A -> B) (l : list A) :
  (forall x y, R x y -> S (g x) (g y)) -> StronglySorted R l -> StronglySorted S (map g l).
Proof.
  intro Hg. induction 1 as [|x l Hs IH Hf]; cbn [map]; [constructor|].
  constructor; [exact IH|].
  rewrite Forall_forall in *. intros y Hy. apply in_map_iff in Hy.
  destruct Hy as [z [<- Hz]]. apply Hg. apply Hf. exact Hz.
Qed.

Lemma SSorted_NoDup (l : list A) :
  (forall x, ~ R x x) -> StronglySorted R l -> NoDup l.
Proof.
  intro Hirr. induction 1 as [|x l Hs IH Hf]; constructor; [|exact IH].
  intro Hin. rewrite Forall_forall in Hf. exact (Hirr x (Hf x Hin)).
Qed.

End ListLemmas.

Section ListLemmas2.
Context {A : Type}.

Lemma filter_all_true (f : A -> bool) (l : list A) :
  (forall x, In x l -> f x = true) -> filter f l = l.
Proof.
  induction l as [|x l IH]; intro H; cbn [filter]; [reflexivity|].
  rewrite (H x (or_introl eq_refl)). f_equal. apply IH. intros y Hy. apply H. right. exact Hy.
Qed.

Lemma filter_all_false (f : A -> bool) (l : list A) :
  (forall x, In x l -> f x = false) -> filter f l = [].
Proof.
  induction l as [|x l IH]; intro H; cbn [filter]; [reflexivity|].
  rewrite (H x (or_introl eq_refl)). apply IH. intros y Hy. apply H. right. exact Hy.
Qed.

Lemma filter_filter (f g : A -> bool) (l : list A) :
  filter f (filter g l) = filter (fun x => g x && f x) l.
Proof.
  induction l as [|x l IH]; cbn [filter]; [reflexivity|].
  destruct (g x); cbn [andb filter]; [destruct (f x)|]; rewrite IH; reflexivity.
Qed.

Lemma filter_len_le (f : A -> bool) (l : list A) : (length (filter f l) <= length l)%nat.
Proof.
  induction l as [|x l IH]; cbn [filter length]; [lia|].
  destruct (f x); cbn [length]; lia.
Qed.

End ListLemmas2.

Lemma seq_sorted (n a : nat) : StronglySorted lt (seq a n).
Proof.
  revert a. induction n as [|n IH]; intro a; cbn [seq]; constructor; [apply IH|].
  apply Forall_forall. intros y Hy. apply in_seq in Hy. lia.
Qed.

(* ------------------------------------------------------------------ lexicographic order *)
Definition lex_lt (p q : N * N) : Prop := fst p < fst q \/ (fst p = fst q /\ snd p < snd q).
Definition lex_le (p q : N * N) : Prop := fst p < fst q \/ (fst p = fst q /\ snd p <= snd q).
Definition lex_ltb (p q : N * N) : bool :=
  (fst p <? fst q) || ((fst p =? fst q) && (snd p <? snd q)).
Definition lex_leb (p q : N * N) : bool :=
  (fst p <? fst q) || ((fst p =? fst q) && (snd p <=? snd q)).

Lemma lex_ltb_spec p q : lex_ltb p q = true <-> lex_lt p q.
Proof. unfold lex_ltb, lex_lt. lia. Qed.
Lemma lex_leb_spec p q : lex_leb p q = true <-> lex_le p q.
Proof. unfold lex_leb, lex_le. lia. Qed.
Lemma lex_ltb_false p q : lex_ltb p q = false <-> lex_le q p.
Proof. unfold lex_ltb, lex_le. lia. Qed.
Lemma lex_leb_false p q : lex_leb p q = false <-> lex_lt q p.
Proof. unfold lex_leb, lex_lt. lia. Qed.

Lemma lex_lt_irrefl p : ~ lex_lt p p.
Proof. unfold lex_lt. lia. Qed.
Lemma lex_lt_trans p q r : lex_lt p q -> lex_lt q r -> lex_lt p r.
Proof. unfold lex_lt. lia. Qed.
Lemma lex_le_antisym p q : lex_le p q -> lex_le q p -> p = q.
Proof. destruct p, q. unfold lex_le. cbn [fst snd]. intros H1 H2. f_equal; lia. Qed.
Lemma lex_lt_le p q : lex_lt p q -> lex_le p q.
Proof. unfold lex_lt, lex_le. lia. Qed.
Lemma lex_le_lt_or_eq p q : lex_le p q -> lex_lt p q \/ p = q.
Proof.
  destruct p as [pb ps], q as [qb qs]. unfold lex_le, lex_lt. cbn [fst snd]. intro H.
  destruct (N.eq_dec pb qb) as [Eb|Nb]; [destruct (N.eq_dec ps qs) as [Es|Ns]|].
  - right. congruence.
  - left. lia.
  - left. lia.
Qed.
Lemma lex_lt_not_le p q : lex_lt p q -> ~ lex_le q p.
Proof. unfold lex_lt, lex_le. lia. Qed.
Lemma lex_le_lt_trans p q r : lex_le p q -> lex_lt q r -> lex_lt p r.
Proof. unfold lex_lt, lex_le. lia. Qed.
Lemma lex_lt_le_trans p q r : lex_lt p q -> lex_le q r -> lex_lt p r.
Proof. unfold lex_lt, lex_le. lia. Qed.

(* ------------------------------------------------------------------ positions / occ_list *)
Lemma In_nseq x n : In x (nseq n) <-> x < n.
Proof.
  unfold nseq. rewrite in_map_iff. split.
  - intros [k [Hk Hin]]. apply in_seq in Hin. lia.
  - intro H. exists (N.to_nat x). split; [lia|]. apply in_seq. lia.
Qed.

Lemma nseq_sorted n : StronglySorted N.lt (nseq n).
Proof.
  unfold nseq. apply SSorted_map with (R := lt); [|apply seq_sorted].
  intros x y H. lia.
Qed.

Lemma nseq_length n : length (nseq n) = N.to_nat n.
Proof. unfold nseq. rewrite map_length, seq_length. reflexivity. Qed.

Lemma list_prod_sorted (l l' : list N) :
  StronglySorted N.lt l -> StronglySorted N.lt l' -> StronglySorted lex_lt (list_prod l l').
Proof.
  intros Hl Hl'. induction Hl as [|x l Hs IH Hf]; cbn [list_prod]; [constructor|].
  apply SSorted_app.
  - apply SSorted_map with (R := N.lt); [|exact Hl'].
    intros y z Hyz. right. cbn [fst snd]. split; [reflexivity|exact Hyz].
  - exact IH.
  - intros p q Hp Hq. apply in_map_iff in Hp. destruct Hp as [y [<- Hy]].
    destruct q as [qb qs]. apply in_prod_iff in Hq. destruct Hq as [Hqb _].
    rewrite Forall_forall in Hf. left. cbn [fst]. apply Hf. exact Hqb.
Qed.

Section Positions.
Variable c : config.

Lemma In_positions hp p : In p (positions c hp) <-> fst p < 2 ^ hp /\ snd p < spb c.
Proof.
  destruct p as [b s]. unfold positions. rewrite in_prod_iff, !In_nseq. reflexivity.
Qed.

Lemma positions_sorted hp : StronglySorted lex_lt (positions c hp).
Proof. unfold positions. apply list_prod_sorted; apply nseq_sorted. Qed.

Lemma positions_length hp : length (positions c hp) = N.to_nat (2 ^ hp * spb c).
Proof. unfold positions. rewrite prod_length, !nseq_length. lia. Qed.

Lemma In_occ_list a p :
  In p (occ_list c a) <->
  fst p < 2 ^ bhp a /\ snd p < spb c /\ occupied a (fst p) (snd p) = true.
Proof.
  unfold occ_list. rewrite filter_In, In_positions. tauto.
Qed.

Lemma occ_list_sorted a : StronglySorted lex_lt (occ_list c a).
Proof. unfold occ_list. apply SSorted_filter. apply positions_sorted. Qed.

Lemma occ_list_NoDup a : NoDup (occ_list c a).
Proof. apply SSorted_NoDup with (R := lex_lt); [apply lex_lt_irrefl|apply occ_list_sorted]. Qed.

Lemma occ_list_length a : (length (occ_list c a) <= N.to_nat (2 ^ bhp a * spb c))%nat.
Proof. unfold occ_list. rewrite <- (positions_length (bhp a)). apply filter_len_le. Qed.

End Positions.

(* ------------------------------------------------------------------ first / last of a filter *)
Lemma lex_le_refl p : lex_le p p.
Proof. unfold lex_le. lia. Qed.

Lemma hd_filter_least (f : N * N -> bool) (l : list (N * N)) :
  StronglySorted lex_lt l ->
  match filter f l with
  | [] => forall q, In q l -> f q = false
  | x :: _ => In x l /\ f x = true /\ forall q, In q l -> f q = true -> lex_le x q
  end.
Proof.
  induction 1 as [|x l Hs IH Hf]; cbn [filter].
  - intros q [].
  - rewrite Forall_forall in Hf. destruct (f x) eqn:Ex.
    + split; [left; reflexivity|]. split; [exact Ex|].
      intros q [<-|Hq] _; [apply lex_le_refl|]. apply lex_lt_le. apply Hf. exact Hq.
    + destruct (filter f l) as [|y r].
      * intros q [<-|Hq]; [exact Ex|]. apply IH. exact Hq.
      * destruct IH as [Hy [Hfy Hmin]]. split; [right; exact Hy|]. split; [exact Hfy|].
        intros q [<-|Hq] Hfq; [congruence|]. apply Hmin; assumption.
Qed.

(* ================================================================== the iterator model *)
Section Iter.
Variable c : config.
Hypothesis Hspb : 0 < spb c.

(* r is the least occupied in-range position >= p, or the end position if there is none *)
Definition least_from (a : barray) (p r : N * N) : Prop :=
  (In r (occ_list c a) /\ lex_le p r /\
   forall q, In q (occ_list c a) -> lex_le p q -> lex_le r q)
  \/ (r = (2 ^ bhp a, 0) /\ forall q, In q (occ_list c a) -> ~ lex_le p q).

Lemma scan_slots_spec a b : forall n s, (N.to_nat (spb c - s) <= n)%nat ->
  match it_scan_slots c a b s n with
  | Some s' => s <= s' /\ s' < spb c /\ occupied a b s' = true /\
               (forall s2, s <= s2 -> s2 < s' -> occupied a b s2 = false)
  | None => forall s2, s <= s2 -> s2 < spb c -> occupied a b s2 = false
  end.
Proof.
  induction n as [|n IH]; intros s Hn; cbn [it_scan_slots].
  - intros s2 H1 H2. lia.
  - destruct (s <? spb c) eqn:Es.
    + destruct (occupied a b s) eqn:Eo.
      * split; [lia|]. split; [lia|]. split; [exact Eo|]. intros s2 H1 H2. lia.
      * assert (Hn' : (N.to_nat (spb c - (s + 1)) <= n)%nat) by lia.
        specialize (IH (s + 1) Hn').
        destruct (it_scan_slots c a b (s + 1) n) as [s'|].
        -- destruct IH as [I1 [I2 [I3 I4]]]. split; [lia|]. split; [exact I2|]. split; [exact I3|].
           intros s2 H1 H2. destruct (N.eq_dec s2 s) as [->|Ne]; [exact Eo|]. apply I4; lia.
        -- intros s2 H1 H2. destruct (N.eq_dec s2 s) as [->|Ne]; [exact Eo|]. apply IH; lia.
    + intros s2 H1 H2. lia.
Qed.

(* if bucket b holds nothing at slots >= s, then "occupied and >= (b,s)" means ">= (b+1,0)" *)
Lemma skip_bucket a b s q :
  (forall s2, s <= s2 -> s2 < spb c -> occupied a b s2 = false) ->
  In q (occ_list c a) -> lex_le (b, s) q -> lex_le (b + 1, 0) q.
Proof.
  intros Hnone Hq Hle. apply In_occ_list in Hq. destruct Hq as [Hqb [Hqs Hqo]].
  destruct q as [qb qs]. unfold lex_le in *. cbn [fst snd] in *.
  destruct Hle as [Hlt|[<- Hge]]; [lia|].
  rewrite (Hnone qs Hge Hqs) in Hqo. discriminate.
Qed.

Lemma scan_buckets_spec a : bhp a < 62 -> forall n b s,
  b <= 2 ^ bhp a -> (b = 2 ^ bhp a -> s = 0) -> (N.to_nat (2 ^ bhp a - b) < n)%nat ->
  least_from a (b, s) (it_scan_buckets c a b s n).
Proof.
  intro Hhp. induction n as [|n IH]; intros b s Hb Hs Hn; [lia|].
  cbn [it_scan_buckets]. rewrite hashsize_spec by lia.
  destruct (b <? 2 ^ bhp a) eqn:Eb.
  - assert (Hfuel : (N.to_nat (spb c - s) <= N.to_nat (spb c))%nat) by lia.
    pose proof (scan_slots_spec a b (N.to_nat (spb c)) s Hfuel) as Hss.
    destruct (it_scan_slots c a b s (N.to_nat (spb c))) as [s'|].
    + destruct Hss as [H1 [H2 [H3 H4]]]. left.
      split; [apply In_occ_list; cbn [fst snd]; split; [lia|split; [exact H2|exact H3]]|].
      split; [right; cbn [fst snd]; lia|].
      intros q Hq Hle. apply In_occ_list in Hq. destruct Hq as [Hqb [Hqs Hqo]].
      destruct q as [qb qs]. unfold lex_le in *. cbn [fst snd] in *.
      destruct Hle as [Hlt|[<- Hge]]; [left; exact Hlt|]. right. split; [reflexivity|].
      destruct (N.lt_ge_cases qs s') as [Hlt|Hge']; [|exact Hge'].
      rewrite (H4 qs Hge Hlt) in Hqo. discriminate.
    + assert (Hb' : b + 1 <= 2 ^ bhp a) by lia.
      assert (Hs' : b + 1 = 2 ^ bhp a -> 0 = 0) by reflexivity.
      assert (Hn' : (N.to_nat (2 ^ bhp a - (b + 1)) < n)%nat) by lia.
      specialize (IH (b + 1) 0 Hb' Hs' Hn').
      destruct IH as [[Hi [Hle Hmin]]|[He Hnone]].
      * left. split; [exact Hi|]. split.
        -- unfold lex_le in *. cbn [fst snd] in *. lia.
        -- intros q Hq Hle'. apply Hmin; [exact Hq|]. eapply skip_bucket; eassumption.
      * right. split; [exact He|]. intros q Hq Hle'. apply (Hnone q Hq).
        eapply skip_bucket; eassumption.
  - right. assert (Eb' : b = 2 ^ bhp a) by lia. split; [rewrite (Hs Eb'), Eb'; reflexivity|].
    intros q Hq Hle. apply In_occ_list in Hq. destruct Hq as [Hqb _].
    unfold lex_le in Hle. cbn [fst snd] in Hle. lia.
Qed.

Lemma least_from_filter a p r :
  least_from a p r -> r = hd (2 ^ bhp a, 0) (filter (lex_leb p) (occ_list c a)).
Proof.
  intro H. pose proof (hd_filter_least (lex_leb p) _ (occ_list_sorted c a)) as Hf.
  destruct (filter (lex_leb p) (occ_list c a)) as [|x l']; cbn [hd].
  - destruct H as [[Hi [Hle _]]|[He _]]; [|exact He]. exfalso.
    apply lex_leb_spec in Hle. rewrite (Hf r Hi) in Hle. discriminate.
  - destruct Hf as [Hx [Hfx Hmin]]. apply lex_leb_spec in Hfx.
    destruct H as [[Hi [Hle Hm]]|[He Hn]].
    + apply lex_le_antisym.
      * apply Hm; assumption.
      * apply Hmin; [exact Hi|]. apply lex_leb_spec. exact Hle.
    + exfalso. exact (Hn x Hx Hfx).
Qed.

(* ------------------------------------------------------------------ operator-- on arrays *)
Lemma step_back_none p : it_step_back c p = None -> p = (0, 0).
Proof.
  destruct p as [b s]. unfold it_step_back.
  destruct (s =? 0) eqn:Es; [|discriminate]. destruct (b =? 0) eqn:Eb; [|discriminate].
  intros _. f_equal; lia.
Qed.

Lemma step_back_some B p p' :
  it_step_back c p = Some p' -> fst p <= B -> (fst p = B -> snd p = 0) -> snd p < spb c ->
  fst p' < B /\ snd p' < spb c /\ lex_lt p' p /\
  fst p' * spb c + snd p' + 1 = fst p * spb c + snd p /\
  (forall q, snd q < spb c -> lex_lt q p -> lex_le q p').
Proof.
  destruct p as [b s]. unfold it_step_back. cbn [fst snd]. intros H Hb He Hs.
  destruct (s =? 0) eqn:Es.
  - destruct (b =? 0) eqn:Eb; [discriminate|]. injection H as <-. cbn [fst snd].
    assert (Hb1 : exists b', b = b' + 1) by (exists (b - 1); lia).
    destruct Hb1 as [b' ->]. replace (b' + 1 - 1) with b' by lia.
    split; [lia|]. split; [lia|]. split; [unfold lex_lt; cbn [fst snd]; lia|].
    split; [lia|].
    intros [qb qs]. unfold lex_lt, lex_le. cbn [fst snd]. lia.
  - injection H as <-. cbn [fst snd].
    split; [lia|]. split; [lia|]. split; [unfold lex_lt; cbn [fst snd]; lia|].
    split; [lia|].
    intros [qb qs]. unfold lex_lt, lex_le. cbn [fst snd]. lia.
Qed.

(* it_prev_loop: the greatest occupied position <= p *)
Lemma prev_loop_spec a : forall n p,
  fst p < 2 ^ bhp a -> snd p < spb c -> (N.to_nat (fst p * spb c + snd p) < n)%nat ->
  match it_prev_loop c a p n with
  | Some r => In r (occ_list c a) /\ lex_le r p /\
              forall q, In q (occ_list c a) -> lex_le q p -> lex_le q r
  | None => forall q, In q (occ_list c a) -> ~ lex_le q p
  end.
Proof.
  induction n as [|n IH]; intros p Hb Hs Hn; [lia|]. cbn [it_prev_loop].
  destruct (occupied a (fst p) (snd p)) eqn:Eo.
  - split; [apply In_occ_list; auto|]. split; [apply lex_le_refl|]. intros q _ H. exact H.
  - assert (Hne : forall q, In q (occ_list c a) -> lex_le q p -> lex_lt q p).
    { intros q Hq Hle. apply lex_le_lt_or_eq in Hle. destruct Hle as [Hlt| ->]; [exact Hlt|].
      apply In_occ_list in Hq. destruct Hq as [_ [_ Hqo]]. rewrite Eo in Hqo. discriminate. }
    assert (Hqs : forall q, In q (occ_list c a) -> snd q < spb c).
    { intros q Hq. apply In_occ_list in Hq. apply Hq. }
    destruct (it_step_back c p) as [p'|] eqn:Esb.
    + assert (Hb0 : fst p <= 2 ^ bhp a) by lia.
      assert (He0 : fst p = 2 ^ bhp a -> snd p = 0) by lia.
      destruct (step_back_some _ _ _ Esb Hb0 He0 Hs) as [Hb' [Hs' [Hlt [Hidx Hq]]]].
      assert (Hn' : (N.to_nat (fst p' * spb c + snd p') < n)%nat) by lia.
      specialize (IH p' Hb' Hs' Hn').
      destruct (it_prev_loop c a p' n) as [r|].
      * destruct IH as [Hr [Hle Hmax]]. split; [exact Hr|]. split.
        -- apply lex_lt_le. eapply lex_le_lt_trans; eassumption.
        -- intros q Hin Hqp. apply Hmax; [exact Hin|]. apply Hq; [apply Hqs; exact Hin|].
           apply Hne; assumption.
      * intros q Hin Hqp. apply (IH q Hin). apply Hq; [apply Hqs; exact Hin|].
        apply Hne; assumption.
    + apply step_back_none in Esb. subst p. intros q Hin Hle.
      pose proof (Hne q Hin Hle) as Hlt. unfold lex_lt in Hlt. cbn [fst snd] in Hlt. lia.
Qed.

(* what a traversal emits for one position *)
Definition visit (t : table) (p : N * N) : list rv :=
  match bget (cur t) (fst p) (snd p) with
  | Some e => [RPos (fst p) (snd p); RKV (ekey e) (eval e)]
  | None => []
  end.

(* ------------------------------------------------------------------ forward iteration *)
Section Table.
Variable t : table.
Hypothesis Hhp : hashpower t < 62.
Notation occ := (occ_list c (cur t)).

Lemma bhp_lt : bhp (cur t) < 62.
Proof. exact Hhp. Qed.

Lemma bucket_count_pow : bucket_count t = 2 ^ bhp (cur t).
Proof. unfold bucket_count. apply hashsize_spec. pose proof bhp_lt. unfold hashpower. lia. Qed.

Lemma end_pos_eq : end_pos t = (2 ^ bhp (cur t), 0).
Proof. unfold end_pos. rewrite bucket_count_pow. reflexivity. Qed.

Lemma end_not_in_occ : ~ In (end_pos t) occ.
Proof. rewrite end_pos_eq. intro H. apply In_occ_list in H. cbn [fst] in H. lia. Qed.

(* it_next from ANY position in a valid bucket: the first occupied position strictly after it *)
Lemma it_next_filter p : fst p < 2 ^ bhp (cur t) ->
  it_next c t p = hd (end_pos t) (filter (lex_ltb p) occ).
Proof.
  destruct p as [b s]. cbn [fst]. intro Hb. unfold it_next.
  rewrite end_pos_eq, bucket_count_pow.
  assert (Eb : (b <? 2 ^ bhp (cur t)) = true) by lia. rewrite Eb.
  assert (Hb' : b <= 2 ^ bhp (cur t)) by lia.
  assert (Hs' : b = 2 ^ bhp (cur t) -> s + 1 = 0) by lia.
  assert (Hn : (N.to_nat (2 ^ bhp (cur t) - b) < S (N.to_nat (2 ^ bhp (cur t) - b)))%nat) by lia.
  rewrite (least_from_filter (cur t) (b, s + 1) _
             (scan_buckets_spec (cur t) bhp_lt _ b (s + 1) Hb' Hs' Hn)).
  f_equal. apply filter_ext. intro q. unfold lex_leb, lex_ltb. cbn [fst snd]. lia.
Qed.

(* what a decomposition of the sorted occ list tells us *)
Lemma occ_split l1 p l2 : occ = l1 ++ p :: l2 ->
  In p occ /\ (forall x, In x l1 -> lex_lt x p) /\ (forall x, In x l2 -> lex_lt p x).
Proof.
  intro E. pose proof (occ_list_sorted c (cur t)) as Hs. rewrite E in Hs.
  apply SSorted_app_inv in Hs. destruct Hs as [_ [H2 H3]].
  apply StronglySorted_inv in H2. destruct H2 as [_ Hf]. rewrite Forall_forall in Hf.
  split; [rewrite E; apply in_or_app; right; left; reflexivity|].
  split; [|exact Hf]. intros x Hx. apply H3; [exact Hx|left; reflexivity].
Qed.

Lemma occ_in_range p : In p occ ->
  fst p < 2 ^ bhp (cur t) /\ snd p < spb c /\ exists e, bget (cur t) (fst p) (snd p) = Some e.
Proof.
  intro H. apply In_occ_list in H. destruct H as [H1 [H2 H3]]. split; [exact H1|].
  split; [exact H2|]. unfold occupied in H3.
  destruct (bget (cur t) (fst p) (snd p)) as [e|]; [exists e; reflexivity|discriminate].
Qed.

Lemma filter_gt_split l1 p l2 : occ = l1 ++ p :: l2 -> filter (lex_ltb p) occ = l2.
Proof.
  intro E. destruct (occ_split _ _ _ E) as [_ [H1 H2]]. rewrite E.
  rewrite filter_app. cbn [filter].
  assert (Epp : lex_ltb p p = false) by (apply lex_ltb_false; apply lex_le_refl).
  rewrite Epp. rewrite filter_all_false, filter_all_true; [reflexivity| |].
  - intros x Hx. apply lex_ltb_spec. apply H2. exact Hx.
  - intros x Hx. apply lex_ltb_false. apply lex_lt_le. apply H1. exact Hx.
Qed.

(* 2. successor in iteration order; the last element steps to end *)
Theorem it_next_spec l1 p l2 : occ = l1 ++ p :: l2 -> it_next c t p = hd (end_pos t) l2.
Proof.
  intro E. destruct (occ_split _ _ _ E) as [Hp _]. apply occ_in_range in Hp.
  rewrite it_next_filter by apply Hp. rewrite (filter_gt_split _ _ _ E). reflexivity.
Qed.

(* 7a. the private constructor *)
Theorem it_make_occupied p : occupied (cur t) (fst p) (snd p) = true -> it_make c t p = p.
Proof.
  destruct p as [b s]. cbn [fst snd]. intro H. unfold it_make. rewrite H.
  rewrite orb_true_r. reflexivity.
Qed.

Theorem it_make_end : it_make c t (end_pos t) = end_pos t.
Proof. unfold it_make, end_pos. cbn [fst]. rewrite !N.eqb_refl. reflexivity. Qed.

Theorem it_make_unoccupied p :
  fst p < 2 ^ bhp (cur t) -> occupied (cur t) (fst p) (snd p) = false ->
  it_make c t p = hd (end_pos t) (filter (lex_ltb p) occ).
Proof.
  intros Hb Ho. rewrite <- it_next_filter by exact Hb.
  destruct p as [b s]. cbn [fst snd] in *. unfold it_make. rewrite Ho.
  rewrite end_pos_eq. cbn [fst].
  assert (Eb : (b =? 2 ^ bhp (cur t)) = false) by lia. rewrite Eb. reflexivity.
Qed.

(* uniform version for in-range positions: the first occupied position >= p *)
Theorem it_make_in_range p :
  fst p < 2 ^ bhp (cur t) -> snd p < spb c ->
  it_make c t p = hd (end_pos t) (filter (lex_leb p) occ).
Proof.
  intros Hb Hs. destruct (occupied (cur t) (fst p) (snd p)) eqn:Ho.
  - rewrite it_make_occupied by exact Ho.
    assert (Hin : In p occ) by (apply In_occ_list; auto).
    pose proof (hd_filter_least (lex_leb p) _ (occ_list_sorted c (cur t))) as Hf.
    assert (Epp : lex_leb p p = true) by (apply lex_leb_spec; apply lex_le_refl).
    destruct (filter (lex_leb p) occ) as [|x r]; cbn [hd].
    + rewrite (Hf p Hin) in Epp. discriminate.
    + destruct Hf as [_ [Hfx Hmin]]. apply lex_le_antisym.
      * apply lex_leb_spec. exact Hfx.
      * apply Hmin; assumption.
  - rewrite it_make_unoccupied by assumption. f_equal.
    apply filter_ext_in. intros q Hq. apply In_occ_list in Hq. destruct Hq as [_ [_ Hqo]].
    destruct (lex_leb p q) eqn:El.
    + apply lex_leb_spec in El. apply lex_le_lt_or_eq in El. destruct El as [Hlt| ->].
      * apply lex_ltb_spec. exact Hlt.
      * rewrite Ho in Hqo. discriminate.
    + apply lex_leb_false in El. apply lex_ltb_false. apply lex_lt_le. exact El.
Qed.

(* 1. begin is the first occupied position, or end for the empty table *)
Theorem it_begin_spec : it_begin c t = hd (end_pos t) occ.
Proof.
  unfold it_begin. pose proof (pow2_pos (bhp (cur t))) as Hp.
  rewrite it_make_in_range by (cbn [fst snd]; assumption).
  rewrite filter_all_true; [reflexivity|].
  intros q _. apply lex_leb_spec. unfold lex_le. cbn [fst snd]. lia.
Qed.

(* 4. *)
Theorem begin_eq_end_iff_empty : it_begin c t = it_end t <-> occ = [].
Proof.
  rewrite it_begin_spec. unfold it_end. split.
  - intro H. destruct occ as [|x r] eqn:E; [reflexivity|]. cbn [hd] in H. exfalso.
    apply end_not_in_occ. rewrite E, <- H. left. reflexivity.
  - intros ->. reflexivity.
Qed.

(* 5a. forward traversal *)
Lemma trav_fwd_gen : forall l2 l1 n, occ = l1 ++ l2 -> (length l2 < n)%nat ->
  traverse_fwd c t (hd (end_pos t) l2) n = flat_map (visit t) l2.
Proof.
  induction l2 as [|p l2 IH]; intros l1 n E Hn;
    (destruct n as [|n]; [cbn [length] in Hn; lia|]); cbn [traverse_fwd hd flat_map].
  - rewrite !N.eqb_refl. reflexivity.
  - destruct (occ_split _ _ _ E) as [Hp _]. apply occ_in_range in Hp.
    destruct Hp as [Hb [_ [e He]]].
    assert (Eb : (fst p =? fst (end_pos t)) = false) by (rewrite end_pos_eq; cbn [fst]; lia).
    rewrite Eb. cbn [andb]. unfold visit at 1. rewrite He. cbn [app]. f_equal. f_equal.
    rewrite (it_next_spec _ _ _ E). apply IH with (l1 := l1 ++ [p]).
    + rewrite <- app_assoc. exact E.
    + cbn [length] in Hn. lia.
Qed.

Lemma occ_length_fuel : (length occ < trav_fuel c t)%nat.
Proof.
  unfold trav_fuel. rewrite bucket_count_pow. pose proof (occ_list_length c (cur t)). lia.
Qed.

Theorem traverse_fwd_spec :
  traverse_fwd c t (it_begin c t) (trav_fuel c t) = flat_map (visit t) occ.
Proof.
  rewrite it_begin_spec. apply trav_fwd_gen with (l1 := []); [reflexivity|apply occ_length_fuel].
Qed.

(* ------------------------------------------------------------------ backward iteration *)
Lemma idx_lt b s : b < 2 ^ bhp (cur t) -> s < spb c -> b * spb c + s < 2 ^ bhp (cur t) * spb c.
Proof.
  intros Hb Hs. assert (H : (b + 1) * spb c <= 2 ^ bhp (cur t) * spb c)
    by (apply N.mul_le_mono_r; lia). lia.
Qed.

(* it_prev from a valid iterator position (an in-range position or end):
   the greatest occupied position strictly before it, None if there is none *)
Lemma it_prev_char p :
  fst p <= 2 ^ bhp (cur t) -> (fst p = 2 ^ bhp (cur t) -> snd p = 0) -> snd p < spb c ->
  match it_prev c t p with
  | Some r => In r occ /\ lex_lt r p /\ forall q, In q occ -> lex_lt q p -> lex_le q r
  | None => forall q, In q occ -> ~ lex_lt q p
  end.
Proof.
  intros Hb He Hs. unfold it_prev. destruct (it_step_back c p) as [p'|] eqn:Esb.
  - destruct (step_back_some _ _ _ Esb Hb He Hs) as [Hb' [Hs' [Hlt [_ Hq]]]].
    assert (Hn : (N.to_nat (fst p' * spb c + snd p') < S (N.to_nat (bucket_count t * spb c)))%nat).
    { rewrite bucket_count_pow. pose proof (idx_lt _ _ Hb' Hs'). lia. }
    pose proof (prev_loop_spec (cur t) _ p' Hb' Hs' Hn) as Hl.
    destruct (it_prev_loop c (cur t) p' (S (N.to_nat (bucket_count t * spb c)))) as [r|].
    + destruct Hl as [Hr [Hle Hmax]]. split; [exact Hr|]. split.
      * eapply lex_le_lt_trans; eassumption.
      * intros q Hin Hqp. apply Hmax; [exact Hin|]. apply Hq; [|exact Hqp].
        apply In_occ_list in Hin. apply Hin.
    + intros q Hin Hqp. apply (Hl q Hin). apply Hq; [|exact Hqp].
      apply In_occ_list in Hin. apply Hin.
  - apply step_back_none in Esb. subst p. intros q _. unfold lex_lt. cbn [fst snd]. lia.
Qed.

Lemma lt_next l1 q l2 : occ = l1 ++ q :: l2 -> lex_lt q (hd (end_pos t) l2).
Proof.
  intro E. destruct (occ_split _ _ _ E) as [Hq [_ H2]]. destruct l2 as [|p l2]; cbn [hd].
  - apply occ_in_range in Hq. rewrite end_pos_eq. left. cbn [fst]. apply Hq.
  - apply H2. left. reflexivity.
Qed.

(* one statement covering both "step back from an element" and "step back from end" *)
Lemma it_prev_gen l1 q l2 : occ = l1 ++ q :: l2 -> it_prev c t (hd (end_pos t) l2) = Some q.
Proof.
  intro E. pose proof (lt_next _ _ _ E) as Hqp.
  destruct (occ_split _ _ _ E) as [Hq [H1 H2]].
  set (p := hd (end_pos t) l2) in *.
  assert (Hvalid : fst p <= 2 ^ bhp (cur t) /\ (fst p = 2 ^ bhp (cur t) -> snd p = 0) /\ snd p < spb c).
  { subst p. destruct l2 as [|p l2]; cbn [hd].
    - rewrite end_pos_eq. cbn [fst snd]. lia.
    - assert (Hp : In p occ) by (rewrite E; apply in_or_app; right; right; left; reflexivity).
      apply occ_in_range in Hp. lia. }
  destruct Hvalid as [Hb [He Hs]].
  pose proof (it_prev_char p Hb He Hs) as Hc.
  destruct (it_prev c t p) as [r|].
  - destruct Hc as [Hr [Hrp Hmax]]. f_equal.
    pose proof (Hmax q Hq Hqp) as Hqr.
    rewrite E in Hr. apply in_app_or in Hr. destruct Hr as [Hr|[Hr|Hr]].
    + exfalso. exact (lex_lt_not_le _ _ (H1 r Hr) Hqr).
    + symmetry. exact Hr.
    + exfalso. subst p. destruct l2 as [|p l2]; [destruct Hr|]. cbn [hd] in *.
      destruct Hr as [<-|Hr]; [exact (lex_lt_irrefl _ Hrp)|].
      assert (E' : occ = (l1 ++ [q]) ++ p :: l2) by (rewrite <- app_assoc; exact E).
      destruct (occ_split _ _ _ E') as [_ [_ H3]].
      exact (lex_lt_irrefl _ (lex_lt_trans _ _ _ Hrp (H3 r Hr))).
  - exfalso. exact (Hc q Hq Hqp).
Qed.

(* 3. predecessor in iteration order; stepping back from end reaches the last element *)
Theorem it_prev_spec l1 q p l2 : occ = l1 ++ [q] ++ p :: l2 -> it_prev c t p = Some q.
Proof. intro E. exact (it_prev_gen l1 q (p :: l2) E). Qed.

Theorem it_prev_end_spec l1 q : occ = l1 ++ [q] -> it_prev c t (end_pos t) = Some q.
Proof. intro E. exact (it_prev_gen l1 q [] E). Qed.

(* stepping back from the first element: the model's marker for the undefined case *)
Theorem it_prev_first p l2 : occ = p :: l2 -> it_prev c t p = None.
Proof.
  intro E. destruct (occ_split [] p l2 E) as [Hp [_ H2]].
  apply occ_in_range in Hp. destruct Hp as [Hb [Hs _]].
  assert (Hb0 : fst p <= 2 ^ bhp (cur t)) by lia.
  assert (He0 : fst p = 2 ^ bhp (cur t) -> snd p = 0) by lia.
  pose proof (it_prev_char p Hb0 He0 Hs) as Hc.
  destruct (it_prev c t p) as [r|]; [|reflexivity]. exfalso.
  destruct Hc as [Hr [Hrp _]]. rewrite E in Hr. destruct Hr as [<-|Hr].
  - exact (lex_lt_irrefl _ Hrp).
  - exact (lex_lt_irrefl _ (lex_lt_trans _ _ _ Hrp (H2 r Hr))).
Qed.

(* ... and from end (= begin) of an empty table *)
Theorem it_prev_end_empty : occ = [] -> it_prev c t (end_pos t) = None.
Proof.
  intro E.
  assert (Hb0 : fst (end_pos t) <= 2 ^ bhp (cur t)) by (rewrite end_pos_eq; cbn [fst]; lia).
  assert (He0 : fst (end_pos t) = 2 ^ bhp (cur t) -> snd (end_pos t) = 0) by reflexivity.
  assert (Hs0 : snd (end_pos t) < spb c) by exact Hspb.
  pose proof (it_prev_char _ Hb0 He0 Hs0) as Hc.
  destruct (it_prev c t (end_pos t)) as [r|]; [|reflexivity].
  destruct Hc as [Hr _]. rewrite E in Hr. destruct Hr.
Qed.

(* 5b. backward traversal *)
Lemma begin_le q : In q occ -> lex_le (it_begin c t) q.
Proof.
  rewrite it_begin_spec. pose proof (occ_list_sorted c (cur t)) as Hs.
  destruct occ as [|x r]; [intros []|]. cbn [hd].
  apply StronglySorted_inv in Hs. destruct Hs as [_ Hf]. rewrite Forall_forall in Hf.
  intros [<-|Hq]; [apply lex_le_refl|]. apply lex_lt_le. apply Hf. exact Hq.
Qed.

Lemma trav_bwd_gen : forall l1r l2 n, occ = rev l1r ++ l2 -> (length l1r < n)%nat ->
  traverse_bwd c t (hd (end_pos t) l2) n = flat_map (visit t) l1r.
Proof.
  induction l1r as [|q l1r IH]; intros l2 n E Hn;
    (destruct n as [|n]; [cbn [length] in Hn; lia|]); cbn [traverse_bwd flat_map].
  - cbn [rev app] in E. rewrite it_begin_spec, E, !N.eqb_refl. reflexivity.
  - cbn [rev] in E. rewrite <- app_assoc in E. cbn [app] in E.
    set (p := hd (end_pos t) l2).
    destruct ((fst p =? fst (it_begin c t)) && (snd p =? snd (it_begin c t))) eqn:Ebeg.
    + exfalso. apply andb_true_iff in Ebeg. destruct Ebeg as [E1 E2].
      apply N.eqb_eq in E1. apply N.eqb_eq in E2.
      assert (Ep : p = it_begin c t) by (apply injective_projections; assumption).
      pose proof (lt_next _ _ _ E) as Hqp. fold p in Hqp. rewrite Ep in Hqp.
      destruct (occ_split _ _ _ E) as [Hq _].
      exact (lex_lt_not_le _ _ Hqp (begin_le q Hq)).
    + subst p. rewrite (it_prev_gen _ _ _ E).
      destruct (occ_split _ _ _ E) as [Hq _]. apply occ_in_range in Hq.
      destruct Hq as [_ [_ [e He]]]. rewrite He. unfold visit at 1. rewrite He.
      cbn [app]. f_equal. f_equal.
      apply (IH (q :: l2) n E). cbn [length] in Hn. lia.
Qed.

Theorem traverse_bwd_spec :
  traverse_bwd c t (it_end t) (trav_fuel c t) = flat_map (visit t) (rev occ).
Proof.
  unfold it_end. apply (trav_bwd_gen (rev occ) [] (trav_fuel c t)).
  - rewrite rev_involutive, app_nil_r. reflexivity.
  - rewrite rev_length. apply occ_length_fuel.
Qed.

(* 6. corollaries *)
Theorem occ_NoDup : NoDup occ.
Proof. apply occ_list_NoDup. Qed.

Theorem occ_sorted : StronglySorted lex_lt occ.
Proof. apply occ_list_sorted. Qed.

(* every traversal step emits exactly the position and the stored pair *)
Lemma visit_occ p : In p occ ->
  exists e, bget (cur t) (fst p) (snd p) = Some e /\
            visit t p = [RPos (fst p) (snd p); RKV (ekey e) (eval e)].
Proof.
  intro H. apply occ_in_range in H. destruct H as [_ [_ [e He]]]. exists e.
  split; [exact He|]. unfold visit. rewrite He. reflexivity.
Qed.

(* the positions reported by a traversal output *)
Fixpoint out_positions (o : list rv) : list (N * N) :=
  match o with
  | [] => []
  | RPos b s :: r => (b, s) :: out_positions r
  | _ :: r => out_positions r
  end.

Lemma out_positions_visits l : (forall p, In p l -> In p occ) ->
  out_positions (flat_map (visit t) l) = l.
Proof.
  induction l as [|p l IH]; intro H; cbn [flat_map]; [reflexivity|].
  destruct (visit_occ p (H p (or_introl eq_refl))) as [e [_ Hv]]. rewrite Hv.
  cbn [app out_positions]. rewrite <- surjective_pairing. f_equal.
  apply IH. intros x Hx. apply H. right. exact Hx.
Qed.

(* forward traversal visits exactly the occupied positions, each once, in iteration order *)
Theorem traverse_fwd_positions :
  out_positions (traverse_fwd c t (it_begin c t) (trav_fuel c t)) = occ.
Proof. rewrite traverse_fwd_spec. apply out_positions_visits. intros p H. exact H. Qed.

(* backward traversal visits them in exactly the reverse order *)
Theorem traverse_bwd_positions :
  out_positions (traverse_bwd c t (it_end t) (trav_fuel c t)) = rev occ.
Proof.
  rewrite traverse_bwd_spec. apply out_positions_visits. intros p H. apply in_rev. exact H.
Qed.

Theorem traverse_bwd_rev_fwd :
  out_positions (traverse_bwd c t (it_end t) (trav_fuel c t)) =
  rev (out_positions (traverse_fwd c t (it_begin c t) (trav_fuel c t))).
Proof. rewrite traverse_bwd_positions, traverse_fwd_positions. reflexivity. Qed.

(* under the range hypothesis, membership in occ is just "occupied" *)
Theorem in_occ_iff_occupied :
  (forall b s e, bget (cur t) b s = Some e -> b < 2 ^ bhp (cur t) /\ s < spb c) ->
  forall p, In p occ <-> occupied (cur t) (fst p) (snd p) = true.
Proof.
  intros Hrange p. rewrite In_occ_list. split; [intros [_ [_ H]]; exact H|].
  intro H. unfold occupied in H.
  destruct (bget (cur t) (fst p) (snd p)) as [e|] eqn:E; [|discriminate].
  destruct (Hrange _ _ _ E) as [H1 H2]. split; [exact H1|]. split; [exact H2|].
  unfold occupied. rewrite E. reflexivity.
Qed.

End Table.
(* ------------------------------------------------------------------ 7b. erase through an iterator *)
Lemma lex_neq p q : p <> q -> lex_lt p q \/ lex_lt q p.
Proof.
  destruct p as [pb ps], q as [qb qs]. unfold lex_lt. cbn [fst snd]. intro H.
  destruct (N.eq_dec pb qb) as [Eb|Nb]; [|lia].
  destruct (N.eq_dec ps qs) as [Es|Ns]; [|lia]. exfalso. apply H. congruence.
Qed.

Section Erase.
Variables t t' : table.
Variable p : N * N.
Hypothesis Hhp : hashpower t < 62.
(* t' is t with exactly slot p emptied *)
Hypothesis Hbhp : bhp (cur t') = bhp (cur t).
Hypothesis Hgone : bget (cur t') (fst p) (snd p) = None.
Hypothesis Hsame : forall b s, (b, s) <> p -> bget (cur t') b s = bget (cur t) b s.

Lemma erase_hp : hashpower t' < 62.
Proof. unfold hashpower in *. rewrite Hbhp. exact Hhp. Qed.

Lemma erase_end : end_pos t' = end_pos t.
Proof. unfold end_pos, bucket_count, hashpower. rewrite Hbhp. reflexivity. Qed.

Lemma erase_occupied q :
  occupied (cur t') (fst q) (snd q) =
  occupied (cur t) (fst q) (snd q) && (lex_ltb q p || lex_ltb p q).
Proof.
  destruct (lex_ltb q p || lex_ltb p q) eqn:E.
  - rewrite andb_true_r. unfold occupied. rewrite Hsame; [reflexivity|].
    rewrite <- surjective_pairing. intros ->.
    assert (Epp : lex_ltb p p = false) by (apply lex_ltb_false; apply lex_le_refl).
    rewrite Epp in E. discriminate.
  - rewrite andb_false_r. apply orb_false_iff in E. destruct E as [E1 E2].
    apply lex_ltb_false in E1. apply lex_ltb_false in E2.
    rewrite (lex_le_antisym _ _ E2 E1). unfold occupied. rewrite Hgone. reflexivity.
Qed.

(* all other occupied positions are untouched: other iterators stay valid *)
Theorem erase_occ l1 l2 :
  occ_list c (cur t) = l1 ++ p :: l2 -> occ_list c (cur t') = l1 ++ l2.
Proof.
  intro E. destruct (occ_split t _ _ _ E) as [_ [H1 H2]].
  unfold occ_list at 1. rewrite Hbhp.
  rewrite (filter_ext _ _ erase_occupied).
  rewrite <- (filter_filter (fun q => lex_ltb q p || lex_ltb p q)
                            (fun q => occupied (cur t) (fst q) (snd q))).
  change (filter (fun q => occupied (cur t) (fst q) (snd q)) (positions c (bhp (cur t))))
    with (occ_list c (cur t)).
  rewrite E, filter_app. cbn [filter].
  assert (Epp : lex_ltb p p = false) by (apply lex_ltb_false; apply lex_le_refl).
  rewrite Epp. cbn [orb]. rewrite !filter_all_true; [reflexivity| |].
  - intros x Hx. apply orb_true_iff. right. apply lex_ltb_spec. apply H2. exact Hx.
  - intros x Hx. apply orb_true_iff. left. apply lex_ltb_spec. apply H1. exact Hx.
Qed.

(* the iterator returned by erase(it) is the successor of the erased element *)
Theorem erase_returns_successor l1 l2 :
  occ_list c (cur t) = l1 ++ p :: l2 ->
  it_make c t' p = hd (end_pos t') l2 /\ occ_list c (cur t') = l1 ++ l2.
Proof.
  intro E. split; [|apply erase_occ; exact E].
  destruct (occ_split t _ _ _ E) as [Hp [H1 H2]].
  apply (occ_in_range t) in Hp. destruct Hp as [Hb _].
  assert (Hb' : fst p < 2 ^ bhp (cur t')) by (rewrite Hbhp; exact Hb).
  assert (Ho : occupied (cur t') (fst p) (snd p) = false)
    by (unfold occupied; rewrite Hgone; reflexivity).
  rewrite (it_make_unoccupied t' erase_hp p Hb' Ho).
  rewrite (erase_occ _ _ E), filter_app.
  rewrite filter_all_false, filter_all_true; [reflexivity| |].
  - intros x Hx. apply lex_ltb_spec. apply H2. exact Hx.
  - intros x Hx. apply lex_ltb_false. apply lex_lt_le. apply H1. exact Hx.
Qed.

(* a surviving iterator still points at the same element, and its neighbours are as expected *)
Theorem erase_others_valid l1 l2 q :
  occ_list c (cur t) = l1 ++ p :: l2 -> In q (occ_list c (cur t)) -> q <> p ->
  In q (occ_list c (cur t')) /\ bget (cur t') (fst q) (snd q) = bget (cur t) (fst q) (snd q).
Proof.
  intros E Hq Hne. split.
  - rewrite (erase_occ _ _ E). rewrite E in Hq. apply in_app_or in Hq. apply in_or_app.
    destruct Hq as [Hq|[Hq|Hq]]; [left; exact Hq| |right; exact Hq].
    exfalso. apply Hne. symmetry. exact Hq.
  - apply Hsame. rewrite <- surjective_pairing. exact Hne.
Qed.

End Erase.

(* instantiation with the model's own erase step, del_from_bucket *)
Lemma pidx_inj x y : pidx x = pidx y -> x = y.
Proof.
  unfold pidx. intro H. rewrite <- (N.pos_pred_succ x), <- (N.pos_pred_succ y), H. reflexivity.
Qed.

Lemma bget_bset_None_same a b s : bget (bset a b s None) b s = None.
Proof.
  unfold bget, bset, sset. cbn [bsl]. rewrite PositiveMap.gss. apply PositiveMap.grs.
Qed.

Lemma bget_bset_None_other a b s b' s' :
  (b', s') <> (b, s) -> bget (bset a b s None) b' s' = bget a b' s'.
Proof.
  intro Hne. unfold bget, bset, sset. cbn [bsl].
  destruct (N.eq_dec b' b) as [->|Nb].
  - rewrite PositiveMap.gss. rewrite PositiveMap.gro.
    + destruct (PositiveMap.find (pidx b) (bsl a)); [reflexivity|apply PositiveMap.gempty].
    + intro H. apply pidx_inj in H. apply Hne. congruence.
  - rewrite PositiveMap.gso; [reflexivity|]. intro H. apply pidx_inj in H. exact (Nb H).
Qed.

Theorem erase_it_returns_successor t p l1 l2 :
  hashpower t < 62 ->
  occ_list c (cur t) = l1 ++ p :: l2 ->
  let t' := del_from_bucket c t (fst p) (snd p) in
  it_make c t' p = hd (end_pos t') l2 /\ occ_list c (cur t') = l1 ++ l2.
Proof.
  intros Hhp E t'. apply (erase_returns_successor t t' p Hhp).
  - reflexivity.
  - apply bget_bset_None_same.
  - intros b s Hne. apply bget_bset_None_other. rewrite <- surjective_pairing. exact Hne.
  - exact E.
Qed.

(* ------------------------------------------------------------------ 6. "every element exactly once" *)
Section Corollaries.
Variable t : table.
Hypothesis Hhp : hashpower t < 62.

Theorem traverse_fwd_visits_once :
  NoDup (out_positions (traverse_fwd c t (it_begin c t) (trav_fuel c t))).
Proof. rewrite (traverse_fwd_positions t Hhp). apply occ_list_NoDup. Qed.

Theorem traverse_bwd_visits_once :
  NoDup (out_positions (traverse_bwd c t (it_end t) (trav_fuel c t))).
Proof.
  rewrite (traverse_bwd_positions t Hhp). apply NoDup_rev. apply occ_list_NoDup.
Qed.

Hypothesis Hrange :
  forall b s e, bget (cur t) b s = Some e -> b < 2 ^ bhp (cur t) /\ s < spb c.

Theorem traverse_fwd_visits_all p :
  In p (out_positions (traverse_fwd c t (it_begin c t) (trav_fuel c t))) <->
  occupied (cur t) (fst p) (snd p) = true.
Proof. rewrite (traverse_fwd_positions t Hhp). apply in_occ_iff_occupied. exact Hrange. Qed.

Theorem traverse_bwd_visits_all p :
  In p (out_positions (traverse_bwd c t (it_end t) (trav_fuel c t))) <->
  occupied (cur t) (fst p) (snd p) = true.
Proof.
  rewrite (traverse_bwd_positions t Hhp), <- in_rev. apply in_occ_iff_occupied. exact Hrange.
Qed.

End Corollaries.

(* the same under the structural invariant of InvDefs *)
Theorem traverse_fwd_visits_all_arr_ok hash t p :
  arr_ok c hash (cur t) ->
  In p (out_positions (traverse_fwd c t (it_begin c t) (trav_fuel c t))) <->
  occupied (cur t) (fst p) (snd p) = true.
Proof.
  intro H. apply traverse_fwd_visits_all; [exact (ao_hp _ _ _ H)|exact (ao_range _ _ _ H)].
Qed.

End Iter.
