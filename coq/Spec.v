(* Spec.v: the abstract specification the properties are stated against, as an EXECUTABLE ACCEPTOR.
   [judge] consumes one operation, the result the implementation printed for it and the
   observable statistics before/after, and answers which property clauses (if any) the
   observation violates.  The same definitions are used (a) in the theorems (the model's
   outputs are accepted) and (b) extracted, to judge the real library when a proof or the
   correspondence has broken (DESIGN 2.3).  Definitions only. *)
From Coq Require Import NArith ZArith List Bool.
From LC Require Import gen.HashGen Core Api.
Import ListNotations.
Local Open Scope N_scope.

(* ---------------------------------------------------------------- abstract map *)
Definition smap := list (N * Z).

Fixpoint sfind (k : N) (m : smap) : option Z :=
  match m with
  | [] => None
  | (k', v) :: r => if k' =? k then Some v else sfind k r
  end.
Fixpoint sremove (k : N) (m : smap) : smap :=
  match m with
  | [] => []
  | (k', v) :: r => if k' =? k then sremove k r else (k', v) :: sremove k r
  end.
Definition sset (k : N) (v : Z) (m : smap) : smap := (k, v) :: sremove k m.
Definition ssize (m : smap) : N := N.of_nat (length m).

(* observable statistics of one table, read off the dump line *)
Record obs := { o_hp : N; o_size : N; o_cap : N; o_mlfn : N; o_mlfd : N; o_mhp : N; o_act : bool; o_dead : bool }.

Record stab := { st_m : smap; st_act : bool; st_moved : bool (* moved-from: contents unspecified *) }.

(* traversal order remembered from the last l.trav of the active table: (bucket, slot, key, value) *)
Definition order := list (N * N * N * Z).

Record sst := {
  s_tabs : list (option stab);
  s_its : list (option (N * N));
  s_order : option order;                   (* None = unknown / invalidated *)
  s_imgs : list (option (smap * N * N * N)) (* contents, mlfn, mlfd, mhp at write time *)
}.

Definition sst_init : sst :=
  {| s_tabs := repeat None 4; s_its := repeat None 4; s_order := None; s_imgs := repeat None 4 |}.

(* property clauses a judgement can blame *)
Inductive clause :=
| C02_result      (* return value / contents differ from the reference map *)
| C05_size        (* size()/empty()/capacity() statistics wrong at a quiescent point *)
| C09_iter        (* iteration / iterator operation disagrees with contents or order *)
| C10_limit       (* limits or explicit resize request not honoured *)
| C12_stream      (* stream round trip *)
| C11_special     (* copy/move/swap/assignment *)
| C16_args
| C17_functor.    (* functor invoked when it must not be, wrong value or context *)

Definition rv_eqb (a b : rv) : bool :=
  match a, b with
  | RBool x, RBool y => Bool.eqb x y
  | RNat x, RNat y => x =? y
  | RNat x, RInt y => Z.eqb (Z.of_N x) y
  | RInt x, RNat y => Z.eqb x (Z.of_N y)
  | RInt x, RInt y => Z.eqb x y
  | RNone, RNone => true
  | RPos b s, RPos b' s' => (b =? b') && (s =? s')
  | RFn v n, RFn v' n' => Z.eqb v v' && Bool.eqb n n'
  | RKV k v, RKV k' v' => (k =? k') && Z.eqb v v'
  | RExn e, RExn e' =>
    match e, e' with
    | ELoadFactorTooLow, ELoadFactorTooLow | EMaxHashpower, EMaxHashpower
    | EInvalidArgument, EInvalidArgument | EOutOfRange, EOutOfRange | EBadAlloc, EBadAlloc
    | EUser, EUser | EOutOfFuel, EOutOfFuel | EUnmodelled, EUnmodelled => true
    | _, _ => false
    end
  | _, _ => false
  end.

Fixpoint out_eqb (a b : out) : bool :=
  match a, b with
  | [], [] => true
  | x :: r, y :: s => rv_eqb x y && out_eqb r s
  | _, _ => false
  end.

Definition is_exn (r : out) (e : exn) : bool := out_eqb r [RExn e].

Section Judge.
Variable fapply : fnk -> Z -> bool -> Z * bool.
Variable spb_ : N.

Definition get_st (s : sst) (a : nat) : option stab := nth a (s_tabs s) None.
Definition put_st (s : sst) (a : nat) (x : option stab) : sst :=
  {| s_tabs := set_nth a x (s_tabs s); s_its := s_its s; s_order := s_order s; s_imgs := s_imgs s |}.
Definition put_m (s : sst) (a : nat) (t : stab) (m : smap) : sst :=
  put_st s a (Some {| st_m := m; st_act := st_act t; st_moved := false |}).
(* the spec lost track of table [a]'s contents (an effect through a position it cannot resolve):
   no judgement until the next full traversal resynchronises it *)
Definition lose (s : sst) (a : nat) (t : stab) : sst :=
  {| s_tabs := set_nth a (Some {| st_m := []; st_act := st_act t; st_moved := true |}) (s_tabs s);
     s_its := s_its s; s_order := None; s_imgs := s_imgs s |}.
Definition inval (s : sst) : sst :=
  {| s_tabs := s_tabs s; s_its := s_its s; s_order := None; s_imgs := s_imgs s |}.
Definition set_it (s : sst) (r : nat) (p : option (N * N)) : sst :=
  {| s_tabs := s_tabs s; s_its := set_nth r p (s_its s); s_order := s_order s; s_imgs := s_imgs s |}.
Definition reset_its_s (s : sst) : sst :=
  {| s_tabs := s_tabs s; s_its := map (fun _ => None) (s_its s); s_order := None; s_imgs := s_imgs s |}.

(* a policy exception may be accepted for an insertion-type call or explicit resize *)
Definition maxhp_allowed (pre post : obs) (requested : option N) : bool :=
  negb (o_mhp pre =? NO_MAXIMUM_HASHPOWER) &&
  ((o_hp post =? o_mhp pre) || match requested with Some n => o_mhp pre <? n | None => false end).
Definition lf_allowed (pre : obs) : bool := negb (o_mlfn pre =? 0) && negb (o_mlfd pre =? 0).

(* verdict of one judgement: the (possibly updated) spec state and the blamed clauses *)
Definition verdict := (sst * list clause)%type.

Definition ok (s : sst) : verdict := (s, []).
Definition blame (s : sst) (c : clause) : verdict := (s, [c]).

(* insertion-type call in normal mode: expected result [exp], new contents [m'] *)
(* every automatic doubling from hashpower h requires load factor >= minimum at h (with the elements present
   before the call); if the call ended at hashpower H > h0 its last doubling was at H-1 *)
Definition grew_below_minimum (pre post : obs) : bool :=
  (o_hp pre <? o_hp post) && negb (o_mlfd pre =? 0) &&
  (o_size pre * o_mlfd pre <? o_mlfn pre * (N.shiftl 1 (o_hp post - 1) * spb_)).

(* [present]: the key is in the reference map.  An insertion-type call on a present key finds the duplicate before any
   expansion, so it can never end in a policy exception (InsertLemmas / NoFuel.uprase_gen_present_no_exn). *)
(* load_factor_too_low is thrown only when the load factor - the elements present before the call over the capacity
   at the hashpower where the expansion was refused, i.e. the one the call ends at - is STRICTLY below the minimum *)
Definition lf_below (pre post : obs) : bool :=
  o_size pre * o_mlfd pre <? o_mlfn pre * (N.shiftl 1 (o_hp post) * spb_).

Definition judge_insertish (present : bool) (s : sst) (a : nat) (t : stab) (pre post : obs) (r : out) (exp : out) (m' : smap)
  (cl : clause) : verdict :=
  if grew_below_minimum pre post then
    (if out_eqb r exp then blame (inval (put_m s a t m')) C10_limit else blame (inval s) C10_limit)
  else
  if out_eqb r exp then ok (inval (put_m s a t m'))
  else if is_exn r EMaxHashpower then
    if negb present && maxhp_allowed pre post None then ok (inval s) else blame (inval s) C10_limit
  else if is_exn r ELoadFactorTooLow then
    if negb present && lf_allowed pre && lf_below pre post then ok (inval s) else blame (inval s) C10_limit
  else blame (inval s) cl.

Definition fn_out (found : option Z) (newly : bool) : out :=
  match found with Some v => [RFn v newly] | None => [] end.

(* position bookkeeping against the remembered traversal order *)
Fixpoint ord_find_key (k : N) (o : order) : option (N * N) :=
  match o with
  | [] => None
  | (b, s, k', _) :: r => if k' =? k then Some (b, s) else ord_find_key k r
  end.
Fixpoint ord_succ (p : N * N) (o : order) : option (option (N * N)) :=
  (* Some (Some q): successor q; Some None: p is last (successor = end); None: p not in order *)
  match o with
  | [] => None
  | (b, s, _, _) :: r =>
    if (b =? fst p) && (s =? snd p) then
      match r with
      | [] => Some None
      | (b', s', _, _) :: _ => Some (Some (b', s'))
      end
    else ord_succ p r
  end.
Fixpoint ord_at (p : N * N) (o : order) : option (N * Z) :=
  match o with
  | [] => None
  | (b, s, k, v) :: r => if (b =? fst p) && (s =? snd p) then Some (k, v) else ord_at p r
  end.
Definition ord_first (o : order) : option (N * N) :=
  match o with [] => None | (b, s, _, _) :: _ => Some (b, s) end.
Definition ord_pred (p : N * N) (o : order) : option (option (N * N)) :=
  ord_succ p (rev o).
Definition ord_lastpos (o : order) : option (N * N) := ord_first (rev o).

Definition pos_eqb (p q : N * N) : bool := (fst p =? fst q) && (snd p =? snd q).

Definition endp (post : obs) : N * N := (N.shiftl 1 (o_hp post), 0).

(* does the traversal output enumerate exactly m, once each? *)
Fixpoint trav_matches (o : order) (m : smap) : bool :=
  match o with
  | [] => match m with [] => true | _ => false end
  | (_, _, k, v) :: r =>
    match sfind k m with
    | Some v' => Z.eqb v v' && trav_matches r (sremove k m)
    | None => false
    end
  end.

Fixpoint parse_trav (r : out) : option order :=
  match r with
  | [] => Some []
  | RPos b s :: RKV k v :: rest =>
    match parse_trav rest with Some o => Some ((b, s, k, v) :: o) | None => None end
  | _ => None
  end.

Fixpoint positions_sorted (o : order) : bool :=
  match o with
  | [] => true
  | (b, s, _, _) :: r =>
    match r with
    | [] => true
    | (b', s', _, _) :: _ => ((b <? b') || ((b =? b') && (s <? s'))) && positions_sorted r
    end
  end.

Definition in_range (post : obs) (o : order) : bool :=
  forallb (fun x => match x with (b, s, _, _) => (b <? N.shiftl 1 (o_hp post)) && (s <? spb_) end) o.

(* statistics clause (C05) and limit clause (C10), checked after every operation on the table it touched *)
Definition stats_ok (m : smap) (post : obs) : bool :=
  (o_size post =? ssize m) && (o_cap post =? N.shiftl 1 (o_hp post) * spb_).
Definition limit_ok (post : obs) : bool :=
  (o_mhp post =? NO_MAXIMUM_HASHPOWER) || (o_hp post <=? o_mhp post).

Definition mlf_valid (a : mlfarg) : bool :=
  match a with
  | MNaN => false
  | MRat neg n d => negb (d =? 0) && negb (neg && negb (n =? 0)) && (n <=? d)
  end.

(* register bookkeeping that must happen even while a table's contents are unknown to the spec *)
Definition track_regs (s : sst) (o : op) (r : out) : sst :=
  match o, r with
  | ItBegin ri, [RPos b sl] | ItEnd ri, [RPos b sl] | ItInc ri, [RPos b sl] | ItDec ri, [RPos b sl]
  | LFind _ ri, [RPos b sl] => set_it s ri (Some (b, sl))
  | LEraseIt _ dst, [RPos b sl] => set_it s dst (Some (b, sl))
  | _, _ => s
  end.

Definition judge_op (s : sst) (a : nat) (o : op) (r : out) (pre post : obs) : verdict :=
  match get_st s a with
  | None =>
    match o with
    | ONew _ => if out_eqb r [RNone] then ok (put_st s a (Some {| st_m := []; st_act := false; st_moved := false |})) else blame s C02_result
    | _ => ok s   (* operations on absent tables are never executed *)
    end
  | Some t =>
    let m := st_m t in
    if is_exn r EUnmodelled then ok s else   (* guarded (undefined-behaviour) operation: not executed *)
    if st_moved t && negb (match o with ODestroy | LTraverse | OLock | OUnlock => true | _ => false end) then ok (track_regs s o r) else
    match o with
    | OFind k =>
      let exp := match sfind k m with Some v => [RBool true; RInt v] | None => [RBool false] end in
      if out_eqb r exp then ok s else blame s C02_result
    | OFindThrow k =>
      let exp := match sfind k m with Some v => [RInt v] | None => [RExn EOutOfRange] end in
      if out_eqb r exp then ok s else blame s C02_result
    | OContains k =>
      if out_eqb r [RBool (match sfind k m with Some _ => true | None => false end)] then ok s else blame s C02_result
    | OFindFn k =>
      let exp := match sfind k m with Some v => [RBool true; RFn v false] | None => [RBool false] end in
      if out_eqb r exp then ok s else blame s C17_functor
    | OUpdate k v =>
      match sfind k m with
      | Some _ => if out_eqb r [RBool true] then ok (inval (put_m s a t (sset k v m))) else blame (inval s) C02_result
      | None => if out_eqb r [RBool false] then ok s else blame (inval s) C02_result
      end
    | OUpdateFn k f =>
      match sfind k m with
      | Some v => if out_eqb r [RBool true; RFn v false] then ok (inval (put_m s a t (sset k (fst (fapply f v false)) m)))
                  else blame (inval s) C17_functor
      | None => if out_eqb r [RBool false] then ok s else blame (inval s) C17_functor
      end
    | OErase k =>
      match sfind k m with
      | Some _ => if out_eqb r [RBool true] then ok (inval (put_m s a t (sremove k m))) else blame (inval s) C02_result
      | None => if out_eqb r [RBool false] then ok s else blame (inval s) C02_result
      end
    | OEraseFn k f =>
      match sfind k m with
      | Some v =>
        let '(v', er) := fapply f v false in
        if out_eqb r [RBool true; RFn v false] then
          ok (inval (put_m s a t (if er then sremove k m else sset k v' m)))
        else blame (inval s) C17_functor
      | None => if out_eqb r [RBool false] then ok s else blame (inval s) C17_functor
      end
    | OInsert k v =>
      match sfind k m with
      | Some _ => judge_insertish true s a t pre post r [RBool false] m C02_result
      | None => judge_insertish false s a t pre post r [RBool true] (sset k v m) C02_result
      end
    | OIoa k v =>
      match sfind k m with
      | Some _ => judge_insertish true s a t pre post r [RBool false] (sset k v m) C02_result
      | None => judge_insertish false s a t pre post r [RBool true] (sset k v m) C02_result
      end
    | OUpsert k f two v =>
      match sfind k m with
      | Some v0 =>
        judge_insertish true s a t pre post r [RBool false; RFn v0 false] (sset k (fst (fapply f v0 false)) m) C17_functor
      | None =>
        if two then judge_insertish false s a t pre post r [RBool true; RFn v true] (sset k (fst (fapply f v true)) m) C17_functor
        else judge_insertish false s a t pre post r [RBool true] (sset k v m) C17_functor
      end
    | OUprase k f two v =>
      match sfind k m with
      | Some v0 =>
        let '(v', er) := fapply f v0 false in
        judge_insertish true s a t pre post r [RBool false; RFn v0 false] (if er then sremove k m else sset k v' m) C17_functor
      | None =>
        if two then
          let '(v', er) := fapply f v true in
          judge_insertish false s a t pre post r [RBool true; RFn v true] (if er then m else sset k v' m) C17_functor
        else judge_insertish false s a t pre post r [RBool true] (sset k v m) C17_functor
      end
    | ORehash n | LRehash n =>
      if is_exn r EMaxHashpower then
        (* the request itself may exceed the maximum, or the rebuild may need more than the maximum
           allows for the present contents: both need a configured maximum; a request for the current
           size returns false before anything is checked *)
        if negb (o_mhp pre =? NO_MAXIMUM_HASHPOWER) && negb (n =? o_hp pre) then ok (inval s) else blame (inval s) C10_limit
      else if is_exn r ELoadFactorTooLow then blame (inval s) C10_limit  (* explicit requests never throw it *)
      else
        let changed := negb (n =? o_hp pre) in
        let res_ok := match o with ORehash _ => out_eqb r [RBool changed] | _ => out_eqb r [RNone] end in
        if res_ok && (n <=? o_hp post) then ok (inval s) else blame (inval s) C10_limit
    | OReserve n | LReserve n =>
      (* the hashpower the request asks for (Core.reserve_calc depends on the slots per bucket only) *)
      let target := reserve_calc {| spb := spb_; lbits := 0; simple := true; nothrow := true; destructive := false |} n in
      let changed := negb (target =? o_hp pre) in
      if is_exn r EMaxHashpower then
        if negb (o_mhp pre =? NO_MAXIMUM_HASHPOWER) && changed then ok (inval s) else blame (inval s) C10_limit
      else if is_exn r ELoadFactorTooLow then blame (inval s) C10_limit
      else
        (* n + slots-per-bucket wraps in the size_t arithmetic of reserve_calc: the request is then for a tiny table *)
        let big_enough := (18446744073709551616 <=? n + spb_) || (n <=? N.shiftl 1 (o_hp post) * spb_) in
        let res_ok := match o with OReserve _ => out_eqb r [RBool changed] | _ => out_eqb r [RNone] end in
        if res_ok && big_enough then ok (inval s) else blame (inval s) C10_limit
    | OClear | LClear =>
      if out_eqb r [RNone] then ok (inval (put_m s a t [])) else blame (inval s) C02_result
    | OMlf x =>
      if mlf_valid x then
        (if out_eqb r [RNone] then ok s else blame s C10_limit)
      else
        (* out-of-domain argument: must be rejected and have no effect *)
        if is_exn r EInvalidArgument && (o_mlfn post =? o_mlfn pre) && (o_mlfd post =? o_mlfd pre) then ok s
        else blame s C10_limit
    | OMhp n =>
      if n <? o_hp pre then
        if is_exn r EInvalidArgument && (o_mhp post =? o_mhp pre) then ok s else blame s C10_limit
      else if out_eqb r [RNone] && (o_mhp post =? n) then ok s else blame s C10_limit
    | OWorkers _ => ok s
    | OLock => if out_eqb r [RNone] then ok (reset_its_s (put_st s a (Some {| st_m := m; st_act := true; st_moved := st_moved t |}))) else blame s C02_result
    | OUnlock => if out_eqb r [RNone] then ok (reset_its_s (put_st s a (Some {| st_m := m; st_act := false; st_moved := st_moved t |}))) else blame s C02_result
    | LInsert k v =>
      if grew_below_minimum pre post then blame (lose s a t) C10_limit else
      match r with
      | [RPos b sl; RBool ins] =>
        let exp_ins := match sfind k m with Some _ => false | None => true end in
        let m' := if exp_ins then sset k v m else m in
        if Bool.eqb ins exp_ins then ok (inval (put_m s a t m')) else blame (inval s) C09_iter
      | _ =>
        let absent := match sfind k m with Some _ => false | None => true end in
        if is_exn r EMaxHashpower then (if absent && maxhp_allowed pre post None then ok (inval s) else blame (inval s) C10_limit)
        else if is_exn r ELoadFactorTooLow then (if absent && lf_allowed pre && lf_below pre post then ok (inval s) else blame (inval s) C10_limit)
        else blame (inval s) C09_iter
      end
    | LIdx k =>
      if grew_below_minimum pre post then blame (lose s a t) C10_limit else
      match sfind k m with
      | Some v => if out_eqb r [RInt v] then ok (inval s) else
                  if is_exn r EMaxHashpower || is_exn r ELoadFactorTooLow then blame (inval s) C10_limit else blame (inval s) C09_iter
      | None => if out_eqb r [RInt 0] then ok (inval (put_m s a t (sset k 0%Z m))) else
                if is_exn r EMaxHashpower then (if maxhp_allowed pre post None then ok (inval s) else blame (inval s) C10_limit)
                else if is_exn r ELoadFactorTooLow then (if lf_allowed pre && lf_below pre post then ok (inval s) else blame (inval s) C10_limit)
                else blame (inval s) C09_iter
      end
    | LEraseKey k =>
      match sfind k m with
      | Some _ => if out_eqb r [RNat 1] then ok (inval (put_m s a t (sremove k m))) else blame (inval s) C09_iter
      | None => if out_eqb r [RNat 0] then ok s else blame (inval s) C09_iter
      end
    | LEraseIt ri dst =>
      match r, nth ri (s_its s) None, s_order s with
      | [RPos b sl], Some p, Some od =>
        match ord_at p od, ord_succ p od with
        | Some (k, _), Some succ =>
          let expect := match succ with Some q => q | None => endp post end in
          let od' := filter (fun x => match x with (b', s', _, _) => negb (pos_eqb (b', s') p) end) od in
          let s1 := put_m s a t (sremove k m) in
          let s2 := {| s_tabs := s_tabs s1; s_its := set_nth dst (Some (b, sl)) (s_its s1);
                       s_order := Some od'; s_imgs := s_imgs s1 |} in
          if pos_eqb (b, sl) expect then ok s2 else blame s2 C09_iter
        | _, _ => ok (lose s a t)   (* position not known to the spec: cannot judge *)
        end
      | [RPos b sl], _, _ => ok (lose (set_it s dst (Some (b, sl))) a t)
      | _, _, _ => blame (inval s) C09_iter
      end
    | LFind k ri =>
      match r with
      | [RPos b sl] =>
        let s1 := set_it s ri (Some (b, sl)) in
        match s_order s with
        | Some od =>
          let expect := match ord_find_key k od with Some q => q | None => endp post end in
          if pos_eqb (b, sl) expect then ok s1 else blame s1 C09_iter
        | None =>
          (* without a remembered order only end-ness can be judged *)
          let is_end := pos_eqb (b, sl) (endp post) in
          let should_end := match sfind k m with Some _ => false | None => true end in
          if Bool.eqb is_end should_end then ok s1 else blame s1 C09_iter
        end
      | _ => blame s C09_iter
      end
    | LAt k =>
      let exp := match sfind k m with Some v => [RInt v] | None => [RExn EOutOfRange] end in
      if out_eqb r exp then ok s else blame s C09_iter
    | LCount k =>
      if out_eqb r [RNat (match sfind k m with Some _ => 1 | None => 0 end)] then ok s else blame s C09_iter
    | LRange k =>
      match r, s_order s with
      | [RPos b1 s1; RPos b2 s2], Some od =>
        match ord_find_key k od with
        | Some q =>
          let nxt := match ord_succ q od with Some (Some n) => n | _ => endp post end in
          if pos_eqb (b1, s1) q && pos_eqb (b2, s2) nxt then ok s else blame s C09_iter
        | None => if pos_eqb (b1, s1) (endp post) && pos_eqb (b2, s2) (endp post) then ok s else blame s C09_iter
        end
      | [RPos b1 s1; RPos b2 s2], None =>
        (* without a remembered order: an absent key gives (end, end), a present key a non-end first position *)
        let e1 := pos_eqb (b1, s1) (endp post) in
        match sfind k m with
        | Some _ => if negb e1 then ok s else blame s C09_iter
        | None => if e1 && pos_eqb (b2, s2) (endp post) then ok s else blame s C09_iter
        end
      | _, _ => blame s C09_iter
      end
    | ItBegin ri =>
      match r with
      | [RPos b sl] =>
        let s1 := set_it s ri (Some (b, sl)) in
        match s_order s with
        | Some od => let expect := match ord_first od with Some q => q | None => endp post end in
                     if pos_eqb (b, sl) expect then ok s1 else blame s1 C09_iter
        | None => let is_end := pos_eqb (b, sl) (endp post) in
                  if Bool.eqb is_end (match m with [] => true | _ => false end) then ok s1 else blame s1 C09_iter
        end
      | _ => blame s C09_iter
      end
    | ItEnd ri =>
      match r with
      | [RPos b sl] => let s1 := set_it s ri (Some (b, sl)) in
                       if pos_eqb (b, sl) (endp post) then ok s1 else blame s1 C09_iter
      | _ => blame s C09_iter
      end
    | ItInc ri =>
      match r, nth ri (s_its s) None, s_order s with
      | [RPos b sl], Some p, Some od =>
        let s1 := set_it s ri (Some (b, sl)) in
        match ord_succ p od with
        | Some succ => let expect := match succ with Some q => q | None => endp post end in
                       if pos_eqb (b, sl) expect then ok s1 else blame s1 C09_iter
        | None => ok s1   (* a stale position (its element was erased): successor unspecified here *)
        end
      | [RPos b sl], _, _ => ok (set_it s ri (Some (b, sl)))
      | _, _, _ => blame s C09_iter
      end
    | ItDec ri =>
      match r, nth ri (s_its s) None, s_order s with
      | [RPos b sl], Some p, Some od =>
        let s1 := set_it s ri (Some (b, sl)) in
        if pos_eqb p (endp post) then
          match ord_lastpos od with
          | Some q => if pos_eqb (b, sl) q then ok s1 else blame s1 C09_iter
          | None => blame s1 C09_iter
          end
        else
          match ord_pred p od with
          | Some (Some q) => if pos_eqb (b, sl) q then ok s1 else blame s1 C09_iter
          | _ => ok s1
          end
      | [RPos b sl], _, _ => ok (set_it s ri (Some (b, sl)))
      | _, _, _ => blame s C09_iter
      end
    | ItGet ri =>
      match r, nth ri (s_its s) None, s_order s with
      | [RKV k v], Some p, Some od =>
        match ord_at p od with
        | Some (k', v') => if (k =? k') && Z.eqb v v' then ok s else blame s C09_iter
        | None => blame s C09_iter
        end
      | [RKV k v], _, _ =>
        match sfind k m with Some v' => if Z.eqb v v' then ok s else blame s C09_iter | None => blame s C09_iter end
      | _, _, _ => blame s C09_iter
      end
    | ItSet ri v =>
      match nth ri (s_its s) None, s_order s with
      | Some p, Some od =>
        match ord_at p od with
        | Some (k, _) =>
          let od' := map (fun x => match x with (b', s', k', v') => if pos_eqb (b', s') p then (b', s', k', v) else x end) od in
          let s1 := put_m s a t (sset k v m) in
          ok {| s_tabs := s_tabs s1; s_its := s_its s1; s_order := Some od'; s_imgs := s_imgs s1 |}
        | None => ok (lose s a t)
        end
      | _, _ => ok (lose s a t)
      end
    | ItEq r1 r2 =>
      match r, nth r1 (s_its s) None, nth r2 (s_its s) None with
      | [RBool e], Some p, Some q => if Bool.eqb e (pos_eqb p q) then ok s else blame s C09_iter
      | [RBool _], _, _ => ok s
      | _, _, _ => blame s C09_iter
      end
    | LTraverse =>
      match parse_trav r with
      | Some od =>
        if st_moved t then
          (* resynchronise: adopt the traversal as the contents (duplicates are still an error) *)
          let m' := map (fun x => match x with (_, _, k, v) => (k, v) end) od in
          let s0 := put_m s a t m' in
          let s1 := {| s_tabs := s_tabs s0; s_its := s_its s0; s_order := Some od; s_imgs := s_imgs s0 |} in
          if trav_matches od m' && positions_sorted od && in_range post od then ok s1 else blame s1 C09_iter
        else
        let s1 := {| s_tabs := s_tabs s; s_its := s_its s; s_order := Some od; s_imgs := s_imgs s |} in
        let same_as_before := match s_order s with
                              | Some od0 => out_eqb r (flat_map (fun x => match x with (b, sl, k, v) => [RPos b sl; RKV k v] end) od0)
                              | None => true end in
        if trav_matches od m && positions_sorted od && in_range post od && same_as_before then ok s1 else blame s1 C09_iter
      | None => blame s C09_iter
      end
    | LRTraverse =>
      match parse_trav r with
      | Some od =>
        if trav_matches od m && positions_sorted (rev od) && in_range post od then
          match s_order s with
          | Some od0 => if out_eqb r (flat_map (fun x => match x with (b, sl, k, v) => [RPos b sl; RKV k v] end) (rev od0))
                        then ok s else blame s C09_iter
          | None => ok s
          end
        else blame s C09_iter
      | None => blame s C09_iter
      end
    | StreamOut si =>
      if out_eqb r [RNone] then
        ok {| s_tabs := s_tabs s; s_its := s_its s; s_order := s_order s;
              s_imgs := set_nth si (Some (m, o_mlfn pre, o_mlfd pre, o_mhp pre)) (s_imgs s) |}
      else blame s C12_stream
    | StreamIn si =>
      match nth si (s_imgs s) None with
      | None => ok s
      | Some (mi, a1, a2, a3) =>
        let s1 := reset_its_s (put_m s a t mi) in
        if out_eqb r [RNone] && (o_mlfn post =? a1) && (o_mlfd post =? a2) && (o_mhp post =? a3) then ok s1
        else blame s1 C12_stream
      end
    | ODestroy => ok (put_st s a None)
    | OCopyTo b | OCopyAllocTo b _ =>
      if out_eqb r [RNone] then ok (put_st s b (Some {| st_m := m; st_act := false; st_moved := false |})) else blame s C11_special
    | OMoveTo b | OMoveAllocTo b _ =>
      if out_eqb r [RNone] then ok (put_st (put_st s a (Some {| st_m := []; st_act := false; st_moved := true |})) b
                                          (Some {| st_m := m; st_act := false; st_moved := false |})) else blame s C11_special
    | OAssignTo b =>
      match get_st s b with
      | Some tb_ => if out_eqb r [RNone] then ok (put_m s b tb_ m) else blame s C11_special
      | None => ok s
      end
    | OMoveAssignTo b =>
      match get_st s b with
      | Some tb_ => if out_eqb r [RNone] then ok (put_m (put_st s a (Some {| st_m := []; st_act := false; st_moved := true |})) b tb_ m)
                    else blame s C11_special
      | None => ok s
      end
    | OSwap b =>
      match get_st s b with
      | Some tb_ => if out_eqb r [RNone] then
                      (if Nat.eqb a b then ok s else ok (put_m (put_m s a t (st_m tb_)) b tb_ m))
                    else blame s C11_special
      | None => ok s
      end
    | ONew _ => ok s
    end
  end.

(* after the operation: statistics and limits of every live table *)
Definition judge_stats (s : sst) (posts : list (option obs)) : list clause :=
  flat_map (fun p =>
    match p with
    | (Some t, Some ob) =>
      if st_moved t then [] else
      (if o_dead ob then (if o_size ob =? 0 then [] else [C05_size])
       else (if stats_ok (st_m t) ob then [] else [C05_size])) ++
      (if o_dead ob || limit_ok ob then [] else [C10_limit])
    | _ => []
    end) (combine (s_tabs s) posts).

End Judge.
