(* SpecSoundLocked.v: the LOCKED-TABLE clauses of the executable acceptor of Spec.v ([judge_op] on
   OUnlock, LInsert, LIdx, LEraseKey, LFind, LAt, LCount, LRange, LRehash, LReserve, LClear,
   LTraverse, LRTraverse) related to [LockedRefine.lop_spec], the map specification the sequential
   model is proved to satisfy in locked mode.  Companion of SpecSound.v (normal-mode clauses).
   For a present, not moved-from table slot whose association list represents [m] ([srep]):
     1. traversal outputs and remembered orders: [out_of_order], [parse_trav_out],
        [trav_matches_is_listing], [positions_sorted_sorted], [ord_find_key_listing];
     2. [lop_spec_abs]: the PROJECTION of [lop_spec] that drops the table-position facts
        ([at_pos], [occ_list], [t' = t]) the acceptor cannot check - the dropped conjuncts are
        listed at the definition - and [lop_spec_abs_of_spec]: it is implied by [lop_spec];
     3. SOUNDNESS of acceptance, one lemma per operation ([sound_LAt] .. [sound_LRTraverse]) and
        packaged: [judge_sound_locked] (nothing blamed -> result and new map are those of
        [lop_spec_abs] ITSELF for every operation; the one residual exception is L3': LRange on a
        present key while no traversal order is remembered), [judge_sound_locked_strict]
        (against [lop_spec_abs] alone when [lstrict] holds), [judge_sound_locked_lf] /
        [judge_sound_locked_idx_lf] (what acceptance says about the observed statistics);
     4. the traversals: [accepted_traverse_listing] / [accepted_rtraverse_listing] (the accepted
        output lists the map, each pair once, at strictly increasing / decreasing positions),
        [accepted_rtraverse_is_reverse] (forward then reverse traversal: exact reverse),
        [ord_inv_step] (the order bookkeeping invariant assumed by LFind / LRange / LRTraverse
        is kept by every accepted locked operation);
     5. COMPLETENESS for LAt / LCount / LEraseKey / LClear / LInsert / LIdx ([judge_complete_locked],
        against the projection, hence against [lop_spec]) and LFind ([complete_LFind_noorder],
        [complete_LFind]);
     6. composition with the model ([model_accepted_locked]);
     7. the FORMER FINDINGS L1-L5 of the first version of this file (outputs [lop_spec] forbids that
        the acceptor passed; Spec.v has been tightened, they are now blamed: [L1_now_blamed] ..
        [L5_now_blamed]), the residual finding L3', the counterexample to "reverse of the forward
        traversal in the same state", non-vacuity.
   The activity flag [st_act] plays no role in these clauses of [judge_op] (no hypothesis on it;
   it is preserved, [lpost_ok], and cleared by OUnlock).  Not covered: the iterator-register
   operations (ItBegin .. ItEq, LEraseIt), the resynchronising LTraverse of a moved-from slot. *)
From Coq Require Import NArith ZArith List Bool Arith Lia Sorted.
From LC Require Import gen.HashGen Bits Core Api InvDefs Stats Iter Refine Lazy LazyRefine LockedRefine Spec SpecSound.
Import ListNotations.
Local Open Scope N_scope.

(* ================================================================== 1. traversal outputs and remembered orders *)

Definition opos (x : N * N * N * Z) : N * N := match x with (b, s, _, _) => (b, s) end.
Definition okv (x : N * N * N * Z) : N * Z := match x with (_, _, k, v) => (k, v) end.
Definition out_of_order (od : order) : out :=
  flat_map (fun x => match x with (b, sl, k, v) => [RPos b sl; RKV k v] end) od.

Lemma out_of_order_cons b s k v od :
  out_of_order ((b, s, k, v) :: od) = RPos b s :: RKV k v :: out_of_order od.
Proof. reflexivity. Qed.

Lemma parse_trav_out_n : forall n r od, (length r <= n)%nat -> parse_trav r = Some od -> r = out_of_order od.
Proof.
  induction n as [|n IH]; intros r od Hl H.
  - destruct r as [|x r]; [|cbn [length] in Hl; lia]. cbn [parse_trav] in H. injection H as <-. reflexivity.
  - destruct r as [|x [|y rest]].
    + cbn [parse_trav] in H. injection H as <-. reflexivity.
    + destruct x; discriminate H.
    + destruct x; try discriminate H. destruct y; try discriminate H.
      cbn [parse_trav] in H. destruct (parse_trav rest) as [o|] eqn:E; [|discriminate H]. injection H as <-.
      rewrite out_of_order_cons. f_equal. f_equal. apply IH; [cbn [length] in Hl; lia|exact E].
Qed.

Lemma parse_trav_out r od : parse_trav r = Some od -> r = out_of_order od.
Proof. apply (parse_trav_out_n (length r)). apply Nat.le_refl. Qed.

Lemma parse_trav_of_order od : parse_trav (out_of_order od) = Some od.
Proof.
  induction od as [|[[[b s] k] v] od IH]; [reflexivity|].
  rewrite out_of_order_cons. cbn [parse_trav]. rewrite IH. reflexivity.
Qed.

Lemma out_of_order_inj od od' : out_of_order od = out_of_order od' -> od = od'.
Proof.
  intro H. assert (X : parse_trav (out_of_order od) = parse_trav (out_of_order od')) by (rewrite H; reflexivity).
  rewrite !parse_trav_of_order in X. injection X as ->. reflexivity.
Qed.

Lemma norm_out_of_order od : norm_out (out_of_order od) = out_of_order od.
Proof.
  induction od as [|[[[b s] k] v] od IH]; [reflexivity|].
  rewrite out_of_order_cons. unfold norm_out in *. cbn [map norm_rv]. rewrite IH. reflexivity.
Qed.

Lemma kvs_out_of_order od : kvs (out_of_order od) = map okv od.
Proof.
  induction od as [|[[[b s] k] v] od IH]; [reflexivity|].
  rewrite out_of_order_cons. unfold kvs in *. cbn [flat_map app map okv]. rewrite IH. reflexivity.
Qed.

Lemma out_of_order_rev_kvs od : kvs (out_of_order (rev od)) = rev (kvs (out_of_order od)).
Proof. rewrite !kvs_out_of_order. apply map_rev. Qed.

(* the positions a traversal output reports *)
Definition poss (r : out) : list (N * N) :=
  flat_map (fun x => match x with RPos b s => [(b, s)] | _ => [] end) r.

Lemma poss_out_of_order od : poss (out_of_order od) = map opos od.
Proof.
  induction od as [|[[[b s] k] v] od IH]; [reflexivity|].
  rewrite out_of_order_cons. unfold poss in *. cbn [flat_map app map opos]. rewrite IH. reflexivity.
Qed.

(* [trav_matches od sm]: the pairs of [od] are exactly the bindings of [sm], each key once *)
Lemma trav_matches_listing : forall od sm, trav_matches od sm = true ->
  NoDup (map fst (map okv od)) /\ forall k v, In (k, v) (map okv od) <-> sfind k sm = Some v.
Proof.
  induction od as [|[[[b s] k] v] od IH]; intros sm H.
  - destruct sm as [|x sm]; [|discriminate H]. split; [constructor|]. intros k v. cbn [map In sfind].
    split; [intros []|discriminate].
  - cbn [trav_matches] in H. destruct (sfind k sm) as [v'|] eqn:Ef; [|discriminate H].
    apply andb_true_iff in H. destruct H as [Hv H]. apply Z.eqb_eq in Hv. subst v'.
    destruct (IH _ H) as [Hnd Hin]. cbn [map okv fst].
    assert (Hk : ~ In k (map fst (map okv od))).
    { intro Hi. apply in_map_iff in Hi. destruct Hi as [[k0 v0] [Hk0 Hi]]. cbn [fst] in Hk0. subst k0.
      apply Hin in Hi. rewrite sfind_sremove_same in Hi. discriminate Hi. }
    split; [constructor; assumption|]. intros k0 v0. cbn [In]. split.
    + intros [E|Hi].
      * injection E as <- <-. exact Ef.
      * assert (Hne : k0 <> k).
        { intros ->. apply Hk. apply in_map_iff. exists (k, v0). split; [reflexivity|exact Hi]. }
        apply Hin in Hi. rewrite sfind_sremove_other in Hi by exact Hne. exact Hi.
    + intro Hf. destruct (N.eq_dec k0 k) as [->|Hne].
      * left. rewrite Ef in Hf. injection Hf as ->. reflexivity.
      * right. apply Hin. rewrite sfind_sremove_other by exact Hne. exact Hf.
Qed.

Lemma trav_matches_is_listing od sm m :
  srep sm m -> trav_matches od sm = true -> is_listing m (map okv od).
Proof.
  intros [_ R] H. destruct (trav_matches_listing od sm H) as [Hnd Hin]. split; [exact Hnd|].
  intros k v. rewrite Hin, R. reflexivity.
Qed.

(* the remembered position of a key *)
Lemma ord_find_key_none k od : ord_find_key k od = None <-> ~ In k (map fst (map okv od)).
Proof.
  induction od as [|[[[b s] k'] v] od IH]; cbn [ord_find_key map okv fst In].
  - split; [intros _ []|reflexivity].
  - destruct (N.eqb_spec k' k) as [E|E].
    + split; [discriminate|]. intro H. exfalso. apply H. left. exact E.
    + rewrite IH. split.
      * intros H [H1|H1]; [contradiction|exact (H H1)].
      * intros H H1. apply H. right. exact H1.
Qed.

Lemma ord_find_key_some k od q :
  ord_find_key k od = Some q -> exists l1 v l2, od = l1 ++ (fst q, snd q, k, v) :: l2.
Proof.
  induction od as [|[[[b s] k'] v] od IH]; cbn [ord_find_key]; [discriminate|].
  destruct (N.eqb_spec k' k) as [E|E].
  - intro H. injection H as <-. subst k'. exists [], v, od. reflexivity.
  - intro H. destruct (IH H) as [l1 [v0 [l2 ->]]]. exists ((b, s, k', v) :: l1), v0, l2. reflexivity.
Qed.

Lemma ord_find_key_listing k od sm :
  trav_matches od sm = true -> (ord_find_key k od = None <-> sfind k sm = None).
Proof.
  intro H. destruct (trav_matches_listing od sm H) as [_ Hin]. rewrite ord_find_key_none. split.
  - intro Hn. destruct (sfind k sm) as [v|] eqn:E; [|reflexivity]. exfalso. apply Hn.
    apply in_map_iff. exists (k, v). split; [reflexivity|]. apply Hin. exact E.
  - intros Hn Hi. apply in_map_iff in Hi. destruct Hi as [[k0 v0] [Hk0 Hi]]. cbn [fst] in Hk0. subst k0.
    apply Hin in Hi. congruence.
Qed.

(* adjacent comparison = strictly increasing *)
Lemma lex_lt_trans : Relations_1.Transitive lex_lt.
Proof. intros [a b] [a' b'] [a'' b'']. unfold lex_lt. cbn [fst snd]. lia. Qed.

Lemma positions_sorted_cons2 b s k v b' s' k' v' od :
  Spec.positions_sorted ((b, s, k, v) :: (b', s', k', v') :: od) =
  ((b <? b') || ((b =? b') && (s <? s'))) && Spec.positions_sorted ((b', s', k', v') :: od).
Proof. reflexivity. Qed.

Lemma positions_sorted_sorted od :
  Spec.positions_sorted od = true -> StronglySorted lex_lt (map opos od).
Proof.
  intro H. apply Sorted_StronglySorted; [exact lex_lt_trans|].
  induction od as [|[[[b s] k] v] od IH]; [constructor|].
  cbn [map opos]. destruct od as [|[[[b' s'] k'] v'] od].
  - constructor; constructor.
  - rewrite positions_sorted_cons2 in H. apply andb_true_iff in H. destruct H as [H1 H2].
    constructor; [apply IH; exact H2|]. cbn [map opos]. constructor. unfold lex_lt. cbn [fst snd].
    apply orb_true_iff in H1. destruct H1 as [H1|H1].
    + left. apply N.ltb_lt. exact H1.
    + apply andb_true_iff in H1. destruct H1 as [H1 H3]. right. split; [apply N.eqb_eq; exact H1|apply N.ltb_lt; exact H3].
Qed.

Lemma sorted_positions_sorted od :
  StronglySorted lex_lt (map opos od) -> Spec.positions_sorted od = true.
Proof.
  induction od as [|[[[b s] k] v] od IH]; [reflexivity|].
  intro H. cbn [map opos] in H. inversion H as [|x l Hs Hf]; subst.
  destruct od as [|[[[b' s'] k'] v'] od]; [reflexivity|].
  rewrite positions_sorted_cons2. rewrite (IH Hs), andb_true_r.
  cbn [map opos] in Hf. inversion Hf as [|y l' Hlt _]; subst. unfold lex_lt in Hlt. cbn [fst snd] in Hlt.
  destruct Hlt as [Hlt|[He Hlt]].
  - apply orb_true_iff. left. apply N.ltb_lt. exact Hlt.
  - apply orb_true_iff. right. apply andb_true_iff. split; [apply N.eqb_eq; exact He|apply N.ltb_lt; exact Hlt].
Qed.

Lemma SSorted_app_mid {A} (R : A -> A -> Prop) l1 x l2 :
  StronglySorted R (l1 ++ x :: l2) -> Forall (R x) l2.
Proof.
  induction l1 as [|y l1 IH]; cbn [app]; intro H; inversion H; subst; [assumption|]. apply IH. assumption.
Qed.

(* ================================================================== 2. the projected specification *)

Section Sound.
Variable c : config.
Variable fapply : fnk -> Z -> bool -> Z * bool.
Variable spb_ : N.
Notation judge := (judge_op fapply spb_).
Notation lop_spec := (lop_spec c).

(* the exception side condition as far as the acceptor can see it: [Refine.exn_ok0] (read from the
   pre-observation) and, for maximum_hashpower_exceeded, the final hashpower.
   DROPPED from [Refine.exn_ok c true t t' e]: [e = ELoadFactorTooLow -> lf_lt_mlf c t' = true]
   (the acceptor checks its own reading [lf_below] instead, see [judge_sound_locked_lf]). *)
Definition lexn_abs (t t' : table) (e : exn) : Prop :=
  exn_ok0 true t e /\ (e = EMaxHashpower -> bhp (cur t') = mhp t).

Definition in_table (t : table) (p : N * N) : Prop := fst p < fst (it_end t) /\ snd p < spb c.

(* THE PROJECTION of [LockedRefine.lop_spec].  Dropped conjuncts, per operation:
   - every operation: [t' = t] (the acceptor has no table); what remains of t' is its hashpower
     (LRehash / LReserve / the maximum-hashpower exception of LInsert / LIdx);
   - LInsert: [at_pos t' p k v0] / [at_pos t' p k v] (the printed position holds the pair): any
     position is allowed; [exn_ok] becomes [lexn_abs];
   - LIdx: [exn_ok] becomes [lexn_abs];
   - LFind: [at_pos t p k v] becomes [p <> it_end t] (end() iff the key is absent);
   - LRange: [at_pos t p k v] and "q is the successor of p in [occ_list]" become
     [p <> it_end t] and [lex_lt p q];
   - LTraverse: [r = flat_map (visit t) (occ_list c (cur t))] and [kvs r = contents t] become:
     r is a well-formed traversal output ([out_of_order od]) whose pairs list the map, whose
     positions are strictly increasing and inside the table;
   - LRTraverse: the same for the reversed output;
   - OUnlock, LEraseKey, LAt, LCount, LRehash, LReserve, LClear: nothing but [t' = t]. *)
Definition lop_spec_abs (t : table) (m : amap) (o : op) (r : out) (t' : table) (m' : amap) : Prop :=
  match o with
  | OUnlock => meq m' m /\ r = [RNone]
  | LInsert k v =>
      match m k with
      | Some v0 => meq m' m /\ exists p : N * N, r = [RPos (fst p) (snd p); RBool false]
      | None =>
          (exists e, r = [RExn e] /\ meq m' m /\ lexn_abs t t' e) \/
          (meq m' (mset m k (Some v)) /\ exists p : N * N, r = [RPos (fst p) (snd p); RBool true])
      end
  | LIdx k =>
      match m k with
      | Some v0 => meq m' m /\ r = [RInt v0]
      | None =>
          (exists e, r = [RExn e] /\ meq m' m /\ lexn_abs t t' e) \/
          (meq m' (mset m k (Some 0%Z)) /\ r = [RInt 0%Z])
      end
  | LEraseKey k => meq m' (mset m k None) /\ r = [RNat (if is_some (m k) then 1 else 0)]
  | LFind k _ =>
      meq m' m /\ exists p : N * N, r = [RPos (fst p) (snd p)] /\ (m k = None <-> p = it_end t)
  | LAt k => meq m' m /\ r = match m k with Some v => [RInt v] | None => [RExn EOutOfRange] end
  | LCount k => meq m' m /\ r = [RNat (if is_some (m k) then 1 else 0)]
  | LRange k =>
      meq m' m /\
      match m k with
      | Some _ =>
          exists p q : N * N, r = [RPos (fst p) (snd p); RPos (fst q) (snd q)] /\ p <> it_end t /\ lex_lt p q
      | None => r = [RPos (fst (it_end t)) (snd (it_end t)); RPos (fst (it_end t)) (snd (it_end t))]
      end
  | LRehash n => lresize_spec t n m r t' m'
  | LReserve n => lresize_spec t (reserve_calc c n) m r t' m'
  | LClear => meq m' mempty /\ r = [RNone]
  | LTraverse =>
      meq m' m /\ exists od, r = out_of_order od /\ is_listing m (map okv od) /\
        StronglySorted lex_lt (map opos od) /\ Forall (in_table t) (map opos od)
  | LRTraverse =>
      meq m' m /\ exists od, r = out_of_order od /\ is_listing m (map okv od) /\
        StronglySorted lex_lt (map opos (rev od)) /\ Forall (in_table t) (map opos od)
  | _ => False
  end.

(* ---- it IS a projection: implied by [lop_spec] on a well-formed table *)
Section Projection.
Variable hash : N -> N.
Hypothesis Hc : cfg_ok c.

Lemma it_end_pow t : good c hash t -> it_end t = (2 ^ bhp (cur t), 0).
Proof. intro G. unfold it_end. apply (end_pos_eq c (co_spb _ Hc) t (good_hp62 c hash t G)). Qed.

Lemma occ_in_table t p : good c hash t -> In p (occ_list c (cur t)) -> in_table t p /\ p <> it_end t.
Proof.
  intros G Hp. apply In_occ_list in Hp. destruct Hp as [H1 [H2 _]]. unfold in_table.
  rewrite (it_end_pow t G). cbn [fst]. split; [split; assumption|]. intro E. rewrite E in H1. cbn [fst] in H1. lia.
Qed.

Definition ord_at_table (t : table) (p : N * N) : N * N * N * Z :=
  (fst p, snd p, fst (kv_at (cur t) p), snd (kv_at (cur t) p)).

Lemma visits_out_of_order t : forall l,
  (forall p, In p l -> In p (occ_list c (cur t))) ->
  flat_map (visit t) l = out_of_order (map (ord_at_table t) l).
Proof.
  induction l as [|p l IH]; intro Hl; [reflexivity|].
  cbn [flat_map map]. rewrite IH by (intros q Hq; apply Hl; right; exact Hq).
  destruct (visit_occ c t p (Hl p (or_introl eq_refl))) as [e [He Hv]].
  rewrite Hv. assert (E : ord_at_table t p = (fst p, snd p, ekey e, eval e)).
  { unfold ord_at_table, kv_at. rewrite He. reflexivity. }
  rewrite E, out_of_order_cons. reflexivity.
Qed.

Lemma opos_ord_at_table t l : map opos (map (ord_at_table t) l) = l.
Proof.
  rewrite map_map. rewrite <- (map_id l) at 2. apply map_ext. intros [b s]. reflexivity.
Qed.

Theorem lop_spec_abs_of_spec t m o r t' m' :
  nothrow c = true -> good c hash t -> lop_spec t m o r t' m' -> lop_spec_abs t m o r t' m'.
Proof.
  intros Hnt G H. destruct o; cbn [LockedRefine.lop_spec] in H; cbn [lop_spec_abs]; try exact H.
  - (* OUnlock *) destruct H as [H1 [_ H2]]. split; assumption.
  - (* LInsert *) destruct (m k) as [v0|].
    + destruct H as [H1 [p [H2 _]]]. split; [exact H1|]. exists p. exact H2.
    + destruct H as [[e [H1 [H2 [H3 H4]]]]|[H1 [p [H2 _]]]].
      * left. exists e. split; [exact H1|]. split; [exact H2|]. split; [exact H3|]. exact (proj1 (H4 Hnt)).
      * right. split; [exact H1|]. exists p. exact H2.
  - (* LFind *) destruct H as [H1 [_ [p [H2 H3]]]]. split; [exact H1|]. exists p. split; [exact H2|].
    destruct (m k) as [v|].
    + split; [discriminate|]. intro E. exfalso.
      exact (proj2 (occ_in_table t p G (at_pos_occ c hash t p k v G H3)) E).
    + split; [intros _; exact H3|reflexivity].
  - (* LAt *) destruct H as [H1 [_ H2]]. split; assumption.
  - (* LIdx *) destruct (m k) as [v0|]; [exact H|].
    destruct H as [[e [H1 [H2 [H3 H4]]]]|H]; [left|right; exact H].
    exists e. split; [exact H1|]. split; [exact H2|]. split; [exact H3|]. exact (proj1 (H4 Hnt)).
  - (* LCount *) destruct H as [H1 [_ H2]]. split; assumption.
  - (* LRange *) destruct H as [H1 [_ H2]]. split; [exact H1|]. destruct (m k) as [v|]; [|exact H2].
    destruct H2 as [p [l1 [l2 [Hat [Eo Hr]]]]]. exists p, (hd (it_end t) l2). split; [exact Hr|].
    assert (Hp := occ_in_table t p G (at_pos_occ c hash t p k v G Hat)). split; [exact (proj2 Hp)|].
    destruct l2 as [|q l2]; cbn [hd].
    + destruct Hp as [[Hp _] _]. left. exact Hp.
    + assert (Hs := occ_list_sorted c (cur t)). rewrite Eo in Hs. apply SSorted_app_mid in Hs.
      inversion Hs; assumption.
  - (* LTraverse *) destruct H as [H1 [_ [H2 [_ H3]]]]. split; [exact H1|].
    exists (map (ord_at_table t) (occ_list c (cur t))).
    assert (E : r = out_of_order (map (ord_at_table t) (occ_list c (cur t)))).
    { rewrite H2. apply visits_out_of_order. intros p Hp. exact Hp. }
    split; [exact E|]. split; [rewrite <- kvs_out_of_order, <- E; exact H3|].
    rewrite opos_ord_at_table. split; [apply occ_list_sorted|].
    apply Forall_forall. intros p Hp. exact (proj1 (occ_in_table t p G Hp)).
  - (* LRTraverse *) destruct H as [H1 [_ [H2 [_ H3]]]]. split; [exact H1|].
    exists (map (ord_at_table t) (rev (occ_list c (cur t)))).
    assert (E : r = out_of_order (map (ord_at_table t) (rev (occ_list c (cur t))))).
    { rewrite H2. apply visits_out_of_order. intros p Hp. apply in_rev. exact Hp. }
    split; [exact E|]. split; [rewrite <- kvs_out_of_order, <- E; exact H3|].
    rewrite <- map_rev, rev_involutive, !opos_ord_at_table. split; [apply occ_list_sorted|].
    apply Forall_forall. intros p Hp. apply in_rev in Hp. exact (proj1 (occ_in_table t p G Hp)).
Qed.

End Projection.

(* ================================================================== 3. soundness of acceptance, per operation *)

(* The first version of this file found five kinds of outputs the acceptor passed although
   [lop_spec] forbids them (L1 LInsert: policy exception on a present key; L2 LIdx: policy
   exceptions with no side condition; L3 LRange with no remembered order: any two positions;
   L4 LRTraverse: positions outside the table; L5 LTraverse ignoring the remembered order).
   Spec.v has been tightened; they are now blamed (section 8) and soundness is against the
   projection itself, with ONE residual case:
   L3' LRange on a PRESENT key while no traversal order is remembered: the first position must
       be a non-end position, but the second position is not looked at (the projection asks
       [lex_lt p q], which the two printed positions alone would decide). *)
Definition lop_unchecked (t : table) (m : amap) (o : op) (r : out) (m' : amap) : Prop :=
  match o with
  | LRange k =>
      m k <> None /\ meq m' m /\
      exists p q : N * N, r = [RPos (fst p) (snd p); RPos (fst q) (snd q)] /\ p <> it_end t
  | _ => False
  end.

(* the cases in which L3' cannot occur: every operation but LRange; LRange while a traversal
   order is remembered or on an absent key *)
Definition lstrict (s : sst) (m : amap) (o : op) : Prop :=
  match o with
  | LRange k => s_order s = None -> m k = None
  | _ => True
  end.

(* how the observed statistics relate to the tables [lop_spec] talks about, as far as the
   acceptor reads them: the end() position (LFind, LRange, LTraverse, LRTraverse: t' = t), the
   pre-observation and the final hashpower (operations that may resize).  LReserve: the request
   is in the range where [reserve_calc] is the least fitting hashpower (Stats.reserve_calc_spec;
   outside it the acceptor's check "capacity >= n" and "hashpower >= reserve_calc n" differ). *)
Definition lobs (tb tb' : table) (o : op) (pre post : obs) : Prop :=
  match o with
  | LFind _ _ | LRange _ | LTraverse | LRTraverse => endp post = it_end tb
  | LInsert _ _ | LIdx _ | LRehash _ => obs_pre tb pre /\ o_hp post = bhp (cur tb')
  | LReserve n =>
      obs_pre tb pre /\ o_hp post = bhp (cur tb') /\ 0 < spb c /\ n + spb c < 2 ^ 64 /\ n <= 2 ^ 63 * spb c
  | _ => True
  end.

(* the bookkeeping invariant of the remembered traversal order: it lists the acceptor's map, in
   strictly increasing positions inside the table (established by an accepted LTraverse, kept by
   every locked operation: [ord_inv_step]) *)
Definition ord_inv (s : sst) (t : stab) (post : obs) : Prop :=
  forall od, s_order s = Some od ->
    trav_matches od (st_m t) = true /\ Spec.positions_sorted od = true /\ in_range spb_ post od = true.

Definition lpost_ok (s' : sst) (a : nat) (o : op) (t : stab) (m' : amap) : Prop :=
  exists t', get_st s' a = Some t' /\
             st_act t' = (match o with OUnlock => false | _ => st_act t end) /\
             st_moved t' = false /\ srep (st_m t') m'.

Lemma post_ok_lpost_ok s' a o t m' : o <> OUnlock -> post_ok s' a t m' -> lpost_ok s' a o t m'.
Proof. intros Hne H. destruct o; try exact H. exfalso. apply Hne. reflexivity. Qed.

Lemma pos_eqb_eq p q : pos_eqb p q = true <-> p = q.
Proof.
  destruct p as [a1 b1], q as [a2 b2]. unfold pos_eqb. cbn [fst snd].
  rewrite andb_true_iff, !N.eqb_eq. split; [intros [-> ->]; reflexivity|intro H; injection H as -> ->; split; reflexivity].
Qed.

Lemma in_range_in post od x :
  in_range spb_ post od = true -> In x od -> fst (opos x) < fst (endp post) /\ snd (opos x) < spb_.
Proof.
  intros H Hx. unfold in_range in H. rewrite forallb_forall in H. specialize (H x Hx).
  destruct x as [[[b s] k] v]. apply andb_true_iff in H. destruct H as [H1 H2].
  apply N.ltb_lt in H1. apply N.ltb_lt in H2. cbn [opos fst snd endp]. split; assumption.
Qed.

Lemma in_range_not_end post od x : in_range spb_ post od = true -> In x od -> opos x <> endp post.
Proof. intros H Hx E. destruct (in_range_in post od x H Hx) as [H1 _]. rewrite E in H1. lia. Qed.

Ltac jred Hj Hg Hun Hmv :=
  unfold judge_op in Hj; rewrite Hg, Hun, Hmv in Hj; cbv beta iota zeta in Hj; cbn [andb] in Hj;
  unfold ok, blame in Hj.

(* ---- LAt / LCount / LEraseKey / LClear / OUnlock: against the projection itself *)

Lemma sound_LAt tb tb' s a t m k r pre post s' :
  get_st s a = Some t -> st_moved t = false -> srep (st_m t) m -> is_exn r EUnmodelled = false ->
  judge s a (LAt k) r pre post = (s', []) ->
  exists m' r0, norm_out r0 = norm_out r /\ post_ok s' a t m' /\ lop_spec_abs tb m (LAt k) r0 tb' m'.
Proof.
  intros Hg Hmv R Hun Hj. jred Hj Hg Hun Hmv.
  destruct (out_eqb r _) eqn:E; [|discriminate Hj]. injection Hj as <-.
  rewrite (proj2 R k) in E. apply out_eqb_norm in E.
  exists m, (match m k with Some v => [RInt v] | None => [RExn EOutOfRange] end).
  split; [symmetry; exact E|]. split; [apply post_ok_same; assumption|].
  cbn [lop_spec_abs]. split; [intro; reflexivity|reflexivity].
Qed.

Lemma sound_LCount tb tb' s a t m k r pre post s' :
  get_st s a = Some t -> st_moved t = false -> srep (st_m t) m -> is_exn r EUnmodelled = false ->
  judge s a (LCount k) r pre post = (s', []) ->
  exists m' r0, norm_out r0 = norm_out r /\ post_ok s' a t m' /\ lop_spec_abs tb m (LCount k) r0 tb' m'.
Proof.
  intros Hg Hmv R Hun Hj. jred Hj Hg Hun Hmv.
  destruct (out_eqb r _) eqn:E; [|discriminate Hj]. injection Hj as <-.
  rewrite (proj2 R k) in E. apply out_eqb_norm in E.
  exists m, [RNat (if is_some (m k) then 1 else 0)].
  split; [rewrite E; destruct (m k); reflexivity|]. split; [apply post_ok_same; assumption|].
  cbn [lop_spec_abs]. split; [intro; reflexivity|reflexivity].
Qed.

Lemma sound_LEraseKey tb tb' s a t m k r pre post s' :
  get_st s a = Some t -> st_moved t = false -> srep (st_m t) m -> is_exn r EUnmodelled = false ->
  judge s a (LEraseKey k) r pre post = (s', []) ->
  exists m' r0, norm_out r0 = norm_out r /\ post_ok s' a t m' /\ lop_spec_abs tb m (LEraseKey k) r0 tb' m'.
Proof.
  intros Hg Hmv R Hun Hj. jred Hj Hg Hun Hmv. assert (Hf := proj2 R k).
  destruct (sfind k (st_m t)) as [v0|] eqn:Ef.
  - destruct (out_eqb r _) eqn:E; [|discriminate Hj]. injection Hj as <-. apply out_eqb_norm in E.
    exists (mset m k None), [RNat 1]. split; [symmetry; exact E|].
    split; [apply post_ok_put; [assumption|apply srep_sremove; exact R]|].
    cbn [lop_spec_abs]. rewrite <- Hf. split; [intro; reflexivity|reflexivity].
  - destruct (out_eqb r _) eqn:E; [|discriminate Hj]. injection Hj as <-. apply out_eqb_norm in E.
    exists m, [RNat 0]. split; [symmetry; exact E|]. split; [apply post_ok_same; assumption|].
    cbn [lop_spec_abs]. rewrite <- Hf. split; [|reflexivity].
    apply meq_mset_self. symmetry. exact Hf.
Qed.

Lemma sound_LClear tb tb' s a t m r pre post s' :
  get_st s a = Some t -> st_moved t = false -> srep (st_m t) m -> is_exn r EUnmodelled = false ->
  judge s a LClear r pre post = (s', []) ->
  exists m' r0, norm_out r0 = norm_out r /\ post_ok s' a t m' /\ lop_spec_abs tb m LClear r0 tb' m'.
Proof.
  intros Hg Hmv R Hun Hj. jred Hj Hg Hun Hmv.
  destruct (out_eqb r _) eqn:E; [|discriminate Hj]. injection Hj as <-. apply out_eqb_norm in E.
  exists mempty, [RNone]. split; [symmetry; exact E|].
  split; [apply post_ok_put; [assumption|apply srep_nil]|].
  cbn [lop_spec_abs]. split; [intro; reflexivity|reflexivity].
Qed.

Lemma sound_OUnlock tb tb' s a t m r pre post s' :
  get_st s a = Some t -> st_moved t = false -> srep (st_m t) m -> is_exn r EUnmodelled = false ->
  judge s a OUnlock r pre post = (s', []) ->
  exists m' r0, norm_out r0 = norm_out r /\ lpost_ok s' a OUnlock t m' /\ lop_spec_abs tb m OUnlock r0 tb' m'.
Proof.
  intros Hg Hmv R Hun Hj. jred Hj Hg Hun Hmv.
  destruct (out_eqb r _) eqn:E; [|discriminate Hj]. injection Hj as <-. apply out_eqb_norm in E.
  exists m, [RNone]. split; [symmetry; exact E|]. split.
  - eexists. split.
    + unfold get_st, reset_its_s, put_st. cbn [s_tabs]. apply nth_set_nth_same. apply (nth_some_lt _ _ _ Hg).
    + cbn [st_act st_moved st_m]. split; [reflexivity|]. split; [reflexivity|exact R].
  - cbn [lop_spec_abs]. split; [intro; reflexivity|reflexivity].
Qed.

(* ---- LInsert *)

(* the policy-exception branches of the LInsert clause ([absent]: the key is not in the map) and
   of the absent-key case of the LIdx clause ([absent] = true) *)
Definition lins_exn_chain (s : sst) (r : out) (absent : bool) (pre post : obs) : verdict :=
  if is_exn r EMaxHashpower
  then (if absent && maxhp_allowed pre post None then (inval s, []) else (inval s, [C10_limit]))
  else if is_exn r ELoadFactorTooLow
       then (if absent && lf_allowed pre && lf_below spb_ pre post then (inval s, []) else (inval s, [C10_limit]))
  else (inval s, [C09_iter]).

Lemma lins_exn_chain_inv s r absent pre post s' :
  lins_exn_chain s r absent pre post = (s', []) ->
  s' = inval s /\ absent = true /\
  ((norm_out r = [RExn EMaxHashpower] /\ maxhp_allowed pre post None = true) \/
   (norm_out r = [RExn ELoadFactorTooLow] /\ lf_allowed pre = true /\ lf_below spb_ pre post = true)).
Proof.
  unfold lins_exn_chain. intro Hj.
  destruct (is_exn r EMaxHashpower) eqn:E1.
  { destruct absent; [|discriminate Hj]. cbn [andb] in Hj.
    destruct (maxhp_allowed pre post None) eqn:E2; [|discriminate Hj]. injection Hj as <-.
    split; [reflexivity|]. split; [reflexivity|]. left. split; [apply is_exn_iff; exact E1|reflexivity]. }
  destruct (is_exn r ELoadFactorTooLow) eqn:E2; [|discriminate Hj].
  destruct absent; [|discriminate Hj]. cbn [andb] in Hj.
  destruct (lf_allowed pre) eqn:E3; [|discriminate Hj]. cbn [andb] in Hj.
  destruct (lf_below spb_ pre post) eqn:E4; [|discriminate Hj]. injection Hj as <-.
  split; [reflexivity|]. split; [reflexivity|]. right. split; [apply is_exn_iff; exact E2|]. split; reflexivity.
Qed.

(* an accepted policy exception: the side condition of the projection holds *)
Lemma lins_exn_abs tb tb' pre post r :
  obs_pre tb pre -> o_hp post = bhp (cur tb') ->
  (norm_out r = [RExn EMaxHashpower] /\ maxhp_allowed pre post None = true) \/
  (norm_out r = [RExn ELoadFactorTooLow] /\ lf_allowed pre = true /\ lf_below spb_ pre post = true) ->
  exists e, norm_out r = [RExn e] /\ lexn_abs tb tb' e.
Proof.
  intros [_ [Hm Hl]] Hhp [[Hr Ha]|[Hr [Ha _]]].
  - exists EMaxHashpower. split; [exact Hr|]. split.
    + left. split; [reflexivity|]. rewrite <- Hm. apply (maxhp_allowed_pre _ _ _ Ha).
    + intros _. unfold maxhp_allowed in Ha. apply andb_true_iff in Ha. destruct Ha as [_ Ha].
      rewrite orb_false_r in Ha. apply N.eqb_eq in Ha. rewrite <- Hhp, <- Hm. exact Ha.
  - exists ELoadFactorTooLow. split; [exact Hr|]. split.
    + right. left. split; [reflexivity|]. split; [reflexivity|].
      apply lf_allowed_pre in Ha. intro H. apply (proj1 Ha). apply Hl. exact H.
    + discriminate.
Qed.

Lemma sound_LInsert_exn tb tb' s a t m k v r pre post s' :
  obs_pre tb pre -> o_hp post = bhp (cur tb') ->
  get_st s a = Some t -> st_moved t = false -> srep (st_m t) m ->
  lins_exn_chain s r (match sfind k (st_m t) with Some _ => false | None => true end) pre post = (s', []) ->
  exists m' r0, norm_out r0 = norm_out r /\ post_ok s' a t m' /\ lop_spec_abs tb m (LInsert k v) r0 tb' m'.
Proof.
  intros Hpre Hhp Hg Hmv R Hj. destruct (lins_exn_chain_inv _ _ _ _ _ _ Hj) as [-> [Hab Hx]].
  destruct (lins_exn_abs tb tb' pre post r Hpre Hhp Hx) as [e [Hr He]].
  exists m, [RExn e]. split; [symmetry; exact Hr|].
  split; [apply post_ok_inval, post_ok_same; assumption|].
  cbn [lop_spec_abs]. rewrite <- (proj2 R k). destruct (sfind k (st_m t)) as [v0|]; [discriminate Hab|].
  left. exists e. split; [reflexivity|]. split; [intro; reflexivity|exact He].
Qed.

Lemma sound_LInsert tb tb' s a t m k v r pre post s' :
  obs_pre tb pre -> o_hp post = bhp (cur tb') ->
  get_st s a = Some t -> st_moved t = false -> srep (st_m t) m -> is_exn r EUnmodelled = false ->
  judge s a (LInsert k v) r pre post = (s', []) ->
  exists m' r0, norm_out r0 = norm_out r /\ post_ok s' a t m' /\ lop_spec_abs tb m (LInsert k v) r0 tb' m'.
Proof.
  intros Hpre Hhp Hg Hmv R Hun Hj. jred Hj Hg Hun Hmv.
  destruct (grew_below_minimum spb_ pre post); [discriminate Hj|].
  assert (Hf := proj2 R k).
  destruct r as [|x1 [|x2 [|x3 r3]]];
    [| destruct x1 | destruct x1 as [?|?|?| |b1 s1|?|? ?|? ?]; destruct x2 as [ins|?|?| |? ?|?|? ?|? ?] | destruct x1; destruct x2];
    try (match type of Hun with is_exn ?rr _ = _ =>
           exact (sound_LInsert_exn tb tb' s a t m k v rr pre post s' Hpre Hhp Hg Hmv R Hj) end).
  (* r = [RPos b1 s1; RBool ins] *)
  destruct (Bool.eqb ins _) eqn:E; [|discriminate Hj]. injection Hj as <-.
  cbn [lop_spec_abs]. rewrite <- Hf. destruct (sfind k (st_m t)) as [v0|] eqn:Ef.
  - destruct ins; [discriminate E|]. exists m, [RPos b1 s1; RBool false]. split; [reflexivity|].
    split; [apply post_ok_put; assumption|]. split; [intro; reflexivity|].
    exists (b1, s1). reflexivity.
  - destruct ins; [|discriminate E]. exists (mset m k (Some v)), [RPos b1 s1; RBool true]. split; [reflexivity|].
    split; [apply post_ok_put; [assumption|apply srep_sset; exact R]|]. right.
    split; [intro; reflexivity|]. exists (b1, s1). reflexivity.
Qed.

(* ---- LIdx *)

Lemma sound_LIdx tb tb' s a t m k r pre post s' :
  obs_pre tb pre -> o_hp post = bhp (cur tb') ->
  get_st s a = Some t -> st_moved t = false -> srep (st_m t) m -> is_exn r EUnmodelled = false ->
  judge s a (LIdx k) r pre post = (s', []) ->
  exists m' r0, norm_out r0 = norm_out r /\ post_ok s' a t m' /\ lop_spec_abs tb m (LIdx k) r0 tb' m'.
Proof.
  intros Hpre Hhp Hg Hmv R Hun Hj. jred Hj Hg Hun Hmv.
  destruct (grew_below_minimum spb_ pre post); [discriminate Hj|].
  assert (Hf := proj2 R k).
  cbn [lop_spec_abs]. rewrite <- Hf. destruct (sfind k (st_m t)) as [v0|] eqn:Ef.
  - destruct (out_eqb r _) eqn:E.
    + injection Hj as <-. apply out_eqb_norm in E. exists m, [RInt v0]. split; [symmetry; exact E|].
      split; [apply post_ok_inval, post_ok_same; assumption|]. split; [intro; reflexivity|reflexivity].
    + destruct (is_exn r EMaxHashpower || is_exn r ELoadFactorTooLow); discriminate Hj.
  - destruct (out_eqb r _) eqn:E.
    + injection Hj as <-. apply out_eqb_norm in E. exists (mset m k (Some 0%Z)), [RInt 0]. split; [symmetry; exact E|].
      split; [apply post_ok_put; [assumption|apply srep_sset; exact R]|]. right.
      split; [intro; reflexivity|reflexivity].
    + assert (Hc : lins_exn_chain s r true pre post = (s', [])) by exact Hj.
      destruct (lins_exn_chain_inv _ _ _ _ _ _ Hc) as [-> [_ Hx]].
      destruct (lins_exn_abs tb tb' pre post r Hpre Hhp Hx) as [e [Hr He]].
      exists m, [RExn e]. split; [symmetry; exact Hr|].
      split; [apply post_ok_inval, post_ok_same; assumption|].
      left. exists e. split; [reflexivity|]. split; [intro; reflexivity|exact He].
Qed.

(* ---- LFind *)

Lemma sound_LFind tb tb' s a t m k ri r pre post s' :
  endp post = it_end tb -> ord_inv s t post ->
  get_st s a = Some t -> st_moved t = false -> srep (st_m t) m -> is_exn r EUnmodelled = false ->
  judge s a (LFind k ri) r pre post = (s', []) ->
  exists m' r0, norm_out r0 = norm_out r /\ post_ok s' a t m' /\ lop_spec_abs tb m (LFind k ri) r0 tb' m'.
Proof.
  intros Hend Hinv Hg Hmv R Hun Hj. jred Hj Hg Hun Hmv. assert (Hf := proj2 R k).
  destruct r as [|x1 [|x2 r2]]; try discriminate Hj; destruct x1 as [?|?|?| |b1 s1|?|? ?|? ?]; try discriminate Hj.
  exists m, [RPos b1 s1]. split; [reflexivity|]. cbn [lop_spec_abs].
  destruct (s_order s) as [od|] eqn:Eo.
  - destruct (Hinv od Eo) as [Htm [_ Hir]].
    destruct (pos_eqb (b1, s1) _) eqn:E; [|discriminate Hj]. injection Hj as <-.
    apply pos_eqb_eq in E.
    split; [apply post_ok_same; [exact Hg|exact Hmv|exact R]|]. split; [intro; reflexivity|].
    exists (b1, s1). split; [reflexivity|].
    rewrite <- Hf, <- (ord_find_key_listing k od _ Htm), <- Hend.
    destruct (ord_find_key k od) as [q|] eqn:Eq.
    + split; [discriminate|]. intro E2. exfalso. subst q.
      destruct (ord_find_key_some _ _ _ Eq) as [l1 [v0 [l2 Hod]]].
      apply (in_range_not_end post od (fst (b1, s1), snd (b1, s1), k, v0) Hir); [|exact E2].
      rewrite Hod. apply in_or_app. right. left. reflexivity.
    + split; [intros _; exact E|reflexivity].
  - destruct (Bool.eqb _ _) eqn:E; [|discriminate Hj]. injection Hj as <-. apply (proj1 (bool_eqb_iff _ _)) in E.
    split; [apply post_ok_same; [exact Hg|exact Hmv|exact R]|]. split; [intro; reflexivity|].
    exists (b1, s1). split; [reflexivity|]. rewrite <- Hf, <- Hend.
    destruct (sfind k (st_m t)) as [v0|].
    + split; [discriminate|]. intro E2. apply pos_eqb_eq in E2. rewrite E2 in E. discriminate E.
    + split; [intros _; apply pos_eqb_eq; exact E|reflexivity].
Qed.

(* ---- LRange *)

Lemma ord_succ_some p od n :
  ord_succ p od = Some (Some n) -> exists l1 x y l2, od = l1 ++ x :: y :: l2 /\ opos x = p /\ opos y = n.
Proof.
  induction od as [|[[[b s] k] v] od IH]; cbn [ord_succ]; [discriminate|].
  destruct ((b =? fst p) && (s =? snd p)) eqn:E.
  - destruct od as [|[[[b' s'] k'] v'] od]; [discriminate|]. intro H. injection H as <-.
    apply andb_true_iff in E. destruct E as [E1 E2]. apply N.eqb_eq in E1. apply N.eqb_eq in E2.
    exists [], (b, s, k, v), (b', s', k', v'), od. split; [reflexivity|]. split; [|reflexivity].
    destruct p as [p1 p2]. cbn [fst snd] in E1, E2. subst. reflexivity.
  - intro H. destruct (IH H) as [l1 [x [y [l2 [-> [H1 H2]]]]]].
    exists ((b, s, k, v) :: l1), x, y, l2. split; [reflexivity|]. split; assumption.
Qed.

Lemma ord_succ_lt p od n :
  Spec.positions_sorted od = true -> ord_succ p od = Some (Some n) -> lex_lt p n.
Proof.
  intros Hs H. destruct (ord_succ_some p od n H) as [l1 [x [y [l2 [-> [<- <-]]]]]].
  apply positions_sorted_sorted in Hs. rewrite map_app in Hs. cbn [map] in Hs.
  apply SSorted_app_mid in Hs. inversion Hs; assumption.
Qed.

Lemma sound_LRange tb tb' s a t m k r pre post s' :
  endp post = it_end tb -> ord_inv s t post ->
  get_st s a = Some t -> st_moved t = false -> srep (st_m t) m -> is_exn r EUnmodelled = false ->
  judge s a (LRange k) r pre post = (s', []) ->
  exists m' r0, norm_out r0 = norm_out r /\ post_ok s' a t m' /\
    (lop_spec_abs tb m (LRange k) r0 tb' m' \/ (~ lstrict s m (LRange k) /\ lop_unchecked tb m (LRange k) r0 m')).
Proof.
  intros Hend Hinv Hg Hmv R Hun Hj. jred Hj Hg Hun Hmv. assert (Hf := proj2 R k).
  destruct r as [|x1 [|x2 [|x3 r3]]]; try discriminate Hj;
    destruct x1 as [?|?|?| |b1 s1|?|? ?|? ?]; try discriminate Hj;
    destruct x2 as [?|?|?| |b2 s2|?|? ?|? ?]; try discriminate Hj.
  cbn [lop_spec_abs lop_unchecked lstrict].
  destruct (s_order s) as [od|] eqn:Eo.
  - destruct (Hinv od Eo) as [Htm [Hps Hir]]. assert (Hl := ord_find_key_listing k od _ Htm).
    destruct (ord_find_key k od) as [q|] eqn:Eq.
    + destruct (pos_eqb (b1, s1) q && pos_eqb (b2, s2) _) eqn:E; [|discriminate Hj]. injection Hj as <-.
      apply andb_true_iff in E. destruct E as [E1 E2]. apply pos_eqb_eq in E1. apply pos_eqb_eq in E2.
      exists m, [RPos b1 s1; RPos b2 s2]. split; [reflexivity|].
      split; [apply post_ok_same; assumption|]. left. split; [intro; reflexivity|].
      rewrite <- Hf. destruct (sfind k (st_m t)) as [v0|]; [|exfalso; destruct Hl as [_ Hl]; discriminate (Hl eq_refl)].
      destruct (ord_find_key_some _ _ _ Eq) as [l1 [v1 [l2 Hod]]].
      assert (Hin : In (fst q, snd q, k, v1) od) by (rewrite Hod; apply in_or_app; right; left; reflexivity).
      exists (b1, s1), (b2, s2). split; [reflexivity|]. rewrite E1, <- Hend. split.
      * replace q with (opos (fst q, snd q, k, v1)) by (destruct q; reflexivity).
        apply (in_range_not_end post od _ Hir Hin).
      * rewrite E2. destruct (ord_succ q od) as [[nx|]|] eqn:Es.
        -- exact (ord_succ_lt q od nx Hps Es).
        -- left. destruct (in_range_in post od _ Hir Hin) as [H1 _]. destruct q; exact H1.
        -- left. destruct (in_range_in post od _ Hir Hin) as [H1 _]. destruct q; exact H1.
    + destruct (pos_eqb (b1, s1) _ && pos_eqb (b2, s2) _) eqn:E; [|discriminate Hj]. injection Hj as <-.
      apply andb_true_iff in E. destruct E as [E1 E2]. apply pos_eqb_eq in E1. apply pos_eqb_eq in E2.
      exists m, [RPos b1 s1; RPos b2 s2]. split; [reflexivity|].
      split; [apply post_ok_same; assumption|]. left. split; [intro; reflexivity|].
      rewrite <- Hf, (proj1 Hl eq_refl), <- Hend.
      assert (X1 : b1 = fst (endp post) /\ s1 = snd (endp post)) by (rewrite <- E1; split; reflexivity).
      assert (X2 : b2 = fst (endp post) /\ s2 = snd (endp post)) by (rewrite <- E2; split; reflexivity).
      destruct X1 as [X1 X1']. destruct X2 as [X2 X2']. rewrite X1, X1', X2, X2'. reflexivity.
  - rewrite <- Hf. destruct (sfind k (st_m t)) as [v0|] eqn:Ef.
    + (* present key, no order: the residual case L3' *)
      destruct (negb (pos_eqb (b1, s1) (endp post))) eqn:E; [|discriminate Hj]. injection Hj as <-.
      exists m, [RPos b1 s1; RPos b2 s2]. split; [reflexivity|].
      split; [apply post_ok_same; assumption|]. right.
      split; [intro H; specialize (H eq_refl); discriminate H|].
      split; [discriminate|]. split; [intro; reflexivity|]. exists (b1, s1), (b2, s2). split; [reflexivity|].
      rewrite <- Hend. intro X. apply pos_eqb_eq in X. rewrite X in E. discriminate E.
    + destruct (pos_eqb (b1, s1) _ && pos_eqb (b2, s2) _) eqn:E; [|discriminate Hj]. injection Hj as <-.
      apply andb_true_iff in E. destruct E as [E1 E2]. apply pos_eqb_eq in E1. apply pos_eqb_eq in E2.
      exists m, [RPos b1 s1; RPos b2 s2]. split; [reflexivity|].
      split; [apply post_ok_same; assumption|]. left. split; [intro; reflexivity|]. rewrite <- Hend.
      assert (X1 : b1 = fst (endp post) /\ s1 = snd (endp post)) by (rewrite <- E1; split; reflexivity).
      assert (X2 : b2 = fst (endp post) /\ s2 = snd (endp post)) by (rewrite <- E2; split; reflexivity).
      destruct X1 as [X1 X1']. destruct X2 as [X2 X2']. rewrite X1, X1', X2, X2'. reflexivity.
Qed.

(* ---- LRehash / LReserve *)

Lemma sound_LRehash tb tb' s a t m n r pre post s' :
  obs_pre tb pre -> o_hp post = bhp (cur tb') ->
  get_st s a = Some t -> st_moved t = false -> srep (st_m t) m -> is_exn r EUnmodelled = false ->
  judge s a (LRehash n) r pre post = (s', []) ->
  exists m' r0, norm_out r0 = norm_out r /\ post_ok s' a t m' /\ lop_spec_abs tb m (LRehash n) r0 tb' m'.
Proof.
  intros [Hhp [Hm _]] Hhp' Hg Hmv R Hun Hj. jred Hj Hg Hun Hmv. cbn [lop_spec_abs]. unfold lresize_spec.
  destruct (is_exn r EMaxHashpower) eqn:E1.
  { destruct (negb (o_mhp pre =? NO_MAXIMUM_HASHPOWER) && negb (n =? o_hp pre)) eqn:E2; [|discriminate Hj].
    injection Hj as <-. apply andb_true_iff in E2. destruct E2 as [E2 E3]. apply is_exn_iff in E1.
    exists m, [RExn EMaxHashpower]. split; [symmetry; exact E1|].
    split; [apply post_ok_inval, post_ok_same; assumption|]. split; [intro; reflexivity|].
    right. exists EMaxHashpower. split; [reflexivity|].
    split; [rewrite <- Hhp; apply N.eqb_neq; apply negb_true_iff; exact E3|].
    split; [|discriminate]. left. split; [reflexivity|].
    rewrite <- Hm. apply N.eqb_neq. apply negb_true_iff. exact E2. }
  destruct (is_exn r ELoadFactorTooLow); [discriminate Hj|].
  destruct (out_eqb r _ && _) eqn:E3; [|discriminate Hj]. injection Hj as <-.
  apply andb_true_iff in E3. destruct E3 as [E3 E4]. apply out_eqb_norm in E3. apply N.leb_le in E4.
  exists m, [RNone]. split; [symmetry; exact E3|].
  split; [apply post_ok_inval, post_ok_same; assumption|]. split; [intro; reflexivity|].
  left. split; [reflexivity|]. rewrite <- Hhp'. exact E4.
Qed.

Lemma reserve_calc_le n h :
  0 < spb c -> n + spb c < 2 ^ 64 -> n <= 2 ^ 63 * spb c -> n <= N.shiftl 1 h * spb c -> reserve_calc c n <= h.
Proof.
  intros H1 H2 H3 H4. destruct (reserve_calc_spec c n H1 H2 H3) as [_ [Hleast _]].
  destruct (N.le_gt_cases (reserve_calc c n) h) as [L|L]; [exact L|]. exfalso.
  specialize (Hleast h L). rewrite N.shiftl_1_l in H4. lia.
Qed.

Lemma sound_LReserve tb tb' s a t m n r pre post s' :
  spb c = spb_ -> obs_pre tb pre -> o_hp post = bhp (cur tb') ->
  0 < spb c -> n + spb c < 2 ^ 64 -> n <= 2 ^ 63 * spb c ->
  get_st s a = Some t -> st_moved t = false -> srep (st_m t) m -> is_exn r EUnmodelled = false ->
  judge s a (LReserve n) r pre post = (s', []) ->
  exists m' r0, norm_out r0 = norm_out r /\ post_ok s' a t m' /\ lop_spec_abs tb m (LReserve n) r0 tb' m'.
Proof.
  intros Hspb [Hhp [Hm _]] Hhp' Hs1 Hs2 Hs3 Hg Hmv R Hun Hj. jred Hj Hg Hun Hmv.
  cbn [lop_spec_abs]. unfold lresize_spec.
  fold (cfg_of_spb spb_) in Hj. rewrite (reserve_calc_cfg_of_spb c spb_ n Hspb) in Hj.
  destruct (is_exn r EMaxHashpower) eqn:E1.
  { destruct (negb (o_mhp pre =? NO_MAXIMUM_HASHPOWER) && negb (reserve_calc c n =? o_hp pre)) eqn:E2;
      [|discriminate Hj].
    injection Hj as <-. apply andb_true_iff in E2. destruct E2 as [E2 E3]. apply is_exn_iff in E1.
    exists m, [RExn EMaxHashpower]. split; [symmetry; exact E1|].
    split; [apply post_ok_inval, post_ok_same; assumption|]. split; [intro; reflexivity|].
    right. exists EMaxHashpower. split; [reflexivity|].
    split; [rewrite <- Hhp; apply N.eqb_neq; apply negb_true_iff; exact E3|].
    split; [|discriminate]. left. split; [reflexivity|].
    rewrite <- Hm. apply N.eqb_neq. apply negb_true_iff. exact E2. }
  destruct (is_exn r ELoadFactorTooLow); [discriminate Hj|].
  destruct (out_eqb r _ && _) eqn:E3; [|discriminate Hj]. injection Hj as <-.
  apply andb_true_iff in E3. destruct E3 as [E3 E4]. apply out_eqb_norm in E3.
  apply orb_true_iff in E4. destruct E4 as [E4|E4].
  { exfalso. apply N.leb_le in E4. rewrite <- Hspb in E4.
    assert (X : 2 ^ 64 = 18446744073709551616) by reflexivity. rewrite X in Hs2. lia. }
  apply N.leb_le in E4.
  exists m, [RNone]. split; [symmetry; exact E3|].
  split; [apply post_ok_inval, post_ok_same; assumption|]. split; [intro; reflexivity|].
  left. split; [reflexivity|]. rewrite <- Hhp'. rewrite <- Hspb in E4.
  exact (reserve_calc_le n (o_hp post) Hs1 Hs2 Hs3 E4).
Qed.

(* ---- the two traversals *)

Lemma in_range_in_table tb post od :
  spb c = spb_ -> endp post = it_end tb -> in_range spb_ post od = true -> Forall (in_table tb) (map opos od).
Proof.
  intros Hspb Hend H. apply Forall_forall. intros p Hp. apply in_map_iff in Hp. destruct Hp as [x [<- Hx]].
  destruct (in_range_in post od x H Hx) as [H1 H2]. unfold in_table. rewrite <- Hend, Hspb. split; assumption.
Qed.

Lemma sound_LTraverse tb tb' s a t m r pre post s' :
  spb c = spb_ -> endp post = it_end tb ->
  get_st s a = Some t -> st_moved t = false -> srep (st_m t) m -> is_exn r EUnmodelled = false ->
  judge s a LTraverse r pre post = (s', []) ->
  exists od, r = out_of_order od /\ s_order s' = Some od /\ s_tabs s' = s_tabs s /\
    (forall od0, s_order s = Some od0 -> od = od0) /\
    post_ok s' a t m /\ ord_inv s' t post /\ lop_spec_abs tb m LTraverse r tb' m.
Proof.
  intros Hspb Hend Hg Hmv R Hun Hj. jred Hj Hg Hun Hmv.
  destruct (parse_trav r) as [od|] eqn:Ep; [|discriminate Hj].
  destruct (trav_matches od (st_m t) && Spec.positions_sorted od && in_range spb_ post od && _) eqn:E; [|discriminate Hj].
  injection Hj as <-. apply andb_true_iff in E. destruct E as [E E4].
  apply andb_true_iff in E. destruct E as [E E3]. apply andb_true_iff in E. destruct E as [E1 E2].
  apply parse_trav_out in Ep. exists od. split; [exact Ep|]. split; [reflexivity|]. split; [reflexivity|].
  split.
  { intros od0 Ho. rewrite Ho in E4. apply out_eqb_norm in E4. fold (out_of_order od0) in E4.
    rewrite Ep, !norm_out_of_order in E4. apply out_of_order_inj. exact E4. }
  split; [apply post_ok_same; [exact Hg|exact Hmv|exact R]|]. split.
  - intros od' H. cbn [s_order] in H. injection H as <-. repeat split; assumption.
  - cbn [lop_spec_abs]. split; [intro; reflexivity|]. exists od. split; [exact Ep|].
    split; [exact (trav_matches_is_listing od _ m R E1)|].
    split; [apply positions_sorted_sorted; exact E2|exact (in_range_in_table tb post od Hspb Hend E3)].
Qed.

Lemma sound_LRTraverse tb tb' s a t m r pre post s' :
  spb c = spb_ -> endp post = it_end tb ->
  get_st s a = Some t -> st_moved t = false -> srep (st_m t) m -> is_exn r EUnmodelled = false ->
  judge s a LRTraverse r pre post = (s', []) ->
  s' = s /\ exists od, r = out_of_order od /\ (forall od0, s_order s = Some od0 -> od = rev od0) /\
    lop_spec_abs tb m LRTraverse r tb' m.
Proof.
  intros Hspb Hend Hg Hmv R Hun Hj. jred Hj Hg Hun Hmv.
  destruct (parse_trav r) as [od|] eqn:Ep; [|discriminate Hj].
  destruct (trav_matches od (st_m t) && Spec.positions_sorted (rev od) && in_range spb_ post od) eqn:E; [|discriminate Hj].
  apply andb_true_iff in E. destruct E as [E E3]. apply andb_true_iff in E. destruct E as [E1 E2].
  apply parse_trav_out in Ep.
  assert (Habs : lop_spec_abs tb m LRTraverse r tb' m).
  { cbn [lop_spec_abs]. split; [intro; reflexivity|]. exists od. split; [exact Ep|].
    split; [exact (trav_matches_is_listing od _ m R E1)|].
    split; [apply positions_sorted_sorted; exact E2|exact (in_range_in_table tb post od Hspb Hend E3)]. }
  destruct (s_order s) as [od0|] eqn:Eo.
  - destruct (out_eqb r _) eqn:E4; [|discriminate Hj]. injection Hj as <-. split; [reflexivity|].
    apply out_eqb_norm in E4. fold (out_of_order (rev od0)) in E4.
    rewrite Ep in E4 at 1. rewrite !norm_out_of_order in E4. apply out_of_order_inj in E4.
    exists od. split; [exact Ep|]. split; [intros od1 H; injection H as <-; exact E4|exact Habs].
  - injection Hj as <-. split; [reflexivity|]. exists od. split; [exact Ep|]. split; [discriminate|exact Habs].
Qed.

(* ================================================================== 4. the packaged soundness statements *)

(* THE PACKAGED SOUNDNESS STATEMENT.  For a present, not moved-from table slot whose association
   list represents [m] (the activity flag plays no role in [judge_op]'s locked-table clauses; it
   is preserved, [lpost_ok], so an ACTIVE slot stays active until OUnlock): if nothing is blamed
   then, up to [norm_out], the printed result and the acceptor's new map are those prescribed by
   the projection [lop_spec_abs] of [lop_spec] - for every operation but LRange on a present key
   while no traversal order is remembered (the residual case L3', [lop_unchecked], possible only
   when [lstrict] fails).
   [tb] / [tb'] are the tables [lop_spec] talks about; they enter only through [lobs].
   [ord_inv] (the order bookkeeping invariant, kept by [ord_inv_step]) is used by LFind and LRange
   only. *)
Theorem judge_sound_locked tb tb' s a t m o r pre post s' :
  locked_op o = true -> spb c = spb_ -> lobs tb tb' o pre post -> ord_inv s t post ->
  get_st s a = Some t -> st_moved t = false -> srep (st_m t) m -> is_exn r EUnmodelled = false ->
  judge s a o r pre post = (s', []) ->
  exists m' r0, norm_out r0 = norm_out r /\ lpost_ok s' a o t m' /\
    (lop_spec_abs tb m o r0 tb' m' \/ (~ lstrict s m o /\ lop_unchecked tb m o r0 m')).
Proof.
  intros Hop Hspb Hobs Hinv Hg Hmv R Hun Hj. destruct o; try discriminate Hop; cbn [lobs] in Hobs.
  - destruct (sound_OUnlock tb tb' _ _ _ _ _ _ _ _ Hg Hmv R Hun Hj) as [m' [rr [H1 [H2 H3]]]].
    exists m', rr. split; [exact H1|]. split; [exact H2|]. left. exact H3.
  - destruct Hobs as [Hpre Hhp].
    destruct (sound_LInsert tb tb' _ _ _ _ _ _ _ _ _ _ Hpre Hhp Hg Hmv R Hun Hj) as [m' [rr [H1 [H2 H3]]]].
    exists m', rr. split; [exact H1|]. split; [apply post_ok_lpost_ok; [discriminate|exact H2]|left; exact H3].
  - destruct (sound_LEraseKey tb tb' _ _ _ _ _ _ _ _ _ Hg Hmv R Hun Hj) as [m' [rr [H1 [H2 H3]]]].
    exists m', rr. split; [exact H1|]. split; [apply post_ok_lpost_ok; [discriminate|exact H2]|left; exact H3].
  - destruct (sound_LFind tb tb' _ _ _ _ _ _ _ _ _ _ Hobs Hinv Hg Hmv R Hun Hj) as [m' [rr [H1 [H2 H3]]]].
    exists m', rr. split; [exact H1|]. split; [apply post_ok_lpost_ok; [discriminate|exact H2]|left; exact H3].
  - destruct (sound_LAt tb tb' _ _ _ _ _ _ _ _ _ Hg Hmv R Hun Hj) as [m' [rr [H1 [H2 H3]]]].
    exists m', rr. split; [exact H1|]. split; [apply post_ok_lpost_ok; [discriminate|exact H2]|left; exact H3].
  - destruct Hobs as [Hpre Hhp].
    destruct (sound_LIdx tb tb' _ _ _ _ _ _ _ _ _ Hpre Hhp Hg Hmv R Hun Hj) as [m' [rr [H1 [H2 H3]]]].
    exists m', rr. split; [exact H1|]. split; [apply post_ok_lpost_ok; [discriminate|exact H2]|left; exact H3].
  - destruct (sound_LCount tb tb' _ _ _ _ _ _ _ _ _ Hg Hmv R Hun Hj) as [m' [rr [H1 [H2 H3]]]].
    exists m', rr. split; [exact H1|]. split; [apply post_ok_lpost_ok; [discriminate|exact H2]|left; exact H3].
  - destruct (sound_LRange tb tb' _ _ _ _ _ _ _ _ _ Hobs Hinv Hg Hmv R Hun Hj) as [m' [rr [H1 [H2 H3]]]].
    exists m', rr. split; [exact H1|]. split; [apply post_ok_lpost_ok; [discriminate|exact H2]|exact H3].
  - destruct Hobs as [Hpre Hhp].
    destruct (sound_LRehash tb tb' _ _ _ _ _ _ _ _ _ Hpre Hhp Hg Hmv R Hun Hj) as [m' [rr [H1 [H2 H3]]]].
    exists m', rr. split; [exact H1|]. split; [apply post_ok_lpost_ok; [discriminate|exact H2]|left; exact H3].
  - destruct Hobs as [Hpre [Hhp [Hs1 [Hs2 Hs3]]]].
    destruct (sound_LReserve tb tb' _ _ _ _ _ _ _ _ _ Hspb Hpre Hhp Hs1 Hs2 Hs3 Hg Hmv R Hun Hj) as [m' [rr [H1 [H2 H3]]]].
    exists m', rr. split; [exact H1|]. split; [apply post_ok_lpost_ok; [discriminate|exact H2]|left; exact H3].
  - destruct (sound_LClear tb tb' _ _ _ _ _ _ _ _ Hg Hmv R Hun Hj) as [m' [rr [H1 [H2 H3]]]].
    exists m', rr. split; [exact H1|]. split; [apply post_ok_lpost_ok; [discriminate|exact H2]|left; exact H3].
  - destruct (sound_LTraverse tb tb' _ _ _ _ _ _ _ _ Hspb Hobs Hg Hmv R Hun Hj) as [od [_ [_ [_ [_ [H2 [_ H3]]]]]]].
    exists m, r. split; [reflexivity|]. split; [apply post_ok_lpost_ok; [discriminate|exact H2]|left; exact H3].
  - destruct (sound_LRTraverse tb tb' _ _ _ _ _ _ _ _ Hspb Hobs Hg Hmv R Hun Hj) as [-> [od [_ [_ H3]]]].
    exists m, r. split; [reflexivity|].
    split; [apply post_ok_lpost_ok; [discriminate|apply post_ok_same; assumption]|left; exact H3].
Qed.

(* ... against the projection ITSELF whenever L3' does not apply: every operation but LRange;
   LRange while a traversal order is remembered, or on an absent key *)
Corollary judge_sound_locked_strict tb tb' s a t m o r pre post s' :
  locked_op o = true -> spb c = spb_ -> lobs tb tb' o pre post -> ord_inv s t post ->
  get_st s a = Some t -> st_moved t = false -> srep (st_m t) m -> is_exn r EUnmodelled = false ->
  lstrict s m o ->
  judge s a o r pre post = (s', []) ->
  exists m' r0, norm_out r0 = norm_out r /\ lpost_ok s' a o t m' /\ lop_spec_abs tb m o r0 tb' m'.
Proof.
  intros Hop Hspb Hobs Hinv Hg Hmv R Hun Hst Hj.
  destruct (judge_sound_locked tb tb' s a t m o r pre post s' Hop Hspb Hobs Hinv Hg Hmv R Hun Hj)
    as [m' [rr [H1 [H2 [H3|[H3 _]]]]]]; [|exfalso; exact (H3 Hst)].
  exists m', rr. split; [exact H1|]. split; [exact H2|exact H3].
Qed.

(* in particular for every operation but LRange, with no side condition *)
Corollary judge_sound_locked_abs tb tb' s a t m o r pre post s' :
  locked_op o = true -> (forall k, o <> LRange k) -> spb c = spb_ -> lobs tb tb' o pre post -> ord_inv s t post ->
  get_st s a = Some t -> st_moved t = false -> srep (st_m t) m -> is_exn r EUnmodelled = false ->
  judge s a o r pre post = (s', []) ->
  exists m' r0, norm_out r0 = norm_out r /\ lpost_ok s' a o t m' /\ lop_spec_abs tb m o r0 tb' m'.
Proof.
  intros Hop Hnr Hspb Hobs Hinv Hg Hmv R Hun Hj.
  apply (judge_sound_locked_strict tb tb' s a t m o r pre post s' Hop Hspb Hobs Hinv Hg Hmv R Hun); [|exact Hj].
  destruct o; try exact I. exfalso. exact (Hnr k eq_refl).
Qed.

(* what an accepted LInsert / LIdx says about the observations beyond the map: no doubling below
   the minimum load factor is visible; a maximum-hashpower exception left the table at the
   configured maximum; a load-factor exception was thrown with a non-zero minimum and the load
   factor strictly below it *)
Lemma lins_exn_chain_obs s rr absent pre post s' :
  lins_exn_chain s rr absent pre post = (s', []) ->
  (norm_out rr = [RExn EMaxHashpower] -> maxhp_allowed pre post None = true) /\
  (norm_out rr = [RExn ELoadFactorTooLow] -> lf_allowed pre = true /\ lf_below spb_ pre post = true).
Proof.
  intro H. destruct (lins_exn_chain_inv _ _ _ _ _ _ H) as [_ [_ [[Hr Ha]|[Hr Ha]]]].
  - split; intro Y; [exact Ha|rewrite Y in Hr; discriminate Hr].
  - split; intro Y; [rewrite Y in Hr; discriminate Hr|exact Ha].
Qed.

Theorem judge_sound_locked_lf s a t k v r pre post s' :
  get_st s a = Some t -> st_moved t = false -> is_exn r EUnmodelled = false ->
  judge s a (LInsert k v) r pre post = (s', []) ->
  grew_below_minimum spb_ pre post = false /\
  (norm_out r = [RExn EMaxHashpower] -> maxhp_allowed pre post None = true) /\
  (norm_out r = [RExn ELoadFactorTooLow] -> lf_allowed pre = true /\ lf_below spb_ pre post = true).
Proof.
  intros Hg Hmv Hun Hj. jred Hj Hg Hun Hmv.
  destruct (grew_below_minimum spb_ pre post); [discriminate Hj|]. split; [reflexivity|].
  destruct r as [|x1 [|x2 [|x3 r3]]]; [| destruct x1 | destruct x1; destruct x2 | destruct x1; destruct x2];
    try (match type of Hun with is_exn ?rr _ = _ => exact (lins_exn_chain_obs s rr (match sfind k (st_m t) with Some _ => false | None => true end) pre post s' Hj) end).
  split; intro Y; discriminate Y.
Qed.

Theorem judge_sound_locked_idx_lf s a t k r pre post s' :
  get_st s a = Some t -> st_moved t = false -> is_exn r EUnmodelled = false ->
  judge s a (LIdx k) r pre post = (s', []) ->
  grew_below_minimum spb_ pre post = false /\
  (norm_out r = [RExn EMaxHashpower] -> maxhp_allowed pre post None = true) /\
  (norm_out r = [RExn ELoadFactorTooLow] -> lf_allowed pre = true /\ lf_below spb_ pre post = true).
Proof.
  intros Hg Hmv Hun Hj. jred Hj Hg Hun Hmv.
  destruct (grew_below_minimum spb_ pre post); [discriminate Hj|]. split; [reflexivity|].
  destruct (sfind k (st_m t)) as [v0|].
  - destruct (out_eqb r _) eqn:E.
    + apply out_eqb_norm in E. split; intro Y; rewrite Y in E; discriminate E.
    + destruct (is_exn r EMaxHashpower || is_exn r ELoadFactorTooLow); discriminate Hj.
  - destruct (out_eqb r _) eqn:E.
    + apply out_eqb_norm in E. split; intro Y; rewrite Y in E; discriminate E.
    + exact (lins_exn_chain_obs s r true pre post s' Hj).
Qed.

(* ================================================================== 5. the traversals *)

(* an accepted forward traversal: the acceptor's new state, and the output lists the map - each
   pair exactly once - at strictly increasing positions (no hypothesis on the observations) *)
Lemma ltraverse_inv s a t r pre post s' :
  get_st s a = Some t -> st_moved t = false -> is_exn r EUnmodelled = false ->
  judge s a LTraverse r pre post = (s', []) ->
  exists od, r = out_of_order od /\
    s' = {| s_tabs := s_tabs s; s_its := s_its s; s_order := Some od; s_imgs := s_imgs s |} /\
    trav_matches od (st_m t) = true /\ Spec.positions_sorted od = true /\ in_range spb_ post od = true /\
    (forall od0, s_order s = Some od0 -> od = od0).
Proof.
  intros Hg Hmv Hun Hj. jred Hj Hg Hun Hmv.
  destruct (parse_trav r) as [od|] eqn:Ep; [|discriminate Hj].
  destruct (trav_matches od (st_m t) && Spec.positions_sorted od && in_range spb_ post od && _) eqn:E; [|discriminate Hj].
  injection Hj as <-. apply andb_true_iff in E. destruct E as [E E4].
  apply andb_true_iff in E. destruct E as [E E3]. apply andb_true_iff in E. destruct E as [E1 E2].
  apply parse_trav_out in Ep.
  exists od. split; [exact Ep|]. split; [reflexivity|]. split; [exact E1|]. split; [exact E2|]. split; [exact E3|].
  intros od0 Ho. rewrite Ho in E4. apply out_eqb_norm in E4. fold (out_of_order od0) in E4.
  rewrite Ep, !norm_out_of_order in E4. apply out_of_order_inj. exact E4.
Qed.

Theorem accepted_traverse_listing s a t m r pre post s' :
  get_st s a = Some t -> st_moved t = false -> srep (st_m t) m -> is_exn r EUnmodelled = false ->
  judge s a LTraverse r pre post = (s', []) ->
  is_listing m (kvs r) /\ StronglySorted lex_lt (poss r) /\
  Forall (fun p => fst p < fst (endp post) /\ snd p < spb_) (poss r).
Proof.
  intros Hg Hmv R Hun Hj. destruct (ltraverse_inv s a t r pre post s' Hg Hmv Hun Hj) as [od [-> [_ [H1 [H2 [H3 _]]]]]].
  rewrite kvs_out_of_order, poss_out_of_order. split; [exact (trav_matches_is_listing od _ m R H1)|].
  split; [apply positions_sorted_sorted; exact H2|].
  apply Forall_forall. intros p Hp. apply in_map_iff in Hp. destruct Hp as [x [<- Hx]].
  exact (in_range_in post od x H3 Hx).
Qed.

Lemma lrtraverse_inv s a t r pre post s' :
  get_st s a = Some t -> st_moved t = false -> is_exn r EUnmodelled = false ->
  judge s a LRTraverse r pre post = (s', []) ->
  exists od, r = out_of_order od /\ s' = s /\
    trav_matches od (st_m t) = true /\ Spec.positions_sorted (rev od) = true /\ in_range spb_ post od = true /\
    (forall od0, s_order s = Some od0 -> od = rev od0).
Proof.
  intros Hg Hmv Hun Hj. jred Hj Hg Hun Hmv.
  destruct (parse_trav r) as [od|] eqn:Ep; [|discriminate Hj].
  destruct (trav_matches od (st_m t) && Spec.positions_sorted (rev od) && in_range spb_ post od) eqn:E; [|discriminate Hj].
  apply andb_true_iff in E. destruct E as [E E3]. apply andb_true_iff in E. destruct E as [E1 E2].
  apply parse_trav_out in Ep.
  exists od. split; [exact Ep|].
  destruct (s_order s) as [od0|].
  - destruct (out_eqb r _) eqn:E4; [|discriminate Hj]. injection Hj as <-. split; [reflexivity|].
    split; [exact E1|]. split; [exact E2|]. split; [exact E3|]. intros od1 H. injection H as <-.
    apply out_eqb_norm in E4. fold (out_of_order (rev od0)) in E4.
    rewrite Ep in E4 at 1. rewrite !norm_out_of_order in E4. apply out_of_order_inj in E4. exact E4.
  - injection Hj as <-. split; [reflexivity|]. split; [exact E1|]. split; [exact E2|]. split; [exact E3|].
    intros od1 H. discriminate H.
Qed.

Theorem accepted_rtraverse_listing s a t m r pre post s' :
  get_st s a = Some t -> st_moved t = false -> srep (st_m t) m -> is_exn r EUnmodelled = false ->
  judge s a LRTraverse r pre post = (s', []) ->
  s' = s /\ is_listing m (kvs r) /\ StronglySorted lex_lt (rev (poss r)) /\
  Forall (fun p => fst p < fst (endp post) /\ snd p < spb_) (poss r).
Proof.
  intros Hg Hmv R Hun Hj.
  destruct (lrtraverse_inv s a t r pre post s' Hg Hmv Hun Hj) as [od [-> [-> [E1 [E2 [E3 _]]]]]].
  split; [reflexivity|]. rewrite kvs_out_of_order, poss_out_of_order, <- map_rev.
  split; [exact (trav_matches_is_listing od _ m R E1)|]. split; [apply positions_sorted_sorted; exact E2|].
  apply Forall_forall. intros p Hp. apply in_map_iff in Hp. destruct Hp as [x [<- Hx]].
  exact (in_range_in post od x E3 Hx).
Qed.

(* THE REVERSE TRAVERSAL IS THE REVERSE OF THE FORWARD ONE: an accepted LTraverse followed by an
   accepted LRTraverse judged in the state the forward traversal left (which remembers its order).
   NOT true when both are judged in the SAME state with no order remembered: see
   [rtraverse_same_state_counterexample] in section 7. *)
Theorem accepted_rtraverse_is_reverse s a t m r1 r2 pre1 post1 pre2 post2 s1 s2 :
  get_st s a = Some t -> st_moved t = false -> srep (st_m t) m ->
  is_exn r1 EUnmodelled = false -> is_exn r2 EUnmodelled = false ->
  judge s a LTraverse r1 pre1 post1 = (s1, []) ->
  judge s1 a LRTraverse r2 pre2 post2 = (s2, []) ->
  exists od, r1 = out_of_order od /\ r2 = out_of_order (rev od) /\
    kvs r2 = rev (kvs r1) /\ poss r2 = rev (poss r1) /\
    is_listing m (kvs r1) /\ is_listing m (kvs r2) /\ StronglySorted lex_lt (poss r1) /\ s2 = s1.
Proof.
  intros Hg Hmv R Hun1 Hun2 Hj1 Hj2.
  destruct (ltraverse_inv s a t r1 pre1 post1 s1 Hg Hmv Hun1 Hj1) as [od [-> [-> [H1 [H2 _]]]]].
  assert (Hg' : get_st {| s_tabs := s_tabs s; s_its := s_its s; s_order := Some od; s_imgs := s_imgs s |} a = Some t)
    by exact Hg.
  jred Hj2 Hg' Hun2 Hmv.
  destruct (parse_trav r2) as [od2|] eqn:Ep; [|discriminate Hj2].
  destruct (trav_matches od2 (st_m t) && Spec.positions_sorted (rev od2) && in_range spb_ post2 od2) eqn:E; [|discriminate Hj2].
  cbn [s_order] in Hj2. destruct (out_eqb r2 _) eqn:E3; [|discriminate Hj2]. injection Hj2 as <-.
  apply out_eqb_norm in E3. fold (out_of_order (rev od)) in E3. apply parse_trav_out in Ep.
  rewrite Ep, !norm_out_of_order in E3. apply out_of_order_inj in E3. subst od2 r2.
  exists od. split; [reflexivity|]. split; [reflexivity|].
  split; [apply out_of_order_rev_kvs|]. split; [rewrite !poss_out_of_order; apply map_rev|].
  assert (L := trav_matches_is_listing od _ m R H1).
  split; [rewrite kvs_out_of_order; exact L|]. split.
  - rewrite out_of_order_rev_kvs, kvs_out_of_order. apply is_listing_rev. exact L.
  - split; [rewrite poss_out_of_order; apply positions_sorted_sorted; exact H2|reflexivity].
Qed.

(* the bookkeeping invariant is kept by every accepted locked operation (and established by
   LTraverse whatever the state before) *)
Lemma ord_inv_same s a t t' post s1 :
  get_st s a = Some t -> ord_inv s t post ->
  s_order s1 = s_order s -> s_tabs s1 = s_tabs s -> get_st s1 a = Some t' -> ord_inv s1 t' post.
Proof.
  intros Hg Hinv H1 H2 H3. unfold get_st in H3, Hg. rewrite H2, Hg in H3. injection H3 as <-.
  intros od Ho. rewrite H1 in Ho. exact (Hinv od Ho).
Qed.

Lemma ord_inv_drop s1 t' post : s_order s1 = None -> ord_inv s1 t' post.
Proof. intros H1 od Ho. rewrite H1 in Ho. discriminate Ho. Qed.

Theorem ord_inv_step s a t o r pre post s' t' :
  locked_op o = true -> get_st s a = Some t -> st_moved t = false -> is_exn r EUnmodelled = false ->
  ord_inv s t post -> judge s a o r pre post = (s', []) -> get_st s' a = Some t' -> ord_inv s' t' post.
Proof.
  intros Hop Hg Hmv Hun Hinv Hj Hg'.
  destruct o; try discriminate Hop.
  13: { (* LRTraverse *)
    destruct (lrtraverse_inv s a t r pre post s' Hg Hmv Hun Hj) as [od [_ [-> _]]].
    apply (ord_inv_same s a t t' post s Hg Hinv); [reflexivity|reflexivity|exact Hg']. }
  12: { (* LTraverse *)
    destruct (ltraverse_inv s a t r pre post s' Hg Hmv Hun Hj) as [od [_ [-> [H1 [H2 [H3 _]]]]]].
    unfold get_st in Hg', Hg. cbn [s_tabs] in Hg'. rewrite Hg in Hg'. injection Hg' as <-.
    intros od' Ho. cbn [s_order] in Ho. injection Ho as <-. repeat split; assumption. }
  all: jred Hj Hg Hun Hmv.
  all: repeat (match type of Hj with
               | (if ?b then _ else _) = _ => destruct b
               | match ?x with _ => _ end = _ => destruct x
               end); try discriminate Hj; injection Hj as <-;
       first [ apply ord_inv_drop; reflexivity
             | apply (ord_inv_same s a t t' post _ Hg Hinv); [reflexivity|reflexivity|exact Hg'] ].
Qed.

(* ================================================================== 6. completeness (no false alarm) *)
(* LAt / LCount / LEraseKey / LClear / LInsert / LIdx: an output conforming (up to [norm_out]) to the
   PROJECTION [lop_spec_abs] - a fortiori to [lop_spec], [lop_spec_abs_of_spec] - with consistent
   observations is not blamed, and the acceptor's new association list represents the prescribed
   map.  LFind: against the projection while no traversal order is remembered; against
   [lop_spec] itself (the printed position holds the key) when the remembered order agrees with the
   table ([ord_tracks]). *)

Ltac jredg Hg Hun Hmv :=
  unfold judge_op; rewrite Hg, Hun, Hmv; cbv beta iota zeta; cbn [andb]; unfold ok, blame.

Lemma norm_rv_fixed x y : norm_rv x = y -> (forall z, y <> RInt z) -> x = y.
Proof. intros H Hy. destruct x; cbn [norm_rv] in H; try exact H. exfalso. exact (Hy _ (eq_sym H)). Qed.

Lemma norm_out_fixed : forall r r0,
  norm_out r = r0 -> Forall (fun y => forall z, y <> RInt z) r0 -> r = r0.
Proof.
  induction r as [|x r IH]; intros [|y r0] H F; try discriminate H; [reflexivity|].
  cbn [norm_out map] in H. injection H as H1 H2. inversion F as [|y' l' Fy Fr]; subst y' l'.
  rewrite (norm_rv_fixed _ _ H1 Fy). f_equal. apply IH; [exact H2|exact Fr].
Qed.

Lemma not_unmodelled r r0 :
  norm_out r = norm_out r0 -> norm_out r0 <> [RExn EUnmodelled] -> is_exn r EUnmodelled = false.
Proof. intros H H0. apply is_exn_false. rewrite H. exact H0. Qed.

Lemma complete_LAt tb tb' s a t m k r r0 m' pre post :
  get_st s a = Some t -> st_moved t = false -> srep (st_m t) m ->
  norm_out r = norm_out r0 -> lop_spec_abs tb m (LAt k) r0 tb' m' ->
  exists s', judge s a (LAt k) r pre post = (s', []) /\ post_ok s' a t m'.
Proof.
  intros Hg Hmv R Hn [Hm Hr].
  assert (Hun : is_exn r EUnmodelled = false).
  { apply (not_unmodelled r r0 Hn). rewrite Hr. destruct (m k); discriminate. }
  jredg Hg Hun Hmv. rewrite (proj2 R k).
  assert (P : post_ok s a t m').
  { apply post_ok_same; [assumption..|]. apply (srep_meq _ _ _ R). apply meq_sym. exact Hm. }
  destruct (m k) as [v0|]; rewrite Hr in Hn; rewrite (proj2 (out_eqb_norm _ _) Hn); exists s; (split; [reflexivity|exact P]).
Qed.

Lemma complete_LCount tb tb' s a t m k r r0 m' pre post :
  get_st s a = Some t -> st_moved t = false -> srep (st_m t) m ->
  norm_out r = norm_out r0 -> lop_spec_abs tb m (LCount k) r0 tb' m' ->
  exists s', judge s a (LCount k) r pre post = (s', []) /\ post_ok s' a t m'.
Proof.
  intros Hg Hmv R Hn [Hm Hr].
  assert (Hun : is_exn r EUnmodelled = false).
  { apply (not_unmodelled r r0 Hn). rewrite Hr. discriminate. }
  jredg Hg Hun Hmv. rewrite (proj2 R k).
  assert (E : out_eqb r [RNat (match m k with Some _ => 1 | None => 0 end)] = true).
  { apply out_eqb_norm. rewrite Hn, Hr. destruct (m k); reflexivity. }
  rewrite E. exists s. split; [reflexivity|].
  apply post_ok_same; [assumption..|]. apply (srep_meq _ _ _ R). apply meq_sym. exact Hm.
Qed.

Lemma complete_LEraseKey tb tb' s a t m k r r0 m' pre post :
  get_st s a = Some t -> st_moved t = false -> srep (st_m t) m ->
  norm_out r = norm_out r0 -> lop_spec_abs tb m (LEraseKey k) r0 tb' m' ->
  exists s', judge s a (LEraseKey k) r pre post = (s', []) /\ post_ok s' a t m'.
Proof.
  intros Hg Hmv R Hn [Hm Hr].
  assert (Hun : is_exn r EUnmodelled = false).
  { apply (not_unmodelled r r0 Hn). rewrite Hr. discriminate. }
  jredg Hg Hun Hmv. assert (Hf := proj2 R k). rewrite <- Hf in Hr.
  destruct (sfind k (st_m t)) as [v0|] eqn:Ef; cbn [is_some] in Hr.
  - assert (E : out_eqb r [RNat 1] = true) by (apply out_eqb_norm; rewrite Hn, Hr; reflexivity).
    rewrite E. eexists. split; [reflexivity|].
    eapply post_ok_meq; [apply post_ok_put; [exact Hg|apply srep_sremove; exact R]|apply meq_sym; exact Hm].
  - assert (E : out_eqb r [RNat 0] = true) by (apply out_eqb_norm; rewrite Hn, Hr; reflexivity).
    rewrite E. exists s. split; [reflexivity|].
    apply post_ok_same; [assumption..|]. apply (srep_meq _ _ _ R). intro k'. rewrite (Hm k').
    symmetry. apply mset_absent_none. rewrite <- Hf. reflexivity.
Qed.

Lemma complete_LClear tb tb' s a t m r r0 m' pre post :
  get_st s a = Some t -> st_moved t = false -> srep (st_m t) m ->
  norm_out r = norm_out r0 -> lop_spec_abs tb m LClear r0 tb' m' ->
  exists s', judge s a LClear r pre post = (s', []) /\ post_ok s' a t m'.
Proof.
  intros Hg Hmv R Hn [Hm Hr].
  assert (Hun : is_exn r EUnmodelled = false).
  { apply (not_unmodelled r r0 Hn). rewrite Hr. discriminate. }
  jredg Hg Hun Hmv.
  assert (E : out_eqb r [RNone] = true) by (apply out_eqb_norm; rewrite Hn, Hr; reflexivity).
  rewrite E. eexists. split; [reflexivity|].
  eapply post_ok_meq; [apply post_ok_put; [exact Hg|apply srep_nil]|apply meq_sym; exact Hm].
Qed.

(* consistency of the observations for LInsert, as far as [judge_op] reads them (the analogue of
   [SpecSound.obs_consistent] for the insert family): the table is the one [pre] was read from,
   [post] shows the final hashpower, the minimum load factor is well formed, no doubling below it
   is visible, a load-factor exception leaves the load factor strictly below the minimum in the
   acceptor's reading, and the exception is not the model's fuel artefact.  (That a
   maximum-hashpower exception leaves the table AT the maximum comes from [lexn_abs].) *)
Definition lobs_consistent (tb tb' : table) (r : out) (pre post : obs) : Prop :=
  obs_pre tb pre /\ o_hp post = bhp (cur tb') /\ o_mlfd pre <> 0 /\
  grew_below_minimum spb_ pre post = false /\
  (norm_out r = [RExn ELoadFactorTooLow] -> lf_below spb_ pre post = true) /\ no_fuel r.

Lemma complete_LInsert tb tb' s a t m k v r r0 m' pre post :
  get_st s a = Some t -> st_moved t = false -> srep (st_m t) m ->
  norm_out r = norm_out r0 -> lobs_consistent tb tb' r pre post ->
  lop_spec_abs tb m (LInsert k v) r0 tb' m' ->
  exists s', judge s a (LInsert k v) r pre post = (s', []) /\ post_ok s' a t m'.
Proof.
  intros Hg Hmv R Hn [[Hhp [Hm Hl]] [Hhp' [Hd [Hgr [Hlfb Hnf]]]]] H. cbn [lop_spec_abs] in H.
  assert (Hf := proj2 R k).
  assert (Hshape : forall b sl ins, r0 = [RPos b sl; RBool ins] -> r = [RPos b sl; RBool ins]).
  { intros b sl ins ->. apply norm_out_fixed; [exact Hn|]. repeat constructor; discriminate. }
  assert (Hun : is_exn r EUnmodelled = false).
  { apply (not_unmodelled r r0 Hn). destruct (m k) as [v0|].
    - destruct H as [_ [p ->]]. discriminate.
    - destruct H as [[e [-> [_ [He _]]]]|[_ [p ->]]]; [|discriminate].
      intro X. injection X as ->. destruct He as [[? _]|[[? _]|?]]; discriminate. }
  jredg Hg Hun Hmv. rewrite Hgr. rewrite <- Hf in H.
  destruct (sfind k (st_m t)) as [v0|] eqn:Ef.
  - destruct H as [Hm' [p Hr]]. rewrite (Hshape _ _ _ Hr). cbn [Bool.eqb]. eexists. split; [reflexivity|].
    eapply post_ok_meq; [apply post_ok_put; [exact Hg|exact R]|apply meq_sym; exact Hm'].
  - destruct H as [[e [Hr [Hm' [He Hmax]]]]|[Hm' [p Hr]]].
    + assert (Er : r = [RExn e]).
      { apply norm_out_fixed; [rewrite Hn, Hr; reflexivity|]. repeat constructor; discriminate. }
      subst r0. assert (P : post_ok (inval s) a t m').
      { apply post_ok_inval. eapply post_ok_meq; [apply post_ok_same; eassumption|apply meq_sym; exact Hm']. }
      rewrite Er. destruct He as [[-> Hne]|[[-> [_ Hne]]| -> ]].
      * assert (E : maxhp_allowed pre post None = true).
        { unfold maxhp_allowed. rewrite Hhp', (Hmax eq_refl), Hm, N.eqb_refl.
          apply N.eqb_neq in Hne. rewrite Hne. reflexivity. }
        cbv beta iota. change (is_exn [RExn EMaxHashpower] EMaxHashpower) with true. cbv iota.
        rewrite E. exists (inval s). split; [reflexivity|exact P].
      * assert (E : lf_allowed pre = true).
        { apply lf_allowed_pre. split; [|exact Hd]. intro X. apply Hne. apply Hl. exact X. }
        assert (E2 : lf_below spb_ pre post = true) by (apply Hlfb; rewrite Er; reflexivity).
        cbv beta iota. change (is_exn [RExn ELoadFactorTooLow] EMaxHashpower) with false.
        change (is_exn [RExn ELoadFactorTooLow] ELoadFactorTooLow) with true. cbv iota.
        rewrite E, E2. exists (inval s). split; [reflexivity|exact P].
      * exfalso. apply Hnf. rewrite Er. reflexivity.
    + rewrite (Hshape _ _ _ Hr). cbn [Bool.eqb]. eexists. split; [reflexivity|].
      eapply post_ok_meq; [apply post_ok_put; [exact Hg|apply srep_sset; exact R]|apply meq_sym; exact Hm'].
Qed.

Lemma complete_LIdx tb tb' s a t m k r r0 m' pre post :
  get_st s a = Some t -> st_moved t = false -> srep (st_m t) m ->
  norm_out r = norm_out r0 -> lobs_consistent tb tb' r pre post ->
  lop_spec_abs tb m (LIdx k) r0 tb' m' ->
  exists s', judge s a (LIdx k) r pre post = (s', []) /\ post_ok s' a t m'.
Proof.
  intros Hg Hmv R Hn [[Hhp [Hm Hl]] [Hhp' [Hd [Hgr [Hlfb Hnf]]]]] H. cbn [lop_spec_abs] in H.
  assert (Hf := proj2 R k).
  assert (Hun : is_exn r EUnmodelled = false).
  { apply (not_unmodelled r r0 Hn). destruct (m k) as [v0|].
    - destruct H as [_ ->]. discriminate.
    - destruct H as [[e [-> [_ [He _]]]]|[_ ->]]; [|discriminate].
      intro X. injection X as ->. destruct He as [[? _]|[[? _]|?]]; discriminate. }
  jredg Hg Hun Hmv. rewrite Hgr. rewrite <- Hf in H.
  destruct (sfind k (st_m t)) as [v0|] eqn:Ef.
  - destruct H as [Hm' Hr]. rewrite Hr in Hn. rewrite (proj2 (out_eqb_norm _ _) Hn).
    exists (inval s). split; [reflexivity|].
    apply post_ok_inval. eapply post_ok_meq; [apply post_ok_same; eassumption|apply meq_sym; exact Hm'].
  - destruct H as [[e [Hr [Hm' [He Hmax]]]]|[Hm' Hr]].
    + assert (Er : r = [RExn e]).
      { apply norm_out_fixed; [rewrite Hn, Hr; reflexivity|]. repeat constructor; discriminate. }
      subst r0. assert (P : post_ok (inval s) a t m').
      { apply post_ok_inval. eapply post_ok_meq; [apply post_ok_same; eassumption|apply meq_sym; exact Hm']. }
      rewrite Er. change (out_eqb [RExn e] [RInt 0]) with false. cbv iota.
      destruct He as [[-> Hne]|[[-> [_ Hne]]| -> ]].
      * assert (E : maxhp_allowed pre post None = true).
        { unfold maxhp_allowed. rewrite Hhp', (Hmax eq_refl), Hm, N.eqb_refl.
          apply N.eqb_neq in Hne. rewrite Hne. reflexivity. }
        change (is_exn [RExn EMaxHashpower] EMaxHashpower) with true. cbv iota.
        rewrite E. exists (inval s). split; [reflexivity|exact P].
      * assert (E : lf_allowed pre = true).
        { apply lf_allowed_pre. split; [|exact Hd]. intro X. apply Hne. apply Hl. exact X. }
        assert (E2 : lf_below spb_ pre post = true) by (apply Hlfb; rewrite Er; reflexivity).
        change (is_exn [RExn ELoadFactorTooLow] EMaxHashpower) with false.
        change (is_exn [RExn ELoadFactorTooLow] ELoadFactorTooLow) with true. cbv iota.
        rewrite E, E2. exists (inval s). split; [reflexivity|exact P].
      * exfalso. apply Hnf. rewrite Er. reflexivity.
    + rewrite Hr in Hn. rewrite (proj2 (out_eqb_norm _ _) Hn). eexists. split; [reflexivity|].
      eapply post_ok_meq; [apply post_ok_put; [exact Hg|apply srep_sset; exact R]|apply meq_sym; exact Hm'].
Qed.

(* LFind while no traversal order is remembered: against the projection *)
Lemma complete_LFind_noorder tb tb' s a t m k ri r r0 m' pre post :
  endp post = it_end tb -> s_order s = None ->
  get_st s a = Some t -> st_moved t = false -> srep (st_m t) m ->
  norm_out r = norm_out r0 -> lop_spec_abs tb m (LFind k ri) r0 tb' m' ->
  exists s', judge s a (LFind k ri) r pre post = (s', []) /\ post_ok s' a t m'.
Proof.
  intros Hend Ho Hg Hmv R Hn [Hm [p [Hr Hp]]].
  assert (Er : r = [RPos (fst p) (snd p)]).
  { apply norm_out_fixed; [rewrite Hn, Hr; reflexivity|]. repeat constructor; discriminate. }
  assert (Hun : is_exn r EUnmodelled = false) by (rewrite Er; reflexivity).
  jredg Hg Hun Hmv. rewrite Er, Ho. rewrite (proj2 R k).
  assert (E : Bool.eqb (pos_eqb (fst p, snd p) (endp post)) (match m k with Some _ => false | None => true end) = true).
  { apply bool_eqb_iff. rewrite Hend. destruct (m k) as [v0|].
    - destruct (pos_eqb (fst p, snd p) (it_end tb)) eqn:E; [|reflexivity]. apply pos_eqb_eq in E.
      exfalso. destruct Hp as [_ Hp]. rewrite <- surjective_pairing in E. discriminate (Hp E).
    - apply pos_eqb_eq. rewrite <- surjective_pairing. apply Hp. reflexivity. }
  rewrite E. eexists. split; [reflexivity|].
  apply post_ok_same; [exact Hg|exact Hmv|]. apply (srep_meq _ _ _ R). apply meq_sym. exact Hm.
Qed.

(* LFind with a remembered order, against [lop_spec] itself: the remembered positions are those
   of the table (every entry of the order is stored where it says) and no key is stored twice *)
Section CompleteFind.
Variable hash : N -> N.

Definition ord_tracks (s : sst) (tb : table) : Prop :=
  forall od b sl k v, s_order s = Some od -> In (b, sl, k, v) od -> at_pos tb (b, sl) k v.

Lemma at_pos_unique tb p q k v v' :
  arr_ok c hash (cur tb) -> at_pos tb p k v -> at_pos tb q k v' -> p = q.
Proof.
  intros Ha [e [He [Hk _]]] [e' [He' [Hk' _]]].
  destruct (ao_uniq _ _ _ Ha _ _ _ _ _ _ He He') as [H1 H2]; [congruence|].
  destruct p, q. cbn [fst snd] in H1, H2. subst. reflexivity.
Qed.

Lemma complete_LFind tb s a t m k ri r r0 m' pre post :
  good c hash tb -> cfg_ok c ->
  endp post = it_end tb -> ord_inv s t post -> ord_tracks s tb ->
  get_st s a = Some t -> st_moved t = false -> srep (st_m t) m ->
  norm_out r = norm_out r0 -> lop_spec tb m (LFind k ri) r0 tb m' ->
  exists s', judge s a (LFind k ri) r pre post = (s', []) /\ post_ok s' a t m'.
Proof.
  intros G Hc Hend Hinv Htr Hg Hmv R Hn H.
  destruct (s_order s) as [od|] eqn:Ho.
  2: { apply (complete_LFind_noorder tb tb s a t m k ri r r0 m' pre post Hend Ho Hg Hmv R Hn).
       cbn [LockedRefine.lop_spec] in H. destruct H as [H1 [_ [p [H2 H3]]]].
       split; [exact H1|]. exists p. split; [exact H2|]. destruct (m k) as [v|].
       - split; [discriminate|]. intro E. exfalso.
         exact (proj2 (occ_in_table hash Hc tb p G (at_pos_occ c hash tb p k v G H3)) E).
       - split; [intros _; exact H3|reflexivity]. }
  cbn [LockedRefine.lop_spec] in H. destruct H as [Hm [_ [p [Hr Hp]]]].
  assert (Er : r = [RPos (fst p) (snd p)]).
  { apply norm_out_fixed; [rewrite Hn, Hr; reflexivity|]. repeat constructor; discriminate. }
  assert (Hun : is_exn r EUnmodelled = false) by (rewrite Er; reflexivity).
  destruct (Hinv od Ho) as [Htm _]. assert (Hl := ord_find_key_listing k od _ Htm).
  jredg Hg Hun Hmv. rewrite Er, Ho.
  assert (E : pos_eqb (fst p, snd p) (match ord_find_key k od with Some q => q | None => endp post end) = true).
  { apply pos_eqb_eq. rewrite <- surjective_pairing. rewrite (proj2 R k) in Hl.
    destruct (ord_find_key k od) as [q|] eqn:Eq.
    - destruct (m k) as [v|]; [|destruct Hl as [_ Hl]; discriminate (Hl eq_refl)].
      destruct (ord_find_key_some _ _ _ Eq) as [l1 [v1 [l2 Hod]]].
      assert (Hq : at_pos tb (fst q, snd q) k v1).
      { apply (Htr od _ _ _ _ Ho). rewrite Hod. apply in_or_app. right. left. reflexivity. }
      rewrite <- surjective_pairing in Hq.
      exact (at_pos_unique tb p q k v v1 (good_arr c hash tb G) Hp Hq).
    - rewrite (proj1 Hl eq_refl) in Hp. rewrite Hend. exact Hp. }
  rewrite E. eexists. split; [reflexivity|].
  apply post_ok_same; [exact Hg|exact Hmv|]. apply (srep_meq _ _ _ R). apply meq_sym. exact Hm.
Qed.

End CompleteFind.

(* THE PACKAGED COMPLETENESS STATEMENT for the operations that need no position bookkeeping *)
Definition complete_op (o : op) : bool :=
  match o with LAt _ | LCount _ | LEraseKey _ | LClear | LInsert _ _ | LIdx _ => true | _ => false end.
Definition needs_obs (o : op) : bool :=
  match o with LInsert _ _ | LIdx _ => true | _ => false end.

Theorem judge_complete_locked tb tb' s a t m o r r0 m' pre post :
  complete_op o = true ->
  get_st s a = Some t -> st_moved t = false -> srep (st_m t) m ->
  norm_out r = norm_out r0 -> lop_spec_abs tb m o r0 tb' m' ->
  (needs_obs o = true -> lobs_consistent tb tb' r pre post) ->
  exists s', judge s a o r pre post = (s', []) /\ post_ok s' a t m'.
Proof.
  intros Hop Hg Hmv R Hn H Hobs. destruct o; try discriminate Hop.
  - exact (complete_LInsert tb tb' _ _ _ _ _ _ _ _ _ pre post Hg Hmv R Hn (Hobs eq_refl) H).
  - exact (complete_LEraseKey tb tb' _ _ _ _ _ _ _ _ pre post Hg Hmv R Hn H).
  - exact (complete_LAt tb tb' _ _ _ _ _ _ _ _ pre post Hg Hmv R Hn H).
  - exact (complete_LIdx tb tb' _ _ _ _ _ _ _ _ pre post Hg Hmv R Hn (Hobs eq_refl) H).
  - exact (complete_LCount tb tb' _ _ _ _ _ _ _ _ pre post Hg Hmv R Hn H).
  - exact (complete_LClear tb tb' _ _ _ _ _ _ _ pre post Hg Hmv R Hn H).
Qed.

End Sound.

(* ================================================================== 7. composition with the model's refinement *)

Section Compose.
Variable c : config.
Variable hash : N -> N.
Hypothesis Hc : cfg_ok c.
Variable fapply : fnk -> Z -> bool -> Z * bool.
Variable spb_ : N.
Notation judge := (judge_op fapply spb_).

(* THE MODEL'S LOCKED-TABLE OUTPUTS ARE ACCEPTED (LAt, LCount, LEraseKey, LClear unconditionally;
   LInsert, LIdx under [lobs_consistent]): one locked-mode step of the sequential model from a settled
   table represented by [m], judged from a state whose association list represents the same [m],
   is not blamed, and the two stay related ([rep] / [srep] of the same [m']). *)
Theorem model_accepted_locked w a sl o w' r m s ts pre post :
  nothrow c = true -> active sl = true -> complete_op o = true ->
  good c hash (tb sl) -> rep c (tb sl) m ->
  step_some c hash fapply w a sl o = (w', r) ->
  get_st s a = Some ts -> st_moved ts = false -> srep (st_m ts) m ->
  esc c hash (tb sl) \/
  exists t' m', good c hash t' /\ lim_same (tb sl) t' /\ rep c t' m' /\
    ((needs_obs o = true -> lobs_consistent spb_ (tb sl) t' r pre post) ->
     exists s', judge s a o r pre post = (s', []) /\ post_ok s' a ts m').
Proof.
  intros Hnt Hact Hop G Rm E Hg Hmv R.
  assert (Hlk : locked_op o = true) by (destruct o; try discriminate Hop; reflexivity).
  assert (Hpre : lop_pre c (tb sl) o) by (destruct o; try discriminate Hop; exact I).
  destruct (locked_mode_op_refines c hash Hc fapply w a sl o w' r m Hnt Hact Hlk G Rm Hpre E)
    as [He|[t' [m' [_ [G' [L [R' Hs]]]]]]]; [left; exact He|right].
  exists t', m'. split; [exact G'|]. split; [exact L|]. split; [exact R'|]. intro Hobs.
  apply (judge_complete_locked c fapply spb_ (tb sl) t' s a ts m o r r m' pre post Hop Hg Hmv R eq_refl);
    [|exact Hobs].
  exact (lop_spec_abs_of_spec c hash Hc (tb sl) m o r t' m' Hnt G Hs).
Qed.

End Compose.

(* ================================================================== 8. findings and non-vacuity *)

Module SpecSoundLockedExamples.

(* an active table holding 1 |-> 10, 2 |-> 20; no traversal order remembered *)
Definition sA : sst :=
  {| s_tabs := [Some {| st_m := [(1, 10%Z); (2, 20%Z)]; st_act := true; st_moved := false |}];
     s_its := [None; None]; s_order := None; s_imgs := [] |}.
Definition tA : stab := {| st_m := [(1, 10%Z); (2, 20%Z)]; st_act := true; st_moved := false |}.
Definition mA : amap := amap_of [(1, 10%Z); (2, 20%Z)].
Definition ob (hp mhp : N) : obs :=
  {| o_hp := hp; o_size := 2; o_cap := N.shiftl 1 hp * 4; o_mlfn := 1; o_mlfd := 20; o_mhp := mhp;
     o_act := true; o_dead := false |}.
Notation judge0 := (judge_op fapply_std 4).

Example sA_hyps : get_st sA 0 = Some tA /\ st_act tA = true /\ st_moved tA = false /\ srep (st_m tA) mA /\
                  ord_inv 4 sA tA (ob 3 3).
Proof.
  split; [reflexivity|]. split; [reflexivity|]. split; [reflexivity|]. split.
  - apply srep_amap_of. cbn. repeat constructor; cbn; intuition discriminate.
  - intros od H. discriminate H.
Qed.

(* ---- non-vacuity: accepted judgements of every locked operation *)
Example accepted_instances :
  snd (judge0 sA 0 (LAt 1) [RInt 10] (ob 3 3) (ob 3 3)) = [] /\
  snd (judge0 sA 0 (LAt 3) [RExn EOutOfRange] (ob 3 3) (ob 3 3)) = [] /\
  snd (judge0 sA 0 (LCount 1) [RInt 1] (ob 3 3) (ob 3 3)) = [] /\
  snd (judge0 sA 0 (LFind 3 0) [RPos 8 0] (ob 3 3) (ob 3 3)) = [] /\
  snd (judge0 sA 0 (LFind 1 0) [RPos 2 1] (ob 3 3) (ob 3 3)) = [] /\
  snd (judge0 sA 0 (LEraseKey 1) [RInt 1] (ob 3 3) (ob 3 3)) = [] /\
  snd (judge0 sA 0 LClear [RNone] (ob 3 3) (ob 3 3)) = [] /\
  snd (judge0 sA 0 (LInsert 3 30%Z) [RPos 5 0; RBool true] (ob 3 3) (ob 3 3)) = [] /\
  snd (judge0 sA 0 (LInsert 1 30%Z) [RPos 2 1; RBool false] (ob 3 3) (ob 3 3)) = [] /\
  snd (judge0 sA 0 (LInsert 3 30%Z) [RExn EMaxHashpower] (ob 3 3) (ob 3 3)) = [] /\
  snd (judge0 sA 0 (LIdx 3) [RInt 0] (ob 3 3) (ob 3 3)) = [] /\
  snd (judge0 sA 0 (LRehash 5) [RNone] (ob 3 9) (ob 5 9)) = [] /\
  snd (judge0 sA 0 (LReserve 100) [RNone] (ob 3 9) (ob 5 9)) = [] /\
  snd (judge0 sA 0 OUnlock [RNone] (ob 3 3) (ob 3 3)) = [].
Proof. repeat split; vm_compute; reflexivity. Qed.

(* ... and blamed ones *)
Example blamed_instances :
  snd (judge0 sA 0 (LAt 1) [RInt 11] (ob 3 3) (ob 3 3)) = [C09_iter] /\
  snd (judge0 sA 0 (LCount 3) [RInt 1] (ob 3 3) (ob 3 3)) = [C09_iter] /\
  snd (judge0 sA 0 (LFind 1 0) [RPos 8 0] (ob 3 3) (ob 3 3)) = [C09_iter] /\
  snd (judge0 sA 0 (LInsert 1 30%Z) [RPos 2 1; RBool true] (ob 3 3) (ob 3 3)) = [C09_iter] /\
  snd (judge0 sA 0 (LRehash 3) [RExn EMaxHashpower] (ob 3 3) (ob 3 3)) = [C10_limit].
Proof. repeat split; vm_compute; reflexivity. Qed.

(* an instance of [judge_sound_locked_strict]: the accepted LInsert of an absent key is the one the
   projection of [lop_spec] prescribes, and the new map has the binding *)
Definition c0 : config := {| spb := 4; lbits := 16; simple := false; nothrow := true; destructive := false |}.

Example accepted_linsert_sound tb tb' :
  obs_pre tb (ob 3 3) -> o_hp (ob 3 3) = bhp (cur tb') ->
  exists m' r0, norm_out r0 = [RPos 5 0; RBool true] /\
    lop_spec_abs c0 tb mA (LInsert 3 30%Z) r0 tb' m' /\ m' 3 = Some 30%Z /\ m' 1 = Some 10%Z.
Proof.
  intros Hpre Hhp. destruct sA_hyps as [Hg [_ [Hmv [R Hinv]]]].
  destruct (judge0 sA 0 (LInsert 3 30%Z) [RPos 5 0; RBool true] (ob 3 3) (ob 3 3)) as [s' bl] eqn:Ej.
  assert (Hbl : bl = []) by (change bl with (snd (s', bl)); rewrite <- Ej; vm_compute; reflexivity).
  subst bl.
  destruct (judge_sound_locked_strict c0 fapply_std 4 tb tb' sA 0 tA mA (LInsert 3 30%Z) [RPos 5 0; RBool true] (ob 3 3) (ob 3 3) s'
              eq_refl eq_refl (conj Hpre Hhp) Hinv Hg Hmv R eq_refl) as [m' [r0 [H1 [[t' [Hg' [_ [_ R']]]] H3]]]].
  - exact I.
  - exact Ej.
  - exists m', r0. split; [exact H1|]. split; [exact H3|].
    assert (Es : s' = fst (judge0 sA 0 (LInsert 3 30%Z) [RPos 5 0; RBool true] (ob 3 3) (ob 3 3))) by (rewrite Ej; reflexivity).
    vm_compute in Es. subst s'. vm_compute in Hg'. injection Hg' as <-. cbn [st_m] in R'.
    rewrite <- !(proj2 R'). split; reflexivity.
Qed.

(* ---- FORMER FINDINGS L1-L5 (outputs [lop_spec] forbids that the acceptor of the first version of
   this file accepted).  Spec.v has been tightened; the same outputs are now BLAMED. *)

(* L1: locked_table::insert on a PRESENT key "throwing" a policy exception ([lop_spec] prescribes
   [RPos p; RBool false]); on an absent key the exception is still accepted, as [lop_spec] allows *)
Definition ob_lf : obs :=
  {| o_hp := 3; o_size := 1; o_cap := 32; o_mlfn := 1; o_mlfd := 2; o_mhp := NO_MAXIMUM_HASHPOWER;
     o_act := true; o_dead := false |}.

Example L1_now_blamed :
  snd (judge0 sA 0 (LInsert 1 30%Z) [RExn EMaxHashpower] (ob 3 3) (ob 3 3)) = [C10_limit] /\
  snd (judge0 sA 0 (LInsert 1 30%Z) [RExn ELoadFactorTooLow] ob_lf ob_lf) = [C10_limit] /\
  snd (judge0 sA 0 (LInsert 3 30%Z) [RExn EMaxHashpower] (ob 3 3) (ob 3 3)) = [] /\
  snd (judge0 sA 0 (LInsert 3 30%Z) [RExn ELoadFactorTooLow] ob_lf ob_lf) = [].
Proof. repeat split; vm_compute; reflexivity. Qed.

Example L1_forbidden c tb m tb' m' e :
  m 1 = Some 10%Z -> ~ lop_spec c tb m (LInsert 1 30%Z) [RExn e] tb' m' /\
                     ~ lop_spec_abs c tb m (LInsert 1 30%Z) [RExn e] tb' m'.
Proof.
  intro Hm. split; intro H; cbn [lop_spec lop_spec_abs] in H; rewrite Hm in H;
    destruct H as [_ [p [H _]]] || destruct H as [_ [p H]]; discriminate H.
Qed.

(* L2: locked_table::operator[] - a policy exception (a) on a PRESENT key, (b) on an absent key
   with NO maximum hashpower configured, (c) load_factor_too_low with minimum load factor 0; with
   the side conditions met the exception on an absent key is still accepted *)
Definition ob0 : obs :=
  {| o_hp := 3; o_size := 2; o_cap := 32; o_mlfn := 0; o_mlfd := 1; o_mhp := NO_MAXIMUM_HASHPOWER;
     o_act := true; o_dead := false |}.

Example L2_now_blamed :
  snd (judge0 sA 0 (LIdx 1) [RExn ELoadFactorTooLow] (ob 3 3) (ob 3 3)) = [C10_limit] /\
  snd (judge0 sA 0 (LIdx 3) [RExn EMaxHashpower] ob0 ob0) = [C10_limit] /\
  snd (judge0 sA 0 (LIdx 3) [RExn ELoadFactorTooLow] ob0 ob0) = [C10_limit] /\
  snd (judge0 sA 0 (LIdx 3) [RExn EMaxHashpower] (ob 3 3) (ob 3 3)) = [] /\
  snd (judge0 sA 0 (LIdx 3) [RExn ELoadFactorTooLow] ob_lf ob_lf) = [].
Proof. repeat split; vm_compute; reflexivity. Qed.

Example L2a_forbidden c tb m tb' m' e :
  m 1 = Some 10%Z -> ~ lop_spec c tb m (LIdx 1) [RExn e] tb' m'.
Proof. intros Hm H. cbn [lop_spec] in H. rewrite Hm in H. destruct H as [_ H]. discriminate H. Qed.

Example L2bc_forbidden c tb m tb' m' :
  obs_pre tb ob0 -> m 3 = None ->
  ~ lop_spec c tb m (LIdx 3) [RExn EMaxHashpower] tb' m' /\
  ~ lop_spec c tb m (LIdx 3) [RExn ELoadFactorTooLow] tb' m'.
Proof.
  intros [_ [Hmhp Hmlf]] Hm. cbn [o_mhp o_mlfn ob0] in Hmhp, Hmlf.
  split; intro H; cbn [lop_spec] in H; rewrite Hm in H;
    (destruct H as [[e [He [_ [[[E X]|[[E [_ X]]|E]] _]]]]|[_ H]]; [| | |discriminate H]);
    injection He as <-; try discriminate E.
  - apply X. symmetry. exact Hmhp.
  - apply X. apply Hmlf. reflexivity.
Qed.

(* L3: equal_range while no traversal order is remembered: an absent key must give end(), end(),
   a present key a non-end first position *)
Example L3_now_blamed :
  snd (judge0 sA 0 (LRange 3) [RPos 0 1; RPos 0 1] (ob 3 3) (ob 3 3)) = [C09_iter] /\
  snd (judge0 sA 0 (LRange 1) [RPos 8 0; RPos 8 0] (ob 3 3) (ob 3 3)) = [C09_iter] /\
  snd (judge0 sA 0 (LRange 3) [RPos 8 0; RPos 8 0] (ob 3 3) (ob 3 3)) = [] /\
  snd (judge0 sA 0 (LRange 1) [RPos 0 1; RPos 0 2] (ob 3 3) (ob 3 3)) = [].
Proof. repeat split; vm_compute; reflexivity. Qed.

Example L3_forbidden c tb m tb' m' :
  m 3 = None -> ~ lop_spec c tb m (LRange 3) [RPos 0 1; RPos 0 1] tb' m' /\
                ~ lop_spec_abs c tb m (LRange 3) [RPos 0 1; RPos 0 1] tb' m'.
Proof.
  intro Hm. split; intro H; cbn [lop_spec lop_spec_abs] in H; rewrite Hm in H;
    (destruct H as [_ [_ H]] || destruct H as [_ H]); unfold it_end, end_pos in H; cbn [fst snd] in H;
    discriminate H.
Qed.

(* RESIDUAL FINDING L3': present key, no remembered order: the second position is not looked at
   (sA, LRange 1, output pos:0:1 pos:0:0 - the range would end BEFORE it starts); the projection
   (hence [lop_spec] on a well-formed table, [lop_spec_abs_of_spec]) asks [lex_lt p q], which the
   two printed positions alone decide *)
Example L3'_still_accepted :
  snd (judge0 sA 0 (LRange 1) [RPos 0 1; RPos 0 0] (ob 3 3) (ob 3 3)) = [].
Proof. vm_compute. reflexivity. Qed.

Example L3'_forbidden c tb m tb' m' :
  m 1 = Some 10%Z -> ~ lop_spec_abs c tb m (LRange 1) [RPos 0 1; RPos 0 0] tb' m'.
Proof.
  intros Hm H. cbn [lop_spec_abs] in H. rewrite Hm in H. destruct H as [_ [p [q [Hr [_ Hlt]]]]].
  injection Hr as H1 H2 H3 H4. unfold lex_lt in Hlt. lia.
Qed.

(* L4: the reverse traversal while no order is remembered: positions outside the table *)
Definition s1 : sst :=
  {| s_tabs := [Some {| st_m := [(1, 10%Z)]; st_act := true; st_moved := false |}];
     s_its := []; s_order := None; s_imgs := [] |}.

Example L4_now_blamed :
  snd (judge0 s1 0 LRTraverse [RPos 99 99; RKV 1 10%Z] (ob 3 3) (ob 3 3)) = [C09_iter] /\
  snd (judge0 s1 0 LTraverse [RPos 99 99; RKV 1 10%Z] (ob 3 3) (ob 3 3)) = [C09_iter] /\
  snd (judge0 s1 0 LRTraverse [RPos 7 3; RKV 1 10%Z] (ob 3 3) (ob 3 3)) = [].
Proof. repeat split; vm_compute; reflexivity. Qed.

Example L4_forbidden c tb m tb' m' :
  spb c <= 8 -> ~ lop_spec_abs c tb m LRTraverse [RPos 99 99; RKV 1 10%Z] tb' m'.
Proof.
  intros Hs [_ [od [Hr [_ [_ F]]]]].
  assert (E : od = [(99, 99, 1, 10%Z)]) by (apply out_of_order_inj; symmetry; exact Hr).
  subst od. cbn [map opos] in F. inversion F as [|x l [_ H] _]; subst. cbn [snd] in H. lia.
Qed.

(* L5: a second forward traversal, nothing having happened in between, with a different position
   assignment ([lop_spec] makes the traversal a function of the table); repeating the same output
   is accepted *)
Example L5_now_blamed :
  let r1 := [RPos 0 0; RKV 1 10%Z; RPos 0 1; RKV 2 20%Z] in
  let r2 := [RPos 3 2; RKV 2 20%Z; RPos 5 0; RKV 1 10%Z] in
  let sT := fst (judge0 sA 0 LTraverse r1 (ob 3 3) (ob 3 3)) in
  snd (judge0 sA 0 LTraverse r1 (ob 3 3) (ob 3 3)) = [] /\
  snd (judge0 sT 0 LTraverse r2 (ob 3 3) (ob 3 3)) = [C09_iter] /\
  snd (judge0 sT 0 LTraverse r1 (ob 3 3) (ob 3 3)) = [].
Proof. repeat split; vm_compute; reflexivity. Qed.

Example L5_forbidden c tb m r1 r2 tb1 m1 tb2 m2 :
  lop_spec c tb m LTraverse r1 tb1 m1 -> lop_spec c tb m LTraverse r2 tb2 m2 -> r1 = r2.
Proof. intros [_ [_ [H1 _]]] [_ [_ [H2 _]]]. rewrite H1, H2. reflexivity. Qed.

(* ---- the reverse traversal: accepted after the forward one only as its exact reverse ... *)
Example rtraverse_after_traverse :
  let r1 := [RPos 0 0; RKV 1 10%Z; RPos 0 1; RKV 2 20%Z] in
  let sT := fst (judge0 sA 0 LTraverse r1 (ob 3 3) (ob 3 3)) in
  snd (judge0 sT 0 LRTraverse [RPos 0 1; RKV 2 20%Z; RPos 0 0; RKV 1 10%Z] (ob 3 3) (ob 3 3)) = [] /\
  snd (judge0 sT 0 LRTraverse [RPos 0 1; RKV 1 10%Z; RPos 0 0; RKV 2 20%Z] (ob 3 3) (ob 3 3)) = [C09_iter].
Proof. split; vm_compute; reflexivity. Qed.

(* ... and with the order remembered equal_range is judged exactly (no L3) *)
Example lrange_after_traverse :
  let r1 := [RPos 0 0; RKV 1 10%Z; RPos 0 1; RKV 2 20%Z] in
  let sT := fst (judge0 sA 0 LTraverse r1 (ob 3 3) (ob 3 3)) in
  snd (judge0 sT 0 (LRange 1) [RPos 0 0; RPos 0 1] (ob 3 3) (ob 3 3)) = [] /\
  snd (judge0 sT 0 (LRange 2) [RPos 0 1; RPos 8 0] (ob 3 3) (ob 3 3)) = [] /\
  snd (judge0 sT 0 (LRange 3) [RPos 8 0; RPos 8 0] (ob 3 3) (ob 3 3)) = [] /\
  snd (judge0 sT 0 (LRange 3) [RPos 0 1; RPos 0 1] (ob 3 3) (ob 3 3)) = [C09_iter] /\
  snd (judge0 sT 0 (LRange 1) [RPos 0 0; RPos 8 0] (ob 3 3) (ob 3 3)) = [C09_iter] /\
  snd (judge0 sT 0 (LFind 2 0) [RPos 0 1] (ob 3 3) (ob 3 3)) = [] /\
  snd (judge0 sT 0 (LFind 2 0) [RPos 0 0] (ob 3 3) (ob 3 3)) = [C09_iter].
Proof. repeat split; vm_compute; reflexivity. Qed.

(* ... but when both traversals are judged in the SAME state with no remembered order the accepted
   reverse output need not be the reverse of the accepted forward one (the statement "reverse of
   the forward traversal when both are judged in the same state" is FALSE as it stands) *)
Example rtraverse_same_state_counterexample :
  let r1 := [RPos 0 0; RKV 1 10%Z; RPos 0 1; RKV 2 20%Z] in
  let r2 := [RPos 0 1; RKV 1 10%Z; RPos 0 0; RKV 2 20%Z] in
  snd (judge0 sA 0 LTraverse r1 (ob 3 3) (ob 3 3)) = [] /\
  snd (judge0 sA 0 LRTraverse r2 (ob 3 3) (ob 3 3)) = [] /\
  kvs r2 <> rev (kvs r1).
Proof. repeat split; try (vm_compute; reflexivity). vm_compute. discriminate. Qed.

(* ---- by design (as in SpecSound): an output "exc:<unknown>" is passed unjudged; RNat n and
   RInt n are identified *)
Example unmodelled_passed : snd (judge0 sA 0 (LAt 1) [RExn EUnmodelled] (ob 3 3) (ob 3 3)) = [].
Proof. vm_compute. reflexivity. Qed.

End SpecSoundLockedExamples.
