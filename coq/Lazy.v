(* L1 proofs: the DEFERRED-migration state (normal mode, large table).
   After fast_double_body in normal mode with kmax <= 2^hp, the old array still holds the
   elements of every un-migrated stripe; a stripe is migrated the first time it is locked.
   This file defines the invariant [wfg] of that state (it collapses to [settled] when every
   stripe is migrated), the abstraction [lholds], and proves that the operations preserve the
   invariant and act correctly on the abstraction. *)
From Coq Require Import NArith ZArith List Bool Lia FMapPositive.
From LC Require Import gen.HashGen Bits Core Api InvDefs ArrLemmas Stats Resize InsertLemmas.
Import ListNotations.
Local Open Scope N_scope.

Section Lazy.
Variable c : config.
Variable hash : N -> N.
Hypothesis Hc : cfg_ok c.

Notation arr_ok := (arr_ok c hash).
Notation settled := (settled c hash).
Notation cand := (cand hash).

(* ================================================================== A. definitions *)

(* old bucket b is still pending: in range, and its stripe is not yet migrated *)
Definition pendb (t : table) (b : N) : bool :=
  (b <? 2 ^ bhp (old t)) && negb (mig (lock_at t (b mod kmax c))).

Definition unmig_count (la : lockarr) : nat := length (filter (fun lk => negb (mig lk)) la).

(* array-level invariant: P = set of old buckets still to be moved, o = old array, n = new array *)
Record linv (P : N -> Prop) (o n : barray) : Prop := {
  li_arr : arr_ok n;
  li_alive : bdead n = false;
  li_P_range : forall b, P b -> b < 2 ^ bhp o;
  (* the two images of a pending old bucket are still empty *)
  li_empty : forall b s e, bget n b s = Some e -> ~ P (b mod 2 ^ bhp o);
  li_old_range : forall b s e, P b -> bget o b s = Some e -> s < spb c;
  li_old_cand : forall b s e, P b -> bget o b s = Some e -> cand (bhp o) (ekey e) b;
  li_old_tag : forall b s e, P b -> bget o b s = Some e -> epart e = partial_key (hash (ekey e));
  li_old_uniq : forall b s e b' s' e', P b -> P b' ->
     bget o b s = Some e -> bget o b' s' = Some e' -> ekey e = ekey e' -> b = b' /\ s = s';
  li_cross : forall b s e b' s' e', P b ->
     bget o b s = Some e -> bget n b' s' = Some e' -> ekey e <> ekey e'
}.

(* the abstraction at array level *)
Definition lh (P : N -> Prop) (o n : barray) (k : N) (v : Z) : Prop :=
  holds n k v \/ exists b s e, P b /\ bget o b s = Some e /\ ekey e = k /\ eval e = v.

(* ghost array: the pending part of the old array (used only for counting) *)
Definition ghost (P : N -> Prop) (o g : barray) : Prop :=
  bhp g = bhp o /\
  (forall b s, P b -> bget g b s = bget o b s) /\
  (forall b s, ~ P b -> bget g b s = None).

Definition pendP (t : table) : N -> Prop := fun b => pendb t b = true.

(* extra facts of the lazy state; s = true: the remaining-stripes counter is exact *)
Record lazy_x (s : bool) (t : table) : Prop := {
  lx_hp : bhp (cur t) = bhp (old t) + 1;
  lx_old_alive : bdead (old t) = false;
  lx_K : kmax c <= 2 ^ bhp (old t);
  lx_len : length (cur_locks t) = N.to_nat (kmax c);
  lx_nrem : s = true -> nrem t = N.of_nat (unmig_count (cur_locks t))
}.

Record wfg (s : bool) (t : table) : Prop := {
  wf_locks : locks t <> [];
  wf_cover : forall b, b < 2 ^ bhp (cur t) -> (N.to_nat (lock_ind_gen (kmax c) b) < length (cur_locks t))%nat;
  wf_inv : linv (pendP t) (old t) (cur t);
  wf_lazy : all_migrated t \/ lazy_x s t
}.

Definition wf : table -> Prop := wfg true.

Definition lholds (t : table) (k : N) (v : Z) : Prop := lh (pendP t) (old t) (cur t) k v.

Definition lcounted (t : table) : Prop :=
  exists g, ghost (pendP t) (old t) g /\
            sum_cnt (cur_locks t) = Z.of_nat (count_arr c (cur t) + count_arr c g).

(* ------------------------------------------------------------------ basic facts *)

Lemma pendb_all_migrated t b : all_migrated t -> pendb t b = false.
Proof.
  intro H. unfold pendb. rewrite (lock_at_mig t _ H). cbn [negb]. apply andb_false_r.
Qed.

Lemma pendb_true t b :
  pendb t b = true <-> b < 2 ^ bhp (old t) /\ mig (lock_at t (b mod kmax c)) = false.
Proof.
  unfold pendb. rewrite andb_true_iff, N.ltb_lt, negb_true_iff. reflexivity.
Qed.

Lemma pendb_ext t t' :
  cur_locks t' = cur_locks t -> bhp (old t') = bhp (old t) -> forall b, pendb t' b = pendb t b.
Proof. intros E1 E2 b. unfold pendb, lock_at. rewrite E1, E2. reflexivity. Qed.

Lemma linv_ext P P' o n : (forall b, P b <-> P' b) -> linv P o n -> linv P' o n.
Proof.
  intros HP [I1 I2 I3 I4 I5 I6 I7 I8 I9]. constructor; try assumption.
  - intros b Hb. apply I3. apply HP. exact Hb.
  - intros b s e E F. apply (I4 b s e E). apply HP. exact F.
  - intros b s e Hb. apply I5. apply HP. exact Hb.
  - intros b s e Hb. apply I6. apply HP. exact Hb.
  - intros b s e Hb. apply I7. apply HP. exact Hb.
  - intros b s e b' s' e' Hb Hb'. apply I8; apply HP; assumption.
  - intros b s e b' s' e' Hb. apply I9. apply HP. exact Hb.
Qed.

Lemma lh_ext P P' o n k v : (forall b, P b <-> P' b) -> (lh P o n k v <-> lh P' o n k v).
Proof.
  intro HP. unfold lh. split; (intros [H|[b [s [e [Hb R]]]]]; [left; exact H|right]);
    exists b, s, e; (split; [apply HP; exact Hb|exact R]).
Qed.

Lemma ghost_ext P P' o g : (forall b, P b <-> P' b) -> ghost P o g -> ghost P' o g.
Proof.
  intros HP [G1 [G2 G3]]. split; [exact G1|]. split.
  - intros b s Hb. apply G2. apply HP. exact Hb.
  - intros b s Hb. apply G3. intro F. apply Hb. apply HP. exact F.
Qed.

(* nothing pending: the invariant is just well-formedness of the new array *)
Lemma linv_none o n : arr_ok n -> bdead n = false -> linv (fun _ => False) o n.
Proof. intros Ha Hd. constructor; try assumption; intros; tauto. Qed.

Lemma lh_none P o n k v : (forall b, ~ P b) -> (lh P o n k v <-> holds n k v).
Proof.
  intro HP. unfold lh. split; [|intro H; left; exact H].
  intros [H|[b [s [e [Hb _]]]]]; [exact H|]. exfalso. apply (HP b Hb).
Qed.

Lemma ghost_none_count P o g : (forall b, ~ P b) -> ghost P o g -> count_arr c g = O.
Proof.
  intros HP [_ [_ G3]]. apply count_arr_empty. intros b s. apply G3. apply HP.
Qed.

(* ------------------------------------------------------------------ collapse to [settled] *)

Lemma pendP_none t : all_migrated t -> forall b, ~ pendP t b.
Proof. intros H b. unfold pendP. rewrite (pendb_all_migrated t b H). discriminate. Qed.

Lemma settled_wfg s t : settled t -> wfg s t.
Proof.
  intro St. constructor.
  - apply (se_locks _ _ _ St).
  - apply (se_cover _ _ _ St).
  - apply (linv_ext (fun _ => False)).
    + intro b. split; [contradiction|]. apply pendP_none. apply (se_mig _ _ _ St).
    + apply linv_none; [apply (se_arr _ _ _ St)|apply (se_alive _ _ _ St)].
  - left. apply (se_mig _ _ _ St).
Qed.

Lemma wfg_settled s t : wfg s t -> all_migrated t -> settled t.
Proof.
  intros W Hm. constructor.
  - apply (li_arr _ _ _ (wf_inv _ _ W)).
  - apply (li_alive _ _ _ (wf_inv _ _ W)).
  - exact Hm.
  - apply (wf_locks _ _ W).
  - apply (wf_cover _ _ W).
Qed.

Lemma wfg_weaken t : wfg true t -> wfg false t.
Proof.
  intros [W1 W2 W3 W4]. constructor; try assumption.
  destruct W4 as [H|[X1 X2 X3 X4 X5]]; [left; exact H|right].
  constructor; try assumption. discriminate.
Qed.

Lemma lholds_settled t k v : all_migrated t -> (lholds t k v <-> holds (cur t) k v).
Proof. intro H. apply lh_none. apply pendP_none. exact H. Qed.

Lemma lcounted_settled t : all_migrated t -> (lcounted t <-> counted c t).
Proof.
  intro H. unfold lcounted, counted. split.
  - intros [g [G E]]. rewrite E. rewrite (ghost_none_count _ _ _ (pendP_none t H) G). f_equal. lia.
  - intro E. exists (bnew (bhp (old t))). split.
    + split; [reflexivity|]. split; intros b s Hb.
      * exfalso. exact (pendP_none t H b Hb).
      * apply bget_bnew.
    + rewrite count_arr_bnew, E. f_equal. lia.
Qed.

(* ================================================================== B. moving one pending bucket *)

Lemma mbs_bdead_old n : forall oldb newb obi ns s,
  bdead (fst (move_bucket_slots c hash oldb newb obi ns s n)) = bdead oldb.
Proof.
  induction n as [|n IH]; intros oldb newb obi ns s; cbn [move_bucket_slots]; [reflexivity|].
  destruct (bget oldb obi s) as [e|]; [|apply IH].
  cbv zeta. rewrite IH. apply bdead_bset.
Qed.

(* everything the lazy invariant needs about one run of the slot loop (from Resize.mbs_sinv) *)
Lemma bucket_move ohp o n g i :
  ohp + 1 < 62 -> i < 2 ^ ohp -> bhp o = ohp -> bhp n = ohp + 1 -> bhp g = ohp ->
  (forall s e, bget o i s = Some e -> s < spb c) ->
  (forall s e, bget o i s = Some e -> cand ohp (ekey e) i) ->
  (forall s e s' e', bget o i s = Some e -> bget o i s' = Some e' -> ekey e = ekey e' -> s = s') ->
  (forall s, bget n i s = None) -> (forall s, bget n (i + 2 ^ ohp) s = None) ->
  (forall s, bget g i s = bget o i s) ->
  let nb := i + 2 ^ ohp in
  let r := move_bucket_slots c hash o n i 0 0 (N.to_nat (spb c)) in
  let o' := fst r in
  let n' := snd r in
  bhp n' = ohp + 1 /\ bdead n' = bdead n /\ bhp o' = ohp /\
  (forall b s, b <> i -> b <> nb -> bget n' b s = bget n b s) /\
  (forall b s, b <> i -> bget o' b s = bget o b s) /\
  (forall b s' e', (b = i \/ b = nb) -> bget n' b s' = Some e' ->
     s' < spb c /\ exists s e, bget o i s = Some e /\ e' = live e /\ cand (ohp + 1) (ekey e) b) /\
  (forall s e, bget o i s = Some e -> exists b' s', (b' = i \/ b' = nb) /\ bget n' b' s' = Some (live e)) /\
  (forall b1 s1 e1 b2 s2 e2, (b1 = i \/ b1 = nb) -> (b2 = i \/ b2 = nb) ->
     bget n' b1 s1 = Some e1 -> bget n' b2 s2 = Some e2 -> ekey e1 = ekey e2 -> b1 = b2 /\ s1 = s2) /\
  exists g', bhp g' = ohp /\ (forall s, bget g' i s = None) /\
             (forall b s, b <> i -> bget g' b s = bget g b s) /\
             (count_arr c n' + count_arr c g' = count_arr c n + count_arr c g)%nat.
Proof.
  intros Hhp Hi Ho Hn Hg HBr HBc HBu He1 He2 Hgi. cbv zeta.
  assert (I0 : sinv c hash ohp o n g i (count_arr c n + count_arr c g)%nat o n g 0 0).
  { apply sinv_init; try assumption; reflexivity. }
  destruct (mbs_sinv c hash ohp o n g i _ Hhp Hi HBr HBc HBu (N.to_nat (spb c)) o n g 0 0 I0)
    as [g' [ns' I]].
  rewrite N2Nat.id, N.add_0_l in I.
  destruct (move_bucket_slots c hash o n i 0 0 (N.to_nat (spb c))) as [o' n'].
  cbn [fst snd] in *.
  destruct I as [I1 I2 I3 I4 I5 I6 I7 I8 I9 I10 I11 I12 I13 I14 I15 I16 I17 I18].
  split; [exact I2|]. split; [exact I4|]. split; [exact I1|]. split; [exact I9|]. split; [exact I8|].
  split.
  { intros b s' e' Hb E. destruct (I10 b s' e' Hb E) as [s0 [e0 [F1 [F2 [F3 [F4 [F5 F6]]]]]]].
    split.
    - destruct Hb as [Hb|Hb]; [rewrite (F5 Hb); exact F1|]. specialize (F6 Hb). lia.
    - exists s0, e0. split; [exact F2|]. split; [exact F3|exact F4]. }
  split.
  { intros s e E. destruct (I11 s e (HBr s e E) E) as [H|[s' [_ H]]].
    - exists i, s. split; [left; reflexivity|exact H].
    - exists (i + 2 ^ ohp), s'. split; [right; reflexivity|exact H]. }
  split; [exact I12|].
  exists g'. split; [exact I3|]. split; [|split; [exact I17|exact I18]].
  intro s. destruct (N.lt_ge_cases s (spb c)) as [L|G].
  - apply I16. exact L.
  - rewrite I15 by exact G. destruct (bget o i s) as [e|] eqn:E; [|reflexivity].
    specialize (HBr s e E). lia.
Qed.

Lemma mod_pow2_self i hp : i < 2 ^ hp -> i mod 2 ^ hp = i.
Proof. intro H. apply N.mod_small. exact H. Qed.

Lemma mod_pow2_up i hp : i < 2 ^ hp -> (i + 2 ^ hp) mod 2 ^ hp = i.
Proof. intro H. rewrite add_pow2_mod by lia. apply N.mod_small. exact H. Qed.

Lemma linv_step P o n g i :
  linv P o n -> bhp n = bhp o + 1 -> ghost P o g -> P i ->
  let r := move_bucket_slots c hash o n i 0 0 (N.to_nat (spb c)) in
  let P' := fun b => P b /\ b <> i in
  linv P' (fst r) (snd r) /\ bhp (snd r) = bhp n /\ bhp (fst r) = bhp o /\
  bdead (fst r) = bdead o /\
  (forall k v, lh P' (fst r) (snd r) k v <-> lh P o n k v) /\
  (exists g', ghost P' (fst r) g' /\
     (count_arr c (snd r) + count_arr c g' = count_arr c n + count_arr c g)%nat) /\
  (forall b s, b <> i -> b <> i + 2 ^ bhp o -> bget (snd r) b s = bget n b s).
Proof.
  intros [L1 L2 L3 L4 L5 L6 L7 L8 L9] Hhpn [G1 [G2 G3]] HPi r P'.
  set (ohp := bhp o) in *.
  assert (Hi : i < 2 ^ ohp) by (apply L3; exact HPi).
  assert (Hhp : ohp + 1 < 62) by (rewrite <- Hhpn; apply (ao_hp _ _ _ L1)).
  assert (Hmi : i mod 2 ^ ohp = i) by (apply mod_pow2_self; exact Hi).
  assert (Hmn : (i + 2 ^ ohp) mod 2 ^ ohp = i) by (apply mod_pow2_up; exact Hi).
  assert (He1 : forall s, bget n i s = None).
  { intro s. destruct (bget n i s) as [e|] eqn:E; [|reflexivity].
    exfalso. apply (L4 i s e E). rewrite Hmi. exact HPi. }
  assert (He2 : forall s, bget n (i + 2 ^ ohp) s = None).
  { intro s. destruct (bget n (i + 2 ^ ohp) s) as [e|] eqn:E; [|reflexivity].
    exfalso. apply (L4 _ s e E). rewrite Hmn. exact HPi. }
  assert (HBu : forall s e s' e', bget o i s = Some e -> bget o i s' = Some e' -> ekey e = ekey e' -> s = s').
  { intros s e s' e' E E' Hk. apply (L8 i s e i s' e' HPi HPi E E' Hk). }
  destruct (bucket_move ohp o n g i Hhp Hi eq_refl Hhpn G1 (fun s e => L5 i s e HPi) (fun s e => L6 i s e HPi)
              HBu He1 He2 (fun s => G2 i s HPi))
    as [B1 [B2 [B3 [B4 [B5 [B6 [B7 [B8 [g' [B9 [B10 [B11 B12]]]]]]]]]]]].
  cbv zeta in B1, B2, B3, B4, B5, B6, B7, B8, B9, B10, B11, B12.
  assert (Hbd := mbs_bdead_old (N.to_nat (spb c)) o n i 0 0).
  fold r in B1, B2, B3, B4, B5, B6, B7, B8, B10, B12, Hbd.
  destruct r as [o' n']. cbn [fst snd] in *.
  set (nb := i + 2 ^ ohp) in *.
  assert (Hdec : forall b, (b = i \/ b = nb) \/ (b <> i /\ b <> nb)).
  { intro b. destruct (N.eq_dec b i) as [E|N1]; [left; left; exact E|].
    destruct (N.eq_dec b nb) as [E|N2]; [left; right; exact E|]. right. split; assumption. }
  assert (Hmod : forall b, (b = i \/ b = nb) -> b mod 2 ^ ohp = i).
  { intros b [->| ->]; assumption. }
  (* sources of the elements of the two new buckets *)
  assert (Hsrc : forall b s e', (b = i \/ b = nb) -> bget n' b s = Some e' ->
            exists s0 e0, bget o i s0 = Some e0 /\ e' = live e0).
  { intros b s e' Hb E. destruct (B6 b s e' Hb E) as [_ [s0 [e0 [F1 [F2 _]]]]]. exists s0, e0. split; assumption. }
  split; [|split; [congruence|split; [exact B3|split; [exact Hbd|split; [|split; [|exact B4]]]]]].
  - (* the invariant *)
    constructor.
    + constructor.
      * rewrite B1, <- Hhpn. apply (ao_hp _ _ _ L1).
      * intros b s e E. rewrite B1. destruct (Hdec b) as [Hb|[N1 N2]].
        { destruct (B6 b s e Hb E) as [F1 _]. split; [|exact F1].
          rewrite pow2_succ_double. destruct Hb as [->| ->]; subst nb;
            set (p := 2 ^ ohp) in *; clearbody p; lia. }
        { rewrite B4 in E by assumption. rewrite <- Hhpn. apply (ao_range _ _ _ L1 _ _ _ E). }
      * intros b s e E. destruct (Hdec b) as [Hb|[N1 N2]].
        { destruct (Hsrc b s e Hb E) as [s0 [e0 [_ ->]]]. reflexivity. }
        { rewrite B4 in E by assumption. apply (ao_live _ _ _ L1 _ _ _ E). }
      * intros b s e E. rewrite B1. destruct (Hdec b) as [Hb|[N1 N2]].
        { destruct (B6 b s e Hb E) as [_ [s0 [e0 [_ [-> F3]]]]]. exact F3. }
        { rewrite B4 in E by assumption. rewrite <- Hhpn. apply (ao_place _ _ _ L1 _ _ _ E). }
      * intros b s e E. destruct (Hdec b) as [Hb|[N1 N2]].
        { destruct (Hsrc b s e Hb E) as [s0 [e0 [F1 ->]]]. cbn [live epart ekey].
          apply (L7 i s0 e0 HPi F1). }
        { rewrite B4 in E by assumption. apply (ao_tag _ _ _ L1 _ _ _ E). }
      * intros b1 s1 e1 b2 s2 e2 E1 E2 Hk.
        assert (Hx : forall b s e b' s' e', (b = i \/ b = nb) -> (b' <> i /\ b' <> nb) ->
                   bget n' b s = Some e -> bget n' b' s' = Some e' -> ekey e = ekey e' -> False).
        { intros b s e b' s' e' Hb [N1 N2] E E' Hke.
          destruct (Hsrc b s e Hb E) as [s0 [e0 [F1 ->]]].
          rewrite B4 in E' by assumption. apply (L9 i s0 e0 b' s' e' HPi F1 E'). exact Hke. }
        destruct (Hdec b1) as [Hb1|[N1 N2]]; destruct (Hdec b2) as [Hb2|[M1 M2]].
        { apply (B8 b1 s1 e1 b2 s2 e2); assumption. }
        { exfalso. apply (Hx b1 s1 e1 b2 s2 e2); try assumption. split; assumption. }
        { exfalso. apply (Hx b2 s2 e2 b1 s1 e1); try assumption; [split; assumption|symmetry; exact Hk]. }
        { rewrite B4 in E1, E2 by assumption. apply (ao_uniq _ _ _ L1 _ _ _ _ _ _ E1 E2 Hk). }
    + rewrite B2. exact L2.
    + intros b [Hb _]. rewrite B3. apply L3. exact Hb.
    + intros b s e E [F1 F2]. rewrite B3 in F1, F2. destruct (Hdec b) as [Hb|[N1 N2]].
      * apply F2. apply Hmod. exact Hb.
      * rewrite B4 in E by assumption. apply (L4 b s e E). exact F1.
    + intros b s e [Hb Nb] E. rewrite B5 in E by exact Nb. apply (L5 b s e Hb E).
    + intros b s e [Hb Nb] E. rewrite B5 in E by exact Nb. rewrite B3. apply (L6 b s e Hb E).
    + intros b s e [Hb Nb] E. rewrite B5 in E by exact Nb. apply (L7 b s e Hb E).
    + intros b s e b' s' e' [Hb Nb] [Hb' Nb'] E E' Hk.
      rewrite B5 in E by exact Nb. rewrite B5 in E' by exact Nb'.
      apply (L8 b s e b' s' e' Hb Hb' E E' Hk).
    + intros b s e b' s' e' [Hb Nb] E E' Hk. rewrite B5 in E by exact Nb.
      destruct (Hdec b') as [Hb'|[N1 N2]].
      * destruct (Hsrc b' s' e' Hb' E') as [s0 [e0 [F1 ->]]]. cbn [live ekey] in Hk.
        destruct (L8 b s e i s0 e0 Hb HPi E F1 Hk) as [Eb _]. contradiction.
      * rewrite B4 in E' by assumption. apply (L9 b s e b' s' e' Hb E E' Hk).
  - (* the abstraction *)
    intros k v. unfold lh. split.
    + intros [[b [s [e [E [Hk Hv]]]]]|[b [s [e [[Hb Nb] [E R]]]]]].
      * destruct (Hdec b) as [Hb|[N1 N2]].
        { destruct (Hsrc b s e Hb E) as [s0 [e0 [F1 ->]]]. right. exists i, s0, e0.
          split; [exact HPi|]. split; [exact F1|]. split; [exact Hk|exact Hv]. }
        { rewrite B4 in E by assumption. left. exists b, s, e. repeat split; assumption. }
      * right. rewrite B5 in E by exact Nb. exists b, s, e. split; [exact Hb|]. split; [exact E|exact R].
    + intros [[b [s [e [E [Hk Hv]]]]]|[b [s [e [Hb [E [Hk Hv]]]]]]].
      * left. exists b, s, e. split; [|split; assumption].
        rewrite B4; [exact E| |].
        { intro F. subst b. rewrite He1 in E. discriminate. }
        { intro F. subst b. fold nb in He2. rewrite He2 in E. discriminate. }
      * destruct (N.eq_dec b i) as [Eb|Nb].
        { subst b. destruct (B7 s e E) as [b' [s' [Hb' E']]]. left. exists b', s', (live e).
          split; [exact E'|]. split; [exact Hk|exact Hv]. }
        { right. exists b, s, e. split; [split; assumption|]. rewrite B5 by exact Nb.
          split; [exact E|]. split; [exact Hk|exact Hv]. }
  - (* the ghost *)
    exists g'. split; [|exact B12]. split; [congruence|]. split.
    + intros b s [Hb Nb]. rewrite B11 by exact Nb. rewrite B5 by exact Nb. apply G2. exact Hb.
    + intros b s Hn. destruct (N.eq_dec b i) as [Eb|Nb].
      * subst b. apply B10.
      * rewrite B11 by exact Nb. apply G3. intro F. apply Hn. split; assumption.
Qed.

(* ================================================================== C. migrating one stripe *)

(* ---- C1 stripe arithmetic ---- *)
Lemma sb_mod l j : l < kmax c -> (l + j * kmax c) mod kmax c = l.
Proof. intro Hl. rewrite N.mod_add by lia. apply N.mod_small. exact Hl. Qed.

Lemma sb_div l j : l < kmax c -> (l + j * kmax c) / kmax c = j.
Proof. intro Hl. rewrite N.div_add by lia. rewrite N.div_small by exact Hl. lia. Qed.

Lemma sb_eq l j b : l < kmax c -> (b = l + j * kmax c <-> b mod kmax c = l /\ b / kmax c = j).
Proof.
  intro Hl. split.
  - intros ->. split; [apply sb_mod|apply sb_div]; exact Hl.
  - intros [H1 H2]. assert (H := N.div_mod b (kmax c) ltac:(lia)).
    rewrite H1, H2 in H. rewrite H. lia.
Qed.

(* a bucket of stripe l below the loop's end has already been visited *)
Lemma sb_done l j b ohp :
  l < kmax c -> 2 ^ ohp <= l + j * kmax c -> b < 2 ^ ohp -> b mod kmax c = l -> b / kmax c < j.
Proof.
  intros Hl Hend Hb E.
  assert (H := N.div_mod b (kmax c) ltac:(lia)).
  destruct (N.lt_ge_cases (b / kmax c) j) as [L|G]; [exact L|exfalso].
  assert (G' : kmax c * j <= kmax c * (b / kmax c)) by (apply N.mul_le_mono_l; exact G).
  rewrite E in H.
  replace (j * kmax c) with (kmax c * j) in Hend by apply N.mul_comm.
  set (p := 2 ^ ohp) in *. set (x := kmax c * (b / kmax c)) in *.
  set (y := kmax c * j) in *. clearbody p x y. lia.
Qed.

(* kmax = 2^lbits divides 2^ohp: the stripe of a bucket is the stripe of its old bucket *)
Lemma lbits_le ohp : kmax c <= 2 ^ ohp -> lbits c <= ohp.
Proof. unfold kmax. intro H. apply N.pow_le_mono_r_iff with (a := 2); [lia|exact H]. Qed.

Lemma stripe_mod_old ohp b : kmax c <= 2 ^ ohp -> (b mod 2 ^ ohp) mod kmax c = b mod kmax c.
Proof. intro H. unfold kmax. apply mod_pow2_le. apply lbits_le. exact H. Qed.

(* ---- C2 ghosts exist and all have the same count ---- *)
Definition gfilter (f : N -> bool) (o : barray) : barray :=
  {| bhp := bhp o;
     bsl := PositiveMap.mapi (fun p row => if f (Pos.pred_N p) then row else PositiveMap.empty entry) (bsl o);
     bdead := bdead o |}.

Lemma bget_gfilter f o b s : bget (gfilter f o) b s = if f b then bget o b s else None.
Proof.
  unfold bget, gfilter. cbn [bsl]. rewrite PositiveMap.gmapi. unfold pidx.
  destruct (PositiveMap.find (N.succ_pos b) (bsl o)) as [row|]; cbn [option_map].
  - rewrite N.pos_pred_succ. destruct (f b); [reflexivity|apply PositiveMap.gempty].
  - destruct (f b); reflexivity.
Qed.

Lemma ghost_exists (f : N -> bool) o : ghost (fun b => f b = true) o (gfilter f o).
Proof.
  split; [reflexivity|]. split; intros b s H; rewrite bget_gfilter.
  - rewrite H. reflexivity.
  - destruct (f b); [exfalso; apply H; reflexivity|reflexivity].
Qed.

Lemma ghost_count_unique (P : N -> Prop) o g g' :
  (forall b, P b \/ ~ P b) -> ghost P o g -> ghost P o g' -> count_arr c g' = count_arr c g.
Proof.
  intros Hdec [G1 [G2 G3]] [H1 [H2 H3]]. apply count_arr_ext; [congruence|].
  intros b s _ _. unfold occupied. destruct (Hdec b) as [Hb|Hb].
  - rewrite G2, H2 by exact Hb. reflexivity.
  - rewrite G3, H3 by exact Hb. reflexivity.
Qed.

Lemma linv_old_ext (P : N -> Prop) o o' n :
  bhp o' = bhp o -> (forall b s, P b -> bget o' b s = bget o b s) -> linv P o n -> linv P o' n.
Proof.
  intros Hh Ho [I1 I2 I3 I4 I5 I6 I7 I8 I9]. constructor; try assumption.
  - rewrite Hh. exact I3.
  - rewrite Hh. exact I4.
  - intros b s e Hb E. rewrite Ho in E by exact Hb. apply (I5 b s e Hb E).
  - intros b s e Hb E. rewrite Ho in E by exact Hb. rewrite Hh. apply (I6 b s e Hb E).
  - intros b s e Hb E. rewrite Ho in E by exact Hb. apply (I7 b s e Hb E).
  - intros b s e b' s' e' Hb Hb' E E'. rewrite Ho in E by exact Hb. rewrite Ho in E' by exact Hb'.
    apply (I8 b s e b' s' e' Hb Hb' E E').
  - intros b s e b' s' e' Hb E. rewrite Ho in E by exact Hb. apply (I9 b s e b' s' e' Hb E).
Qed.

Lemma lh_old_ext (P : N -> Prop) o o' n k v :
  (forall b s, P b -> bget o' b s = bget o b s) -> (lh P o' n k v <-> lh P o n k v).
Proof.
  intro Ho. unfold lh. split; (intros [H|[b [s [e [Hb [E R]]]]]]; [left; exact H|right]);
    exists b, s, e; (split; [exact Hb|split; [|exact R]]).
  - rewrite <- Ho by exact Hb. exact E.
  - rewrite Ho by exact Hb. exact E.
Qed.

Lemma ghost_old_ext (P : N -> Prop) o o' g :
  bhp o' = bhp o -> (forall b s, P b -> bget o' b s = bget o b s) -> ghost P o g -> ghost P o' g.
Proof.
  intros Hh Ho [G1 [G2 G3]]. split; [congruence|]. split; [|exact G3].
  intros b s Hb. rewrite Ho by exact Hb. apply G2. exact Hb.
Qed.

(* ---- C3 the lock array after one flag update ---- *)
Lemma lock_at_upd_same t l f :
  locks t <> [] -> (N.to_nat l < length (cur_locks t))%nat ->
  lock_at (upd_cur_lock t l f) l = f (lock_at t l).
Proof.
  intros Hne Hl. unfold lock_at. rewrite st_cur_locks_upd_cur_lock by exact Hne.
  apply nth_upd_same. exact Hl.
Qed.

Lemma lock_at_upd_other t l f l' :
  locks t <> [] -> l' <> l -> lock_at (upd_cur_lock t l f) l' = lock_at t l'.
Proof.
  intros Hne Hl. unfold lock_at. rewrite st_cur_locks_upd_cur_lock by exact Hne.
  apply nth_upd_other. intro E. apply Hl. apply N2Nat.inj. symmetry. exact E.
Qed.

Lemma lock_at_out t l : (length (cur_locks t) <= N.to_nat l)%nat -> lock_at t l = dflt_lock.
Proof. intro H. unfold lock_at. apply nth_overflow. exact H. Qed.

(* ---- C4 counting un-migrated stripes ---- *)
Definition set_mig (lk : lockm) : lockm := {| cnt := cnt lk; mig := true |}.

Lemma unmig_count_upd la : forall i,
  (i < length la)%nat -> mig (nth i la dflt_lock) = false ->
  S (unmig_count (upd i set_mig la)) = unmig_count la.
Proof.
  unfold unmig_count. induction la as [|x r IH]; intros i Hi Hm; cbn [length] in Hi; [lia|].
  destruct i as [|i]; cbn [upd nth filter] in *.
  - rewrite Hm. cbn [negb mig set_mig length]. reflexivity.
  - destruct (negb (mig x)); cbn [length]; rewrite <- (IH i) by (lia || exact Hm); reflexivity.
Qed.

Lemma unmig_count_zero la : unmig_count la = O -> forall x, In x la -> mig x = true.
Proof.
  unfold unmig_count. intros H x Hin. destruct (mig x) eqn:E; [reflexivity|exfalso].
  assert (Hf : In x (filter (fun lk => negb (mig lk)) la)).
  { apply filter_In. split; [exact Hin|]. rewrite E. reflexivity. }
  destruct (filter (fun lk => negb (mig lk)) la); [contradiction|discriminate].
Qed.

Lemma unmig_count_le la : (unmig_count la <= length la)%nat.
Proof. unfold unmig_count. apply filter_length_bound. Qed.

Lemma unmig_count_all (f : lockm -> lockm) (la : lockarr) :
  (forall lk, mig (f lk) = false) -> unmig_count (map f la) = length la.
Proof.
  intro Hf. unfold unmig_count. induction la as [|x r IH]; [reflexivity|].
  cbn [map filter]. rewrite Hf. cbn [negb length]. rewrite IH. reflexivity.
Qed.

(* ---- C5 the bucket loop of one stripe ---- *)

(* pending buckets while stripe l (un-migrated in t0) has done j iterations of its loop *)
Definition Pj (t0 : table) (l j : N) : N -> Prop :=
  fun b => pendb t0 b = true /\ ~ (b mod kmax c = l /\ b / kmax c < j).

Lemma Pj_step t0 l j b :
  l < kmax c -> ((Pj t0 l j b /\ b <> l + j * kmax c) <-> Pj t0 l (j + 1) b).
Proof.
  intro Hl. unfold Pj. rewrite (sb_eq l j b Hl).
  set (m := b mod kmax c). set (d := b / kmax c). clearbody m d.
  split.
  - intros [[H1 H2] H3]. split; [exact H1|lia].
  - intros [H1 H2]. split; [split; [exact H1|lia]|lia].
Qed.

Lemma rll_linv t0 l : l < kmax c -> mig (lock_at t0 l) = false -> kmax c <= 2 ^ bhp (old t0) ->
  forall n t j g bi,
  bi = l + j * kmax c ->
  bhp (old t) = bhp (old t0) -> bhp (cur t) = bhp (old t0) + 1 ->
  linv (Pj t0 l j) (old t) (cur t) -> ghost (Pj t0 l j) (old t) g ->
  exists j' g',
    linv (Pj t0 l j') (old (rehash_lock_loop c hash t bi n)) (cur (rehash_lock_loop c hash t bi n)) /\
    ghost (Pj t0 l j') (old (rehash_lock_loop c hash t bi n)) g' /\
    bhp (old (rehash_lock_loop c hash t bi n)) = bhp (old t0) /\
    bhp (cur (rehash_lock_loop c hash t bi n)) = bhp (old t0) + 1 /\
    bdead (old (rehash_lock_loop c hash t bi n)) = bdead (old t) /\
    same_meta t (rehash_lock_loop c hash t bi n) /\
    (forall k v, lh (Pj t0 l j') (old (rehash_lock_loop c hash t bi n)) (cur (rehash_lock_loop c hash t bi n)) k v
                 <-> lh (Pj t0 l j) (old t) (cur t) k v) /\
    (count_arr c (cur (rehash_lock_loop c hash t bi n)) + count_arr c g'
       = count_arr c (cur t) + count_arr c g)%nat /\
    (2 ^ bhp (old t0) <= l + j' * kmax c \/ j' = j + N.of_nat n) /\
    (forall b s, b mod kmax c <> l ->
       bget (cur (rehash_lock_loop c hash t bi n)) b s = bget (cur t) b s).
Proof.
  intros Hl Hun HK. induction n as [|n IH]; intros t j g bi Hbi Ho Hn I G.
  - exists j, g. cbn [rehash_lock_loop]. split; [exact I|]. split; [exact G|]. split; [exact Ho|].
    split; [exact Hn|]. split; [reflexivity|]. split; [apply same_meta_refl|].
    split; [intros; reflexivity|]. split; [reflexivity|]. split; [right; lia|reflexivity].
  - cbn [rehash_lock_loop]. rewrite Ho.
    assert (Hhp : bhp (old t0) + 1 < 62).
    { rewrite <- Hn. apply (ao_hp _ _ _ (li_arr _ _ _ I)). }
    rewrite hashsize_spec by lia.
    destruct (bi <? 2 ^ bhp (old t0)) eqn:E.
    + apply N.ltb_lt in E.
      assert (HP : Pj t0 l j bi).
      { unfold Pj. rewrite Hbi, sb_mod, sb_div by exact Hl. split; [|lia].
        apply pendb_true. rewrite sb_mod by exact Hl. rewrite <- Hbi. split; [exact E|exact Hun]. }
      assert (Hhpn : bhp (cur t) = bhp (old t) + 1) by congruence.
      assert (X := linv_step (Pj t0 l j) (old t) (cur t) g bi I Hhpn G HP). cbv zeta in X.
      destruct (move_bucket_proj c hash t bi) as [E1 [E2 S1]].
      rewrite <- E1, <- E2 in X.
      destruct X as [I1 [Hn1 [Ho1 [Bd1 [Lh1 [[g1 [G1 C1]] Fr1]]]]]].
      set (tm := move_bucket c hash t bi) in *.
      assert (Hext : forall b, (Pj t0 l j b /\ b <> bi) <-> Pj t0 l (j + 1) b).
      { intro b. rewrite Hbi. apply Pj_step. exact Hl. }
      assert (Hbi' : bi + kmax c = l + (j + 1) * kmax c).
      { rewrite Hbi, N.mul_add_distr_r. lia. }
      destruct (IH tm (j + 1) g1 (bi + kmax c) Hbi' ltac:(congruence) ltac:(congruence)
                   (linv_ext _ _ _ _ Hext I1) (ghost_ext _ _ _ _ Hext G1))
        as [j' [g' [I2 [G2 [Ho2 [Hn2 [Bd2 [S2 [Lh2 [C2 [Hj Fr2]]]]]]]]]]].
      exists j', g'. split; [exact I2|]. split; [exact G2|]. split; [exact Ho2|]. split; [exact Hn2|].
      split; [congruence|]. split; [apply (same_meta_trans _ tm); assumption|].
      split; [|split; [|split]].
      * intros k v. rewrite Lh2. rewrite <- (lh_ext _ _ _ _ k v Hext). apply Lh1.
      * lia.
      * destruct Hj as [Hj|Hj]; [left; exact Hj|right; lia].
      * intros b s Hb. rewrite Fr2 by exact Hb. apply Fr1.
        { intro F. apply Hb. rewrite F, Hbi. apply sb_mod. exact Hl. }
        { intro F. apply Hb. rewrite F, Ho. unfold kmax. rewrite add_pow2_mod by (apply lbits_le; exact HK).
          fold (kmax c). rewrite Hbi. apply sb_mod. exact Hl. }
    + apply N.ltb_ge in E. exists j, g. split; [exact I|]. split; [exact G|]. split; [exact Ho|].
      split; [exact Hn|]. split; [reflexivity|]. split; [apply same_meta_refl|].
      split; [intros; reflexivity|]. split; [reflexivity|]. split; [|reflexivity]. left. rewrite <- Hbi. exact E.
Qed.

(* ---- C7 rehash_lock on the lazy state.  The boolean [s] is both the [lazy] argument of
        rehash_lock and the strictness of the invariant: with lazy = true the counter of
        remaining stripes is maintained exactly (and old_buckets_ is freed by the last stripe);
        with lazy = false (rehash_with_workers) the counter is not touched. ---- *)

Lemma kmax_lt64 : kmax c < 2 ^ 64.
Proof. unfold kmax. apply pow2_lt_mono. apply (co_lbits _ Hc). Qed.

Theorem rehash_lock_wf s t l :
  wfg s t ->
  let t' := rehash_lock c hash s t l in
  wfg s t' /\ (forall k v, lholds t' k v <-> lholds t k v) /\ (lcounted t -> lcounted t') /\
  mig (lock_at t' l) = true /\
  (forall l', l' <> l -> lock_at t' l' = lock_at t l') /\
  (forall l', mig (lock_at t l') = true -> mig (lock_at t' l') = true) /\
  bhp (cur t') = bhp (cur t) /\ bhp (old t') = bhp (old t) /\
  length (cur_locks t') = length (cur_locks t) /\
  rc t' = rc t /\ mlfn t' = mlfn t /\ mlfd t' = mlfd t /\ mhp t' = mhp t /\ workers t' = workers t /\
  (forall b s, mig (lock_at t (b mod kmax c)) = true -> bget (cur t') b s = bget (cur t) b s).
Proof.
  intros W t'. subst t'. unfold rehash_lock.
  destruct (mig (lock_at t l)) eqn:Em.
  { split; [exact W|]. split; [intros; reflexivity|]. split; [auto|]. split; [exact Em|].
    split; [intros; reflexivity|]. split; [auto|]. repeat split; reflexivity. }
  destruct W as [W1 W2 W3 W4].
  destruct W4 as [Hall|[X1 X2 X3 X4 X5]]; [rewrite (lock_at_mig t l Hall) in Em; discriminate|].
  assert (Hll : (N.to_nat l < length (cur_locks t))%nat).
  { destruct (Nat.lt_ge_cases (N.to_nat l) (length (cur_locks t))) as [L|G]; [exact L|].
    rewrite (lock_at_out t l G) in Em. discriminate. }
  assert (Hl : l < kmax c) by lia.
  assert (Hhp : bhp (old t) + 1 < 62) by (rewrite <- X1; apply (ao_hp _ _ _ (li_arr _ _ _ W3))).
  set (iters := N.to_nat (hashsize (bhp (old t)) / kmax c + 1)).
  assert (Hext0 : forall b, pendP t b <-> Pj t l 0 b).
  { intro b. unfold Pj, pendP. split; [intro H; split; [exact H|]|intros [H _]; exact H].
    intros [_ F]. exact (N.nlt_0_r _ F). }
  assert (G0 := ghost_exists (pendb t) (old t)).
  set (g0 := gfilter (pendb t) (old t)) in *.
  assert (Hbi : l = l + 0 * kmax c) by lia.
  destruct (rll_linv t l Hl Em X3 iters t 0 g0 l Hbi eq_refl X1
              (linv_ext _ _ _ _ Hext0 W3) (ghost_ext _ _ _ _ Hext0 G0))
    as [j' [g' [I1 [G1 [Ho1 [Hn1 [Bd1 [[S1 S2] [Lh1 [C1 [Hj Fr1]]]]]]]]]]].
  set (t1 := rehash_lock_loop c hash t l iters) in *.
  assert (Hend : 2 ^ bhp (old t) <= l + j' * kmax c).
  { destruct Hj as [Hj|Hj]; [exact Hj|].
    subst iters. rewrite hashsize_spec in Hj by lia.
    rewrite N2Nat.id in Hj. rewrite Hj.
    assert (Hk := kmax_pos c).
    assert (H := N.mul_succ_div_gt (2 ^ bhp (old t)) (kmax c) ltac:(lia)).
    rewrite <- N.add_1_r in H. rewrite N.add_0_l.
    replace ((2 ^ bhp (old t) / kmax c + 1) * kmax c) with (kmax c * (2 ^ bhp (old t) / kmax c + 1))
      by apply N.mul_comm.
    set (p := 2 ^ bhp (old t)) in *. set (x := kmax c * (p / kmax c + 1)) in *. clearbody p x. lia. }
  set (t2 := upd_cur_lock t1 l (fun lk => {| cnt := cnt lk; mig := true |})).
  assert (Hcl1 : cur_locks t1 = cur_locks t) by (apply cur_locks_locks; exact S1).
  assert (Hne1 : locks t1 <> []) by (rewrite S1; exact W1).
  assert (Hcl2 : cur_locks t2 = upd (N.to_nat l) set_mig (cur_locks t)).
  { unfold t2. rewrite st_cur_locks_upd_cur_lock by exact Hne1. rewrite Hcl1. reflexivity. }
  assert (Hne2 : locks t2 <> []) by (apply st_locks_upd_cur_lock_nonnil; exact Hne1).
  set (P2 := fun b => pendb t b = true /\ b mod kmax c <> l).
  assert (Hext2 : forall b, Pj t l j' b <-> P2 b).
  { intro b. unfold Pj, P2. split.
    - intros [H1 H2]. split; [exact H1|]. intro E. apply H2. split; [exact E|].
      apply pendb_true in H1. apply (sb_done l j' b (bhp (old t))); [exact Hl|exact Hend|apply H1|exact E].
    - intros [H1 H2]. split; [exact H1|]. intros [E _]. contradiction. }
  assert (Hla2 : forall x, lock_at t2 x = if x =? l then set_mig (lock_at t l) else lock_at t x).
  { intro x. destruct (N.eqb_spec x l) as [->|Ne].
    - unfold t2. rewrite lock_at_upd_same; [|exact Hne1|rewrite Hcl1; exact Hll].
      unfold lock_at. rewrite Hcl1. reflexivity.
    - unfold t2. rewrite lock_at_upd_other by assumption. unfold lock_at. rewrite Hcl1. reflexivity. }
  assert (Hsum2 : sum_cnt (cur_locks t2) = sum_cnt (cur_locks t)).
  { rewrite Hcl2. rewrite sum_cnt_upd by exact Hll. cbn [set_mig cnt]. lia. }
  assert (Hcnt2 : S (unmig_count (cur_locks t2)) = unmig_count (cur_locks t)).
  { rewrite Hcl2. apply unmig_count_upd; [exact Hll|exact Em]. }
  (* everything except the lazy clause, for any final table built on t2 *)
  assert (Hfin : forall tf,
     cur tf = cur t1 -> cur_locks tf = cur_locks t2 -> bhp (old tf) = bhp (old t) -> locks tf <> [] ->
     (forall b s, P2 b -> bget (old tf) b s = bget (old t1) b s) ->
     (forall b, b < 2 ^ bhp (cur tf) -> (N.to_nat (lock_ind_gen (kmax c) b) < length (cur_locks tf))%nat) /\
     linv (pendP tf) (old tf) (cur tf) /\
     (forall k v, lholds tf k v <-> lholds t k v) /\ (lcounted t -> lcounted tf) /\
     mig (lock_at tf l) = true /\
     (forall l', l' <> l -> lock_at tf l' = lock_at t l') /\
     (forall l', mig (lock_at t l') = true -> mig (lock_at tf l') = true) /\
     bhp (cur tf) = bhp (cur t) /\ length (cur_locks tf) = length (cur_locks t)).
  { intros tf Hcur Hcl Hbo Hne Hold.
    assert (Hla : forall x, lock_at tf x = lock_at t2 x).
    { intro x. unfold lock_at. rewrite Hcl. reflexivity. }
    assert (Hpf : forall b, P2 b <-> pendP tf b).
    { intro b. unfold pendP, pendb. rewrite Hla, Hla2, Hbo. unfold P2, pendb.
      destruct (N.eqb_spec (b mod kmax c) l) as [E|Ne].
      - cbn [set_mig mig negb]. rewrite andb_false_r.
        split; [intros [_ H]; contradiction|discriminate].
      - split; [intros [H _]; exact H|intro H; split; [exact H|exact Ne]]. }
    assert (Hlen : length (cur_locks tf) = length (cur_locks t)).
    { rewrite Hcl, Hcl2. apply st_upd_length. }
    assert (Hbc : bhp (cur tf) = bhp (cur t)) by congruence.
    split; [|split; [|split; [|split; [|split; [|split; [|split; [|split]]]]]]].
    - intros b Hb. rewrite Hlen. apply W2. rewrite <- Hbc. exact Hb.
    - apply (linv_ext P2 _ _ _ Hpf). rewrite Hcur.
      apply (linv_old_ext P2 (old t1)); [congruence|exact Hold|].
      apply (linv_ext _ _ _ _ Hext2 I1).
    - intros k v. unfold lholds. rewrite <- (lh_ext _ _ _ _ k v Hpf). rewrite Hcur.
      rewrite (lh_old_ext P2 (old t1) (old tf) (cur t1) k v Hold).
      rewrite <- (lh_ext _ _ _ _ k v Hext2). rewrite Lh1. symmetry. apply lh_ext. exact Hext0.
    - intros [g2 [G2 E2]]. exists g'. split.
      + apply (ghost_ext P2 _ _ _ Hpf). apply (ghost_old_ext P2 (old t1)); [congruence|exact Hold|].
        apply (ghost_ext _ _ _ _ Hext2 G1).
      + rewrite Hcl, Hsum2, E2, Hcur. f_equal.
        assert (Hu : count_arr c g2 = count_arr c g0).
        { apply (ghost_count_unique (pendP t) (old t)); [|exact G0|exact G2].
          intro b. unfold pendP. destruct (pendb t b); [left; reflexivity|right; discriminate]. }
        lia.
    - rewrite Hla, Hla2, N.eqb_refl. reflexivity.
    - intros l' Hne'. rewrite Hla, Hla2. apply N.eqb_neq in Hne'. rewrite Hne'. reflexivity.
    - intros l' Hm. rewrite Hla, Hla2. destruct (l' =? l); [reflexivity|exact Hm].
    - exact Hbc.
    - exact Hlen. }
  destruct S2 as [R1 [R2 [R3 [R4 [R5 R6]]]]].
  assert (Hfr : forall b s0, mig (lock_at t (b mod kmax c)) = true -> bget (cur t1) b s0 = bget (cur t) b s0).
  { intros b s0 Hm. apply Fr1. intro F. rewrite F in Hm. congruence. }
  fold t2. destruct s.
  - (* lazy = true: the counter is decremented; the last stripe frees the old array *)
    unfold decrement_nrem.
    assert (Hnr : nrem t2 = N.of_nat (unmig_count (cur_locks t))).
    { change (nrem t2) with (nrem t1). rewrite R1. apply X5. reflexivity. }
    set (t3 := set_nrem_raw t2 (wrap64 (nrem t2 + 18446744073709551616 - 1))).
    destruct (nrem t2 =? 1) eqn:Eo.
    + apply N.eqb_eq in Eo.
      assert (Hz : unmig_count (cur_locks t2) = O) by lia.
      assert (Hall2 : forall x, In x (cur_locks t2) -> mig x = true) by (apply unmig_count_zero; exact Hz).
      assert (Hno : forall b, ~ P2 b).
      { intros b [H1 H2]. apply pendb_true in H1. destruct H1 as [_ H1].
        assert (Hm : mig (lock_at t2 (b mod kmax c)) = true).
        { unfold lock_at. destruct (nth_in_or_default (N.to_nat (b mod kmax c)) (cur_locks t2) dflt_lock) as [Hin|Hd].
          - apply Hall2. exact Hin.
          - rewrite Hd. reflexivity. }
        rewrite Hla2 in Hm. apply N.eqb_neq in H2. rewrite H2 in Hm. congruence. }
      destruct (Hfin (set_old t3 (bdealloc (old t3)))) as [F1 [F2 [F3 [F4 [F5 [F6 [F7 [F8 F9]]]]]]]];
        [reflexivity|reflexivity|exact Ho1|exact Hne2|intros b s0 Hb; exfalso; exact (Hno b Hb)|].
      split.
      { constructor; [exact Hne2|exact F1|exact F2|]. left.
        intros x Hin. apply Hall2. exact Hin. }
      split; [exact F3|]. split; [exact F4|]. split; [exact F5|]. split; [exact F6|]. split; [exact F7|].
      split; [exact F8|]. split; [exact Ho1|]. split; [exact F9|].
      cbn [rc mlfn mlfd mhp workers set_old]. repeat split; assumption || exact Hfr.
    + apply N.eqb_neq in Eo.
      destruct (Hfin t3) as [F1 [F2 [F3 [F4 [F5 [F6 [F7 [F8 F9]]]]]]]];
        [reflexivity|reflexivity|exact Ho1|exact Hne2|intros; reflexivity|].
      split.
      { constructor; [exact Hne2|exact F1|exact F2|]. right. constructor.
        - change (bhp (cur t3)) with (bhp (cur t1)). change (bhp (old t3)) with (bhp (old t1)). congruence.
        - change (bdead (old t3)) with (bdead (old t1)). congruence.
        - change (bhp (old t3)) with (bhp (old t1)). rewrite Ho1. exact X3.
        - rewrite F9. exact X4.
        - intros _. change (cur_locks t3) with (cur_locks t2). change (nrem t3) with (wrap64 (nrem t2 + 18446744073709551616 - 1)).
          rewrite Hnr, <- Hcnt2.
          assert (Hb : (unmig_count (cur_locks t2) <= length (cur_locks t2))%nat) by apply unmig_count_le.
          assert (Hlen2 : length (cur_locks t2) = N.to_nat (kmax c)).
          { rewrite Hcl2, st_upd_length. exact X4. }
          assert (Hk := kmax_lt64). change (2 ^ 64) with 18446744073709551616 in Hk.
          unfold wrap64, wrap. change (2 ^ 64) with 18446744073709551616.
          replace (N.of_nat (S (unmig_count (cur_locks t2))) + 18446744073709551616 - 1)
            with (N.of_nat (unmig_count (cur_locks t2)) + 1 * 18446744073709551616) by lia.
          rewrite N.mod_add by lia. apply N.mod_small. lia. }
      split; [exact F3|]. split; [exact F4|]. split; [exact F5|]. split; [exact F6|]. split; [exact F7|].
      split; [exact F8|]. split; [exact Ho1|]. split; [exact F9|].
      cbn [rc mlfn mlfd mhp workers set_nrem_raw t3]. repeat split; assumption || exact Hfr.
  - (* lazy = false: the counter is left alone *)
    destruct (Hfin t2) as [F1 [F2 [F3 [F4 [F5 [F6 [F7 [F8 F9]]]]]]]];
      [reflexivity|reflexivity|exact Ho1|exact Hne2|intros; reflexivity|].
    split.
    { constructor; [exact Hne2|exact F1|exact F2|]. right. constructor.
      - change (bhp (cur t2)) with (bhp (cur t1)). change (bhp (old t2)) with (bhp (old t1)). congruence.
      - change (bdead (old t2)) with (bdead (old t1)). congruence.
      - change (bhp (old t2)) with (bhp (old t1)). rewrite Ho1. exact X3.
      - rewrite F9. exact X4.
      - discriminate. }
    split; [exact F3|]. split; [exact F4|]. split; [exact F5|]. split; [exact F6|]. split; [exact F7|].
    split; [exact F8|]. split; [exact Ho1|]. split; [exact F9|].
    change (rc t2) with (rc t1). change (mlfn t2) with (mlfn t1). change (mlfd t2) with (mlfd t1).
    change (mhp t2) with (mhp t1). change (workers t2) with (workers t1). repeat split; assumption || exact Hfr.
Qed.

(* ================================================================== D. entering the lazy state *)

(* Theorem 1: fast_double_body in normal mode on a large table defers the whole migration *)
Theorem fast_double_body_deferred t :
  settled t -> counted c t -> bhp (cur t) + 1 < 62 ->
  kmax c <= hashsize (bhp (cur t)) ->
  (length (cur_locks t) <= N.to_nat (kmax c))%nat ->
  let t' := fast_double_body c hash false t (bhp (cur t) + 1) in
  wf t' /\ lcounted t' /\ bhp (cur t') = bhp (cur t) + 1 /\
  (forall k v, lholds t' k v <-> holds (cur t) k v) /\
  rc t' = wrap64 (rc t + 1) /\ mlfn t' = mlfn t /\ mlfd t' = mlfd t /\ mhp t' = mhp t /\
  workers t' = workers t /\ nrem t' = kmax c /\
  cur t' = bnew (bhp (cur t) + 1) /\ old t' = cur t /\
  length (cur_locks t') = N.to_nat (kmax c) /\
  (forall l, l < kmax c -> mig (lock_at t' l) = false).
Proof.
  intros St Hcnt Hhp Hbig Hlen t'. subst t'. rewrite fast_double_body_unfold. cbv zeta.
  destruct (fd_t3_spec c hash t St Hhp) as [T1 [T2 [T3 [T4 [T5 [T6 [T7 [T8 [T9 [T10 [T11 T12]]]]]]]]]]].
  cbv zeta in T1, T2, T3, T4, T5, T6, T7, T8, T9, T10, T11, T12.
  set (hp := bhp (cur t)) in *.
  set (t3 := fd_t3 c hash t (hp + 1)) in *.
  rewrite T2. fold hp.
  assert (Hge : (hashsize hp <? kmax c) = false) by (apply N.ltb_ge; exact Hbig).
  rewrite Hge. rewrite (hashsize_spec hp) in Hbig by lia.
  assert (Hkpos := kmax_pos c).
  assert (Hmin : N.min (kmax c) (2 ^ (hp + 1)) = kmax c).
  { apply N.min_l. rewrite pow2_succ_double. set (p := 2 ^ hp) in *. clearbody p. lia. }
  rewrite Hmin in T6.
  assert (HL : length (cur_locks t3) = N.to_nat (kmax c)) by lia.
  assert (HLnz : N.of_nat (length (cur_locks t3)) <> 0) by lia.
  rewrite (set_nrem_nonzero _ _ HLnz).
  set (t5 := set_nrem_raw (set_all_unmigrated t3) (N.of_nat (length (cur_locks t3)))).
  set (f := fun lk : lockm => {| cnt := cnt lk; mig := false |}).
  set (t6 := set_rc t5 (wrap64 (rc t5 + 1))).
  assert (Hcl : cur_locks t6 = map f (cur_locks t3)).
  { change (cur_locks t6) with (cur_locks (set_all_unmigrated t3)).
    unfold set_all_unmigrated. apply cur_locks_upd_last. exact T4. }
  assert (Hcur : cur t6 = bnew (hp + 1)) by exact T1.
  assert (Hold : old t6 = cur t) by exact T2.
  assert (Ha := se_arr _ _ _ St).
  assert (Hlk : forall l, l < kmax c -> mig (lock_at t6 l) = false).
  { intros l Hl. unfold lock_at. rewrite Hcl.
    rewrite (nth_map_lt f (cur_locks t3) dflt_lock dflt_lock) by lia. reflexivity. }
  assert (Hpend : forall b, pendP t6 b <-> b < 2 ^ hp).
  { intro b. unfold pendP. rewrite pendb_true, Hold. fold hp. split; [intros [H _]; exact H|].
    intro H. split; [exact H|]. apply Hlk. apply N.mod_lt. lia. }
  assert (Hinv : linv (pendP t6) (old t6) (cur t6)).
  { rewrite Hcur, Hold. constructor.
    - apply arr_ok_bnew. exact Hhp.
    - reflexivity.
    - intros b Hb. apply Hpend. exact Hb.
    - intros b s e E. rewrite bget_bnew in E. discriminate.
    - intros b s e _ E. apply (ao_range _ _ _ Ha _ _ _ E).
    - intros b s e _ E. apply (ao_place _ _ _ Ha _ _ _ E).
    - intros b s e _ E. apply (ao_tag _ _ _ Ha _ _ _ E).
    - intros b s e b' s' e' _ _ E E' Hk. apply (ao_uniq _ _ _ Ha _ _ _ _ _ _ E E' Hk).
    - intros b s e b' s' e' _ _ E. rewrite bget_bnew in E. discriminate. }
  split.
  { constructor.
    - change (locks t6) with (upd_last (map f) (locks t3)). apply st_upd_last_nonnil. exact T4.
    - intros b Hb. rewrite Hcl, map_length, HL. rewrite Hcur in Hb. cbn [bhp bnew] in Hb.
      apply (cover_min c Hc (hp + 1)); [rewrite Hmin; lia|exact Hb].
    - exact Hinv.
    - right. constructor.
      + rewrite Hcur, Hold. reflexivity.
      + rewrite Hold. apply (se_alive _ _ _ St).
      + rewrite Hold. exact Hbig.
      + rewrite Hcl, map_length. exact HL.
      + intros _. rewrite Hcl. rewrite unmig_count_all by (intro lk; reflexivity). reflexivity. }
  split.
  { exists (cur t). split.
    - split; [rewrite Hold; reflexivity|]. split.
      + intros b s _. rewrite Hold. reflexivity.
      + intros b s Hn. destruct (bget (cur t) b s) as [e|] eqn:E; [|reflexivity].
        exfalso. apply Hn. apply Hpend. apply (ao_range _ _ _ Ha _ _ _ E).
    - rewrite Hcl, sum_cnt_map_same by (intro lk; reflexivity). rewrite T5, Hcur, count_arr_bnew.
      exact Hcnt. }
  split; [rewrite Hcur; reflexivity|].
  split.
  { intros k v. unfold lholds, lh. rewrite Hcur, Hold. split.
    - intros [[b [s [e [E _]]]]|[b [s [e [_ [E R]]]]]].
      + rewrite bget_bnew in E. discriminate.
      + exists b, s, e. split; assumption.
    - intros [b [s [e [E R]]]]. right. exists b, s, e. split; [|split; assumption].
      apply Hpend. apply (ao_range _ _ _ Ha _ _ _ E). }
  split; [change (rc t6) with (wrap64 (rc t3 + 1)); rewrite T8; reflexivity|].
  split; [exact T9|]. split; [exact T10|]. split; [exact T11|]. split; [exact T12|].
  split; [change (nrem t6) with (N.of_nat (length (cur_locks t3))); rewrite HL; apply N2Nat.id|].
  split; [exact Hcur|]. split; [exact Hold|].
  split; [rewrite Hcl, map_length; exact HL|exact Hlk].
Qed.

(* ================================================================== E. finishing the migration *)

Lemma rehash_all_wf n : forall t l,
  wfg false t ->
  let t' := rehash_all c hash t l n in
  wfg false t' /\ (forall k v, lholds t' k v <-> lholds t k v) /\ (lcounted t -> lcounted t') /\
  (forall x, l <= x < l + N.of_nat n -> mig (lock_at t' x) = true) /\
  (forall x, mig (lock_at t x) = true -> mig (lock_at t' x) = true) /\
  bhp (cur t') = bhp (cur t) /\ bhp (old t') = bhp (old t) /\
  length (cur_locks t') = length (cur_locks t) /\
  rc t' = rc t /\ mlfn t' = mlfn t /\ mlfd t' = mlfd t /\ mhp t' = mhp t /\ workers t' = workers t.
Proof.
  induction n as [|n IH]; intros t l W; cbn [rehash_all].
  - split; [exact W|]. split; [intros; reflexivity|]. split; [auto|]. split; [intros x Hx; lia|].
    split; [auto|]. repeat split; reflexivity.
  - destruct (rehash_lock_wf false t l W) as [W1 [L1 [C1 [M1 [_ [Mo1 [A1 [A2 [A3 [A4 [A5 [A6 [A7 [A8 _]]]]]]]]]]]]]].
    cbv zeta in W1, L1, C1, M1, Mo1, A1, A2, A3, A4, A5, A6, A7, A8.
    set (t1 := rehash_lock c hash false t l) in *.
    destruct (IH t1 (l + 1) W1) as [W2 [L2 [C2 [M2 [Mo2 [B1 [B2 [B3 [B4 [B5 [B6 [B7 B8]]]]]]]]]]]].
    cbv zeta in W2, L2, C2, M2, Mo2, B1, B2, B3, B4, B5, B6, B7, B8.
    split; [exact W2|]. split; [intros k v; rewrite L2; apply L1|]. split; [auto|].
    split.
    { intros x Hx. destruct (N.eq_dec x l) as [->|Ne].
      - apply Mo2. exact M1.
      - apply M2. lia. }
    split; [intros x Hx; apply Mo2; apply Mo1; exact Hx|].
    repeat split; congruence.
Qed.

Lemma settled_ext t t' : cur t' = cur t -> locks t' = locks t -> settled t -> settled t'.
Proof.
  intros E1 E2 [S1 S2 S3 S4 S5].
  assert (Hcl : cur_locks t' = cur_locks t) by (apply cur_locks_locks; exact E2).
  constructor.
  - rewrite E1. exact S1.
  - rewrite E1. exact S2.
  - apply (all_migrated_locks t); assumption.
  - rewrite E2. exact S4.
  - rewrite E1, Hcl. exact S5.
Qed.

(* lock_table / rehash_with_workers: a pending deferred migration is finished first *)
Theorem rehash_with_workers_wf s t :
  wfg s t ->
  let t' := rehash_with_workers c hash t in
  settled t' /\ (lcounted t -> counted c t') /\
  (forall k v, holds (cur t') k v <-> lholds t k v) /\
  bhp (cur t') = bhp (cur t) /\ nrem t' = 0 /\
  length (cur_locks t') = length (cur_locks t) /\
  rc t' = rc t /\ mlfn t' = mlfn t /\ mlfd t' = mlfd t /\ mhp t' = mhp t /\ workers t' = workers t.
Proof.
  intros W t'. subst t'. unfold rehash_with_workers.
  assert (W0 : wfg false t) by (destruct s; [apply wfg_weaken; exact W|exact W]).
  destruct (rehash_all_wf (length (cur_locks t)) t 0 W0)
    as [W1 [L1 [C1 [M1 [_ [A1 [A2 [A3 [A4 [A5 [A6 [A7 A8]]]]]]]]]]]].
  cbv zeta in W1, L1, C1, M1, A1, A2, A3, A4, A5, A6, A7, A8.
  set (tr := rehash_all c hash t 0 (length (cur_locks t))) in *.
  assert (Hall : all_migrated tr).
  { intros x Hin. destruct (In_nth _ _ dflt_lock Hin) as [j [Hj Ej]].
    rewrite <- Ej. assert (H := M1 (N.of_nat j) ltac:(lia)).
    unfold lock_at in H. rewrite Nat2N.id in H. exact H. }
  assert (St : settled tr) by (apply (wfg_settled false); assumption).
  destruct (set_nrem_fields tr 0) as [F1 [F2 [F3 [F4 [F5 [F6 [F7 F8]]]]]]].
  split; [apply (settled_ext tr); assumption|].
  split.
  { intro Hc0. apply counted_set_nrem. apply (lcounted_settled tr Hall). apply C1. exact Hc0. }
  split.
  { intros k v. rewrite F1. rewrite <- L1. symmetry. apply lholds_settled. exact Hall. }
  split; [congruence|]. split; [exact F3|].
  split; [rewrite (cur_locks_locks tr _ F2); exact A3|].
  repeat split; congruence.
Qed.

(* ================================================================== F. locking = migrating *)

(* what taking locks (= migrating stripes) may change in a table *)
Definition lstep (t t' : table) : Prop :=
  (forall k v, lholds t' k v <-> lholds t k v) /\ (lcounted t -> lcounted t') /\
  (forall x, mig (lock_at t x) = true -> mig (lock_at t' x) = true) /\
  bhp (cur t') = bhp (cur t) /\ bhp (old t') = bhp (old t) /\
  length (cur_locks t') = length (cur_locks t) /\
  rc t' = rc t /\ mlfn t' = mlfn t /\ mlfd t' = mlfd t /\ mhp t' = mhp t /\ workers t' = workers t /\
  (forall b s, mig (lock_at t (b mod kmax c)) = true -> bget (cur t') b s = bget (cur t) b s).

Lemma lstep_refl t : lstep t t.
Proof.
  split; [intros; reflexivity|]. split; [auto|]. split; [auto|]. repeat split; reflexivity.
Qed.

Lemma lstep_trans t t' t'' : lstep t t' -> lstep t' t'' -> lstep t t''.
Proof.
  intros [A1 [A2 [A3 [A4 [A5 [A6 [A7 [A8 [A9 [A10 [A11 A12]]]]]]]]]]]
         [B1 [B2 [B3 [B4 [B5 [B6 [B7 [B8 [B9 [B10 [B11 B12]]]]]]]]]]].
  split; [intros k v; rewrite B1; apply A1|]. split; [auto|]. split; [auto|].
  split; [congruence|]. split; [congruence|]. split; [congruence|]. split; [congruence|].
  split; [congruence|]. split; [congruence|]. split; [congruence|]. split; [congruence|].
  intros b s Hm. rewrite B12 by (apply A3; exact Hm). apply A12. exact Hm.
Qed.

Lemma rehash_lock_lstep t l :
  wf t -> wf (rehash_lock c hash true t l) /\ lstep t (rehash_lock c hash true t l) /\
          mig (lock_at (rehash_lock c hash true t l) l) = true.
Proof.
  intro W. destruct (rehash_lock_wf true t l W)
    as [W1 [L1 [C1 [M1 [_ [Mo1 [A1 [A2 [A3 [A4 [A5 [A6 [A7 [A8 A9]]]]]]]]]]]]]].
  split; [exact W1|]. split; [|exact M1].
  split; [exact L1|]. split; [exact C1|]. split; [exact Mo1|]. repeat split; assumption.
Qed.

Lemma lock_one_lstep t i :
  wf t -> wf (lock_one c hash false t i) /\ lstep t (lock_one c hash false t i) /\
          mig (lock_at (lock_one c hash false t i) (lockind c i)) = true.
Proof. intro W. unfold lock_one. apply rehash_lock_lstep. exact W. Qed.

Lemma lock_two_lstep t i1 i2 :
  wf t ->
  let t' := lock_two c hash false t i1 i2 in
  wf t' /\ lstep t t' /\
  mig (lock_at t' (lockind c i1)) = true /\ mig (lock_at t' (lockind c i2)) = true.
Proof.
  intros W t'. subst t'. unfold lock_two.
  destruct (lockind c i2 <? lockind c i1).
  - destruct (rehash_lock_lstep t (lockind c i2) W) as [W1 [S1 M1]].
    destruct (rehash_lock_lstep _ (lockind c i1) W1) as [W2 [S2 M2]].
    split; [exact W2|]. split; [apply (lstep_trans _ _ _ S1 S2)|]. split; [exact M2|].
    apply S2. exact M1.
  - destruct (rehash_lock_lstep t (lockind c i1) W) as [W1 [S1 M1]].
    destruct (rehash_lock_lstep _ (lockind c i2) W1) as [W2 [S2 M2]].
    split; [exact W2|]. split; [apply (lstep_trans _ _ _ S1 S2)|]. split; [|exact M2].
    apply S2. exact M1.
Qed.

Lemma lock_three_lstep t i1 i2 i3 :
  wf t ->
  let t' := lock_three c hash false t i1 i2 i3 in
  wf t' /\ lstep t t' /\
  mig (lock_at t' (lockind c i1)) = true /\ mig (lock_at t' (lockind c i2)) = true /\
  mig (lock_at t' (lockind c i3)) = true.
Proof.
  intros W t'. subst t'. unfold lock_three.
  assert (Hgen : forall x y z,
    (forall l, l = lockind c i1 \/ l = lockind c i2 \/ l = lockind c i3 -> l = x \/ l = y \/ l = z) ->
    let u := rehash_lock c hash true (rehash_lock c hash true (rehash_lock c hash true t x) y) z in
    wf u /\ lstep t u /\ mig (lock_at u (lockind c i1)) = true /\ mig (lock_at u (lockind c i2)) = true /\
    mig (lock_at u (lockind c i3)) = true).
  { intros x y z Hcov u. subst u.
    destruct (rehash_lock_lstep t x W) as [W1 [S1 M1]].
    destruct (rehash_lock_lstep _ y W1) as [W2 [S2 M2]].
    destruct (rehash_lock_lstep _ z W2) as [W3 [S3 M3]].
    split; [exact W3|]. split; [apply (lstep_trans _ _ _ (lstep_trans _ _ _ S1 S2) S3)|].
    assert (Hm : forall l, l = x \/ l = y \/ l = z ->
              mig (lock_at (rehash_lock c hash true (rehash_lock c hash true (rehash_lock c hash true t x) y) z) l) = true).
    { intros l [->|[->| ->]]; [apply S3; apply S2; exact M1|apply S3; exact M2|exact M3]. }
    split; [apply Hm, Hcov; left; reflexivity|].
    split; [apply Hm, Hcov; right; left; reflexivity|apply Hm, Hcov; right; right; reflexivity]. }
  destruct (lockind c i3 <? lockind c i2);
    match goal with |- context [if ?x <? ?y then _ else _] => destruct (x <? y) end;
    match goal with |- context [if ?x <? ?y then _ else _] => destruct (x <? y) end;
    apply Hgen; intros l [->|[->| ->]]; auto.
Qed.

(* the stripe of a new-array candidate equals the stripe of the corresponding old-array candidate *)
Lemma cand_stripe ohp k b :
  ohp + 1 < 64 -> kmax c <= 2 ^ ohp -> cand ohp k b ->
  b mod kmax c = i1_of hash (ohp + 1) k mod kmax c \/ b mod kmax c = i2_of hash (ohp + 1) k mod kmax c.
Proof.
  intros Hhp HK [E|E]; subst b.
  - left. unfold i1_of. rewrite !index_hash_spec by lia. unfold kmax.
    rewrite !mod_pow2_le by (apply lbits_le in HK; lia). reflexivity.
  - right. rewrite <- (stripe_mod_old ohp (i2_of hash (ohp + 1) k) HK). f_equal.
    unfold i2_of. rewrite alt_double by exact Hhp. f_equal.
    unfold i1_of. rewrite !index_hash_spec by lia. symmetry. apply mod_pow2_le. lia.
Qed.

(* Theorem 3: after snapshot_and_lock_two both candidate stripes of k are migrated, so
   for THIS key the abstraction is the current array alone *)
Theorem snapshot_wf t k :
  wf t ->
  let hp := bhp (cur t) in
  let t1 := lock_two c hash false t (i1_of hash hp k) (i2_of hash hp k) in
  snapshot_and_lock_two c hash false t k = (t1, i1_of hash hp k, i2_of hash hp k) /\
  wf t1 /\ lstep t t1 /\
  mig (lock_at t1 (lockind c (i1_of hash hp k))) = true /\
  mig (lock_at t1 (lockind c (i2_of hash hp k))) = true /\
  (forall v, lholds t1 k v <-> holds (cur t1) k v).
Proof.
  intros W hp t1.
  destruct (lock_two_lstep t (i1_of hash hp k) (i2_of hash hp k) W) as [W1 [S1 [M1 M2]]].
  fold t1 in W1, S1, M1, M2.
  split; [reflexivity|]. split; [exact W1|]. split; [exact S1|]. split; [exact M1|]. split; [exact M2|].
  intro v. unfold lholds, lh. split; [|intro H; left; exact H].
  intros [H|[b [s [e [Hb [E [Hk Hv]]]]]]]; [exact H|exfalso].
  destruct W1 as [V1 V2 V3 V4].
  destruct V4 as [Hall|[X1 X2 X3 X4 X5]].
  { apply (pendP_none t1 Hall b). exact Hb. }
  assert (Hcand := li_old_cand _ _ _ V3 b s e Hb E). rewrite Hk in Hcand.
  assert (Hhp1 : bhp (old t1) + 1 < 64).
  { rewrite <- X1. assert (H := ao_hp _ _ _ (li_arr _ _ _ V3)). lia. }
  assert (Hbc : bhp (cur t1) = hp) by apply S1.
  apply pendb_true in Hb. destruct Hb as [_ Hb].
  unfold lockind in M1, M2. rewrite !lockind_spec in M1, M2 by exact Hc.
  destruct (cand_stripe (bhp (old t1)) k b Hhp1 X3 Hcand) as [F|F];
    rewrite F in Hb; rewrite <- X1, Hbc in Hb; congruence.
Qed.

(* ================================================================== G. single-slot updates *)

(* ---- array level ---- *)

Lemma linv_setval P o n b s e v :
  linv P o n -> bget n b s = Some e ->
  let n' := bset n b s (Some {| ekey := ekey e; eval := v; epart := epart e; ehusk := ehusk e |}) in
  linv P o n' /\
  forall k' v', lh P o n' k' v' <-> (k' = ekey e /\ v' = v) \/ (k' <> ekey e /\ lh P o n k' v').
Proof.
  intros [L1 L2 L3 L4 L5 L6 L7 L8 L9] He n'. subst n'.
  destruct (arr_ok_setval c hash n b s e v L1 He) as [Ha Hh]. cbv zeta in Ha, Hh.
  set (x := {| ekey := ekey e; eval := v; epart := epart e; ehusk := ehusk e |}) in *.
  assert (Hsub : forall b' s' e', bget (bset n b s (Some x)) b' s' = Some e' ->
            exists e0, bget n b' s' = Some e0 /\ ekey e0 = ekey e').
  { intros b' s' e' E.
    destruct (bget_bset_cases n b s (Some x) b' s') as [[-> [-> Hx]]|[Hne Hx]]; rewrite Hx in E.
    - injection E as <-. exists e. split; [exact He|reflexivity].
    - exists e'. split; [exact E|reflexivity]. }
  split.
  - constructor; try assumption.
    + intros b' s' e' E. destruct (Hsub b' s' e' E) as [e0 [E0 _]]. apply (L4 b' s' e0 E0).
    + intros b0 s0 e0 b' s' e' Hb E0 E. destruct (Hsub b' s' e' E) as [e1 [E1 Hk]].
      rewrite <- Hk. apply (L9 b0 s0 e0 b' s' e1 Hb E0 E1).
  - intros k' v'. unfold lh. rewrite Hh. split.
    + intros [[H|[Hne H]]|[b0 [s0 [e0 [Hb [E0 [Hk Hv]]]]]]].
      * left. exact H.
      * right. split; [exact Hne|left; exact H].
      * right. split.
        { rewrite <- Hk. apply (L9 b0 s0 e0 b s e Hb E0 He). }
        right. exists b0, s0, e0. repeat split; assumption.
    + intros [H|[Hne [H|H]]].
      * left. left. exact H.
      * left. right. split; assumption.
      * right. exact H.
Qed.

Lemma linv_del P o n b s e :
  linv P o n -> bget n b s = Some e ->
  let n' := bset n b s None in
  linv P o n' /\ forall k' v', lh P o n' k' v' <-> (lh P o n k' v' /\ k' <> ekey e).
Proof.
  intros [L1 L2 L3 L4 L5 L6 L7 L8 L9] He n'. subst n'.
  destruct (arr_ok_del c hash n b s e L1 He) as [Ha Hh]. cbv zeta in Ha, Hh.
  assert (Hsub : forall b' s' e', bget (bset n b s None) b' s' = Some e' -> bget n b' s' = Some e').
  { intros b' s' e' E.
    destruct (bget_bset_cases n b s None b' s') as [[-> [-> Hx]]|[Hne Hx]]; rewrite Hx in E;
      [discriminate|exact E]. }
  split.
  - constructor; try assumption.
    + intros b' s' e' E. apply (L4 b' s' e' (Hsub _ _ _ E)).
    + intros b0 s0 e0 b' s' e' Hb E0 E. apply (L9 b0 s0 e0 b' s' e' Hb E0 (Hsub _ _ _ E)).
  - intros k' v'. unfold lh. rewrite Hh. split.
    + intros [[H Hne]|[b0 [s0 [e0 [Hb [E0 [Hk Hv]]]]]]].
      * split; [left; exact H|exact Hne].
      * split.
        { right. exists b0, s0, e0. repeat split; assumption. }
        rewrite <- Hk. apply (L9 b0 s0 e0 b s e Hb E0 He).
    + intros [[H|H] Hne]; [left; split; assumption|right; exact H].
Qed.

Lemma linv_add P o n b s k v :
  linv P o n -> bget n b s = None -> b < 2 ^ bhp n -> s < spb c -> cand (bhp n) k b ->
  ~ key_in n k -> ~ P (b mod 2 ^ bhp o) ->
  (forall b0 s0 e0, P b0 -> bget o b0 s0 = Some e0 -> ekey e0 <> k) ->
  let n' := bset n b s (Some {| ekey := k; eval := v; epart := partial_key (hash k); ehusk := false |}) in
  linv P o n' /\
  forall k' v', lh P o n' k' v' <-> (k' = k /\ v' = v) \/ (k' <> k /\ lh P o n k' v').
Proof.
  intros [L1 L2 L3 L4 L5 L6 L7 L8 L9] Hn Hb Hs Hcand Hnew HnP Hold n'. subst n'.
  destruct (arr_ok_add c hash n b s k v L1 Hn Hb Hs Hcand Hnew) as [Ha Hh]. cbv zeta in Ha, Hh.
  set (x := {| ekey := k; eval := v; epart := partial_key (hash k); ehusk := false |}) in *.
  split.
  - constructor; try assumption.
    + intros b' s' e' E.
      destruct (bget_bset_cases n b s (Some x) b' s') as [[-> [-> Hx]]|[Hne Hx]]; rewrite Hx in E.
      * exact HnP.
      * apply (L4 b' s' e' E).
    + intros b0 s0 e0 b' s' e' Hb0 E0 E.
      destruct (bget_bset_cases n b s (Some x) b' s') as [[-> [-> Hx]]|[Hne Hx]]; rewrite Hx in E.
      * injection E as <-. apply (Hold b0 s0 e0 Hb0 E0).
      * apply (L9 b0 s0 e0 b' s' e' Hb0 E0 E).
  - intros k' v'. unfold lh. rewrite Hh. split.
    + intros [[H|[Hne H]]|[b0 [s0 [e0 [Hb0 [E0 [Hk Hv]]]]]]].
      * left. exact H.
      * right. split; [exact Hne|left; exact H].
      * right. split; [rewrite <- Hk; apply (Hold b0 s0 e0 Hb0 E0)|].
        right. exists b0, s0, e0. repeat split; assumption.
    + intros [H|[Hne [H|H]]].
      * left. left. exact H.
      * left. right. split; assumption.
      * right. exact H.
Qed.

(* ---- table level ---- *)

Lemma wfg_set_cur s t a' :
  wfg s t -> linv (pendP t) (old t) a' -> bhp a' = bhp (cur t) -> wfg s (set_cur t a').
Proof.
  intros [W1 W2 W3 W4] I Hh. constructor.
  - exact W1.
  - intros b Hb. cbn [cur set_cur] in Hb. rewrite Hh in Hb. apply W2. exact Hb.
  - exact I.
  - destruct W4 as [H|[X1 X2 X3 X4 X5]]; [left; exact H|right].
    constructor; try assumption. cbn [cur old set_cur]. congruence.
Qed.

Lemma mig_lock_at_upd t l f x :
  locks t <> [] -> (forall lk, mig (f lk) = mig lk) ->
  mig (lock_at (upd_cur_lock t l f) x) = mig (lock_at t x).
Proof.
  intros Hne Hf.
  destruct (N.eq_dec x l) as [->|Ne]; [|rewrite lock_at_upd_other by assumption; reflexivity].
  destruct (Nat.lt_ge_cases (N.to_nat l) (length (cur_locks t))) as [L|G].
  - rewrite lock_at_upd_same by assumption. apply Hf.
  - unfold lock_at. rewrite st_cur_locks_upd_cur_lock by exact Hne.
    rewrite upd_out_of_range by exact G. reflexivity.
Qed.

Lemma pendb_upd t l f b :
  locks t <> [] -> (forall lk, mig (f lk) = mig lk) -> pendb (upd_cur_lock t l f) b = pendb t b.
Proof.
  intros Hne Hf. unfold pendb. rewrite (mig_lock_at_upd t l f _ Hne Hf). reflexivity.
Qed.

Lemma unmig_count_upd_same (f : lockm -> lockm) la :
  (forall lk, mig (f lk) = mig lk) -> forall i, unmig_count (upd i f la) = unmig_count la.
Proof.
  intro Hf. unfold unmig_count. induction la as [|x r IH]; intro i; [destruct i; reflexivity|].
  destruct i as [|i]; cbn [upd filter].
  - rewrite Hf. destruct (negb (mig x)); reflexivity.
  - destruct (negb (mig x)); cbn [length]; rewrite IH; reflexivity.
Qed.

Lemma wfg_upd_cur_lock s t l f :
  wfg s t -> (forall lk, mig (f lk) = mig lk) -> wfg s (upd_cur_lock t l f).
Proof.
  intros [W1 W2 W3 W4] Hf. constructor.
  - apply st_locks_upd_cur_lock_nonnil. exact W1.
  - intros b Hb. rewrite cur_locks_length_upd_cur_lock. apply W2. exact Hb.
  - apply (linv_ext (pendP t)); [|exact W3].
    intro b. unfold pendP. rewrite (pendb_upd t l f b W1 Hf). reflexivity.
  - destruct W4 as [H|[X1 X2 X3 X4 X5]].
    + left. apply all_migrated_upd_cur_lock; assumption.
    + right. constructor; try assumption.
      * rewrite cur_locks_length_upd_cur_lock. exact X4.
      * intro Hs. rewrite st_cur_locks_upd_cur_lock by exact W1.
        rewrite unmig_count_upd_same by exact Hf. apply X5. exact Hs.
Qed.

Lemma lholds_upd_cur_lock t l f k v :
  locks t <> [] -> (forall lk, mig (f lk) = mig lk) ->
  (lholds (upd_cur_lock t l f) k v <-> lholds t k v).
Proof.
  intros Hne Hf. unfold lholds. apply lh_ext. intro b. unfold pendP.
  rewrite (pendb_upd t l f b Hne Hf). reflexivity.
Qed.

Lemma ghost_upd_cur_lock t l f g :
  locks t <> [] -> (forall lk, mig (f lk) = mig lk) ->
  ghost (pendP t) (old t) g -> ghost (pendP (upd_cur_lock t l f)) (old (upd_cur_lock t l f)) g.
Proof.
  intros Hne Hf G. apply (ghost_ext (pendP t)); [|exact G].
  intro b. unfold pendP. rewrite (pendb_upd t l f b Hne Hf). reflexivity.
Qed.

Lemma set_val_wf s t b sl e v :
  wfg s t -> bget (cur t) b sl = Some e ->
  let t' := set_val t b sl v in
  wfg s t' /\ bhp (cur t') = bhp (cur t) /\ locks t' = locks t /\ old t' = old t /\
  (lcounted t -> lcounted t') /\
  (exists e', bget (cur t') b sl = Some e' /\ ekey e' = ekey e /\ eval e' = v) /\
  forall k' v', lholds t' k' v' <-> (k' = ekey e /\ v' = v) \/ (k' <> ekey e /\ lholds t k' v').
Proof.
  intros W He t'. subst t'. rewrite (set_val_occupied t b sl e v He).
  destruct (linv_setval _ _ _ b sl e v (wf_inv _ _ W) He) as [I Hh]. cbv zeta in I, Hh.
  split; [apply wfg_set_cur; [exact W|exact I|reflexivity]|].
  split; [reflexivity|]. split; [reflexivity|]. split; [reflexivity|].
  split.
  { intros [g [G E]]. exists g. split; [exact G|].
    change (cur_locks (set_cur t _)) with (cur_locks t). cbn [cur set_cur].
    rewrite (count_arr_replace c (cur t) b sl e _ He). exact E. }
  split.
  { eexists. cbn [cur set_cur]. split; [apply bget_bset_eq|]. split; reflexivity. }
  exact Hh.
Qed.

Lemma del_from_bucket_wf s t b sl e :
  wfg s t -> bget (cur t) b sl = Some e ->
  let t' := del_from_bucket c t b sl in
  wfg s t' /\ bhp (cur t') = bhp (cur t) /\ (lcounted t -> lcounted t') /\
  forall k' v', lholds t' k' v' <-> (lholds t k' v' /\ k' <> ekey e).
Proof.
  intros W He t'. subst t'. unfold del_from_bucket.
  destruct (linv_del _ _ _ b sl e (wf_inv _ _ W) He) as [I Hh]. cbv zeta in I, Hh.
  set (t1 := set_cur t (bset (cur t) b sl None)).
  assert (W1 : wfg s t1) by (apply wfg_set_cur; [exact W|exact I|reflexivity]).
  set (f := fun lk : lockm => {| cnt := (cnt lk - 1)%Z; mig := mig lk |}).
  assert (Hf : forall lk, mig (f lk) = mig lk) by (intro lk; reflexivity).
  split; [apply wfg_upd_cur_lock; assumption|]. split; [reflexivity|].
  split.
  { intros [g [G E]]. exists g. split.
    - apply (ghost_upd_cur_lock t1 _ f g (wf_locks _ _ W1) Hf). exact G.
    - destruct (ao_range _ _ _ (li_arr _ _ _ (wf_inv _ _ W)) _ _ _ He) as [Hb Hs].
      assert (Hsum := del_from_bucket_sum c t b sl (wf_locks _ _ W) (wf_cover _ _ W b Hb)).
      unfold del_from_bucket in Hsum. fold t1 in Hsum. unfold lockind in Hsum |- *. fold f in Hsum.
      rewrite Hsum, E. change (cur (upd_cur_lock t1 _ f)) with (bset (cur t) b sl None).
      rewrite (count_arr_del c (cur t) b sl e Hb Hs He). lia. }
  intros k' v'. rewrite (lholds_upd_cur_lock t1 _ f k' v' (wf_locks _ _ W1) Hf). apply Hh.
Qed.

Lemma add_to_bucket_wf s t b sl k v :
  wfg s t -> bget (cur t) b sl = None -> b < 2 ^ bhp (cur t) -> sl < spb c ->
  cand (bhp (cur t)) k b -> mig (lock_at t (b mod kmax c)) = true ->
  (forall v0, ~ lholds t k v0) ->
  let t' := add_to_bucket c t b sl (partial_key (hash k)) k v in
  wfg s t' /\ bhp (cur t') = bhp (cur t) /\ (lcounted t -> lcounted t') /\
  forall k' v', lholds t' k' v' <-> (k' = k /\ v' = v) \/ (k' <> k /\ lholds t k' v').
Proof.
  intros W Hn Hb Hs Hcand Hm Hno t'. subst t'. unfold add_to_bucket.
  assert (HnP : ~ pendP t (b mod 2 ^ bhp (old t))).
  { destruct (wf_lazy _ _ W) as [Hall|X]; [apply pendP_none; exact Hall|].
    intro F. apply pendb_true in F. destruct F as [_ F].
    rewrite (stripe_mod_old _ b (lx_K _ _ X)) in F. congruence. }
  assert (Hnk : ~ key_in (cur t) k).
  { intro F. apply key_in_holds in F. destruct F as [v0 F]. apply (Hno v0). left. exact F. }
  assert (Hold : forall b0 s0 e0, pendP t b0 -> bget (old t) b0 s0 = Some e0 -> ekey e0 <> k).
  { intros b0 s0 e0 Hb0 E0 Hk. apply (Hno (eval e0)). right. exists b0, s0, e0. repeat split; assumption. }
  destruct (linv_add _ _ _ b sl k v (wf_inv _ _ W) Hn Hb Hs Hcand Hnk HnP Hold) as [I Hh].
  cbv zeta in I, Hh.
  set (x := {| ekey := k; eval := v; epart := partial_key (hash k); ehusk := false |}) in *.
  set (t1 := set_cur t (bset (cur t) b sl (Some x))).
  assert (W1 : wfg s t1) by (apply wfg_set_cur; [exact W|exact I|reflexivity]).
  set (f := fun lk : lockm => {| cnt := (cnt lk + 1)%Z; mig := mig lk |}).
  assert (Hf : forall lk, mig (f lk) = mig lk) by (intro lk; reflexivity).
  split; [apply wfg_upd_cur_lock; assumption|]. split; [reflexivity|].
  split.
  { intros [g [G E]]. exists g. split.
    - apply (ghost_upd_cur_lock t1 _ f g (wf_locks _ _ W1) Hf). exact G.
    - assert (Hsum := add_to_bucket_sum c t b sl (partial_key (hash k)) k v (wf_locks _ _ W) (wf_cover _ _ W b Hb)).
      unfold add_to_bucket in Hsum. fold x in Hsum. fold t1 in Hsum. unfold lockind in Hsum |- *. fold f in Hsum.
      rewrite Hsum, E. change (cur (upd_cur_lock t1 _ f)) with (bset (cur t) b sl (Some x)).
      rewrite (count_arr_add c (cur t) b sl x Hb Hs Hn). lia. }
  intros k' v'. rewrite (lholds_upd_cur_lock t1 _ f k' v' (wf_locks _ _ W1) Hf). apply Hh.
Qed.

(* ================================================================== H. find / update / erase *)

Lemma lstep_wf_lholds t t' k v : lstep t t' -> (lholds t' k v <-> lholds t k v).
Proof. intros [H _]. apply H. Qed.

(* Theorem 4: lookup_fn (find_fn / update_fn / erase_fn) through a deferred migration *)
Theorem lookup_fn_wf t k g :
  wf t ->
  (forall v, lholds t k v ->
     exists t', lookup_fn c hash false t k g = (t', Some v) /\
       wf t' /\ bhp (cur t') = bhp (cur t) /\ (lcounted t -> lcounted t') /\
       forall k' v', lholds t' k' v' <->
         (k' <> k /\ lholds t k' v') \/ (k' = k /\ snd (g v) = false /\ v' = fst (g v))) /\
  ((forall v, ~ lholds t k v) ->
     exists t', lookup_fn c hash false t k g = (t', None) /\ wf t' /\ lstep t t').
Proof.
  intro W.
  destruct (snapshot_wf t k W) as [Esnap [W1 [S1 [M1 [M2 Hk1]]]]]. cbv zeta in Esnap, W1, S1, M1, M2, Hk1.
  set (hp := bhp (cur t)) in *.
  set (t1 := lock_two c hash false t (i1_of hash hp k) (i2_of hash hp k)) in *.
  assert (Hbc : bhp (cur t1) = hp) by apply S1.
  assert (Ha1 := li_arr _ _ _ (wf_inv _ _ W1)).
  assert (Hfind := cuckoo_find_cases c hash t1 k Ha1). cbv zeta in Hfind. rewrite Hbc in Hfind.
  unfold lookup_fn. rewrite Esnap. unfold hashed_partial.
  set (pos := cuckoo_find c t1 k (partial_key (hash k)) (i1_of hash hp k) (i2_of hash hp k)) in *.
  split.
  - intros v Hv.
    assert (Hv1 : holds (cur t1) k v) by (apply Hk1; apply S1; exact Hv).
    destruct Hfind as [[H1 [_ [_ H2]]]|[H1 H2]].
    2:{ exfalso. apply H2. apply key_in_holds. exists v. exact Hv1. }
    rewrite H1. destruct H2 as [e [He Hke]].
    assert (Hve : eval e = v).
    { apply (holds_fun c hash (cur t1) k (eval e) v Ha1); [|exact Hv1].
      exists (pindex pos), (pslot pos), e. repeat split; assumption. }
    unfold val_at. rewrite He, Hve.
    destruct (g v) as [v1 er] eqn:Eg. cbn [fst snd].
    destruct (set_val_wf true t1 (pindex pos) (pslot pos) e v1 W1 He)
      as [W2 [Hhp2 [_ [_ [C2 [[e2 [He2 [Hk2 Hv2]]] Hh2]]]]]].
    cbv zeta in W2, Hhp2, C2, He2, Hh2. rewrite Hke in Hh2.
    destruct er.
    + destruct (del_from_bucket_wf true _ (pindex pos) (pslot pos) e2 W2 He2) as [W3 [Hhp3 [C3 Hh3]]].
      cbv zeta in W3, Hhp3, C3, Hh3.
      eexists. split; [reflexivity|]. split; [exact W3|]. split; [congruence|].
      split; [intro H; apply C3, C2, S1; exact H|].
      intros k' v'. rewrite Hh3, Hh2, Hk2, Hke. rewrite (lstep_wf_lholds t t1 k' v' S1). split.
      * intros [[[-> _]|[Hne Hq]] Hne']; [congruence|]. left. split; assumption.
      * intros [[Hne Hq]|[_ [Hf _]]]; [|discriminate]. split; [|exact Hne]. right. split; assumption.
    + eexists. split; [reflexivity|]. split; [exact W2|]. split; [congruence|].
      split; [intro H; apply C2, S1; exact H|].
      intros k' v'. rewrite Hh2. rewrite (lstep_wf_lholds t t1 k' v' S1). split.
      * intros [[-> ->]|[Hne Hq]]; [right; repeat split|left; split; assumption].
      * intros [[Hne Hq]|[-> [_ ->]]]; [right; split; assumption|left; split; reflexivity].
  - intro Hno.
    destruct Hfind as [[H1 [_ [_ H2]]]|[H1 H2]].
    + exfalso. destruct H2 as [e [He Hke]]. apply (Hno (eval e)). apply S1. left.
      exists (pindex pos), (pslot pos), e. repeat split; assumption.
    + rewrite H1. exists t1. split; [reflexivity|]. split; [exact W1|exact S1].
Qed.

(* ================================================================== I. insertion *)

(* what the search and the displacement may change: stripes get migrated, elements of the
   current array move between their candidate buckets; the abstraction never changes *)
Definition lmv (t t' : table) : Prop :=
  (forall k v, lholds t' k v <-> lholds t k v) /\ (lcounted t -> lcounted t') /\
  (forall x, mig (lock_at t x) = true -> mig (lock_at t' x) = true) /\
  bhp (cur t') = bhp (cur t) /\ bhp (old t') = bhp (old t) /\
  length (cur_locks t') = length (cur_locks t) /\
  rc t' = rc t /\ mlfn t' = mlfn t /\ mlfd t' = mlfd t /\ mhp t' = mhp t /\ workers t' = workers t.

Lemma lmv_refl t : lmv t t.
Proof. split; [intros; reflexivity|]. split; [auto|]. split; [auto|]. repeat split; reflexivity. Qed.

Lemma lmv_trans t t' t'' : lmv t t' -> lmv t' t'' -> lmv t t''.
Proof.
  intros [A1 [A2 [A3 [A4 [A5 [A6 [A7 [A8 [A9 [A10 A11]]]]]]]]]]
         [B1 [B2 [B3 [B4 [B5 [B6 [B7 [B8 [B9 [B10 B11]]]]]]]]]].
  split; [intros k v; rewrite B1; apply A1|]. split; [auto|]. split; [auto|].
  repeat split; congruence.
Qed.

Lemma lstep_lmv t t' : lstep t t' -> lmv t t'.
Proof.
  intros [A1 [A2 [A3 [A4 [A5 [A6 [A7 [A8 [A9 [A10 [A11 _]]]]]]]]]]].
  split; [exact A1|]. split; [exact A2|]. split; [exact A3|]. repeat split; assumption.
Qed.

(* ---- I2: the search only migrates stripes ---- *)

Lemma slot_search_loop_lstep hp : forall fuel t q,
  wf t ->
  wf (fst (slot_search_loop c hash false t hp q fuel)) /\
  lstep t (fst (slot_search_loop c hash false t hp q fuel)).
Proof.
  induction fuel as [|f IH]; intros t q W.
  - cbn [slot_search_loop fst]. split; [exact W|apply lstep_refl].
  - cbn [slot_search_loop]. destruct q as [|x q']; [cbn [fst]; split; [exact W|apply lstep_refl]|].
    destruct (lock_one_lstep t (qbucket x) W) as [W1 [S1 _]].
    set (t1 := lock_one c hash false t (qbucket x)) in *.
    destruct (slot_search_scan c t1 hp x (qpathcode x mod spb c) 0 (N.to_nat (spb c)) []) as [[r|] ch].
    + cbn [fst]. split; assumption.
    + destruct (IH t1 (q' ++ ch) W1) as [W2 S2]. split; [exact W2|].
      apply (lstep_trans _ _ _ S1 S2).
Qed.

Lemma cuckoopath_search_loop_lstep hp : forall slots t prev i acc,
  wf t ->
  wf (fst (fst (cuckoopath_search_loop c hash false t hp prev slots i acc))) /\
  lstep t (fst (fst (cuckoopath_search_loop c hash false t hp prev slots i acc))).
Proof.
  induction slots as [|s rest IH]; intros t prev i acc W.
  - cbn [cuckoopath_search_loop fst]. split; [exact W|apply lstep_refl].
  - cbn [cuckoopath_search_loop].
    destruct (lock_one_lstep t (alt_index hp (crpartial prev) (crbucket prev)) W) as [W1 [S1 _]].
    set (t1 := lock_one c hash false t (alt_index hp (crpartial prev) (crbucket prev))) in *.
    destruct (bget (cur t1) (alt_index hp (crpartial prev) (crbucket prev)) s) as [e|].
    + match goal with |- context [cuckoopath_search_loop c hash false t1 hp ?r rest ?j ?a] =>
        destruct (IH t1 r j a W1) as [W2 S2] end.
      split; [exact W2|]. apply (lstep_trans _ _ _ S1 S2).
    + cbn [fst]. split; assumption.
Qed.

Lemma cuckoopath_search_lstep t hp i1 i2 :
  wf t ->
  wf (fst (cuckoopath_search c hash false t hp i1 i2)) /\
  lstep t (fst (cuckoopath_search c hash false t hp i1 i2)).
Proof.
  intro W. unfold cuckoopath_search, slot_search.
  match goal with |- context [slot_search_loop c hash false t hp ?q ?f] =>
    destruct (slot_search_loop_lstep hp f t q W) as [W1 S1];
    destruct (slot_search_loop c hash false t hp q f) as [t1 [x|]] end; cbn [fst] in W1, S1.
  2:{ cbn [fst]. split; assumption. }
  destruct (decode_slots c (qpathcode x) (S (N.to_nat (qdepth x))) []) as [slots code].
  destruct slots as [|s0 rest]; [cbn [fst]; split; assumption|].
  set (b0 := if code =? 0 then i1 else i2).
  destruct (lock_one_lstep t1 b0 W1) as [W2 [S2 _]].
  set (t2 := lock_one c hash false t1 b0) in *.
  destruct (bget (cur t2) b0 s0) as [e|].
  - match goal with |- context [cuckoopath_search_loop c hash false t2 hp ?r rest ?j ?a] =>
      destruct (cuckoopath_search_loop_lstep hp rest t2 r j a W2) as [W3 S3];
      destruct (cuckoopath_search_loop c hash false t2 hp r rest j a) as [[t3 racc] d] end.
    cbn [fst] in W3, S3 |- *. split; [exact W3|].
    apply (lstep_trans _ _ _ (lstep_trans _ _ _ S1 S2) S3).
  - cbn [fst]. split; [exact W2|apply (lstep_trans _ _ _ S1 S2)].
Qed.

(* ---- I3: the shape of the path does not depend on the table ---- *)

Lemma cps_loop_shape mode hp : forall slots t prev i acc' t' racc d,
  cuckoopath_search_loop c hash mode t hp prev slots i (prev :: acc') = (t', racc, d) ->
  i = N.of_nat (S (length acc')) ->
  crpartial prev = partial_key (crhash prev) ->
  path_wf hp (rev (prev :: acc')) ->
  Forall (fun s => s < spb c) slots ->
  Forall (slot_ok c) (prev :: acc') ->
  (exists more, racc = more ++ prev :: acc') /\
  (N.to_nat d < length racc)%nat /\ (length racc <= S (length acc') + length slots)%nat /\
  path_wf hp (rev racc) /\ Forall (slot_ok c) racc.
Proof.
  induction slots as [|s rest IH]; intros t prev i acc' t' racc d E Hi Hp Hw Hs Hf.
  - cbn [cuckoopath_search_loop] in E. injection E as <- <- <-.
    split; [exists []; reflexivity|].
    cbn [length]. split; [lia|]. split; [lia|]. split; [exact Hw|exact Hf].
  - cbn [cuckoopath_search_loop] in E.
    inversion Hs as [|s0 r0 Hs1 Hs2]; subst s0 r0.
    set (b := alt_index hp (crpartial prev) (crbucket prev)) in *.
    set (t1 := lock_one c hash mode t b) in *.
    destruct (bget (cur t1) b s) as [e|].
    + set (r := {| crbucket := b; crslot := s; crhash := hash (ekey e);
                   crpartial := partial_key (hash (ekey e)) |}) in *.
      assert (Hl : link hp prev r) by (split; [reflexivity|exact Hp]).
      destruct (IH t1 r (i + 1) (prev :: acc') t' racc d E) as [[more G2] [G3 [G4 [G5 G6]]]].
      * cbn [length]. lia.
      * reflexivity.
      * apply path_wf_rev_cons; assumption.
      * exact Hs2.
      * constructor; [exact Hs1|exact Hf].
      * split.
        { exists (more ++ [r]). rewrite <- app_assoc. exact G2. }
        split; [exact G3|]. split; [cbn [length] in G4 |- *; lia|]. split; assumption.
    + injection E as <- <- <-.
      set (r := {| crbucket := b; crslot := s; crhash := 0; crpartial := 0 |}).
      assert (Hl : link hp prev r) by (split; [reflexivity|exact Hp]).
      split; [exists [r]; reflexivity|].
      cbn [length]. split; [lia|]. split; [lia|]. split.
      * apply path_wf_rev_cons; assumption.
      * constructor; [exact Hs1|exact Hf].
Qed.

Lemma cuckoopath_search_shape_gen mode t hp i1 i2 t' path depth :
  cuckoopath_search c hash mode t hp i1 i2 = (t', Some (path, depth)) ->
  (N.to_nat depth < length path)%nat /\
  Forall (slot_ok c) path /\
  path_wf hp path /\
  (crbucket (nth_rec path 0) = i1 \/ crbucket (nth_rec path 0) = i2) /\
  depth <= 4.
Proof.
  intro E. unfold cuckoopath_search in E.
  destruct (slot_search c hash mode t hp i1 i2) as [t1 r] eqn:Es.
  destruct r as [x|]; [|discriminate].
  assert (Hd := slot_search_depth c hash mode t hp i1 i2 t1 x Es).
  destruct (decode_slots_spec c Hc (S (N.to_nat (qdepth x))) (qpathcode x) [] (Forall_nil _)) as [Dl Df].
  destruct (decode_slots c (qpathcode x) (S (N.to_nat (qdepth x))) []) as [slots code].
  cbn [fst] in Dl, Df. destruct slots as [|s0 rest]; [discriminate|].
  inversion Df as [|s0' rest' Hs0 Hrest]; subst s0' rest'.
  cbn [length] in Dl.
  set (b0 := if code =? 0 then i1 else i2) in *.
  assert (Hb0 : b0 = i1 \/ b0 = i2) by (unfold b0; destruct (code =? 0); [left|right]; reflexivity).
  set (t2 := lock_one c hash mode t1 b0) in *.
  destruct (bget (cur t2) b0 s0) as [e|].
  - set (r0 := {| crbucket := b0; crslot := s0; crhash := hash (ekey e);
                  crpartial := partial_key (hash (ekey e)) |}) in *.
    destruct (cuckoopath_search_loop c hash mode t2 hp r0 rest 1 [r0]) as [[t3 racc] d] eqn:El.
    injection E as <- <- <-.
    destruct (cps_loop_shape mode hp rest t2 r0 1 [] t3 racc d El)
      as [[more G2] [G3 [G4 [G5 G6]]]].
    + reflexivity.
    + reflexivity.
    + cbn [rev app path_wf]. split; exact I.
    + exact Hrest.
    + constructor; [exact Hs0|constructor].
    + rewrite rev_length. split; [exact G3|].
      split; [apply Forall_rev; exact G6|]. split; [exact G5|]. split.
      * unfold nth_rec. change (N.to_nat 0) with 0%nat. rewrite G2.
        rewrite rev_app_distr. cbn [rev app nth]. exact Hb0.
      * cbn [length] in G4. lia.
  - injection E as <- <- <-. cbn [length].
    split; [change (N.to_nat 0) with 0%nat; lia|].
    split; [constructor; [exact Hs0|constructor]|].
    split; [cbn [path_wf]; split; exact I|].
    split; [exact Hb0|lia].
Qed.

(* ---- I4: one displacement hop ---- *)

Lemma linv_move P o n fb fs tb ts e :
  linv P o n -> bget n fb fs = Some e -> bget n tb ts = None ->
  tb < 2 ^ bhp n -> ts < spb c -> cand (bhp n) (ekey e) tb -> ~ P (tb mod 2 ^ bhp o) ->
  let n' := bset (bset n tb ts (Some {| ekey := ekey e; eval := eval e; epart := epart e; ehusk := false |}))
                 fb fs None in
  linv P o n' /\ forall k v, lh P o n' k v <-> lh P o n k v.
Proof.
  intros [L1 L2 L3 L4 L5 L6 L7 L8 L9] He Hn Hb Hs Hcand HnP n'. subst n'.
  destruct (arr_ok_move c hash n fb fs tb ts e L1 He Hn Hb Hs Hcand) as [Ha Hh]. cbv zeta in Ha, Hh.
  set (x := {| ekey := ekey e; eval := eval e; epart := epart e; ehusk := false |}) in *.
  assert (Hsub : forall b' s' e', bget (bset (bset n tb ts (Some x)) fb fs None) b' s' = Some e' ->
            (b' = tb /\ s' = ts /\ e' = x) \/ bget n b' s' = Some e').
  { intros b' s' e' E.
    destruct (bget_bset_cases (bset n tb ts (Some x)) fb fs None b' s') as [[-> [-> Hx]]|[Hne Hx]];
      rewrite Hx in E; [discriminate|].
    destruct (bget_bset_cases n tb ts (Some x) b' s') as [[-> [-> Hy]]|[Hne' Hy]]; rewrite Hy in E.
    - left. injection E as <-. repeat split.
    - right. exact E. }
  split.
  - constructor; try assumption.
    + intros b' s' e' E. destruct (Hsub b' s' e' E) as [[-> [-> _]]|E0]; [exact HnP|].
      apply (L4 b' s' e' E0).
    + intros b0 s0 e0 b' s' e' Hb0 E0 E. destruct (Hsub b' s' e' E) as [[-> [-> ->]]|E1].
      * cbn [x ekey]. apply (L9 b0 s0 e0 fb fs e Hb0 E0 He).
      * apply (L9 b0 s0 e0 b' s' e' Hb0 E0 E1).
  - intros k v. unfold lh. rewrite Hh. reflexivity.
Qed.

Lemma not_pend_of_mig s t b :
  wfg s t -> mig (lock_at t (b mod kmax c)) = true -> ~ pendP t (b mod 2 ^ bhp (old t)).
Proof.
  intros W Hm. destruct (wf_lazy _ _ W) as [Hall|X]; [apply pendP_none; exact Hall|].
  intro F. apply pendb_true in F. destruct F as [_ F].
  rewrite (stripe_mod_old _ b (lx_K _ _ X)) in F. congruence.
Qed.

Lemma hop_wf t from to e :
  wf t ->
  crbucket to = alt_index (bhp (cur t)) (crpartial from) (crbucket from) ->
  crpartial from = partial_key (crhash from) ->
  crslot to < spb c ->
  mig (lock_at t (crbucket to mod kmax c)) = true ->
  bget (cur t) (crbucket to) (crslot to) = None ->
  bget (cur t) (crbucket from) (crslot from) = Some e ->
  hash (ekey e) = crhash from ->
  let t' := set_cur t (bset (bset (cur t) (crbucket to) (crslot to)
                           (Some {| ekey := ekey e; eval := eval e; epart := epart e; ehusk := false |}))
                     (crbucket from) (crslot from) None) in
  wf t' /\ lmv t t'.
Proof.
  intros W Hto Hp Hs Hm Hn He Hh t'. subst t'.
  assert (Ha := li_arr _ _ _ (wf_inv _ _ W)).
  assert (Hhp : bhp (cur t) < 64) by (assert (X := ao_hp _ _ _ Ha); lia).
  rewrite Hp, <- Hh in Hto.
  assert (Hcand : cand (bhp (cur t)) (ekey e) (crbucket to)).
  { destruct (ao_place _ _ _ Ha _ _ _ He) as [Hf|Hf]; unfold InvDefs.cand.
    - right. rewrite Hto, Hf. reflexivity.
    - left. rewrite Hto, Hf. unfold i2_of. apply alt_involutive; [exact Hhp|].
      unfold i1_of. apply index_lt. exact Hhp. }
  assert (Hb : crbucket to < 2 ^ bhp (cur t)).
  { rewrite Hto. apply alt_lt. exact Hhp. }
  destruct (linv_move _ _ _ _ _ _ _ e (wf_inv _ _ W) He Hn Hb Hs Hcand (not_pend_of_mig true t _ W Hm))
    as [I Hl]. cbv zeta in I, Hl.
  split; [apply wfg_set_cur; [exact W|exact I|reflexivity]|].
  split; [exact Hl|]. split.
  { intros [g [G E]]. exists g. split; [exact G|].
    change (cur_locks (set_cur t _)) with (cur_locks t). cbn [cur set_cur].
    rewrite (count_arr_move_ok c hash (cur t) _ _ e _ _ _ Ha Hb Hs He Hn). exact E. }
  split; [auto|]. repeat split; reflexivity.
Qed.

(* ---- I5: executing a path ---- *)

Lemma cpm_loop_wf path i1 i2 : forall depth t,
  wf t -> path_wf (bhp (cur t)) path -> (depth < length path)%nat -> Forall (slot_ok c) path ->
  wf (fst (cuckoopath_move_loop c hash false t path i1 i2 depth)) /\
  lmv t (fst (cuckoopath_move_loop c hash false t path i1 i2 depth)) /\
  (snd (cuckoopath_move_loop c hash false t path i1 i2 depth) = true -> (0 < depth)%nat ->
   bget (cur (fst (cuckoopath_move_loop c hash false t path i1 i2 depth)))
        (crbucket (nth_rec path 0)) (crslot (nth_rec path 0)) = None).
Proof.
  induction depth as [|d' IH]; intros t W Hw Hl Hf.
  - cbn [cuckoopath_move_loop fst snd]. split; [exact W|]. split; [apply lmv_refl|]. intros _ F. lia.
  - cbn [cuckoopath_move_loop].
    destruct (path_wf_nth_rec _ path d' Hw Hl) as [Hto Hp].
    assert (Hs := nth_rec_slot c path (S d') Hf Hl).
    set (from := nth_rec path (N.of_nat d')) in *.
    set (to := nth_rec path (N.of_nat (S d'))) in *.
    set (t1 := if Nat.eqb (S d') 1 then lock_three c hash false t i1 i2 (crbucket to)
               else lock_two c hash false t (crbucket from) (crbucket to)).
    assert (H1 : wf t1 /\ lstep t t1 /\ mig (lock_at t1 (crbucket to mod kmax c)) = true).
    { subst t1. destruct (Nat.eqb (S d') 1).
      - destruct (lock_three_lstep t i1 i2 (crbucket to) W) as [A [B [_ [_ M]]]].
        unfold lockind in M. rewrite lockind_spec in M by exact Hc. split; [exact A|split; [exact B|exact M]].
      - destruct (lock_two_lstep t (crbucket from) (crbucket to) W) as [A [B [_ M]]].
        unfold lockind in M. rewrite lockind_spec in M by exact Hc. split; [exact A|split; [exact B|exact M]]. }
    destruct H1 as [W1 [S1 M1]]. clearbody t1.
    assert (Hbc : bhp (cur t1) = bhp (cur t)) by apply S1.
    destruct (bget (cur t1) (crbucket to) (crslot to)) as [y|] eqn:Hn.
    { cbn [fst snd]. split; [exact W1|]. split; [apply lstep_lmv; exact S1|]. discriminate. }
    destruct (bget (cur t1) (crbucket from) (crslot from)) as [e|] eqn:He.
    2:{ cbn [fst snd]. split; [exact W1|]. split; [apply lstep_lmv; exact S1|]. discriminate. }
    destruct (hash (ekey e) =? crhash from) eqn:Hh; cbn [negb].
    2:{ cbn [fst snd]. split; [exact W1|]. split; [apply lstep_lmv; exact S1|]. discriminate. }
    apply N.eqb_eq in Hh. rewrite <- Hbc in Hto.
    destruct (hop_wf t1 from to e W1 Hto Hp Hs M1 Hn He Hh) as [W2 V2]. cbv zeta in W2, V2.
    set (t2 := set_cur t1 (bset (bset (cur t1) (crbucket to) (crslot to)
                 (Some {| ekey := ekey e; eval := eval e; epart := epart e; ehusk := false |}))
                 (crbucket from) (crslot from) None)) in *.
    assert (Hw2 : path_wf (bhp (cur t2)) path) by (change (bhp (cur t2)) with (bhp (cur t1)); rewrite Hbc; exact Hw).
    destruct (IH t2 W2 Hw2 ltac:(lia) Hf) as [W3 [V3 Hhead]].
    split; [exact W3|]. split.
    { apply (lmv_trans _ t1); [apply lstep_lmv; exact S1|]. apply (lmv_trans _ t2); assumption. }
    intros Hok _. destruct d' as [|d''].
    + cbn [cuckoopath_move_loop fst]. subst from. change (N.of_nat 0) with 0.
      cbn [t2 cur set_cur]. apply bget_bset_eq.
    + apply Hhead; [exact Hok|lia].
Qed.

Lemma cuckoopath_move_wf t path depth i1 i2 :
  wf t -> path_wf (bhp (cur t)) path -> (N.to_nat depth < length path)%nat -> Forall (slot_ok c) path ->
  wf (fst (cuckoopath_move c hash false t path depth i1 i2)) /\
  lmv t (fst (cuckoopath_move c hash false t path depth i1 i2)) /\
  (snd (cuckoopath_move c hash false t path depth i1 i2) = true ->
   bget (cur (fst (cuckoopath_move c hash false t path depth i1 i2)))
        (crbucket (nth_rec path 0)) (crslot (nth_rec path 0)) = None).
Proof.
  intros W Hw Hl Hf. unfold cuckoopath_move. destruct (depth =? 0) eqn:Ed.
  - destruct (lock_two_lstep t i1 i2 W) as [W1 [S1 _]]. cbn [fst snd].
    split; [exact W1|]. split; [apply lstep_lmv; exact S1|].
    intro H. apply negb_true_iff in H. apply occupied_false. exact H.
  - apply N.eqb_neq in Ed.
    destruct (cpm_loop_wf path i1 i2 (N.to_nat depth) t W Hw Hl Hf) as [W1 [V1 H1]].
    split; [exact W1|]. split; [exact V1|]. intro Hok. apply H1; [exact Hok|lia].
Qed.

(* ---- I6: run_cuckoo ---- *)

Lemma run_cuckoo_loop_wf i1 i2 : forall fuel t,
  wf t ->
  exists t' r, run_cuckoo_loop c hash false t (bhp (cur t)) i1 i2 fuel = (t', r) /\
    wf t' /\ lmv t t' /\
    (forall b s, r = RC_ok b s ->
       bget (cur t') b s = None /\ (b = i1 \/ b = i2) /\ s < spb c).
Proof.
  induction fuel as [|f IH]; intros t W.
  - cbn [run_cuckoo_loop]. exists t, RC_fuel. split; [reflexivity|]. split; [exact W|].
    split; [apply lmv_refl|]. intros b s E. discriminate.
  - cbn [run_cuckoo_loop].
    destruct (cuckoopath_search_lstep t (bhp (cur t)) i1 i2 W) as [W1 S1].
    destruct (cuckoopath_search c hash false t (bhp (cur t)) i1 i2) as [t1 [[path depth]|]] eqn:Es;
      cbn [fst] in W1, S1.
    + destruct (cuckoopath_search_shape_gen false t _ i1 i2 t1 path depth Es) as [Hl [Hf [Hw [Hhead _]]]].
      assert (Hbc : bhp (cur t1) = bhp (cur t)) by apply S1.
      rewrite <- Hbc in Hw.
      destruct (cuckoopath_move_wf t1 path depth i1 i2 W1 Hw Hl Hf) as [W2 [V2 Hok]].
      destruct (cuckoopath_move c hash false t1 path depth i1 i2) as [t2 ok]. cbn [fst snd] in W2, V2, Hok.
      assert (V02 : lmv t t2) by (apply (lmv_trans _ t1); [apply lstep_lmv; exact S1|exact V2]).
      destruct ok.
      * exists t2, (RC_ok (crbucket (nth_rec path 0)) (crslot (nth_rec path 0))).
        split; [reflexivity|]. split; [exact W2|]. split; [exact V02|].
        intros b s E. injection E as <- <-. split; [apply Hok; reflexivity|].
        split; [exact Hhead|]. apply (nth_rec_slot c path 0%nat Hf). lia.
      * destruct (IH t2 W2) as [t' [r [Er [W3 [V3 Hr]]]]].
        assert (Hbc2 : bhp (cur t2) = bhp (cur t)) by apply V02. rewrite Hbc2 in Er.
        exists t', r. split; [exact Er|]. split; [exact W3|]. split; [|exact Hr].
        apply (lmv_trans _ t2); assumption.
    + exists t1, RC_failure. split; [reflexivity|]. split; [exact W1|].
      split; [apply lstep_lmv; exact S1|]. intros b s E. discriminate.
Qed.

Lemma run_cuckoo_wf t i1 i2 :
  wf t ->
  exists t' r, run_cuckoo c hash false t i1 i2 = (t', r) /\ wf t' /\ lmv t t' /\
    (forall b s, r = RC_ok b s ->
       bget (cur t') b s = None /\ (b = i1 \/ b = i2) /\ s < spb c).
Proof. intro W. unfold run_cuckoo, hashpower. apply run_cuckoo_loop_wf. exact W. Qed.

(* ---- I7: cuckoo_insert ---- *)

(* a key whose two candidate stripes are migrated lives in the current array only *)
Lemma key_migrated t k :
  wf t ->
  mig (lock_at t (lockind c (i1_of hash (bhp (cur t)) k))) = true ->
  mig (lock_at t (lockind c (i2_of hash (bhp (cur t)) k))) = true ->
  forall v, lholds t k v <-> holds (cur t) k v.
Proof.
  intros W M1 M2 v. unfold lholds, lh. split; [|intro H; left; exact H].
  intros [H|[b [s [e [Hb [E [Hk Hv]]]]]]]; [exact H|exfalso].
  destruct W as [V1 V2 V3 V4].
  destruct V4 as [Hall|[X1 X2 X3 X4 X5]].
  { apply (pendP_none t Hall b). exact Hb. }
  assert (Hcand := li_old_cand _ _ _ V3 b s e Hb E). rewrite Hk in Hcand.
  assert (Hhp1 : bhp (old t) + 1 < 64).
  { rewrite <- X1. assert (H := ao_hp _ _ _ (li_arr _ _ _ V3)). lia. }
  apply pendb_true in Hb. destruct Hb as [_ Hb].
  unfold lockind in M1, M2. rewrite !lockind_spec in M1, M2 by exact Hc.
  destruct (cand_stripe (bhp (old t)) k b Hhp1 X3 Hcand) as [F|F];
    rewrite F in Hb; rewrite <- X1 in Hb; congruence.
Qed.

Lemma cuckoo_insert_wf t k :
  wf t ->
  let hp := bhp (cur t) in
  let i1 := i1_of hash hp k in
  let i2 := i2_of hash hp k in
  mig (lock_at t (lockind c i1)) = true -> mig (lock_at t (lockind c i2)) = true ->
  exists t' res, cuckoo_insert c hash false t k i1 i2 = (t', res) /\
    wf t' /\ lmv t t' /\
    ((exists v, lholds t k v) ->
       exists pos, res = CI_pos pos /\ pstatus pos = St_duplicated /\
         exists e, bget (cur t') (pindex pos) (pslot pos) = Some e /\ ekey e = k) /\
    ((forall v, ~ lholds t k v) ->
       res = CI_fuel \/
       exists pos, res = CI_pos pos /\
         ((pstatus pos = St_ok /\ bget (cur t') (pindex pos) (pslot pos) = None /\
           (pindex pos = i1 \/ pindex pos = i2) /\ pslot pos < spb c) \/
          pstatus pos = St_table_full)).
Proof.
  intros W hp i1 i2 M1 M2. assert (Ha := li_arr _ _ _ (wf_inv _ _ W)).
  assert (Hkm := key_migrated t k W M1 M2).
  assert (Hin_iff : (exists v, lholds t k v) <-> key_in (cur t) k).
  { rewrite key_in_holds. split; intros [v Hv]; exists v; apply Hkm; exact Hv. }
  assert (Hloc : forall b s e, bget (cur t) b s = Some e -> ekey e = k -> b = i1 \/ b = i2).
  { intros b s e E Hk. assert (Hp := ao_place _ _ _ Ha _ _ _ E). rewrite Hk in Hp. exact Hp. }
  unfold cuckoo_insert, hashed_partial.
  assert (S1 := try_find_insert_arr_ok c hash (cur t) i1 k Ha).
  assert (S2 := try_find_insert_arr_ok c hash (cur t) i2 k Ha).
  revert S1 S2.
  destruct (try_find_insert_bucket c (cur t) i1 (partial_key (hash k)) k 0 (N.to_nat (spb c)) None)
    as [nd1 r1].
  destruct (try_find_insert_bucket c (cur t) i2 (partial_key (hash k)) k 0 (N.to_nat (spb c)) None)
    as [nd2 r2].
  intros S1 S2.
  destruct nd1.
  2:{ destruct S1 as [s [e [-> [Hs [Hg Hk]]]]].
    eexists _, _. split; [reflexivity|]. split; [exact W|]. split; [apply lmv_refl|]. split.
    - intros _. eexists. split; [reflexivity|]. cbn [pstatus pindex pslot].
      split; [reflexivity|]. exists e. split; assumption.
    - intro Hn. exfalso. apply (Hn (eval e)). apply Hkm. exists i1, s, e. repeat split; assumption. }
  destruct nd2.
  2:{ destruct S2 as [s [e [-> [Hs [Hg Hk]]]]].
    eexists _, _. split; [reflexivity|]. split; [exact W|]. split; [apply lmv_refl|]. split.
    - intros _. eexists. split; [reflexivity|]. cbn [pstatus pindex pslot].
      split; [reflexivity|]. exists e. split; assumption.
    - intro Hn. exfalso. apply (Hn (eval e)). apply Hkm. exists i2, s, e. repeat split; assumption. }
  assert (N1 : forall s' e, bget (cur t) i1 s' = Some e -> ekey e <> k)
    by (destruct r1; [apply (proj2 (proj2 S1))|apply (proj2 S1)]).
  assert (N2 : forall s' e, bget (cur t) i2 s' = Some e -> ekey e <> k)
    by (destruct r2; [apply (proj2 (proj2 S2))|apply (proj2 S2)]).
  assert (Hnk : ~ key_in (cur t) k).
  { intros [b [s [e [E Hk]]]]. destruct (Hloc b s e E Hk) as [->| ->].
    - apply (N1 s e E Hk).
    - apply (N2 s e E Hk). }
  assert (Hnl : ~ exists v, lholds t k v) by (rewrite Hin_iff; exact Hnk).
  destruct r1 as [s|].
  { destruct S1 as [Hs [Hg _]].
    eexists _, _. split; [reflexivity|]. split; [exact W|]. split; [apply lmv_refl|].
    split; [intro; contradiction|].
    intros _. right. eexists. split; [reflexivity|]. left. cbn [pstatus pindex pslot].
    split; [reflexivity|]. split; [exact Hg|]. split; [left; reflexivity|exact Hs]. }
  destruct r2 as [s|].
  { destruct S2 as [Hs [Hg _]].
    eexists _, _. split; [reflexivity|]. split; [exact W|]. split; [apply lmv_refl|].
    split; [intro; contradiction|].
    intros _. right. eexists. split; [reflexivity|]. left. cbn [pstatus pindex pslot].
    split; [reflexivity|]. split; [exact Hg|]. split; [right; reflexivity|exact Hs]. }
  destruct (run_cuckoo_wf t i1 i2 W) as [t1 [r [Er [W1 [V1 Hok]]]]]. rewrite Er.
  destruct r as [ib is_| |].
  - destruct (Hok ib is_ eq_refl) as [Hg [Hib His]].
    assert (Hbc : bhp (cur t1) = hp) by apply V1.
    assert (Hkm1 : forall v, lholds t1 k v <-> holds (cur t1) k v).
    { apply key_migrated; [exact W1| |]; rewrite Hbc; apply V1; assumption. }
    assert (Hnk1 : ~ key_in (cur t1) k).
    { rewrite key_in_holds. intros [v Hv]. apply Hnl. exists v. apply V1. apply Hkm1. exact Hv. }
    assert (Hf := cuckoo_find_cases c hash t1 k (li_arr _ _ _ (wf_inv _ _ W1))). cbv zeta in Hf.
    rewrite Hbc in Hf. fold i1 in Hf. fold i2 in Hf.
    destruct Hf as [[_ [_ [_ [e [E Hk]]]]]|[Hf _]].
    + exfalso. apply Hnk1. eexists _, _, e. split; eassumption.
    + rewrite Hf. eexists _, _. split; [reflexivity|]. split; [exact W1|]. split; [exact V1|].
      split; [intro; contradiction|].
      intros _. right. eexists. split; [reflexivity|]. left. cbn [pstatus pindex pslot].
      split; [reflexivity|]. split; [exact Hg|]. split; [exact Hib|exact His].
  - eexists _, _. split; [reflexivity|]. split; [exact W1|]. split; [exact V1|].
    split; [intro; contradiction|].
    intros _. right. eexists. split; [reflexivity|]. right. reflexivity.
  - eexists _, _. split; [reflexivity|]. split; [exact W1|]. split; [exact V1|].
    split; [intro; contradiction|].
    intros _. left. reflexivity.
Qed.

(* inserting after a successful cuckoo_insert *)
Lemma insert_step_wf t k v t1 pos :
  wf t ->
  let hp := bhp (cur t) in
  let i1 := i1_of hash hp k in
  let i2 := i2_of hash hp k in
  mig (lock_at t (lockind c i1)) = true -> mig (lock_at t (lockind c i2)) = true ->
  cuckoo_insert c hash false t k i1 i2 = (t1, CI_pos pos) ->
  pstatus pos = St_ok ->
  (forall v0, ~ lholds t k v0) /\ wf t1 /\ lmv t t1 /\
  let t2 := add_to_bucket c t1 (pindex pos) (pslot pos) (partial_key (hash k)) k v in
  wf t2 /\ bhp (cur t2) = bhp (cur t) /\ (lcounted t -> lcounted t2) /\
  forall k' v', lholds t2 k' v' <-> (k' = k /\ v' = v) \/ (k' <> k /\ lholds t k' v').
Proof.
  intros W hp i1 i2 M1 M2 E Hs.
  destruct (cuckoo_insert_wf t k W M1 M2) as [t' [res [E1 [W1 [V1 [Hin Hout]]]]]].
  fold hp in E1. fold i1 in E1. fold i2 in E1. rewrite E in E1. injection E1 as <- <-.
  assert (Ha := li_arr _ _ _ (wf_inv _ _ W)).
  assert (Hkm := key_migrated t k W M1 M2).
  assert (Hno : forall v0, ~ lholds t k v0).
  { destruct (key_in_dec c hash t k Ha) as [Hk|Hk].
    - exfalso. apply key_in_holds in Hk. destruct Hk as [v0 Hv0].
      destruct Hin as [pos' [Ep [Hd _]]]; [exists v0; apply Hkm; exact Hv0|].
      injection Ep as <-. congruence.
    - intros v0 Hv0. apply Hk. apply key_in_holds. exists v0. apply Hkm. exact Hv0. }
  split; [exact Hno|]. split; [exact W1|]. split; [exact V1|].
  destruct (Hout Hno) as [Ef|[pos' [Ep Hcase]]]; [discriminate|]. injection Ep as <-.
  destruct Hcase as [[_ [Hg [Hidx Hslot]]]|Hf]; [|congruence].
  assert (Hbc : bhp (cur t1) = hp) by apply V1.
  assert (Hcand : cand (bhp (cur t1)) k (pindex pos)) by (rewrite Hbc; exact Hidx).
  assert (Hb : pindex pos < 2 ^ bhp (cur t1)).
  { apply (cand_range c hash t1 k); [apply (li_arr _ _ _ (wf_inv _ _ W1))|exact Hcand]. }
  assert (Hm : mig (lock_at t1 (pindex pos mod kmax c)) = true).
  { rewrite <- (lockind_spec c Hc). apply V1. destruct Hidx as [->| ->]; assumption. }
  assert (Hno1 : forall v0, ~ lholds t1 k v0).
  { intros v0 Hv0. apply (Hno v0). apply V1. exact Hv0. }
  destruct (add_to_bucket_wf true t1 (pindex pos) (pslot pos) k v W1 Hg Hb Hslot Hcand Hm Hno1)
    as [W2 [Hhp2 [C2 Hh2]]].
  cbv zeta in W2, Hhp2, C2, Hh2 |- *.
  split; [exact W2|]. split; [rewrite Hhp2; exact Hbc|]. split; [intro H; apply C2; apply V1; exact H|].
  intros k' v'. rewrite Hh2. rewrite (proj1 V1 k' v'). reflexivity.
Qed.

(* ---- I8: uprase_gen (insert / upsert / uprase_fn) when no expansion is needed ---- *)

Lemma uprase_gen_no_expand_wf t k v g t2 pos :
  wf t ->
  let hp := bhp (cur t) in
  let i1 := i1_of hash hp k in
  let i2 := i2_of hash hp k in
  let t1 := lock_two c hash false t i1 i2 in
  cuckoo_insert c hash false t1 k i1 i2 = (t2, CI_pos pos) ->
  pstatus pos = St_ok \/ pstatus pos = St_duplicated ->
  uprase_gen c hash false t k v g =
    let inserted := match pstatus pos with St_ok => true | _ => false end in
    let t3 := if inserted
              then add_to_bucket c t2 (pindex pos) (pslot pos) (hashed_partial hash k) k v else t2 in
    let cur_v := val_at t3 (pindex pos) (pslot pos) in
    match g cur_v inserted with
    | None => (t3, inr (inserted, [], (pindex pos, pslot pos)))
    | Some (v', er) =>
      let t4 := set_val t3 (pindex pos) (pslot pos) v' in
      let t5 := if er then del_from_bucket c t4 (pindex pos) (pslot pos) else t4 in
      (t5, inr (inserted, [RFn cur_v inserted], (pindex pos, pslot pos)))
    end.
Proof.
  intros W hp i1 i2 t1 E Hs. unfold uprase_gen.
  destruct (snapshot_wf t k W) as [Esnap _]. cbv zeta in Esnap. rewrite Esnap.
  fold hp. fold i1. fold i2. fold t1.
  change insert_loop_fuel with (S 69).
  rewrite (cuckoo_insert_loop_done c hash (cuckoo_fast_double c hash) false t1 k _ _ 69 t2 pos E Hs).
  reflexivity.
Qed.

Lemma uprase_gen_insert_new_wf t k v t2 pos :
  wf t ->
  let hp := bhp (cur t) in
  let i1 := i1_of hash hp k in
  let i2 := i2_of hash hp k in
  let t1 := lock_two c hash false t i1 i2 in
  cuckoo_insert c hash false t1 k i1 i2 = (t2, CI_pos pos) ->
  pstatus pos = St_ok ->
  exists t3,
    uprase_gen c hash false t k v (fun _ _ => None) = (t3, inr (true, [], (pindex pos, pslot pos))) /\
    (forall v0, ~ lholds t k v0) /\ wf t3 /\ bhp (cur t3) = bhp (cur t) /\ (lcounted t -> lcounted t3) /\
    forall k' v', lholds t3 k' v' <-> (k' = k /\ v' = v) \/ (k' <> k /\ lholds t k' v').
Proof.
  intros W hp i1 i2 t1 E Hs.
  rewrite (uprase_gen_no_expand_wf t k v _ t2 pos W E (or_introl Hs)). cbv zeta. rewrite Hs.
  destruct (snapshot_wf t k W) as [_ [W1 [S1 [M1 [M2 _]]]]]. cbv zeta in W1, S1, M1, M2.
  fold hp in W1, S1, M1, M2. fold i1 in W1, S1, M1, M2. fold i2 in W1, S1, M1, M2. fold t1 in W1, S1, M1, M2.
  assert (Hbc : bhp (cur t1) = hp) by apply S1.
  assert (E' : cuckoo_insert c hash false t1 k (i1_of hash (bhp (cur t1)) k) (i2_of hash (bhp (cur t1)) k)
               = (t2, CI_pos pos)) by (rewrite Hbc; exact E).
  assert (M1' : mig (lock_at t1 (lockind c (i1_of hash (bhp (cur t1)) k))) = true) by (rewrite Hbc; exact M1).
  assert (M2' : mig (lock_at t1 (lockind c (i2_of hash (bhp (cur t1)) k))) = true) by (rewrite Hbc; exact M2).
  destruct (insert_step_wf t1 k v t2 pos W1 M1' M2' E' Hs) as [Hno [_ [_ [W3 [Hhp3 [C3 Hh3]]]]]].
  cbv zeta in W3, Hhp3, C3, Hh3.
  eexists. split; [reflexivity|]. unfold hashed_partial.
  split; [intros v0 Hv0; apply (Hno v0); apply S1; exact Hv0|].
  split; [exact W3|]. split; [rewrite Hhp3; exact Hbc|].
  split; [intro H; apply C3; apply S1; exact H|].
  intros k' v'. rewrite Hh3. rewrite (proj1 S1 k' v'). reflexivity.
Qed.

Lemma uprase_gen_insert_dup_wf t k v t2 pos :
  wf t ->
  let hp := bhp (cur t) in
  let i1 := i1_of hash hp k in
  let i2 := i2_of hash hp k in
  let t1 := lock_two c hash false t i1 i2 in
  cuckoo_insert c hash false t1 k i1 i2 = (t2, CI_pos pos) ->
  pstatus pos = St_duplicated ->
  uprase_gen c hash false t k v (fun _ _ => None) = (t2, inr (false, [], (pindex pos, pslot pos))) /\
  (exists v0, lholds t k v0) /\ wf t2 /\ lmv t t2 /\
  exists e, bget (cur t2) (pindex pos) (pslot pos) = Some e /\ ekey e = k.
Proof.
  intros W hp i1 i2 t1 E Hs.
  rewrite (uprase_gen_no_expand_wf t k v _ t2 pos W E (or_intror Hs)). cbv zeta. rewrite Hs.
  split; [reflexivity|].
  destruct (snapshot_wf t k W) as [_ [W1 [S1 [M1 [M2 Hk1]]]]]. cbv zeta in W1, S1, M1, M2, Hk1.
  fold hp in W1, S1, M1, M2, Hk1. fold i1 in W1, S1, M1, M2, Hk1. fold i2 in W1, S1, M1, M2, Hk1.
  fold t1 in W1, S1, M1, M2, Hk1.
  assert (Hbc : bhp (cur t1) = hp) by apply S1.
  assert (M1' : mig (lock_at t1 (lockind c (i1_of hash (bhp (cur t1)) k))) = true) by (rewrite Hbc; exact M1).
  assert (M2' : mig (lock_at t1 (lockind c (i2_of hash (bhp (cur t1)) k))) = true) by (rewrite Hbc; exact M2).
  destruct (cuckoo_insert_wf t1 k W1 M1' M2') as [t' [res [E1 [W2 [V2 [Hin Hout]]]]]].
  rewrite Hbc in E1. fold i1 in E1. fold i2 in E1. rewrite E in E1. injection E1 as <- <-.
  assert (Hpres : exists v0, lholds t1 k v0).
  { destruct (key_in_dec c hash t1 k (li_arr _ _ _ (wf_inv _ _ W1))) as [Hk|Hk].
    - apply key_in_holds in Hk. destruct Hk as [v0 Hv0]. exists v0. apply Hk1. exact Hv0.
    - exfalso. destruct Hout as [Ef|[pos' [Ep Hcase]]].
      + intros v0 Hv0. apply Hk. apply key_in_holds. exists v0. apply Hk1. exact Hv0.
      + discriminate.
      + injection Ep as <-. destruct Hcase as [[Hok _]|Hf]; congruence. }
  split; [destruct Hpres as [v0 Hv0]; exists v0; apply S1; exact Hv0|].
  split; [exact W2|]. split; [apply (lmv_trans _ t1); [apply lstep_lmv; exact S1|exact V2]|].
  destruct (Hin Hpres) as [pos' [Ep [_ He]]]. injection Ep as <-. exact He.
Qed.

End Lazy.
