(* C08 - storage lifetime (model level): the superseded bucket array is released in the very step
   that migrates its last stripe and not earlier; no moved-from element (husk) is ever live; every
   other release point frees the old array at once; destruction removes the table.
   The exactly-once construction/destruction clause is observed on the real library with
   instrumented element types and a counting allocator (T1/T3: object registry, allocation balance).
   Statements only; closed by [exact] of lemmas of Life.v. *)
From Coq Require Import NArith ZArith List.
From LC Require Import gen.HashGen Core Api InvDefs ArrLemmas Stats Resize Lazy Special Stream Life.
Import ListNotations.
Local Open Scope N_scope.

Theorem C08_old_array_released_with_last_stripe : forall c hash, cfg_ok c -> forall t l,
  wf c hash t -> mig (lock_at t l) = false -> unmig_count (cur_locks t) = 1%nat ->
  let t' := rehash_lock c hash true t l in
  bdead (old t') = true /\ nrem t' = 0 /\ all_migrated t' /\ (forall b s, bget (old t') b s = None) /\
  wf c hash t' /\ settled c hash t'.
Proof. exact last_stripe_releases. Qed.
Print Assumptions C08_old_array_released_with_last_stripe.

Theorem C08_old_array_kept_while_stripes_pending : forall c hash, cfg_ok c -> forall t l,
  wf c hash t -> mig (lock_at t l) = false -> (1 < unmig_count (cur_locks t))%nat ->
  let t' := rehash_lock c hash true t l in
  bdead (old t') = false /\ S (unmig_count (cur_locks t')) = unmig_count (cur_locks t) /\
  nrem t' = N.of_nat (unmig_count (cur_locks t')) /\ nrem t' <> 0 /\ ~ all_migrated t' /\ wf c hash t'.
Proof. exact earlier_stripe_keeps. Qed.
Print Assumptions C08_old_array_kept_while_stripes_pending.

Theorem C08_no_moved_from_element_is_live : forall c hash s t b s0 e,
  wfg c hash s t -> bget (cur t) b s0 = Some e -> ehusk e = false.
Proof. exact cur_never_husk. Qed.
Print Assumptions C08_no_moved_from_element_is_live.

Theorem C08_every_abstract_pair_is_a_live_element : forall c hash s t k v,
  wfg c hash s t -> old_live c t -> lholds c t k v ->
  exists e, ekey e = k /\ eval e = v /\ ehusk e = false /\
    ((exists b s0, bget (cur t) b s0 = Some e) \/ (exists b s0, pendb c t b = true /\ bget (old t) b s0 = Some e)).
Proof. exact lholds_live. Qed.
Print Assumptions C08_every_abstract_pair_is_a_live_element.

Theorem C08_immediate_doubling_frees_old : forall c hash mode t, cfg_ok c -> settled c hash t -> bhp (cur t) + 1 < 62 ->
  (hashsize (bhp (cur t)) < kmax c \/ mode = true) ->
  let t' := fast_double_body c hash mode t (bhp (cur t) + 1) in bdead (old t') = true /\ nrem t' = 0.
Proof. exact fast_double_body_immediate_old_dead. Qed.
Print Assumptions C08_immediate_doubling_frees_old.

Theorem C08_lock_table_frees_old : forall c hash t,
  bdead (old (rehash_with_workers c hash t)) = true /\ nrem (rehash_with_workers c hash t) = 0.
Proof. exact rehash_with_workers_frees. Qed.
Print Assumptions C08_lock_table_frees_old.

Theorem C08_clear_frees_everything : forall t,
  bdead (old (cuckoo_clear t)) = true /\ nrem (cuckoo_clear t) = 0 /\ (forall b s, bget (cur (cuckoo_clear t)) b s = None).
Proof. exact cuckoo_clear_frees. Qed.
Print Assumptions C08_clear_frees_everything.

Theorem C08_destroy_removes_table : forall c hash fapply w a s, get_tab w a = Some s -> active s = false ->
  let w' := fst (step_some c hash fapply w a s ODestroy) in
  snd (step_some c hash fapply w a s ODestroy) = [RNone] /\ get_tab w' a = None /\ (forall x, x <> a -> get_tab w' x = get_tab w x).
Proof. exact destroy_returns_all. Qed.
Print Assumptions C08_destroy_removes_table.
