(* C08 - storage lifetime (model level): the superseded bucket array is released in the very step
   that migrates its last stripe and not earlier; no moved-from element (husk) is ever live; every
   other release point frees the old array at once; destruction removes the table.
   The exactly-once construction/destruction clause is observed on the real library with
   instrumented element types and a counting allocator (T1/T3: object registry, allocation balance).
   Statements only; closed by [exact] of lemmas of Life.v. *)
From Coq Require Import NArith ZArith List.
From LC Require Import gen.HashGen Core Api InvDefs ArrLemmas Stats Resize Lazy Special Stream Life.
Import ListNotations.
Local Open Scope N_scope.

Theorem C08_old_array_released_with_last_stripe : forall c hash, cfg_ok c -> forall t l,
  wf c hash t -> mig (lock_at t l) = false -> unmig_count (cur_locks t) = 1%nat ->
  let t' := rehash_lock c hash true t l in
  bdead (old t') = true /\ nrem t' = 0 /\ all_migrated t' /\ (forall b s, bget (old t') b s = None) /\
  wf c hash t' /\ settled c hash t'.
Proof. exact last_stripe_releases. Qed.
Print Assumptions C08_old_array_released_with_last_stripe.

Theorem C08_old_array_kept_while_stripes_pending : forall c hash, cfg_ok c -> forall t l,
  wf c hash t -> mig (lock_at t l) = false -> (1 < unmig_count (cur_locks t))%nat ->
  let t' := rehash_lock c hash true t l in
  bdead (old t') = false /\ S (unmig_count (cur_locks t')) = unmig_count (cur_locks t) /\
  nrem t' = N.of_nat (unmig_count (cur_locks t')) /\ nrem t' <> 0 /\ ~ all_migrated t' /\ wf c hash t'.
Proof. exact earlier_stripe_keeps. Qed.
Print Assumptions C08_old_array_kept_while_stripes_pending.

Theorem C08_no_moved_from_element_is_live : forall c hash s t b s0 e,
  wfg c hash s t -> bget (cur t) b s0 = Some e -> ehusk e = false.
Proof. exact cur_never_husk. Qed.
Print Assumptions C08_no_moved_from_element_is_live.

Theorem C08_every_abstract_pair_is_a_live_element : forall c hash s t k v,
  wfg c hash s t -> old_live c t -> lholds c t k v ->
  exists e, ekey e = k /\ eval e = v /\ ehusk e = false /\
    ((exists b s0, bget (cur t) b s0 = Some e) \/ (exists b s0, pendb c t b = true /\ bget (old t) b s0 = Some e)).
Proof. exact lholds_live. Qed.
Print Assumptions C08_every_abstract_pair_is_a_live_element.

Theorem C08_immediate_doubling_frees_old : forall c hash mode t, cfg_ok c -> settled c hash t -> bhp (cur t) + 1 < 62 ->
  (hashsize (bhp (cur t)) < kmax c \/ mode = true) ->
  let t' := fast_double_body c hash mode t (bhp (cur t) + 1) in bdead (old t') = true /\ nrem t' = 0.
Proof. exact fast_double_body_immediate_old_dead. Qed.
Print Assumptions C08_immediate_doubling_frees_old.

Theorem C08_lock_table_frees_old : forall c hash t,
  bdead (old (rehash_with_workers c hash t)) = true /\ nrem (rehash_with_workers c hash t) = 0.
Proof. exact rehash_with_workers_frees. Qed.
Print Assumptions C08_lock_table_frees_old.

Theorem C08_clear_frees_everything : forall t,
  bdead (old (cuckoo_clear t)) = true /\ nrem (cuckoo_clear t) = 0 /\ (forall b s, bget (cur (cuckoo_clear t)) b s = None).
Proof. exact cuckoo_clear_frees. Qed.
Print Assumptions C08_clear_frees_everything.

Theorem C08_destroy_removes_table : forall c hash fapply w a s, get_tab w a = Some s -> active s = false ->
  let w' := fst (step_some c hash fapply w a s ODestroy) in
  snd (step_some c hash fapply w a s ODestroy) = [RNone] /\ get_tab w' a = None /\ (forall x, x <> a -> get_tab w' x = get_tab w x).
Proof. exact destroy_returns_all. Qed.
Print Assumptions C08_destroy_removes_table.

(* ---- exactly once, at the level of the model's slots: an insertion creates exactly one live element, an erasure removes exactly one, a displacement or a stripe migration relocates elements without changing how many are live (the object registry of the harness observes the constructor / destructor calls themselves) ---- *)
From LC Require Import InsertLemmas.
Theorem C08_insertion_creates_exactly_one_element :
  forall (c : config) (hash : N -> N) (t : table) (b s k : N) (v : Z),
  settled c hash t ->
  bget (cur t) b s = None ->
  b < 2 ^ bhp (cur t) ->
  s < spb c ->
  cand hash (bhp (cur t)) k b ->
  ~ key_in (cur t) k ->
  let t' := add_to_bucket c t b s (partial_key (hash k)) k v in
  settled c hash t' /\
  bhp (cur t') = bhp (cur t) /\
  (forall (k' : N) (v' : Z), holds (cur t') k' v' <-> k' = k /\ v' = v \/ k' <> k /\ holds (cur t) k' v').
Proof. exact add_to_bucket_settled. Qed.
Print Assumptions C08_insertion_creates_exactly_one_element.

Theorem C08_erasure_removes_exactly_one_element :
  forall (c : config) (hash : N -> N) (t : table) (b s : N) (e : entry),
  settled c hash t ->
  bget (cur t) b s = Some e ->
  let t' := del_from_bucket c t b s in
  settled c hash t' /\
  bhp (cur t') = bhp (cur t) /\
  (forall (k' : N) (v' : Z), holds (cur t') k' v' <-> holds (cur t) k' v' /\ k' <> ekey e).
Proof. exact del_from_bucket_settled. Qed.
Print Assumptions C08_erasure_removes_exactly_one_element.

Theorem C08_displacement_relocates_without_creating_or_losing :
  forall (c : config) (hash : N -> N) (mode : bool) (t : table) (path : list cuckoo_record)
  (depth i1 i2 : N),
  settled c hash t ->
  path_wf (bhp (cur t)) path ->
  (N.to_nat depth < length path)%nat ->
  Forall (fun r : cuckoo_record => crslot r < spb c) path ->
  exists (t' : table) (ok : bool),
  cuckoopath_move c hash mode t path depth i1 i2 = (t', ok) /\
  settled c hash t' /\
  bhp (cur t') = bhp (cur t) /\
  locks t' = locks t /\
  (forall (k : N) (v : Z), holds (cur t') k v <-> holds (cur t) k v) /\
  (ok = true -> bget (cur t') (crbucket (nth_rec path 0)) (crslot (nth_rec path 0)) = None).
Proof. exact cuckoopath_move_settled. Qed.
Print Assumptions C08_displacement_relocates_without_creating_or_losing.

Theorem C08_displacement_keeps_the_number_of_live_elements :
  forall (c : config) (a : barray) (b1 s1 : N) (e : entry) (b2 s2 : N) (e' : entry),
  b1 < 2 ^ bhp a ->
  s1 < spb c ->
  b2 < 2 ^ bhp a ->
  s2 < spb c ->
  bget a b1 s1 = Some e ->
  bget a b2 s2 = None -> count_arr c (bset (bset a b2 s2 (Some e')) b1 s1 None) = count_arr c a.
Proof. exact count_arr_move. Qed.
Print Assumptions C08_displacement_keeps_the_number_of_live_elements.

Theorem C08_stripe_migration_keeps_elements_and_counts :
  forall (c : config) (hash : N -> N),
  cfg_ok c ->
  forall (s : bool) (t : table) (l : N),
  wfg c hash s t ->
  let t' := rehash_lock c hash s t l in
  wfg c hash s t' /\
  (forall (k : N) (v : Z), lholds c t' k v <-> lholds c t k v) /\
  (lcounted c t -> lcounted c t') /\
  mig (lock_at t' l) = true /\
  (forall l' : N, l' <> l -> lock_at t' l' = lock_at t l') /\
  (forall l' : N, mig (lock_at t l') = true -> mig (lock_at t' l') = true) /\
  bhp (cur t') = bhp (cur t) /\
  bhp (old t') = bhp (old t) /\
  length (cur_locks t') = length (cur_locks t) /\
  rc t' = rc t /\
  mlfn t' = mlfn t /\
  mlfd t' = mlfd t /\
  mhp t' = mhp t /\
  workers t' = workers t /\
  (forall b s0 : N, mig (lock_at t (b mod kmax c)) = true -> bget (cur t') b s0 = bget (cur t) b s0).
Proof. exact rehash_lock_wf. Qed.
Print Assumptions C08_stripe_migration_keeps_elements_and_counts.
