(* AcceptModel.v: the OBSERVATION HYPOTHESES of SpecSound.model_accepted / model_accepted_insert
   discharged from the model, so that "the sequential model's own outputs are accepted by the
   executable acceptor Spec.judge_op" has hypotheses about the configuration, the initial table
   and the script only.

   SpecSound left, for the insert family (OInsert, OIoa, OUpsert, OUprase) and ORehash / OReserve:
     (h1) grew_below_minimum spb_ pre post = false  (an automatic doubling only at load factor >= minimum)
     (h2) r = [RExn ELoadFactorTooLow] -> lf_below spb_ pre post = true   (exception strictly below)
     (h3) no_fuel r          (h4) mlfd (tb sl) <> 0
     (h5) rehash / reserve: a successful call leaves at least the requested hashpower / capacity.
   Here, with pre := obs_of c (tb sl) _ and post := obs_of c t' _ (the model's own statistics):

   1. arithmetic bridge: capacity() does not wrap for hashpower < 60 and SLOT_PER_BUCKET <= 8
      ([capacity_nowrap]; it does at 2^62 * 4, [capacity_wraps]); [lf_below] / [grew_below_minimum]
      on [obs_of] against [Core.lf_lt_mlf] ([grew_of_dbl], [lf_below_of_lf], [lf_below_iff_lf]).
   2. size() is a function of the abstract contents ([tsize_contents]): two [lgood] tables with the
      same [lholds] report the same [tsize] (through rehash_with_workers and the counting
      invariant); hence [tsize] is unchanged by a failed insertion, by lazy migration and by
      doublings ([levolves_tsize]).
   3. the insert loop from ANY well-formed table ([lgood]: deferred migration possibly pending, no
      [immediate] regime needed): it never reports EOutOfFuel (NoFuel's deferred-regime N2 +
      the fuel covering the distance to hashpower 60) and every doubling it performs was permitted
      at load factor >= minimum, with the elements present before the call ([dbl_ok],
      [l_insert_loop_obs]); lifted to uprase_gen ([uprase_gen_obs]).            => (h1), (h3)
      (h2) is Refine.exn_ok's [lf_lt_mlf c t' = true] + [tsize_contents] + [lf_below_of_lf].
      (h4) stays an explicit invariant hypothesis [mlfd (tb sl) <> 0]; it is re-established by
      every step ([mlfd_lim_same]), holds of a fresh table ([mlfd_new_table]) and is kept by the
      validated setter ([mlfd_set_mlf_op]).
   4'. the same chain with a SHARP escape clause [big_esc] in place of LazyRefine's [lesc]
      (FINDING 2 below: [lesc] holds of a fresh empty table).
   6. [model_insert_accepted] / [model_insert_accepted_sharp]: the insert family, no observation
      hypothesis left.
   7. [model_rehash_accepted], [model_reserve_accepted]: (h3) from NoFuel through
      [cuckoo_expand_simple_lgood] (pending migration is finished first), (h5) from
      [cuckoo_rehash_lgood] and [reserve_calc_fits]; a request that wraps the 64-bit bucket computation
      is covered by the wrap disjunct Spec.v's [big_enough] now has (FORMER FINDING 1: such a
      request, answered "nothing to do" by the model, used to be blamed; now accepted,
      [reserve_wrap_now_accepted]).  [reserve_fits] is kept in the packaged statements for
      compatibility; [model_reserve_accepted] no longer needs it.
   8. [model_outputs_accepted] (escape [lesc]), [model_outputs_accepted_sharp] (escape [big_esc]),
      [model_outputs_accepted_small] (no escape: maximum hashpower <= 59, or fewer elements than
      the minimum load factor at 2^59 buckets), and [script_accepted_from_initial]: a whole script
      of normal-mode operations, hypotheses about the initial table only.
   9. non-vacuity instances and the two findings.

   Nothing turned out false of the model: it never doubles below the minimum and never raises
   load_factor_too_low at equality ([lf_below_iff_lf]: on the model's statistics the acceptor's
   strict test IS the model's test, for hashpower < 60). *)
From Coq Require Import NArith ZArith List Bool Arith Lia.
From LC Require Import gen.HashGen Bits Core Api InvDefs Stats InsertLemmas Lazy Refine LazyRefine NoFuel Spec SpecSound.
Import ListNotations.
Local Open Scope N_scope.

(* ================================================================== 1. arithmetic bridge *)

Section Bridge.
Variable c : config.

(* capacity() does not wrap for the hashpowers the invariant allows *)
Lemma pow2_spb_small hp : spb c <= 8 -> hp < 60 -> 2 ^ hp * spb c < 2 ^ 64.
Proof.
  intros Hs Hb. assert (H1 : 2 ^ hp <= 2 ^ 59) by (apply pow2_le_mono; lia).
  apply N.le_lt_trans with (2 ^ 59 * 8); [apply N.mul_le_mono; assumption|reflexivity].
Qed.

Lemma capacity_nowrap t : spb c <= 8 -> bhp (cur t) < 60 -> capacity c t = 2 ^ bhp (cur t) * spb c.
Proof.
  intros Hs Hb. unfold capacity, bucket_count, hashpower. rewrite hashsize_spec by lia.
  unfold wrap64. apply wrap_small. apply pow2_spb_small; assumption.
Qed.

(* ... and in general it is at most the unwrapped product *)
Lemma capacity_le t : bhp (cur t) < 64 -> capacity c t <= 2 ^ bhp (cur t) * spb c.
Proof.
  intro Hb. unfold capacity, bucket_count, hashpower. rewrite hashsize_spec by exact Hb. apply wrap64_le.
Qed.

End Bridge.

(* ================================================================== 2. size() is a function of the contents *)

Section Model.
Variable c : config.
Variable hash : N -> N.
Hypothesis Hc : cfg_ok c.

Notation lgood := (lgood c hash).
Notation levolves := (levolves c hash).
Notation lholds := (lholds c).
Notation lesc := (lesc c hash).
Notation rww := (rehash_with_workers c hash).

Lemma lgood_locks t : lgood t -> locks t <> [].
Proof. intros [W _]. apply (wf_locks _ _ _ _ W). Qed.

Lemma lgood_hp t : lgood t -> bhp (cur t) < 60.
Proof. intros [_ [_ [H _]]]. exact H. Qed.

(* two well-formed tables (deferred migration possibly pending in either) with the same abstract
   contents report the same size() *)
Theorem tsize_contents t t' :
  lgood t -> lgood t' -> (forall k v, lholds t' k v <-> lholds t k v) -> tsize t' = tsize t.
Proof.
  intros G G' H.
  destruct (rww_lgood c hash Hc t G) as [[St [Ct _]] [Hh [_ [_ [_ [_ [_ [Hts _]]]]]]]].
  destruct (rww_lgood c hash Hc t' G') as [[St' [Ct' _]] [Hh' [_ [_ [_ [_ [_ [Hts' _]]]]]]]].
  rewrite <- Hts, <- Hts'.
  apply tsize_eq; [apply (se_locks _ _ _ St)|apply (se_locks _ _ _ St')|].
  unfold counted in Ct, Ct'. rewrite Ct, Ct'. f_equal.
  apply (count_arr_holds c hash); [apply (se_arr _ _ _ St)|apply (se_arr _ _ _ St')|].
  intros k v. rewrite (Hh' k v), (Hh k v). apply H.
Qed.

Corollary levolves_tsize t t' : lgood t -> levolves t t' -> tsize t' = tsize t.
Proof. intros G [G' [H _]]. apply tsize_contents; assumption. Qed.

(* ================================================================== 3. the insert loop: doublings and fuel *)

(* what the acceptor's doubling check needs of a run from [t] to [t']: if the hashpower grew, the
   load factor (with the elements of [t]) was at least the minimum at the hashpower just below the
   final one *)
Definition dbl_ok (t t' : table) : Prop :=
  bhp (cur t) < bhp (cur t') -> mlfn t * (2 ^ (bhp (cur t') - 1) * spb c) <= tsize t * mlfd t.

Lemma dbl_ok_same t t' : bhp (cur t') = bhp (cur t) -> dbl_ok t t'.
Proof. intros E H. lia. Qed.

(* a prefix that leaves hashpower, size and limits alone *)
Lemma dbl_ok_pre t t1 t' :
  bhp (cur t1) = bhp (cur t) -> tsize t1 = tsize t -> lim_same t t1 -> dbl_ok t1 t' -> dbl_ok t t'.
Proof.
  intros E1 E2 [E3 [E4 _]] D H. rewrite <- E1 in H. specialize (D H). rewrite E2, E3, E4 in D. exact D.
Qed.

Lemma dbl_ok_post t t1 t' : bhp (cur t') = bhp (cur t1) -> dbl_ok t t1 -> dbl_ok t t'.
Proof. intros E D. unfold dbl_ok. rewrite E. exact D. Qed.

(* the doubling itself: permitted only at load factor >= minimum *)
Lemma dbl_ok_double t t' :
  lgood t -> lf_lt_mlf c t = false -> bhp (cur t') = bhp (cur t) + 1 -> dbl_ok t t'.
Proof.
  intros G Hlf E _. rewrite E. replace (bhp (cur t) + 1 - 1) with (bhp (cur t)) by lia.
  unfold lf_lt_mlf in Hlf. apply N.ltb_ge in Hlf.
  rewrite (capacity_nowrap c t (co_spb_max _ Hc) (lgood_hp t G)) in Hlf. exact Hlf.
Qed.

Lemma l_insert_loop_obs :
  nothrow c = true ->
  forall fuel t k, lgood t -> stripes_done c hash t k -> (forall v, ~ lholds t k v) ->
  60 <= N.of_nat fuel + bhp (cur t) ->
  forall t' res,
  cuckoo_insert_loop c hash (cuckoo_fast_double c hash) false t k
    (i1_of hash (bhp (cur t)) k) (i2_of hash (bhp (cur t)) k) fuel = (t', res) ->
  lesc t \/ (res <> IL_exn EOutOfFuel /\ dbl_ok t t').
Proof.
  intro Hnt. induction fuel as [|f IH]; intros t k G Hsd Hk Hfuel t' res E.
  - exfalso. assert (Hb := lgood_hp t G). lia.
  - assert (W := lgood_wf c hash t G). cbn [cuckoo_insert_loop] in E.
    destruct (cuckoo_insert_wf c hash Hc t k W (proj1 Hsd) (proj2 Hsd)) as [t1 [r1 [E1 [W1 [V1 [_ Hout]]]]]].
    cbv zeta in E1.
    assert (Hnf := cuckoo_insert_no_fuel_wf c hash Hc t k (i1_of hash (bhp (cur t)) k) (i2_of hash (bhp (cur t)) k) W).
    rewrite E1 in Hnf. cbn [snd] in Hnf. rewrite E1 in E.
    destruct (lmv_lgood c hash t t1 G W1 V1) as [Ev1 Hhp1].
    assert (Hsd1 := stripes_done_lmv c hash t t1 k V1 Hsd).
    destruct (Hout Hk) as [->|[pos [-> Hcase]]]; [exfalso; apply Hnf; reflexivity|].
    destruct Hcase as [[Hs _]|Hs]; rewrite Hs in E.
    + injection E as <- <-. right. split; [discriminate|apply dbl_ok_same; exact Hhp1].
    + assert (G1 := levolves_lgood c hash _ _ Ev1). assert (L1 := levolves_lim c hash _ _ Ev1).
      assert (Hts1 := levolves_tsize t t1 G Ev1).
      destruct (cuckoo_fast_double_lgood c hash Hc t1 Hnt G1) as [H1 [H2 H3]]. cbv zeta in H1, H2, H3.
      rewrite Hhp1 in H1, H2, H3. rewrite hashpower_eq in E.
      assert (Hm1 : mhp t1 = mhp t) by (destruct L1 as [_ [_ [H _]]]; exact H).
      destruct (maxed_dec hash t1 (bhp (cur t) + 1)) as [Hm|Hm].
      { rewrite (H1 Hm) in E. injection E as <- <-. right. split; [discriminate|apply dbl_ok_same; exact Hhp1]. }
      destruct (lf_lt_mlf c t1) eqn:Hlf.
      { rewrite (H2 Hm eq_refl) in E. injection E as <- <-. right.
        split; [discriminate|apply dbl_ok_same; exact Hhp1]. }
      destruct (H3 Hm eq_refl) as [Efd Hg]. rewrite Efd in E.
      assert (Hb1 := lgood_hp t1 G1).
      destruct (N.lt_ge_cases (bhp (cur t) + 1) 60) as [L|L].
      2:{ left. exists t1. split; [exact Ev1|]. split; [lia|]. rewrite <- Hm1. unfold maxed in Hm.
          destruct (N.eq_dec (mhp t1) NO_MAXIMUM_HASHPOWER) as [E'|E'].
          { rewrite E'. unfold NO_MAXIMUM_HASHPOWER. lia. }
          destruct (N.lt_ge_cases (mhp t1) (bhp (cur t) + 1)) as [L'|L']; [|lia].
          exfalso. apply Hm. split; assumption. }
      destruct (Hg L) as [G2 [Hhp2 [Hh2 [L2 _]]]].
      set (t2 := fast_double_body c hash false t1 (bhp (cur t) + 1)) in *.
      assert (Ev2 : levolves t1 t2).
      { split; [exact G2|]. split; [exact Hh2|]. split; [exact L2|]. lia. }
      destruct (snapshot_lgood c hash Hc t2 k G2) as [Esnap [Ev3 [Hbc3 [Hsd3 _]]]].
      cbv zeta in Esnap, Ev3, Hbc3, Hsd3. rewrite Esnap in E.
      set (t3 := lock_two c hash false t2 (i1_of hash (bhp (cur t2)) k) (i2_of hash (bhp (cur t2)) k)) in *.
      assert (G3 := levolves_lgood c hash _ _ Ev3).
      assert (Ev13 : levolves t1 t3) by (eapply levolves_trans; eassumption).
      assert (Ev03 : levolves t t3) by (eapply levolves_trans; eassumption).
      assert (Hk3 : forall v, ~ lholds t3 k v).
      { intros v Hv. apply (Hk v). apply Ev03. exact Hv. }
      rewrite <- Hbc3 in E.
      assert (Hf3 : 60 <= N.of_nat f + bhp (cur t3)) by lia.
      assert (Hpost := l_insert_loop_absent c hash Hc Hnt f t3 k G3 Hsd3 Hk3 t' res E).
      destruct (IH t3 k G3 Hsd3 Hk3 Hf3 t' res E) as [He|[Hres D3]];
        [left; eapply lesc_levolves; eassumption|].
      destruct Hpost as [He|[Ev3' _]]; [left; eapply lesc_levolves; eassumption|].
      right. split; [exact Hres|].
      (* the doubling t1 -> t2 was permitted at load factor >= minimum; later ones by D3 *)
      apply (dbl_ok_pre t t1 t' Hhp1 Hts1 L1).
      intro Hlt.
      destruct (N.eq_dec (bhp (cur t')) (bhp (cur t3))) as [Eq|Ne].
      * apply (dbl_ok_double t1 t' G1 Hlf); [lia|exact Hlt].
      * assert (Hle : bhp (cur t3) <= bhp (cur t')) by (destruct Ev3' as [_ [_ [_ H]]]; exact H).
        assert (Hlt3 : bhp (cur t3) < bhp (cur t')) by lia.
        specialize (D3 Hlt3).
        rewrite (levolves_tsize t1 t3 G1 Ev13) in D3.
        destruct (levolves_lim c hash _ _ Ev13) as [E3 [E4 _]]. rewrite E3, E4 in D3. exact D3.
Qed.

(* ================================================================== 4. the insert family (uprase_gen) *)

(* the tail of uprase_fn (store, invoke the functor, possibly erase) never changes the hashpower
   and never raises *)
Lemma set_val_hp t b s v : bhp (cur (set_val t b s v)) = bhp (cur t).
Proof.
  unfold set_val. destruct (bget (cur t) b s); [|reflexivity]. cbn [cur set_cur]. apply st_bhp_bset.
Qed.

Lemma del_hp t b s : bhp (cur (del_from_bucket c t b s)) = bhp (cur t).
Proof. rewrite del_from_bucket_cur. apply st_bhp_bset. Qed.

Lemma add_hp t b s p k v : bhp (cur (add_to_bucket c t b s p k v)) = bhp (cur t).
Proof. rewrite add_to_bucket_cur. apply st_bhp_bset. Qed.

Lemma finish_hp t b s ins g t' r :
  finish c t b s ins g = (t', r) -> bhp (cur t') = bhp (cur t) /\ exists x, r = inr x.
Proof.
  unfold finish. destruct (g (val_at t b s) ins) as [[v' er]|].
  - destruct er; intro E; injection E as <- <-.
    + split; [rewrite del_hp; apply set_val_hp|eexists; reflexivity].
    + split; [apply set_val_hp|eexists; reflexivity].
  - intro E. injection E as <- <-. split; [reflexivity|eexists; reflexivity].
Qed.

(* every member of the insert family, from ANY well-formed table: the call does not stop on the
   model's fuel bound, and an automatic doubling happens only at load factor >= minimum
   (no [immediate] regime needed: NoFuel's deferred-regime results N1/N2 are used) *)
Theorem uprase_gen_obs t k v g t' r :
  nothrow c = true -> lgood t -> uprase_gen c hash false t k v g = (t', r) ->
  lesc t \/ (r <> inl EOutOfFuel /\ dbl_ok t t').
Proof.
  intros Hnt G E0. assert (W := lgood_wf c hash t G).
  destruct (uprase_gen_lgood c hash Hc t k v g Hnt G t' r E0) as [Hin _].
  destruct (lholds_dec c hash Hc t k W) as [[v0 Hv0]|Hk].
  { destruct (Hin v0 Hv0) as [b [s [-> [_ [_ [Hhp _]]]]]]. right.
    split; [discriminate|apply dbl_ok_same; exact Hhp]. }
  assert (E := E0). rewrite (uprase_gen_tail c hash Hc t k v g W) in E. cbv zeta in E.
  destruct (snapshot_lgood c hash Hc t k G) as [_ [Ev1 [Hbc [Hsd1 S1]]]]. cbv zeta in Ev1, Hbc, Hsd1, S1.
  set (hp := bhp (cur t)) in *.
  set (t1 := lock_two c hash false t (i1_of hash hp k) (i2_of hash hp k)) in *.
  assert (G1 := levolves_lgood c hash _ _ Ev1). assert (L1 := levolves_lim c hash _ _ Ev1).
  assert (Hts1 := levolves_tsize t t1 G Ev1).
  assert (Hk1 : forall v0, ~ lholds t1 k v0) by (intros v0 H; apply (Hk v0); apply Ev1; exact H).
  rewrite <- Hbc in E.
  destruct (cuckoo_insert_loop c hash (cuckoo_fast_double c hash) false t1 k
              (i1_of hash (bhp (cur t1)) k) (i2_of hash (bhp (cur t1)) k) insert_loop_fuel) as [t2 res] eqn:El.
  assert (Hf : 60 <= N.of_nat insert_loop_fuel + bhp (cur t1)) by (unfold insert_loop_fuel; lia).
  destruct (l_insert_loop_obs Hnt insert_loop_fuel t1 k G1 Hsd1 Hk1 Hf t2 res El) as [He|[Hres D]];
    [left; eapply lesc_levolves; eassumption|right].
  assert (D0 : dbl_ok t t2) by (apply (dbl_ok_pre t t1 t2 Hbc Hts1 L1 D)).
  destruct res as [pos j1 j2|e].
  - assert (Hfin : bhp (cur t') = bhp (cur t2) /\ exists x, r = inr x).
    { destruct (pstatus pos);
        match type of E with finish c ?a ?b ?s ?i ?g = _ =>
          destruct (finish_hp a b s i g t' r E) as [H1 H2] end;
        (split; [exact H1|exact H2]). }
    destruct Hfin as [Hhp [x ->]]. split; [discriminate|]. apply (dbl_ok_post t t2 t' Hhp D0).
  - injection E as <- <-. split; [|exact D0]. intro H. apply Hres. injection H as ->. reflexivity.
Qed.

(* ================================================================== 4'. the same with a SHARP escape clause *)

(* [lesc t] (LazyRefine) only says that SOME well-formed table with the contents and limits of [t]
   and 2^59 buckets exists and that the maximum hashpower is at least 60: it is not tied to the run
   (see the remark at the end of this file).  The run itself reaches the uncovered doubling
   2^59 -> 2^60 only when that doubling is PERMITTED, i.e. when the load factor with the present
   elements at 2^59 buckets is at least the minimum - a decidable condition on the initial table,
   false for every table of realistic size unless the minimum load factor is 0: *)
Definition big_esc (t : table) : Prop :=
  60 <= mhp t /\ mlfn t * (2 ^ 59 * spb c) <= tsize t * mlfd t.

Lemma big_esc_levolves t t1 : lgood t -> levolves t t1 -> big_esc t1 -> big_esc t.
Proof.
  intros G Ev [H1 H2]. assert (Ets := levolves_tsize t t1 G Ev).
  destruct (levolves_lim c hash _ _ Ev) as [E1 [E2 [E3 _]]]. rewrite Ets, E1, E2 in H2. rewrite E3 in H1.
  split; assumption.
Qed.

(* LazyRefine.lil_post without its escape disjunct *)
Definition lil_ok (t : table) (k : N) (t' : table) (res : il_result) : Prop :=
  levolves t t' /\
  match res with
  | IL_pos pos j1 j2 =>
      j1 = i1_of hash (bhp (cur t')) k /\ j2 = i2_of hash (bhp (cur t')) k /\ stripes_done c hash t' k /\
      ((pstatus pos = St_duplicated /\ (exists v, lholds t k v) /\ bhp (cur t') = bhp (cur t) /\
        exists e, bget (cur t') (pindex pos) (pslot pos) = Some e /\ ekey e = k) \/
       (pstatus pos = St_ok /\ (forall v, ~ lholds t k v) /\
        bget (cur t') (pindex pos) (pslot pos) = None /\
        cand hash (bhp (cur t')) k (pindex pos) /\ pslot pos < spb c /\
        mig (lock_at t' (lockind c (pindex pos))) = true))
  | IL_exn e => (forall v, ~ lholds t k v) /\ exn_ok c true t t' e
  end.

Lemma lil_ok_levolves t t2 k t' res :
  levolves t t2 -> (forall v, ~ lholds t k v) -> lil_ok t2 k t' res -> lil_ok t k t' res.
Proof.
  intros Ev Hk [Ev' H]. split; [eapply levolves_trans; eassumption|].
  destruct res as [pos j1 j2|e].
  - destruct H as [E1 [E2 [Hsd Hcase]]]. split; [exact E1|]. split; [exact E2|]. split; [exact Hsd|].
    destruct Hcase as [[_ [[v Hin] _]]|[Hs [_ Hrest]]].
    + exfalso. apply (Hk v). apply Ev. exact Hin.
    + right. split; [exact Hs|]. split; [exact Hk|exact Hrest].
  - destruct H as [_ He]. split; [exact Hk|].
    eapply exn_ok_lim; [apply (levolves_lim c hash _ _ Ev)|exact He].
Qed.

Lemma l_insert_loop_sharp :
  nothrow c = true ->
  forall fuel t k, lgood t -> stripes_done c hash t k -> (forall v, ~ lholds t k v) ->
  60 <= N.of_nat fuel + bhp (cur t) ->
  forall t' res,
  cuckoo_insert_loop c hash (cuckoo_fast_double c hash) false t k
    (i1_of hash (bhp (cur t)) k) (i2_of hash (bhp (cur t)) k) fuel = (t', res) ->
  big_esc t \/ (lil_ok t k t' res /\ res <> IL_exn EOutOfFuel /\ dbl_ok t t').
Proof.
  intro Hnt. induction fuel as [|f IH]; intros t k G Hsd Hk Hfuel t' res E.
  - exfalso. assert (Hb := lgood_hp t G). lia.
  - assert (W := lgood_wf c hash t G). cbn [cuckoo_insert_loop] in E.
    destruct (cuckoo_insert_wf c hash Hc t k W (proj1 Hsd) (proj2 Hsd)) as [t1 [r1 [E1 [W1 [V1 [_ Hout]]]]]].
    cbv zeta in E1.
    assert (Hnf := cuckoo_insert_no_fuel_wf c hash Hc t k (i1_of hash (bhp (cur t)) k) (i2_of hash (bhp (cur t)) k) W).
    rewrite E1 in Hnf. cbn [snd] in Hnf. rewrite E1 in E.
    destruct (lmv_lgood c hash t t1 G W1 V1) as [Ev1 Hhp1].
    assert (Hsd1 := stripes_done_lmv c hash t t1 k V1 Hsd).
    destruct (Hout Hk) as [->|[pos [-> Hcase]]]; [exfalso; apply Hnf; reflexivity|].
    destruct Hcase as [[Hs [Hg [Hidx Hslot]]]|Hs]; rewrite Hs in E.
    + injection E as <- <-. right. split; [|split; [discriminate|apply dbl_ok_same; exact Hhp1]].
      split; [exact Ev1|]. rewrite Hhp1.
      split; [reflexivity|]. split; [reflexivity|]. split; [exact Hsd1|]. right.
      split; [exact Hs|]. split; [exact Hk|]. split; [exact Hg|]. split; [exact Hidx|].
      split; [exact Hslot|]. apply (stripes_done_cand c hash t1 k _ Hsd1). rewrite Hhp1. exact Hidx.
    + assert (G1 := levolves_lgood c hash _ _ Ev1). assert (L1 := levolves_lim c hash _ _ Ev1).
      assert (Hts1 := levolves_tsize t t1 G Ev1).
      destruct (cuckoo_fast_double_lgood c hash Hc t1 Hnt G1) as [H1 [H2 H3]]. cbv zeta in H1, H2, H3.
      rewrite Hhp1 in H1, H2, H3. rewrite hashpower_eq in E.
      assert (Hm1 : mhp t1 = mhp t) by (destruct L1 as [_ [_ [H _]]]; exact H).
      destruct (maxed_dec hash t1 (bhp (cur t) + 1)) as [Hm|Hm].
      { rewrite (H1 Hm) in E. injection E as <- <-. right.
        split; [|split; [discriminate|apply dbl_ok_same; exact Hhp1]].
        split; [exact Ev1|]. split; [exact Hk|].
        destruct Hm as [Hm Hlt]. split.
        - left. split; [reflexivity|]. rewrite <- Hm1. exact Hm.
        - intros _. split; [|intro H; discriminate]. intros _. rewrite <- Hm1.
          destruct G1 as [_ [_ [_ [_ [Hw|Hw]]]]]; [contradiction|]. lia. }
      destruct (lf_lt_mlf c t1) eqn:Hlf.
      { rewrite (H2 Hm eq_refl) in E. injection E as <- <-. right.
        split; [|split; [discriminate|apply dbl_ok_same; exact Hhp1]].
        split; [exact Ev1|]. split; [exact Hk|]. split.
        - right. left. split; [reflexivity|]. split; [reflexivity|].
          destruct L1 as [H _]. rewrite <- H. apply (lf_true_mlfn c t1 Hlf).
        - intros _. split; [intro H; discriminate|]. intros _. exact Hlf. }
      destruct (H3 Hm eq_refl) as [Efd Hg]. rewrite Efd in E.
      assert (Hb1 := lgood_hp t1 G1).
      destruct (N.lt_ge_cases (bhp (cur t) + 1) 60) as [L|L].
      2:{ (* the only way out: the doubling 2^59 -> 2^60 is permitted *)
          left. split.
          - rewrite <- Hm1. unfold maxed in Hm.
            destruct (N.eq_dec (mhp t1) NO_MAXIMUM_HASHPOWER) as [E'|E'].
            { rewrite E'. unfold NO_MAXIMUM_HASHPOWER. lia. }
            destruct (N.lt_ge_cases (mhp t1) (bhp (cur t) + 1)) as [L'|L']; [|lia].
            exfalso. apply Hm. split; assumption.
          - unfold lf_lt_mlf in Hlf. apply N.ltb_ge in Hlf.
            rewrite (capacity_nowrap c t1 (co_spb_max _ Hc) Hb1) in Hlf.
            assert (E59 : bhp (cur t1) = 59) by lia. rewrite E59, Hts1 in Hlf.
            destruct L1 as [E3 [E4 _]]. rewrite E3, E4 in Hlf. exact Hlf. }
      destruct (Hg L) as [G2 [Hhp2 [Hh2 [L2 _]]]].
      set (t2 := fast_double_body c hash false t1 (bhp (cur t) + 1)) in *.
      assert (Ev2 : levolves t1 t2).
      { split; [exact G2|]. split; [exact Hh2|]. split; [exact L2|]. lia. }
      destruct (snapshot_lgood c hash Hc t2 k G2) as [Esnap [Ev3 [Hbc3 [Hsd3 _]]]].
      cbv zeta in Esnap, Ev3, Hbc3, Hsd3. rewrite Esnap in E.
      set (t3 := lock_two c hash false t2 (i1_of hash (bhp (cur t2)) k) (i2_of hash (bhp (cur t2)) k)) in *.
      assert (G3 := levolves_lgood c hash _ _ Ev3).
      assert (Ev13 : levolves t1 t3) by (eapply levolves_trans; eassumption).
      assert (Ev03 : levolves t t3) by (eapply levolves_trans; eassumption).
      assert (Hk3 : forall v, ~ lholds t3 k v).
      { intros v Hv. apply (Hk v). apply Ev03. exact Hv. }
      rewrite <- Hbc3 in E.
      assert (Hf3 : 60 <= N.of_nat f + bhp (cur t3)) by lia.
      destruct (IH t3 k G3 Hsd3 Hk3 Hf3 t' res E) as [He|[Hpost [Hres D3]]];
        [left; exact (big_esc_levolves t t3 G Ev03 He)|].
      right. split; [exact (lil_ok_levolves t t3 k t' res Ev03 Hk Hpost)|]. split; [exact Hres|].
      destruct Hpost as [Ev3' _].
      apply (dbl_ok_pre t t1 t' Hhp1 Hts1 L1).
      intro Hlt.
      destruct (N.eq_dec (bhp (cur t')) (bhp (cur t3))) as [Eq|Ne].
      * apply (dbl_ok_double t1 t' G1 Hlf); [lia|exact Hlt].
      * assert (Hle : bhp (cur t3) <= bhp (cur t')) by (destruct Ev3' as [_ [_ [_ H]]]; exact H).
        assert (Hlt3 : bhp (cur t3) < bhp (cur t')) by lia.
        specialize (D3 Hlt3).
        rewrite (levolves_tsize t1 t3 G1 Ev13) in D3.
        destruct (levolves_lim c hash _ _ Ev13) as [E3 [E4 _]]. rewrite E3, E4 in D3. exact D3.
Qed.

(* uprase_gen on an ABSENT key (LazyRefine.uprase_gen_lgood, second part) with the sharp escape
   clause, no fuel artefact and the doubling rule *)
Theorem uprase_gen_sharp t k v g t' r :
  nothrow c = true -> lgood t -> uprase_gen c hash false t k v g = (t', r) ->
  (forall v0, ~ lholds t k v0) ->
  big_esc t \/
  (r <> inl EOutOfFuel /\ dbl_ok t t' /\
   ((exists e, r = inl e /\ exn_ok c true t t' e /\ levolves t t') \/
    (exists b s, r = inr (true, log_of g v true, (b, s)) /\
       lgood t' /\ lim_same t t' /\ bhp (cur t) <= bhp (cur t') /\
       lupd c t t' k (final_of g v true)))).
Proof.
  intros Hnt G E Hk. assert (W := lgood_wf c hash t G).
  rewrite (uprase_gen_tail c hash Hc t k v g W) in E. cbv zeta in E.
  destruct (snapshot_lgood c hash Hc t k G) as [_ [Ev1 [Hbc [Hsd1 S1]]]]. cbv zeta in Ev1, Hbc, Hsd1, S1.
  set (hp := bhp (cur t)) in *.
  set (t1 := lock_two c hash false t (i1_of hash hp k) (i2_of hash hp k)) in *.
  assert (G1 := levolves_lgood c hash _ _ Ev1). assert (L1 := levolves_lim c hash _ _ Ev1).
  assert (Hts1 := levolves_tsize t t1 G Ev1).
  assert (Hk1 : forall v0, ~ lholds t1 k v0) by (intros v0 H; apply (Hk v0); apply Ev1; exact H).
  rewrite <- Hbc in E.
  destruct (cuckoo_insert_loop c hash (cuckoo_fast_double c hash) false t1 k
              (i1_of hash (bhp (cur t1)) k) (i2_of hash (bhp (cur t1)) k) insert_loop_fuel) as [t2 res] eqn:El.
  assert (Hf : 60 <= N.of_nat insert_loop_fuel + bhp (cur t1)) by (unfold insert_loop_fuel; lia).
  destruct (l_insert_loop_sharp Hnt insert_loop_fuel t1 k G1 Hsd1 Hk1 Hf t2 res El) as [He|[[Ev2 Hil] [Hres D]]];
    [left; exact (big_esc_levolves t t1 G Ev1 He)|right].
  assert (D0 : dbl_ok t t2) by (apply (dbl_ok_pre t t1 t2 Hbc Hts1 L1 D)).
  assert (Ev02 : levolves t t2) by (eapply levolves_trans; eassumption).
  destruct res as [pos j1 j2|e].
  2:{ injection E as <- <-. split; [intro H; apply Hres; injection H as ->; reflexivity|].
      split; [exact D0|]. left. exists e. split; [reflexivity|]. destruct Hil as [_ He].
      split; [eapply exn_ok_lim; eassumption|exact Ev02]. }
  destruct Hil as [_ [_ [_ [[_ [[v1 Hin] _]]|[Hs [_ [Hg [Hcand [Hslot Hmg]]]]]]]]].
  { exfalso. exact (Hk1 v1 Hin). }
  rewrite Hs in E.
  assert (G2 := levolves_lgood c hash _ _ Ev2).
  assert (Hk2 : forall v0, ~ lholds t2 k v0).
  { intros v0 H. apply (Hk v0). apply Ev02. exact H. }
  destruct (lgood_add c hash Hc t2 (pindex pos) (pslot pos) k v G2 Hg Hcand Hslot Hmg Hk2)
    as [G3 [L3 [Hhp3 [He3 Hh3]]]]. cbv zeta in G3, L3, Hhp3, He3, Hh3.
  set (t3 := add_to_bucket c t2 (pindex pos) (pslot pos) (partial_key (hash k)) k v) in *.
  destruct (finish_lgood c hash Hc t3 (pindex pos) (pslot pos) _ true g G3 He3)
    as [t5 [Ef [G5 [L5 [Hhp5 [Hu Hp]]]]]]. cbn [ekey eval] in Ef, Hu, Hp.
  rewrite Ef in E. injection E as <- <-.
  split; [discriminate|]. split; [apply (dbl_ok_post t t2 t5); [congruence|exact D0]|].
  destruct Ev02 as [_ [Hh [L2 Hb2]]].
  right. exists (pindex pos), (pslot pos). split; [reflexivity|]. split; [exact G5|].
  split; [exact (lim_same_trans _ _ _ L2 (lim_same_trans _ _ _ L3 L5))|].
  split; [lia|].
  intros k' v'. rewrite (Hu k' v'), (Hh3 k' v'), (Hh k' v'). split.
  + intros [[Hne [[E1 _]|[_ H]]]|H]; [contradiction|left; split; assumption|right; exact H].
  + intros [[Hne H]|H]; [left; split; [exact Hne|right; split; assumption]|right; exact H].
Qed.

(* LazyRefine.uprase_gen_rep with the sharp escape clause, no fuel artefact, the doubling rule *)
Lemma uprase_gen_rep_sharp t k v g m t' r :
  nothrow c = true -> lgood t -> rep c t m -> uprase_gen c hash false t k v g = (t', r) ->
  big_esc t \/
  (lgood t' /\ lim_same t t' /\ r <> inl EOutOfFuel /\ dbl_ok t t' /\
   match r with
   | inl e => m k = None /\ exn_ok c true t t' e /\ rep c t' m
   | inr (ins, lg, _) =>
       match m k with
       | Some v0 => ins = false /\ lg = log_of g v0 false /\ bhp (cur t') = bhp (cur t) /\
                    rep c t' (mset m k (final_of g v0 false))
       | None => ins = true /\ lg = log_of g v true /\ rep c t' (mset m k (final_of g v true))
       end
   end).
Proof.
  intros Hnt G R E. destruct (uprase_gen_lgood c hash Hc t k v g Hnt G t' r E) as [Hin _].
  destruct (m k) as [v0|] eqn:Emk.
  - right. destruct (Hin v0 (proj2 (R k v0) Emk)) as [b [s [-> [G' [L [Hhp [U _]]]]]]].
    split; [exact G'|]. split; [exact L|]. split; [discriminate|]. split; [apply dbl_ok_same; exact Hhp|].
    split; [reflexivity|]. split; [reflexivity|]. split; [exact Hhp|]. apply (rep_lupd c t t' k _ m R U).
  - destruct (uprase_gen_sharp t k v g t' r Hnt G E (proj1 (rep_none c t m k R) Emk))
      as [He|[Hnf [D [[e [-> [He Ev]]]|[b [s [-> [G' [L [_ U]]]]]]]]]].
    + left. exact He.
    + right. split; [apply (levolves_lgood c hash _ _ Ev)|]. split; [apply (levolves_lim c hash _ _ Ev)|].
      split; [exact Hnf|]. split; [exact D|].
      split; [reflexivity|]. split; [exact He|]. apply (rep_same c t t' m R). apply Ev.
    + right. split; [exact G'|]. split; [exact L|]. split; [exact Hnf|]. split; [exact D|].
      split; [reflexivity|]. split; [reflexivity|]. apply (rep_lupd c t t' k _ m R U).
Qed.

End Model.

(* ================================================================== 5. the acceptor's reading of the model's statistics *)

Section Accept.
Variable c : config.
Variable hash : N -> N.
Hypothesis Hc : cfg_ok c.
Variable fapply : fnk -> Z -> bool -> Z * bool.
Variable spb_ : N.
Hypothesis Hspb : spb c = spb_.

Notation lgood := (lgood c hash).
Notation levolves := (levolves c hash).
Notation lholds := (lholds c).
Notation lesc := (lesc c hash).
Notation rep := (rep c).
Notation judge := (judge_op fapply spb_).
Notation op_spec := (op_spec c fapply).
Notation obs_of := (obs_of c).

(* (h1) [dbl_ok] is exactly what [grew_below_minimum] checks on the model's own statistics *)
Lemma grew_of_dbl t t' x y :
  dbl_ok c t t' -> grew_below_minimum spb_ (obs_of t x) (obs_of t' y) = false.
Proof.
  intro D. unfold grew_below_minimum, SpecSound.obs_of. cbn [o_hp o_size o_mlfd o_mlfn].
  destruct (N.ltb_spec (bhp (cur t)) (bhp (cur t'))) as [L|L]; [|reflexivity]. cbn [andb].
  apply andb_false_iff. right. apply N.ltb_ge. rewrite N.shiftl_1_l, <- Hspb. apply D. exact L.
Qed.

(* (h2) the model's [lf_lt_mlf] at the table the exception leaves behind implies the acceptor's
   [lf_below] (a wrapped capacity only makes the model's test harder to pass) *)
Lemma lf_below_of_lf t t' x y :
  tsize t' = tsize t -> lim_same t t' -> bhp (cur t') < 64 -> lf_lt_mlf c t' = true ->
  lf_below spb_ (obs_of t x) (obs_of t' y) = true.
Proof.
  intros Ets [E1 [E2 _]] Hb Hlf. unfold lf_below, SpecSound.obs_of. cbn [o_hp o_size o_mlfd o_mlfn].
  unfold lf_lt_mlf in Hlf. apply N.ltb_lt in Hlf. apply N.ltb_lt.
  rewrite Ets, E1, E2 in Hlf. rewrite N.shiftl_1_l, <- Hspb.
  eapply N.lt_le_trans; [exact Hlf|]. apply N.mul_le_mono_l. apply capacity_le. exact Hb.
Qed.

(* ... and conversely where the capacity does not wrap (the invariant's hashpowers): on the
   model's statistics the two tests coincide, so the acceptor's strict rule is the model's rule *)
Lemma lf_below_iff_lf t x y :
  bhp (cur t) < 60 -> lf_below spb_ (obs_of t x) (obs_of t y) = lf_lt_mlf c t.
Proof.
  intro Hb. unfold lf_below, lf_lt_mlf, SpecSound.obs_of. cbn [o_hp o_size o_mlfd o_mlfn].
  rewrite (capacity_nowrap c t (co_spb_max _ Hc) Hb), N.shiftl_1_l, <- Hspb. reflexivity.
Qed.

(* (h3) for the printed result *)
Lemma ures_out_no_fuel full (x : exn + (bool * list rv * (N * N))) :
  x <> inl EOutOfFuel -> no_fuel (ures_out full x).
Proof.
  unfold no_fuel. destruct x as [e|[[ins lg] p]]; cbn [ures_out].
  - unfold exn_out. cbn [norm_out map norm_rv]. intros H E. apply H. injection E as ->. reflexivity.
  - cbn [norm_out map norm_rv]. intros _ E. discriminate E.
Qed.

Lemma bool_or_exn_no_fuel (x : exn + bool) : x <> inl EOutOfFuel -> no_fuel (bool_or_exn x).
Proof.
  unfold no_fuel. destruct x as [e|b]; cbn [bool_or_exn].
  - unfold exn_out. cbn [norm_out map norm_rv]. intros H E. apply H. injection E as ->. reflexivity.
  - cbn [norm_out map norm_rv]. intros _ E. discriminate E.
Qed.

(* (h4) the denominator of the minimum load factor: non-zero in a fresh table, kept non-zero by the
   validated setter, untouched by everything that preserves the limits *)
Lemma mlfd_new_table n : mlfd (new_table c n) <> 0.
Proof. cbn [new_table mlfd]. discriminate. Qed.

Lemma mlfd_set_mlf_op t a : mlfd t <> 0 -> mlfd (fst (set_mlf_op t a)) <> 0.
Proof.
  intro H. unfold set_mlf_op. destruct a as [neg n d|]; [|exact H].
  destruct (N.eqb_spec d 0) as [E|E]; [exact H|].
  destruct (neg && negb (n =? 0)); [exact H|]. destruct (d <? n); [exact H|]. cbn [fst set_mlf mlfd]. exact E.
Qed.

Lemma mlfd_lim_same t t' : lim_same t t' -> mlfd t <> 0 -> mlfd t' <> 0.
Proof. intros [_ [E _]] H. rewrite E. exact H. Qed.

(* ================================================================== 6. the insert family *)

(* an insert-family step IS one call of uprase_gen on the slot's table *)
Lemma ins_step_shape w a sl o w' r :
  active sl = false -> ins_family o = true ->
  step_some c hash fapply w a sl o = (w', r) ->
  exists k v g full t1 x,
    uprase_gen c hash false (tb sl) k v g = (t1, x) /\ w' = put_t w a sl t1 /\ r = ures_out full x /\
    forall m m', op_spec (tb sl) m o r m' = ins_spec (tb sl) g k v full m r m'.
Proof.
  intros Hact Hop E. destruct o; try discriminate Hop;
    cbv beta iota zeta delta [step_some] in E; rewrite Hact in E; rewrite if_negb_false in E.
  - destruct (uprase_gen c hash false (tb sl) k v (fun _ _ => None)) as [t1 x] eqn:Eu.
    exists k, v, (fun (_ : Z) (_ : bool) => @None (Z * bool)), false, t1, x. split; [exact Eu|].
    destruct x as [e|[[ins lg] p]]; injection E as <- <-; (split; [reflexivity|]); (split; reflexivity).
  - destruct (uprase_gen c hash false (tb sl) k v (fun _ newly => if newly then None else Some (v, false)))
      as [t1 x] eqn:Eu.
    exists k, v, (fun (_ : Z) (newly : bool) => if newly then None else Some (v, false)), false, t1, x. split; [exact Eu|].
    destruct x as [e|[[ins lg] p]]; injection E as <- <-; (split; [reflexivity|]); (split; reflexivity).
  - destruct (uprase_gen c hash false (tb sl) k v (invoke fapply f two false)) as [t1 x] eqn:Eu.
    exists k, v, (invoke fapply f two false), true, t1, x. split; [exact Eu|].
    destruct x as [e|[[ins lg] p]]; injection E as <- <-; (split; [reflexivity|]); (split; reflexivity).
  - destruct (uprase_gen c hash false (tb sl) k v (invoke fapply f two true)) as [t1 x] eqn:Eu.
    exists k, v, (invoke fapply f two true), true, t1, x. split; [exact Eu|].
    destruct x as [e|[[ins lg] p]]; injection E as <- <-; (split; [reflexivity|]); (split; reflexivity).
Qed.

(* from the facts the model proves about one call of uprase_gen to the acceptor's verdict *)
Lemma insert_accepted_core w a sl o w' r m s ts x y k v g full t1 u :
  nothrow c = true -> ins_family o = true ->
  lgood (tb sl) -> rep (tb sl) m -> mlfd (tb sl) <> 0 ->
  get_st s a = Some ts -> st_moved ts = false -> srep (st_m ts) m ->
  w' = put_t w a sl t1 -> r = ures_out full u ->
  (forall m m', op_spec (tb sl) m o r m' = ins_spec (tb sl) g k v full m r m') ->
  lgood t1 -> lim_same (tb sl) t1 -> u <> inl EOutOfFuel -> dbl_ok c (tb sl) t1 ->
  match u with
  | inl e => m k = None /\ exn_ok c true (tb sl) t1 e /\ rep t1 m
  | inr (ins, lg, _) =>
      match m k with
      | Some v0 => ins = false /\ lg = log_of g v0 false /\ bhp (cur t1) = bhp (cur (tb sl)) /\
                   rep t1 (mset m k (final_of g v0 false))
      | None => ins = true /\ lg = log_of g v true /\ rep t1 (mset m k (final_of g v true))
      end
  end ->
  exists t' m' s',
    w' = put_t w a sl t' /\ lgood t' /\ lim_same (tb sl) t' /\ rep t' m' /\
    judge s a o r (obs_of (tb sl) x) (obs_of t' y) = (s', []) /\ post_ok s' a ts m'.
Proof.
  intros Hnt Hop G Rm Hd Hg Hmv R Hw Hr Hspec G' L Hnf D Hu.
  assert (Hop' : normal_op o = true) by (destruct o; try discriminate Hop; reflexivity).
  (* the map specification and the final hashpower of a maximum-hashpower exception
     (as in SpecSound.uprase_gen_accept_core) *)
  assert (Hcore : exists m', rep t1 m' /\ ins_spec (tb sl) g k v full m (ures_out full u) m' /\
                    (ures_out full u = [RExn EMaxHashpower] -> bhp (cur t1) = mhp (tb sl))).
  { unfold ins_spec. destruct u as [e|[[ins lg] p]]; cbn [ures_out].
    - destruct Hu as [Emk [He R']]. rewrite Emk. exists m. split; [exact R'|]. split.
      + left. exists e. split; [reflexivity|]. split; [intro; reflexivity|apply He].
      + unfold exn_out. intro Hx. injection Hx as ->. destruct He as [_ Hk]. exact (proj1 (Hk Hnt) eq_refl).
    - destruct (m k) as [v0|].
      + destruct Hu as [-> [-> [_ R']]]. eexists. split; [exact R'|].
        split; [split; [intro; reflexivity|reflexivity]|discriminate].
      + destruct Hu as [-> [-> R']]. eexists. split; [exact R'|].
        split; [right; split; [intro; reflexivity|reflexivity]|discriminate]. }
  destruct Hcore as [m' [R' [Hs Hx]]].
  rewrite <- Hr in Hs, Hx. rewrite <- Hspec in Hs.
  assert (Hn : norm_out r = r) by exact (op_spec_norm c fapply _ _ _ _ _ Hop' Hs).
  assert (Hlfb : norm_out r = [RExn ELoadFactorTooLow] ->
                 lf_below spb_ (obs_of (tb sl) x) (obs_of t1 y) = true).
  { rewrite Hn, Hr. intro Hx'. destruct u as [e|[[ins lg] p]]; [|discriminate Hx'].
    cbn [ures_out] in Hx'. unfold exn_out in Hx'. injection Hx' as ->.
    destruct Hu as [_ [[_ Hk] R1]]. destruct (Hk Hnt) as [_ Hlf].
    apply lf_below_of_lf; [|exact L| |exact (Hlf eq_refl)].
    - apply (tsize_contents c hash Hc _ _ G G'). intros k0 v0. rewrite (R1 k0 v0), (Rm k0 v0). reflexivity.
    - assert (Hb := lgood_hp c hash t1 G'). lia. }
  assert (Hobs : obs_consistent spb_ (tb sl) o r (obs_of (tb sl) x) (obs_of t1 y)).
  { assert (Hnfr : no_fuel r) by (rewrite Hr; apply ures_out_no_fuel; exact Hnf).
    destruct o; try discriminate Hop; cbn [obs_consistent];
      (split; [apply obs_pre_obs_of|]); (split; [exact Hd|]); (split; [apply grew_of_dbl; exact D|]);
      (split; [rewrite Hn; exact Hx|]); (split; [exact Hlfb|exact Hnfr]). }
  rewrite <- Hn in Hs.
  destruct (judge_complete c fapply spb_ (tb sl) s a ts m o r m' _ _ Hop' Hspb Hg Hmv R Hs Hobs) as [s' [Hj P]].
  exists t1, m', s'. split; [exact Hw|]. split; [exact G'|]. split; [exact L|]. split; [exact R'|]. split; assumption.
Qed.

(* THE INSERT FAMILY, NO OBSERVATION HYPOTHESIS LEFT: from any well-formed table (deferred
   migration possibly pending) with a well-formed minimum load factor, the model's output for
   insert / insert_or_assign / upsert / uprase_fn is accepted when the acceptor is given the
   model's own statistics before and after, and the two stay related.
   First with LazyRefine's escape clause [lesc] ... *)
Theorem model_insert_accepted w a sl o w' r m s ts x y :
  nothrow c = true -> active sl = false -> ins_family o = true ->
  lgood (tb sl) -> rep (tb sl) m -> mlfd (tb sl) <> 0 ->
  step_some c hash fapply w a sl o = (w', r) ->
  get_st s a = Some ts -> st_moved ts = false -> srep (st_m ts) m ->
  lesc (tb sl) \/
  exists t' m' s',
    w' = put_t w a sl t' /\ lgood t' /\ lim_same (tb sl) t' /\ rep t' m' /\
    judge s a o r (obs_of (tb sl) x) (obs_of t' y) = (s', []) /\ post_ok s' a ts m'.
Proof.
  intros Hnt Hact Hop G Rm Hd E Hg Hmv R.
  destruct (ins_step_shape w a sl o w' r Hact Hop E) as [k [v [g [full [t1 [u [Eu [Hw [Hr Hspec]]]]]]]]].
  destruct (uprase_gen_obs c hash Hc (tb sl) k v g t1 u Hnt G Eu) as [He|[Hnf D]]; [left; exact He|].
  destruct (uprase_gen_rep c hash Hc (tb sl) k v g m t1 u Hnt G Rm Eu) as [He|[G' [L Hu]]]; [left; exact He|].
  right. exact (insert_accepted_core w a sl o w' r m s ts x y k v g full t1 u Hnt Hop G Rm Hd Hg Hmv R
                  Hw Hr Hspec G' L Hnf D Hu).
Qed.

(* ... then with the sharp one: the only way out is a table that is PERMITTED to double from
   2^59 buckets, a decidable condition on the initial table *)
Theorem model_insert_accepted_sharp w a sl o w' r m s ts x y :
  nothrow c = true -> active sl = false -> ins_family o = true ->
  lgood (tb sl) -> rep (tb sl) m -> mlfd (tb sl) <> 0 ->
  step_some c hash fapply w a sl o = (w', r) ->
  get_st s a = Some ts -> st_moved ts = false -> srep (st_m ts) m ->
  big_esc c (tb sl) \/
  exists t' m' s',
    w' = put_t w a sl t' /\ lgood t' /\ lim_same (tb sl) t' /\ rep t' m' /\
    judge s a o r (obs_of (tb sl) x) (obs_of t' y) = (s', []) /\ post_ok s' a ts m'.
Proof.
  intros Hnt Hact Hop G Rm Hd E Hg Hmv R.
  destruct (ins_step_shape w a sl o w' r Hact Hop E) as [k [v [g [full [t1 [u [Eu [Hw [Hr Hspec]]]]]]]]].
  destruct (uprase_gen_rep_sharp c hash Hc (tb sl) k v g m t1 u Hnt G Rm Eu) as [He|[G' [L [Hnf [D Hu]]]]];
    [left; exact He|].
  right. exact (insert_accepted_core w a sl o w' r m s ts x y k v g full t1 u Hnt Hop G Rm Hd Hg Hmv R
                  Hw Hr Hspec G' L Hnf D Hu).
Qed.

(* ================================================================== 7. rehash / reserve *)

(* (h3) for the explicit resizes, from any well-formed table: a pending deferred migration is
   finished first ([cuckoo_expand_simple_lgood]), then NoFuel's settled-regime result applies *)
Lemma cuckoo_rehash_no_fuel_lgood t n :
  nothrow c = true -> lgood t -> limC c (mhp t) ->
  snd (cuckoo_rehash c hash false t n) <> inl EOutOfFuel.
Proof.
  intros Hnt G Hl E. apply rehash_exn in E.
  destruct (cuckoo_expand_simple_lgood c hash Hc false t n G Hl) as [Hmx [_ [Hrw _]]]. cbv zeta in Hmx, Hrw.
  destruct (maxed_dec hash t n) as [Hm|Hm].
  - rewrite (Hmx Hm) in E. discriminate E.
  - rewrite (Hrw Hm (fun H => False_ind _ (Bool.diff_false_true H))) in E.
    destruct (rww_lgood c hash Hc t G) as [G1 [_ [_ [L1 _]]]].
    apply (cuckoo_expand_simple_no_fuel c hash Hc false false _ n Hnt G1); [|exact E].
    destruct L1 as [_ [_ [E3 _]]]. rewrite E3. exact Hl.
Qed.

(* rehash to [target] (reserve is rehash to [reserve_calc n]): refinement, no fuel artefact, and
   (h5) a successful call leaves at least the requested hashpower *)
Lemma rehash_core t target m t1 x :
  nothrow c = true -> lgood t -> rep t m -> limC c (mhp t) -> destructive c = false ->
  cuckoo_rehash c hash false t target = (t1, x) ->
  lgood t1 /\ lim_same t t1 /\ rep t1 m /\ resize_spec t target m (bool_or_exn x) m /\
  x <> inl EOutOfFuel /\ (forall b, x = inr b -> target <= bhp (cur t1)).
Proof.
  intros Hnt G R Hl Hd Er.
  assert (Hnf := cuckoo_rehash_no_fuel_lgood t target Hnt G Hl). rewrite Er in Hnf. cbn [snd] in Hnf.
  destruct (cuckoo_rehash_lgood c hash Hc t target G Hl t1 x Er) as [H1 [H2 [H3 H4]]].
  destruct x as [e|[|]].
  - destruct (H4 e eq_refl) as [Hne [He [Hlf [_ Hev]]]]. destruct (Hev Hd) as [Ev _].
    split; [apply (levolves_lgood c hash _ _ Ev)|]. split; [apply (levolves_lim c hash _ _ Ev)|].
    split; [apply (rep_same c _ _ m R); apply Ev|].
    split; [|split; [exact Hnf|intros b H; discriminate H]].
    split; [intro; reflexivity|]. right. exists e. split; [reflexivity|]. split; [exact Hne|]. split; assumption.
  - destruct (H3 eq_refl) as [G' [Hh [L [Hb _]]]].
    split; [apply good_lgood; exact G'|]. split; [exact L|].
    split; [intros k v; rewrite (good_lholds c hash _ k v G'), (Hh k v); apply R|].
    split; [|split; [exact Hnf|intros b _; exact Hb]].
    split; [intro; reflexivity|]. left. exists true. split; [reflexivity|].
    split; [intro H; discriminate|]. intro H. apply H1 in H. discriminate.
  - rewrite (H2 eq_refl). split; [exact G|]. split; [apply lim_same_refl|]. split; [exact R|].
    split; [|split; [exact Hnf|]].
    + split; [intro; reflexivity|]. left. exists false. split; [reflexivity|].
      split; [intros _; apply H1; reflexivity|reflexivity].
    + intros b _. assert (E := proj1 H1 eq_refl). rewrite E. apply N.le_refl.
Qed.

Lemma bool_or_exn_bool (x : exn + bool) b : norm_out (bool_or_exn x) = [RBool b] -> x = inr b.
Proof.
  destruct x as [e|b0]; cbn [bool_or_exn]; [unfold exn_out|]; cbn [norm_out map norm_rv]; intro H;
    [discriminate H|injection H as ->; reflexivity].
Qed.

Lemma bool_or_exn_norm (x : exn + bool) : norm_out (bool_or_exn x) = bool_or_exn x.
Proof. destruct x; reflexivity. Qed.

Theorem model_rehash_accepted w a sl n w' r m s ts x y :
  nothrow c = true -> active sl = false ->
  lgood (tb sl) -> rep (tb sl) m -> limC c (mhp (tb sl)) -> destructive c = false ->
  step_some c hash fapply w a sl (ORehash n) = (w', r) ->
  get_st s a = Some ts -> st_moved ts = false -> srep (st_m ts) m ->
  exists t' m' s',
    w' = put_t w a sl t' /\ lgood t' /\ lim_same (tb sl) t' /\ rep t' m' /\
    judge s a (ORehash n) r (obs_of (tb sl) x) (obs_of t' y) = (s', []) /\ post_ok s' a ts m'.
Proof.
  intros Hnt Hact G Rm Hl Hd E Hg Hmv R.
  cbv beta iota zeta delta [step_some] in E; rewrite Hact in E; rewrite if_negb_false in E.
  destruct (cuckoo_rehash c hash false (tb sl) n) as [t1 u] eqn:Er. injection E as <- <-.
  destruct (rehash_core (tb sl) n m t1 u Hnt G Rm Hl Hd Er) as [G' [L [R' [Hs [Hnf Hbig]]]]].
  assert (Hobs : obs_consistent spb_ (tb sl) (ORehash n) (bool_or_exn u) (obs_of (tb sl) x) (obs_of t1 y)).
  { cbn [obs_consistent]. split; [apply obs_pre_obs_of|]. split; [|apply bool_or_exn_no_fuel; exact Hnf].
    intros b Hb. apply bool_or_exn_bool in Hb. exact (Hbig b Hb). }
  assert (Hs' : op_spec (tb sl) m (ORehash n) (norm_out (bool_or_exn u)) m)
    by (rewrite bool_or_exn_norm; exact Hs).
  destruct (judge_complete c fapply spb_ (tb sl) s a ts m (ORehash n) _ m _ _ eq_refl Hspb Hg Hmv R Hs' Hobs)
    as [s' [Hj P]].
  exists t1, m, s'. split; [reflexivity|]. split; [exact G'|]. split; [exact L|]. split; [exact R'|].
  split; assumption.
Qed.

(* reserve(n): the request must not wrap the model's (and the library's) 64-bit bucket computation;
   is covered by the wrap disjunct of the acceptor's [big_enough] ([reserve_wrap_now_accepted]) *)
Theorem model_reserve_accepted w a sl n w' r m s ts x y :
  nothrow c = true -> active sl = false ->
  lgood (tb sl) -> rep (tb sl) m -> limC c (mhp (tb sl)) -> destructive c = false ->
  step_some c hash fapply w a sl (OReserve n) = (w', r) ->
  get_st s a = Some ts -> st_moved ts = false -> srep (st_m ts) m ->
  exists t' m' s',
    w' = put_t w a sl t' /\ lgood t' /\ lim_same (tb sl) t' /\ rep t' m' /\
    judge s a (OReserve n) r (obs_of (tb sl) x) (obs_of t' y) = (s', []) /\ post_ok s' a ts m'.
Proof.
  intros Hnt Hact G Rm Hl Hd E Hg Hmv R.
  cbv beta iota zeta delta [step_some] in E; rewrite Hact in E; rewrite if_negb_false in E.
  rewrite cuckoo_reserve_eq in E.
  destruct (cuckoo_rehash c hash false (tb sl) (reserve_calc c n)) as [t1 u] eqn:Er. injection E as <- <-.
  destruct (rehash_core (tb sl) _ m t1 u Hnt G Rm Hl Hd Er) as [G' [L [R' [Hs [Hnf Hbig]]]]].
  assert (Hobs : obs_consistent spb_ (tb sl) (OReserve n) (bool_or_exn u) (obs_of (tb sl) x) (obs_of t1 y)).
  { cbn [obs_consistent]. split; [apply obs_pre_obs_of|]. split; [|apply bool_or_exn_no_fuel; exact Hnf].
    intros b Hb. apply bool_or_exn_bool in Hb. specialize (Hbig b Hb).
    unfold SpecSound.obs_of. cbn [o_hp]. rewrite N.shiftl_1_l, <- Hspb.
    change 18446744073709551616 with (2 ^ 64).
    destruct (N.lt_ge_cases (n + spb c) (2 ^ 64)) as [Hn|Hn]; [right|left; exact Hn].
    destruct (reserve_calc_fits c n (co_spb _ Hc) Hn) as [Hfit _].
    eapply N.le_trans; [exact Hfit|]. apply N.mul_le_mono_r. apply pow2_le_mono. exact Hbig. }
  assert (Hs' : op_spec (tb sl) m (OReserve n) (norm_out (bool_or_exn u)) m)
    by (rewrite bool_or_exn_norm; exact Hs).
  destruct (judge_complete c fapply spb_ (tb sl) s a ts m (OReserve n) _ m _ _ eq_refl Hspb Hg Hmv R Hs' Hobs)
    as [s' [Hj P]].
  exists t1, m, s'. split; [reflexivity|]. split; [exact G'|]. split; [exact L|]. split; [exact R'|].
  split; assumption.
Qed.

(* ================================================================== 8. the packaged statement *)

(* the only side condition on an operation that is not about the initial table: a reserve request
   must not wrap the 64-bit bucket computation.  SUPERFLUOUS since Spec.v's [big_enough] has the wrap
   disjunct ([model_reserve_accepted] does not use it); kept so that the statements are unchanged *)
Definition reserve_fits (o : op) : Prop :=
  match o with OReserve n => n + spb c < 2 ^ 64 | _ => True end.

(* the relation the composition maintains between a slot of the model and the acceptor's state *)
Definition related (sl : tslot) (m : amap) (s : sst) (a : nat) (ts : stab) : Prop :=
  active sl = false /\ lgood (tb sl) /\ rep (tb sl) m /\ mlfd (tb sl) <> 0 /\
  get_st s a = Some ts /\ st_moved ts = false /\ srep (st_m ts) m.

(* what one accepted step establishes *)
Definition accepted_step (w : world) (a : nat) (sl : tslot) (o : op) (w' : world) (r : out)
  (s : sst) (ts : stab) (x y : bool) : Prop :=
  exists t' m' s',
    w' = put_t w a sl t' /\ lgood t' /\ lim_same (tb sl) t' /\ mlfd t' <> 0 /\ rep t' m' /\
    judge s a o r (obs_of (tb sl) x) (obs_of t' y) = (s', []) /\ post_ok s' a ts m'.

(* the dispatch, generic in the escape clause [Esc] of the insert family *)
Lemma model_outputs_accepted_gen (Esc : Prop) w a sl o w' r m s ts x y :
  (ins_family o = true ->
   Esc \/ exists t' m' s',
     w' = put_t w a sl t' /\ lgood t' /\ lim_same (tb sl) t' /\ rep t' m' /\
     judge s a o r (obs_of (tb sl) x) (obs_of t' y) = (s', []) /\ post_ok s' a ts m') ->
  nothrow c = true -> normal_op o = true -> op_pre c (tb sl) o -> reserve_fits o ->
  related sl m s a ts ->
  step_some c hash fapply w a sl o = (w', r) ->
  Esc \/ accepted_step w a sl o w' r s ts x y.
Proof.
  intros Hinsert Hnt Hop Hpre Hfit [Hact [G [Rm [Hd [Hg [Hmv R]]]]]] E.
  assert (Fin : forall t' m' s',
            w' = put_t w a sl t' /\ lgood t' /\ lim_same (tb sl) t' /\ rep t' m' /\
            judge s a o r (obs_of (tb sl) x) (obs_of t' y) = (s', []) /\ post_ok s' a ts m' ->
            accepted_step w a sl o w' r s ts x y).
  { intros t' m' s' [H1 [H2 [H3 [H4 H5]]]]. exists t', m', s'.
    split; [exact H1|]. split; [exact H2|]. split; [exact H3|].
    split; [exact (mlfd_lim_same _ _ H3 Hd)|]. split; assumption. }
  destruct (ins_family o) eqn:Hins.
  { destruct (Hinsert eq_refl) as [He|[t' [m' [s' H]]]]; [left; exact He|right]. exact (Fin t' m' s' H). }
  right. destruct (lookup_or_clear o) eqn:Hlk.
  { destruct (lookup_refines_noesc c hash Hc fapply w a sl o w' r m Hact Hlk G Rm E)
      as [t' [m' [Hw [G' [L [R' Hs]]]]]].
    assert (Hn : norm_out r = r) by exact (op_spec_norm c fapply _ _ _ _ _ Hop Hs).
    rewrite <- Hn in Hs.
    destruct (judge_complete_lookup c fapply spb_ (tb sl) s a ts m o r m' (obs_of (tb sl) x) (obs_of t' y)
                Hlk Hg Hmv R Hs) as [s' [Hj P]].
    apply (Fin t' m' s'). split; [exact Hw|]. split; [exact G'|]. split; [exact L|].
    split; [exact R'|]. split; assumption. }
  destruct o; try discriminate Hop; try discriminate Hins; try discriminate Hlk.
  - destruct Hpre as [Hl Hdd].
    destruct (model_rehash_accepted w a sl n w' r m s ts x y Hnt Hact G Rm Hl Hdd E Hg Hmv R)
      as [t' [m' [s' H]]]. exact (Fin t' m' s' H).
  - destruct Hpre as [Hl Hdd]. cbn [reserve_fits] in Hfit.
    destruct (model_reserve_accepted w a sl n w' r m s ts x y Hnt Hact G Rm Hl Hdd E Hg Hmv R)
      as [t' [m' [s' H]]]. exact (Fin t' m' s' H).
Qed.

(* THE MODEL'S OUTPUTS ARE ACCEPTED, WITH NO OBSERVATION HYPOTHESIS: one normal-mode step of the
   sequential model from ANY well-formed table (deferred migration possibly pending), judged by
   the acceptor on the model's own statistics before ([obs_of (tb sl)]) and after ([obs_of t']),
   is not blamed, and everything assumed of the table and of the acceptor's state holds again
   afterwards.  Hypotheses: about the configuration ([cfg_ok], [nothrow]; for rehash / reserve
   [destructive c = false] as in LazyRefine), about the initial table ([lgood], [rep],
   [mlfd <> 0]; for rehash / reserve [limC (mhp ..)]), and [reserve_fits]. *)
Theorem model_outputs_accepted w a sl o w' r m s ts x y :
  nothrow c = true -> normal_op o = true -> op_pre c (tb sl) o -> reserve_fits o ->
  related sl m s a ts ->
  step_some c hash fapply w a sl o = (w', r) ->
  lesc (tb sl) \/ accepted_step w a sl o w' r s ts x y.
Proof.
  intros Hnt Hop Hpre Hfit Hrel E.
  apply (model_outputs_accepted_gen (lesc (tb sl)) w a sl o w' r m s ts x y); try assumption.
  intro Hins. destruct Hrel as [Hact [G [Rm [Hd [Hg [Hmv R]]]]]].
  exact (model_insert_accepted w a sl o w' r m s ts x y Hnt Hact Hins G Rm Hd E Hg Hmv R).
Qed.

(* the same with the sharp escape clause *)
Theorem model_outputs_accepted_sharp w a sl o w' r m s ts x y :
  nothrow c = true -> normal_op o = true -> op_pre c (tb sl) o -> reserve_fits o ->
  related sl m s a ts ->
  step_some c hash fapply w a sl o = (w', r) ->
  big_esc c (tb sl) \/ accepted_step w a sl o w' r s ts x y.
Proof.
  intros Hnt Hop Hpre Hfit Hrel E.
  apply (model_outputs_accepted_gen (big_esc c (tb sl)) w a sl o w' r m s ts x y); try assumption.
  intro Hins. destruct Hrel as [Hact [G [Rm [Hd [Hg [Hmv R]]]]]].
  exact (model_insert_accepted_sharp w a sl o w' r m s ts x y Hnt Hact Hins G Rm Hd E Hg Hmv R).
Qed.

(* no escape clause at all when the maximum hashpower is capped, or when a minimum load factor is
   set and the table holds fewer elements than that load factor at 2^59 buckets *)
Corollary model_outputs_accepted_small w a sl o w' r m s ts x y :
  nothrow c = true -> normal_op o = true -> op_pre c (tb sl) o -> reserve_fits o ->
  related sl m s a ts ->
  mhp (tb sl) <= 59 \/ tsize (tb sl) * mlfd (tb sl) < mlfn (tb sl) * (2 ^ 59 * spb c) ->
  step_some c hash fapply w a sl o = (w', r) ->
  accepted_step w a sl o w' r s ts x y.
Proof.
  intros Hnt Hop Hpre Hfit Hrel Hsmall E.
  destruct (model_outputs_accepted_sharp w a sl o w' r m s ts x y Hnt Hop Hpre Hfit Hrel E) as [[H1 H2]|H];
    [|exact H].
  exfalso. destruct Hsmall as [Hs|Hs]; lia.
Qed.

(* the conclusion re-establishes [related] for the new slot and the acceptor's new state: the
   theorem can be iterated along a script, its hypotheses being about the initial table only *)
Corollary related_preserved a sl t' m' s' ts :
  active sl = false -> lgood t' -> mlfd t' <> 0 -> rep t' m' -> post_ok s' a ts m' ->
  exists ts', related {| tb := t'; active := active sl |} m' s' a ts'.
Proof.
  intros Hact G' Hd' R' [ts' [Hg' [_ [Hmv' R'']]]]. exists ts'.
  split; [exact Hact|]. split; [exact G'|]. split; [exact R'|]. split; [exact Hd'|].
  split; [exact Hg'|]. split; assumption.
Qed.

(* ================================================================== 8'. along a script *)

(* a script of normal-mode operations on slot [a], each step judged on the model's own statistics
   before and after it *)
Fixpoint script_accepted (w : world) (a : nat) (sl : tslot) (s : sst) (ops : list op) : Prop :=
  match ops with
  | [] => True
  | o :: rest =>
    let '(w', r) := step_some c hash fapply w a sl o in
    exists t' s',
      w' = put_t w a sl t' /\
      judge s a o r (obs_of (tb sl) (active sl)) (obs_of t' (active sl)) = (s', []) /\
      script_accepted w' a {| tb := t'; active := active sl |} s' rest
  end.

(* side conditions of a script: they mention the operations and the (constant) maximum hashpower *)
Definition op_side (mh : N) (o : op) : Prop :=
  normal_op o = true /\ reserve_fits o /\
  match o with ORehash _ | OReserve _ => limC c mh /\ destructive c = false | _ => True end.

(* THE COMPOSITION ALONG A SCRIPT: hypotheses about the configuration, the INITIAL table (and the
   acceptor state representing the same map) and the script only.  The cap on the maximum
   hashpower (preserved by every step) removes the escape clause altogether. *)
Theorem script_accepted_from_initial ops : forall w a sl m s ts,
  nothrow c = true -> mhp (tb sl) <= 59 -> Forall (op_side (mhp (tb sl))) ops ->
  related sl m s a ts ->
  script_accepted w a sl s ops.
Proof.
  induction ops as [|o rest IH]; intros w a sl m s ts Hnt Hcap Hops Hrel; cbn [script_accepted]; [exact I|].
  inversion Hops as [|o' rest' [Hop [Hfit Hside]] Hrest]; subst o' rest'.
  destruct (step_some c hash fapply w a sl o) as [w' r] eqn:E.
  assert (Hpre : op_pre c (tb sl) o) by (destruct o; try exact I; exact Hside).
  destruct (model_outputs_accepted_small w a sl o w' r m s ts (active sl) (active sl)
              Hnt Hop Hpre Hfit Hrel (or_introl Hcap) E) as [t' [m' [s' [Hw [G' [L [Hd' [R' [Hj P]]]]]]]]].
  exists t', s'. split; [exact Hw|]. split; [exact Hj|].
  assert (Hact : active sl = false) by (destruct Hrel as [H _]; exact H).
  destruct (related_preserved a sl t' m' s' ts Hact G' Hd' R' P) as [ts' Hrel'].
  assert (Em : mhp t' = mhp (tb sl)) by (destruct L as [_ [_ [H _]]]; exact H).
  apply (IH w' a _ m' s' ts' Hnt); cbn [tb]; [rewrite Em; exact Hcap|rewrite Em; exact Hrest|exact Hrel'].
Qed.

End Accept.

(* ================================================================== 9. non-vacuity and findings *)

Module AcceptModelExamples.
Import SpecSoundExamples.

(* ---- section 1: capacity() of a fresh table, no wrap *)
Example capacity_nowrap_ex : capacity c0 t00 = 2 ^ bhp (cur t00) * spb c0 /\ bhp (cur t00) < 60.
Proof. split; vm_compute; reflexivity. Qed.

(* the wrap is real above the invariant's range: 2^62 buckets of 4 slots report capacity 0 *)
Example capacity_wraps : capacity c0 (set_cur t00 (bnew 62)) = 0.
Proof. vm_compute. reflexivity. Qed.

Lemma t00_good : good c0 h0 t00 /\ rep c0 t00 mempty.
Proof.
  destruct (good_new_table c0 h0 c0_ok 0) as [G [Hno _]]; [vm_compute; reflexivity|].
  split; [exact G|]. intros k v. rewrite (good_lholds c0 h0 t00 k v G).
  split; [intro H; exfalso; exact (Hno k v H)|discriminate].
Qed.

Definition sl0 : tslot := {| tb := t00; active := false |}.
Definition ts0 : stab := {| st_m := []; st_act := false; st_moved := false |}.

Lemma related0 : related c0 h0 sl0 mempty s0 0 ts0.
Proof.
  destruct t00_good as [G R].
  split; [reflexivity|]. split; [apply good_lgood; exact G|]. split; [exact R|].
  split; [apply mlfd_new_table|]. split; [reflexivity|]. split; [reflexivity|apply srep_nil].
Qed.

(* ---- section 2: size() from the contents *)
Example tsize_contents_ex : tsize t00 = tsize t00 /\ tsize t00 = 0.
Proof.
  split; [|vm_compute; reflexivity].
  apply (tsize_contents c0 h0 c0_ok); [apply good_lgood, t00_good|apply good_lgood, t00_good|reflexivity].
Qed.

(* ---- sections 6-8: every normal-mode operation on a fresh table of the model is accepted on the
   model's own statistics; no escape clause, no observation hypothesis (the table has no maximum
   hashpower: [lesc] could not be excluded, the sharp clause can) *)
Example fresh_table_accepted o w' r x y :
  normal_op o = true -> (forall n, o <> ORehash n) -> (forall n, o <> OReserve n) ->
  step_some c0 h0 fapply_std w0 0 sl0 o = (w', r) ->
  accepted_step c0 h0 fapply_std 4 w0 0 sl0 o w' r s0 ts0 x y.
Proof.
  intros Hop Hr1 Hr2 E.
  apply (model_outputs_accepted_small c0 h0 c0_ok fapply_std 4 eq_refl w0 0 sl0 o w' r mempty s0 ts0 x y
           eq_refl Hop); [| |exact related0| |exact E].
  - destruct o; try exact I. exfalso. exact (Hr1 n eq_refl). exfalso. exact (Hr2 n eq_refl).
  - destruct o; try exact I. exfalso. exact (Hr2 n eq_refl).
  - right. vm_compute. reflexivity.
Qed.

(* the concrete verdict for one insert, computed: nothing blamed, the acceptor's list follows *)
Example insert_on_fresh_table :
  let '(w', r) := step_some c0 h0 fapply_std w0 0 sl0 (OInsert 5 7%Z) in
  r = [RBool true] /\
  match get_tab w' 0 with
  | Some sl' =>
      judge_op fapply_std 4 s0 0 (OInsert 5 7%Z) r (obs_of c0 t00 false) (obs_of c0 (tb sl') false)
      = ({| s_tabs := [Some {| st_m := [(5, 7%Z)]; st_act := false; st_moved := false |}];
            s_its := []; s_order := None; s_imgs := [] |}, [])
  | None => False
  end.
Proof. vm_compute. split; reflexivity. Qed.

(* rehash / reserve need a capped maximum hashpower ([op_pre], as in LazyRefine) *)
Definition t01 : table := set_mhp t00 10.
Definition sl1 : tslot := {| tb := t01; active := false |}.
Definition w1 : world := {| tabs := [Some sl1]; its := []; imgs := [] |}.

Lemma related1 : related c0 h0 sl1 mempty s0 0 ts0.
Proof.
  destruct t00_good as [G R].
  assert (G1 : good c0 h0 t01) by (apply good_set_mhp; [exact G|vm_compute; discriminate]).
  split; [reflexivity|]. split; [apply good_lgood; exact G1|]. split.
  - intros k v. rewrite (good_lholds c0 h0 t01 k v G1). change (cur t01) with (cur t00).
    rewrite <- (good_lholds c0 h0 t00 k v G). apply R.
  - split; [apply mlfd_new_table|]. split; [reflexivity|]. split; [reflexivity|apply srep_nil].
Qed.

Example reserve_accepted_ex w' r x y :
  step_some c0 h0 fapply_std w1 0 sl1 (OReserve 100) = (w', r) ->
  accepted_step c0 h0 fapply_std 4 w1 0 sl1 (OReserve 100) w' r s0 ts0 x y.
Proof.
  intro E.
  apply (model_outputs_accepted_small c0 h0 c0_ok fapply_std 4 eq_refl w1 0 sl1 (OReserve 100) w' r mempty s0 ts0 x y
           eq_refl eq_refl); [| |exact related1| |exact E].
  - split; [split; vm_compute; discriminate|reflexivity].
  - vm_compute. reflexivity.
  - left. vm_compute. discriminate.
Qed.

(* the script theorem on that table *)
Example script_ex w :
  script_accepted c0 h0 fapply_std 4 w 0 sl1 s0
    [OInsert 1 7%Z; OFind 1; OReserve 100; OUpsert 1 (FAdd 1) true 0%Z; ORehash 2; OErase 1; OClear].
Proof.
  apply (script_accepted_from_initial c0 h0 c0_ok fapply_std 4 eq_refl _ w 0 sl1 mempty s0 ts0 eq_refl).
  - vm_compute. discriminate.
  - assert (HlimC : limC c0 (mhp (tb sl1))) by (split; vm_compute; discriminate).
    repeat (apply Forall_cons;
      [split; [reflexivity|]; split;
       [first [exact I|vm_compute; reflexivity]|first [exact I|split; [exact HlimC|reflexivity]]]|]).
    apply Forall_nil.
  - exact related1.
Qed.

(* ---- (h1) and (h2) exercised by the model: one slot per bucket and a constant hash function, so
   that the third key finds both its buckets full whatever the hashpower.  The second insert
   doubles once (2^0 -> 2^1 at load factor 1 >= 1/20); the third doubles 2^1 -> 2^6 (the last
   doubling at 2^5: 2 * 20 >= 1 * 32) and then throws load_factor_too_low at 2^6
   (2 * 20 < 1 * 64, strictly below).  Both outputs are accepted on the model's statistics. *)
Definition cE : config := {| spb := 1; lbits := 16; simple := true; nothrow := true; destructive := false |}.
Definition hE (_ : N) : N := 0.
Definition slE : tslot := {| tb := new_table cE 0; active := false |}.
Definition wE : world := {| tabs := [Some slE]; its := []; imgs := [] |}.
Definition sE (l : smap) : sst :=
  {| s_tabs := [Some {| st_m := l; st_act := false; st_moved := false |}]; s_its := []; s_order := None; s_imgs := [] |}.

Example doubling_and_exception_accepted :
  let '(wA, rA) := step_some cE hE fapply_std wE 0 slE (OInsert 1 7%Z) in
  match get_tab wA 0 with
  | Some slA =>
    let '(wB, rB) := step_some cE hE fapply_std wA 0 slA (OInsert 2 7%Z) in
    match get_tab wB 0 with
    | Some slB =>
      let '(wC, rC) := step_some cE hE fapply_std wB 0 slB (OInsert 3 7%Z) in
      match get_tab wC 0 with
      | Some slC =>
        rB = [RBool true] /\ bhp (cur (tb slA)) = 0 /\ bhp (cur (tb slB)) = 1 /\
        snd (judge_op fapply_std 1 (sE [(1, 7%Z)]) 0 (OInsert 2 7%Z) rB
               (obs_of cE (tb slA) false) (obs_of cE (tb slB) false)) = [] /\
        rC = [RExn ELoadFactorTooLow] /\ bhp (cur (tb slC)) = 6 /\ tsize (tb slC) = 2 /\
        lf_lt_mlf cE (tb slC) = true /\
        snd (judge_op fapply_std 1 (sE [(2, 7%Z); (1, 7%Z)]) 0 (OInsert 3 7%Z) rC
               (obs_of cE (tb slB) false) (obs_of cE (tb slC) false)) = []
      | None => False
      end
    | None => False
    end
  | None => False
  end.
Proof. vm_compute. repeat split; reflexivity. Qed.

(* ---- FORMER FINDING 1 (acceptor vs model, reserve): a request that wraps the 64-bit bucket
   computation of reserve_calc (the model follows the C++: (n + SLOT_PER_BUCKET - 1) /
   SLOT_PER_BUCKET in size_t) is answered "nothing to do" by the model.  The acceptor used to blame
   that answer; Spec.v's [big_enough] now has the wrap disjunct and the answer is accepted. *)
Example reserve_wrap_now_accepted :
  let n := 18446744073709551615 in
  let '(w', r) := step_some c0 h0 fapply_std w1 0 sl1 (OReserve n) in
  r = [RBool false] /\ get_tab w' 0 = Some sl1 /\
  snd (judge_op fapply_std 4 s0 0 (OReserve n) r (obs_of c0 t01 false) (obs_of c0 t01 false)) = [].
Proof. vm_compute. repeat split; reflexivity. Qed.

(* ---- FINDING 2 (the escape clause of LazyRefine / SpecSound): [lesc] is not tied to the run.  It
   holds of a FRESH EMPTY table with the default (absent) maximum hashpower, because an empty
   table of 2^59 buckets with the same limits exists.  So every theorem of the form
   "lesc t \/ ..." (LazyRefine.uprase_gen_lgood, normal_mode_op_refines, SpecSound.model_accepted,
   model_accepted_insert, and [model_outputs_accepted] above) says nothing about tables whose
   maximum hashpower is >= 60 or unset; [big_esc] does not have this defect: *)
Example lesc_holds_of_a_fresh_table : lesc c0 h0 t00.
Proof.
  destruct t00_good as [G0 R0].
  destruct (good_new_table c0 h0 c0_ok 2305843009213693952) as [G [Hno Hhp]]; [vm_compute; reflexivity|].
  exists (new_table c0 2305843009213693952). split; [|split].
  - split; [apply good_lgood; exact G|]. split; [|split].
    + intros k v. rewrite (good_lholds c0 h0 _ k v G), (R0 k v).
      split; [intro H; exfalso; exact (Hno k v H)|discriminate].
    + repeat split.
    + rewrite Hhp. vm_compute. discriminate.
  - rewrite Hhp. vm_compute. reflexivity.
  - vm_compute. discriminate.
Qed.

Example big_esc_fails_of_a_fresh_table : ~ big_esc c0 t00.
Proof. intros [_ H]. vm_compute in H. apply H. reflexivity. Qed.

End AcceptModelExamples.
