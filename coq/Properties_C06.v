(* C06 - an active locked_table owns the table exclusively: the protocol statements.
   A thread in state AH is an active locked_table (or a resize in progress).
   Statements only; closed by [exact] of lemmas of ConcInv.v. *)
From Coq Require Import NArith List.
From LC Require Import Conc ConcInv.
Import ListNotations.

Theorem C06_section_exclusive : forall hp0 rc0 arrs0, arrs_ok arrs0 -> forall s, reachable hp0 rc0 arrs0 s ->
  forall t first d, thr s t = AH first d -> forall t', t' <> t -> ~ validated (thr s t') /\ ~ all_holder (thr s t').
Proof. exact all_holder_exclusive. Qed.
Print Assumptions C06_section_exclusive.

(* growth inside the section never releases ownership: whatever the section did, it still owns every
   lock of every array (EMPLACE creates the new array already owned) *)
Theorem C06_growth_keeps_ownership : forall hp0 rc0 arrs0, arrs_ok arrs0 -> forall s, reachable hp0 rc0 arrs0 s ->
  forall t first d, thr s t = AH first d ->
  d = g_dirty (sh_ s) /\ first + 1 <= g_narr0 (sh_ s) /\ g_narr0 (sh_ s) <= narr (sh_ s) /\ (forall a l, first <= a -> a < narr (sh_ s) -> l < asz (sh_ s) a -> g_held (sh_ s) a l = Some t).
Proof. exact all_holder_facts. Qed.
Print Assumptions C06_growth_keeps_ownership.

(* operations that were blocked (or had taken their snapshot) before the section observe the state
   the section left: the section cannot release while a write is unpublished, and any thread that
   validates afterwards has the current size and generation *)
Theorem C06_section_publishes_before_release : forall hp0 rc0 arrs0, arrs_ok arrs0 -> forall s, reachable hp0 rc0 arrs0 s ->
  forall t first d a l s', thr s t = AH first d -> gstep s t (UNLOCK a l) = Some s' ->
  d = false /\ g_dirty (sh_ s) = false /\ g_hp (sh_ s) = g_hp0 (sh_ s) /\ narr (sh_ s) = g_narr0 (sh_ s).
Proof. exact release_only_after_bump. Qed.
Print Assumptions C06_section_publishes_before_release.

Theorem C06_later_operations_see_the_state_left : forall hp0 rc0 arrs0, arrs_ok arrs0 -> forall s, reachable hp0 rc0 arrs0 s ->
  forall t sn sa x r, thr s t = CS sn sa (x :: r) \/ (exists l, thr s t = CW sn sa (x :: r) l) ->
  sc sn = g_rc (sh_ s) /\ sh sn = g_hp (sh_ s) /\ sa + 1 = narr (sh_ s) /\ g_dirty (sh_ s) = false /\ (forall y, In y (x :: r) -> g_held (sh_ s) sa y = Some t /\ y < asz (sh_ s) sa) /\ (forall t', ~ all_holder (thr s t')).
Proof. exact validated_current. Qed.
Print Assumptions C06_later_operations_see_the_state_left.

(* ---- a stream extraction inside the section that FAILS still hands the table back protocol-consistent: every failing opportunity after the bucket array was replaced comes after the generation bump (Effects.v; the order before repair 11077aa is rejected by stream_in_bump_last_is_inconsistent) ---- *)
From LC Require Import gen.EffectOrder Effects.
Theorem C06_failed_extraction_leaves_no_unbumped_write :
  forall (k : nat) (b : bool), run_pending stream_in_effects k false = Some b -> b = false.
Proof. exact stream_in_failure_leaves_no_unbumped_write. Qed.
Print Assumptions C06_failed_extraction_leaves_no_unbumped_write.

Theorem C06_consistent_order_leaves_no_unbumped_write :
  forall effs : list effect,
  consistent_order effs = true ->
  forall (k : nat) (b : bool), run_pending effs k false = Some b -> b = false.
Proof. exact consistent_order_failure_leaves_no_unbumped_write. Qed.
Print Assumptions C06_consistent_order_leaves_no_unbumped_write.
