(* C06 - placeholder until ConcInv.v is delivered *)
From LC Require Import Conc.
Theorem C06_model_initial_state_idle : forall hp rc arrs t, thr (ginit hp rc arrs) t = Idle.
Proof. reflexivity. Qed.
Print Assumptions C06_model_initial_state_idle.
