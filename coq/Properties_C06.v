(* C06 - an active locked_table owns the table exclusively: the protocol statements.
   A thread in state AH is an active locked_table (or a resize in progress).
   Statements only; closed by [exact] of lemmas of ConcInv.v. *)
From Coq Require Import NArith List.
From LC Require Import Conc ConcInv.
Import ListNotations.

Theorem C06_section_exclusive : forall hp0 rc0 arrs0, arrs_ok arrs0 -> forall s, reachable hp0 rc0 arrs0 s ->
  forall t first d, thr s t = AH first d -> forall t', t' <> t -> ~ validated (thr s t') /\ ~ all_holder (thr s t').
Proof. exact all_holder_exclusive. Qed.
Print Assumptions C06_section_exclusive.

(* growth inside the section never releases ownership: whatever the section did, it still owns every
   lock of every array (EMPLACE creates the new array already owned) *)
Theorem C06_growth_keeps_ownership : forall hp0 rc0 arrs0, arrs_ok arrs0 -> forall s, reachable hp0 rc0 arrs0 s ->
  forall t first d, thr s t = AH first d ->
  d = g_dirty (sh_ s) /\ first + 1 <= g_narr0 (sh_ s) /\ g_narr0 (sh_ s) <= narr (sh_ s) /\ (forall a l, first <= a -> a < narr (sh_ s) -> l < asz (sh_ s) a -> g_held (sh_ s) a l = Some t).
Proof. exact all_holder_facts. Qed.
Print Assumptions C06_growth_keeps_ownership.

(* operations that were blocked (or had taken their snapshot) before the section observe the state
   the section left: the section cannot release while a write is unpublished, and any thread that
   validates afterwards has the current size and generation *)
Theorem C06_section_publishes_before_release : forall hp0 rc0 arrs0, arrs_ok arrs0 -> forall s, reachable hp0 rc0 arrs0 s ->
  forall t first d a l s', thr s t = AH first d -> gstep s t (UNLOCK a l) = Some s' ->
  d = false /\ g_dirty (sh_ s) = false /\ g_hp (sh_ s) = g_hp0 (sh_ s) /\ narr (sh_ s) = g_narr0 (sh_ s).
Proof. exact release_only_after_bump. Qed.
Print Assumptions C06_section_publishes_before_release.

Theorem C06_later_operations_see_the_state_left : forall hp0 rc0 arrs0, arrs_ok arrs0 -> forall s, reachable hp0 rc0 arrs0 s ->
  forall t sn sa x r, thr s t = CS sn sa (x :: r) \/ (exists l, thr s t = CW sn sa (x :: r) l) ->
  sc sn = g_rc (sh_ s) /\ sh sn = g_hp (sh_ s) /\ sa + 1 = narr (sh_ s) /\ g_dirty (sh_ s) = false /\ (forall y, In y (x :: r) -> g_held (sh_ s) sa y = Some t /\ y < asz (sh_ s) sa) /\ (forall t', ~ all_holder (thr s t')).
Proof. exact validated_current. Qed.
Print Assumptions C06_later_operations_see_the_state_left.

(* ---- a stream extraction inside the section that FAILS still hands the table back protocol-consistent: every failing opportunity after the bucket array was replaced comes after the generation bump (Effects.v; the order before repair 11077aa is rejected by stream_in_bump_last_is_inconsistent) ---- *)
From LC Require Import gen.EffectOrder Effects.
Theorem C06_failed_extraction_leaves_no_unbumped_write :
  forall (k : nat) (b : bool), run_pending stream_in_effects k false = Some b -> b = false.
Proof. exact stream_in_failure_leaves_no_unbumped_write. Qed.
Print Assumptions C06_failed_extraction_leaves_no_unbumped_write.

Theorem C06_consistent_order_leaves_no_unbumped_write :
  forall effs : list effect,
  consistent_order effs = true ->
  forall (k : nat) (b : bool), run_pending effs k false = Some b -> b = false.
Proof. exact consistent_order_failure_leaves_no_unbumped_write. Qed.
Print Assumptions C06_consistent_order_leaves_no_unbumped_write.

(* ---- on creation the locked_table exposes every stored element, whatever migration was pending (LockedRefine.v) ---- *)
From LC Require Import LazyRefine LockedRefine.
Theorem C06_lock_exposes_every_element :
  forall (c : Core.config) (hash : N -> N),
  InvDefs.cfg_ok c ->
  forall (fapply : Api.fnk -> Z -> bool -> Z * bool) (w : Api.world) (a : nat)
  (s : Api.tslot) (m : amap) (w1 : Api.world) (r1 : Api.out) (w2 : Api.world)
  (r2 : Api.out),
  Api.active s = false ->
  lgood c hash (Api.tb s) ->
  rep c (Api.tb s) m ->
  Api.step_some c hash fapply w a s Api.OLock = (w1, r1) ->
  Api.step_some c hash fapply w1 a
  {| Api.tb := Core.rehash_with_workers c hash (Api.tb s); Api.active := true |} Api.LTraverse =
  (w2, r2) ->
  w1 =
  Api.reset_its
  (Api.put_tab w a
  (Some {| Api.tb := Core.rehash_with_workers c hash (Api.tb s); Api.active := true |})) /\
  r1 = [Api.RNone] /\
  w2 = w1 /\
  is_listing m (Refine.kvs r2) /\
  Refine.kvs r2 = contents c (Core.rehash_with_workers c hash (Api.tb s)).
Proof. exact lock_exposes_every_element. Qed.
Print Assumptions C06_lock_exposes_every_element.

Theorem C06_lock_enters_section :
  forall (c : Core.config) (hash : N -> N),
  InvDefs.cfg_ok c ->
  forall (fapply : Api.fnk -> Z -> bool -> Z * bool) (w : Api.world) (a : nat)
  (s : Api.tslot) (m : amap) (w' : Api.world) (r : Api.out),
  Api.get_tab w a = Some s ->
  a < length (Api.tabs w) ->
  Api.active s = false ->
  lgood c hash (Api.tb s) ->
  rep c (Api.tb s) m ->
  Refine.limC c (Core.mhp (Api.tb s)) ->
  Api.step c hash fapply w a Api.OLock = (w', r) ->
  r = [Api.RNone] /\
  sect c hash w' a (Core.rehash_with_workers c hash (Api.tb s)) m /\
  Refine.lim_same (Api.tb s) (Core.rehash_with_workers c hash (Api.tb s)) /\
  Core.tsize (Core.rehash_with_workers c hash (Api.tb s)) = Core.tsize (Api.tb s) /\
  Core.bhp (Core.cur (Core.rehash_with_workers c hash (Api.tb s))) = Core.bhp (Core.cur (Api.tb s)).
Proof. exact lock_enters_section. Qed.
Print Assumptions C06_lock_enters_section.

Theorem C06_unlock_leaves_section :
  forall (c : Core.config) (hash : N -> N) (fapply : Api.fnk -> Z -> bool -> Z * bool) 
  (w : Api.world) (a : nat) (t : Core.table) (m : amap) (w' : Api.world) (r : Api.out),
  sect c hash w a t m ->
  Api.step c hash fapply w a Api.OUnlock = (w', r) ->
  r = [Api.RNone] /\
  Api.get_tab w' a = Some {| Api.tb := t; Api.active := false |} /\ Refine.good c hash t /\ rep c t m.
Proof. exact unlock_leaves_section. Qed.
Print Assumptions C06_unlock_leaves_section.
