(* C15, second half: tables handed out by the C interface (init and read) have no minimum load factor and no
   maximum hashpower, and every later insertion keeps it that way, so an insertion-type call on such a table
   cannot end in a policy exception: the only exceptional outcome left in the model is its own fuel bound
   (excluded for the immediate regime by NoFuel.v) - and the escape clause of a table of 2^59 buckets. *)
From Coq Require Import NArith ZArith List Lia.
From LC Require Import gen.HashGen Core Api InvDefs ArrLemmas InsertLemmas CApi CApiLemmas Lazy Refine LazyRefine NoFuel.
Import ListNotations.
Local Open Scope N_scope.

Section CApiRefine.
Variable c : config.
Variable hash : N -> N.
Hypothesis Hc : cfg_ok c.
Hypothesis Hnt : nothrow c = true.

Lemma no_limits_lim_same t t' : no_limits t -> lim_same t t' -> no_limits t'.
Proof. intros [A B] [E1 [_ [E3 _]]]. split; congruence. Qed.

(* normal mode, any state of deferred migration *)
Theorem c_table_insert_no_policy_exception t k v g t' r :
  lgood c hash t -> no_limits t ->
  uprase_gen c hash false t k v g = (t', r) ->
  lesc c hash t \/
  (exists e, r = inl e /\ e = EOutOfFuel) \/
  (exists ins lg pos, r = inr (ins, lg, pos) /\ lgood c hash t' /\ no_limits t').
Proof.
  intros G [Hmlf Hmhp] E.
  destruct (uprase_gen_lgood c hash Hc t k v g Hnt G t' r E) as [Hp Ha].
  destruct (lholds_dec c hash Hc t k (proj1 G)) as [[v0 Hv0]|Habs].
  - destruct (Hp v0 Hv0) as [b [s [-> [G' [L _]]]]].
    right. right. do 3 eexists. split; [reflexivity|]. split; [exact G'|].
    eapply no_limits_lim_same; [split; eassumption|exact L].
  - destruct (Ha Habs) as [He|[[e [-> [[[[_ Hne]|[[_ [_ Hne]]|He0]] _] _]]]|[b [s [-> [G' [L _]]]]]]].
    + left. exact He.
    + exfalso. apply Hne. exact Hmhp.
    + exfalso. apply Hne. exact Hmlf.
    + right. left. exists e. split; [reflexivity|exact He0].
    + right. right. do 3 eexists. split; [reflexivity|]. split; [exact G'|].
      eapply no_limits_lim_same; [split; eassumption|exact L].
Qed.

(* locked mode (every doubling immediate): fuel excluded too *)
Theorem c_table_locked_insert_never_throws t k v g :
  good c hash t -> no_limits t ->
  esc c hash t \/ exists ins lg pos, snd (uprase_gen c hash true t k v g) = inr (ins, lg, pos).
Proof.
  intros G [Hmlf Hmhp].
  assert (Him : immediate c true t) by (left; reflexivity).
  destruct (uprase_gen_no_fuel c hash Hc true t k v g Hnt G Him) as [He|Hnf]; [left; exact He|].
  destruct (uprase_gen c hash true t k v g) as [t' r] eqn:E. cbn [snd] in *.
  destruct (uprase_gen_good c hash Hc true t k v g Hnt G Him t' r E) as [Hp Ha].
  assert (Hao : arr_ok c hash (cur t)) by (destruct G as [Gs _]; exact (se_arr _ _ _ Gs)).
  destruct (key_in_dec c hash t k Hao) as [Hin|Hout].
  - destruct (proj1 (key_in_holds _ _) Hin) as [v0 Hv0].
    destruct (Hp v0 Hv0) as [b [s [-> _]]]. right. do 3 eexists. reflexivity.
  - destruct (Ha Hout) as [He|[[e [-> [[[[_ Hne]|[[_ [_ Hne]]|He0]] _] _]]]|[b [s [-> _]]]]].
    + left. exact He.
    + exfalso. apply Hne. exact Hmhp.
    + exfalso. apply Hne. exact Hmlf.
    + exfalso. apply Hnf. rewrite He0. reflexivity.
    + right. do 3 eexists. reflexivity.
Qed.
End CApiRefine.
