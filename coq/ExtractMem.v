(* Extraction of the executable happens-before / race detector (MemDefs.v) with the memory orders read off
   the generated site list.  ExtrOcamlBasic only; nat stays a Coq datatype (ids are renumbered densely). *)
From Coq Require Extraction ExtrOcamlBasic.
From Coq Require Import List.
From LC Require Import gen.MemOrders MemDefs.
Extraction Language OCaml.
Extraction "memmodel.ml" races wf_locks protected_by hb_b orders_of_sites sites source_orders is_acq is_rel.
