(* L1: executable sequential model of libcuckoo's cuckoohash_map (definitions only, no proofs).
   Names follow the C++ source (libcuckoo/cuckoohash_map.hh, bucket_container.hh); the order of
   reads and writes follows the source statement order, because the correspondence check
   compares the complete internal state slot by slot after every operation.               *)
From Coq Require Import NArith ZArith List Bool FMapPositive.
From LC Require Import gen.HashGen.
Import ListNotations.
Local Open Scope N_scope.

(* ------------------------------------------------------------------ configuration *)
Record config := {
  spb : N;            (* SLOT_PER_BUCKET > 0 *)
  lbits : N;          (* kMaxNumLocks = 2 ^ lbits *)
  simple : bool;      (* is_simple(): partial-tag filter off *)
  nothrow : bool;     (* is_data_nothrow_move_constructible() *)
  destructive : bool  (* a moved-from element differs from the original (husk) *)
}.

Definition kmax (c : config) : N := 2 ^ lbits c.

(* ------------------------------------------------------------------ data *)
Record entry := { ekey : N; eval : Z; epart : N; ehusk : bool }.

Definition slotmap := PositiveMap.t (PositiveMap.t entry).

Record barray := { bhp : N; bsl : slotmap; bdead : bool (* buckets_ == nullptr *) }.

Record lockm := { cnt : Z; mig : bool }.
Definition lockarr := list lockm.

Record table := {
  cur : barray; old : barray;
  locks : list lockarr;           (* all_locks_, oldest first; last = current *)
  nrem : N;                       (* num_remaining_lazy_rehash_locks_ *)
  rc : N;                         (* resize_counter_ *)
  mlfn : N; mlfd : N;             (* minimum_load_factor_ = mlfn / mlfd *)
  mhp : N;                        (* maximum_hashpower_ (NO_MAXIMUM_HASHPOWER = none) *)
  workers : N                     (* max_num_worker_threads_ *)
}.

Inductive exn := ELoadFactorTooLow | EMaxHashpower | EInvalidArgument | EOutOfRange
               | EBadAlloc | EUser | EOutOfFuel | EUnmodelled.

(* ------------------------------------------------------------------ bucket arrays *)
Definition pidx (n : N) : positive := N.succ_pos n.

Definition bget (a : barray) (b s : N) : option entry :=
  match PositiveMap.find (pidx b) (bsl a) with
  | Some m => PositiveMap.find (pidx s) m
  | None => None
  end.

Definition sset (m : slotmap) (b s : N) (e : option entry) : slotmap :=
  let row := match PositiveMap.find (pidx b) m with Some r => r | None => PositiveMap.empty entry end in
  let row' := match e with Some x => PositiveMap.add (pidx s) x row | None => PositiveMap.remove (pidx s) row end in
  PositiveMap.add (pidx b) row' m.

Definition bset (a : barray) (b s : N) (e : option entry) : barray :=
  {| bhp := bhp a; bsl := sset (bsl a) b s e; bdead := bdead a |}.

Definition bnew (hp : N) : barray := {| bhp := hp; bsl := PositiveMap.empty _; bdead := false |}.
(* clear_and_deallocate / a moved-from or never-allocated container *)
Definition bdealloc (a : barray) : barray := {| bhp := bhp a; bsl := PositiveMap.empty _; bdead := true |}.
Definition bclear (a : barray) : barray := {| bhp := bhp a; bsl := PositiveMap.empty _; bdead := bdead a |}.

Definition occupied (a : barray) (b s : N) : bool :=
  match bget a b s with Some _ => true | None => false end.

(* ------------------------------------------------------------------ lock arrays *)
Definition dflt_lock : lockm := {| cnt := 0%Z; mig := true |}.

Fixpoint upd {A} (n : nat) (f : A -> A) (l : list A) : list A :=
  match l, n with
  | [], _ => []
  | x :: r, O => f x :: r
  | x :: r, S n' => x :: upd n' f r
  end.

Definition cur_locks (t : table) : lockarr := last (locks t) [].

Fixpoint upd_last {A} (f : A -> A) (l : list A) : list A :=
  match l with
  | [] => []
  | [x] => [f x]
  | x :: r => x :: upd_last f r
  end.

Definition set_locks (t : table) (ls : list lockarr) : table :=
  {| cur := cur t; old := old t; locks := ls; nrem := nrem t; rc := rc t;
     mlfn := mlfn t; mlfd := mlfd t; mhp := mhp t; workers := workers t |}.
Definition set_cur (t : table) (a : barray) : table :=
  {| cur := a; old := old t; locks := locks t; nrem := nrem t; rc := rc t;
     mlfn := mlfn t; mlfd := mlfd t; mhp := mhp t; workers := workers t |}.
Definition set_old (t : table) (a : barray) : table :=
  {| cur := cur t; old := a; locks := locks t; nrem := nrem t; rc := rc t;
     mlfn := mlfn t; mlfd := mlfd t; mhp := mhp t; workers := workers t |}.
Definition set_nrem_raw (t : table) (n : N) : table :=
  {| cur := cur t; old := old t; locks := locks t; nrem := n; rc := rc t;
     mlfn := mlfn t; mlfd := mlfd t; mhp := mhp t; workers := workers t |}.
Definition set_rc (t : table) (n : N) : table :=
  {| cur := cur t; old := old t; locks := locks t; nrem := nrem t; rc := n;
     mlfn := mlfn t; mlfd := mlfd t; mhp := mhp t; workers := workers t |}.
Definition set_mlf (t : table) (n d : N) : table :=
  {| cur := cur t; old := old t; locks := locks t; nrem := nrem t; rc := rc t;
     mlfn := n; mlfd := d; mhp := mhp t; workers := workers t |}.
Definition set_mhp (t : table) (m : N) : table :=
  {| cur := cur t; old := old t; locks := locks t; nrem := nrem t; rc := rc t;
     mlfn := mlfn t; mlfd := mlfd t; mhp := m; workers := workers t |}.
Definition set_workers (t : table) (w : N) : table :=
  {| cur := cur t; old := old t; locks := locks t; nrem := nrem t; rc := rc t;
     mlfn := mlfn t; mlfd := mlfd t; mhp := mhp t; workers := w |}.

Definition upd_cur_lock (t : table) (l : N) (f : lockm -> lockm) : table :=
  set_locks t (upd_last (upd (N.to_nat l) f) (locks t)).

Definition lock_at (t : table) (l : N) : lockm := nth (N.to_nat l) (cur_locks t) dflt_lock.

Definition wrap64 (x : N) : N := wrap 64 x.

Definition sum_cnt (la : lockarr) : Z := fold_right (fun l acc => (cnt l + acc)%Z) 0%Z la.

(* size(): sum of the counters of the current lock array, cast to size_t *)
Definition tsize (t : table) : N :=
  match locks t with
  | [] => 0
  | _ => Z.to_N ((sum_cnt (cur_locks t)) mod 18446744073709551616)%Z
  end.

Definition hashpower (t : table) : N := bhp (cur t).
Definition bucket_count (t : table) : N := hashsize (hashpower t).
Definition capacity (c : config) (t : table) : N := wrap64 (bucket_count t * spb c).

(* load_factor() < minimum_load_factor(), as exact rationals (see DESIGN 6.10) *)
Definition lf_lt_mlf (c : config) (t : table) : bool :=
  tsize t * mlfd t <? mlfn t * capacity c t.

Section Model.
Variable c : config.
Variable hash : N -> N.          (* the user's hash functor, arbitrary *)

Definition lockind (b : N) : N := lock_ind_gen (kmax c) b.

Definition hashed_partial (k : N) : N := partial_key (hash k).

(* a moved-from element *)
Definition husk_of (e : entry) : entry :=
  if destructive c then {| ekey := ekey e; eval := eval e; epart := epart e; ehusk := true |} else e.

(* ------------------------------------------------------------------ lazy migration *)

(* num_remaining_lazy_rehash_locks(n) : store, and free old_buckets_ when n = 0 *)
Definition set_nrem (t : table) (n : N) : table :=
  let t1 := set_nrem_raw t n in
  if n =? 0 then set_old t1 (bdealloc (old t1)) else t1.

Definition decrement_nrem (t : table) : table :=
  let o := nrem t in
  let t1 := set_nrem_raw t (wrap64 (o + 18446744073709551616 - 1)) in
  if o =? 1 then set_old t1 (bdealloc (old t1)) else t1.

(* move_bucket(old_buckets_, buckets_, old_bucket_ind): slot loop *)
Fixpoint move_bucket_slots (oldb : barray) (newb : barray) (obi : N) (new_slot : N) (s : N) (n : nat)
  : barray * barray :=
  match n with
  | O => (oldb, newb)
  | S n' =>
    match bget oldb obi s with
    | None => move_bucket_slots oldb newb obi new_slot (s + 1) n'
    | Some e =>
      let old_hp := bhp oldb in
      let new_hp := bhp newb in
      let nbi := wrap64 (obi + hashsize old_hp) in
      let h := hash (ekey e) in
      let p := partial_key h in
      let old_ihash := index_hash old_hp h in
      let old_ahash := alt_index old_hp p old_ihash in
      let new_ihash := index_hash new_hp h in
      let new_ahash := alt_index new_hp p new_ihash in
      let to_new := ((obi =? old_ihash) && (new_ihash =? nbi)) || ((obi =? old_ahash) && (new_ahash =? nbi)) in
      let dst_b := if to_new then nbi else obi in
      let dst_s := if to_new then new_slot else s in
      let new_slot' := if to_new then new_slot + 1 else new_slot in
      let newb' := bset newb dst_b dst_s (Some {| ekey := ekey e; eval := eval e; epart := epart e; ehusk := false |}) in
      let oldb' := bset oldb obi s (Some (husk_of e)) in
      move_bucket_slots oldb' newb' obi new_slot' (s + 1) n'
    end
  end.

Definition move_bucket (t : table) (obi : N) : table :=
  let '(o, n) := move_bucket_slots (old t) (cur t) obi 0 0 (N.to_nat (spb c)) in
  set_cur (set_old t o) n.

(* for (bucket_ind = l; bucket_ind < old_buckets_.size(); bucket_ind += kMaxNumLocks) *)
Fixpoint rehash_lock_loop (t : table) (bi : N) (n : nat) : table :=
  match n with
  | O => t
  | S n' =>
    if bi <? hashsize (bhp (old t)) then
      rehash_lock_loop (move_bucket t bi) (bi + kmax c) n'
    else t
  end.

Definition rehash_lock (lazy : bool) (t : table) (l : N) : table :=
  if mig (lock_at t l) then t
  else
    let iters := N.to_nat (hashsize (bhp (old t)) / kmax c + 1) in
    let t1 := rehash_lock_loop t l iters in
    let t2 := upd_cur_lock t1 l (fun lk => {| cnt := cnt lk; mig := true |}) in
    if lazy then decrement_nrem t2 else t2.

Fixpoint rehash_all (t : table) (l : N) (n : nat) : table :=
  match n with
  | O => t
  | S n' => rehash_all (rehash_lock false t l) (l + 1) n'
  end.

(* rehash_with_workers() with no extra threads: every stripe in index order, then counter := 0 *)
Definition rehash_with_workers (t : table) : table :=
  set_nrem (rehash_all t 0 (length (cur_locks t))) 0.

(* ------------------------------------------------------------------ locking (sequential effect) *)
(* mode = true : locked_table_mode (no locking, no migration) *)
Definition lock_one (mode : bool) (t : table) (i : N) : table :=
  if mode then t else rehash_lock true t (lockind i).

Definition lock_two (mode : bool) (t : table) (i1 i2 : N) : table :=
  if mode then t else
  let l1 := lockind i1 in let l2 := lockind i2 in
  let '(l1, l2) := if l2 <? l1 then (l2, l1) else (l1, l2) in
  rehash_lock true (rehash_lock true t l1) l2.

Definition lock_three (mode : bool) (t : table) (i1 i2 i3 : N) : table :=
  if mode then t else
  let l0 := lockind i1 in let l1 := lockind i2 in let l2 := lockind i3 in
  let '(l1, l2) := if l2 <? l1 then (l2, l1) else (l1, l2) in
  let '(l0, l2) := if l2 <? l0 then (l2, l0) else (l0, l2) in
  let '(l0, l1) := if l1 <? l0 then (l1, l0) else (l0, l1) in
  rehash_lock true (rehash_lock true (rehash_lock true t l0) l1) l2.

(* snapshot_and_lock_two: returns the table after migration and the two bucket indices *)
Definition snapshot_and_lock_two (mode : bool) (t : table) (k : N) : table * N * N :=
  let hp := hashpower t in
  let h := hash k in
  let i1 := index_hash hp h in
  let i2 := alt_index hp (partial_key h) i1 in
  (lock_two mode t i1 i2, i1, i2).

(* ------------------------------------------------------------------ searching *)
Fixpoint try_read_from_bucket (a : barray) (b : N) (partial : N) (k : N) (i : N) (n : nat) : option N :=
  match n with
  | O => None
  | S n' =>
    match bget a b i with
    | None => try_read_from_bucket a b partial k (i + 1) n'
    | Some e =>
      if negb (simple c) && negb (partial =? epart e) then try_read_from_bucket a b partial k (i + 1) n'
      else if ekey e =? k then Some i
      else try_read_from_bucket a b partial k (i + 1) n'
    end
  end.

Inductive status := St_ok | St_failure | St_not_found | St_duplicated | St_table_full | St_under_expansion.

Record table_position := { pindex : N; pslot : N; pstatus : status }.

Definition cuckoo_find (t : table) (k partial i1 i2 : N) : table_position :=
  match try_read_from_bucket (cur t) i1 partial k 0 (N.to_nat (spb c)) with
  | Some s => {| pindex := i1; pslot := s; pstatus := St_ok |}
  | None =>
    match try_read_from_bucket (cur t) i2 partial k 0 (N.to_nat (spb c)) with
    | Some s => {| pindex := i2; pslot := s; pstatus := St_ok |}
    | None => {| pindex := 0; pslot := 0; pstatus := St_not_found |}
    end
  end.

(* returns (no_duplicate, slot) ; slot = Some s : the duplicate's slot, or the LAST empty slot *)
Fixpoint try_find_insert_bucket (a : barray) (b partial k : N) (i : N) (n : nat) (slot : option N)
  : bool * option N :=
  match n with
  | O => (true, slot)
  | S n' =>
    match bget a b i with
    | Some e =>
      if negb (simple c) && negb (partial =? epart e) then try_find_insert_bucket a b partial k (i + 1) n' slot
      else if ekey e =? k then (false, Some i)
      else try_find_insert_bucket a b partial k (i + 1) n' slot
    | None => try_find_insert_bucket a b partial k (i + 1) n' (Some i)
    end
  end.

(* ------------------------------------------------------------------ insertion and deletion *)
Definition add_to_bucket (t : table) (b s partial k : N) (v : Z) : table :=
  let t1 := set_cur t (bset (cur t) b s (Some {| ekey := k; eval := v; epart := partial; ehusk := false |})) in
  upd_cur_lock t1 (lockind b) (fun lk => {| cnt := (cnt lk + 1)%Z; mig := mig lk |}).

Definition del_from_bucket (t : table) (b s : N) : table :=
  let t1 := set_cur t (bset (cur t) b s None) in
  upd_cur_lock t1 (lockind b) (fun lk => {| cnt := (cnt lk - 1)%Z; mig := mig lk |}).

(* ------------------------------------------------------------------ BFS *)
Record b_slot := { qbucket : N; qpathcode : N; qdepth : N }.

Definition max_bfs : N := MAX_BFS_PATH_LEN.

(* scan of one dequeued bucket: returns Some final b_slot if an empty slot is found, and the
   list of enqueued children (in order) *)
Fixpoint slot_search_scan (t : table) (hp : N) (x : b_slot) (start : N) (i : N) (n : nat) (acc : list b_slot)
  : option b_slot * list b_slot :=
  match n with
  | O => (None, acc)
  | S n' =>
    let slot := (start + i) mod spb c in
    match bget (cur t) (qbucket x) slot with
    | None => (Some {| qbucket := qbucket x; qpathcode := wrap 16 (qpathcode x * spb c + slot); qdepth := qdepth x |}, acc)
    | Some e =>
      let acc' := if qdepth x <? max_bfs - 1 then
                    acc ++ [{| qbucket := alt_index hp (epart e) (qbucket x);
                               qpathcode := wrap 16 (qpathcode x * spb c + slot);
                               qdepth := qdepth x + 1 |}]
                  else acc in
      slot_search_scan t hp x start (i + 1) n' acc'
    end
  end.

Fixpoint slot_search_loop (mode : bool) (t : table) (hp : N) (q : list b_slot) (fuel : nat)
  : table * option b_slot :=
  match fuel with
  | O => (t, None)
  | S fuel' =>
    match q with
    | [] => (t, None)
    | x :: q' =>
      let t1 := lock_one mode t (qbucket x) in
      let start := qpathcode x mod spb c in
      match slot_search_scan t1 hp x start 0 (N.to_nat (spb c)) [] with
      | (Some r, _) => (t1, Some r)
      | (None, children) => slot_search_loop mode t1 hp (q' ++ children) fuel'
      end
    end
  end.

(* MAX_CUCKOO_COUNT *)
Definition max_cuckoo_count : N :=
  2 * (if spb c =? 1 then max_bfs else (spb c ^ max_bfs - 1) / (spb c - 1)).

Definition slot_search (mode : bool) (t : table) (hp i1 i2 : N) : table * option b_slot :=
  slot_search_loop mode t hp
    [{| qbucket := i1; qpathcode := 0; qdepth := 0 |}; {| qbucket := i2; qpathcode := 1; qdepth := 0 |}]
    (S (N.to_nat max_cuckoo_count)).

Record cuckoo_record := { crbucket : N; crslot : N; crhash : N; crpartial : N }.

(* decode the slots of the path from the pathcode: returns (slots for positions 0..depth, remaining pathcode) *)
Fixpoint decode_slots (pathcode : N) (n : nat) (acc : list N) : list N * N :=
  match n with
  | O => (acc, pathcode)
  | S n' => decode_slots (pathcode / spb c) n' ((pathcode mod spb c) :: acc)
  end.

(* the loop "for i = 1 .. depth" of cuckoopath_search; prev is the previous record;
   returns the table, the records so far (reversed), and the resulting depth *)
Fixpoint cuckoopath_search_loop (mode : bool) (t : table) (hp : N) (prev : cuckoo_record) (slots : list N)
  (i : N) (acc : list cuckoo_record) : table * list cuckoo_record * N :=
  match slots with
  | [] => (t, acc, i - 1)
  | s :: rest =>
    let b := alt_index hp (crpartial prev) (crbucket prev) in
    let t1 := lock_one mode t b in
    match bget (cur t1) b s with
    | None => (t1, {| crbucket := b; crslot := s; crhash := 0; crpartial := 0 |} :: acc, i)
    | Some e =>
      let h := hash (ekey e) in
      let r := {| crbucket := b; crslot := s; crhash := h; crpartial := partial_key h |} in
      cuckoopath_search_loop mode t1 hp r rest (i + 1) (r :: acc)
    end
  end.

(* returns table, path (position 0 first) and depth; None = no path *)
Definition cuckoopath_search (mode : bool) (t : table) (hp i1 i2 : N)
  : table * option (list cuckoo_record * N) :=
  match slot_search mode t hp i1 i2 with
  | (t1, None) => (t1, None)
  | (t1, Some x) =>
    let '(slots, code) := decode_slots (qpathcode x) (S (N.to_nat (qdepth x))) [] in
    match slots with
    | [] => (t1, None)
    | s0 :: rest =>
      let b0 := if code =? 0 then i1 else i2 in
      let t2 := lock_one mode t1 b0 in
      match bget (cur t2) b0 s0 with
      | None => (t2, Some ([{| crbucket := b0; crslot := s0; crhash := 0; crpartial := 0 |}], 0))
      | Some e =>
        let h := hash (ekey e) in
        let r0 := {| crbucket := b0; crslot := s0; crhash := h; crpartial := partial_key h |} in
        let '(t3, racc, d) := cuckoopath_search_loop mode t2 hp r0 rest 1 [r0] in
        (t3, Some (rev racc, d))
      end
    end
  end.

Definition nth_rec (p : list cuckoo_record) (i : N) : cuckoo_record :=
  nth (N.to_nat i) p {| crbucket := 0; crslot := 0; crhash := 0; crpartial := 0 |}.

(* the while (depth > 0) loop of cuckoopath_move *)
Fixpoint cuckoopath_move_loop (mode : bool) (t : table) (path : list cuckoo_record) (i1 i2 : N) (depth : nat)
  : table * bool :=
  match depth with
  | O => (t, true)
  | S d' =>
    let from := nth_rec path (N.of_nat d') in
    let to := nth_rec path (N.of_nat depth) in
    let t1 := if Nat.eqb depth 1 then lock_three mode t i1 i2 (crbucket to)
              else lock_two mode t (crbucket from) (crbucket to) in
    match bget (cur t1) (crbucket to) (crslot to), bget (cur t1) (crbucket from) (crslot from) with
    | Some _, _ => (t1, false)
    | None, None => (t1, false)
    | None, Some e =>
      if negb (hash (ekey e) =? crhash from) then (t1, false)
      else
        let a1 := bset (cur t1) (crbucket to) (crslot to)
                       (Some {| ekey := ekey e; eval := eval e; epart := epart e; ehusk := false |}) in
        let a2 := bset a1 (crbucket from) (crslot from) None in
        cuckoopath_move_loop mode (set_cur t1 a2) path i1 i2 d'
    end
  end.

Definition cuckoopath_move (mode : bool) (t : table) (path : list cuckoo_record) (depth : N) (i1 i2 : N)
  : table * bool :=
  if depth =? 0 then
    let r0 := nth_rec path 0 in
    let t1 := lock_two mode t i1 i2 in
    (t1, negb (occupied (cur t1) (crbucket r0) (crslot r0)))
  else cuckoopath_move_loop mode t path i1 i2 (N.to_nat depth).

(* run_cuckoo: Some (bucket, slot) on success, None = failure (table full).
   fuel bounds the while (!done) loop; exhaustion is reported as an error by the caller *)
Inductive rc_result := RC_ok (b s : N) | RC_failure | RC_fuel.

Fixpoint run_cuckoo_loop (mode : bool) (t : table) (hp i1 i2 : N) (fuel : nat) : table * rc_result :=
  match fuel with
  | O => (t, RC_fuel)
  | S fuel' =>
    match cuckoopath_search mode t hp i1 i2 with
    | (t1, None) => (t1, RC_failure)
    | (t1, Some (path, depth)) =>
      match cuckoopath_move mode t1 path depth i1 i2 with
      | (t2, true) => let r0 := nth_rec path 0 in (t2, RC_ok (crbucket r0) (crslot r0))
      | (t2, false) => run_cuckoo_loop mode t2 hp i1 i2 fuel'
      end
    end
  end.

Definition run_cuckoo_fuel : nat := 64.

Definition run_cuckoo (mode : bool) (t : table) (i1 i2 : N) : table * rc_result :=
  run_cuckoo_loop mode t (hashpower t) i1 i2 run_cuckoo_fuel.

Inductive ci_result := CI_pos (p : table_position) | CI_fuel.

Definition cuckoo_insert (mode : bool) (t : table) (k : N) (i1 i2 : N) : table * ci_result :=
  let partial := hashed_partial k in
  let n := N.to_nat (spb c) in
  match try_find_insert_bucket (cur t) i1 partial k 0 n None with
  | (false, r1) => (t, CI_pos {| pindex := i1; pslot := match r1 with Some s => s | None => 0 end; pstatus := St_duplicated |})
  | (true, res1) =>
    match try_find_insert_bucket (cur t) i2 partial k 0 n None with
    | (false, r2) => (t, CI_pos {| pindex := i2; pslot := match r2 with Some s => s | None => 0 end; pstatus := St_duplicated |})
    | (true, res2) =>
      match res1, res2 with
      | Some s, _ => (t, CI_pos {| pindex := i1; pslot := s; pstatus := St_ok |})
      | None, Some s => (t, CI_pos {| pindex := i2; pslot := s; pstatus := St_ok |})
      | None, None =>
        match run_cuckoo mode t i1 i2 with
        | (t1, RC_fuel) => (t1, CI_fuel)
        | (t1, RC_failure) => (t1, CI_pos {| pindex := 0; pslot := 0; pstatus := St_table_full |})
        | (t1, RC_ok ib is_) =>
          let pos := cuckoo_find t1 k partial i1 i2 in
          match pstatus pos with
          | St_ok => (t1, CI_pos {| pindex := pindex pos; pslot := pslot pos; pstatus := St_duplicated |})
          | _ => (t1, CI_pos {| pindex := ib; pslot := is_; pstatus := St_ok |})
          end
        end
      end
    end
  end.

(* ------------------------------------------------------------------ resizing *)
Definition check_resize_validity (auto : bool) (t : table) (orig_hp new_hp : N) : option exn + status :=
  if negb (mhp t =? NO_MAXIMUM_HASHPOWER) && (mhp t <? new_hp) then inl (Some EMaxHashpower)
  else if auto && lf_lt_mlf c t then inl (Some ELoadFactorTooLow)
  else if negb (hashpower t =? orig_hp) then inr St_under_expansion
  else inr St_ok.

Definition maybe_resize_locks (t : table) (new_bucket_count : N) : table :=
  let cl := cur_locks t in
  let sz := N.of_nat (length cl) in
  if (sz <? kmax c) && (sz <? new_bucket_count) then
    let nsz := N.min (kmax c) new_bucket_count in
    let extra := repeat dflt_lock (N.to_nat nsz - length cl) in
    set_locks t (locks t ++ [cl ++ extra])
  else t.

Fixpoint move_all_buckets (t : table) (i : N) (n : nat) : table :=
  match n with
  | O => t
  | S n' => move_all_buckets (move_bucket t i) (i + 1) n'
  end.

Definition set_all_unmigrated (t : table) : table :=
  set_locks t (upd_last (map (fun lk => {| cnt := cnt lk; mig := false |})) (locks t)).

(* result of a resize: normal status or exception *)
Definition rres := (table * (exn + status))%type.

Definition reserve_calc_loop_fuel : nat := 65.
Fixpoint reserve_calc_loop (buckets : N) (blog2 : N) (n : nat) : N :=
  match n with
  | O => blog2
  | S n' => if wrap64 (N.shiftl 1 blog2) <? buckets then reserve_calc_loop buckets (blog2 + 1) n' else blog2
  end.
Definition reserve_calc (n : N) : N :=
  let buckets := (wrap64 (wrap64 (n + spb c) + 18446744073709551616 - 1)) / spb c in
  reserve_calc_loop buckets 0 reserve_calc_loop_fuel.

(* a freshly constructed table: cuckoohash_map(n) *)
Definition new_table (n : N) : table :=
  let hp := reserve_calc n in
  {| cur := bnew hp; old := bnew 0;
     locks := [repeat dflt_lock (N.to_nat (N.min (hashsize hp) (kmax c)))];
     nrem := 0; rc := 0; mlfn := 1; mlfd := 20; mhp := NO_MAXIMUM_HASHPOWER; workers := 0 |}.

Definition fast_double_body (mode : bool) (t : table) (new_hp : N) : table :=
  let t1 := set_nrem (rehash_all t 0 (length (cur_locks t))) 0 in
  let t2 := maybe_resize_locks t1 (wrap64 (N.shiftl 1 new_hp)) in
  (* old_buckets_.swap(buckets_); buckets_ = buckets_t(new_hp) *)
  let t3 := set_cur (set_old t2 (cur t2)) (bnew new_hp) in
  let t4 :=
    if hashsize (bhp (old t3)) <? kmax c then
      set_nrem (move_all_buckets t3 0 (N.to_nat (hashsize (bhp (old t3))))) 0
    else
      let t5 := set_nrem (set_all_unmigrated t3) (N.of_nat (length (cur_locks t3))) in
      if mode then rehash_with_workers t5 else t5 in
  set_rc t4 (wrap64 (rc t4 + 1)).

(* The mutually dependent part: insert loop <-> fast double <-> expand simple (which builds a
   temporary map and inserts into it).  [fuel] bounds the nesting of temporary maps and the
   insert loop iterations. *)

Inductive il_result := IL_pos (p : table_position) (i1 i2 : N) | IL_exn (e : exn).

Section InsertLoop.
  (* expand function supplied by the enclosing level *)
  Variable fast_double : bool -> table -> N -> rres.   (* mode, table, current_hp *)

  Fixpoint cuckoo_insert_loop (mode : bool) (t : table) (k i1 i2 : N) (fuel : nat) : table * il_result :=
    match fuel with
    | O => (t, IL_exn EOutOfFuel)
    | S fuel' =>
      let hp := hashpower t in
      match cuckoo_insert mode t k i1 i2 with
      | (t1, CI_fuel) => (t1, IL_exn EOutOfFuel)
      | (t1, CI_pos pos) =>
        match pstatus pos with
        | St_ok | St_duplicated => (t1, IL_pos pos i1 i2)
        | St_table_full =>
          match fast_double mode t1 hp with
          | (t2, inl e) => (t2, IL_exn e)
          | (t2, inr _) =>
            let '(t3, j1, j2) := snapshot_and_lock_two mode t2 k in
            cuckoo_insert_loop mode t3 k j1 j2 fuel'
          end
        | _ =>
          let '(t3, j1, j2) := snapshot_and_lock_two mode t1 k in
          cuckoo_insert_loop mode t3 k j1 j2 fuel'
        end
      end
    end.
End InsertLoop.

Definition insert_loop_fuel : nat := 70.

(* plain insert (used by the temporary map of cuckoo_expand_simple): returns the table and
   whether an exception escaped *)
Definition insert_with (fast_double : bool -> table -> N -> rres) (t : table) (k : N) (v : Z) : table * option exn :=
  let '(t1, i1, i2) := snapshot_and_lock_two false t k in
  match cuckoo_insert_loop fast_double false t1 k i1 i2 insert_loop_fuel with
  | (t2, IL_exn e) => (t2, Some e)
  | (t2, IL_pos pos _ _) =>
    match pstatus pos with
    | St_ok => (add_to_bucket t2 (pindex pos) (pslot pos) (hashed_partial k) k v, None)
    | _ => (t2, None)
    end
  end.

(* the parallel_exec loop of cuckoo_expand_simple with no extra threads: every occupied slot of
   buckets_ in (bucket, slot) order is moved into new_map until an exception stops the loop *)
Fixpoint expand_move_slots (ins : table -> N -> Z -> table * option exn)
  (src : barray) (nm : table) (b s : N) (n : nat) : barray * table * option exn :=
  match n with
  | O => (src, nm, None)
  | S n' =>
    match bget src b s with
    | None => expand_move_slots ins src nm b (s + 1) n'
    | Some e =>
      let src' := bset src b s (Some (husk_of e)) in
      match ins nm (ekey e) (eval e) with
      | (nm', Some ex) => (src', nm', Some ex)
      | (nm', None) => expand_move_slots ins src' nm' b (s + 1) n'
      end
    end
  end.

Fixpoint expand_move_buckets (ins : table -> N -> Z -> table * option exn)
  (src : barray) (nm : table) (b : N) (n : nat) : barray * table * option exn :=
  match n with
  | O => (src, nm, None)
  | S n' =>
    match expand_move_slots ins src nm b 0 (N.to_nat (spb c)) with
    | (src', nm', Some ex) => (src', nm', Some ex)
    | (src', nm', None) => expand_move_buckets ins src' nm' (b + 1) n'
    end
  end.

Fixpoint fast_double_f (fuel : nat) (auto : bool) (mode : bool) (t : table) (current_hp : N) {struct fuel} : rres :=
  match fuel with
  | O => (t, inl EOutOfFuel)
  | S fuel' =>
    if negb (nothrow c) then expand_simple_f fuel' auto mode t (current_hp + 1)
    else
      let new_hp := current_hp + 1 in
      match check_resize_validity auto t current_hp new_hp with
      | inl (Some e) => (t, inl e)
      | inl None => (t, inl EUnmodelled)
      | inr St_ok => (fast_double_body mode t new_hp, inr St_ok)
      | inr st => (t, inr st)
      end
  end
with expand_simple_f (fuel : nat) (auto : bool) (mode : bool) (t : table) (new_hp : N) {struct fuel} : rres :=
  match fuel with
  | O => (t, inl EOutOfFuel)
  | S fuel' =>
    let hp := hashpower t in
    match check_resize_validity auto t hp new_hp with
    | inl (Some e) => (t, inl e)
    | inl None => (t, inl EUnmodelled)
    | inr St_ok =>
      if 58 <? new_hp then (t, inl EUnmodelled) else
      let t1 := rehash_with_workers t in
      let nm00 := set_workers (new_table (wrap64 (hashsize new_hp * spb c))) (workers t1) in
      (* new_map.minimum_load_factor(AUTO ? minimum_load_factor() : 0); new_map.maximum_hashpower(...) *)
      let nm01 := if auto then set_mlf nm00 (mlfn t1) (mlfd t1) else set_mlf nm00 0 1 in
      let nm0 := set_mhp nm01 (mhp t1) in
      let ins := insert_with (fast_double_f fuel' true) in
      match expand_move_buckets ins (cur t1) nm0 0 (N.to_nat (hashsize hp)) with
      | (src', nm1, Some ex) => (set_cur t1 src', inl ex)
      | (src', nm1, None) =>
        let nm2 := rehash_with_workers nm1 in
        let t2 := maybe_resize_locks t1 (bucket_count nm2) in
        let t3 := set_cur t2 (cur nm2) in
        (set_rc t3 (wrap64 (rc t3 + 1)), inr St_ok)
      end
    | inr st => (t, inr st)
    end
  end.

Definition resize_fuel : nat := 6.

Definition cuckoo_fast_double (mode : bool) (t : table) (current_hp : N) : rres :=
  fast_double_f resize_fuel true mode t current_hp.
Definition cuckoo_expand_simple (auto : bool) (mode : bool) (t : table) (new_hp : N) : rres :=
  expand_simple_f resize_fuel auto mode t new_hp.

Definition cuckoo_rehash (mode : bool) (t : table) (n : N) : table * (exn + bool) :=
  if n =? hashpower t then (t, inr false)
  else match cuckoo_expand_simple false mode t n with
       | (t1, inl e) => (t1, inl e)
       | (t1, inr st) => (t1, inr (match st with St_ok => true | _ => false end))
       end.

Definition cuckoo_reserve (mode : bool) (t : table) (n : N) : table * (exn + bool) :=
  let new_hp := reserve_calc n in
  if new_hp =? hashpower t then (t, inr false)
  else match cuckoo_expand_simple false mode t new_hp with
       | (t1, inl e) => (t1, inl e)
       | (t1, inr st) => (t1, inr (match st with St_ok => true | _ => false end))
       end.

Definition cuckoo_clear (t : table) : table :=
  let t1 := set_cur t (bclear (cur t)) in
  let t2 := set_nrem t1 0 in
  set_locks t2 (upd_last (map (fun _ => dflt_lock)) (locks t2)).

(* ------------------------------------------------------------------ iterators (locked_table) *)
Definition end_pos (t : table) : N * N := (bucket_count t, 0).

(* const_iterator::operator++ *)
Fixpoint it_scan_slots (a : barray) (b s : N) (n : nat) : option N :=
  match n with
  | O => None
  | S n' => if s <? spb c then (if occupied a b s then Some s else it_scan_slots a b (s + 1) n') else None
  end.
Fixpoint it_scan_buckets (a : barray) (b s : N) (n : nat) : N * N :=
  match n with
  | O => (b, s)
  | S n' =>
    if b <? hashsize (bhp a) then
      match it_scan_slots a b s (N.to_nat (spb c)) with
      | Some s' => (b, s')
      | None => it_scan_buckets a (b + 1) 0 n'
      end
    else (b, s)
  end.
Definition it_next (t : table) (p : N * N) : N * N :=
  let '(b, s) := p in
  if b <? bucket_count t then
    it_scan_buckets (cur t) b (s + 1) (S (N.to_nat (bucket_count t - b)))
  else (b, s + 1).

(* the private constructor: stay if at end or occupied, else step forward *)
Definition it_make (t : table) (p : N * N) : N * N :=
  let '(b, s) := p in
  if ((b =? fst (end_pos t)) && (s =? 0)) || occupied (cur t) b s then p else it_next t p.

Definition it_begin (t : table) : N * N := it_make t (0, 0).
Definition it_end (t : table) : N * N := end_pos t.

(* const_iterator::operator-- ; None = walked off the front (undefined behaviour in the code) *)
Definition it_step_back (p : N * N) : option (N * N) :=
  let '(b, s) := p in
  if s =? 0 then (if b =? 0 then None else Some (b - 1, spb c - 1)) else Some (b, s - 1).
Fixpoint it_prev_loop (a : barray) (p : N * N) (n : nat) : option (N * N) :=
  match n with
  | O => None
  | S n' =>
    if occupied a (fst p) (snd p) then Some p
    else match it_step_back p with None => None | Some p' => it_prev_loop a p' n' end
  end.
Definition it_prev (t : table) (p : N * N) : option (N * N) :=
  match it_step_back p with
  | None => None
  | Some p' => it_prev_loop (cur t) p' (S (N.to_nat (bucket_count t * spb c)))
  end.

End Model.
