(* L1 refinement of the LOCKED-TABLE operations (Api.step_some on a slot whose locked_table is
   active) against the abstract map of LazyRefine ([amap], [rep], [meq], [mset], [mempty]).
   Companion of LazyRefine.normal_mode_op_refines.
   - OLock from ANY well-formed table ([lgood]: deferred migration possibly pending): the section
     starts on a settled table ([Refine.good]) with the same abstract contents, size, hashpower.
   - Inside the section every doubling is immediate ([immediate c true t] holds trivially), so the
     settled-regime theorems of Refine apply with mode = true; the invariant of a section is
     [good], and on a good table [rep] is about the current array alone ([grep]).
   - [locked_mode_op_refines]: OUnlock, LInsert, LIdx, LEraseKey, LFind, LAt, LCount, LRange,
     LRehash, LReserve, LClear, LTraverse, LRTraverse against [lop_spec]; the new table is good,
     limits unchanged, the slot stays active (the world is [lop_world]).
     [nothrow c = true] is needed by LInsert / LIdx only; [lop_pre] (limits of the rebuild) by
     LRehash / LReserve only.
   - The iterator-register operations (ItBegin, ItEnd, ItInc, ItDec, ItGet, ItSet, ItEq, LEraseIt)
     are NOT in the packaged theorem (their statements need the register file); each has its own
     lemma in section 8 against [occ_list] / [contents], and [iteration_lists_the_map] runs a whole
     begin / *it / ++it loop.
   - Section 9 lifts everything to [Api.step] on a world ([sect]: the invariant of a section).
   Not covered: StreamOut / StreamIn (Stream.v, StreamGood.v), the setters OMlf / OMhp / OWorkers
   inside a section (Refine.good_set_mlf / good_set_mhp / good_set_workers). *)
From Coq Require Import NArith ZArith List Bool Lia FMapPositive.
From LC Require Import gen.HashGen Bits Core Api InvDefs ArrLemmas Stats InsertLemmas Resize Iter Lazy
  Refine Life LazyRefine.
Import ListNotations.
Local Open Scope N_scope.

Section LockedRefine.
Variable c : config.
Variable hash : N -> N.
Hypothesis Hc : cfg_ok c.

Notation good := (good c hash).
Notation lgood := (lgood c hash).
Notation rep := (rep c).
Notation esc := (esc c hash).
Notation rww := (rehash_with_workers c hash).
Notation evolves := (evolves c hash).
Notation arr_ok := (arr_ok c hash).

(* ================================================================== 0. [rep] on settled tables *)

Lemma grep t m : good t -> rep t m -> forall k v, holds (cur t) k v <-> m k = Some v.
Proof. intros G R k v. rewrite <- (good_lholds c hash t k v G). apply R. Qed.

Lemma grep_intro t m : good t -> (forall k v, holds (cur t) k v <-> m k = Some v) -> rep t m.
Proof. intros G H k v. rewrite (good_lholds c hash t k v G). apply H. Qed.

Lemma grep_none t m k : good t -> rep t m -> (m k = None <-> ~ key_in (cur t) k).
Proof.
  intros G R. rewrite key_in_holds. split.
  - intros E [v Hv]. apply (grep t m G R) in Hv. congruence.
  - intro H. destruct (m k) as [v|] eqn:E; [|reflexivity]. exfalso. apply H. exists v.
    apply (grep t m G R). exact E.
Qed.

Lemma grep_upd t t' m k o :
  good t -> good t' -> rep t m -> upd_holds (cur t) (cur t') k o -> rep t' (mset m k o).
Proof.
  intros G G' R U. apply (rep_lupd c t t' k o m R). intros k' v'.
  rewrite (good_lholds c hash t' k' v' G'), (good_lholds c hash t k' v' G). apply U.
Qed.

Lemma grep_same t t' m :
  good t -> good t' -> rep t m -> (forall k v, holds (cur t') k v <-> holds (cur t) k v) -> rep t' m.
Proof.
  intros G G' R H. apply (grep_intro t' m G'). intros k v. rewrite (H k v). apply (grep t m G R).
Qed.

Lemma good_arr t : good t -> arr_ok (cur t).
Proof. intros [St _]. apply (se_arr _ _ _ St). Qed.

Lemma good_hp62 t : good t -> hashpower t < 62.
Proof. intros [_ [_ [Hb _]]]. rewrite hashpower_eq. lia. Qed.

Lemma mset_absent_none m k : m k = None -> meq (mset m k None) m.
Proof.
  intros E k'. unfold mset. destruct (N.eqb_spec k' k) as [->|_]; [symmetry; exact E|reflexivity].
Qed.

(* the element stored at position p is (k, v) *)
Definition at_pos (t : table) (p : N * N) (k : N) (v : Z) : Prop :=
  exists e, bget (cur t) (fst p) (snd p) = Some e /\ ekey e = k /\ eval e = v.

Lemma at_pos_holds t p k v : at_pos t p k v -> holds (cur t) k v.
Proof. intros [e [He [Hk Hv]]]. exists (fst p), (snd p), e. repeat split; assumption. Qed.

Lemma at_pos_occ t p k v : good t -> at_pos t p k v -> In p (occ_list c (cur t)).
Proof.
  intros G [e [He _]]. apply In_occ_list. destruct (ao_range _ _ _ (good_arr t G) _ _ _ He) as [H1 H2].
  split; [exact H1|]. split; [exact H2|]. apply occupied_true. exists e. exact He.
Qed.

Lemma at_pos_fun t p k v k' v' : at_pos t p k v -> at_pos t p k' v' -> k = k' /\ v = v'.
Proof.
  intros [e [He [Hk Hv]]] [e' [He' [Hk' Hv']]]. rewrite He in He'. injection He' as <-.
  split; congruence.
Qed.

(* l lists exactly the pairs of m, each key once *)
Definition is_listing (m : amap) (l : list (N * Z)) : Prop :=
  NoDup (map fst l) /\ forall k v, In (k, v) l <-> m k = Some v.

(* the stored pairs in iteration order *)
Definition contents (t : table) : list (N * Z) := map (kv_at (cur t)) (occ_list c (cur t)).

Lemma contents_listing t m : good t -> rep t m -> is_listing m (contents t).
Proof.
  intros G R. assert (Ha := good_arr t G). unfold contents. split.
  - rewrite map_fst_kv_at. apply (NoDup_keys_of c hash (cur t) Ha).
  - intros k v. rewrite <- (grep t m G R k v). rewrite in_map_iff. split.
    + intros [p [Hkv Hp]]. destruct (occ_in_range c t p Hp) as [_ [_ [e He]]].
      unfold kv_at in Hkv. rewrite He in Hkv. injection Hkv as <- <-.
      exists (fst p), (snd p), e. repeat split. exact He.
    + intros [b [s [e [He [Hk Hv]]]]]. exists (b, s). split.
      * unfold kv_at. cbn [fst snd]. rewrite He, Hk, Hv. reflexivity.
      * apply In_occ_list. cbn [fst snd]. destruct (ao_range _ _ _ Ha _ _ _ He) as [H1 H2].
        split; [exact H1|]. split; [exact H2|]. apply occupied_true. exists e. exact He.
Qed.

Lemma is_listing_rev m l : is_listing m l -> is_listing m (rev l).
Proof.
  intros [Hn Hi]. split.
  - rewrite map_rev. apply NoDup_rev. exact Hn.
  - intros k v. rewrite <- in_rev. apply Hi.
Qed.

Lemma kvs_fwd t : kvs (flat_map (visit t) (occ_list c (cur t))) = contents t.
Proof. apply (kvs_visits c t). intros p Hp. exact Hp. Qed.

Lemma kvs_bwd t : kvs (flat_map (visit t) (rev (occ_list c (cur t)))) = rev (contents t).
Proof.
  rewrite (kvs_visits c t (rev (occ_list c (cur t)))) by (intros p Hp; apply in_rev; exact Hp).
  unfold contents. apply map_rev.
Qed.

Section Ops.
Variable fapply : fnk -> Z -> bool -> Z * bool.   (* arbitrary functor semantics *)

(* ================================================================== 1. the specification *)

Definition lresize_spec (t : table) (target : N) (m : amap) (r : out) (t' : table) (m' : amap) : Prop :=
  meq m' m /\
  ((r = [RNone] /\ target <= bhp (cur t')) \/
   (exists e, r = [RExn e] /\ target <> bhp (cur t) /\ exn_ok0 false t e /\ e <> ELoadFactorTooLow)).

(* the map specification of the locked-table operations: printed result r, new table t' (result
   positions refer to it), new map m' *)
Definition lop_spec (t : table) (m : amap) (o : op) (r : out) (t' : table) (m' : amap) : Prop :=
  match o with
  | OUnlock => meq m' m /\ t' = t /\ r = [RNone]
  | LInsert k v =>
      match m k with
      | Some v0 => meq m' m /\ exists p, r = [RPos (fst p) (snd p); RBool false] /\ at_pos t' p k v0
      | None =>
          (exists e, r = [RExn e] /\ meq m' m /\ exn_ok c true t t' e) \/
          (meq m' (mset m k (Some v)) /\
           exists p, r = [RPos (fst p) (snd p); RBool true] /\ at_pos t' p k v)
      end
  | LIdx k =>
      match m k with
      | Some v0 => meq m' m /\ r = [RInt v0]
      | None =>
          (exists e, r = [RExn e] /\ meq m' m /\ exn_ok c true t t' e) \/
          (meq m' (mset m k (Some 0%Z)) /\ r = [RInt 0%Z])
      end
  | LEraseKey k => meq m' (mset m k None) /\ r = [RNat (if is_some (m k) then 1 else 0)]
  | LFind k _ =>
      meq m' m /\ t' = t /\
      exists p, r = [RPos (fst p) (snd p)] /\
        match m k with Some v => at_pos t p k v | None => p = it_end t end
  | LAt k => meq m' m /\ t' = t /\ r = match m k with Some v => [RInt v] | None => [RExn EOutOfRange] end
  | LCount k => meq m' m /\ t' = t /\ r = [RNat (if is_some (m k) then 1 else 0)]
  | LRange k =>
      meq m' m /\ t' = t /\
      match m k with
      | Some v =>
          exists p l1 l2, at_pos t p k v /\ occ_list c (cur t) = l1 ++ p :: l2 /\
            r = [RPos (fst p) (snd p); RPos (fst (hd (it_end t) l2)) (snd (hd (it_end t) l2))]
      | None => r = [RPos (fst (it_end t)) (snd (it_end t)); RPos (fst (it_end t)) (snd (it_end t))]
      end
  | LRehash n => lresize_spec t n m r t' m'
  | LReserve n => lresize_spec t (reserve_calc c n) m r t' m'
  | LClear => meq m' mempty /\ r = [RNone]
  | LTraverse =>
      meq m' m /\ t' = t /\ r = flat_map (visit t) (occ_list c (cur t)) /\
      kvs r = contents t /\ is_listing m (kvs r)
  | LRTraverse =>
      meq m' m /\ t' = t /\ r = flat_map (visit t) (rev (occ_list c (cur t))) /\
      kvs r = rev (contents t) /\ is_listing m (kvs r)
  | _ => False
  end.

Definition locked_op (o : op) : bool :=
  match o with
  | OUnlock | LInsert _ _ | LIdx _ | LEraseKey _ | LFind _ _ | LAt _ | LCount _ | LRange _
  | LRehash _ | LReserve _ | LClear | LTraverse | LRTraverse => true
  | _ => false
  end.

(* side conditions of the explicit-resize operations (those of Refine's rebuild theorem) *)
Definition lop_pre (t : table) (o : op) : Prop :=
  match o with
  | LRehash _ | LReserve _ => limC c (mhp t) /\ destructive c = false
  | _ => True
  end.

(* the world after the operation: the slot holds t' (still active, except after OUnlock); LFind
   writes the printed position to its iterator register; the read-only operations leave the world
   untouched *)
Definition lop_world (w : world) (a : nat) (o : op) (t' : table) (r : out) : world :=
  match o with
  | LFind _ reg => match r with [RPos b sl] => put_it w reg (b, sl) | _ => w end
  | LAt _ | LCount _ | LRange _ | LTraverse | LRTraverse => w
  | OUnlock => put_tab w a (Some {| tb := t'; active := false |})
  | _ => put_tab w a (Some {| tb := t'; active := true |})
  end.

Definition lpost (w : world) (a : nat) (s : tslot) (o : op) (w' : world) (r : out) (m : amap) : Prop :=
  exists t' m', w' = lop_world w a o t' r /\ good t' /\ lim_same (tb s) t' /\ rep t' m' /\
                lop_spec (tb s) m o r t' m'.

Lemma pair_inv {A B} (x x' : A) (y y' : B) : (x, y) = (x', y') -> x = x' /\ y = y'.
Proof. intro H. injection H as -> ->. split; reflexivity. Qed.

Lemma if_true_eq {A} (X Y : A) : (if true then X else Y) = X.
Proof. reflexivity. Qed.

Lemma put_t_active w a s t :
  active s = true -> put_t w a s t = put_tab w a (Some {| tb := t; active := true |}).
Proof. intro H. unfold put_t. rewrite H. reflexivity. Qed.

Lemma imm_true t : immediate c true t.
Proof. left. reflexivity. Qed.

(* ================================================================== 2. entering and leaving the section *)

(* lock_table(): from ANY well-formed table (no nothrow assumption) *)
Theorem refines_OLock w a s w' r m :
  active s = false -> lgood (tb s) -> rep (tb s) m ->
  step_some c hash fapply w a s OLock = (w', r) ->
  let t' := rww (tb s) in
  w' = reset_its (put_tab w a (Some {| tb := t'; active := true |})) /\ r = [RNone] /\
  good t' /\ lim_same (tb s) t' /\ rep t' m /\
  bhp (cur t') = bhp (cur (tb s)) /\ tsize t' = tsize (tb s) /\ rc t' = rc (tb s) /\ nrem t' = 0.
Proof.
  intros Hact G R E t'.
  cbv beta iota zeta delta [step_some] in E; rewrite Hact in E; rewrite if_negb_false in E.
  injection E as <- <-.
  destruct (rww_lgood c hash Hc (tb s) G) as [G1 [Hh [Hhp [L [Hrc [Hn [_ [Hts _]]]]]]]].
  fold t' in G1, Hh, Hhp, L, Hrc, Hn, Hts.
  split; [reflexivity|]. split; [reflexivity|]. split; [exact G1|]. split; [exact L|].
  split; [|split; [exact Hhp|split; [exact Hts|split; assumption]]].
  apply (grep_intro t' m G1). intros k v. rewrite (Hh k v). apply R.
Qed.

(* unlock(): no assumption beyond being inside a section *)
Lemma refines_OUnlock w a s w' r m :
  active s = true -> good (tb s) -> rep (tb s) m ->
  step_some c hash fapply w a s OUnlock = (w', r) ->
  lpost w a s OUnlock w' r m.
Proof.
  intros Hact G R E.
  cbv beta iota zeta delta [step_some] in E; rewrite Hact in E.
  injection E as <- <-. exists (tb s), m. split; [reflexivity|]. split; [exact G|].
  split; [apply lim_same_refl|]. split; [exact R|]. cbn [lop_spec].
  split; [intro; reflexivity|]. split; reflexivity.
Qed.

(* ================================================================== 3. lookups: find / at / count / equal_range *)

Lemma snap_good t k :
  good t ->
  snapshot_and_lock_two c hash true t k = (t, i1_of hash (bhp (cur t)) k, i2_of hash (bhp (cur t)) k).
Proof.
  intros [St _]. rewrite (snapshot_and_lock_two_settled c hash true t k (se_mig _ _ _ St)).
  rewrite hashpower_eq. reflexivity.
Qed.

(* cuckoo_find on a settled table, in terms of the map *)
Lemma cfind_rep t m k :
  good t -> rep t m ->
  let pos := cuckoo_find c t k (hashed_partial hash k) (i1_of hash (bhp (cur t)) k)
               (i2_of hash (bhp (cur t)) k) in
  match m k with
  | Some v => pstatus pos = St_ok /\ at_pos t (pindex pos, pslot pos) k v
  | None => pstatus pos = St_not_found
  end.
Proof.
  intros G R pos. subst pos. unfold hashed_partial.
  destruct (cuckoo_find_cases c hash t k (good_arr t G)) as [[Hs [_ [_ [e [He Hek]]]]]|[Hs Hn]];
    cbv zeta in *.
  - assert (Hh : holds (cur t) k (eval e)).
    { eexists _, _, e. split; [exact He|]. split; [exact Hek|reflexivity]. }
    apply (grep t m G R) in Hh. rewrite Hh. split; [exact Hs|].
    exists e. cbn [fst snd]. split; [exact He|]. split; [exact Hek|reflexivity].
  - apply (grep_none t m k G R) in Hn. rewrite Hn. exact Hs.
Qed.

Lemma refines_LFind w a s k reg w' r m :
  active s = true -> good (tb s) -> rep (tb s) m ->
  step_some c hash fapply w a s (LFind k reg) = (w', r) ->
  lpost w a s (LFind k reg) w' r m.
Proof.
  intros Hact G R E.
  cbv beta iota zeta delta [step_some] in E; rewrite Hact in E.
  rewrite (snap_good (tb s) k G) in E.
  assert (Hf := cfind_rep (tb s) m k G R). cbv zeta in Hf.
  set (pos := cuckoo_find c (tb s) k (hashed_partial hash k) (i1_of hash (bhp (cur (tb s))) k)
                (i2_of hash (bhp (cur (tb s))) k)) in *.
  exists (tb s), m. cbn [lop_spec lop_world].
  destruct (m k) as [v|] eqn:Emk.
  - destruct Hf as [Hs Hat]. rewrite Hs in E. injection E as <- <-.
    split; [reflexivity|]. split; [exact G|]. split; [apply lim_same_refl|]. split; [exact R|].
    split; [intro; reflexivity|]. split; [reflexivity|].
    exists (pindex pos, pslot pos). split; [reflexivity|exact Hat].
  - rewrite Hf in E. injection E as <- <-.
    split; [reflexivity|]. split; [exact G|]. split; [apply lim_same_refl|]. split; [exact R|].
    split; [intro; reflexivity|]. split; [reflexivity|].
    exists (it_end (tb s)). split; reflexivity.
Qed.

Lemma refines_LAt w a s k w' r m :
  active s = true -> good (tb s) -> rep (tb s) m ->
  step_some c hash fapply w a s (LAt k) = (w', r) ->
  lpost w a s (LAt k) w' r m.
Proof.
  intros Hact G R E.
  cbv beta iota zeta delta [step_some] in E; rewrite Hact in E.
  destruct (lookup_fn c hash true (tb s) k (fun v => (v, false))) as [t1 x] eqn:El.
  injection E as <- <-.
  destruct (lookup_fn_good c hash true (tb s) k _ G t1 x El) as [_ [_ [_ Hcase]]].
  exists (tb s), m. split; [reflexivity|]. split; [exact G|]. split; [apply lim_same_refl|].
  split; [exact R|]. cbn [lop_spec]. split; [intro; reflexivity|]. split; [reflexivity|].
  destruct Hcase as [[Hno [-> _]]|[v0 [Hv0 [-> _]]]].
  - apply (grep_none _ m k G R) in Hno. rewrite Hno. reflexivity.
  - apply (grep _ m G R) in Hv0. rewrite Hv0. reflexivity.
Qed.

Lemma refines_LCount w a s k w' r m :
  active s = true -> good (tb s) -> rep (tb s) m ->
  step_some c hash fapply w a s (LCount k) = (w', r) ->
  lpost w a s (LCount k) w' r m.
Proof.
  intros Hact G R E.
  cbv beta iota zeta delta [step_some] in E; rewrite Hact in E.
  destruct (lookup_fn c hash true (tb s) k (fun v => (v, false))) as [t1 x] eqn:El.
  injection E as <- <-.
  destruct (lookup_fn_good c hash true (tb s) k _ G t1 x El) as [_ [_ [_ Hcase]]].
  exists (tb s), m. split; [reflexivity|]. split; [exact G|]. split; [apply lim_same_refl|].
  split; [exact R|]. cbn [lop_spec]. split; [intro; reflexivity|]. split; [reflexivity|].
  destruct Hcase as [[Hno [-> _]]|[v0 [Hv0 [-> _]]]].
  - apply (grep_none _ m k G R) in Hno. rewrite Hno. reflexivity.
  - apply (grep _ m G R) in Hv0. rewrite Hv0. reflexivity.
Qed.

Lemma refines_LRange w a s k w' r m :
  active s = true -> good (tb s) -> rep (tb s) m ->
  step_some c hash fapply w a s (LRange k) = (w', r) ->
  lpost w a s (LRange k) w' r m.
Proof.
  intros Hact G R E.
  cbv beta iota zeta delta [step_some] in E; rewrite Hact in E.
  rewrite (snap_good (tb s) k G) in E.
  assert (Hf := cfind_rep (tb s) m k G R). cbv zeta in Hf.
  set (pos := cuckoo_find c (tb s) k (hashed_partial hash k) (i1_of hash (bhp (cur (tb s))) k)
                (i2_of hash (bhp (cur (tb s))) k)) in *.
  exists (tb s), m. cbn [lop_spec lop_world].
  destruct (m k) as [v|] eqn:Emk.
  - destruct Hf as [Hs Hat]. rewrite Hs in E. destruct (pair_inv _ _ _ _ E) as [<- <-].
    split; [reflexivity|]. split; [exact G|]. split; [apply lim_same_refl|]. split; [exact R|].
    split; [intro; reflexivity|]. split; [reflexivity|].
    destruct (in_split _ _ (at_pos_occ (tb s) _ k v G Hat)) as [l1 [l2 Eo]].
    exists (pindex pos, pslot pos), l1, l2. split; [exact Hat|]. split; [exact Eo|].
    rewrite (it_next_spec c (co_spb _ Hc) (tb s) (good_hp62 _ G) l1 _ l2 Eo). reflexivity.
  - rewrite Hf in E. injection E as <- <-.
    split; [reflexivity|]. split; [exact G|]. split; [apply lim_same_refl|]. split; [exact R|].
    split; [intro; reflexivity|]. split; reflexivity.
Qed.

(* ================================================================== 4. insert / operator[] / erase(key) *)

(* locked_table::insert and operator[] are uprase_gen in locked mode with the functor that does
   nothing; in terms of the map *)
Lemma uprase_locked_rep t k v m t' x :
  nothrow c = true -> good t -> rep t m ->
  uprase_gen c hash true t k v (fun _ _ => None) = (t', x) ->
  match m k with
  | Some v0 =>
      good t' /\ lim_same t t' /\ rep t' m /\ bhp (cur t') = bhp (cur t) /\
      exists p, x = inr (false, [], p) /\ at_pos t' p k v0
  | None =>
      esc t \/
      (good t' /\ lim_same t t' /\
       ((exists e, x = inl e /\ exn_ok c true t t' e /\ rep t' m) \/
        (exists p, x = inr (true, [], p) /\ rep t' (mset m k (Some v)) /\ at_pos t' p k v)))
  end.
Proof.
  intros Hnt G R E.
  destruct (uprase_gen_good c hash Hc true t k v _ Hnt G (imm_true t) t' x E) as [Hin Hout].
  destruct (m k) as [v0|] eqn:Emk.
  - assert (Hv0 : holds (cur t) k v0) by (apply (grep t m G R); exact Emk).
    destruct (Hin v0 Hv0) as [b [sl [-> [G' [L [_ [Hhp [U Hp]]]]]]]].
    unfold final_of in U, Hp. cbv beta iota in U, Hp.
    split; [exact G'|]. split; [exact L|]. split; [|split; [exact Hhp|]].
    + apply (grep_same t t' m G G' R). apply (upd_holds_same c hash _ _ k v0 (good_arr t G) Hv0 U).
    + exists (b, sl). split; [reflexivity|]. destruct (Hp v0 eq_refl) as [e He]. exists e. exact He.
  - assert (Hno : ~ key_in (cur t) k) by (apply (grep_none t m k G R); exact Emk).
    destruct (Hout Hno) as [He|[[e [-> [He [Ev _]]]]|[b [sl [-> [G' [L [_ [_ [U Hp]]]]]]]]]];
      [left; exact He|right|right].
    + destruct Ev as [G' [Hh [L _]]]. split; [exact G'|]. split; [exact L|]. left. exists e.
      split; [reflexivity|]. split; [exact He|]. apply (grep_same t t' m G G' R Hh).
    + unfold final_of in U, Hp. cbv beta iota in U, Hp.
      split; [exact G'|]. split; [exact L|]. right. exists (b, sl). split; [reflexivity|].
      split; [apply (grep_upd t t' m k _ G G' R U)|].
      destruct (Hp v eq_refl) as [e He]. exists e. exact He.
Qed.

Lemma refines_LInsert w a s k v w' r m :
  nothrow c = true -> active s = true -> good (tb s) -> rep (tb s) m ->
  step_some c hash fapply w a s (LInsert k v) = (w', r) ->
  esc (tb s) \/ lpost w a s (LInsert k v) w' r m.
Proof.
  intros Hnt Hact G R E.
  cbv beta iota zeta delta [step_some] in E; rewrite Hact in E.
  destruct (uprase_gen c hash true (tb s) k v (fun _ _ => None)) as [t1 x] eqn:Eu.
  assert (H := uprase_locked_rep (tb s) k v m t1 x Hnt G R Eu).
  unfold lpost. cbn [lop_spec lop_world]. rewrite (put_t_active w a s t1 Hact) in E.
  destruct (m k) as [v0|] eqn:Emk.
  - right. destruct H as [G' [L [R' [_ [p [-> Hat]]]]]]. destruct (pair_inv _ _ _ _ E) as [<- <-].
    exists t1, m. split; [reflexivity|]. split; [exact G'|]. split; [exact L|]. split; [exact R'|].
    split; [intro; reflexivity|]. exists p. split; [reflexivity|exact Hat].
  - destruct H as [He|[G' [L [[e [-> [He R']]]|[p [-> [R' Hat]]]]]]]; [left; exact He|right|right].
    + destruct (pair_inv _ _ _ _ E) as [<- <-]. exists t1, m. split; [reflexivity|].
      split; [exact G'|]. split; [exact L|]. split; [exact R'|]. left. exists e.
      split; [reflexivity|]. split; [intro; reflexivity|exact He].
    + destruct (pair_inv _ _ _ _ E) as [<- <-]. exists t1, (mset m k (Some v)). split; [reflexivity|].
      split; [exact G'|]. split; [exact L|]. split; [exact R'|]. right.
      split; [intro; reflexivity|]. exists p. split; [reflexivity|exact Hat].
Qed.

(* operator[]: a missing key is inserted with the default value 0 *)
Lemma refines_LIdx w a s k w' r m :
  nothrow c = true -> active s = true -> good (tb s) -> rep (tb s) m ->
  step_some c hash fapply w a s (LIdx k) = (w', r) ->
  esc (tb s) \/ lpost w a s (LIdx k) w' r m.
Proof.
  intros Hnt Hact G R E.
  cbv beta iota zeta delta [step_some] in E; rewrite Hact in E.
  destruct (uprase_gen c hash true (tb s) k 0%Z (fun _ _ => None)) as [t1 x] eqn:Eu.
  assert (H := uprase_locked_rep (tb s) k 0%Z m t1 x Hnt G R Eu).
  unfold lpost. cbn [lop_spec lop_world]. rewrite (put_t_active w a s t1 Hact) in E.
  destruct (m k) as [v0|] eqn:Emk.
  - right. destruct H as [G' [L [R' [_ [p [-> [e [He [_ Hv]]]]]]]]].
    destruct (pair_inv _ _ _ _ E) as [<- <-].
    exists t1, m. split; [reflexivity|]. split; [exact G'|]. split; [exact L|]. split; [exact R'|].
    split; [intro; reflexivity|]. unfold val_at. rewrite He, Hv. reflexivity.
  - destruct H as [He|[G' [L [[e [-> [He R']]]|[p [-> [R' [e [He [_ Hv]]]]]]]]]]; [left; exact He|right|right].
    + destruct (pair_inv _ _ _ _ E) as [<- <-]. exists t1, m. split; [reflexivity|].
      split; [exact G'|]. split; [exact L|]. split; [exact R'|]. left. exists e.
      split; [reflexivity|]. split; [intro; reflexivity|exact He].
    + destruct (pair_inv _ _ _ _ E) as [<- <-]. exists t1, (mset m k (Some 0%Z)). split; [reflexivity|].
      split; [exact G'|]. split; [exact L|]. split; [exact R'|]. right.
      split; [intro; reflexivity|]. unfold val_at. rewrite He, Hv. reflexivity.
Qed.

(* erase(key): no nothrow assumption *)
Lemma refines_LEraseKey w a s k w' r m :
  active s = true -> good (tb s) -> rep (tb s) m ->
  step_some c hash fapply w a s (LEraseKey k) = (w', r) ->
  lpost w a s (LEraseKey k) w' r m.
Proof.
  intros Hact G R E.
  cbv beta iota zeta delta [step_some] in E; rewrite Hact in E.
  destruct (lookup_fn c hash true (tb s) k (fun v => (v, true))) as [t1 x] eqn:El.
  rewrite (put_t_active w a s t1 Hact) in E. destruct (pair_inv _ _ _ _ E) as [<- <-].
  destruct (lookup_fn_good c hash true (tb s) k _ G t1 x El) as [G' [L [_ Hcase]]].
  exists t1, (mset m k None). split; [reflexivity|]. split; [exact G'|]. split; [exact L|].
  cbn [lop_spec]. destruct Hcase as [[Hno [-> ->]]|[v0 [Hv0 [-> U]]]].
  - apply (grep_none _ m k G R) in Hno. rewrite Hno. cbn [is_some].
    split; [|split; [intro; reflexivity|reflexivity]].
    apply (rep_meq c (tb s) m _ R). intro k'. symmetry. apply (mset_absent_none m k Hno).
  - cbn [fst snd] in U. split; [apply (grep_upd (tb s) t1 m k None G G' R U)|].
    apply (grep _ m G R) in Hv0. rewrite Hv0. split; [intro; reflexivity|reflexivity].
Qed.

(* ================================================================== 5. clear / rehash / reserve *)

Lemma refines_LClear w a s w' r m :
  active s = true -> good (tb s) -> rep (tb s) m ->
  step_some c hash fapply w a s LClear = (w', r) ->
  lpost w a s LClear w' r m.
Proof.
  intros Hact G R E.
  cbv beta iota zeta delta [step_some] in E; rewrite Hact in E.
  rewrite (put_t_active w a s _ Hact) in E. destruct (pair_inv _ _ _ _ E) as [<- <-].
  destruct (cuckoo_clear_good c hash (tb s) G) as [G' [Hno [L _]]].
  exists (cuckoo_clear (tb s)), mempty. split; [reflexivity|]. split; [exact G'|]. split; [exact L|].
  split.
  - apply (grep_intro _ _ G'). intros k v. split; [intro H; exfalso; exact (Hno k v H)|intro H; discriminate].
  - cbn [lop_spec]. split; [intro; reflexivity|reflexivity].
Qed.

Lemma rehash_locked_rep t n m t1 x :
  good t -> rep t m -> limC c (mhp t) -> destructive c = false ->
  cuckoo_rehash c hash true t n = (t1, x) ->
  good t1 /\ lim_same t t1 /\ rep t1 m /\
  lresize_spec t n m (match x with inl e => exn_out e | inr _ => [RNone] end) t1 m.
Proof.
  intros G R Hl Hd Er.
  destruct (cuckoo_rehash_good c hash Hc true t n G Hl t1 x Er) as [H1 [H2 [H3 H4]]].
  unfold lresize_spec. destruct x as [e|[|]].
  - destruct (H4 e eq_refl) as [Hne [He [Hlf [_ Hev]]]]. destruct (Hev Hd) as [[G' [Hh [L _]]] _].
    split; [exact G'|]. split; [exact L|]. split; [apply (grep_same t t1 m G G' R Hh)|].
    split; [intro; reflexivity|]. right. exists e. split; [reflexivity|]. split; [exact Hne|].
    split; assumption.
  - destruct (H3 eq_refl) as [G' [Hh [L [Hb _]]]].
    split; [exact G'|]. split; [exact L|]. split; [apply (grep_same t t1 m G G' R Hh)|].
    split; [intro; reflexivity|]. left. split; [reflexivity|exact Hb].
  - rewrite (H2 eq_refl). split; [exact G|]. split; [apply lim_same_refl|]. split; [exact R|].
    split; [intro; reflexivity|]. left. split; [reflexivity|].
    rewrite (proj1 H1 eq_refl). apply N.le_refl.
Qed.

Lemma refines_LRehash w a s n w' r m :
  active s = true -> good (tb s) -> rep (tb s) m -> lop_pre (tb s) (LRehash n) ->
  step_some c hash fapply w a s (LRehash n) = (w', r) ->
  lpost w a s (LRehash n) w' r m.
Proof.
  intros Hact G R [Hl Hd] E.
  cbv beta iota zeta delta [step_some] in E; rewrite Hact in E.
  destruct (cuckoo_rehash c hash true (tb s) n) as [t1 x] eqn:Er.
  rewrite (put_t_active w a s t1 Hact) in E. destruct (pair_inv _ _ _ _ E) as [<- <-].
  destruct (rehash_locked_rep (tb s) n m t1 x G R Hl Hd Er) as [G' [L [R' Hs]]].
  exists t1, m. split; [reflexivity|]. split; [exact G'|]. split; [exact L|]. split; [exact R'|].
  exact Hs.
Qed.

Lemma refines_LReserve w a s n w' r m :
  active s = true -> good (tb s) -> rep (tb s) m -> lop_pre (tb s) (LReserve n) ->
  step_some c hash fapply w a s (LReserve n) = (w', r) ->
  lpost w a s (LReserve n) w' r m.
Proof.
  intros Hact G R [Hl Hd] E.
  cbv beta iota zeta delta [step_some] in E; rewrite Hact in E.
  rewrite cuckoo_reserve_eq in E.
  destruct (cuckoo_rehash c hash true (tb s) (reserve_calc c n)) as [t1 x] eqn:Er.
  rewrite (put_t_active w a s t1 Hact) in E. destruct (pair_inv _ _ _ _ E) as [<- <-].
  destruct (rehash_locked_rep (tb s) _ m t1 x G R Hl Hd Er) as [G' [L [R' Hs]]].
  exists t1, m. split; [reflexivity|]. split; [exact G'|]. split; [exact L|]. split; [exact R'|].
  exact Hs.
Qed.

(* ================================================================== 6. the two traversals *)

Lemma refines_LTraverse w a s w' r m :
  active s = true -> good (tb s) -> rep (tb s) m ->
  step_some c hash fapply w a s LTraverse = (w', r) ->
  lpost w a s LTraverse w' r m.
Proof.
  intros Hact G R E.
  cbv beta iota zeta delta [step_some] in E; rewrite Hact in E.
  rewrite (traverse_fwd_spec c (co_spb _ Hc) (tb s) (good_hp62 _ G)) in E.
  destruct (pair_inv _ _ _ _ E) as [<- <-].
  exists (tb s), m. split; [reflexivity|]. split; [exact G|]. split; [apply lim_same_refl|].
  split; [exact R|]. cbn [lop_spec]. split; [intro; reflexivity|]. split; [reflexivity|].
  split; [reflexivity|]. rewrite kvs_fwd. split; [reflexivity|apply contents_listing; assumption].
Qed.

Lemma refines_LRTraverse w a s w' r m :
  active s = true -> good (tb s) -> rep (tb s) m ->
  step_some c hash fapply w a s LRTraverse = (w', r) ->
  lpost w a s LRTraverse w' r m.
Proof.
  intros Hact G R E.
  cbv beta iota zeta delta [step_some] in E; rewrite Hact in E.
  rewrite (traverse_bwd_spec c (co_spb _ Hc) (tb s) (good_hp62 _ G)) in E.
  destruct (pair_inv _ _ _ _ E) as [<- <-].
  exists (tb s), m. split; [reflexivity|]. split; [exact G|]. split; [apply lim_same_refl|].
  split; [exact R|]. cbn [lop_spec]. split; [intro; reflexivity|]. split; [reflexivity|].
  split; [reflexivity|]. rewrite kvs_bwd. split; [reflexivity|].
  apply is_listing_rev. apply contents_listing; assumption.
Qed.

(* the reverse traversal prints exactly the reverse of the forward traversal, pair for pair *)
Corollary rtraverse_is_reverse w a s m w1 r1 w2 r2 :
  active s = true -> good (tb s) -> rep (tb s) m ->
  step_some c hash fapply w a s LTraverse = (w1, r1) ->
  step_some c hash fapply w a s LRTraverse = (w2, r2) ->
  kvs r2 = rev (kvs r1) /\ is_listing m (kvs r1) /\ w1 = w /\ w2 = w.
Proof.
  intros Hact G R E1 E2.
  destruct (refines_LTraverse w a s w1 r1 m Hact G R E1) as [t1 [m1 [Hw1 [_ [_ [_ Hs1]]]]]].
  destruct (refines_LRTraverse w a s w2 r2 m Hact G R E2) as [t2 [m2 [Hw2 [_ [_ [_ Hs2]]]]]].
  cbn [lop_spec lop_world] in *.
  destruct Hs1 as [_ [_ [_ [K1 Hl1]]]]. destruct Hs2 as [_ [_ [_ [K2 _]]]].
  split; [rewrite K2, K1; reflexivity|]. split; [exact Hl1|]. split; assumption.
Qed.

(* ================================================================== 7. the packaged statement *)

(* THE PACKAGED STATEMENT: every locked-table operation of Api.step_some listed in [locked_op],
   run inside a section (slot active) on a settled table, leaves a settled table with the same
   limits in a slot that is still active (inactive after OUnlock), and its printed result, the
   register it writes and its new contents are those of the map specification.
   [nothrow c = true] is used by LInsert and LIdx only (automatic doubling), [lop_pre] by
   LRehash / LReserve only; [esc]: an insertion doubled a table of 2^59 buckets (excluded when
   maximum_hashpower <= 59, Refine.esc_capped). *)
Theorem locked_mode_op_refines w a s o w' r m :
  nothrow c = true -> active s = true -> locked_op o = true ->
  good (tb s) -> rep (tb s) m -> lop_pre (tb s) o ->
  step_some c hash fapply w a s o = (w', r) ->
  esc (tb s) \/ lpost w a s o w' r m.
Proof.
  intros Hnt Hact Hop G R Hpre E.
  destruct o; try discriminate Hop.
  - right. exact (refines_OUnlock _ _ _ _ _ _ Hact G R E).
  - exact (refines_LInsert _ _ _ _ _ _ _ _ Hnt Hact G R E).
  - right. exact (refines_LEraseKey _ _ _ _ _ _ _ Hact G R E).
  - right. exact (refines_LFind _ _ _ _ _ _ _ _ Hact G R E).
  - right. exact (refines_LAt _ _ _ _ _ _ _ Hact G R E).
  - exact (refines_LIdx _ _ _ _ _ _ _ Hnt Hact G R E).
  - right. exact (refines_LCount _ _ _ _ _ _ _ Hact G R E).
  - right. exact (refines_LRange _ _ _ _ _ _ _ Hact G R E).
  - right. exact (refines_LRehash _ _ _ _ _ _ _ Hact G R Hpre E).
  - right. exact (refines_LReserve _ _ _ _ _ _ _ Hact G R Hpre E).
  - right. exact (refines_LClear _ _ _ _ _ _ Hact G R E).
  - right. exact (refines_LTraverse _ _ _ _ _ _ Hact G R E).
  - right. exact (refines_LRTraverse _ _ _ _ _ _ Hact G R E).
Qed.

(* with a maximum hashpower of at most 59 the escape alternative disappears *)
Corollary locked_mode_op_refines_capped w a s o w' r m :
  nothrow c = true -> active s = true -> locked_op o = true ->
  good (tb s) -> rep (tb s) m -> lop_pre (tb s) o -> mhp (tb s) <= 59 ->
  step_some c hash fapply w a s o = (w', r) ->
  lpost w a s o w' r m.
Proof.
  intros Hnt Hact Hop G R Hpre Hm E.
  destruct (locked_mode_op_refines w a s o w' r m Hnt Hact Hop G R Hpre E) as [He|H]; [|exact H].
  exfalso. exact (esc_capped c hash (tb s) Hm He).
Qed.

(* the slot after a section operation is again a legal starting point of the theorem *)
Lemma lpost_slot w a s o w' r m :
  locked_op o = true -> o <> OUnlock -> lpost w a s o w' r m ->
  exists t' m', good t' /\ rep t' m' /\ lim_same (tb s) t' /\ lop_spec (tb s) m o r t' m' /\
    (tabs w' = tabs w \/ tabs w' = set_nth a (Some {| tb := t'; active := true |}) (tabs w)).
Proof.
  intros Hop Hne [t' [m' [Hw [G' [L [R' Hs]]]]]]. exists t', m'.
  split; [exact G'|]. split; [exact R'|]. split; [exact L|]. split; [exact Hs|].
  subst w'. destruct o; try discriminate Hop; try (right; reflexivity); try (left; reflexivity).
  - exfalso. apply Hne. reflexivity.
  - left. cbn [lop_world]. destruct r as [|[] [|]]; reflexivity.
Qed.

(* C06, sequentially: on creation the locked_table exposes every stored element - locking ANY
   well-formed table (deferred migration pending or not) and traversing prints exactly the pairs of
   the map, each key once (no nothrow assumption) *)
Theorem lock_exposes_every_element w a s m w1 r1 w2 r2 :
  active s = false -> lgood (tb s) -> rep (tb s) m ->
  step_some c hash fapply w a s OLock = (w1, r1) ->
  step_some c hash fapply w1 a {| tb := rww (tb s); active := true |} LTraverse = (w2, r2) ->
  w1 = reset_its (put_tab w a (Some {| tb := rww (tb s); active := true |})) /\
  r1 = [RNone] /\ w2 = w1 /\ is_listing m (kvs r2) /\ kvs r2 = contents (rww (tb s)).
Proof.
  intros Hact G R E1 E2.
  destruct (refines_OLock w a s w1 r1 m Hact G R E1) as [Hw1 [Hr1 [G1 [_ [R1 _]]]]].
  cbv zeta in Hw1, G1, R1.
  destruct (refines_LTraverse w1 a {| tb := rww (tb s); active := true |} w2 r2 m eq_refl G1 R1 E2) as [t2 [m2 [Hw2 [_ [_ [_ Hs]]]]]].
  cbn [lop_spec lop_world tb] in Hw2, Hs. destruct Hs as [_ [_ [_ [K Hl]]]].
  split; [exact Hw1|]. split; [exact Hr1|]. split; [exact Hw2|]. split; [exact Hl|exact K].
Qed.

(* ================================================================== 8. the iterator registers *)
(* Not part of the packaged theorem: their statements depend on the register file [its w].
   [get_it c w t reg = Some p]: register reg holds p and p is usable on t (a slot position of the
   current array or end()).  Positions are related to [occ_list] (the occupied positions in
   iteration order), whose image under [kv_at] is [contents t], a listing of the map. *)

Lemma nth_set_nth {A} (x d : A) : forall (l : list A) (n : nat),
  (n < length l)%nat -> nth n (set_nth n x l) d = x.
Proof.
  induction l as [|y l IH]; intros n Hn; [cbn [length] in Hn; lia|].
  destruct n as [|n]; [reflexivity|]. cbn [set_nth nth]. apply IH. cbn [length] in Hn. lia.
Qed.

Lemma set_nth_length {A} (x : A) : forall (l : list A) (n : nat), length (set_nth n x l) = length l.
Proof.
  induction l as [|y l IH]; intros n; [destruct n; reflexivity|].
  destruct n as [|n]; [reflexivity|]. cbn [set_nth length]. rewrite IH. reflexivity.
Qed.

Lemma get_it_put_it w t reg p :
  (reg < length (its w))%nat -> valid_pos c t p = true -> get_it c (put_it w reg p) t reg = Some p.
Proof.
  intros Hn Hv. unfold get_it, get_it_raw, put_it. cbn [its].
  rewrite (nth_set_nth (Some p) None (its w) reg Hn). rewrite Hv. reflexivity.
Qed.

Lemma occ_not_end t p : good t -> In p (occ_list c (cur t)) -> is_end t p = false.
Proof.
  intros G Hp. unfold is_end. rewrite (end_pos_eq c (co_spb _ Hc) t (good_hp62 t G)). cbn [fst snd].
  apply In_occ_list in Hp. destruct Hp as [Hb _]. apply andb_false_iff. left. apply N.eqb_neq. lia.
Qed.

Lemma valid_occ t p : good t -> In p (occ_list c (cur t)) -> valid_pos c t p = true.
Proof.
  intros G Hp. unfold valid_pos. apply In_occ_list in Hp. destruct Hp as [Hb [Hs _]].
  rewrite (bucket_count_pow c (co_spb _ Hc) t (good_hp62 t G)).
  apply orb_true_iff. left. apply andb_true_iff. split; apply N.ltb_lt; assumption.
Qed.

Lemma valid_end t : valid_pos c t (it_end t) = true.
Proof.
  unfold valid_pos, is_end, it_end. rewrite !N.eqb_refl. apply orb_true_r.
Qed.

Lemma valid_hd t l : good t -> (forall x, In x l -> In x (occ_list c (cur t))) ->
  valid_pos c t (hd (it_end t) l) = true.
Proof.
  intros G H. destruct l as [|x l]; cbn [hd]; [apply valid_end|]. apply (valid_occ t x G).
  apply H. left. reflexivity.
Qed.

(* begin(): the first occupied position, end() for the empty table *)
Lemma refines_ItBegin w a s reg w' r :
  active s = true -> good (tb s) ->
  step_some c hash fapply w a s (ItBegin reg) = (w', r) ->
  let p := hd (it_end (tb s)) (occ_list c (cur (tb s))) in
  w' = put_it w reg p /\ r = [RPos (fst p) (snd p)].
Proof.
  intros Hact G E p.
  cbv beta iota zeta delta [step_some] in E; rewrite Hact in E.
  rewrite (it_begin_spec c (co_spb _ Hc) (tb s) (good_hp62 _ G)) in E.
  destruct (pair_inv _ _ _ _ E) as [<- <-]. split; reflexivity.
Qed.

Lemma refines_ItEnd w a s reg w' r :
  active s = true ->
  step_some c hash fapply w a s (ItEnd reg) = (w', r) ->
  let p := it_end (tb s) in
  w' = put_it w reg p /\ r = [RPos (fst p) (snd p)].
Proof.
  intros Hact E p.
  cbv beta iota zeta delta [step_some] in E; rewrite Hact in E.
  destruct (pair_inv _ _ _ _ E) as [<- <-]. split; reflexivity.
Qed.

(* ++it: the successor in iteration order, end() after the last element *)
Lemma refines_ItInc w a s reg w' r p l1 l2 :
  active s = true -> good (tb s) ->
  get_it c w (tb s) reg = Some p -> occ_list c (cur (tb s)) = l1 ++ p :: l2 ->
  step_some c hash fapply w a s (ItInc reg) = (w', r) ->
  let q := hd (it_end (tb s)) l2 in
  w' = put_it w reg q /\ r = [RPos (fst q) (snd q)].
Proof.
  intros Hact G Hreg Eo E q.
  cbv beta iota zeta delta [step_some] in E; rewrite Hact in E. rewrite Hreg in E.
  assert (Hp : In p (occ_list c (cur (tb s)))) by (rewrite Eo; apply in_or_app; right; left; reflexivity).
  rewrite (occ_not_end (tb s) p G Hp) in E.
  rewrite (it_next_spec c (co_spb _ Hc) (tb s) (good_hp62 _ G) l1 p l2 Eo) in E.
  destruct (pair_inv _ _ _ _ E) as [<- <-]. split; reflexivity.
Qed.

(* --it: the predecessor; from end() the last element *)
Lemma refines_ItDec w a s reg w' r l1 q l2 :
  active s = true -> good (tb s) ->
  get_it c w (tb s) reg = Some (hd (it_end (tb s)) l2) -> occ_list c (cur (tb s)) = l1 ++ q :: l2 ->
  step_some c hash fapply w a s (ItDec reg) = (w', r) ->
  w' = put_it w reg q /\ r = [RPos (fst q) (snd q)].
Proof.
  intros Hact G Hreg Eo E.
  cbv beta iota zeta delta [step_some] in E; rewrite Hact in E. rewrite Hreg in E.
  unfold it_end in E.
  rewrite (it_prev_gen c (co_spb _ Hc) (tb s) (good_hp62 _ G) l1 q l2 Eo) in E.
  destruct (pair_inv _ _ _ _ E) as [<- <-]. split; reflexivity.
Qed.

(* *it: the pair stored at the position, a pair of the map *)
Lemma refines_ItGet w a s reg w' r m p k v :
  active s = true -> good (tb s) -> rep (tb s) m ->
  get_it c w (tb s) reg = Some p -> at_pos (tb s) p k v ->
  step_some c hash fapply w a s (ItGet reg) = (w', r) ->
  w' = w /\ r = [RKV k v] /\ m k = Some v.
Proof.
  intros Hact G R Hreg Hat E.
  cbv beta iota zeta delta [step_some] in E; rewrite Hact in E. rewrite Hreg in E.
  assert (Hm : m k = Some v) by (apply (grep _ m G R); apply (at_pos_holds _ p); exact Hat).
  destruct Hat as [e [He [Hk Hv]]]. rewrite He in E.
  destruct (pair_inv _ _ _ _ E) as [<- <-]. rewrite Hk, Hv. split; [reflexivity|]. split; [reflexivity|exact Hm].
Qed.

(* it->second = v: the map gets k |-> v, the element stays where it is *)
Lemma refines_ItSet w a s reg v w' r m p k v0 :
  active s = true -> good (tb s) -> rep (tb s) m ->
  get_it c w (tb s) reg = Some p -> at_pos (tb s) p k v0 ->
  step_some c hash fapply w a s (ItSet reg v) = (w', r) ->
  exists t', w' = put_tab w a (Some {| tb := t'; active := true |}) /\ r = [RNone] /\
    good t' /\ lim_same (tb s) t' /\ bhp (cur t') = bhp (cur (tb s)) /\
    rep t' (mset m k (Some v)) /\ at_pos t' p k v.
Proof.
  intros Hact G R Hreg [e [He [Hk Hv]]] E.
  cbv beta iota zeta delta [step_some] in E; rewrite Hact in E. rewrite Hreg in E.
  assert (Ho : occupied (cur (tb s)) (fst p) (snd p) = true) by (apply occupied_true; exists e; exact He).
  rewrite Ho in E. rewrite (put_t_active w a s _ Hact) in E.
  destruct (pair_inv _ _ _ _ E) as [<- <-].
  destruct (good_set_val c hash (tb s) (fst p) (snd p) e v G He) as [G' [L [Hhp [[e' [He' [Hk' Hv']]] Hh]]]].
  cbv zeta in G', L, Hhp, He', Hh.
  exists (set_val (tb s) (fst p) (snd p) v). split; [reflexivity|]. split; [reflexivity|].
  split; [exact G'|]. split; [exact L|]. split; [exact Hhp|]. split.
  - apply (grep_upd (tb s) _ m k (Some v) G G' R). intros k' v'. rewrite (Hh k' v'), Hk. split.
    + intros [[E1 E2]|[E1 H]]; [right; split; [exact E1|rewrite E2; reflexivity]|left; split; assumption].
    + intros [[E1 H]|[E1 H]]; [right; split; assumption|left]. injection H as <-. split; [exact E1|reflexivity].
  - exists e'. split; [exact He'|]. split; [congruence|exact Hv'].
Qed.

Lemma refines_ItEq w a s r1 r2 w' r p q :
  active s = true -> get_it_raw w r1 = Some p -> get_it_raw w r2 = Some q ->
  step_some c hash fapply w a s (ItEq r1 r2) = (w', r) ->
  w' = w /\ exists b, r = [RBool b] /\ (b = true <-> p = q).
Proof.
  intros Hact H1 H2 E.
  cbv beta iota zeta delta [step_some] in E; rewrite Hact in E. rewrite H1, H2 in E.
  destruct (pair_inv _ _ _ _ E) as [<- <-]. split; [reflexivity|]. eexists. split; [reflexivity|].
  rewrite andb_true_iff, !N.eqb_eq. split.
  - intros [E1 E2]. apply injective_projections; assumption.
  - intros ->. split; reflexivity.
Qed.

(* erase(it): the element leaves the map, the returned iterator is the successor, the other
   elements keep their positions and their order *)
Lemma refines_LEraseIt w a s reg dst w' r m p k v l1 l2 :
  active s = true -> good (tb s) -> rep (tb s) m ->
  get_it c w (tb s) reg = Some p -> at_pos (tb s) p k v ->
  occ_list c (cur (tb s)) = l1 ++ p :: l2 ->
  step_some c hash fapply w a s (LEraseIt reg dst) = (w', r) ->
  exists t', let q := hd (it_end t') l2 in
    w' = put_it (put_tab w a (Some {| tb := t'; active := true |})) dst q /\
    r = [RPos (fst q) (snd q)] /\
    good t' /\ lim_same (tb s) t' /\ bhp (cur t') = bhp (cur (tb s)) /\
    rep t' (mset m k None) /\ occ_list c (cur t') = l1 ++ l2.
Proof.
  intros Hact G R Hreg [e [He [Hk Hv]]] Eo E.
  cbv beta iota zeta delta [step_some] in E; rewrite Hact in E. rewrite Hreg in E.
  assert (Ho : occupied (cur (tb s)) (fst p) (snd p) = true) by (apply occupied_true; exists e; exact He).
  rewrite Ho in E. rewrite (put_t_active w a s _ Hact) in E.
  destruct (erase_it_returns_successor c (co_spb _ Hc) (tb s) p l1 l2 (good_hp62 _ G) Eo) as [Hmk Eo'].
  cbv zeta in Hmk, Eo'. rewrite Hmk in E.
  destruct (pair_inv _ _ _ _ E) as [<- <-].
  destruct (good_del c hash (tb s) (fst p) (snd p) e G He) as [G' [L [Hhp Hh]]].
  cbv zeta in G', L, Hhp, Hh.
  exists (del_from_bucket c (tb s) (fst p) (snd p)). cbv zeta.
  split; [reflexivity|]. split; [reflexivity|]. split; [exact G'|]. split; [exact L|].
  split; [exact Hhp|]. split; [|exact Eo'].
  apply (grep_upd (tb s) _ m k None G G' R). intros k' v'. rewrite (Hh k' v'), Hk. split.
  - intros [H E1]. left. split; assumption.
  - intros [[E1 H]|[_ H]]; [split; assumption|discriminate].
Qed.

(* C09 at the API level: begin(), then (read *it, ++it) once per element, prints the pairs of the
   map in iteration order - the same sequence as LTraverse - and stops at end() *)
Fixpoint iter_collect (w : world) (a : nat) (s : tslot) (reg : nat) (n : nat) : world * out :=
  match n with
  | O => (w, [])
  | S n' =>
    let '(w1, r1) := step_some c hash fapply w a s (ItGet reg) in
    let '(w2, _) := step_some c hash fapply w1 a s (ItInc reg) in
    let '(w3, r3) := iter_collect w2 a s reg n' in
    (w3, r1 ++ r3)
  end.

Lemma iter_collect_gen a s reg :
  active s = true -> good (tb s) ->
  forall l2 l1 w, occ_list c (cur (tb s)) = l1 ++ l2 -> (reg < length (its w))%nat ->
  get_it c w (tb s) reg = Some (hd (it_end (tb s)) l2) ->
  let '(w', r) := iter_collect w a s reg (length l2) in
  kvs r = map (kv_at (cur (tb s))) l2 /\ get_it c w' (tb s) reg = Some (it_end (tb s)) /\
  tabs w' = tabs w.
Proof.
  intros Hact G. induction l2 as [|p l2 IH]; intros l1 w Eo Hn Hreg; cbn [length iter_collect].
  - split; [reflexivity|]. split; [exact Hreg|reflexivity].
  - cbn [hd] in Hreg.
    assert (Hp : In p (occ_list c (cur (tb s)))) by (rewrite Eo; apply in_or_app; right; left; reflexivity).
    destruct (occ_in_range c (tb s) p Hp) as [_ [_ [e He]]].
    assert (Hat : at_pos (tb s) p (ekey e) (eval e)) by (exists e; repeat split; exact He).
    destruct (step_some c hash fapply w a s (ItGet reg)) as [w1 r1] eqn:E1.
    cbv beta iota zeta delta [step_some] in E1; rewrite Hact in E1. rewrite Hreg in E1. rewrite He in E1.
    destruct (pair_inv _ _ _ _ E1) as [<- <-].
    destruct (step_some c hash fapply w a s (ItInc reg)) as [w2 r2] eqn:E2.
    destruct (refines_ItInc w a s reg w2 r2 p l1 l2 Hact G Hreg Eo E2) as [Hw2 _]. cbv zeta in Hw2.
    assert (Eo2 : occ_list c (cur (tb s)) = (l1 ++ [p]) ++ l2) by (rewrite <- app_assoc; exact Eo).
    assert (Hn2 : (reg < length (its w2))%nat).
    { rewrite Hw2. unfold put_it. cbn [its]. rewrite set_nth_length. exact Hn. }
    assert (Hreg2 : get_it c w2 (tb s) reg = Some (hd (it_end (tb s)) l2)).
    { rewrite Hw2. apply (get_it_put_it w (tb s) reg _ Hn). apply (valid_hd (tb s) l2 G).
      intros x Hx. rewrite Eo. apply in_or_app. right. right. exact Hx. }
    specialize (IH (l1 ++ [p]) w2 Eo2 Hn2 Hreg2).
    destruct (iter_collect w2 a s reg (length l2)) as [w3 r3].
    destruct IH as [Hk [Hr Ht]]. split; [|split; [exact Hr|]].
    + cbn [app map]. unfold kvs in *. cbn [flat_map app]. rewrite Hk. f_equal. unfold kv_at. rewrite He. reflexivity.
    + rewrite Ht, Hw2. reflexivity.
Qed.

Theorem iteration_lists_the_map w a s reg m w0 r0 :
  active s = true -> good (tb s) -> rep (tb s) m -> (reg < length (its w))%nat ->
  step_some c hash fapply w a s (ItBegin reg) = (w0, r0) ->
  let '(w', r) := iter_collect w0 a s reg (length (occ_list c (cur (tb s)))) in
  kvs r = contents (tb s) /\ is_listing m (kvs r) /\
  get_it c w' (tb s) reg = Some (it_end (tb s)) /\ tabs w' = tabs w.
Proof.
  intros Hact G R Hn E0.
  destruct (refines_ItBegin w a s reg w0 r0 Hact G E0) as [Hw0 _]. cbv zeta in Hw0.
  assert (Hn0 : (reg < length (its w0))%nat).
  { rewrite Hw0. unfold put_it. cbn [its]. rewrite set_nth_length. exact Hn. }
  assert (Hreg0 : get_it c w0 (tb s) reg = Some (hd (it_end (tb s)) (occ_list c (cur (tb s))))).
  { rewrite Hw0. apply (get_it_put_it w (tb s) reg _ Hn). apply (valid_hd (tb s) _ G). intros x Hx. exact Hx. }
  assert (H := iter_collect_gen a s reg Hact G (occ_list c (cur (tb s))) [] w0 eq_refl Hn0 Hreg0).
  destruct (iter_collect w0 a s reg (length (occ_list c (cur (tb s))))) as [w' r].
  destruct H as [Hk [Hr Ht]]. fold (contents (tb s)) in Hk.
  split; [exact Hk|]. split; [rewrite Hk; apply contents_listing; assumption|].
  split; [exact Hr|]. rewrite Ht, Hw0. reflexivity.
Qed.

(* ================================================================== 9. a whole section, at the level of [Api.step] *)

(* slot a of world w is inside a section on the settled table t representing m, with limits under
   which neither the escape alternative nor the rebuild side conditions arise *)
Record sect (w : world) (a : nat) (t : table) (m : amap) : Prop := {
  sc_tab : get_tab w a = Some {| tb := t; active := true |};
  sc_len : (a < length (tabs w))%nat;
  sc_good : good t;
  sc_rep : rep t m;
  sc_lim : limC c (mhp t)
}.

Lemma get_put_tab w a x : (a < length (tabs w))%nat -> get_tab (put_tab w a x) a = x.
Proof. intro H. unfold get_tab, put_tab. cbn [tabs]. apply nth_set_nth. exact H. Qed.

Lemma limC_lim t t' : lim_same t t' -> limC c (mhp t) -> limC c (mhp t').
Proof. intros [_ [_ [E _]]] H. rewrite E. exact H. Qed.

(* lock_table() enters a section *)
Theorem lock_enters_section w a s m w' r :
  get_tab w a = Some s -> (a < length (tabs w))%nat -> active s = false ->
  lgood (tb s) -> rep (tb s) m -> limC c (mhp (tb s)) ->
  step c hash fapply w a OLock = (w', r) ->
  r = [RNone] /\ sect w' a (rww (tb s)) m /\ lim_same (tb s) (rww (tb s)) /\
  tsize (rww (tb s)) = tsize (tb s) /\ bhp (cur (rww (tb s))) = bhp (cur (tb s)).
Proof.
  intros Hg Hlen Hact G R Hl E. unfold step in E. rewrite Hg in E.
  destruct (refines_OLock w a s w' r m Hact G R E) as [Hw [Hr [G' [L [R' [Hhp [Hts _]]]]]]].
  cbv zeta in Hw, G', L, R', Hhp, Hts.
  split; [exact Hr|]. split; [|split; [exact L|split; assumption]].
  constructor.
  - rewrite Hw. unfold reset_its, get_tab. cbn [tabs]. apply nth_set_nth. exact Hlen.
  - rewrite Hw. unfold reset_its, put_tab. cbn [tabs]. rewrite set_nth_length. exact Hlen.
  - exact G'.
  - exact R'.
  - apply (limC_lim _ _ L Hl).
Qed.

(* every listed operation keeps the slot inside the section and refines the map *)
Theorem locked_step_in_section w a t m o w' r :
  nothrow c = true -> destructive c = false -> locked_op o = true -> o <> OUnlock ->
  sect w a t m -> step c hash fapply w a o = (w', r) ->
  exists t' m', w' = lop_world w a o t' r /\ sect w' a t' m' /\ lim_same t t' /\
                lop_spec t m o r t' m'.
Proof.
  intros Hnt Hd Hop Hne [Hg Hlen G R Hl] E. unfold step in E. rewrite Hg in E.
  assert (Hpre : lop_pre t o) by (destruct o; cbn [lop_pre]; try exact I; split; assumption).
  assert (Hm : mhp t <= 59) by (destruct Hl as [_ H]; lia).
  destruct (locked_mode_op_refines_capped w a {| tb := t; active := true |} o w' r m Hnt eq_refl Hop
              G R Hpre Hm E) as [t' [m' [Hw [G' [L [R' Hs]]]]]].
  cbn [tb] in L, Hs.
  exists t', m'. split; [exact Hw|]. split; [|split; [exact L|exact Hs]].
  assert (Hl' := limC_lim _ _ L Hl).
  assert (Hput : sect (put_tab w a (Some {| tb := t'; active := true |})) a t' m').
  { constructor; [apply get_put_tab; exact Hlen| |exact G'|exact R'|exact Hl'].
    unfold put_tab. cbn [tabs]. rewrite set_nth_length. exact Hlen. }
  assert (Hsame : t' = t -> sect w a t' m').
  { intros ->. constructor; assumption. }
  destruct o; try discriminate Hop; cbn [lop_world] in Hw; cbn [lop_spec] in Hs; subst w'.
  - exfalso. apply Hne. reflexivity.
  - exact Hput.
  - exact Hput.
  - destruct Hs as [_ [Et _]]. specialize (Hsame Et).
    destruct r as [|[] [|]]; try exact Hsame.
    destruct Hsame as [H1 H2 H3 H4 H5]. constructor; assumption.
  - destruct Hs as [_ [Et _]]. exact (Hsame Et).
  - exact Hput.
  - destruct Hs as [_ [Et _]]. exact (Hsame Et).
  - destruct Hs as [_ [Et _]]. exact (Hsame Et).
  - exact Hput.
  - exact Hput.
  - exact Hput.
  - destruct Hs as [_ [Et _]]. exact (Hsame Et).
  - destruct Hs as [_ [Et _]]. exact (Hsame Et).
Qed.

(* unlock() leaves it: the table and the map are the ones the section ended with *)
Theorem unlock_leaves_section w a t m w' r :
  sect w a t m -> step c hash fapply w a OUnlock = (w', r) ->
  r = [RNone] /\ get_tab w' a = Some {| tb := t; active := false |} /\ good t /\ rep t m.
Proof.
  intros [Hg Hlen G R Hl] E. unfold step in E. rewrite Hg in E.
  destruct (refines_OUnlock w a {| tb := t; active := true |} w' r m eq_refl G R E)
    as [t' [m' [Hw [_ [_ [_ Hs]]]]]].
  cbn [lop_world] in Hw. cbn [lop_spec tb] in Hs. destruct Hs as [_ [-> ->]].
  split; [reflexivity|]. split; [rewrite Hw; apply get_put_tab; exact Hlen|]. split; assumption.
Qed.

End Ops.

End LockedRefine.

(* ================================================================== 10. non-vacuity *)
Module LockedRefineExample.
Definition c1 : config := {| spb := 2; lbits := 16; simple := true; nothrow := true; destructive := false |}.
Definition h1 (k : N) : N := k.
Definition st := step c1 h1 fapply_std.

Fixpoint run (w : world) (ops : list op) : world * list out :=
  match ops with
  | [] => (w, [])
  | o :: r => let '(w1, x) := st w 0 o in let '(w2, xs) := run w1 r in (w2, x :: xs)
  end.

(* a whole section on a concrete table: the outputs are those the specification prescribes for the
   map {1->10, 2->20, 3->30} (note LInsert 2 99 does not overwrite, LIdx 7 inserts 7->0 and makes
   the table double, the reverse traversal is the reverse of the forward one) *)
Example session :
  snd (run init_world
         [ONew 0; OMhp 10; OInsert 1 10; OInsert 2 20; OInsert 3 30; OLock;
          LInsert 4 40; LInsert 2 99; LFind 2 0; LFind 9 1; LAt 3; LAt 9; LCount 1; LRange 2;
          LIdx 7; LIdx 1; LEraseKey 1; LEraseKey 1; LTraverse; LRTraverse;
          ItBegin 2; ItGet 2; ItInc 2; ItGet 2; LReserve 64; LTraverse; LClear; LTraverse; OUnlock])
  = [[RNone]; [RNone]; [RBool true]; [RBool true]; [RBool true]; [RNone];
     [RPos 0 1; RBool true]; [RPos 0 0; RBool false]; [RPos 0 0]; [RPos 2 0]; [RInt 30];
     [RExn EOutOfRange]; [RNat 1]; [RPos 0 0; RPos 0 1];
     [RInt 0]; [RInt 10]; [RNat 1]; [RNat 0];
     [RPos 0 1; RKV 4 40; RPos 2 0; RKV 2 20; RPos 3 0; RKV 3 30; RPos 3 1; RKV 7 0];
     [RPos 3 1; RKV 7 0; RPos 3 0; RKV 3 30; RPos 2 0; RKV 2 20; RPos 0 1; RKV 4 40];
     [RPos 0 1]; [RKV 4 40]; [RPos 2 0]; [RKV 2 20]; [RNone];
     [RPos 2 1; RKV 2 20; RPos 3 1; RKV 3 30; RPos 4 1; RKV 4 40; RPos 7 1; RKV 7 0];
     [RNone]; []; [RNone]].
Proof. vm_compute. reflexivity. Qed.

(* a concrete instance meeting every hypothesis of the theorems *)
Definition t0 : table := set_mhp (new_table c1 0) 10.
Definition s_in : tslot := {| tb := t0; active := true |}.
Definition s_out : tslot := {| tb := t0; active := false |}.

Lemma c1_ok : cfg_ok c1.
Proof. constructor; vm_compute; first [reflexivity|discriminate]. Qed.

Lemma t0_good : good c1 h1 t0 /\ rep c1 t0 mempty /\ limC c1 (mhp t0).
Proof.
  assert (Hr : reserve_calc c1 0 < 60) by (vm_compute; reflexivity).
  destruct (good_new_table c1 h1 c1_ok 0 Hr) as [G [Hno Hhp]].
  assert (G0 : good c1 h1 t0).
  { apply (good_set_mhp c1 h1 _ 10 G). rewrite Hhp. vm_compute. discriminate. }
  split; [exact G0|]. split.
  - apply (grep_intro c1 h1 t0 mempty G0). intros k v. split; [|intro H; discriminate].
    intro H. exfalso. exact (Hno k v H).
  - split; vm_compute; discriminate.
Qed.

Example instance_locked_mode_op_refines :
  lpost c1 h1 init_world 0 s_in (LInsert 5 50)
    (fst (step_some c1 h1 fapply_std init_world 0 s_in (LInsert 5 50)))
    (snd (step_some c1 h1 fapply_std init_world 0 s_in (LInsert 5 50))) mempty.
Proof.
  destruct t0_good as [G [R Hl]].
  assert (Hm : mhp (tb s_in) <= 59) by (vm_compute; discriminate).
  exact (locked_mode_op_refines_capped c1 h1 c1_ok fapply_std init_world 0 s_in (LInsert 5 50) _ _ mempty
           eq_refl eq_refl eq_refl G R I Hm
           (surjective_pairing (step_some c1 h1 fapply_std init_world 0 s_in (LInsert 5 50)))).
Qed.

Example instance_output :
  snd (step_some c1 h1 fapply_std init_world 0 s_in (LInsert 5 50)) = [RPos 0 1; RBool true].
Proof. vm_compute. reflexivity. Qed.

Example instance_rebuild_pre : lop_pre c1 (tb s_in) (LRehash 3).
Proof. destruct t0_good as [_ [_ Hl]]. split; [exact Hl|reflexivity]. Qed.

Example instance_refines_OLock :
  let t' := rehash_with_workers c1 h1 t0 in
  good c1 h1 t' /\ rep c1 t' mempty /\
  snd (step_some c1 h1 fapply_std init_world 0 s_out OLock) = [RNone].
Proof.
  destruct t0_good as [G [R _]].
  destruct (refines_OLock c1 h1 c1_ok fapply_std init_world 0 s_out _ _ mempty eq_refl
              (good_lgood c1 h1 t0 G) R
              (surjective_pairing (step_some c1 h1 fapply_std init_world 0 s_out OLock)))
    as [_ [Hr [G' [_ [R' _]]]]].
  cbv zeta. split; [exact G'|]. split; [exact R'|exact Hr].
Qed.

End LockedRefineExample.
