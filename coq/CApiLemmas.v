(* L3 lemmas: tables handed out by the C interface carry no resize policy limits, hence the two
   policy exceptions cannot arise from them. *)
From Coq Require Import NArith ZArith List Bool Lia.
From LC Require Import gen.HashGen Core Api InvDefs Stats CApi.
Import ListNotations.
Local Open Scope N_scope.

Definition no_limits (t : table) : Prop := mlfn t = 0 /\ mhp t = NO_MAXIMUM_HASHPOWER.

Lemma init_table_no_limits c n : no_limits (init_table c n).
Proof. split; reflexivity. Qed.

Lemma read_table_no_limits c n : no_limits (read_table c n).
Proof. split; reflexivity. Qed.

Lemma no_limits_lf c t : mlfn t = 0 -> lf_lt_mlf c t = false.
Proof.
  intro H. unfold lf_lt_mlf. rewrite H. rewrite N.mul_0_l. apply N.ltb_ge. apply N.le_0_l.
Qed.

Lemma no_limits_resize_valid c auto t n :
  no_limits t -> check_resize_validity c auto t (hashpower t) n = inr St_ok.
Proof.
  intros [Hm Hh]. apply crv_ok_intro.
  - left. exact Hh.
  - intros _. apply no_limits_lf. exact Hm.
Qed.

Lemma no_limits_never_policy_exception c auto t o n e :
  no_limits t -> check_resize_validity c auto t o n = inl (Some e) -> False.
Proof.
  intros [Hm Hh] H.
  destruct (crv_cases c auto t o n) as [E|[E|[E|E]]]; rewrite E in H; try discriminate.
  - apply crv_maxhp_iff in E. destruct E as [E _]. apply E. exact Hh.
  - apply crv_lf_iff in E. destruct E as [_ [_ E]]. rewrite (no_limits_lf c t Hm) in E. discriminate.
Qed.

(* the temporary map of an explicit rebuild also has no limits when its owner has none *)
Lemma set_limits_no_limits t t' :
  no_limits t -> no_limits (set_mhp (set_mlf t' 0 1) (mhp t)).
Proof. intros [_ Hh]. split; [reflexivity|exact Hh]. Qed.
