(* L1 proofs, array level: lemmas about ONE bucket array / a settled table (no deferred
   migration pending).  Groups A..G; each later group uses the earlier ones. *)
From Coq Require Import NArith ZArith List Bool Lia FMapPositive.
From LC Require Import gen.HashGen Bits Core Api InvDefs.
Import ListNotations.
Local Open Scope N_scope.

(* ================================================================== A. array access *)

Lemma pidx_inj x y : pidx x = pidx y -> x = y.
Proof.
  unfold pidx. intro H.
  apply N.succ_inj. rewrite <- !N.succ_pos_spec. rewrite H. reflexivity.
Qed.

Lemma pidx_neq x y : x <> y -> pidx x <> pidx y.
Proof. intros H E. apply H, pidx_inj, E. Qed.

Lemma bhp_bset a b s x : bhp (bset a b s x) = bhp a.
Proof. reflexivity. Qed.

Lemma bdead_bset a b s x : bdead (bset a b s x) = bdead a.
Proof. reflexivity. Qed.

Lemma bget_bnew hp b s : bget (bnew hp) b s = None.
Proof. unfold bget, bnew. cbn [bsl]. rewrite PositiveMap.gempty. reflexivity. Qed.

Lemma bget_bset_eq a b s x : bget (bset a b s x) b s = x.
Proof.
  unfold bget, bset, sset. cbn [bsl]. rewrite PositiveMap.gss.
  destruct x as [e|].
  - apply PositiveMap.gss.
  - apply PositiveMap.grs.
Qed.

Lemma bget_bset_other a b s x b' s' :
  b <> b' \/ s <> s' -> bget (bset a b s x) b' s' = bget a b' s'.
Proof.
  intro H. unfold bget, bset, sset. cbn [bsl].
  destruct (N.eq_dec b b') as [Eb|Nb].
  - subst b'. destruct H as [H|H]; [congruence|].
    rewrite PositiveMap.gss.
    assert (Hs : pidx s <> pidx s') by (apply pidx_neq; exact H).
    destruct x as [e|].
    + rewrite PositiveMap.gso by (intro E; apply Hs; symmetry; exact E).
      destruct (PositiveMap.find (pidx b) (bsl a)); [reflexivity|apply PositiveMap.gempty].
    + rewrite PositiveMap.gro by (intro E; apply Hs; symmetry; exact E).
      destruct (PositiveMap.find (pidx b) (bsl a)); [reflexivity|apply PositiveMap.gempty].
  - rewrite PositiveMap.gso; [reflexivity|].
    intro E. apply Nb. symmetry. apply pidx_inj. exact E.
Qed.

Lemma bget_bset_neq a b s x b' s' :
  (b, s) <> (b', s') -> bget (bset a b s x) b' s' = bget a b' s'.
Proof.
  intro H. apply bget_bset_other.
  destruct (N.eq_dec b b') as [Eb|Nb]; [|left; exact Nb].
  right. intro Es. apply H. congruence.
Qed.

(* case-analysis form *)
Lemma bget_bset a b s x b' s' :
  bget (bset a b s x) b' s' = if (b =? b') && (s =? s') then x else bget a b' s'.
Proof.
  destruct (N.eqb_spec b b') as [Eb|Nb]; cbn [andb].
  - destruct (N.eqb_spec s s') as [Es|Ns].
    + subst. apply bget_bset_eq.
    + apply bget_bset_other. right. exact Ns.
  - apply bget_bset_other. left. exact Nb.
Qed.

Lemma bget_bset_cases a b s x b' s' :
  (b' = b /\ s' = s /\ bget (bset a b s x) b' s' = x) \/
  ((b <> b' \/ s <> s') /\ bget (bset a b s x) b' s' = bget a b' s').
Proof.
  destruct (N.eq_dec b b') as [Eb|Nb].
  - destruct (N.eq_dec s s') as [Es|Ns].
    + left. subst. repeat split. apply bget_bset_eq.
    + right. split; [right; exact Ns|]. apply bget_bset_other. right. exact Ns.
  - right. split; [left; exact Nb|]. apply bget_bset_other. left. exact Nb.
Qed.

Lemma occupied_true a b s : occupied a b s = true <-> exists e, bget a b s = Some e.
Proof.
  unfold occupied. destruct (bget a b s) as [e|].
  - split; [intros _; exists e; reflexivity|reflexivity].
  - split; [discriminate|intros [e H]; discriminate].
Qed.

Lemma occupied_false a b s : occupied a b s = false <-> bget a b s = None.
Proof.
  unfold occupied. destruct (bget a b s) as [e|]; split; congruence.
Qed.

(* extensional equality of arrays: same hashpower, same contents *)
Definition beq (a a' : barray) : Prop := bhp a = bhp a' /\ forall b s, bget a b s = bget a' b s.

Lemma beq_refl a : beq a a.
Proof. split; reflexivity. Qed.

Lemma beq_sym a a' : beq a a' -> beq a' a.
Proof. intros [H1 H2]. split; [symmetry; exact H1|intros; symmetry; apply H2]. Qed.

Lemma beq_trans a a' a'' : beq a a' -> beq a' a'' -> beq a a''.
Proof.
  intros [H1 H2] [H3 H4]. split; [congruence|]. intros b s. rewrite H2. apply H4.
Qed.

Lemma beq_bset a a' b s x : beq a a' -> beq (bset a b s x) (bset a' b s x).
Proof.
  intros [H1 H2]. split; [exact H1|]. intros b' s'. rewrite !bget_bset. rewrite H2. reflexivity.
Qed.

(* two writes to different positions commute (extensionally) *)
Lemma bset_comm a b s x b' s' x' :
  b <> b' \/ s <> s' ->
  beq (bset (bset a b s x) b' s' x') (bset (bset a b' s' x') b s x).
Proof.
  intro H. split; [reflexivity|]. intros b0 s0. rewrite !bget_bset.
  destruct (N.eqb_spec b' b0) as [E1|N1]; destruct (N.eqb_spec s' s0) as [E2|N2];
    destruct (N.eqb_spec b b0) as [E3|N3]; destruct (N.eqb_spec s s0) as [E4|N4];
    cbn [andb]; try reflexivity.
  subst. destruct H as [H|H]; congruence.
Qed.

(* ================================================================== lists: upd / upd_last *)

Lemma upd_length {A} n (f : A -> A) l : length (upd n f l) = length l.
Proof.
  revert n. induction l as [|x r IH]; intro n; [destruct n; reflexivity|].
  destruct n as [|n']; cbn [upd length]; [reflexivity|]. rewrite IH. reflexivity.
Qed.

Lemma upd_In {A} n (f : A -> A) l x :
  In x (upd n f l) -> In x l \/ exists y, In y l /\ x = f y.
Proof.
  revert n. induction l as [|y r IH]; intros n H; [destruct n; contradiction|].
  destruct n as [|n']; cbn [upd] in H.
  - destruct H as [H|H].
    + right. exists y. split; [left; reflexivity|symmetry; exact H].
    + left. right. exact H.
  - destruct H as [H|H].
    + left. left. exact H.
    + destruct (IH _ H) as [H'|[z [Hz Hx]]].
      * left. right. exact H'.
      * right. exists z. split; [right; exact Hz|exact Hx].
Qed.

Lemma upd_last_nonnil {A} (f : A -> A) l : l <> [] -> upd_last f l <> [].
Proof.
  destruct l as [|x r]; [congruence|]. intros _. cbn [upd_last].
  destruct r; discriminate.
Qed.

Lemma upd_last_length {A} (f : A -> A) l : length (upd_last f l) = length l.
Proof.
  induction l as [|x r IH]; [reflexivity|].
  cbn [upd_last]. destruct r as [|y r']; [reflexivity|].
  cbn [length] in *. rewrite IH. reflexivity.
Qed.

Lemma last_upd_last {A} (f : A -> A) l d : l <> [] -> last (upd_last f l) d = f (last l d).
Proof.
  induction l as [|x r IH]; [congruence|]. intros _.
  destruct r as [|y r']; [reflexivity|].
  change (upd_last f (x :: y :: r')) with (x :: upd_last f (y :: r')).
  change (last (x :: y :: r') d) with (last (y :: r') d).
  assert (Hn : upd_last f (y :: r') <> []) by (apply upd_last_nonnil; discriminate).
  destruct (upd_last f (y :: r')) as [|z q] eqn:E; [congruence|].
  change (last (x :: z :: q) d) with (last (z :: q) d).
  apply IH. discriminate.
Qed.

Lemma cur_locks_upd_cur_lock t l f :
  cur_locks (upd_cur_lock t l f) = upd (N.to_nat l) f (cur_locks t).
Proof.
  unfold cur_locks, upd_cur_lock, set_locks. cbn [locks].
  destruct (locks t) as [|x r] eqn:E.
  - cbn [upd_last last]. destruct (N.to_nat l); reflexivity.
  - apply last_upd_last. discriminate.
Qed.

Lemma cur_upd_cur_lock t l f : cur (upd_cur_lock t l f) = cur t.
Proof. reflexivity. Qed.

Lemma locks_upd_cur_lock_nonnil t l f : locks t <> [] -> locks (upd_cur_lock t l f) <> [].
Proof. intro H. unfold upd_cur_lock, set_locks. cbn [locks]. apply upd_last_nonnil. exact H. Qed.

Lemma cur_locks_set_cur t a : cur_locks (set_cur t a) = cur_locks t.
Proof. reflexivity. Qed.

Section Arr.
Variable c : config.
Variable hash : N -> N.
Hypothesis Hc : cfg_ok c.

Notation arr_ok := (arr_ok c hash).
Notation settled := (settled c hash).

(* ================================================================== B. bucket scan *)

(* slot s of bucket b "hits" key k under tag filter [partial] *)
Definition hitb (a : barray) (b partial k s : N) : bool :=
  match bget a b s with
  | Some e => (simple c || (partial =? epart e)) && (ekey e =? k)
  | None => false
  end.

Definition slot_hit (a : barray) (b partial k s : N) : Prop :=
  exists e, bget a b s = Some e /\ ekey e = k /\ (simple c = true \/ epart e = partial).

Lemma hitb_true a b partial k s : hitb a b partial k s = true <-> slot_hit a b partial k s.
Proof.
  unfold hitb, slot_hit. destruct (bget a b s) as [e|].
  - rewrite andb_true_iff, orb_true_iff, !N.eqb_eq. split.
    + intros [H1 H2]. exists e. split; [reflexivity|]. split; [exact H2|].
      destruct H1 as [H1|H1]; [left; exact H1|right; symmetry; exact H1].
    + intros [e' [E [H2 H1]]]. injection E as <-. split; [|exact H2].
      destruct H1 as [H1|H1]; [left; exact H1|right; symmetry; exact H1].
  - split; [discriminate|]. intros [e [E _]]. discriminate.
Qed.

Lemma hitb_false a b partial k s : hitb a b partial k s = false <-> ~ slot_hit a b partial k s.
Proof.
  rewrite <- hitb_true. destruct (hitb a b partial k s); split; congruence.
Qed.

Lemma try_read_step a b partial k i n :
  try_read_from_bucket c a b partial k i (S n) =
  if hitb a b partial k i then Some i else try_read_from_bucket c a b partial k (i + 1) n.
Proof.
  cbn [try_read_from_bucket]. unfold hitb.
  destruct (bget a b i) as [e|]; [|reflexivity].
  destruct (simple c); cbn [negb andb orb].
  - reflexivity.
  - destruct (partial =? epart e); cbn [negb andb]; reflexivity.
Qed.

(* master specification (boolean form) *)
Lemma try_read_specb a b partial k n : forall i,
  match try_read_from_bucket c a b partial k i n with
  | Some s => i <= s < i + N.of_nat n /\ hitb a b partial k s = true /\
              forall s', i <= s' < s -> hitb a b partial k s' = false
  | None => forall s', i <= s' < i + N.of_nat n -> hitb a b partial k s' = false
  end.
Proof.
  induction n as [|n IH]; intro i.
  - cbn [try_read_from_bucket]. intros s' H. lia.
  - rewrite try_read_step. destruct (hitb a b partial k i) eqn:Eh.
    + split; [lia|]. split; [exact Eh|]. intros s' H. lia.
    + specialize (IH (i + 1)).
      destruct (try_read_from_bucket c a b partial k (i + 1) n) as [s|].
      * destruct IH as [H1 [H2 H3]]. split; [lia|]. split; [exact H2|].
        intros s' Hs'. destruct (N.eq_dec s' i) as [->|Ne]; [exact Eh|]. apply H3. lia.
      * intros s' Hs'. destruct (N.eq_dec s' i) as [->|Ne]; [exact Eh|]. apply IH. lia.
Qed.

(* Some s  <->  s is the FIRST hitting slot of the scanned range *)
Lemma try_read_Some a b partial k i n s :
  try_read_from_bucket c a b partial k i n = Some s <->
  (i <= s < i + N.of_nat n /\ slot_hit a b partial k s /\
   forall s', i <= s' < s -> ~ slot_hit a b partial k s').
Proof.
  assert (S := try_read_specb a b partial k n i).
  split.
  - intro E. rewrite E in S. destruct S as [H1 [H2 H3]].
    split; [exact H1|]. split; [apply hitb_true; exact H2|].
    intros s' Hs'. apply hitb_false. apply H3. exact Hs'.
  - intros [H1 [H2 H3]]. apply hitb_true in H2.
    destruct (try_read_from_bucket c a b partial k i n) as [s0|].
    + destruct S as [G1 [G2 G3]].
      destruct (N.lt_trichotomy s0 s) as [L|[E|L]].
      * exfalso. apply (H3 s0); [lia|]. apply hitb_true. exact G2.
      * congruence.
      * rewrite (G3 s) in H2 by lia. discriminate.
    + rewrite (S s) in H2 by lia. discriminate.
Qed.

Lemma try_read_None a b partial k i n :
  try_read_from_bucket c a b partial k i n = None <->
  (forall s, i <= s < i + N.of_nat n -> ~ slot_hit a b partial k s).
Proof.
  assert (S := try_read_specb a b partial k n i).
  split.
  - intro E. rewrite E in S. intros s Hs. apply hitb_false. apply S. exact Hs.
  - intro H. destruct (try_read_from_bucket c a b partial k i n) as [s0|]; [|reflexivity].
    destruct S as [G1 [G2 G3]]. exfalso. apply (H s0 G1). apply hitb_true. exact G2.
Qed.

(* under arr_ok and the right tag, the filter never hides a matching key *)
Lemma slot_hit_arr_ok a b k s :
  arr_ok a ->
  (slot_hit a b (partial_key (hash k)) k s <-> exists e, bget a b s = Some e /\ ekey e = k).
Proof.
  intro Ha. unfold slot_hit. split.
  - intros [e [E [Hk _]]]. exists e. split; assumption.
  - intros [e [E Hk]]. exists e. split; [exact E|]. split; [exact Hk|]. right.
    rewrite (ao_tag _ _ _ Ha _ _ _ E). rewrite Hk. reflexivity.
Qed.

(* a full-bucket scan under arr_ok *)
Lemma try_read_bucket_arr_ok a b k :
  arr_ok a ->
  match try_read_from_bucket c a b (partial_key (hash k)) k 0 (N.to_nat (spb c)) with
  | Some s => s < spb c /\ exists e, bget a b s = Some e /\ ekey e = k
  | None => forall s e, bget a b s = Some e -> ekey e <> k
  end.
Proof.
  intro Ha.
  destruct (try_read_from_bucket c a b (partial_key (hash k)) k 0 (N.to_nat (spb c))) as [s|] eqn:E.
  - apply try_read_Some in E. destruct E as [H1 [H2 _]]. rewrite N2Nat.id in H1.
    split; [lia|]. apply (slot_hit_arr_ok a b k s Ha). exact H2.
  - intros s e Hg Hk.
    assert (Hr := ao_range _ _ _ Ha _ _ _ Hg).
    rewrite try_read_None in E. apply (E s).
    + rewrite N2Nat.id. lia.
    + apply (slot_hit_arr_ok a b k s Ha). exists e. split; assumption.
Qed.

Definition key_in (a : barray) (k : N) : Prop := exists b s e, bget a b s = Some e /\ ekey e = k.

Lemma cuckoo_find_cases t k :
  arr_ok (cur t) ->
  let hp := bhp (cur t) in
  let pos := cuckoo_find c t k (partial_key (hash k)) (i1_of hash hp k) (i2_of hash hp k) in
  (pstatus pos = St_ok /\ pslot pos < spb c /\
   (pindex pos = i1_of hash hp k \/ pindex pos = i2_of hash hp k) /\
   exists e, bget (cur t) (pindex pos) (pslot pos) = Some e /\ ekey e = k)
  \/ (pstatus pos = St_not_found /\ ~ key_in (cur t) k).
Proof.
  intros Ha hp pos. subst pos. unfold cuckoo_find.
  assert (S1 := try_read_bucket_arr_ok (cur t) (i1_of hash hp k) k Ha).
  assert (S2 := try_read_bucket_arr_ok (cur t) (i2_of hash hp k) k Ha).
  destruct (try_read_from_bucket c (cur t) (i1_of hash hp k) (partial_key (hash k)) k 0 (N.to_nat (spb c))) as [s1|].
  - left. cbn [pstatus pindex pslot]. destruct S1 as [L E].
    split; [reflexivity|]. split; [exact L|]. split; [left; reflexivity|exact E].
  - destruct (try_read_from_bucket c (cur t) (i2_of hash hp k) (partial_key (hash k)) k 0 (N.to_nat (spb c))) as [s2|].
    + left. cbn [pstatus pindex pslot]. destruct S2 as [L E].
      split; [reflexivity|]. split; [exact L|]. split; [right; reflexivity|exact E].
    + right. cbn [pstatus]. split; [reflexivity|].
      intros [b [s [e [Hg Hk]]]].
      assert (Hp := ao_place _ _ _ Ha _ _ _ Hg). rewrite Hk in Hp.
      destruct Hp as [Hp|Hp]; subst b.
      * apply (S1 s e Hg Hk).
      * apply (S2 s e Hg Hk).
Qed.

Lemma cuckoo_find_spec t k :
  arr_ok (cur t) ->
  let hp := bhp (cur t) in
  let pos := cuckoo_find c t k (partial_key (hash k)) (i1_of hash hp k) (i2_of hash hp k) in
  (key_in (cur t) k ->
     pstatus pos = St_ok /\ exists e, bget (cur t) (pindex pos) (pslot pos) = Some e /\ ekey e = k)
  /\ (~ key_in (cur t) k -> pstatus pos = St_not_found).
Proof.
  intros Ha hp pos.
  destruct (cuckoo_find_cases t k Ha) as [[H1 [_ [_ H2]]]|[H1 H2]]; fold hp in H1, H2; fold pos in H1, H2.
  - split.
    + intros _. split; assumption.
    + intro Hn. exfalso. apply Hn. destruct H2 as [e [E Hk]].
      exists (pindex pos), (pslot pos), e. split; assumption.
  - split.
    + intro Hk. contradiction.
    + intros _. exact H1.
Qed.


(* ================================================================== C. try_find_insert_bucket *)

Lemma try_find_insert_step a b partial k i n slot :
  try_find_insert_bucket c a b partial k i (S n) slot =
  if hitb a b partial k i then (false, Some i)
  else try_find_insert_bucket c a b partial k (i + 1) n (if occupied a b i then slot else Some i).
Proof.
  cbn [try_find_insert_bucket]. unfold hitb, occupied.
  destruct (bget a b i) as [e|]; [|reflexivity].
  destruct (simple c); cbn [negb andb orb].
  - destruct (ekey e =? k); reflexivity.
  - destruct (partial =? epart e); cbn [negb andb]; [|reflexivity].
    destruct (ekey e =? k); reflexivity.
Qed.

(* s is the first hitting slot of the range [i, i+n) *)
Definition first_hit (a : barray) (b partial k i : N) (n : nat) (s : N) : Prop :=
  i <= s < i + N.of_nat n /\ slot_hit a b partial k s /\
  forall s', i <= s' < s -> ~ slot_hit a b partial k s'.

Definition no_hit (a : barray) (b partial k i : N) (n : nat) : Prop :=
  forall s, i <= s < i + N.of_nat n -> ~ slot_hit a b partial k s.

(* s is the last empty slot of the range [i, i+n) *)
Definition last_empty (a : barray) (b i : N) (n : nat) (s : N) : Prop :=
  i <= s < i + N.of_nat n /\ bget a b s = None /\
  forall s', s < s' < i + N.of_nat n -> bget a b s' <> None.

Definition all_full (a : barray) (b i : N) (n : nat) : Prop :=
  forall s, i <= s < i + N.of_nat n -> bget a b s <> None.

Lemma try_read_first_hit a b partial k i n s :
  try_read_from_bucket c a b partial k i n = Some s <-> first_hit a b partial k i n s.
Proof. apply try_read_Some. Qed.

Lemma try_read_no_hit a b partial k i n :
  try_read_from_bucket c a b partial k i n = None <-> no_hit a b partial k i n.
Proof. apply try_read_None. Qed.

Lemma first_hit_unique a b partial k i n s s' :
  first_hit a b partial k i n s -> first_hit a b partial k i n s' -> s = s'.
Proof.
  intros [H1 [H2 H3]] [G1 [G2 G3]].
  destruct (N.lt_trichotomy s s') as [L|[E|L]]; [|exact E|].
  - exfalso. apply (G3 s); [lia|exact H2].
  - exfalso. apply (H3 s'); [lia|exact G2].
Qed.

Lemma last_empty_unique a b i n s s' :
  last_empty a b i n s -> last_empty a b i n s' -> s = s'.
Proof.
  intros [H1 [H2 H3]] [G1 [G2 G3]].
  destruct (N.lt_trichotomy s s') as [L|[E|L]]; [|exact E|].
  - exfalso. apply (H3 s'); [lia|exact G2].
  - exfalso. apply (G3 s); [lia|exact H2].
Qed.

Lemma try_find_insert_specb a b partial k n : forall i slot,
  match try_find_insert_bucket c a b partial k i n slot with
  | (false, r) => exists s, r = Some s /\ i <= s < i + N.of_nat n /\ hitb a b partial k s = true /\
                            forall s', i <= s' < s -> hitb a b partial k s' = false
  | (true, r) => (forall s', i <= s' < i + N.of_nat n -> hitb a b partial k s' = false) /\
                 ((exists s, r = Some s /\ last_empty a b i n s) \/ (r = slot /\ all_full a b i n))
  end.
Proof.
  induction n as [|n IH]; intros i slot.
  - cbn [try_find_insert_bucket]. split; [intros s' H; lia|].
    right. split; [reflexivity|]. intros s H. lia.
  - rewrite try_find_insert_step. destruct (hitb a b partial k i) eqn:Eh.
    + exists i. split; [reflexivity|]. split; [lia|]. split; [exact Eh|]. intros s' H. lia.
    + specialize (IH (i + 1) (if occupied a b i then slot else Some i)).
      destruct (try_find_insert_bucket c a b partial k (i + 1) n (if occupied a b i then slot else Some i))
        as [nd r].
      destruct nd.
      * destruct IH as [H1 H2]. split.
        { intros s' Hs'. destruct (N.eq_dec s' i) as [->|Ne]; [exact Eh|]. apply H1. lia. }
        destruct H2 as [[s [Er [Hr [Hn Hf]]]]|[Er Hf]].
        { left. exists s. split; [exact Er|]. split; [lia|]. split; [exact Hn|].
          intros s' Hs'. apply Hf. lia. }
        destruct (occupied a b i) eqn:Eo.
        { right. split; [exact Er|]. intros s Hs.
          destruct (N.eq_dec s i) as [->|Ne].
          - apply occupied_true in Eo. destruct Eo as [e Ee]. congruence.
          - apply Hf. lia. }
        { left. exists i. split; [exact Er|]. split; [lia|]. split.
          - apply occupied_false. exact Eo.
          - intros s' Hs'. apply Hf. lia. }
      * destruct IH as [s [Er [Hr [Hh Hf]]]]. exists s. split; [exact Er|]. split; [lia|].
        split; [exact Hh|]. intros s' Hs'.
        destruct (N.eq_dec s' i) as [->|Ne]; [exact Eh|]. apply Hf. lia.
Qed.

(* duplicate found  <->  the result slot is the first hitting slot *)
Lemma try_find_insert_dup a b partial k i n slot r :
  try_find_insert_bucket c a b partial k i n slot = (false, r) <->
  exists s, r = Some s /\ first_hit a b partial k i n s.
Proof.
  assert (S := try_find_insert_specb a b partial k n i slot).
  destruct (try_find_insert_bucket c a b partial k i n slot) as [nd r0].
  split.
  - intro E. injection E as -> ->. destruct S as [s [Er [Hr [Hh Hf]]]].
    exists s. split; [exact Er|]. split; [exact Hr|]. split; [apply hitb_true; exact Hh|].
    intros s' Hs'. apply hitb_false. apply Hf. exact Hs'.
  - intros [s [Er [Hr [Hh Hf]]]]. apply hitb_true in Hh. destruct nd.
    + destruct S as [Hno _]. rewrite (Hno s Hr) in Hh. discriminate.
    + destruct S as [s0 [Er0 [Hr0 [Hh0 Hf0]]]].
      assert (s0 = s).
      { destruct (N.lt_trichotomy s0 s) as [L|[E|L]]; [|exact E|].
        - exfalso. apply (Hf s0); [lia|]. apply hitb_true. exact Hh0.
        - rewrite (Hf0 s) in Hh by lia. discriminate. }
      congruence.
Qed.

(* no duplicate  <->  no hit in the range, and the result is the last empty slot, or the
   incoming [slot] if every scanned slot is occupied *)
Lemma try_find_insert_nodup a b partial k i n slot r :
  try_find_insert_bucket c a b partial k i n slot = (true, r) <->
  (no_hit a b partial k i n /\
   ((exists s, r = Some s /\ last_empty a b i n s) \/ (r = slot /\ all_full a b i n))).
Proof.
  assert (S := try_find_insert_specb a b partial k n i slot).
  destruct (try_find_insert_bucket c a b partial k i n slot) as [nd r0].
  split.
  - intro E. injection E as -> ->. destruct S as [Hno Hr]. split; [|exact Hr].
    intros s Hs. apply hitb_false. apply Hno. exact Hs.
  - intros [Hno Hr]. destruct nd.
    + destruct S as [_ Hr0]. f_equal.
      destruct Hr0 as [[s0 [E0 L0]]|[E0 F0]]; destruct Hr as [[s [E L]]|[E F]].
      * rewrite E0, E. f_equal. eapply last_empty_unique; eassumption.
      * exfalso. destruct L0 as [R0 [N0 _]]. apply (F s0 R0 N0).
      * exfalso. destruct L as [R1 [N1 _]]. apply (F0 s R1 N1).
      * congruence.
    + exfalso. destruct S as [s [_ [Hr0 [Hh _]]]]. apply (Hno s Hr0). apply hitb_true. exact Hh.
Qed.

(* full-bucket scan under arr_ok with the key's own tag *)
Lemma try_find_insert_arr_ok a b k :
  arr_ok a ->
  match try_find_insert_bucket c a b (partial_key (hash k)) k 0 (N.to_nat (spb c)) None with
  | (false, r) => exists s e, r = Some s /\ s < spb c /\ bget a b s = Some e /\ ekey e = k
  | (true, Some s) => s < spb c /\ bget a b s = None /\ (forall s' e, bget a b s' = Some e -> ekey e <> k)
  | (true, None) => (forall s, s < spb c -> bget a b s <> None) /\
                    (forall s' e, bget a b s' = Some e -> ekey e <> k)
  end.
Proof.
  intro Ha.
  destruct (try_find_insert_bucket c a b (partial_key (hash k)) k 0 (N.to_nat (spb c)) None) as [nd r] eqn:E.
  assert (Hnk : no_hit a b (partial_key (hash k)) k 0 (N.to_nat (spb c)) ->
                forall s' e, bget a b s' = Some e -> ekey e <> k).
  { intros Hno s' e Hg Hk. assert (Hr := ao_range _ _ _ Ha _ _ _ Hg).
    apply (Hno s'); [rewrite N2Nat.id; lia|].
    apply (slot_hit_arr_ok a b k s' Ha). exists e. split; assumption. }
  destruct nd.
  - apply try_find_insert_nodup in E. destruct E as [Hno Hr].
    destruct Hr as [[s [-> [R [Hn _]]]]|[-> F]].
    + rewrite N2Nat.id in R. split; [lia|]. split; [exact Hn|]. apply Hnk. exact Hno.
    + split; [|apply Hnk; exact Hno]. intros s Hs. apply F. rewrite N2Nat.id. lia.
  - apply try_find_insert_dup in E. destruct E as [s [-> [R [Hh _]]]].
    apply (slot_hit_arr_ok a b k s Ha) in Hh. destruct Hh as [e [Hg Hk]].
    rewrite N2Nat.id in R. exists s, e. repeat split; [lia|exact Hg|exact Hk].
Qed.

(* ================================================================== D. single-slot updates *)

Lemma arr_ok_ext a a' : beq a a' -> arr_ok a -> arr_ok a'.
Proof.
  intros [H1 H2] Ha. constructor.
  - rewrite <- H1. apply (ao_hp _ _ _ Ha).
  - intros b s e E. rewrite <- H2 in E. rewrite <- H1. apply (ao_range _ _ _ Ha _ _ _ E).
  - intros b s e E. rewrite <- H2 in E. apply (ao_live _ _ _ Ha _ _ _ E).
  - intros b s e E. rewrite <- H2 in E. rewrite <- H1. apply (ao_place _ _ _ Ha _ _ _ E).
  - intros b s e E. rewrite <- H2 in E. apply (ao_tag _ _ _ Ha _ _ _ E).
  - intros b s e b' s' e' E E' Hk. rewrite <- H2 in E, E'.
    apply (ao_uniq _ _ _ Ha _ _ _ _ _ _ E E' Hk).
Qed.

Lemma holds_ext a a' k v : beq a a' -> (holds a k v <-> holds a' k v).
Proof.
  intros [H1 H2]. unfold holds. split; intros [b [s [e [E R]]]]; exists b, s, e.
  - rewrite <- H2. split; assumption.
  - rewrite H2. split; assumption.
Qed.

Lemma key_in_holds a k : key_in a k <-> exists v, holds a k v.
Proof.
  unfold key_in, holds. split.
  - intros [b [s [e [E Hk]]]]. exists (eval e), b, s, e. repeat split; assumption.
  - intros [v [b [s [e [E [Hk _]]]]]]. exists b, s, e. split; assumption.
Qed.

Lemma holds_fun a k v v' : arr_ok a -> holds a k v -> holds a k v' -> v = v'.
Proof.
  intros Ha [b [s [e [E [Hk Hv]]]]] [b' [s' [e' [E' [Hk' Hv']]]]].
  destruct (ao_uniq _ _ _ Ha _ _ _ _ _ _ E E') as [-> ->]; [congruence|].
  rewrite E in E'. injection E' as <-. congruence.
Qed.

Lemma arr_ok_add a b s k v :
  arr_ok a -> bget a b s = None -> b < 2 ^ bhp a -> s < spb c ->
  cand hash (bhp a) k b -> ~ key_in a k ->
  let a' := bset a b s (Some {| ekey := k; eval := v; epart := partial_key (hash k); ehusk := false |}) in
  arr_ok a' /\
  forall k' v', holds a' k' v' <-> (k' = k /\ v' = v) \/ (k' <> k /\ holds a k' v').
Proof.
  intros Ha Hn Hb Hs Hcand Hnew a'. subst a'.
  set (x := {| ekey := k; eval := v; epart := partial_key (hash k); ehusk := false |}).
  split.
  - constructor.
    + rewrite bhp_bset. apply (ao_hp _ _ _ Ha).
    + intros b' s' e E. rewrite bhp_bset.
      destruct (bget_bset_cases a b s (Some x) b' s') as [[-> [-> Hx]]|[Hne Hx]]; rewrite Hx in E.
      * split; assumption.
      * apply (ao_range _ _ _ Ha _ _ _ E).
    + intros b' s' e E.
      destruct (bget_bset_cases a b s (Some x) b' s') as [[-> [-> Hx]]|[Hne Hx]]; rewrite Hx in E.
      * injection E as <-. reflexivity.
      * apply (ao_live _ _ _ Ha _ _ _ E).
    + intros b' s' e E. rewrite bhp_bset.
      destruct (bget_bset_cases a b s (Some x) b' s') as [[-> [-> Hx]]|[Hne Hx]]; rewrite Hx in E.
      * injection E as <-. exact Hcand.
      * apply (ao_place _ _ _ Ha _ _ _ E).
    + intros b' s' e E.
      destruct (bget_bset_cases a b s (Some x) b' s') as [[-> [-> Hx]]|[Hne Hx]]; rewrite Hx in E.
      * injection E as <-. reflexivity.
      * apply (ao_tag _ _ _ Ha _ _ _ E).
    + intros b1 s1 e1 b2 s2 e2 E1 E2 Hk.
      destruct (bget_bset_cases a b s (Some x) b1 s1) as [[-> [-> Hx1]]|[Hne1 Hx1]]; rewrite Hx1 in E1;
      destruct (bget_bset_cases a b s (Some x) b2 s2) as [[-> [-> Hx2]]|[Hne2 Hx2]]; rewrite Hx2 in E2.
      * split; reflexivity.
      * exfalso. injection E1 as <-. apply Hnew. exists b2, s2, e2. split; [exact E2|]. symmetry. exact Hk.
      * exfalso. injection E2 as <-. apply Hnew. exists b1, s1, e1. split; [exact E1|]. exact Hk.
      * apply (ao_uniq _ _ _ Ha _ _ _ _ _ _ E1 E2 Hk).
  - intros k' v'. split.
    + intros [b' [s' [e [E [Hk Hv]]]]].
      destruct (bget_bset_cases a b s (Some x) b' s') as [[-> [-> Hx]]|[Hne Hx]]; rewrite Hx in E.
      * injection E as <-. left. split; [symmetry; exact Hk|symmetry; exact Hv].
      * right. split.
        { intro Ek. apply Hnew. exists b', s', e. split; [exact E|]. congruence. }
        exists b', s', e. repeat split; assumption.
    + intros [[-> ->]|[Hne [b' [s' [e [E [Hk Hv]]]]]]].
      * exists b, s, x. split; [apply bget_bset_eq|]. split; reflexivity.
      * exists b', s', e. split; [|split; assumption].
        rewrite bget_bset_other; [exact E|].
        destruct (N.eq_dec b b') as [Eb|Nb]; [|left; exact Nb].
        right. intro Es. subst. congruence.
Qed.

Lemma arr_ok_del a b s e :
  arr_ok a -> bget a b s = Some e ->
  let a' := bset a b s None in
  arr_ok a' /\ forall k' v', holds a' k' v' <-> (holds a k' v' /\ k' <> ekey e).
Proof.
  intros Ha He a'. subst a'.
  assert (Hsub : forall b' s' e', bget (bset a b s None) b' s' = Some e' ->
                 bget a b' s' = Some e' /\ (b <> b' \/ s <> s')).
  { intros b' s' e' E.
    destruct (bget_bset_cases a b s None b' s') as [[-> [-> Hx]]|[Hne Hx]]; rewrite Hx in E.
    - discriminate.
    - split; assumption. }
  split.
  - constructor.
    + rewrite bhp_bset. apply (ao_hp _ _ _ Ha).
    + intros b' s' e' E. rewrite bhp_bset. apply Hsub in E. apply (ao_range _ _ _ Ha _ _ _ (proj1 E)).
    + intros b' s' e' E. apply Hsub in E. apply (ao_live _ _ _ Ha _ _ _ (proj1 E)).
    + intros b' s' e' E. rewrite bhp_bset. apply Hsub in E. apply (ao_place _ _ _ Ha _ _ _ (proj1 E)).
    + intros b' s' e' E. apply Hsub in E. apply (ao_tag _ _ _ Ha _ _ _ (proj1 E)).
    + intros b1 s1 e1 b2 s2 e2 E1 E2 Hk. apply Hsub in E1. apply Hsub in E2.
      apply (ao_uniq _ _ _ Ha _ _ _ _ _ _ (proj1 E1) (proj1 E2) Hk).
  - intros k' v'. split.
    + intros [b' [s' [e' [E [Hk Hv]]]]]. apply Hsub in E. destruct E as [E Hne]. split.
      * exists b', s', e'. repeat split; assumption.
      * intro Ek. destruct (ao_uniq _ _ _ Ha _ _ _ _ _ _ He E) as [Eb Es]; [congruence|].
        destruct Hne; congruence.
    + intros [[b' [s' [e' [E [Hk Hv]]]]] Hne]. exists b', s', e'. split; [|split; assumption].
      rewrite bget_bset_other; [exact E|].
      destruct (N.eq_dec b b') as [Eb|Nb]; [|left; exact Nb].
      right. intro Es. subst. rewrite He in E. injection E as <-. apply Hne. reflexivity.
Qed.

Lemma arr_ok_setval a b s e v :
  arr_ok a -> bget a b s = Some e ->
  let a' := bset a b s (Some {| ekey := ekey e; eval := v; epart := epart e; ehusk := ehusk e |}) in
  arr_ok a' /\
  forall k' v', holds a' k' v' <-> (k' = ekey e /\ v' = v) \/ (k' <> ekey e /\ holds a k' v').
Proof.
  intros Ha He a'. subst a'.
  set (x := {| ekey := ekey e; eval := v; epart := epart e; ehusk := ehusk e |}).
  (* every element of the new array has a twin at the same position with the same key/tag/husk *)
  assert (Hsub : forall b' s' e', bget (bset a b s (Some x)) b' s' = Some e' ->
            exists e0, bget a b' s' = Some e0 /\ ekey e0 = ekey e' /\ epart e0 = epart e' /\
                       ehusk e0 = ehusk e').
  { intros b' s' e' E.
    destruct (bget_bset_cases a b s (Some x) b' s') as [[-> [-> Hx]]|[Hne Hx]]; rewrite Hx in E.
    - injection E as <-. exists e. repeat split. exact He.
    - exists e'. repeat split. exact E. }
  split.
  - constructor.
    + rewrite bhp_bset. apply (ao_hp _ _ _ Ha).
    + intros b' s' e' E. rewrite bhp_bset. apply Hsub in E. destruct E as [e0 [E0 _]].
      apply (ao_range _ _ _ Ha _ _ _ E0).
    + intros b' s' e' E. apply Hsub in E. destruct E as [e0 [E0 [_ [_ Hh]]]].
      rewrite <- Hh. apply (ao_live _ _ _ Ha _ _ _ E0).
    + intros b' s' e' E. rewrite bhp_bset. apply Hsub in E. destruct E as [e0 [E0 [Hk _]]].
      rewrite <- Hk. apply (ao_place _ _ _ Ha _ _ _ E0).
    + intros b' s' e' E. apply Hsub in E. destruct E as [e0 [E0 [Hk [Hp _]]]].
      rewrite <- Hk, <- Hp. apply (ao_tag _ _ _ Ha _ _ _ E0).
    + intros b1 s1 e1 b2 s2 e2 E1 E2 Hk. apply Hsub in E1. apply Hsub in E2.
      destruct E1 as [e01 [E1 [K1 _]]]. destruct E2 as [e02 [E2 [K2 _]]].
      apply (ao_uniq _ _ _ Ha _ _ _ _ _ _ E1 E2). congruence.
  - intros k' v'. split.
    + intros [b' [s' [e' [E [Hk Hv]]]]].
      destruct (bget_bset_cases a b s (Some x) b' s') as [[-> [-> Hx]]|[Hne Hx]]; rewrite Hx in E.
      * injection E as <-. left. split; [symmetry; exact Hk|symmetry; exact Hv].
      * right. split.
        { intro Ek. destruct (ao_uniq _ _ _ Ha _ _ _ _ _ _ He E) as [Eb Es]; [congruence|].
          destruct Hne; congruence. }
        exists b', s', e'. repeat split; assumption.
    + intros [[-> ->]|[Hne [b' [s' [e' [E [Hk Hv]]]]]]].
      * exists b, s, x. split; [apply bget_bset_eq|]. split; reflexivity.
      * exists b', s', e'. split; [|split; assumption].
        rewrite bget_bset_other; [exact E|].
        destruct (N.eq_dec b b') as [Eb|Nb]; [|left; exact Nb].
        right. intro Es. subst. rewrite He in E. injection E as <-. apply Hne. reflexivity.
Qed.

(* the displacement step, in the order the code performs it: write destination, clear source *)
Lemma arr_ok_move a fb fs tb ts e :
  arr_ok a -> bget a fb fs = Some e -> bget a tb ts = None ->
  tb < 2 ^ bhp a -> ts < spb c -> cand hash (bhp a) (ekey e) tb ->
  let a' := bset (bset a tb ts (Some {| ekey := ekey e; eval := eval e; epart := epart e; ehusk := false |}))
                 fb fs None in
  arr_ok a' /\ forall k v, holds a' k v <-> holds a k v.
Proof.
  intros Ha He Hn Hb Hs Hcand a'. subst a'.
  assert (Hne : tb <> fb \/ ts <> fs).
  { destruct (N.eq_dec tb fb) as [Eb|Nb]; [|left; exact Nb].
    right. intro Es. subst. congruence. }
  set (x := {| ekey := ekey e; eval := eval e; epart := epart e; ehusk := false |}).
  assert (Hx : x = {| ekey := ekey e; eval := eval e; epart := partial_key (hash (ekey e)); ehusk := false |}).
  { unfold x. rewrite (ao_tag _ _ _ Ha _ _ _ He). reflexivity. }
  (* the same array, extensionally: clear the source first, then write the destination *)
  assert (Hq : beq (bset (bset a fb fs None) tb ts (Some x)) (bset (bset a tb ts (Some x)) fb fs None)).
  { apply bset_comm. destruct Hne as [H|H]; [left|right]; intro E; apply H; symmetry; exact E. }
  destruct (arr_ok_del a fb fs e Ha He) as [Hd Hhd]. cbv zeta in Hd, Hhd.
  assert (Hnd : bget (bset a fb fs None) tb ts = None).
  { rewrite bget_bset_other; [exact Hn|].
    destruct Hne as [H|H]; [left|right]; intro E; apply H; symmetry; exact E. }
  assert (Hnk : ~ key_in (bset a fb fs None) (ekey e)).
  { intro Hk. apply key_in_holds in Hk. destruct Hk as [v Hv]. apply Hhd in Hv.
    destruct Hv as [_ Hv]. apply Hv. reflexivity. }
  destruct (arr_ok_add (bset a fb fs None) tb ts (ekey e) (eval e) Hd Hnd Hb Hs Hcand Hnk) as [Hadd Hha].
  cbv zeta in Hadd, Hha. rewrite <- Hx in Hadd, Hha.
  split.
  - apply (arr_ok_ext _ _ Hq). exact Hadd.
  - intros k v. rewrite <- (holds_ext _ _ k v Hq). rewrite Hha. rewrite Hhd. split.
    + intros [[-> ->]|[Hk [Hh _]]]; [|exact Hh].
      exists fb, fs, e. repeat split. exact He.
    + intro Hh. destruct (N.eq_dec k (ekey e)) as [Ek|Nk].
      * left. split; [exact Ek|]. subst k.
        apply (holds_fun a (ekey e) v (eval e) Ha Hh).
        exists fb, fs, e. repeat split. exact He.
      * right. split; [exact Nk|]. split; [exact Hh|exact Nk].
Qed.


(* ------------------------------------------------------------------ D'. lifting to tables *)

Lemma all_migrated_upd_cur_lock t l f :
  (forall lk, mig (f lk) = mig lk) -> all_migrated t -> all_migrated (upd_cur_lock t l f).
Proof.
  intros Hf Hm x Hx. rewrite cur_locks_upd_cur_lock in Hx.
  apply upd_In in Hx. destruct Hx as [Hx|[y [Hy ->]]].
  - apply Hm. exact Hx.
  - rewrite Hf. apply Hm. exact Hy.
Qed.

Lemma cur_locks_length_upd_cur_lock t l f :
  length (cur_locks (upd_cur_lock t l f)) = length (cur_locks t).
Proof. rewrite cur_locks_upd_cur_lock. apply upd_length. Qed.

Lemma settled_upd_cur_lock t l f :
  (forall lk, mig (f lk) = mig lk) -> settled t -> settled (upd_cur_lock t l f).
Proof.
  intros Hf St. constructor.
  - rewrite cur_upd_cur_lock. apply (se_arr _ _ _ St).
  - rewrite cur_upd_cur_lock. apply (se_alive _ _ _ St).
  - apply all_migrated_upd_cur_lock; [exact Hf|apply (se_mig _ _ _ St)].
  - apply locks_upd_cur_lock_nonnil. apply (se_locks _ _ _ St).
  - intros b Hb. rewrite cur_upd_cur_lock in Hb. rewrite cur_locks_length_upd_cur_lock.
    apply (se_cover _ _ _ St). exact Hb.
Qed.

Lemma settled_set_cur t a' :
  settled t -> arr_ok a' -> bdead a' = false -> bhp a' = bhp (cur t) -> settled (set_cur t a').
Proof.
  intros St Ha Hd Hh. constructor.
  - exact Ha.
  - exact Hd.
  - exact (se_mig _ _ _ St).
  - exact (se_locks _ _ _ St).
  - intros b Hb. cbn [set_cur cur] in Hb. rewrite Hh in Hb.
    rewrite cur_locks_set_cur. apply (se_cover _ _ _ St). exact Hb.
Qed.

Lemma cur_add_to_bucket t b s p k v :
  cur (add_to_bucket c t b s p k v) =
  bset (cur t) b s (Some {| ekey := k; eval := v; epart := p; ehusk := false |}).
Proof. reflexivity. Qed.

Lemma cur_del_from_bucket t b s : cur (del_from_bucket c t b s) = bset (cur t) b s None.
Proof. reflexivity. Qed.

Lemma add_to_bucket_settled t b s k v :
  settled t -> bget (cur t) b s = None -> b < 2 ^ bhp (cur t) -> s < spb c ->
  cand hash (bhp (cur t)) k b -> ~ key_in (cur t) k ->
  let t' := add_to_bucket c t b s (partial_key (hash k)) k v in
  settled t' /\ bhp (cur t') = bhp (cur t) /\
  forall k' v', holds (cur t') k' v' <-> (k' = k /\ v' = v) \/ (k' <> k /\ holds (cur t) k' v').
Proof.
  intros St Hn Hb Hs Hcand Hnew t'. subst t'.
  destruct (arr_ok_add (cur t) b s k v (se_arr _ _ _ St) Hn Hb Hs Hcand Hnew) as [Ha Hh].
  cbv zeta in Ha, Hh.
  split; [|split; [reflexivity|exact Hh]].
  unfold add_to_bucket. apply settled_upd_cur_lock; [intro lk; reflexivity|].
  apply settled_set_cur; [exact St|exact Ha| |reflexivity].
  rewrite bdead_bset. apply (se_alive _ _ _ St).
Qed.

Lemma del_from_bucket_settled t b s e :
  settled t -> bget (cur t) b s = Some e ->
  let t' := del_from_bucket c t b s in
  settled t' /\ bhp (cur t') = bhp (cur t) /\
  forall k' v', holds (cur t') k' v' <-> (holds (cur t) k' v' /\ k' <> ekey e).
Proof.
  intros St He t'. subst t'.
  destruct (arr_ok_del (cur t) b s e (se_arr _ _ _ St) He) as [Ha Hh].
  cbv zeta in Ha, Hh.
  split; [|split; [reflexivity|exact Hh]].
  unfold del_from_bucket. apply settled_upd_cur_lock; [intro lk; reflexivity|].
  apply settled_set_cur; [exact St|exact Ha| |reflexivity].
  rewrite bdead_bset. apply (se_alive _ _ _ St).
Qed.

Lemma set_val_occupied t b s e v :
  bget (cur t) b s = Some e ->
  set_val t b s v =
  set_cur t (bset (cur t) b s (Some {| ekey := ekey e; eval := v; epart := epart e; ehusk := ehusk e |})).
Proof. intro He. unfold set_val. rewrite He. reflexivity. Qed.

Lemma set_val_empty t b s v : bget (cur t) b s = None -> set_val t b s v = t.
Proof. intro He. unfold set_val. rewrite He. reflexivity. Qed.

Lemma set_val_settled t b s e v :
  settled t -> bget (cur t) b s = Some e ->
  let t' := set_val t b s v in
  settled t' /\ bhp (cur t') = bhp (cur t) /\ locks t' = locks t /\
  (exists e', bget (cur t') b s = Some e' /\ ekey e' = ekey e /\ eval e' = v) /\
  forall k' v', holds (cur t') k' v' <-> (k' = ekey e /\ v' = v) \/ (k' <> ekey e /\ holds (cur t) k' v').
Proof.
  intros St He t'. subst t'. rewrite (set_val_occupied t b s e v He).
  destruct (arr_ok_setval (cur t) b s e v (se_arr _ _ _ St) He) as [Ha Hh].
  cbv zeta in Ha, Hh.
  split; [|split; [reflexivity|split; [reflexivity|split; [|exact Hh]]]].
  - apply settled_set_cur; [exact St|exact Ha| |reflexivity].
    rewrite bdead_bset. apply (se_alive _ _ _ St).
  - eexists. cbn [set_cur cur]. split; [apply bget_bset_eq|]. split; reflexivity.
Qed.

(* ================================================================== E. locking is a no-op *)

Lemma lock_at_mig t l : all_migrated t -> mig (lock_at t l) = true.
Proof.
  intro H. unfold lock_at.
  destruct (nth_in_or_default (N.to_nat l) (cur_locks t) dflt_lock) as [Hin|Hd].
  - apply H. exact Hin.
  - rewrite Hd. reflexivity.
Qed.

Lemma rehash_lock_settled lazy t l : all_migrated t -> rehash_lock c hash lazy t l = t.
Proof. intro H. unfold rehash_lock. rewrite (lock_at_mig t l H). reflexivity. Qed.

Lemma lock_one_settled mode t i : all_migrated t -> lock_one c hash mode t i = t.
Proof. intro H. unfold lock_one. destruct mode; [reflexivity|]. apply rehash_lock_settled. exact H. Qed.

Lemma lock_two_settled mode t i1 i2 : all_migrated t -> lock_two c hash mode t i1 i2 = t.
Proof.
  intro H. unfold lock_two. destruct mode; [reflexivity|].
  destruct (lockind c i2 <? lockind c i1);
    repeat rewrite (rehash_lock_settled true t _ H); reflexivity.
Qed.

Lemma lock_three_settled mode t i1 i2 i3 : all_migrated t -> lock_three c hash mode t i1 i2 i3 = t.
Proof.
  intro H. unfold lock_three. destruct mode; [reflexivity|].
  destruct (lockind c i3 <? lockind c i2);
    match goal with |- context [if ?x <? ?y then _ else _] => destruct (x <? y) end;
    match goal with |- context [if ?x <? ?y then _ else _] => destruct (x <? y) end;
    repeat rewrite (rehash_lock_settled true t _ H); reflexivity.
Qed.

Lemma snapshot_and_lock_two_settled mode t k :
  all_migrated t ->
  snapshot_and_lock_two c hash mode t k = (t, i1_of hash (hashpower t) k, i2_of hash (hashpower t) k).
Proof.
  intro H. unfold snapshot_and_lock_two. cbv zeta.
  rewrite (lock_two_settled mode t _ _ H). reflexivity.
Qed.

(* ================================================================== F. lookup_fn *)

Lemma lookup_fn_absent mode t k g :
  settled t -> ~ key_in (cur t) k -> lookup_fn c hash mode t k g = (t, None).
Proof.
  intros St Hno. unfold lookup_fn.
  rewrite (snapshot_and_lock_two_settled mode t k (se_mig _ _ _ St)).
  unfold hashed_partial, hashpower.
  destruct (cuckoo_find_cases t k (se_arr _ _ _ St)) as [[H1 [_ [_ H2]]]|[H1 H2]]; cbv zeta in H1, H2.
  - exfalso. apply Hno. destruct H2 as [e [E Hk]]. eexists _, _, e. split; eassumption.
  - rewrite H1. reflexivity.
Qed.

Lemma lookup_fn_present mode t k g v :
  settled t -> holds (cur t) k v ->
  exists t', lookup_fn c hash mode t k g = (t', Some v) /\
    settled t' /\ bhp (cur t') = bhp (cur t) /\
    forall k' v', holds (cur t') k' v' <->
      (k' <> k /\ holds (cur t) k' v') \/ (k' = k /\ snd (g v) = false /\ v' = fst (g v)).
Proof.
  intros St Hh. unfold lookup_fn.
  rewrite (snapshot_and_lock_two_settled mode t k (se_mig _ _ _ St)).
  unfold hashed_partial, hashpower.
  assert (Ha := se_arr _ _ _ St).
  destruct (cuckoo_find_cases t k Ha) as [[H1 [_ [_ H2]]]|[H1 H2]]; cbv zeta in H1, H2.
  2:{ exfalso. apply H2. apply key_in_holds. exists v. exact Hh. }
  set (pos := cuckoo_find c t k (partial_key (hash k)) (i1_of hash (bhp (cur t)) k)
                          (i2_of hash (bhp (cur t)) k)) in *.
  rewrite H1. destruct H2 as [e [He Hk]].
  assert (Hv : eval e = v).
  { apply (holds_fun (cur t) k (eval e) v Ha); [|exact Hh].
    exists (pindex pos), (pslot pos), e. repeat split; assumption. }
  unfold val_at. rewrite He. rewrite Hv.
  destruct (g v) as [v1 er] eqn:Eg. cbn [fst snd].
  destruct (set_val_settled t (pindex pos) (pslot pos) e v1 St He)
    as [St2 [Hhp2 [_ [[e2 [He2 [Hk2 Hv2]]] Hh2]]]].
  cbv zeta in St2, Hhp2, He2, Hh2. rewrite Hk in Hh2.
  destruct er.
  - destruct (del_from_bucket_settled _ (pindex pos) (pslot pos) e2 St2 He2) as [St3 [Hhp3 Hh3]].
    cbv zeta in St3, Hhp3, Hh3.
    eexists. split; [reflexivity|]. split; [exact St3|]. split; [congruence|].
    intros k' v'. rewrite Hh3, Hh2, Hk2, Hk. split.
    + intros [[[-> _]|[Hne Hq]] Hne']; [congruence|]. left. split; assumption.
    + intros [[Hne Hq]|[_ [Hf _]]]; [|discriminate]. split; [|exact Hne]. right. split; assumption.
  - eexists. split; [reflexivity|]. split; [exact St2|]. split; [exact Hhp2|].
    intros k' v'. rewrite Hh2. split.
    + intros [[-> ->]|[Hne Hq]]; [right; repeat split|left; split; assumption].
    + intros [[Hne Hq]|[-> [_ ->]]]; [right; split; assumption|left; split; reflexivity].
Qed.


(* ================================================================== G. displacement *)

(* consecutive records r, r' of a cuckoo path: r' sits in the alternate bucket of r, and the tag
   recorded for r is the tag of the hash recorded for r (nothing is required of the last record) *)
Fixpoint path_wf (hp : N) (path : list cuckoo_record) : Prop :=
  match path with
  | [] => True
  | r :: rest =>
    match rest with
    | [] => True
    | r' :: _ => crbucket r' = alt_index hp (crpartial r) (crbucket r) /\
                 crpartial r = partial_key (crhash r)
    end /\ path_wf hp rest
  end.

Lemma path_wf_nth hp path d : forall i,
  path_wf hp path -> (S i < length path)%nat ->
  crbucket (nth (S i) path d) = alt_index hp (crpartial (nth i path d)) (crbucket (nth i path d)) /\
  crpartial (nth i path d) = partial_key (crhash (nth i path d)).
Proof.
  induction path as [|r rest IH]; intros i Hw Hl; [cbn [length] in Hl; lia|].
  cbn [path_wf] in Hw. destruct Hw as [Hh Hr].
  destruct i as [|i'].
  - destruct rest as [|r' rest']; [cbn [length] in Hl; lia|]. cbn [nth]. exact Hh.
  - change (nth (S (S i')) (r :: rest) d) with (nth (S i') rest d).
    change (nth (S i') (r :: rest) d) with (nth i' rest d).
    apply IH; [exact Hr|cbn [length] in Hl; lia].
Qed.

Lemma path_wf_nth_rec hp path i :
  path_wf hp path -> (S i < length path)%nat ->
  crbucket (nth_rec path (N.of_nat (S i))) =
    alt_index hp (crpartial (nth_rec path (N.of_nat i))) (crbucket (nth_rec path (N.of_nat i))) /\
  crpartial (nth_rec path (N.of_nat i)) = partial_key (crhash (nth_rec path (N.of_nat i))).
Proof.
  intros Hw Hl. unfold nth_rec. rewrite !Nat2N.id. apply path_wf_nth; assumption.
Qed.

Lemma nth_rec_slot path i :
  Forall (fun r => crslot r < spb c) path -> (i < length path)%nat ->
  crslot (nth_rec path (N.of_nat i)) < spb c.
Proof.
  intros Hf Hl. unfold nth_rec. rewrite Nat2N.id.
  rewrite Forall_forall in Hf. apply Hf. apply nth_In. exact Hl.
Qed.

Lemma all_migrated_set_cur t a : all_migrated t -> all_migrated (set_cur t a).
Proof. intro H. exact H. Qed.

Lemma set_cur_cur t : set_cur t (cur t) = t.
Proof. destruct t; reflexivity. Qed.

Lemma set_cur_set_cur t a a' : set_cur (set_cur t a) a' = set_cur t a'.
Proof. reflexivity. Qed.

(* one iteration of the while loop on a table with nothing left to migrate *)
Lemma move_loop_step mode t path i1 i2 d' :
  all_migrated t ->
  cuckoopath_move_loop c hash mode t path i1 i2 (S d') =
  let from := nth_rec path (N.of_nat d') in
  let to := nth_rec path (N.of_nat (S d')) in
  match bget (cur t) (crbucket to) (crslot to), bget (cur t) (crbucket from) (crslot from) with
  | Some _, _ => (t, false)
  | None, None => (t, false)
  | None, Some e =>
    if negb (hash (ekey e) =? crhash from) then (t, false)
    else cuckoopath_move_loop c hash mode
           (set_cur t (bset (bset (cur t) (crbucket to) (crslot to)
                                  (Some {| ekey := ekey e; eval := eval e; epart := epart e; ehusk := false |}))
                            (crbucket from) (crslot from) None))
           path i1 i2 d'
  end.
Proof.
  intro H. cbn [cuckoopath_move_loop].
  destruct (Nat.eqb (S d') 1).
  - rewrite (lock_three_settled mode t _ _ _ H). reflexivity.
  - rewrite (lock_two_settled mode t _ _ H). reflexivity.
Qed.

(* t' is t with a rearranged current array holding the same key/value pairs *)
Definition same_contents (t t' : table) : Prop :=
  settled t' /\ bhp (cur t') = bhp (cur t) /\ locks t' = locks t /\ t' = set_cur t (cur t') /\
  forall k v, holds (cur t') k v <-> holds (cur t) k v.

Lemma same_contents_refl t : settled t -> same_contents t t.
Proof.
  intro St. split; [exact St|]. split; [reflexivity|]. split; [reflexivity|].
  split; [symmetry; apply set_cur_cur|]. intros k v. reflexivity.
Qed.

Lemma same_contents_trans t t' t'' : same_contents t t' -> same_contents t' t'' -> same_contents t t''.
Proof.
  intros [S1 [H1 [L1 [E1 C1]]]] [S2 [H2 [L2 [E2 C2]]]].
  split; [exact S2|]. split; [congruence|]. split; [congruence|]. split.
  - rewrite E2 at 1. rewrite E1. reflexivity.
  - intros k v. rewrite C2. apply C1.
Qed.

(* a validated hop: source occupied by e whose hash is the recorded one, destination empty *)
Lemma hop_same_contents t from to e :
  settled t ->
  crbucket to = alt_index (bhp (cur t)) (crpartial from) (crbucket from) ->
  crpartial from = partial_key (crhash from) ->
  crslot to < spb c ->
  bget (cur t) (crbucket to) (crslot to) = None ->
  bget (cur t) (crbucket from) (crslot from) = Some e ->
  hash (ekey e) = crhash from ->
  same_contents t
    (set_cur t (bset (bset (cur t) (crbucket to) (crslot to)
                           (Some {| ekey := ekey e; eval := eval e; epart := epart e; ehusk := false |}))
                     (crbucket from) (crslot from) None)).
Proof.
  intros St Hto Hp Hs Hn He Hh.
  assert (Ha := se_arr _ _ _ St).
  assert (Hhp : bhp (cur t) < 64) by (assert (X := ao_hp _ _ _ Ha); lia).
  rewrite Hp, <- Hh in Hto.
  assert (Hcand : cand hash (bhp (cur t)) (ekey e) (crbucket to)).
  { destruct (ao_place _ _ _ Ha _ _ _ He) as [Hf|Hf]; unfold cand.
    - right. rewrite Hto, Hf. reflexivity.
    - left. rewrite Hto, Hf. unfold i2_of. apply alt_involutive; [exact Hhp|].
      unfold i1_of. apply index_lt. exact Hhp. }
  assert (Hb : crbucket to < 2 ^ bhp (cur t)).
  { rewrite Hto. apply alt_lt. exact Hhp. }
  destruct (arr_ok_move (cur t) _ _ _ _ e Ha He Hn Hb Hs Hcand) as [Ha' Hh'].
  cbv zeta in Ha', Hh'.
  split; [|split; [reflexivity|split; [reflexivity|split; [reflexivity|exact Hh']]]].
  apply settled_set_cur; [exact St|exact Ha'| |reflexivity].
  rewrite !bdead_bset. apply (se_alive _ _ _ St).
Qed.

Lemma cuckoopath_move_loop_spec mode path i1 i2 depth : forall t,
  settled t -> path_wf (bhp (cur t)) path -> (depth < length path)%nat ->
  Forall (fun r => crslot r < spb c) path ->
  same_contents t (fst (cuckoopath_move_loop c hash mode t path i1 i2 depth)).
Proof.
  induction depth as [|d' IH]; intros t St Hw Hl Hf.
  - cbn [cuckoopath_move_loop fst]. apply same_contents_refl. exact St.
  - rewrite (move_loop_step mode t path i1 i2 d' (se_mig _ _ _ St)). cbv zeta.
    destruct (path_wf_nth_rec _ path d' Hw Hl) as [Hto Hp].
    assert (Hs := nth_rec_slot path (S d') Hf Hl).
    set (from := nth_rec path (N.of_nat d')) in *.
    set (to := nth_rec path (N.of_nat (S d'))) in *.
    destruct (bget (cur t) (crbucket to) (crslot to)) as [x|] eqn:Hn;
      [cbn [fst]; apply same_contents_refl; exact St|].
    destruct (bget (cur t) (crbucket from) (crslot from)) as [e|] eqn:He;
      [|cbn [fst]; apply same_contents_refl; exact St].
    destruct (hash (ekey e) =? crhash from) eqn:Hh; cbn [negb];
      [|cbn [fst]; apply same_contents_refl; exact St].
    apply N.eqb_eq in Hh.
    assert (Hsc := hop_same_contents t from to e St Hto Hp Hs Hn He Hh).
    eapply same_contents_trans; [exact Hsc|].
    destruct Hsc as [St' _].
    apply IH; [exact St'|exact Hw|lia|exact Hf].
Qed.

(* the statement in unbundled form *)
Lemma cuckoopath_move_loop_settled mode t path i1 i2 depth :
  settled t -> path_wf (bhp (cur t)) path -> (depth < length path)%nat ->
  Forall (fun r => crslot r < spb c) path ->
  exists t' ok, cuckoopath_move_loop c hash mode t path i1 i2 depth = (t', ok) /\
    settled t' /\ bhp (cur t') = bhp (cur t) /\ locks t' = locks t /\
    forall k v, holds (cur t') k v <-> holds (cur t) k v.
Proof.
  intros St Hw Hl Hf.
  assert (H := cuckoopath_move_loop_spec mode path i1 i2 depth t St Hw Hl Hf).
  destruct (cuckoopath_move_loop c hash mode t path i1 i2 depth) as [t' ok].
  cbn [fst] in H. destruct H as [S1 [H1 [L1 [_ C1]]]].
  exists t', ok. split; [reflexivity|]. split; [exact S1|]. split; [exact H1|]. split; [exact L1|exact C1].
Qed.

(* success leaves the head of the path empty *)
Lemma cuckoopath_move_loop_true mode path i1 i2 depth : forall t t',
  all_migrated t -> (0 < depth)%nat ->
  cuckoopath_move_loop c hash mode t path i1 i2 depth = (t', true) ->
  bget (cur t') (crbucket (nth_rec path 0)) (crslot (nth_rec path 0)) = None.
Proof.
  induction depth as [|d' IH]; intros t t' Hm Hd E; [lia|].
  rewrite (move_loop_step mode t path i1 i2 d' Hm) in E. cbv zeta in E.
  destruct (bget (cur t) (crbucket (nth_rec path (N.of_nat (S d')))) (crslot (nth_rec path (N.of_nat (S d')))));
    [discriminate|].
  destruct (bget (cur t) (crbucket (nth_rec path (N.of_nat d'))) (crslot (nth_rec path (N.of_nat d'))))
    as [e|]; [|discriminate].
  destruct (negb (hash (ekey e) =? crhash (nth_rec path (N.of_nat d')))); [discriminate|].
  destruct d' as [|d''].
  - cbn [cuckoopath_move_loop] in E. injection E as <-.
    change (N.of_nat 0) with 0. cbn [set_cur cur]. apply bget_bset_eq.
  - eapply IH; [|lia|exact E]. apply all_migrated_set_cur. exact Hm.
Qed.

Lemma cuckoopath_move_depth0 mode t path i1 i2 :
  all_migrated t ->
  cuckoopath_move c hash mode t path 0 i1 i2 =
  (t, negb (occupied (cur t) (crbucket (nth_rec path 0)) (crslot (nth_rec path 0)))).
Proof.
  intro H. unfold cuckoopath_move. change (0 =? 0) with true. cbv iota zeta.
  rewrite (lock_two_settled mode t _ _ H). reflexivity.
Qed.

Lemma cuckoopath_move_spec mode t path depth i1 i2 :
  settled t -> path_wf (bhp (cur t)) path -> (N.to_nat depth < length path)%nat ->
  Forall (fun r => crslot r < spb c) path ->
  same_contents t (fst (cuckoopath_move c hash mode t path depth i1 i2)).
Proof.
  intros St Hw Hl Hf. destruct (N.eq_dec depth 0) as [->|Nz].
  - rewrite (cuckoopath_move_depth0 mode t path i1 i2 (se_mig _ _ _ St)). cbn [fst].
    apply same_contents_refl. exact St.
  - unfold cuckoopath_move. apply N.eqb_neq in Nz. rewrite Nz.
    apply cuckoopath_move_loop_spec; assumption.
Qed.

Lemma cuckoopath_move_settled mode t path depth i1 i2 :
  settled t -> path_wf (bhp (cur t)) path -> (N.to_nat depth < length path)%nat ->
  Forall (fun r => crslot r < spb c) path ->
  exists t' ok, cuckoopath_move c hash mode t path depth i1 i2 = (t', ok) /\
    settled t' /\ bhp (cur t') = bhp (cur t) /\ locks t' = locks t /\
    (forall k v, holds (cur t') k v <-> holds (cur t) k v) /\
    (ok = true -> bget (cur t') (crbucket (nth_rec path 0)) (crslot (nth_rec path 0)) = None).
Proof.
  intros St Hw Hl Hf.
  assert (H := cuckoopath_move_spec mode t path depth i1 i2 St Hw Hl Hf).
  destruct (cuckoopath_move c hash mode t path depth i1 i2) as [t' ok] eqn:E.
  cbn [fst] in H. destruct H as [S1 [H1 [L1 [_ C1]]]].
  exists t', ok. split; [reflexivity|]. split; [exact S1|]. split; [exact H1|]. split; [exact L1|].
  split; [exact C1|]. intros ->.
  destruct (N.eq_dec depth 0) as [->|Nz].
  - rewrite (cuckoopath_move_depth0 mode t path i1 i2 (se_mig _ _ _ St)) in E.
    injection E as <- E. apply negb_true_iff in E. apply occupied_false. exact E.
  - unfold cuckoopath_move in E. assert (Nz' := Nz). apply N.eqb_neq in Nz'. rewrite Nz' in E.
    eapply cuckoopath_move_loop_true; [apply (se_mig _ _ _ St)| |exact E]. lia.
Qed.

End Arr.
