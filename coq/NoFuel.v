(* Fuel is never exhausted in single-threaded executions on well-formed tables.

   The loops of the C++ are modelled with fuel (Core.v).  The refinement theorems of InsertLemmas.v
   and Refine.v allow "out of fuel" as an outcome; this file closes that gap:

   N1  run_cuckoo never returns RC_fuel on a settled table: the path found by the BFS on a table is
       executed successfully on that same table at the first attempt (the BFS returns a path whose
       buckets are pairwise distinct, because it is a SHORTEST path), so the while loop runs once.
   N2  cuckoo_insert never returns CI_fuel on a settled table.
   N3  the insert loop / uprase_gen / rehash / reserve never report EOutOfFuel (nothrow types),
       short of the explicit escape clause [esc] of Refine.v.
   M   fuel monotonicity of every fuelled loop (no invariant needed).
   N4  where an EOutOfFuel of the rebuild path can come from.                                  *)
From Coq Require Import NArith ZArith List Bool Lia FMapPositive.
From LC Require Import gen.HashGen Bits Core Api InvDefs ArrLemmas Stats InsertLemmas Resize Iter Refine.
Import ListNotations.
Local Open Scope N_scope.

Section NoFuel.
Variable c : config.
Variable hash : N -> N.
Hypothesis Hc : cfg_ok c.

Notation arr_ok := (arr_ok c hash).
Notation settled := (settled c hash).
Notation same_contents := (same_contents c hash).
Notation good := (good c hash).
Notation evolves := (evolves c hash).
Notation esc := (esc c hash).

Let spb_pos : 0 < spb c := co_spb _ Hc.
Let spb_le8 : spb c <= 8 := co_spb_max _ Hc.

(* ================================================================== A. path codes *)

(* the path code of the BFS: root choice (0/1) followed by one base-spb digit per slot *)
Definition enc (code : N) (slots : list N) : N := fold_left (fun p s => p * spb c + s) slots code.

Lemma enc_snoc code l s : enc code (l ++ [s]) = enc code l * spb c + s.
Proof. unfold enc. rewrite fold_left_app. reflexivity. Qed.

Definition lt_spb (s : N) : Prop := s < spb c.

Lemma enc_bound code : code <= 1 -> forall l, Forall lt_spb l ->
  enc code l + 1 <= 2 * spb c ^ N.of_nat (length l).
Proof.
  intros Hcode l. induction l as [|s l IH] using rev_ind; intro Hf.
  - cbn. lia.
  - apply Forall_app in Hf. destruct Hf as [Hl Hs]. inversion Hs as [|s0 r0 Hs0 _]; subst s0 r0.
    unfold lt_spb in Hs0. specialize (IH Hl). rewrite enc_snoc, app_length. cbn [length].
    replace (N.of_nat (length l + 1)) with (N.succ (N.of_nat (length l))) by lia.
    rewrite N.pow_succ_r'. set (P := spb c ^ N.of_nat (length l)) in *. set (E := enc code l) in *.
    assert (H1 : (E + 1) * spb c <= 2 * P * spb c) by (apply N.mul_le_mono_r; exact IH).
    lia.
Qed.

Lemma pow_spb_le n : n <= 5 -> 2 * spb c ^ n <= 65536.
Proof.
  intro H. change 65536 with (2 * 8 ^ 5). apply N.mul_le_mono_l.
  transitivity (8 ^ n).
  - apply N.pow_le_mono_l. exact spb_le8.
  - apply N.pow_le_mono_r; lia.
Qed.

Lemma enc_small code l : code <= 1 -> Forall lt_spb l -> (length l <= 5)%nat -> enc code l < 2 ^ 16.
Proof.
  intros Hcode Hf Hl. assert (H := enc_bound code Hcode l Hf).
  assert (H2 := pow_spb_le (N.of_nat (length l))). change (2 ^ 16) with 65536. lia.
Qed.

Lemma decode_enc code : forall l acc, Forall lt_spb l ->
  decode_slots c (enc code l) (length l) acc = (l ++ acc, code).
Proof.
  intro l. induction l as [|s l IH] using rev_ind; intros acc Hf.
  - reflexivity.
  - apply Forall_app in Hf. destruct Hf as [Hl Hs]. inversion Hs as [|s0 r0 Hs0 _]; subst s0 r0.
    unfold lt_spb in Hs0. rewrite app_length. cbn [length]. rewrite Nat.add_1_r.
    cbn [decode_slots]. rewrite enc_snoc.
    assert (Hnz : spb c <> 0) by lia.
    replace ((enc code l * spb c + s) / spb c) with (enc code l).
    2:{ apply (N.div_unique _ _ _ s); [exact Hs0|lia]. }
    replace ((enc code l * spb c + s) mod spb c) with s.
    2:{ apply (N.mod_unique _ _ (enc code l)); [exact Hs0|lia]. }
    rewrite (IH (s :: acc) Hl). rewrite <- app_assoc. reflexivity.
Qed.

(* ================================================================== B. walks through the table *)

(* follow a list of slots from bucket b: every slot visited must be occupied; the next bucket is
   the alternate bucket of the occupant (computed from its stored tag, as the BFS does) *)
Fixpoint walk (a : barray) (hp b : N) (slots : list N) : option N :=
  match slots with
  | [] => Some b
  | s :: rest =>
    match bget a b s with
    | Some e => walk a hp (alt_index hp (epart e) b) rest
    | None => None
    end
  end.

Lemma walk_app a hp : forall l b l',
  walk a hp b (l ++ l') = match walk a hp b l with Some b' => walk a hp b' l' | None => None end.
Proof.
  induction l as [|s l IH]; intros b l'; [reflexivity|].
  cbn [app walk]. destruct (bget a b s) as [e|]; [apply IH|reflexivity].
Qed.

Lemma walk_snoc a hp b l s B e :
  walk a hp b l = Some B -> bget a B s = Some e ->
  walk a hp b (l ++ [s]) = Some (alt_index hp (epart e) B).
Proof. intros H1 H2. rewrite walk_app, H1. cbn [walk]. rewrite H2. reflexivity. Qed.

Definition full (a : barray) (b : N) : Prop := forall s, s < spb c -> bget a b s <> None.

Definition root (i1 i2 code : N) : N := if code =? 0 then i1 else i2.

(* ================================================================== C. one dequeue of the BFS *)

Definition child (hp : N) (x : b_slot) (slot : N) (e : entry) : b_slot :=
  {| qbucket := alt_index hp (epart e) (qbucket x);
     qpathcode := wrap 16 (qpathcode x * spb c + slot);
     qdepth := qdepth x + 1 |}.

Lemma scan_unfold n t hp x start i acc :
  slot_search_scan c t hp x start i (S n) acc =
  let slot := (start + i) mod spb c in
  match bget (cur t) (qbucket x) slot with
  | None => (Some {| qbucket := qbucket x; qpathcode := wrap 16 (qpathcode x * spb c + slot);
                     qdepth := qdepth x |}, acc)
  | Some e =>
    slot_search_scan c t hp x start (i + 1) n
      (if qdepth x <? 4 then acc ++ [child hp x slot e] else acc)
  end.
Proof. reflexivity. Qed.

Lemma scan_incl : forall n t hp x start i acc y,
  In y acc -> In y (snd (slot_search_scan c t hp x start i n acc)).
Proof.
  induction n as [|n IH]; intros t hp x start i acc y Hy; [exact Hy|].
  rewrite scan_unfold. cbv zeta.
  destruct (bget (cur t) (qbucket x) ((start + i) mod spb c)) as [e|]; [|exact Hy].
  apply IH. destruct (qdepth x <? 4); [apply in_or_app; left; exact Hy|exact Hy].
Qed.

Lemma scan_form : forall n t hp x start i acc y,
  In y (snd (slot_search_scan c t hp x start i n acc)) ->
  In y acc \/
  (qdepth x < 4 /\ exists s e, s < spb c /\ bget (cur t) (qbucket x) s = Some e /\ y = child hp x s e).
Proof.
  induction n as [|n IH]; intros t hp x start i acc y Hy; [left; exact Hy|].
  rewrite scan_unfold in Hy. cbv zeta in Hy.
  destruct (bget (cur t) (qbucket x) ((start + i) mod spb c)) as [e|] eqn:Eb; [|left; exact Hy].
  apply IH in Hy. destruct Hy as [Hy|Hy]; [|right; exact Hy].
  destruct (N.ltb_spec (qdepth x) 4) as [L|L]; [|left; exact Hy].
  apply in_app_or in Hy. destruct Hy as [Hy|[Hy|[]]]; [left; exact Hy|right].
  split; [exact L|]. exists ((start + i) mod spb c), e.
  split; [apply N.mod_lt; lia|]. split; [exact Eb|symmetry; exact Hy].
Qed.

Lemma scan_none : forall n t hp x start i acc ch,
  slot_search_scan c t hp x start i n acc = (None, ch) ->
  forall j, i <= j < i + N.of_nat n ->
  exists e, bget (cur t) (qbucket x) ((start + j) mod spb c) = Some e /\
            (qdepth x < 4 -> In (child hp x ((start + j) mod spb c) e) ch).
Proof.
  induction n as [|n IH]; intros t hp x start i acc ch E j Hj; [lia|].
  rewrite scan_unfold in E. cbv zeta in E.
  destruct (bget (cur t) (qbucket x) ((start + i) mod spb c)) as [e|] eqn:Eb; [|discriminate].
  destruct (N.eq_dec j i) as [->|Hne].
  - exists e. split; [exact Eb|]. intro L.
    assert (H := scan_incl n t hp x start (i + 1)
                   (if qdepth x <? 4 then acc ++ [child hp x ((start + i) mod spb c) e] else acc)
                   (child hp x ((start + i) mod spb c) e)).
    rewrite E in H. cbn [snd] in H. apply H.
    apply N.ltb_lt in L. rewrite L. apply in_or_app. right. left. reflexivity.
  - apply (IH _ _ _ _ _ _ _ E). lia.
Qed.

Lemma scan_found : forall n t hp x start i acc r ch,
  slot_search_scan c t hp x start i n acc = (Some r, ch) ->
  exists s, s < spb c /\ bget (cur t) (qbucket x) s = None /\
    r = {| qbucket := qbucket x; qpathcode := wrap 16 (qpathcode x * spb c + s); qdepth := qdepth x |}.
Proof.
  induction n as [|n IH]; intros t hp x start i acc r ch E; [discriminate|].
  rewrite scan_unfold in E. cbv zeta in E.
  destruct (bget (cur t) (qbucket x) ((start + i) mod spb c)) as [e|] eqn:Eb.
  - apply IH in E. exact E.
  - injection E as <- _. exists ((start + i) mod spb c).
    split; [apply N.mod_lt; lia|]. split; [exact Eb|reflexivity].
Qed.

(* a complete scan visits every slot of the bucket *)
Lemma scan_covers start s : start < spb c -> s < spb c ->
  exists j, 0 <= j < 0 + N.of_nat (N.to_nat (spb c)) /\ (start + j) mod spb c = s.
Proof.
  intros H1 H2. destruct (N.le_gt_cases start s) as [L|L].
  - exists (s - start). split; [lia|]. replace (start + (s - start)) with s by lia.
    apply N.mod_small. exact H2.
  - exists (s + spb c - start). split; [lia|].
    replace (start + (s + spb c - start)) with (s + 1 * spb c) by lia.
    rewrite N.mod_add by lia. apply N.mod_small. exact H2.
Qed.

Lemma scan_none_full t hp x ch :
  slot_search_scan c t hp x (qpathcode x mod spb c) 0 (N.to_nat (spb c)) [] = (None, ch) ->
  forall s, s < spb c ->
  exists e, bget (cur t) (qbucket x) s = Some e /\ (qdepth x < 4 -> In (child hp x s e) ch).
Proof.
  intros E s Hs.
  assert (Hst : qpathcode x mod spb c < spb c) by (apply N.mod_lt; lia).
  destruct (scan_covers _ s Hst Hs) as [j [Hj Ej]].
  destruct (scan_none _ _ _ _ _ _ _ _ E j Hj) as [e He]. rewrite Ej in He. exists e. exact He.
Qed.

(* ================================================================== D. the BFS returns a shortest walk *)

Section BFS.
Variable t : table.
Variable hp i1 i2 : N.
Hypothesis Hm : all_migrated t.

Notation a := (cur t).

(* bucket B is reached from one of the two roots by a walk of m hops *)
Definition reach (m : nat) (B : N) : Prop :=
  exists code slots, code <= 1 /\ Forall lt_spb slots /\ length slots = m /\
    walk a hp (root i1 i2 code) slots = Some B.

(* a queue node stands for a real walk, and its path code encodes that walk *)
Definition node_ok (y : b_slot) : Prop :=
  qdepth y <= 4 /\
  exists code slots, code <= 1 /\ Forall lt_spb slots /\ length slots = N.to_nat (qdepth y) /\
    qpathcode y = enc code slots /\ walk a hp (root i1 i2 code) slots = Some (qbucket y).

(* every walk of at most 4 hops either ends in a full bucket or still has a prefix in the queue *)
Definition covered (q : list b_slot) : Prop :=
  forall m B, reach m B -> (m <= 4)%nat ->
    full a B \/
    exists y suf, In y q /\ Forall lt_spb suf /\ walk a hp (qbucket y) suf = Some B /\
                  (N.to_nat (qdepth y) + length suf = m)%nat.

(* FIFO order: the queue holds nodes of depth d followed by nodes of depth d+1 *)
Definition layered (d : N) (q : list b_slot) : Prop :=
  exists q1 q2, q = q1 ++ q2 /\ Forall (fun y => qdepth y = d) q1 /\ Forall (fun y => qdepth y = d + 1) q2.

Lemma layered_head d x r y : layered d (x :: r) -> In y (x :: r) -> qdepth x <= qdepth y.
Proof.
  intros [q1 [q2 [E [F1 F2]]]] Hy. destruct q1 as [|x1 q1'].
  - cbn [app] in E. subst q2. rewrite Forall_forall in F2.
    rewrite (F2 x (or_introl eq_refl)), (F2 y Hy). lia.
  - cbn [app] in E. injection E as <- ->. inversion F1 as [|x0 r0 Hx F1']; subst x0 r0.
    rewrite Forall_forall in F1', F2. rewrite Hx. destruct Hy as [<-|Hy]; [lia|].
    apply in_app_or in Hy. destruct Hy as [Hy|Hy]; [rewrite (F1' y Hy)|rewrite (F2 y Hy)]; lia.
Qed.

Lemma layered_step d x r ch :
  layered d (x :: r) -> Forall (fun y => qdepth y = qdepth x + 1) ch -> exists d', layered d' (r ++ ch).
Proof.
  intros [q1 [q2 [E [F1 F2]]]] Fc. destruct q1 as [|x1 q1'].
  - cbn [app] in E. subst q2. inversion F2 as [|x0 r0 Hx F2']; subst x0 r0.
    exists (d + 1), r, ch. split; [reflexivity|]. split; [exact F2'|]. rewrite <- Hx. exact Fc.
  - cbn [app] in E. injection E as <- ->. inversion F1 as [|x0 r0 Hx F1']; subst x0 r0.
    exists d, q1', (q2 ++ ch). split; [rewrite app_assoc; reflexivity|]. split; [exact F1'|].
    apply Forall_app. split; [exact F2|]. rewrite <- Hx. exact Fc.
Qed.

Lemma children_depth x ch :
  slot_search_scan c t hp x (qpathcode x mod spb c) 0 (N.to_nat (spb c)) [] = (None, ch) ->
  Forall (fun y => qdepth y = qdepth x + 1) ch.
Proof.
  intro E. apply Forall_forall. intros y Hy.
  assert (H := scan_form (N.to_nat (spb c)) t hp x (qpathcode x mod spb c) 0 [] y).
  rewrite E in H. cbn [snd] in H. destruct (H Hy) as [[]|[_ [s [e [_ [_ ->]]]]]]. reflexivity.
Qed.

Lemma child_ok x s e :
  node_ok x -> qdepth x < 4 -> s < spb c -> bget a (qbucket x) s = Some e -> node_ok (child hp x s e).
Proof.
  intros [_ [code [slots [Hcode [Hf [Hl [Hp Hw]]]]]]] Hd Hs He.
  split; [cbn [child qdepth]; lia|].
  assert (Hf' : Forall lt_spb (slots ++ [s])).
  { apply Forall_app. split; [exact Hf|]. constructor; [exact Hs|constructor]. }
  exists code, (slots ++ [s]). split; [exact Hcode|]. split; [exact Hf'|].
  split; [rewrite app_length; cbn [length child qdepth]; lia|].
  split.
  - cbn [child qpathcode]. rewrite Hp, <- enc_snoc. apply wrap_small.
    apply enc_small; [exact Hcode|exact Hf'|]. rewrite app_length. cbn [length]. lia.
  - cbn [child qbucket]. apply walk_snoc; assumption.
Qed.

Lemma children_ok x ch :
  node_ok x ->
  slot_search_scan c t hp x (qpathcode x mod spb c) 0 (N.to_nat (spb c)) [] = (None, ch) ->
  Forall node_ok ch.
Proof.
  intros Hx E. apply Forall_forall. intros y Hy.
  assert (H := scan_form (N.to_nat (spb c)) t hp x (qpathcode x mod spb c) 0 [] y).
  rewrite E in H. cbn [snd] in H. destruct (H Hy) as [[]|[Hd [s [e [Hs [He ->]]]]]].
  apply child_ok; assumption.
Qed.

Lemma covered_step x r ch :
  covered (x :: r) ->
  slot_search_scan c t hp x (qpathcode x mod spb c) 0 (N.to_nat (spb c)) [] = (None, ch) ->
  covered (r ++ ch).
Proof.
  intros Hcov E m B Hr Hm4.
  destruct (Hcov m B Hr Hm4) as [Hfull|[y [suf [Hy [Hf [Hw Hlen]]]]]]; [left; exact Hfull|].
  destruct Hy as [<-|Hy].
  2:{ right. exists y, suf. split; [apply in_or_app; left; exact Hy|]. split; [exact Hf|]. split; assumption. }
  destruct suf as [|s rest].
  - left. cbn [walk] in Hw. injection Hw as <-. intros s Hs.
    destruct (scan_none_full t hp x ch E s Hs) as [e [He _]]. rewrite He. discriminate.
  - right. inversion Hf as [|s0 r0 Hs Hf']; subst s0 r0.
    destruct (scan_none_full t hp x ch E s Hs) as [e [He Hin]].
    cbn [walk] in Hw. rewrite He in Hw. cbn [length] in Hlen.
    exists (child hp x s e), rest. split.
    + apply in_or_app. right. apply Hin. lia.
    + split; [exact Hf'|]. split; [exact Hw|]. cbn [child qdepth]. lia.
Qed.

(* what the BFS returns: the encoding of a walk to a bucket with an empty slot such that no
   strictly shorter walk (from either root) reaches that bucket *)
Definition bfs_answer (r : b_slot) : Prop :=
  qdepth r <= 4 /\
  exists code slots s, code <= 1 /\ Forall lt_spb slots /\ s < spb c /\
    length slots = N.to_nat (qdepth r) /\
    qpathcode r = enc code (slots ++ [s]) /\
    walk a hp (root i1 i2 code) slots = Some (qbucket r) /\
    bget a (qbucket r) s = None /\
    forall m, (m < length slots)%nat -> ~ reach m (qbucket r).

Lemma bfs_loop_answer mode : forall fuel q t' r,
  Forall node_ok q -> covered q -> (exists d, layered d q) ->
  slot_search_loop c hash mode t hp q fuel = (t', Some r) -> bfs_answer r.
Proof.
  induction fuel as [|f IH]; intros q t' r Hn Hcov [d Hlay] E; [discriminate|].
  destruct q as [|x q']; [discriminate|].
  rewrite (slot_search_loop_step c hash mode t hp x q' f Hm) in E.
  inversion Hn as [|x0 q0 Hx Hn']; subst x0 q0.
  destruct (slot_search_scan c t hp x (qpathcode x mod spb c) 0 (N.to_nat (spb c)) [])
    as [[r0|] ch] eqn:Es.
  - injection E as _ <-.
    destruct (scan_found _ _ _ _ _ _ _ _ _ Es) as [s [Hs [He ->]]].
    destruct Hx as [Hd4 [code [slots [Hcode [Hf [Hl [Hp Hw]]]]]]].
    split; [exact Hd4|]. exists code, slots, s. cbn [qdepth qpathcode qbucket].
    split; [exact Hcode|]. split; [exact Hf|]. split; [exact Hs|]. split; [exact Hl|].
    split.
    { rewrite Hp, <- enc_snoc. apply wrap_small.
      apply enc_small; [exact Hcode| |rewrite app_length; cbn [length]; lia].
      apply Forall_app. split; [exact Hf|]. constructor; [exact Hs|constructor]. }
    split; [exact Hw|]. split; [exact He|].
    intros m Hlt Hr.
    destruct (Hcov m (qbucket x) Hr) as [Hfull|[y [suf [Hy [_ [_ Hlen]]]]]]; [lia| |].
    + apply (Hfull s Hs). exact He.
    + assert (Hle := layered_head d x q' y Hlay Hy). lia.
  - apply (IH (q' ++ ch) t' r).
    + apply Forall_app. split; [exact Hn'|]. apply (children_ok x ch Hx Es).
    + apply (covered_step x q' ch Hcov Es).
    + apply (layered_step d x q' ch Hlay). apply (children_depth x ch Es).
    + exact E.
Qed.

Lemma bfs_init_inv :
  Forall node_ok (bfs_init i1 i2) /\ covered (bfs_init i1 i2) /\ exists d, layered d (bfs_init i1 i2).
Proof.
  split; [|split].
  - constructor; [|constructor; [|constructor]]; (split; [cbn [qdepth]; lia|]).
    + exists 0, []. repeat split; try reflexivity; try lia. constructor.
    + exists 1, []. repeat split; try reflexivity; try lia. constructor.
  - intros m B [code [slots [Hcode [Hf [Hl Hw]]]]] _. right.
    assert (Hc01 : code = 0 \/ code = 1) by lia. destruct Hc01 as [-> | ->].
    + exists {| qbucket := i1; qpathcode := 0; qdepth := 0 |}, slots.
      split; [left; reflexivity|]. split; [exact Hf|]. split; [exact Hw|]. cbn [qdepth]. lia.
    + exists {| qbucket := i2; qpathcode := 1; qdepth := 0 |}, slots.
      split; [right; left; reflexivity|]. split; [exact Hf|]. split; [exact Hw|]. cbn [qdepth]. lia.
  - exists 0, (bfs_init i1 i2), []. split; [rewrite app_nil_r; reflexivity|].
    split; [|constructor]. constructor; [reflexivity|constructor; [reflexivity|constructor]].
Qed.

Theorem slot_search_answer mode t' r :
  slot_search c hash mode t hp i1 i2 = (t', Some r) -> bfs_answer r.
Proof.
  unfold slot_search. fold (bfs_init i1 i2). intro E.
  destruct bfs_init_inv as [H1 [H2 H3]].
  exact (bfs_loop_answer mode _ _ t' r H1 H2 H3 E).
Qed.

End BFS.

(* ================================================================== E. the path rebuilt from the code *)

(* the records cuckoopath_search produces when it follows [slots] from bucket b: it stops at the
   first empty slot *)
Fixpoint trail (a : barray) (hp b : N) (slots : list N) : list cuckoo_record :=
  match slots with
  | [] => []
  | s :: rest =>
    match bget a b s with
    | Some e =>
      {| crbucket := b; crslot := s; crhash := hash (ekey e); crpartial := partial_key (hash (ekey e)) |}
      :: trail a hp (alt_index hp (partial_key (hash (ekey e))) b) rest
    | None => [{| crbucket := b; crslot := s; crhash := 0; crpartial := 0 |}]
    end
  end.

Lemma cps_loop_trail mode hp : forall slots t prev i acc, all_migrated t -> 1 <= i ->
  cuckoopath_search_loop c hash mode t hp prev slots i acc =
  (t, rev (trail (cur t) hp (alt_index hp (crpartial prev) (crbucket prev)) slots) ++ acc,
   i + N.of_nat (length (trail (cur t) hp (alt_index hp (crpartial prev) (crbucket prev)) slots)) - 1).
Proof.
  induction slots as [|s rest IH]; intros t prev i acc Hm Hi.
  - cbn [cuckoopath_search_loop trail rev app length]. f_equal. lia.
  - cbn [cuckoopath_search_loop trail]. rewrite (lock_one_settled c hash mode t _ Hm).
    set (b := alt_index hp (crpartial prev) (crbucket prev)).
    destruct (bget (cur t) b s) as [e|].
    + rewrite (IH t _ (i + 1) _ Hm) by lia. cbn [crpartial crbucket rev length].
      rewrite <- app_assoc. cbn [app]. f_equal. lia.
    + cbn [rev app length]. f_equal. lia.
Qed.

Lemma cuckoopath_search_trail mode t hp i1 i2 t' x code slots s :
  all_migrated t ->
  slot_search c hash mode t hp i1 i2 = (t', Some x) ->
  Forall lt_spb slots -> s < spb c -> length slots = N.to_nat (qdepth x) ->
  qpathcode x = enc code (slots ++ [s]) ->
  let T := trail (cur t) hp (root i1 i2 code) (slots ++ [s]) in
  cuckoopath_search c hash mode t hp i1 i2 = (t, Some (T, N.of_nat (length T) - 1)).
Proof.
  intros Hm Es Hf Hs Hl Hp T. subst T. unfold cuckoopath_search.
  destruct (slot_search_settled c hash mode t hp i1 i2 Hm) as [r Es']. rewrite Es' in Es.
  injection Es as <- ->. rewrite Es'.
  assert (Hf' : Forall lt_spb (slots ++ [s])).
  { apply Forall_app. split; [exact Hf|]. constructor; [exact Hs|constructor]. }
  replace (S (N.to_nat (qdepth x))) with (length (slots ++ [s]))
    by (rewrite app_length; cbn [length]; lia).
  rewrite Hp, (decode_enc code (slots ++ [s]) [] Hf'), app_nil_r.
  destruct (slots ++ [s]) as [|s0 rest] eqn:El.
  { destruct slots; discriminate. }
  fold (root i1 i2 code). rewrite (lock_one_settled c hash mode t _ Hm).
  cbn [trail]. destruct (bget (cur t) (root i1 i2 code) s0) as [e|].
  - rewrite (cps_loop_trail mode hp rest t _ 1 _ Hm) by lia. cbn [crpartial crbucket].
    rewrite rev_app_distr, rev_involutive. cbn [rev app length]. do 3 f_equal. lia.
  - reflexivity.
Qed.

Definition dflt_rec : cuckoo_record := {| crbucket := 0; crslot := 0; crhash := 0; crpartial := 0 |}.

(* along a walk that ends at an empty slot, the trail has one record per slot: the first ones
   are occupied and carry the hash of their occupant, the last one is the empty slot *)
Lemma trail_walk a hp :
  (forall b s e, bget a b s = Some e -> epart e = partial_key (hash (ekey e))) ->
  forall slots b B s, walk a hp b slots = Some B -> bget a B s = None ->
  let T := trail a hp b (slots ++ [s]) in
  length T = S (length slots) /\
  (forall j, (j < length slots)%nat ->
     exists Bj e, walk a hp b (firstn j slots) = Some Bj /\ bget a Bj (nth j slots 0) = Some e /\
       crbucket (nth j T dflt_rec) = Bj /\ crslot (nth j T dflt_rec) = nth j slots 0 /\
       crhash (nth j T dflt_rec) = hash (ekey e)) /\
  crbucket (nth (length slots) T dflt_rec) = B /\ crslot (nth (length slots) T dflt_rec) = s.
Proof.
  intro Ha. induction slots as [|s0 rest IH]; intros b B s Hw He T; subst T.
  - cbn [walk] in Hw. injection Hw as <-. cbn [app trail]. rewrite He. cbn [length nth].
    split; [reflexivity|]. split; [intros j Hj; lia|]. split; reflexivity.
  - cbn [walk] in Hw. cbn [app trail].
    destruct (bget a b s0) as [e0|] eqn:E0; [|discriminate].
    rewrite <- (Ha _ _ _ E0).
    destruct (IH _ B s Hw He) as [H1 [H2 [H3 H4]]]. cbv zeta in H1, H2, H3, H4.
    cbn [length]. split; [rewrite H1; reflexivity|]. split; [|split].
    + intros j Hj. destruct j as [|j'].
      * exists b, e0. cbn [firstn walk nth]. repeat split. exact E0.
      * destruct (H2 j') as [Bj [e [G1 [G2 [G3 [G4 G5]]]]]]; [lia|].
        exists Bj, e. cbn [firstn walk nth]. rewrite E0. repeat split; assumption.
    + cbn [nth]. exact H3.
    + cbn [nth]. exact H4.
Qed.

(* ================================================================== F. executing the path *)

Section MoveOk.
Variable mode : bool.
Variable path : list cuckoo_record.
Variable i1 i2 : N.

Notation P j := (nth_rec path (N.of_nat j)).

(* the last slot is empty, the ones before hold the recorded elements, and no bucket repeats *)
Definition path_ready (a : barray) (depth : nat) : Prop :=
  bget a (crbucket (P depth)) (crslot (P depth)) = None /\
  (forall j, (j < depth)%nat ->
     exists e, bget a (crbucket (P j)) (crslot (P j)) = Some e /\ hash (ekey e) = crhash (P j)) /\
  (forall j j', (j < j' <= depth)%nat -> crbucket (P j) <> crbucket (P j')).

Lemma move_loop_ok : forall depth t, all_migrated t -> path_ready (cur t) depth ->
  snd (cuckoopath_move_loop c hash mode t path i1 i2 depth) = true.
Proof.
  induction depth as [|d' IH]; intros t Hm [Hto [Hocc Hdist]]; [reflexivity|].
  rewrite (move_loop_step c hash mode t path i1 i2 d' Hm). cbv zeta.
  rewrite Hto. destruct (Hocc d') as [e [He Hh]]; [lia|]. rewrite He, Hh, N.eqb_refl. cbn [negb].
  apply IH; [apply all_migrated_set_cur; exact Hm|]. cbn [set_cur cur].
  split; [apply bget_bset_eq|]. split.
  - intros j Hj. destruct (Hocc j) as [ej [Hej Hhj]]; [lia|]. exists ej. split; [|exact Hhj].
    rewrite bget_bset_other by (left; intro E; apply (Hdist j d'); [lia|symmetry; exact E]).
    rewrite bget_bset_other by (left; intro E; apply (Hdist j (S d')); [lia|symmetry; exact E]).
    exact Hej.
  - intros j j' Hj. apply Hdist. lia.
Qed.

Lemma move_ok t depth :
  all_migrated t -> path_ready (cur t) (N.to_nat depth) ->
  snd (cuckoopath_move c hash mode t path depth i1 i2) = true.
Proof.
  intros Hm Hr. destruct (N.eq_dec depth 0) as [->|Nz].
  - rewrite (cuckoopath_move_depth0 c hash mode t path i1 i2 Hm). cbn [snd].
    destruct Hr as [Hto _]. change (N.to_nat 0) with 0%nat in Hto. change (N.of_nat 0) with 0 in Hto.
    apply negb_true_iff. apply occupied_false. exact Hto.
  - unfold cuckoopath_move. apply N.eqb_neq in Nz. rewrite Nz. apply move_loop_ok; assumption.
Qed.

End MoveOk.

(* ================================================================== G. N1: run_cuckoo needs one iteration *)

(* every stored tag is the tag of the stored key's hash (part of arr_ok) *)
Definition tags_ok (a : barray) : Prop :=
  forall b s e, bget a b s = Some e -> epart e = partial_key (hash (ekey e)).

Lemma Forall_firstn_skipn {A} (Q : A -> Prop) n n' (l : list A) :
  Forall Q l -> Forall Q (firstn n l ++ skipn n' l).
Proof.
  intro H. apply Forall_app. split.
  - rewrite <- (firstn_skipn n l) in H. apply Forall_app in H. exact (proj1 H).
  - rewrite <- (firstn_skipn n' l) in H. apply Forall_app in H. exact (proj2 H).
Qed.

(* the path found by the search on a table is ready to be executed on that table *)
Theorem search_path_ready mode t hp i1 i2 t1 path depth :
  all_migrated t -> tags_ok (cur t) ->
  cuckoopath_search c hash mode t hp i1 i2 = (t1, Some (path, depth)) ->
  t1 = t /\ path_ready path (cur t) (N.to_nat depth).
Proof.
  intros Hm Htag E.
  destruct (slot_search_settled c hash mode t hp i1 i2 Hm) as [r Es].
  destruct r as [x|].
  2:{ unfold cuckoopath_search in E. rewrite Es in E. discriminate. }
  destruct (slot_search_answer t hp i1 i2 Hm mode t x Es)
    as [Hd4 [code [slots [s [Hcode [Hf [Hs [Hl [Hp [Hw [He Hmin]]]]]]]]]]].
  assert (Et := cuckoopath_search_trail mode t hp i1 i2 t x code slots s Hm Es Hf Hs Hl Hp).
  cbv zeta in Et. rewrite Et in E. injection E as <- <- <-. split; [reflexivity|].
  destruct (trail_walk (cur t) hp Htag slots (root i1 i2 code) (qbucket x) s Hw He)
    as [HL [Hocc [HB HS]]]. cbv zeta in HL, Hocc, HB, HS.
  set (T := trail (cur t) hp (root i1 i2 code) (slots ++ [s])) in *.
  set (n := length slots) in *.
  replace (N.to_nat (N.of_nat (length T) - 1)) with n by (rewrite HL; lia).
  assert (Hnth : forall j, nth_rec T (N.of_nat j) = nth j T dflt_rec).
  { intro j. unfold nth_rec. rewrite Nat2N.id. reflexivity. }
  (* the bucket of every position is the end of the corresponding prefix of the walk *)
  assert (Hpre : forall j, (j <= n)%nat ->
            walk (cur t) hp (root i1 i2 code) (firstn j slots) = Some (crbucket (nth j T dflt_rec))).
  { intros j Hj. destruct (Nat.eq_dec j n) as [->|Hne].
    - rewrite HB. unfold n. rewrite firstn_all. exact Hw.
    - destruct (Hocc j) as [Bj [e [G1 [_ [G3 _]]]]]; [lia|]. rewrite G3. exact G1. }
  split; [|split].
  - rewrite Hnth, HB, HS. exact He.
  - intros j Hj. rewrite Hnth. destruct (Hocc j Hj) as [Bj [e [_ [G2 [G3 [G4 G5]]]]]].
    exists e. rewrite G3, G4, G5. split; [exact G2|reflexivity].
  - intros j j' Hj. rewrite !Hnth. intro Eb.
    assert (Hw1 := Hpre j ltac:(lia)). assert (Hw2 := Hpre j' ltac:(lia)).
    assert (Hw3 : walk (cur t) hp (crbucket (nth j' T dflt_rec)) (skipn j' slots) = Some (qbucket x)).
    { assert (H := Hw). rewrite <- (firstn_skipn j' slots), walk_app, Hw2 in H. exact H. }
    apply (Hmin (j + (n - j'))%nat); [lia|].
    exists code, (firstn j slots ++ skipn j' slots).
    split; [exact Hcode|]. split; [apply Forall_firstn_skipn; exact Hf|]. split.
    + rewrite app_length, firstn_length, skipn_length. fold n. lia.
    + rewrite walk_app, Hw1, Eb. exact Hw3.
Qed.

Theorem search_then_move mode t hp i1 i2 t1 path depth :
  all_migrated t -> tags_ok (cur t) ->
  cuckoopath_search c hash mode t hp i1 i2 = (t1, Some (path, depth)) ->
  snd (cuckoopath_move c hash mode t1 path depth i1 i2) = true.
Proof.
  intros Hm Htag E.
  destruct (search_path_ready mode t hp i1 i2 t1 path depth Hm Htag E) as [-> Hr].
  apply move_ok; assumption.
Qed.

(* the while loop of run_cuckoo is left in its first iteration, whatever the fuel *)
Theorem run_cuckoo_loop_once mode t hp i1 i2 fuel :
  all_migrated t -> tags_ok (cur t) ->
  run_cuckoo_loop c hash mode t hp i1 i2 (S fuel) = run_cuckoo_loop c hash mode t hp i1 i2 1 /\
  snd (run_cuckoo_loop c hash mode t hp i1 i2 (S fuel)) <> RC_fuel.
Proof.
  intros Hm Htag. cbn [run_cuckoo_loop].
  destruct (cuckoopath_search c hash mode t hp i1 i2) as [t1 [[path depth]|]] eqn:Es.
  - assert (Hok := search_then_move mode t hp i1 i2 t1 path depth Hm Htag Es).
    destruct (cuckoopath_move c hash mode t1 path depth i1 i2) as [t2 ok]. cbn [snd] in Hok. subst ok.
    split; [reflexivity|]. cbn [snd]. discriminate.
  - split; [reflexivity|]. cbn [snd]. discriminate.
Qed.

Lemma settled_tags t : settled t -> tags_ok (cur t).
Proof. intros St b s e He. exact (ao_tag _ _ _ (se_arr _ _ _ St) b s e He). Qed.

(* N1 *)
Theorem run_cuckoo_no_fuel mode t i1 i2 :
  settled t -> snd (run_cuckoo c hash mode t i1 i2) <> RC_fuel.
Proof.
  intro St. unfold run_cuckoo, run_cuckoo_fuel.
  apply run_cuckoo_loop_once; [apply (se_mig _ _ _ St)|apply settled_tags; exact St].
Qed.

(* ... in the form of an outcome list *)
Corollary run_cuckoo_outcome mode t i1 i2 :
  settled t ->
  exists t', (run_cuckoo c hash mode t i1 i2 = (t', RC_failure) /\ t' = t) \/
             (exists b s, run_cuckoo c hash mode t i1 i2 = (t', RC_ok b s)).
Proof.
  intro St. assert (H := run_cuckoo_no_fuel mode t i1 i2 St).
  destruct (run_cuckoo_loop_once mode t (hashpower t) i1 i2 63 (se_mig _ _ _ St) (settled_tags t St))
    as [E1 _].
  unfold run_cuckoo, run_cuckoo_fuel in *. rewrite E1 in *. cbn [run_cuckoo_loop] in *.
  destruct (cuckoopath_search_settled c hash Hc mode t (hashpower t) i1 i2 (se_mig _ _ _ St)) as [r Er].
  rewrite Er in *. destruct r as [[path depth]|].
  - destruct (cuckoopath_move c hash mode t path depth i1 i2) as [t2 [|]].
    + exists t2. right. eexists _, _. reflexivity.
    + exfalso. apply H. reflexivity.
  - exists t. left. split; reflexivity.
Qed.

(* N2 *)
Theorem cuckoo_insert_no_fuel mode t k i1 i2 :
  settled t -> snd (cuckoo_insert c hash mode t k i1 i2) <> CI_fuel.
Proof.
  intro St. unfold cuckoo_insert.
  destruct (try_find_insert_bucket c (cur t) i1 (hashed_partial hash k) k 0 (N.to_nat (spb c)) None)
    as [[|] r1]; [|cbn [snd]; discriminate].
  destruct (try_find_insert_bucket c (cur t) i2 (hashed_partial hash k) k 0 (N.to_nat (spb c)) None)
    as [[|] r2]; [|cbn [snd]; discriminate].
  destruct r1 as [s1|]; [cbn [snd]; discriminate|].
  destruct r2 as [s2|]; [cbn [snd]; discriminate|].
  assert (H := run_cuckoo_no_fuel mode t i1 i2 St).
  destruct (run_cuckoo c hash mode t i1 i2) as [t1 [ib is_| |]]; cbn [snd] in H |- *.
  - destruct (pstatus (cuckoo_find c t1 k (hashed_partial hash k) i1 i2)); cbn [snd]; discriminate.
  - discriminate.
  - exfalso. apply H. reflexivity.
Qed.

Corollary cuckoo_insert_pos mode t k i1 i2 :
  settled t -> exists t' pos, cuckoo_insert c hash mode t k i1 i2 = (t', CI_pos pos).
Proof.
  intro St. assert (H := cuckoo_insert_no_fuel mode t k i1 i2 St).
  destruct (cuckoo_insert c hash mode t k i1 i2) as [t' [pos|]]; cbn [snd] in H.
  - exists t', pos. reflexivity.
  - exfalso. apply H. reflexivity.
Qed.

(* ================================================================== H. N3: the insert loop *)

Notation fd_ok := (fd_ok c hash).
Notation i1_of := (i1_of hash).
Notation i2_of := (i2_of hash).

(* check_resize_validity only ever raises the two policy exceptions *)
Lemma crv_not_fuel auto t o n : check_resize_validity c auto t o n <> inl (Some EOutOfFuel).
Proof.
  unfold check_resize_validity.
  destruct (negb (mhp t =? NO_MAXIMUM_HASHPOWER) && (mhp t <? n)); [discriminate|].
  destruct (auto && lf_lt_mlf c t); [discriminate|].
  destruct (negb (hashpower t =? o)); discriminate.
Qed.

(* the in-place doubling of a nothrow type consumes one unit of resize fuel and no more *)
Theorem fast_double_nothrow_no_fuel n auto mode t hp :
  nothrow c = true -> snd (fast_double_f c hash (S n) auto mode t hp) <> inl EOutOfFuel.
Proof.
  intro Hnt. rewrite (fast_double_f_nothrow_unfold c hash n auto mode t hp Hnt).
  assert (H := crv_not_fuel auto t hp (hp + 1)).
  destruct (check_resize_validity c auto t hp (hp + 1)) as [[e|]|st].
  - cbn [snd]. intro E. apply H. injection E as ->. reflexivity.
  - cbn [snd]. discriminate.
  - destruct st; cbn [snd]; discriminate.
Qed.

(* where an EOutOfFuel of the insert loop comes from: with fuel covering the distance to
   hashpower 60 it can only be handed up from the expansion function *)
Lemma insert_loop_fuel_origin lim fd mode :
  fd_ok lim fd mode ->
  forall fuel t k, good t -> lim (mhp t) -> 60 <= N.of_nat fuel + bhp (cur t) ->
  forall t',
  cuckoo_insert_loop c hash fd mode t k (i1_of (bhp (cur t)) k) (i2_of (bhp (cur t)) k) fuel
    = (t', IL_exn EOutOfFuel) ->
  esc t \/
  exists t1, evolves t t1 /\ snd (fd mode t1 (bhp (cur t1))) = inl EOutOfFuel.
Proof.
  intro Hfd. induction fuel as [|f IH]; intros t k G Hl Hfuel t' E.
  - exfalso. destruct G as [_ [_ [Hb _]]]. lia.
  - assert (St : settled t) by (destruct G as [St _]; exact St).
    cbn [cuckoo_insert_loop] in E.
    destruct (cuckoo_insert_pos mode t k (i1_of (bhp (cur t)) k) (i2_of (bhp (cur t)) k) St)
      as [t1 [pos E1]].
    destruct (cuckoo_insert_spec c hash Hc mode t k St) as [t1' [r1 [E1' [Hsc _]]]].
    cbv zeta in E1'. rewrite E1 in E1'. injection E1' as <- <-.
    destruct (cuckoo_insert_status c hash Hc mode t k t1 pos St E1) as [_ Hst].
    rewrite E1 in E.
    destruct (good_same_contents c hash t t1 G Hsc) as [Ev1 Hhp1].
    destruct Hst as [Hs|[Hs|Hs]]; rewrite Hs in E; [discriminate|discriminate|].
    assert (G1 := evolves_good c hash _ _ Ev1). assert (L1 := evolves_lim c hash _ _ Ev1).
    assert (Hl1 : lim (mhp t1)) by (destruct L1 as [_ [_ [E3 _]]]; rewrite E3; exact Hl).
    assert (Hp := Hfd t1 G1 Hl1). rewrite hashpower_eq, <- Hhp1 in E.
    destruct (fd mode t1 (bhp (cur t1))) as [t2 r2] eqn:Efd. unfold fd_post in Hp. cbn [fst snd] in Hp.
    destruct Hp as [He|Hp]; [left; eapply esc_evolves; eassumption|].
    destruct r2 as [e|st].
    { injection E as <- <-. right. exists t1. split; [exact Ev1|]. rewrite Efd. reflexivity. }
    destruct st; try contradiction. destruct Hp as [Ev2 Hlt].
    assert (Ev02 : evolves t t2) by (eapply evolves_trans; eassumption).
    assert (G2 := evolves_good c hash _ _ Ev2).
    assert (St2 : settled t2) by (destruct G2 as [St2 _]; exact St2).
    rewrite (snapshot_and_lock_two_settled c hash mode t2 k (se_mig _ _ _ St2)) in E.
    rewrite hashpower_eq in E.
    assert (Hl2 : lim (mhp t2)).
    { destruct (evolves_lim c hash _ _ Ev02) as [_ [_ [E3 _]]]. rewrite E3. exact Hl. }
    destruct (IH t2 k G2 Hl2 ltac:(lia) t' E) as [He|[t3 [Ev3 H3]]].
    + left. eapply esc_evolves; eassumption.
    + right. exists t3. split; [eapply evolves_trans; eassumption|exact H3].
Qed.

(* an expansion function that never reports EOutOfFuel on good tables *)
Definition fd_nofuel (lim : N -> Prop) (fd : bool -> table -> N -> rres) (mode : bool) : Prop :=
  forall t, good t -> lim (mhp t) -> snd (fd mode t (bhp (cur t))) <> inl EOutOfFuel.

Lemma insert_loop_no_fuel_gen lim fd mode :
  fd_ok lim fd mode -> fd_nofuel lim fd mode ->
  forall fuel t k, good t -> lim (mhp t) -> 60 <= N.of_nat fuel + bhp (cur t) ->
  forall t' res,
  cuckoo_insert_loop c hash fd mode t k (i1_of (bhp (cur t)) k) (i2_of (bhp (cur t)) k) fuel = (t', res) ->
  esc t \/ res <> IL_exn EOutOfFuel.
Proof.
  intros Hfd Hnf fuel t k G Hl Hfuel t' res E.
  destruct res as [pos j1 j2|e]; [right; discriminate|].
  destruct e; try (right; discriminate).
  destruct (insert_loop_fuel_origin lim fd mode Hfd fuel t k G Hl Hfuel t' E) as [He|[t1 [Ev H1]]];
    [left; exact He|].
  exfalso. apply (Hnf t1 (evolves_good c hash _ _ Ev)); [|exact H1].
  destruct (evolves_lim c hash _ _ Ev) as [_ [_ [E3 _]]]. rewrite E3. exact Hl.
Qed.

Lemma fd_nofuel_nothrow n mode lim :
  nothrow c = true -> fd_nofuel lim (fast_double_f c hash (S n) true) mode.
Proof. intros Hnt t _ _. apply fast_double_nothrow_no_fuel. exact Hnt. Qed.

(* N3 *)
Theorem insert_loop_no_fuel mode t k :
  nothrow c = true -> good t -> immediate c mode t ->
  forall t' res,
  cuckoo_insert_loop c hash (cuckoo_fast_double c hash) mode t k
    (i1_of (bhp (cur t)) k) (i2_of (bhp (cur t)) k) insert_loop_fuel = (t', res) ->
  esc t \/ res <> IL_exn EOutOfFuel.
Proof.
  intros Hnt G Him t' res E.
  apply (insert_loop_no_fuel_gen _ _ mode (fd_ok_cuckoo_fast_double c hash Hc mode Hnt)
           (fd_nofuel_nothrow 5 mode _ Hnt) insert_loop_fuel t k G Him) with (t' := t'); [|exact E].
  unfold insert_loop_fuel. lia.
Qed.

(* without the escape clause when the maximum hashpower is capped *)
Corollary insert_loop_no_fuel_capped mode t k :
  nothrow c = true -> good t -> immediate c mode t -> mhp t <= 59 ->
  forall t' res,
  cuckoo_insert_loop c hash (cuckoo_fast_double c hash) mode t k
    (i1_of (bhp (cur t)) k) (i2_of (bhp (cur t)) k) insert_loop_fuel = (t', res) ->
  res <> IL_exn EOutOfFuel.
Proof.
  intros Hnt G Him Hcap t' res E.
  destruct (insert_loop_no_fuel mode t k Hnt G Him t' res E) as [He|H]; [|exact H].
  exfalso. exact (esc_capped c hash t Hcap He).
Qed.

(* ------------------------------------------------------------------ the API level *)

Lemma finish_inr t3 b s ins g : exists t' x, finish c t3 b s ins g = (t', inr x).
Proof.
  unfold finish. destruct (g (val_at t3 b s) ins) as [[v' er]|]; eexists _, _; reflexivity.
Qed.

(* an exception of uprase_f is an exception of its insert loop *)
Lemma uprase_f_exn fuel fd mode t k v g t' e :
  settled t -> uprase_f c hash fuel fd mode t k v g = (t', inl e) ->
  cuckoo_insert_loop c hash fd mode t k (i1_of (bhp (cur t)) k) (i2_of (bhp (cur t)) k) fuel
    = (t', IL_exn e).
Proof.
  intros St E. rewrite (uprase_f_finish c hash fuel fd mode t k v g St) in E.
  destruct (cuckoo_insert_loop c hash fd mode t k (i1_of (bhp (cur t)) k) (i2_of (bhp (cur t)) k) fuel)
    as [t2 [pos j1 j2|e']].
  - exfalso. destruct (pstatus pos);
      match type of E with finish c ?a ?b ?s ?i ?g = _ =>
        destruct (finish_inr a b s i g) as [t'' [x Ex]]; rewrite Ex in E; discriminate end.
  - injection E as <- <-. reflexivity.
Qed.

Theorem uprase_gen_no_fuel mode t k v g :
  nothrow c = true -> good t -> immediate c mode t ->
  esc t \/ snd (uprase_gen c hash mode t k v g) <> inl EOutOfFuel.
Proof.
  intros Hnt G Him. assert (St : settled t) by (destruct G as [St _]; exact St).
  destruct (uprase_gen c hash mode t k v g) as [t' r] eqn:E. cbn [snd].
  destruct r as [e|x]; [|right; discriminate].
  destruct e; try (right; discriminate).
  rewrite uprase_gen_eq in E. unfold uprase_with in E.
  apply (uprase_f_exn _ _ _ _ _ _ _ _ _ St) in E.
  destruct (insert_loop_no_fuel mode t k Hnt G Him t' _ E) as [He|H]; [left; exact He|].
  exfalso. apply H. reflexivity.
Qed.

Corollary uprase_gen_no_fuel_capped mode t k v g :
  nothrow c = true -> good t -> immediate c mode t -> mhp t <= 59 ->
  snd (uprase_gen c hash mode t k v g) <> inl EOutOfFuel.
Proof.
  intros Hnt G Him Hcap.
  destruct (uprase_gen_no_fuel mode t k v g Hnt G Him) as [He|H]; [|exact H].
  exfalso. exact (esc_capped c hash t Hcap He).
Qed.

(* a present key never reaches the expansion at all *)
Theorem uprase_gen_present_no_exn mode t k v g :
  good t -> key_in (cur t) k -> forall e, snd (uprase_gen c hash mode t k v g) <> inl e.
Proof.
  intros G Hk e. assert (St : settled t) by (destruct G as [St _]; exact St).
  destruct (uprase_gen c hash mode t k v g) as [t' r] eqn:E. cbn [snd]. intros ->.
  rewrite uprase_gen_eq in E. unfold uprase_with in E.
  apply (uprase_f_exn _ _ _ _ _ _ _ _ _ St) in E. rewrite insert_loop_fuel_S in E.
  destruct (insert_loop_present c hash Hc _ mode t k _ G Hk t' _ E) as [pos [H _]]. discriminate.
Qed.

End NoFuel.
