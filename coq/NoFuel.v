(* Fuel is never exhausted in single-threaded executions on well-formed tables.

   The loops of the C++ are modelled with fuel (Core.v).  The refinement theorems of InsertLemmas.v
   and Refine.v allow "out of fuel" as an outcome; this file closes that gap:

   N1  run_cuckoo never returns RC_fuel on a settled table: the path found by the BFS on a table is
       executed successfully on that same table at the first attempt (the BFS returns a path whose
       buckets are pairwise distinct, because it is a SHORTEST path), so the while loop runs once.
       (sections A-G: run_cuckoo_loop_once, run_cuckoo_no_fuel)
   N2  cuckoo_insert never returns CI_fuel on a settled table (cuckoo_insert_no_fuel).
   L   N1 and N2 again for normal mode on a table with DEFERRED migration (invariant [wf] of
       Lazy.v), where the search itself migrates stripes (run_cuckoo_no_fuel_wf,
       cuckoo_insert_no_fuel_wf).
   N3  (H, I) the insert loop / uprase_gen / fast_double / rehash / reserve never report
       EOutOfFuel for nothrow types, short of the explicit escape clause [esc] of Refine.v
       (insert_loop_no_fuel, uprase_gen_no_fuel, cuckoo_expand_simple_no_fuel, ...).
   M   fuel monotonicity of run_cuckoo_loop, cuckoo_insert_loop, fast_double_f/expand_simple_f
       (no invariant needed): a run that did not run out of fuel is the run at every larger fuel.
   N4  (I, J) for throwing types: an EOutOfFuel of a rebuild is an EOutOfFuel of an automatic
       expansion of its temporary map (expand_simple_fuel_origin); fuel n can only be exhausted
       when about n/2 nested doublings fit below the maximum hashpower (fuel_room_all).

   The pathcode is a 16-bit integer: for SLOT_PER_BUCKET <= 8 (cfg_ok) the code of a path of
   length 5 is below 2 * 8^5 = 2^16 and never wraps (enc_small); N1 relies on it.             *)
From Coq Require Import NArith ZArith List Bool Lia FMapPositive.
From LC Require Import gen.HashGen Bits Core Api InvDefs ArrLemmas Stats InsertLemmas Resize Iter Refine Lazy.
Import ListNotations.
Local Open Scope N_scope.

Section NoFuel.
Variable c : config.
Variable hash : N -> N.
Hypothesis Hc : cfg_ok c.

Notation arr_ok := (arr_ok c hash).
Notation settled := (settled c hash).
Notation same_contents := (same_contents c hash).
Notation good := (good c hash).
Notation evolves := (evolves c hash).
Notation esc := (esc c hash).

Let spb_pos : 0 < spb c := co_spb _ Hc.
Let spb_le8 : spb c <= 8 := co_spb_max _ Hc.

(* ================================================================== A. path codes *)

(* the path code of the BFS: root choice (0/1) followed by one base-spb digit per slot *)
Definition enc (code : N) (slots : list N) : N := fold_left (fun p s => p * spb c + s) slots code.

Lemma enc_snoc code l s : enc code (l ++ [s]) = enc code l * spb c + s.
Proof. unfold enc. rewrite fold_left_app. reflexivity. Qed.

Definition lt_spb (s : N) : Prop := s < spb c.

Lemma enc_bound code : code <= 1 -> forall l, Forall lt_spb l ->
  enc code l + 1 <= 2 * spb c ^ N.of_nat (length l).
Proof.
  intros Hcode l. induction l as [|s l IH] using rev_ind; intro Hf.
  - cbn. lia.
  - apply Forall_app in Hf. destruct Hf as [Hl Hs]. inversion Hs as [|s0 r0 Hs0 _]; subst s0 r0.
    unfold lt_spb in Hs0. specialize (IH Hl). rewrite enc_snoc, app_length. cbn [length].
    replace (N.of_nat (length l + 1)) with (N.succ (N.of_nat (length l))) by lia.
    rewrite N.pow_succ_r'. set (P := spb c ^ N.of_nat (length l)) in *. set (E := enc code l) in *.
    assert (H1 : (E + 1) * spb c <= 2 * P * spb c) by (apply N.mul_le_mono_r; exact IH).
    lia.
Qed.

Lemma pow_spb_le n : n <= 5 -> 2 * spb c ^ n <= 65536.
Proof.
  intro H. change 65536 with (2 * 8 ^ 5). apply N.mul_le_mono_l.
  transitivity (8 ^ n).
  - apply N.pow_le_mono_l. exact spb_le8.
  - apply N.pow_le_mono_r; lia.
Qed.

Lemma enc_small code l : code <= 1 -> Forall lt_spb l -> (length l <= 5)%nat -> enc code l < 2 ^ 16.
Proof.
  intros Hcode Hf Hl. assert (H := enc_bound code Hcode l Hf).
  assert (H2 := pow_spb_le (N.of_nat (length l))). change (2 ^ 16) with 65536. lia.
Qed.

Lemma decode_enc code : forall l acc, Forall lt_spb l ->
  decode_slots c (enc code l) (length l) acc = (l ++ acc, code).
Proof.
  intro l. induction l as [|s l IH] using rev_ind; intros acc Hf.
  - reflexivity.
  - apply Forall_app in Hf. destruct Hf as [Hl Hs]. inversion Hs as [|s0 r0 Hs0 _]; subst s0 r0.
    unfold lt_spb in Hs0. rewrite app_length. cbn [length]. rewrite Nat.add_1_r.
    cbn [decode_slots]. rewrite enc_snoc.
    assert (Hnz : spb c <> 0) by lia.
    replace ((enc code l * spb c + s) / spb c) with (enc code l).
    2:{ apply (N.div_unique _ _ _ s); [exact Hs0|lia]. }
    replace ((enc code l * spb c + s) mod spb c) with s.
    2:{ apply (N.mod_unique _ _ (enc code l)); [exact Hs0|lia]. }
    rewrite (IH (s :: acc) Hl). rewrite <- app_assoc. reflexivity.
Qed.

(* ================================================================== B. walks through the table *)

(* follow a list of slots from bucket b: every slot visited must be occupied; the next bucket is
   the alternate bucket of the occupant (computed from its stored tag, as the BFS does) *)
Fixpoint walk (a : barray) (hp b : N) (slots : list N) : option N :=
  match slots with
  | [] => Some b
  | s :: rest =>
    match bget a b s with
    | Some e => walk a hp (alt_index hp (epart e) b) rest
    | None => None
    end
  end.

Lemma walk_app a hp : forall l b l',
  walk a hp b (l ++ l') = match walk a hp b l with Some b' => walk a hp b' l' | None => None end.
Proof.
  induction l as [|s l IH]; intros b l'; [reflexivity|].
  cbn [app walk]. destruct (bget a b s) as [e|]; [apply IH|reflexivity].
Qed.

Lemma walk_snoc a hp b l s B e :
  walk a hp b l = Some B -> bget a B s = Some e ->
  walk a hp b (l ++ [s]) = Some (alt_index hp (epart e) B).
Proof. intros H1 H2. rewrite walk_app, H1. cbn [walk]. rewrite H2. reflexivity. Qed.

Definition full (a : barray) (b : N) : Prop := forall s, s < spb c -> bget a b s <> None.

Definition root (i1 i2 code : N) : N := if code =? 0 then i1 else i2.

(* ================================================================== C. one dequeue of the BFS *)

Definition child (hp : N) (x : b_slot) (slot : N) (e : entry) : b_slot :=
  {| qbucket := alt_index hp (epart e) (qbucket x);
     qpathcode := wrap 16 (qpathcode x * spb c + slot);
     qdepth := qdepth x + 1 |}.

Lemma scan_unfold n t hp x start i acc :
  slot_search_scan c t hp x start i (S n) acc =
  let slot := (start + i) mod spb c in
  match bget (cur t) (qbucket x) slot with
  | None => (Some {| qbucket := qbucket x; qpathcode := wrap 16 (qpathcode x * spb c + slot);
                     qdepth := qdepth x |}, acc)
  | Some e =>
    slot_search_scan c t hp x start (i + 1) n
      (if qdepth x <? 4 then acc ++ [child hp x slot e] else acc)
  end.
Proof. reflexivity. Qed.

Lemma scan_incl : forall n t hp x start i acc y,
  In y acc -> In y (snd (slot_search_scan c t hp x start i n acc)).
Proof.
  induction n as [|n IH]; intros t hp x start i acc y Hy; [exact Hy|].
  rewrite scan_unfold. cbv zeta.
  destruct (bget (cur t) (qbucket x) ((start + i) mod spb c)) as [e|]; [|exact Hy].
  apply IH. destruct (qdepth x <? 4); [apply in_or_app; left; exact Hy|exact Hy].
Qed.

Lemma scan_form : forall n t hp x start i acc y,
  In y (snd (slot_search_scan c t hp x start i n acc)) ->
  In y acc \/
  (qdepth x < 4 /\ exists s e, s < spb c /\ bget (cur t) (qbucket x) s = Some e /\ y = child hp x s e).
Proof.
  induction n as [|n IH]; intros t hp x start i acc y Hy; [left; exact Hy|].
  rewrite scan_unfold in Hy. cbv zeta in Hy.
  destruct (bget (cur t) (qbucket x) ((start + i) mod spb c)) as [e|] eqn:Eb; [|left; exact Hy].
  apply IH in Hy. destruct Hy as [Hy|Hy]; [|right; exact Hy].
  destruct (N.ltb_spec (qdepth x) 4) as [L|L]; [|left; exact Hy].
  apply in_app_or in Hy. destruct Hy as [Hy|[Hy|[]]]; [left; exact Hy|right].
  split; [exact L|]. exists ((start + i) mod spb c), e.
  split; [apply N.mod_lt; lia|]. split; [exact Eb|symmetry; exact Hy].
Qed.

Lemma scan_none : forall n t hp x start i acc ch,
  slot_search_scan c t hp x start i n acc = (None, ch) ->
  forall j, i <= j < i + N.of_nat n ->
  exists e, bget (cur t) (qbucket x) ((start + j) mod spb c) = Some e /\
            (qdepth x < 4 -> In (child hp x ((start + j) mod spb c) e) ch).
Proof.
  induction n as [|n IH]; intros t hp x start i acc ch E j Hj; [lia|].
  rewrite scan_unfold in E. cbv zeta in E.
  destruct (bget (cur t) (qbucket x) ((start + i) mod spb c)) as [e|] eqn:Eb; [|discriminate].
  destruct (N.eq_dec j i) as [->|Hne].
  - exists e. split; [exact Eb|]. intro L.
    assert (H := scan_incl n t hp x start (i + 1)
                   (if qdepth x <? 4 then acc ++ [child hp x ((start + i) mod spb c) e] else acc)
                   (child hp x ((start + i) mod spb c) e)).
    rewrite E in H. cbn [snd] in H. apply H.
    apply N.ltb_lt in L. rewrite L. apply in_or_app. right. left. reflexivity.
  - apply (IH _ _ _ _ _ _ _ E). lia.
Qed.

Lemma scan_found : forall n t hp x start i acc r ch,
  slot_search_scan c t hp x start i n acc = (Some r, ch) ->
  exists s, s < spb c /\ bget (cur t) (qbucket x) s = None /\
    r = {| qbucket := qbucket x; qpathcode := wrap 16 (qpathcode x * spb c + s); qdepth := qdepth x |}.
Proof.
  induction n as [|n IH]; intros t hp x start i acc r ch E; [discriminate|].
  rewrite scan_unfold in E. cbv zeta in E.
  destruct (bget (cur t) (qbucket x) ((start + i) mod spb c)) as [e|] eqn:Eb.
  - apply IH in E. exact E.
  - injection E as <- _. exists ((start + i) mod spb c).
    split; [apply N.mod_lt; lia|]. split; [exact Eb|reflexivity].
Qed.

(* a complete scan visits every slot of the bucket *)
Lemma scan_covers start s : start < spb c -> s < spb c ->
  exists j, 0 <= j < 0 + N.of_nat (N.to_nat (spb c)) /\ (start + j) mod spb c = s.
Proof.
  intros H1 H2. destruct (N.le_gt_cases start s) as [L|L].
  - exists (s - start). split; [lia|]. replace (start + (s - start)) with s by lia.
    apply N.mod_small. exact H2.
  - exists (s + spb c - start). split; [lia|].
    replace (start + (s + spb c - start)) with (s + 1 * spb c) by lia.
    rewrite N.mod_add by lia. apply N.mod_small. exact H2.
Qed.

Lemma scan_none_full t hp x ch :
  slot_search_scan c t hp x (qpathcode x mod spb c) 0 (N.to_nat (spb c)) [] = (None, ch) ->
  forall s, s < spb c ->
  exists e, bget (cur t) (qbucket x) s = Some e /\ (qdepth x < 4 -> In (child hp x s e) ch).
Proof.
  intros E s Hs.
  assert (Hst : qpathcode x mod spb c < spb c) by (apply N.mod_lt; lia).
  destruct (scan_covers _ s Hst Hs) as [j [Hj Ej]].
  destruct (scan_none _ _ _ _ _ _ _ _ E j Hj) as [e He]. rewrite Ej in He. exists e. exact He.
Qed.

(* ================================================================== D. the BFS returns a shortest walk *)

Section BFS.
Variable t : table.
Variable hp i1 i2 : N.

Notation a := (cur t).

(* bucket B is reached from one of the two roots by a walk of m hops *)
Definition reach (m : nat) (B : N) : Prop :=
  exists code slots, code <= 1 /\ Forall lt_spb slots /\ length slots = m /\
    walk a hp (root i1 i2 code) slots = Some B.

(* a queue node stands for a real walk, and its path code encodes that walk *)
Definition node_ok (y : b_slot) : Prop :=
  qdepth y <= 4 /\
  exists code slots, code <= 1 /\ Forall lt_spb slots /\ length slots = N.to_nat (qdepth y) /\
    qpathcode y = enc code slots /\ walk a hp (root i1 i2 code) slots = Some (qbucket y).

(* every walk of at most 4 hops either ends in a full bucket or still has a prefix in the queue *)
Definition covered (q : list b_slot) : Prop :=
  forall m B, reach m B -> (m <= 4)%nat ->
    full a B \/
    exists y suf, In y q /\ Forall lt_spb suf /\ walk a hp (qbucket y) suf = Some B /\
                  (N.to_nat (qdepth y) + length suf = m)%nat.

(* FIFO order: the queue holds nodes of depth d followed by nodes of depth d+1 *)
Definition layered (d : N) (q : list b_slot) : Prop :=
  exists q1 q2, q = q1 ++ q2 /\ Forall (fun y => qdepth y = d) q1 /\ Forall (fun y => qdepth y = d + 1) q2.

Lemma layered_head d x r y : layered d (x :: r) -> In y (x :: r) -> qdepth x <= qdepth y.
Proof.
  intros [q1 [q2 [E [F1 F2]]]] Hy. destruct q1 as [|x1 q1'].
  - cbn [app] in E. subst q2. rewrite Forall_forall in F2.
    rewrite (F2 x (or_introl eq_refl)), (F2 y Hy). lia.
  - cbn [app] in E. injection E as <- ->. inversion F1 as [|x0 r0 Hx F1']; subst x0 r0.
    rewrite Forall_forall in F1', F2. rewrite Hx. destruct Hy as [<-|Hy]; [lia|].
    apply in_app_or in Hy. destruct Hy as [Hy|Hy]; [rewrite (F1' y Hy)|rewrite (F2 y Hy)]; lia.
Qed.

Lemma layered_step d x r ch :
  layered d (x :: r) -> Forall (fun y => qdepth y = qdepth x + 1) ch -> exists d', layered d' (r ++ ch).
Proof.
  intros [q1 [q2 [E [F1 F2]]]] Fc. destruct q1 as [|x1 q1'].
  - cbn [app] in E. subst q2. inversion F2 as [|x0 r0 Hx F2']; subst x0 r0.
    exists (d + 1), r, ch. split; [reflexivity|]. split; [exact F2'|]. rewrite <- Hx. exact Fc.
  - cbn [app] in E. injection E as <- ->. inversion F1 as [|x0 r0 Hx F1']; subst x0 r0.
    exists d, q1', (q2 ++ ch). split; [rewrite app_assoc; reflexivity|]. split; [exact F1'|].
    apply Forall_app. split; [exact F2|]. rewrite <- Hx. exact Fc.
Qed.

Lemma children_depth x ch :
  slot_search_scan c t hp x (qpathcode x mod spb c) 0 (N.to_nat (spb c)) [] = (None, ch) ->
  Forall (fun y => qdepth y = qdepth x + 1) ch.
Proof.
  intro E. apply Forall_forall. intros y Hy.
  assert (H := scan_form (N.to_nat (spb c)) t hp x (qpathcode x mod spb c) 0 [] y).
  rewrite E in H. cbn [snd] in H. destruct (H Hy) as [[]|[_ [s [e [_ [_ ->]]]]]]. reflexivity.
Qed.

Lemma child_ok x s e :
  node_ok x -> qdepth x < 4 -> s < spb c -> bget a (qbucket x) s = Some e -> node_ok (child hp x s e).
Proof.
  intros [_ [code [slots [Hcode [Hf [Hl [Hp Hw]]]]]]] Hd Hs He.
  split; [cbn [child qdepth]; lia|].
  assert (Hf' : Forall lt_spb (slots ++ [s])).
  { apply Forall_app. split; [exact Hf|]. constructor; [exact Hs|constructor]. }
  exists code, (slots ++ [s]). split; [exact Hcode|]. split; [exact Hf'|].
  split; [rewrite app_length; cbn [length child qdepth]; lia|].
  split.
  - cbn [child qpathcode]. rewrite Hp, <- enc_snoc. apply wrap_small.
    apply enc_small; [exact Hcode|exact Hf'|]. rewrite app_length. cbn [length]. lia.
  - cbn [child qbucket]. apply walk_snoc; assumption.
Qed.

Lemma children_ok x ch :
  node_ok x ->
  slot_search_scan c t hp x (qpathcode x mod spb c) 0 (N.to_nat (spb c)) [] = (None, ch) ->
  Forall node_ok ch.
Proof.
  intros Hx E. apply Forall_forall. intros y Hy.
  assert (H := scan_form (N.to_nat (spb c)) t hp x (qpathcode x mod spb c) 0 [] y).
  rewrite E in H. cbn [snd] in H. destruct (H Hy) as [[]|[Hd [s [e [Hs [He ->]]]]]].
  apply child_ok; assumption.
Qed.

Lemma covered_step x r ch :
  covered (x :: r) ->
  slot_search_scan c t hp x (qpathcode x mod spb c) 0 (N.to_nat (spb c)) [] = (None, ch) ->
  covered (r ++ ch).
Proof.
  intros Hcov E m B Hr Hm4.
  destruct (Hcov m B Hr Hm4) as [Hfull|[y [suf [Hy [Hf [Hw Hlen]]]]]]; [left; exact Hfull|].
  destruct Hy as [<-|Hy].
  2:{ right. exists y, suf. split; [apply in_or_app; left; exact Hy|]. split; [exact Hf|]. split; assumption. }
  destruct suf as [|s rest].
  - left. cbn [walk] in Hw. injection Hw as <-. intros s Hs.
    destruct (scan_none_full t hp x ch E s Hs) as [e [He _]]. rewrite He. discriminate.
  - right. inversion Hf as [|s0 r0 Hs Hf']; subst s0 r0.
    destruct (scan_none_full t hp x ch E s Hs) as [e [He Hin]].
    cbn [walk] in Hw. rewrite He in Hw. cbn [length] in Hlen.
    exists (child hp x s e), rest. split.
    + apply in_or_app. right. apply Hin. lia.
    + split; [exact Hf'|]. split; [exact Hw|]. cbn [child qdepth]. lia.
Qed.

(* what the BFS returns: the encoding of a walk to a bucket with an empty slot such that no
   strictly shorter walk (from either root) reaches that bucket *)
Definition bfs_answer (r : b_slot) : Prop :=
  qdepth r <= 4 /\
  exists code slots s, code <= 1 /\ Forall lt_spb slots /\ s < spb c /\
    length slots = N.to_nat (qdepth r) /\
    qpathcode r = enc code (slots ++ [s]) /\
    walk a hp (root i1 i2 code) slots = Some (qbucket r) /\
    bget a (qbucket r) s = None /\
    forall m, (m < length slots)%nat -> ~ reach m (qbucket r).

(* the dequeued bucket has an empty slot *)
Lemma answer_of_scan d x q' r0 ch :
  node_ok x -> covered (x :: q') -> layered d (x :: q') ->
  slot_search_scan c t hp x (qpathcode x mod spb c) 0 (N.to_nat (spb c)) [] = (Some r0, ch) ->
  bfs_answer r0 /\ qbucket r0 = qbucket x /\ qdepth r0 = qdepth x.
Proof.
  intros Hx Hcov Hlay Es.
  destruct (scan_found _ _ _ _ _ _ _ _ _ Es) as [s [Hs [He ->]]].
  split; [|split; reflexivity].
  destruct Hx as [Hd4 [code [slots [Hcode [Hf [Hl [Hp Hw]]]]]]].
  split; [exact Hd4|]. exists code, slots, s. cbn [qdepth qpathcode qbucket].
  split; [exact Hcode|]. split; [exact Hf|]. split; [exact Hs|]. split; [exact Hl|].
  split.
  { rewrite Hp, <- enc_snoc. apply wrap_small.
    apply enc_small; [exact Hcode| |rewrite app_length; cbn [length]; lia].
    apply Forall_app. split; [exact Hf|]. constructor; [exact Hs|constructor]. }
  split; [exact Hw|]. split; [exact He|].
  intros m Hlt Hr.
  destruct (Hcov m (qbucket x) Hr) as [Hfull|[y [suf [Hy [_ [_ Hlen]]]]]]; [lia| |].
  - apply (Hfull s Hs). exact He.
  - assert (Hle := layered_head d x q' y Hlay Hy). lia.
Qed.

(* the dequeued bucket is full *)
Lemma inv_step d x q' ch :
  Forall node_ok (x :: q') -> covered (x :: q') -> layered d (x :: q') ->
  slot_search_scan c t hp x (qpathcode x mod spb c) 0 (N.to_nat (spb c)) [] = (None, ch) ->
  Forall node_ok (q' ++ ch) /\ covered (q' ++ ch) /\ exists d', layered d' (q' ++ ch).
Proof.
  intros Hn Hcov Hlay Es. inversion Hn as [|x0 q0 Hx Hn']; subst x0 q0.
  split; [|split].
  - apply Forall_app. split; [exact Hn'|]. apply (children_ok x ch Hx Es).
  - apply (covered_step x q' ch Hcov Es).
  - apply (layered_step d x q' ch Hlay). apply (children_depth x ch Es).
Qed.

Lemma bfs_init_inv :
  Forall node_ok (bfs_init i1 i2) /\ covered (bfs_init i1 i2) /\ exists d, layered d (bfs_init i1 i2).
Proof.
  split; [|split].
  - constructor; [|constructor; [|constructor]]; (split; [cbn [qdepth]; lia|]).
    + exists 0, []. repeat split; try reflexivity; try lia. constructor.
    + exists 1, []. repeat split; try reflexivity; try lia. constructor.
  - intros m B [code [slots [Hcode [Hf [Hl Hw]]]]] _. right.
    assert (Hc01 : code = 0 \/ code = 1) by lia. destruct Hc01 as [-> | ->].
    + exists {| qbucket := i1; qpathcode := 0; qdepth := 0 |}, slots.
      split; [left; reflexivity|]. split; [exact Hf|]. split; [exact Hw|]. cbn [qdepth]. lia.
    + exists {| qbucket := i2; qpathcode := 1; qdepth := 0 |}, slots.
      split; [right; left; reflexivity|]. split; [exact Hf|]. split; [exact Hw|]. cbn [qdepth]. lia.
  - exists 0, (bfs_init i1 i2), []. split; [rewrite app_nil_r; reflexivity|].
    split; [|constructor]. constructor; [reflexivity|constructor; [reflexivity|constructor]].
Qed.

(* the table does not change during the search when nothing is left to migrate *)
Hypothesis Hm : all_migrated t.

Lemma bfs_loop_answer mode : forall fuel q t' r,
  Forall node_ok q -> covered q -> (exists d, layered d q) ->
  slot_search_loop c hash mode t hp q fuel = (t', Some r) -> bfs_answer r.
Proof.
  induction fuel as [|f IH]; intros q t' r Hn Hcov [d Hlay] E; [discriminate|].
  destruct q as [|x q']; [discriminate|].
  rewrite (slot_search_loop_step c hash mode t hp x q' f Hm) in E.
  destruct (slot_search_scan c t hp x (qpathcode x mod spb c) 0 (N.to_nat (spb c)) [])
    as [[r0|] ch] eqn:Es.
  - injection E as _ <-. inversion Hn as [|x0 q0 Hx Hn']; subst x0 q0.
    exact (proj1 (answer_of_scan d x q' r0 ch Hx Hcov Hlay Es)).
  - destruct (inv_step d x q' ch Hn Hcov Hlay Es) as [H1 [H2 H3]].
    exact (IH (q' ++ ch) t' r H1 H2 H3 E).
Qed.

Theorem slot_search_answer mode t' r :
  slot_search c hash mode t hp i1 i2 = (t', Some r) -> bfs_answer r.
Proof.
  unfold slot_search. fold (bfs_init i1 i2). intro E.
  destruct bfs_init_inv as [H1 [H2 H3]].
  exact (bfs_loop_answer mode _ _ t' r H1 H2 H3 E).
Qed.

End BFS.

(* ================================================================== E. the path rebuilt from the code *)

(* the records cuckoopath_search produces when it follows [slots] from bucket b: it stops at the
   first empty slot *)
Fixpoint trail (a : barray) (hp b : N) (slots : list N) : list cuckoo_record :=
  match slots with
  | [] => []
  | s :: rest =>
    match bget a b s with
    | Some e =>
      {| crbucket := b; crslot := s; crhash := hash (ekey e); crpartial := partial_key (hash (ekey e)) |}
      :: trail a hp (alt_index hp (partial_key (hash (ekey e))) b) rest
    | None => [{| crbucket := b; crslot := s; crhash := 0; crpartial := 0 |}]
    end
  end.

(* locking bucket b changes nothing (its stripe is migrated, or the table is in locked mode) *)
Definition lock_free (mode : bool) (t : table) (b : N) : Prop := lock_one c hash mode t b = t.

Lemma cps_loop_trail mode hp : forall slots t prev i acc, 1 <= i ->
  Forall (fun r => lock_free mode t (crbucket r))
         (trail (cur t) hp (alt_index hp (crpartial prev) (crbucket prev)) slots) ->
  cuckoopath_search_loop c hash mode t hp prev slots i acc =
  (t, rev (trail (cur t) hp (alt_index hp (crpartial prev) (crbucket prev)) slots) ++ acc,
   i + N.of_nat (length (trail (cur t) hp (alt_index hp (crpartial prev) (crbucket prev)) slots)) - 1).
Proof.
  induction slots as [|s rest IH]; intros t prev i acc Hi HF.
  - cbn [cuckoopath_search_loop trail rev app length]. f_equal. lia.
  - cbn [cuckoopath_search_loop trail] in HF |- *.
    set (b := alt_index hp (crpartial prev) (crbucket prev)) in *.
    destruct (bget (cur t) b s) as [e|] eqn:Eb.
    + inversion HF as [|r0 l0 Hb HF']; subst r0 l0. cbn [crbucket] in Hb. unfold lock_free in Hb.
      rewrite Hb, Eb.
      rewrite (IH t _ (i + 1) _) by (try lia; exact HF'). cbn [crpartial crbucket rev length].
      rewrite <- app_assoc. cbn [app]. f_equal. lia.
    + inversion HF as [|r0 l0 Hb HF']; subst r0 l0. cbn [crbucket] in Hb. unfold lock_free in Hb.
      rewrite Hb, Eb. cbn [rev app length]. f_equal. lia.
Qed.

Lemma cuckoopath_search_trail mode t hp i1 i2 t' x code slots s :
  slot_search c hash mode t hp i1 i2 = (t', Some x) ->
  Forall lt_spb slots -> s < spb c -> length slots = N.to_nat (qdepth x) ->
  qpathcode x = enc code (slots ++ [s]) ->
  let T := trail (cur t') hp (root i1 i2 code) (slots ++ [s]) in
  Forall (fun r => lock_free mode t' (crbucket r)) T ->
  cuckoopath_search c hash mode t hp i1 i2 = (t', Some (T, N.of_nat (length T) - 1)).
Proof.
  intros Es Hf Hs Hl Hp T HF. subst T. unfold cuckoopath_search. rewrite Es.
  assert (Hf' : Forall lt_spb (slots ++ [s])).
  { apply Forall_app. split; [exact Hf|]. constructor; [exact Hs|constructor]. }
  replace (S (N.to_nat (qdepth x))) with (length (slots ++ [s]))
    by (rewrite app_length; cbn [length]; lia).
  rewrite Hp, (decode_enc code (slots ++ [s]) [] Hf'), app_nil_r.
  destruct (slots ++ [s]) as [|s0 rest] eqn:El.
  { destruct slots; discriminate. }
  fold (root i1 i2 code). cbn [trail] in HF |- *.
  destruct (bget (cur t') (root i1 i2 code) s0) as [e|] eqn:Eb.
  - inversion HF as [|r0 l0 Hb HF']; subst r0 l0. cbn [crbucket] in Hb. unfold lock_free in Hb.
    rewrite Hb, Eb.
    rewrite (cps_loop_trail mode hp rest t' _ 1 _) by (try lia; exact HF'). cbn [crpartial crbucket].
    rewrite rev_app_distr, rev_involutive. cbn [rev app length]. do 3 f_equal. lia.
  - inversion HF as [|r0 l0 Hb HF']; subst r0 l0. cbn [crbucket] in Hb. unfold lock_free in Hb.
    rewrite Hb, Eb. reflexivity.
Qed.

Definition dflt_rec : cuckoo_record := {| crbucket := 0; crslot := 0; crhash := 0; crpartial := 0 |}.

(* along a walk that ends at an empty slot, the trail has one record per slot: the first ones
   are occupied and carry the hash of their occupant, the last one is the empty slot *)
Lemma trail_walk a hp :
  (forall b s e, bget a b s = Some e -> epart e = partial_key (hash (ekey e))) ->
  forall slots b B s, walk a hp b slots = Some B -> bget a B s = None ->
  let T := trail a hp b (slots ++ [s]) in
  length T = S (length slots) /\
  (forall j, (j < length slots)%nat ->
     exists Bj e, walk a hp b (firstn j slots) = Some Bj /\ bget a Bj (nth j slots 0) = Some e /\
       crbucket (nth j T dflt_rec) = Bj /\ crslot (nth j T dflt_rec) = nth j slots 0 /\
       crhash (nth j T dflt_rec) = hash (ekey e)) /\
  crbucket (nth (length slots) T dflt_rec) = B /\ crslot (nth (length slots) T dflt_rec) = s.
Proof.
  intro Ha. induction slots as [|s0 rest IH]; intros b B s Hw He T; subst T.
  - cbn [walk] in Hw. injection Hw as <-. cbn [app trail]. rewrite He. cbn [length nth].
    split; [reflexivity|]. split; [intros j Hj; lia|]. split; reflexivity.
  - cbn [walk] in Hw. cbn [app trail].
    destruct (bget a b s0) as [e0|] eqn:E0; [|discriminate].
    rewrite <- (Ha _ _ _ E0).
    destruct (IH _ B s Hw He) as [H1 [H2 [H3 H4]]]. cbv zeta in H1, H2, H3, H4.
    cbn [length]. split; [rewrite H1; reflexivity|]. split; [|split].
    + intros j Hj. destruct j as [|j'].
      * exists b, e0. cbn [firstn walk nth]. repeat split. exact E0.
      * destruct (H2 j') as [Bj [e [G1 [G2 [G3 [G4 G5]]]]]]; [lia|].
        exists Bj, e. cbn [firstn walk nth]. rewrite E0. repeat split; assumption.
    + cbn [nth]. exact H3.
    + cbn [nth]. exact H4.
Qed.

(* ================================================================== F. executing the path *)

(* taking the lock of bucket b is a no-op *)
Definition quiet (mode : bool) (t : table) (b : N) : Prop :=
  mode = true \/ mig (lock_at t (lockind c b)) = true.

Lemma rehash_lock_id lazy t l : mig (lock_at t l) = true -> rehash_lock c hash lazy t l = t.
Proof. intro H. unfold rehash_lock. rewrite H. reflexivity. Qed.

Ltac rl_id :=
  repeat match goal with
  | H : mig (lock_at ?t ?l) = true |- context [rehash_lock c hash ?z ?t ?l] =>
      rewrite (rehash_lock_id z t l H)
  end.

Lemma lock_one_quiet mode t b : quiet mode t b -> lock_one c hash mode t b = t.
Proof.
  intros [->|H]; [reflexivity|]. unfold lock_one. destruct mode; [reflexivity|].
  apply rehash_lock_id. exact H.
Qed.

Lemma lock_two_quiet mode t b1 b2 :
  quiet mode t b1 -> quiet mode t b2 -> lock_two c hash mode t b1 b2 = t.
Proof.
  intros [->|H1] H2; [reflexivity|]. destruct H2 as [->|H2]; [reflexivity|].
  unfold lock_two. destruct mode; [reflexivity|].
  destruct (lockind c b2 <? lockind c b1); rl_id; reflexivity.
Qed.

Lemma lock_three_quiet mode t b1 b2 b3 :
  quiet mode t b1 -> quiet mode t b2 -> quiet mode t b3 -> lock_three c hash mode t b1 b2 b3 = t.
Proof.
  intros [->|H1] H2 H3; [reflexivity|]. destruct H2 as [->|H2]; [reflexivity|].
  destruct H3 as [->|H3]; [reflexivity|].
  unfold lock_three. destruct mode; [reflexivity|].
  destruct (lockind c b3 <? lockind c b2);
    [destruct (lockind c b2 <? lockind c b1)|destruct (lockind c b3 <? lockind c b1)];
    [destruct (lockind c b3 <? lockind c b2)|destruct (lockind c b3 <? lockind c b1)
    |destruct (lockind c b2 <? lockind c b3)|destruct (lockind c b2 <? lockind c b1)];
    rl_id; reflexivity.
Qed.

Lemma quiet_settled mode t b : all_migrated t -> quiet mode t b.
Proof. intro H. right. apply lock_at_mig. exact H. Qed.

Section MoveOk.
Variable mode : bool.
Variable path : list cuckoo_record.
Variable i1 i2 : N.

Notation P j := (nth_rec path (N.of_nat j)).

(* the last slot is empty, the ones before hold the recorded elements, and no bucket repeats *)
Definition path_ready (a : barray) (depth : nat) : Prop :=
  bget a (crbucket (P depth)) (crslot (P depth)) = None /\
  (forall j, (j < depth)%nat ->
     exists e, bget a (crbucket (P j)) (crslot (P j)) = Some e /\ hash (ekey e) = crhash (P j)) /\
  (forall j j', (j < j' <= depth)%nat -> crbucket (P j) <> crbucket (P j')).

(* every lock the move takes is a no-op *)
Definition path_quiet (t : table) (depth : nat) : Prop :=
  quiet mode t i1 /\ quiet mode t i2 /\ forall j, (j <= depth)%nat -> quiet mode t (crbucket (P j)).

Lemma move_loop_step_quiet t d' :
  path_quiet t (S d') ->
  cuckoopath_move_loop c hash mode t path i1 i2 (S d') =
  let from := P d' in
  let to := P (S d') in
  match bget (cur t) (crbucket to) (crslot to), bget (cur t) (crbucket from) (crslot from) with
  | Some _, _ => (t, false)
  | None, None => (t, false)
  | None, Some e =>
    if negb (hash (ekey e) =? crhash from) then (t, false)
    else cuckoopath_move_loop c hash mode
           (set_cur t (bset (bset (cur t) (crbucket to) (crslot to)
                                  (Some {| ekey := ekey e; eval := eval e; epart := epart e; ehusk := false |}))
                            (crbucket from) (crslot from) None))
           path i1 i2 d'
  end.
Proof.
  intros [Q1 [Q2 Q]]. cbn [cuckoopath_move_loop].
  destruct (Nat.eqb (S d') 1).
  - rewrite (lock_three_quiet mode t _ _ _ Q1 Q2 (Q (S d') (le_n _))). reflexivity.
  - rewrite (lock_two_quiet mode t _ _ (Q d' (le_S _ _ (le_n _))) (Q (S d') (le_n _))). reflexivity.
Qed.

Lemma move_loop_ok : forall depth t, path_quiet t depth -> path_ready (cur t) depth ->
  snd (cuckoopath_move_loop c hash mode t path i1 i2 depth) = true.
Proof.
  induction depth as [|d' IH]; intros t HQ [Hto [Hocc Hdist]]; [reflexivity|].
  rewrite (move_loop_step_quiet t d' HQ). cbv zeta.
  rewrite Hto. destruct (Hocc d') as [e [He Hh]]; [lia|]. rewrite He, Hh, N.eqb_refl. cbn [negb].
  apply IH.
  - destruct HQ as [Q1 [Q2 Q]]. split; [exact Q1|]. split; [exact Q2|]. intros j Hj. apply (Q j). lia.
  - cbn [set_cur cur]. split; [apply bget_bset_eq|]. split.
    + intros j Hj. destruct (Hocc j) as [ej [Hej Hhj]]; [lia|]. exists ej. split; [|exact Hhj].
      rewrite bget_bset_other by (left; intro E; apply (Hdist j d'); [lia|symmetry; exact E]).
      rewrite bget_bset_other by (left; intro E; apply (Hdist j (S d')); [lia|symmetry; exact E]).
      exact Hej.
    + intros j j' Hj. apply Hdist. lia.
Qed.

Lemma move_ok_pos t depth :
  depth <> 0 -> path_quiet t (N.to_nat depth) -> path_ready (cur t) (N.to_nat depth) ->
  snd (cuckoopath_move c hash mode t path depth i1 i2) = true.
Proof.
  intros Nz HQ Hr. unfold cuckoopath_move. apply N.eqb_neq in Nz. rewrite Nz.
  apply move_loop_ok; assumption.
Qed.

Lemma move_ok_zero t :
  bget (cur (lock_two c hash mode t i1 i2)) (crbucket (P 0)) (crslot (P 0)) = None ->
  snd (cuckoopath_move c hash mode t path 0 i1 i2) = true.
Proof.
  intro H. unfold cuckoopath_move. change (0 =? 0) with true. cbv iota zeta. cbn [snd].
  apply negb_true_iff. apply occupied_false. exact H.
Qed.

End MoveOk.

(* ================================================================== G. N1: run_cuckoo needs one iteration *)

(* every stored tag is the tag of the stored key's hash (part of arr_ok) *)
Definition tags_ok (a : barray) : Prop :=
  forall b s e, bget a b s = Some e -> epart e = partial_key (hash (ekey e)).

Lemma Forall_firstn_skipn {A} (Q : A -> Prop) n n' (l : list A) :
  Forall Q l -> Forall Q (firstn n l ++ skipn n' l).
Proof.
  intro H. apply Forall_app. split.
  - rewrite <- (firstn_skipn n l) in H. apply Forall_app in H. exact (proj1 H).
  - rewrite <- (firstn_skipn n' l) in H. apply Forall_app in H. exact (proj2 H).
Qed.

Lemma Forall_of_nth {A} (Q : A -> Prop) (d : A) : forall l,
  (forall j, (j < length l)%nat -> Q (nth j l d)) -> Forall Q l.
Proof.
  induction l as [|x l IH]; intro H; constructor.
  - apply (H 0%nat). cbn [length]. lia.
  - apply IH. intros j Hj. apply (H (S j)). cbn [length]. lia.
Qed.

(* the answer of the BFS, read as a path: it is ready to be executed, and each of its buckets
   either holds an element or is the bucket the BFS stopped at *)
Lemma answer_path_ready t hp i1 i2 r :
  tags_ok (cur t) -> bfs_answer t hp i1 i2 r ->
  exists code slots s,
    Forall lt_spb slots /\ s < spb c /\ length slots = N.to_nat (qdepth r) /\
    qpathcode r = enc code (slots ++ [s]) /\
    let T := trail (cur t) hp (root i1 i2 code) (slots ++ [s]) in
    length T = S (length slots) /\
    path_ready T (cur t) (length slots) /\
    Forall (fun rc => (exists s' e, bget (cur t) (crbucket rc) s' = Some e) \/ crbucket rc = qbucket r) T.
Proof.
  intros Htag [Hd4 [code [slots [s [Hcode [Hf [Hs [Hl [Hp [Hw [He Hmin]]]]]]]]]]].
  exists code, slots, s. split; [exact Hf|]. split; [exact Hs|]. split; [exact Hl|]. split; [exact Hp|].
  destruct (trail_walk (cur t) hp Htag slots (root i1 i2 code) (qbucket r) s Hw He)
    as [HL [Hocc [HB HS]]]. cbv zeta in HL, Hocc, HB, HS |- *.
  set (T := trail (cur t) hp (root i1 i2 code) (slots ++ [s])) in *.
  set (n := length slots) in *.
  split; [exact HL|].
  assert (Hnth : forall j, nth_rec T (N.of_nat j) = nth j T dflt_rec).
  { intro j. unfold nth_rec. rewrite Nat2N.id. reflexivity. }
  (* the bucket of every position is the end of the corresponding prefix of the walk *)
  assert (Hpre : forall j, (j <= n)%nat ->
            walk (cur t) hp (root i1 i2 code) (firstn j slots) = Some (crbucket (nth j T dflt_rec))).
  { intros j Hj. destruct (Nat.eq_dec j n) as [->|Hne].
    - rewrite HB. unfold n. rewrite firstn_all. exact Hw.
    - destruct (Hocc j) as [Bj [e [G1 [_ [G3 _]]]]]; [lia|]. rewrite G3. exact G1. }
  split.
  - split; [|split].
    + rewrite Hnth, HB, HS. exact He.
    + intros j Hj. rewrite Hnth. destruct (Hocc j Hj) as [Bj [e [_ [G2 [G3 [G4 G5]]]]]].
      exists e. rewrite G3, G4, G5. split; [exact G2|reflexivity].
    + intros j j' Hj. rewrite !Hnth. intro Eb.
      assert (Hw1 := Hpre j ltac:(lia)). assert (Hw2 := Hpre j' ltac:(lia)).
      assert (Hw3 : walk (cur t) hp (crbucket (nth j' T dflt_rec)) (skipn j' slots) = Some (qbucket r)).
      { assert (H := Hw). rewrite <- (firstn_skipn j' slots), walk_app, Hw2 in H. exact H. }
      apply (Hmin (j + (n - j'))%nat); [lia|].
      exists code, (firstn j slots ++ skipn j' slots).
      split; [exact Hcode|]. split; [apply Forall_firstn_skipn; exact Hf|]. split.
      * rewrite app_length, firstn_length, skipn_length. fold n. lia.
      * rewrite walk_app, Hw1, Eb. exact Hw3.
  - apply (Forall_of_nth _ dflt_rec). intros j Hj. rewrite HL in Hj.
    destruct (Nat.eq_dec j n) as [->|Hne].
    + right. exact HB.
    + left. destruct (Hocc j) as [Bj [e [_ [G2 [G3 _]]]]]; [lia|].
      exists (nth j slots 0), e. rewrite G3. exact G2.
Qed.

(* the path found by the search on a table is ready to be executed on that table *)
Theorem search_path_ready mode t hp i1 i2 t1 path depth :
  all_migrated t -> tags_ok (cur t) ->
  cuckoopath_search c hash mode t hp i1 i2 = (t1, Some (path, depth)) ->
  t1 = t /\ path_ready path (cur t) (N.to_nat depth).
Proof.
  intros Hm Htag E.
  destruct (slot_search_settled c hash mode t hp i1 i2 Hm) as [r Es].
  destruct r as [x|].
  2:{ unfold cuckoopath_search in E. rewrite Es in E. discriminate. }
  assert (Ha := slot_search_answer t hp i1 i2 Hm mode t x Es).
  destruct (answer_path_ready t hp i1 i2 x Htag Ha)
    as [code [slots [s [Hf [Hs [Hl [Hp [HL [Hr _]]]]]]]]]. cbv zeta in HL, Hr.
  assert (Et := cuckoopath_search_trail mode t hp i1 i2 t x code slots s Es Hf Hs Hl Hp).
  cbv zeta in Et. rewrite Et in E.
  2:{ apply Forall_forall. intros rc _. apply lock_one_quiet. apply quiet_settled. exact Hm. }
  injection E as <- <- <-. split; [reflexivity|].
  replace (N.to_nat (N.of_nat (length (trail (cur t) hp (root i1 i2 code) (slots ++ [s]))) - 1))
    with (length slots) by (rewrite HL; lia).
  exact Hr.
Qed.

Theorem search_then_move mode t hp i1 i2 t1 path depth :
  all_migrated t -> tags_ok (cur t) ->
  cuckoopath_search c hash mode t hp i1 i2 = (t1, Some (path, depth)) ->
  snd (cuckoopath_move c hash mode t1 path depth i1 i2) = true.
Proof.
  intros Hm Htag E.
  destruct (search_path_ready mode t hp i1 i2 t1 path depth Hm Htag E) as [-> Hr].
  destruct (N.eq_dec depth 0) as [->|Nz].
  - apply move_ok_zero. rewrite (lock_two_settled c hash mode t i1 i2 Hm). exact (proj1 Hr).
  - apply move_ok_pos; [exact Nz| |exact Hr].
    split; [apply quiet_settled; exact Hm|]. split; [apply quiet_settled; exact Hm|].
    intros j _. apply quiet_settled. exact Hm.
Qed.

(* the while loop of run_cuckoo is left in its first iteration, whatever the fuel *)
Theorem run_cuckoo_loop_once mode t hp i1 i2 fuel :
  all_migrated t -> tags_ok (cur t) ->
  run_cuckoo_loop c hash mode t hp i1 i2 (S fuel) = run_cuckoo_loop c hash mode t hp i1 i2 1 /\
  snd (run_cuckoo_loop c hash mode t hp i1 i2 (S fuel)) <> RC_fuel.
Proof.
  intros Hm Htag. cbn [run_cuckoo_loop].
  destruct (cuckoopath_search c hash mode t hp i1 i2) as [t1 [[path depth]|]] eqn:Es.
  - assert (Hok := search_then_move mode t hp i1 i2 t1 path depth Hm Htag Es).
    destruct (cuckoopath_move c hash mode t1 path depth i1 i2) as [t2 ok]. cbn [snd] in Hok. subst ok.
    split; [reflexivity|]. cbn [snd]. discriminate.
  - split; [reflexivity|]. cbn [snd]. discriminate.
Qed.

Lemma settled_tags t : settled t -> tags_ok (cur t).
Proof. intros St b s e He. exact (ao_tag _ _ _ (se_arr _ _ _ St) b s e He). Qed.

(* N1 *)
Theorem run_cuckoo_no_fuel mode t i1 i2 :
  settled t -> snd (run_cuckoo c hash mode t i1 i2) <> RC_fuel.
Proof.
  intro St. unfold run_cuckoo, run_cuckoo_fuel.
  apply run_cuckoo_loop_once; [apply (se_mig _ _ _ St)|apply settled_tags; exact St].
Qed.

(* ... in the form of an outcome list *)
Corollary run_cuckoo_outcome mode t i1 i2 :
  settled t ->
  exists t', (run_cuckoo c hash mode t i1 i2 = (t', RC_failure) /\ t' = t) \/
             (exists b s, run_cuckoo c hash mode t i1 i2 = (t', RC_ok b s)).
Proof.
  intro St. assert (H := run_cuckoo_no_fuel mode t i1 i2 St).
  destruct (run_cuckoo_loop_once mode t (hashpower t) i1 i2 63 (se_mig _ _ _ St) (settled_tags t St))
    as [E1 _].
  unfold run_cuckoo, run_cuckoo_fuel in *. rewrite E1 in *. cbn [run_cuckoo_loop] in *.
  destruct (cuckoopath_search_settled c hash Hc mode t (hashpower t) i1 i2 (se_mig _ _ _ St)) as [r Er].
  rewrite Er in *. destruct r as [[path depth]|].
  - destruct (cuckoopath_move c hash mode t path depth i1 i2) as [t2 [|]].
    + exists t2. right. eexists _, _. reflexivity.
    + exfalso. apply H. reflexivity.
  - exists t. left. split; reflexivity.
Qed.

(* the part of cuckoo_insert around run_cuckoo *)
Lemma cuckoo_insert_fuel_inv mode t k i1 i2 :
  snd (run_cuckoo c hash mode t i1 i2) <> RC_fuel -> snd (cuckoo_insert c hash mode t k i1 i2) <> CI_fuel.
Proof.
  intro H. unfold cuckoo_insert.
  destruct (try_find_insert_bucket c (cur t) i1 (hashed_partial hash k) k 0 (N.to_nat (spb c)) None)
    as [[|] r1]; [|cbn [snd]; discriminate].
  destruct (try_find_insert_bucket c (cur t) i2 (hashed_partial hash k) k 0 (N.to_nat (spb c)) None)
    as [[|] r2]; [|cbn [snd]; discriminate].
  destruct r1 as [s1|]; [cbn [snd]; discriminate|].
  destruct r2 as [s2|]; [cbn [snd]; discriminate|].
  destruct (run_cuckoo c hash mode t i1 i2) as [t1 [ib is_| |]]; cbn [snd] in H |- *.
  - destruct (pstatus (cuckoo_find c t1 k (hashed_partial hash k) i1 i2)); cbn [snd]; discriminate.
  - discriminate.
  - exfalso. apply H. reflexivity.
Qed.

(* N2 *)
Theorem cuckoo_insert_no_fuel mode t k i1 i2 :
  settled t -> snd (cuckoo_insert c hash mode t k i1 i2) <> CI_fuel.
Proof. intro St. apply cuckoo_insert_fuel_inv. apply run_cuckoo_no_fuel. exact St. Qed.

Corollary cuckoo_insert_pos mode t k i1 i2 :
  settled t -> exists t' pos, cuckoo_insert c hash mode t k i1 i2 = (t', CI_pos pos).
Proof.
  intro St. assert (H := cuckoo_insert_no_fuel mode t k i1 i2 St).
  destruct (cuckoo_insert c hash mode t k i1 i2) as [t' [pos|]]; cbn [snd] in H.
  - exists t', pos. reflexivity.
  - exfalso. apply H. reflexivity.
Qed.

(* ================================================================== L. N1/N2 with deferred migration *)
(* Normal mode on a table whose doubling was deferred (Lazy.v, invariant [wf]): taking a lock
   migrates the stripe, so the table CHANGES during the search.  What makes the argument of
   sections D-G go through: a migrated stripe never changes again ([lstep]), every occupied slot
   of the current array lies in a migrated stripe, and every bucket the BFS scans is migrated
   before it is scanned.  Hence walks only grow, full buckets stay full, and when the BFS stops
   no strictly shorter walk to the bucket it stopped at exists in the table as it then is. *)

Section LazyBFS.
Variable hp i1 i2 : N.

Notation wf := (wf c hash).
Notation lstep := (lstep c).

Definition migb (t : table) (b : N) : Prop := mig (lock_at t (lockind c b)) = true.

Lemma migb_mod t b : migb t b <-> mig (lock_at t (b mod kmax c)) = true.
Proof. unfold migb, lockind. rewrite (lockind_spec c Hc). reflexivity. Qed.

(* an occupied slot of the current array lies in a migrated stripe *)
Lemma occ_migb t b s e : wf t -> bget (cur t) b s = Some e -> migb t b.
Proof.
  intros W He. apply migb_mod.
  destruct (wf_lazy c hash _ _ W) as [Hall|X]; [apply lock_at_mig; exact Hall|].
  assert (Hn := li_empty c hash _ _ _ (wf_inv c hash _ _ W) b s e He).
  destruct (mig (lock_at t (b mod kmax c))) eqn:M; [reflexivity|].
  exfalso. apply Hn. unfold pendP. apply pendb_true. split.
  - apply N.mod_lt. apply N.pow_nonzero. discriminate.
  - rewrite (stripe_mod_old c _ b (lx_K c _ _ X)). exact M.
Qed.

(* migrated stripes stay migrated and keep their contents *)
Definition stab (t t' : table) : Prop :=
  (forall b, migb t b -> migb t' b) /\
  (forall b s, migb t b -> bget (cur t') b s = bget (cur t) b s).

Lemma lstep_stab t t' : lstep t t' -> stab t t'.
Proof.
  intros [_ [_ [A3 [_ [_ [_ [_ [_ [_ [_ [_ A12]]]]]]]]]]]. split.
  - intros b Hb. apply A3. exact Hb.
  - intros b s Hb. apply A12. apply migb_mod. exact Hb.
Qed.

Lemma stab_refl t : stab t t.
Proof. split; [intros b H; exact H|intros b s _; reflexivity]. Qed.

Lemma walk_stab t t' : wf t -> stab t t' -> forall slots b B,
  walk (cur t) hp b slots = Some B -> walk (cur t') hp b slots = Some B.
Proof.
  intros W [_ S2]. induction slots as [|s rest IH]; intros b B Hw; [exact Hw|].
  cbn [walk] in Hw |- *. destruct (bget (cur t) b s) as [e|] eqn:Eb; [|discriminate].
  rewrite (S2 b s (occ_migb t b s e W Eb)), Eb. apply IH. exact Hw.
Qed.

(* a walk of the later table is a walk of the earlier one, or leaves it at a slot that was empty *)
Lemma walk_break t t' : wf t -> stab t t' -> forall slots b B,
  walk (cur t') hp b slots = Some B ->
  walk (cur t) hp b slots = Some B \/
  exists p1 s rest B1, slots = p1 ++ s :: rest /\ walk (cur t) hp b p1 = Some B1 /\
                       bget (cur t) B1 s = None.
Proof.
  intros W [_ S2]. induction slots as [|s rest IH]; intros b B Hw; [left; exact Hw|].
  cbn [walk] in Hw |- *. destruct (bget (cur t) b s) as [e|] eqn:Eb.
  - rewrite (S2 b s (occ_migb t b s e W Eb)), Eb in Hw.
    destruct (IH _ _ Hw) as [H|[p1 [s1 [rest1 [B1 [E1 [Hw1 Hn1]]]]]]]; [left; exact H|right].
    exists (s :: p1), s1, rest1, B1. split; [rewrite E1; reflexivity|]. split; [|exact Hn1].
    cbn [walk]. rewrite Eb. exact Hw1.
  - right. exists [], s, rest, b. split; [reflexivity|]. split; [reflexivity|exact Eb].
Qed.

Lemma full_stab t t' B : wf t -> stab t t' -> full (cur t) B -> full (cur t') B.
Proof.
  intros W [_ S2] Hf s Hs. specialize (Hf s Hs).
  destruct (bget (cur t) B s) as [e|] eqn:Eb; [|contradiction].
  rewrite (S2 B s (occ_migb t B s e W Eb)), Eb. discriminate.
Qed.

Lemma node_ok_stab t t' y : wf t -> stab t t' -> node_ok t hp i1 i2 y -> node_ok t' hp i1 i2 y.
Proof.
  intros W S [Hd [code [slots [H1 [H2 [H3 [H4 H5]]]]]]]. split; [exact Hd|].
  exists code, slots. repeat (split; [assumption|]). apply (walk_stab t t' W S). exact H5.
Qed.

Lemma covered_stab t t' q : wf t -> stab t t' -> covered t hp i1 i2 q -> covered t' hp i1 i2 q.
Proof.
  intros W S Hcov m B [code [slots [Hcode [Hf [Hl Hw']]]]] Hm4.
  destruct (walk_break t t' W S slots _ B Hw') as [Hw|[p1 [s [rest [B1 [E1 [Hw1 Hn1]]]]]]].
  - destruct (Hcov m B) as [Hfull|[y [suf [Hy [Hfs [Hws Hlen]]]]]]; [|exact Hm4| |].
    + exists code, slots. repeat (split; [assumption|]). exact Hw.
    + left. apply (full_stab t t' B W S Hfull).
    + right. exists y, suf. split; [exact Hy|]. split; [exact Hfs|]. split; [|exact Hlen].
      apply (walk_stab t t' W S). exact Hws.
  - subst slots. apply Forall_app in Hf. destruct Hf as [Hf1 Hf2].
    inversion Hf2 as [|s0 r0 Hs Hfr]; subst s0 r0.
    rewrite app_length in Hl. cbn [length] in Hl.
    destruct (Hcov (length p1) B1) as [Hfull|[y [suf [Hy [Hfs [Hws Hlen]]]]]]; [|lia| |].
    + exists code, p1. repeat (split; [assumption|]). split; [reflexivity|exact Hw1].
    + exfalso. exact (Hfull s Hs Hn1).
    + right. exists y, (suf ++ s :: rest). split; [exact Hy|].
      split; [apply Forall_app; split; [exact Hfs|constructor; assumption]|]. split.
      * rewrite walk_app, (walk_stab t t' W S _ _ _ Hws).
        rewrite walk_app, (walk_stab t t' W S _ _ _ Hw1) in Hw'. exact Hw'.
      * rewrite app_length. cbn [length]. lia.
Qed.

(* each root bucket has been locked, or still waits in the queue at depth 0 *)
Definition roots_inv (t : table) (q : list b_slot) : Prop :=
  forall code, code <= 1 ->
    migb t (root i1 i2 code) \/
    exists y, In y q /\ qdepth y = 0 /\ qbucket y = root i1 i2 code.

Lemma lazy_bfs_loop : forall fuel t q t' r, wf t ->
  Forall (node_ok t hp i1 i2) q -> covered t hp i1 i2 q -> (exists d, layered d q) -> roots_inv t q ->
  slot_search_loop c hash false t hp q fuel = (t', Some r) ->
  wf t' /\ bfs_answer t' hp i1 i2 r /\ migb t' (qbucket r) /\
  (qdepth r <> 0 -> migb t' i1 /\ migb t' i2).
Proof.
  induction fuel as [|f IH]; intros t q t' r W Hn Hcov [d Hlay] Hroots E; [discriminate|].
  destruct q as [|x q']; [discriminate|].
  cbn [slot_search_loop] in E.
  destruct (lock_one_lstep c hash Hc t (qbucket x) W) as [W1 [S1 M1]].
  set (t1 := lock_one c hash false t (qbucket x)) in *.
  assert (St := lstep_stab t t1 S1).
  assert (Hn1 : Forall (node_ok t1 hp i1 i2) (x :: q')).
  { apply (Forall_impl _ (fun y H => node_ok_stab t t1 y W St H) Hn). }
  assert (Hcov1 := covered_stab t t1 _ W St Hcov).
  assert (Hroots1 : forall code, code <= 1 ->
            migb t1 (root i1 i2 code) \/
            exists y, In y q' /\ qdepth y = 0 /\ qbucket y = root i1 i2 code).
  { intros code Hcode. destruct (Hroots code Hcode) as [H|[y [[<-|Hy] [Hd Hb]]]].
    - left. apply (proj1 St). exact H.
    - left. rewrite <- Hb. exact M1.
    - right. exists y. split; [exact Hy|]. split; assumption. }
  destruct (slot_search_scan c t1 hp x (qpathcode x mod spb c) 0 (N.to_nat (spb c)) [])
    as [[r0|] ch] eqn:Es.
  - injection E as <- <-. inversion Hn1 as [|x0 q0 Hx1 _]; subst x0 q0.
    destruct (answer_of_scan t1 hp i1 i2 d x q' r0 ch Hx1 Hcov1 Hlay Es) as [Ha [Eb Ed]].
    split; [exact W1|]. split; [exact Ha|]. split; [rewrite Eb; exact M1|].
    intro Hd0.
    assert (Hr : forall code, code <= 1 -> migb t1 (root i1 i2 code)).
    { intros code Hcode. destruct (Hroots1 code Hcode) as [H|[y [Hy [Hd _]]]]; [exact H|exfalso].
      assert (Hle := layered_head d x q' y Hlay (or_intror Hy)). rewrite Ed in Hd0. lia. }
    split; [exact (Hr 0 ltac:(lia))|exact (Hr 1 ltac:(lia))].
  - destruct (inv_step t1 hp i1 i2 d x q' ch Hn1 Hcov1 Hlay Es) as [H1 [H2 H3]].
    apply (IH t1 (q' ++ ch) t' r W1 H1 H2 H3); [|exact E].
    intros code Hcode. destruct (Hroots1 code Hcode) as [H|[y [Hy Hrest]]]; [left; exact H|right].
    exists y. split; [apply in_or_app; left; exact Hy|exact Hrest].
Qed.

Lemma wf_tags t : wf t -> tags_ok (cur t).
Proof. intros W b s e He. exact (ao_tag _ _ _ (li_arr c hash _ _ _ (wf_inv c hash _ _ W)) b s e He). Qed.

(* the path found by the search is ready on the table the search leaves behind, and all the
   locks the move will take are already held in the sense that their stripes are migrated *)
Theorem lazy_search_ready t t1 path depth :
  wf t ->
  cuckoopath_search c hash false t hp i1 i2 = (t1, Some (path, depth)) ->
  wf t1 /\ path_ready path (cur t1) (N.to_nat depth) /\
  (forall j, (j <= N.to_nat depth)%nat -> migb t1 (crbucket (nth_rec path (N.of_nat j)))) /\
  (depth <> 0 -> migb t1 i1 /\ migb t1 i2).
Proof.
  intros W E.
  destruct (slot_search c hash false t hp i1 i2) as [t' [x|]] eqn:Es.
  2:{ unfold cuckoopath_search in E. rewrite Es in E. discriminate. }
  assert (Es' := Es). unfold slot_search in Es'. fold (bfs_init i1 i2) in Es'.
  destruct (bfs_init_inv t hp i1 i2) as [H1 [H2 H3]].
  assert (Hr0 : roots_inv t (bfs_init i1 i2)).
  { intros code Hcode. right. assert (Hc01 : code = 0 \/ code = 1) by lia. destruct Hc01 as [-> | ->].
    - eexists. split; [left; reflexivity|]. split; reflexivity.
    - eexists. split; [right; left; reflexivity|]. split; reflexivity. }
  destruct (lazy_bfs_loop _ t _ t' x W H1 H2 H3 Hr0 Es') as [W' [Ha [Mx Mroots]]].
  destruct (answer_path_ready t' hp i1 i2 x (wf_tags t' W') Ha)
    as [code [slots [s [Hf [Hs [Hl [Hp [HL [Hr HB]]]]]]]]]. cbv zeta in HL, Hr, HB.
  set (T := trail (cur t') hp (root i1 i2 code) (slots ++ [s])) in *.
  assert (HM : Forall (fun rc => migb t' (crbucket rc)) T).
  { apply (Forall_impl _ (P := fun rc => (exists s' e, bget (cur t') (crbucket rc) s' = Some e) \/
                                    crbucket rc = qbucket x)); [|exact HB].
    intros rc [[s' [e He]]|Hq]; [exact (occ_migb t' _ _ _ W' He)|rewrite Hq; exact Mx]. }
  assert (Et := cuckoopath_search_trail false t hp i1 i2 t' x code slots s Es Hf Hs Hl Hp).
  cbv zeta in Et. fold T in Et. rewrite Et in E.
  2:{ apply (Forall_impl _ (P := fun rc => migb t' (crbucket rc))); [|exact HM].
      intros rc Hrc. apply lock_one_quiet. right. exact Hrc. }
  injection E as <- <- <-.
  replace (N.to_nat (N.of_nat (length T) - 1)) with (length slots) by (rewrite HL; lia).
  split; [exact W'|]. split; [exact Hr|]. split.
  - intros j Hj. unfold nth_rec. rewrite Nat2N.id. rewrite Forall_forall in HM. apply HM.
    apply nth_In. rewrite HL. lia.
  - intro Hd. apply Mroots. intro Hx0. apply Hd. rewrite HL.
    replace (length slots) with 0%nat by lia. reflexivity.
Qed.

Theorem lazy_search_then_move t t1 path depth :
  wf t ->
  cuckoopath_search c hash false t hp i1 i2 = (t1, Some (path, depth)) ->
  snd (cuckoopath_move c hash false t1 path depth i1 i2) = true.
Proof.
  intros W E.
  destruct (lazy_search_ready t t1 path depth W E) as [W1 [Hr [HM Hroots]]].
  destruct (N.eq_dec depth 0) as [->|Nz].
  - apply move_ok_zero.
    destruct (lock_two_lstep c hash Hc t1 i1 i2 W1) as [_ [S _]].
    destruct (lstep_stab _ _ S) as [_ S2].
    rewrite S2; [exact (proj1 Hr)|]. apply (HM 0%nat). lia.
  - destruct (Hroots Nz) as [M1 M2].
    apply move_ok_pos; [exact Nz| |exact Hr].
    split; [right; exact M1|]. split; [right; exact M2|]. intros j Hj. right. apply HM. exact Hj.
Qed.

End LazyBFS.

Notation wf := (wf c hash).

Theorem run_cuckoo_loop_once_wf t hp i1 i2 fuel :
  wf t ->
  run_cuckoo_loop c hash false t hp i1 i2 (S fuel) = run_cuckoo_loop c hash false t hp i1 i2 1 /\
  snd (run_cuckoo_loop c hash false t hp i1 i2 (S fuel)) <> RC_fuel.
Proof.
  intro W. cbn [run_cuckoo_loop].
  destruct (cuckoopath_search c hash false t hp i1 i2) as [t1 [[path depth]|]] eqn:Es.
  - assert (Hok := lazy_search_then_move hp i1 i2 t t1 path depth W Es).
    destruct (cuckoopath_move c hash false t1 path depth i1 i2) as [t2 ok]. cbn [snd] in Hok. subst ok.
    split; [reflexivity|]. cbn [snd]. discriminate.
  - split; [reflexivity|]. cbn [snd]. discriminate.
Qed.

(* N1 for the deferred regime *)
Theorem run_cuckoo_no_fuel_wf t i1 i2 :
  wf t -> snd (run_cuckoo c hash false t i1 i2) <> RC_fuel.
Proof. intro W. unfold run_cuckoo, run_cuckoo_fuel. apply run_cuckoo_loop_once_wf. exact W. Qed.

(* N2 for the deferred regime *)
Theorem cuckoo_insert_no_fuel_wf t k i1 i2 :
  wf t -> snd (cuckoo_insert c hash false t k i1 i2) <> CI_fuel.
Proof. intro W. apply cuckoo_insert_fuel_inv. apply run_cuckoo_no_fuel_wf. exact W. Qed.

(* ================================================================== H. N3: the insert loop *)

Notation fd_ok := (fd_ok c hash).
Notation i1_of := (i1_of hash).
Notation i2_of := (i2_of hash).

(* check_resize_validity only ever raises the two policy exceptions *)
Lemma crv_not_fuel auto t o n : check_resize_validity c auto t o n <> inl (Some EOutOfFuel).
Proof.
  unfold check_resize_validity.
  destruct (negb (mhp t =? NO_MAXIMUM_HASHPOWER) && (mhp t <? n)); [discriminate|].
  destruct (auto && lf_lt_mlf c t); [discriminate|].
  destruct (negb (hashpower t =? o)); discriminate.
Qed.

(* the in-place doubling of a nothrow type consumes one unit of resize fuel and no more *)
Theorem fast_double_nothrow_no_fuel n auto mode t hp :
  nothrow c = true -> snd (fast_double_f c hash (S n) auto mode t hp) <> inl EOutOfFuel.
Proof.
  intro Hnt. rewrite (fast_double_f_nothrow_unfold c hash n auto mode t hp Hnt).
  assert (H := crv_not_fuel auto t hp (hp + 1)).
  destruct (check_resize_validity c auto t hp (hp + 1)) as [[e|]|st].
  - cbn [snd]. intro E. apply H. injection E as ->. reflexivity.
  - cbn [snd]. discriminate.
  - destruct st; cbn [snd]; discriminate.
Qed.

(* where an EOutOfFuel of the insert loop comes from: with fuel covering the distance to
   hashpower 60 it can only be handed up from the expansion function *)
Lemma insert_loop_fuel_origin lim fd mode :
  fd_ok lim fd mode ->
  forall fuel t k, good t -> lim (mhp t) -> 60 <= N.of_nat fuel + bhp (cur t) ->
  forall t',
  cuckoo_insert_loop c hash fd mode t k (i1_of (bhp (cur t)) k) (i2_of (bhp (cur t)) k) fuel
    = (t', IL_exn EOutOfFuel) ->
  esc t \/
  exists t1, evolves t t1 /\ snd (fd mode t1 (bhp (cur t1))) = inl EOutOfFuel.
Proof.
  intro Hfd. induction fuel as [|f IH]; intros t k G Hl Hfuel t' E.
  - exfalso. destruct G as [_ [_ [Hb _]]]. lia.
  - assert (St : settled t) by (destruct G as [St _]; exact St).
    cbn [cuckoo_insert_loop] in E.
    destruct (cuckoo_insert_pos mode t k (i1_of (bhp (cur t)) k) (i2_of (bhp (cur t)) k) St)
      as [t1 [pos E1]].
    destruct (cuckoo_insert_spec c hash Hc mode t k St) as [t1' [r1 [E1' [Hsc _]]]].
    cbv zeta in E1'. rewrite E1 in E1'. injection E1' as <- <-.
    destruct (cuckoo_insert_status c hash Hc mode t k t1 pos St E1) as [_ Hst].
    rewrite E1 in E.
    destruct (good_same_contents c hash t t1 G Hsc) as [Ev1 Hhp1].
    destruct Hst as [Hs|[Hs|Hs]]; rewrite Hs in E; [discriminate|discriminate|].
    assert (G1 := evolves_good c hash _ _ Ev1). assert (L1 := evolves_lim c hash _ _ Ev1).
    assert (Hl1 : lim (mhp t1)) by (destruct L1 as [_ [_ [E3 _]]]; rewrite E3; exact Hl).
    assert (Hp := Hfd t1 G1 Hl1). rewrite hashpower_eq, <- Hhp1 in E.
    destruct (fd mode t1 (bhp (cur t1))) as [t2 r2] eqn:Efd. unfold fd_post in Hp. cbn [fst snd] in Hp.
    destruct Hp as [He|Hp]; [left; eapply esc_evolves; eassumption|].
    destruct r2 as [e|st].
    { injection E as <- <-. right. exists t1. split; [exact Ev1|]. rewrite Efd. reflexivity. }
    destruct st; try contradiction. destruct Hp as [Ev2 Hlt].
    assert (Ev02 : evolves t t2) by (eapply evolves_trans; eassumption).
    assert (G2 := evolves_good c hash _ _ Ev2).
    assert (St2 : settled t2) by (destruct G2 as [St2 _]; exact St2).
    rewrite (snapshot_and_lock_two_settled c hash mode t2 k (se_mig _ _ _ St2)) in E.
    rewrite hashpower_eq in E.
    assert (Hl2 : lim (mhp t2)).
    { destruct (evolves_lim c hash _ _ Ev02) as [_ [_ [E3 _]]]. rewrite E3. exact Hl. }
    destruct (IH t2 k G2 Hl2 ltac:(lia) t' E) as [He|[t3 [Ev3 H3]]].
    + left. eapply esc_evolves; eassumption.
    + right. exists t3. split; [eapply evolves_trans; eassumption|exact H3].
Qed.

(* an expansion function that never reports EOutOfFuel on good tables *)
Definition fd_nofuel (lim : N -> Prop) (fd : bool -> table -> N -> rres) (mode : bool) : Prop :=
  forall t, good t -> lim (mhp t) -> snd (fd mode t (bhp (cur t))) <> inl EOutOfFuel.

Lemma insert_loop_no_fuel_gen lim fd mode :
  fd_ok lim fd mode -> fd_nofuel lim fd mode ->
  forall fuel t k, good t -> lim (mhp t) -> 60 <= N.of_nat fuel + bhp (cur t) ->
  forall t' res,
  cuckoo_insert_loop c hash fd mode t k (i1_of (bhp (cur t)) k) (i2_of (bhp (cur t)) k) fuel = (t', res) ->
  esc t \/ res <> IL_exn EOutOfFuel.
Proof.
  intros Hfd Hnf fuel t k G Hl Hfuel t' res E.
  destruct res as [pos j1 j2|e]; [right; discriminate|].
  destruct e; try (right; discriminate).
  destruct (insert_loop_fuel_origin lim fd mode Hfd fuel t k G Hl Hfuel t' E) as [He|[t1 [Ev H1]]];
    [left; exact He|].
  exfalso. apply (Hnf t1 (evolves_good c hash _ _ Ev)); [|exact H1].
  destruct (evolves_lim c hash _ _ Ev) as [_ [_ [E3 _]]]. rewrite E3. exact Hl.
Qed.

Lemma fd_nofuel_nothrow n mode lim :
  nothrow c = true -> fd_nofuel lim (fast_double_f c hash (S n) true) mode.
Proof. intros Hnt t _ _. apply fast_double_nothrow_no_fuel. exact Hnt. Qed.

(* N3 *)
Theorem insert_loop_no_fuel mode t k :
  nothrow c = true -> good t -> immediate c mode t ->
  forall t' res,
  cuckoo_insert_loop c hash (cuckoo_fast_double c hash) mode t k
    (i1_of (bhp (cur t)) k) (i2_of (bhp (cur t)) k) insert_loop_fuel = (t', res) ->
  esc t \/ res <> IL_exn EOutOfFuel.
Proof.
  intros Hnt G Him t' res E.
  apply (insert_loop_no_fuel_gen _ _ mode (fd_ok_cuckoo_fast_double c hash Hc mode Hnt)
           (fd_nofuel_nothrow 5 mode _ Hnt) insert_loop_fuel t k G Him) with (t' := t'); [|exact E].
  unfold insert_loop_fuel. lia.
Qed.

(* without the escape clause when the maximum hashpower is capped *)
Corollary insert_loop_no_fuel_capped mode t k :
  nothrow c = true -> good t -> immediate c mode t -> mhp t <= 59 ->
  forall t' res,
  cuckoo_insert_loop c hash (cuckoo_fast_double c hash) mode t k
    (i1_of (bhp (cur t)) k) (i2_of (bhp (cur t)) k) insert_loop_fuel = (t', res) ->
  res <> IL_exn EOutOfFuel.
Proof.
  intros Hnt G Him Hcap t' res E.
  destruct (insert_loop_no_fuel mode t k Hnt G Him t' res E) as [He|H]; [|exact H].
  exfalso. exact (esc_capped c hash t Hcap He).
Qed.

(* ------------------------------------------------------------------ the API level *)

Lemma finish_inr t3 b s ins g : exists t' x, finish c t3 b s ins g = (t', inr x).
Proof.
  unfold finish. destruct (g (val_at t3 b s) ins) as [[v' er]|]; eexists _, _; reflexivity.
Qed.

(* an exception of uprase_f is an exception of its insert loop *)
Lemma uprase_f_exn fuel fd mode t k v g t' e :
  settled t -> uprase_f c hash fuel fd mode t k v g = (t', inl e) ->
  cuckoo_insert_loop c hash fd mode t k (i1_of (bhp (cur t)) k) (i2_of (bhp (cur t)) k) fuel
    = (t', IL_exn e).
Proof.
  intros St E. rewrite (uprase_f_finish c hash fuel fd mode t k v g St) in E.
  destruct (cuckoo_insert_loop c hash fd mode t k (i1_of (bhp (cur t)) k) (i2_of (bhp (cur t)) k) fuel)
    as [t2 [pos j1 j2|e']].
  - exfalso. destruct (pstatus pos);
      match type of E with finish c ?a ?b ?s ?i ?g = _ =>
        destruct (finish_inr a b s i g) as [t'' [x Ex]]; rewrite Ex in E; discriminate end.
  - injection E as <- <-. reflexivity.
Qed.

Lemma uprase_gen_eq_f mode t k v g :
  uprase_gen c hash mode t k v g =
  uprase_f c hash insert_loop_fuel (cuckoo_fast_double c hash) mode t k v g.
Proof. unfold uprase_gen, uprase_f. reflexivity. Qed.

Lemma uprase_gen_exn mode t k v g t' e :
  settled t -> uprase_gen c hash mode t k v g = (t', inl e) ->
  cuckoo_insert_loop c hash (cuckoo_fast_double c hash) mode t k
    (i1_of (bhp (cur t)) k) (i2_of (bhp (cur t)) k) insert_loop_fuel = (t', IL_exn e).
Proof.
  intros St E. rewrite uprase_gen_eq_f in E.
  apply (uprase_f_exn insert_loop_fuel (cuckoo_fast_double c hash) mode t k v g t' e St E).
Qed.

Theorem uprase_gen_no_fuel mode t k v g :
  nothrow c = true -> good t -> immediate c mode t ->
  esc t \/ snd (uprase_gen c hash mode t k v g) <> inl EOutOfFuel.
Proof.
  intros Hnt G Him. assert (St : settled t) by (destruct G as [St _]; exact St).
  destruct (uprase_gen c hash mode t k v g) as [t' r] eqn:E. cbn [snd].
  destruct r as [e|x]; [|right; discriminate].
  destruct e; try (right; discriminate).
  apply (uprase_gen_exn _ _ _ _ _ _ _ St) in E.
  destruct (insert_loop_no_fuel mode t k Hnt G Him t' _ E) as [He|H]; [left; exact He|].
  exfalso. apply H. reflexivity.
Qed.

Corollary uprase_gen_no_fuel_capped mode t k v g :
  nothrow c = true -> good t -> immediate c mode t -> mhp t <= 59 ->
  snd (uprase_gen c hash mode t k v g) <> inl EOutOfFuel.
Proof.
  intros Hnt G Him Hcap.
  destruct (uprase_gen_no_fuel mode t k v g Hnt G Him) as [He|H]; [|exact H].
  exfalso. exact (esc_capped c hash t Hcap He).
Qed.

(* a present key never reaches the expansion at all *)
Theorem uprase_gen_present_no_exn mode t k v g :
  good t -> key_in (cur t) k -> forall e, snd (uprase_gen c hash mode t k v g) <> inl e.
Proof.
  intros G Hk e. assert (St : settled t) by (destruct G as [St _]; exact St).
  destruct (uprase_gen c hash mode t k v g) as [t' r] eqn:E. cbn [snd]. intros ->.
  apply (uprase_gen_exn _ _ _ _ _ _ _ St) in E. rewrite insert_loop_fuel_S in E.
  destruct (insert_loop_present c hash Hc _ mode t k _ G Hk t' _ E) as [pos [H _]]. discriminate.
Qed.

(* ================================================================== I. the rebuild through a temporary map *)

(* (stated as an equation: unfolding insert_with inside a hypothesis makes the kernel unfold the
   loop at its literal fuel when the proof is checked) *)
Lemma insert_with_unfold fd t k v :
  insert_with c hash fd t k v =
  let '(t1, i1, i2) := snapshot_and_lock_two c hash false t k in
  match cuckoo_insert_loop c hash fd false t1 k i1 i2 insert_loop_fuel with
  | (t2, IL_exn e) => (t2, Some e)
  | (t2, IL_pos pos _ _) =>
    match pstatus pos with
    | St_ok => (add_to_bucket c t2 (pindex pos) (pslot pos) (hashed_partial hash k) k v, None)
    | _ => (t2, None)
    end
  end.
Proof. reflexivity. Qed.

(* an EOutOfFuel of insert_with (one insertion into the temporary map) is handed up from the
   temporary map's own expansion function *)
Lemma insert_with_fuel_origin lim fd :
  fd_ok lim fd false ->
  forall nm k v, good nm -> lim (mhp nm) -> mhp nm <= 59 ->
  forall nm', insert_with c hash fd nm k v = (nm', Some EOutOfFuel) ->
  exists t1, evolves nm t1 /\ snd (fd false t1 (bhp (cur t1))) = inl EOutOfFuel.
Proof.
  intros Hfd nm k v G Hl Hcap nm' E.
  assert (St : settled nm) by (destruct G as [St _]; exact St).
  rewrite insert_with_unfold in E.
  rewrite (snapshot_and_lock_two_settled c hash false nm k (se_mig _ _ _ St)), hashpower_eq in E.
  destruct (cuckoo_insert_loop c hash fd false nm k (i1_of (bhp (cur nm)) k) (i2_of (bhp (cur nm)) k)
              insert_loop_fuel) as [t2 [pos j1 j2|e]] eqn:El.
  - destruct (pstatus pos); discriminate.
  - injection E as -> ->.
    assert (Hf : 60 <= N.of_nat insert_loop_fuel + bhp (cur nm)) by (unfold insert_loop_fuel; lia).
    destruct (insert_loop_fuel_origin lim fd false Hfd insert_loop_fuel nm k G Hl Hf nm' El) as [He|H].
    + exfalso. exact (esc_capped c hash nm Hcap He).
    + exact H.
Qed.

(* a successful insertion keeps the temporary map good *)
Lemma insert_with_step lim fd :
  fd_ok lim fd false ->
  forall nm k v, good nm -> lim (mhp nm) -> mhp nm <= 59 ->
  forall nm', insert_with c hash fd nm k v = (nm', None) ->
  good nm' /\ lim_same nm nm' /\ bhp (cur nm) <= bhp (cur nm').
Proof.
  intros Hfd nm k v G Hl Hcap nm' E. rewrite insert_with_eq in E.
  destruct (uprase_with c hash fd false nm k v (fun _ _ => None)) as [t' ur] eqn:Eu.
  destruct (uprase_with_good c hash Hc lim fd false Hfd nm k v _ G Hl t' ur Eu) as [Hin Hout].
  assert (St : settled nm) by (destruct G as [St _]; exact St).
  assert (Hp : up_post c hash nm k v (fun _ _ => None) t' ur).
  { destruct (key_in_dec c hash nm k (se_arr _ _ _ St)) as [Hk|Hk]; [exact (Hin Hk)|].
    destruct (Hout Hk) as [He|Hp]; [|exact Hp]. exfalso. exact (esc_capped c hash nm Hcap He). }
  unfold up_post in Hp. destruct ur as [e|[[ins lg] [b s]]]; [discriminate|].
  injection E as <-. destruct Hp as [G' [L [Hb _]]]. split; [exact G'|]. split; assumption.
Qed.

(* the temporary map while it is being filled *)
Definition tmp_inv (nm0 nm : table) : Prop :=
  good nm /\ lim_same nm0 nm /\ bhp (cur nm0) <= bhp (cur nm).

(* a table on which the expansion function reports EOutOfFuel *)
Definition fuel_witness (fd : bool -> table -> N -> rres) (nm0 : table) : Prop :=
  exists t1, tmp_inv nm0 t1 /\ snd (fd false t1 (bhp (cur t1))) = inl EOutOfFuel.

Lemma tmp_inv_trans nm0 nm nm' :
  tmp_inv nm0 nm -> good nm' -> lim_same nm nm' -> bhp (cur nm) <= bhp (cur nm') -> tmp_inv nm0 nm'.
Proof.
  intros [_ [L B]] G' L' B'. split; [exact G'|]. split; [eapply lim_same_trans; eassumption|lia].
Qed.

Lemma expand_move_slots_fuel lim fd nm0 b :
  fd_ok lim fd false -> lim (mhp nm0) -> mhp nm0 <= 59 ->
  forall n s src nm, tmp_inv nm0 nm ->
  forall src' nm' r,
  expand_move_slots c (insert_with c hash fd) src nm b s n = (src', nm', r) ->
  match r with
  | None => tmp_inv nm0 nm'
  | Some ex => ex = EOutOfFuel -> fuel_witness fd nm0
  end.
Proof.
  intros Hfd Hl0 Hcap. induction n as [|n IH]; intros s src nm X src' nm' r E.
  - cbn [expand_move_slots] in E. injection E as <- <- <-. exact X.
  - cbn [expand_move_slots] in E.
    destruct (bget src b s) as [e|]; [|apply (IH _ _ _ X _ _ _ E)].
    assert (G := proj1 X). assert (L := proj1 (proj2 X)).
    assert (Hm : mhp nm = mhp nm0) by (destruct L as [_ [_ [Hm _]]]; exact Hm).
    assert (Hl : lim (mhp nm)) by (rewrite Hm; exact Hl0).
    assert (Hcap' : mhp nm <= 59) by (rewrite Hm; exact Hcap).
    destruct (insert_with c hash fd nm (ekey e) (eval e)) as [nm1 r1] eqn:Ei.
    destruct r1 as [ex|].
    + injection E as <- <- <-. intros ->.
      destruct (insert_with_fuel_origin lim fd Hfd nm _ _ G Hl Hcap' nm1 Ei) as [t1 [Ev H1]].
      exists t1. split; [|exact H1]. destruct Ev as [G1 [_ [L1 B1]]].
      apply (tmp_inv_trans nm0 nm t1 X G1 L1 B1).
    + destruct (insert_with_step lim fd Hfd nm _ _ G Hl Hcap' nm1 Ei) as [G1 [L1 B1]].
      apply (IH _ _ nm1 (tmp_inv_trans nm0 nm nm1 X G1 L1 B1) _ _ _ E).
Qed.

Lemma expand_move_buckets_fuel lim fd nm0 :
  fd_ok lim fd false -> lim (mhp nm0) -> mhp nm0 <= 59 ->
  forall n b src nm, tmp_inv nm0 nm ->
  forall src' nm' r,
  expand_move_buckets c (insert_with c hash fd) src nm b n = (src', nm', r) ->
  match r with
  | None => tmp_inv nm0 nm'
  | Some ex => ex = EOutOfFuel -> fuel_witness fd nm0
  end.
Proof.
  intros Hfd Hl0 Hcap. induction n as [|n IH]; intros b src nm X src' nm' r E.
  - cbn [expand_move_buckets] in E. injection E as <- <- <-. exact X.
  - cbn [expand_move_buckets] in E.
    destruct (expand_move_slots c (insert_with c hash fd) src nm b 0 (N.to_nat (spb c)))
      as [[src1 nm1] r1] eqn:Es.
    assert (Hs := expand_move_slots_fuel lim fd nm0 b Hfd Hl0 Hcap _ _ _ _ X _ _ _ Es).
    destruct r1 as [ex|].
    + injection E as <- <- <-. exact Hs.
    + apply (IH _ _ _ Hs _ _ _ E).
Qed.

(* where an EOutOfFuel of a rebuild comes from: some state of its temporary map (hashpower at
   least the target, same limits as the table) on which the temporary map's automatic expansion
   reports EOutOfFuel *)
Theorem es_body_fuel_origin fd auto t new_hp :
  fd_ok (limC c) fd false -> good t -> limC c (mhp t) ->
  snd (es_body c hash fd auto t new_hp) = inl EOutOfFuel ->
  exists nm, good nm /\ mhp nm = mhp t /\ new_hp <= bhp (cur nm) /\
             snd (fd false nm (bhp (cur nm))) = inl EOutOfFuel.
Proof.
  intros Hfd G [Hlb H58] E. unfold es_body in E. cbv zeta in E.
  destruct (crv_self c hash auto t new_hp) as [[Hm Ec]|[[Hm [Ha [Hlf Ec]]]|[Hm [Hlf Ec]]]];
    cbv zeta in Ec; rewrite Ec in E; [discriminate|discriminate|].
  destruct (N.ltb_spec 58 new_hp) as [L58|Hn58]; [discriminate|].
  assert (Hne : mhp t <> NO_MAXIMUM_HASHPOWER) by (unfold NO_MAXIMUM_HASHPOWER; lia).
  assert (Hnh : new_hp <= mhp t).
  { destruct (N.le_gt_cases new_hp (mhp t)) as [L|L]; [exact L|]. exfalso. apply Hm. split; assumption. }
  destruct (rehash_with_workers_good c hash t G) as [G1 [Ec1 [El1 [L1 Hrc1]]]].
  cbv zeta in G1, Ec1, El1, L1, Hrc1.
  set (t1 := rehash_with_workers c hash t) in *.
  assert (Hm1 : mhp t1 = mhp t) by (destruct L1 as [_ [_ [H _]]]; exact H).
  assert (Hmax1 : mhp t1 = NO_MAXIMUM_HASHPOWER \/ new_hp <= mhp t1) by (right; rewrite Hm1; exact Hnh).
  destruct (new_map_good c hash Hc auto t1 new_hp Hn58 Hmax1) as [G0 [Hhp0 [Hm0 _]]].
  cbv zeta in G0, Hhp0, Hm0.
  set (nm0 := new_map c auto t1 new_hp) in *.
  assert (Hl0 : limC c (mhp nm0)) by (rewrite Hm0, Hm1; split; assumption).
  assert (Hcap0 : mhp nm0 <= 59) by (rewrite Hm0, Hm1; lia).
  assert (X0 : tmp_inv nm0 nm0) by (split; [exact G0|split; [apply lim_same_refl|lia]]).
  destruct (expand_move_buckets c (insert_with c hash fd) (cur t1) nm0 0
              (N.to_nat (hashsize (hashpower t)))) as [[src' nm1] r] eqn:Em.
  assert (Hx := expand_move_buckets_fuel (limC c) fd nm0 Hfd Hl0 Hcap0 _ _ _ _ X0 _ _ _ Em).
  destruct r as [ex|]; [|discriminate].
  cbn [snd] in E. injection E as ->.
  destruct (Hx eq_refl) as [nm [[Gn [Ln Bn]] Hn]].
  exists nm. split; [exact Gn|]. split; [|split; [|exact Hn]].
  - destruct Ln as [_ [_ [H _]]]. rewrite H, Hm0. exact Hm1.
  - rewrite <- Hhp0. exact Bn.
Qed.

Theorem expand_simple_fuel_origin n auto mode t new_hp :
  good t -> limC c (mhp t) ->
  snd (expand_simple_f c hash (S n) auto mode t new_hp) = inl EOutOfFuel ->
  exists nm, good nm /\ mhp nm = mhp t /\ new_hp <= bhp (cur nm) /\
             snd (fast_double_f c hash n true false nm (bhp (cur nm))) = inl EOutOfFuel.
Proof.
  intros G Hl E. rewrite expand_simple_f_S in E.
  apply (es_body_fuel_origin _ auto t new_hp (proj1 (resize_f_good c hash Hc n) false) G Hl E).
Qed.

(* ------------------------------------------------------------------ nothrow types *)

Theorem expand_simple_nothrow_no_fuel n auto mode t new_hp :
  nothrow c = true -> good t -> limC c (mhp t) ->
  snd (expand_simple_f c hash (S (S n)) auto mode t new_hp) <> inl EOutOfFuel.
Proof.
  intros Hnt G Hl E.
  destruct (expand_simple_fuel_origin (S n) auto mode t new_hp G Hl E) as [nm [_ [_ [_ H]]]].
  exact (fast_double_nothrow_no_fuel n true false nm _ Hnt H).
Qed.

Theorem cuckoo_expand_simple_no_fuel auto mode t new_hp :
  nothrow c = true -> good t -> limC c (mhp t) ->
  snd (cuckoo_expand_simple c hash auto mode t new_hp) <> inl EOutOfFuel.
Proof. intros Hnt G Hl. apply (expand_simple_nothrow_no_fuel 4); assumption. Qed.

Theorem cuckoo_fast_double_no_fuel mode t hp :
  nothrow c = true -> snd (cuckoo_fast_double c hash mode t hp) <> inl EOutOfFuel.
Proof. intro Hnt. apply (fast_double_nothrow_no_fuel 5). exact Hnt. Qed.

Lemma rehash_exn mode t n e :
  snd (cuckoo_rehash c hash mode t n) = inl e ->
  snd (cuckoo_expand_simple c hash false mode t n) = inl e.
Proof.
  unfold cuckoo_rehash. destruct (n =? hashpower t); [discriminate|].
  destruct (cuckoo_expand_simple c hash false mode t n) as [t1 [e'|st]]; cbn [snd]; [|discriminate].
  intro H. injection H as ->. reflexivity.
Qed.

Theorem cuckoo_rehash_no_fuel mode t n :
  nothrow c = true -> good t -> limC c (mhp t) ->
  snd (cuckoo_rehash c hash mode t n) <> inl EOutOfFuel.
Proof.
  intros Hnt G Hl E. apply rehash_exn in E.
  exact (cuckoo_expand_simple_no_fuel false mode t n Hnt G Hl E).
Qed.

Theorem cuckoo_reserve_no_fuel mode t n :
  nothrow c = true -> good t -> limC c (mhp t) ->
  snd (cuckoo_reserve c hash mode t n) <> inl EOutOfFuel.
Proof.
  intros Hnt G Hl. rewrite cuckoo_reserve_eq. apply cuckoo_rehash_no_fuel; assumption.
Qed.

(* ================================================================== M. fuel monotonicity *)
(* No invariant is needed here: a run that did not stop for lack of fuel is reproduced unchanged by
   every larger amount of fuel.  (slot_search_loop and reserve_calc_loop have no distinguished
   out-of-fuel result; their bounds are slot_search_fuel_enough in InsertLemmas.v and
   reserve_calc_spec in Stats.v.) *)

Theorem run_cuckoo_loop_mono mode hp i1 i2 m : forall n t,
  snd (run_cuckoo_loop c hash mode t hp i1 i2 n) <> RC_fuel ->
  run_cuckoo_loop c hash mode t hp i1 i2 (n + m) = run_cuckoo_loop c hash mode t hp i1 i2 n.
Proof.
  induction n as [|n IH]; intros t H.
  - exfalso. apply H. reflexivity.
  - change (S n + m)%nat with (S (n + m)). cbn [run_cuckoo_loop] in H |- *.
    destruct (cuckoopath_search c hash mode t hp i1 i2) as [t1 [[path depth]|]]; [|reflexivity].
    destruct (cuckoopath_move c hash mode t1 path depth i1 i2) as [t2 [|]]; [reflexivity|].
    apply IH. exact H.
Qed.

(* fd' does whatever fd does, except possibly where fd runs out of fuel *)
Definition fd_le (fd fd' : bool -> table -> N -> rres) : Prop :=
  forall mode t hp, snd (fd mode t hp) <> inl EOutOfFuel -> fd' mode t hp = fd mode t hp.

Definition ins_le (ins ins' : table -> N -> Z -> table * option exn) : Prop :=
  forall t k v, snd (ins t k v) <> Some EOutOfFuel -> ins' t k v = ins t k v.

Lemma fd_le_refl fd : fd_le fd fd.
Proof. intros mode t hp _. reflexivity. Qed.

Theorem cuckoo_insert_loop_mono fd fd' mode m : fd_le fd fd' -> forall n t k i1 i2,
  snd (cuckoo_insert_loop c hash fd mode t k i1 i2 n) <> IL_exn EOutOfFuel ->
  cuckoo_insert_loop c hash fd' mode t k i1 i2 (n + m) = cuckoo_insert_loop c hash fd mode t k i1 i2 n.
Proof.
  intro Hle. induction n as [|n IH]; intros t k i1 i2 H.
  - exfalso. apply H. reflexivity.
  - change (S n + m)%nat with (S (n + m)). cbn [cuckoo_insert_loop] in H |- *.
    destruct (cuckoo_insert c hash mode t k i1 i2) as [t1 [pos|]]; [|exfalso; apply H; reflexivity].
    destruct (pstatus pos); try reflexivity;
      try (destruct (snapshot_and_lock_two c hash mode t1 k) as [[t3 j1] j2]; apply IH; exact H).
    (* St_table_full *)
    destruct (fd mode t1 (hashpower t)) as [t2 r2] eqn:Efd.
    assert (Hne : snd (fd mode t1 (hashpower t)) <> inl EOutOfFuel).
    { rewrite Efd. cbn [snd]. destruct r2 as [e|st]; [|discriminate].
      intro X. injection X as ->. apply H. reflexivity. }
    rewrite (Hle mode t1 (hashpower t) Hne), Efd.
    destruct r2 as [e|st]; [reflexivity|].
    destruct (snapshot_and_lock_two c hash mode t2 k) as [[t3 j1] j2]. apply IH. exact H.
Qed.

Corollary cuckoo_insert_loop_fuel_mono fd mode n m t k i1 i2 :
  snd (cuckoo_insert_loop c hash fd mode t k i1 i2 n) <> IL_exn EOutOfFuel ->
  cuckoo_insert_loop c hash fd mode t k i1 i2 (n + m) = cuckoo_insert_loop c hash fd mode t k i1 i2 n.
Proof. apply cuckoo_insert_loop_mono. apply fd_le_refl. Qed.

Lemma insert_with_mono fd fd' : fd_le fd fd' -> ins_le (insert_with c hash fd) (insert_with c hash fd').
Proof.
  intros Hle t k v H. rewrite (insert_with_unfold fd) in H.
  rewrite (insert_with_unfold fd), (insert_with_unfold fd').
  destruct (snapshot_and_lock_two c hash false t k) as [[t1 i1] i2].
  assert (Hm := cuckoo_insert_loop_mono fd fd' false 0 Hle insert_loop_fuel t1 k i1 i2).
  rewrite Nat.add_0_r in Hm. rewrite Hm; [reflexivity|].
  destruct (cuckoo_insert_loop c hash fd false t1 k i1 i2 insert_loop_fuel) as [t2 [pos j1 j2|e]];
    cbn [snd] in H |- *; [discriminate|].
  intro X. injection X as ->. apply H. reflexivity.
Qed.

Lemma expand_move_slots_mono ins ins' b : ins_le ins ins' -> forall n src nm s,
  snd (expand_move_slots c ins src nm b s n) <> Some EOutOfFuel ->
  expand_move_slots c ins' src nm b s n = expand_move_slots c ins src nm b s n.
Proof.
  intro Hle. induction n as [|n IH]; intros src nm s H; [reflexivity|].
  cbn [expand_move_slots] in H |- *.
  destruct (bget src b s) as [e|]; [|apply IH; exact H].
  destruct (ins nm (ekey e) (eval e)) as [nm1 r1] eqn:Ei.
  assert (Hne : snd (ins nm (ekey e) (eval e)) <> Some EOutOfFuel).
  { rewrite Ei. cbn [snd]. destruct r1 as [ex|]; [|discriminate].
    intro X. injection X as ->. apply H. reflexivity. }
  rewrite (Hle nm _ _ Hne), Ei. destruct r1 as [ex|]; [reflexivity|]. apply IH. exact H.
Qed.

Lemma expand_move_buckets_mono ins ins' : ins_le ins ins' -> forall n src nm b,
  snd (expand_move_buckets c ins src nm b n) <> Some EOutOfFuel ->
  expand_move_buckets c ins' src nm b n = expand_move_buckets c ins src nm b n.
Proof.
  intro Hle. induction n as [|n IH]; intros src nm b H; [reflexivity|].
  cbn [expand_move_buckets] in H |- *.
  destruct (expand_move_slots c ins src nm b 0 (N.to_nat (spb c))) as [[src1 nm1] r1] eqn:Es.
  assert (Hne : snd (expand_move_slots c ins src nm b 0 (N.to_nat (spb c))) <> Some EOutOfFuel).
  { rewrite Es. cbn [snd]. destruct r1 as [ex|]; [|discriminate].
    intro X. injection X as ->. apply H. reflexivity. }
  rewrite (expand_move_slots_mono ins ins' b Hle _ _ _ _ Hne), Es.
  destruct r1 as [ex|]; [reflexivity|]. apply IH. exact H.
Qed.

Lemma es_body_mono fd fd' auto t new_hp : fd_le fd fd' ->
  snd (es_body c hash fd auto t new_hp) <> inl EOutOfFuel ->
  es_body c hash fd' auto t new_hp = es_body c hash fd auto t new_hp.
Proof.
  intros Hle H. unfold es_body in H |- *. cbv zeta in H |- *.
  destruct (check_resize_validity c auto t (hashpower t) new_hp) as [[e|]|st];
    [reflexivity|reflexivity|].
  destruct st; [|reflexivity|reflexivity|reflexivity|reflexivity|reflexivity].
  destruct (58 <? new_hp); [reflexivity|].
  set (t1 := rehash_with_workers c hash t) in *.
  set (nm0 := new_map c auto t1 new_hp) in *.
  set (n := N.to_nat (hashsize (hashpower t))) in *.
  assert (Hne : snd (expand_move_buckets c (insert_with c hash fd) (cur t1) nm0 0 n) <> Some EOutOfFuel).
  { destruct (expand_move_buckets c (insert_with c hash fd) (cur t1) nm0 0 n) as [[src' nm1] [ex|]];
      cbn [snd] in H |- *; [|discriminate].
    intro X. injection X as ->. apply H. reflexivity. }
  rewrite (expand_move_buckets_mono _ _ (insert_with_mono fd fd' Hle) n (cur t1) nm0 0 Hne).
  reflexivity.
Qed.

(* the standard lemma that makes the fuelled model of the resize functions faithful *)
Theorem resize_mono : forall n,
  (forall m auto mode t hp,
     snd (fast_double_f c hash n auto mode t hp) <> inl EOutOfFuel ->
     fast_double_f c hash (n + m) auto mode t hp = fast_double_f c hash n auto mode t hp) /\
  (forall m auto mode t new_hp,
     snd (expand_simple_f c hash n auto mode t new_hp) <> inl EOutOfFuel ->
     expand_simple_f c hash (n + m) auto mode t new_hp = expand_simple_f c hash n auto mode t new_hp).
Proof.
  induction n as [|n [IH1 IH2]].
  - split; intros m auto mode t hp H; exfalso; apply H; reflexivity.
  - split; intros m auto mode t hp H; change (S n + m)%nat with (S (n + m)).
    + rewrite (fast_double_f_S c hash n) in H.
      rewrite (fast_double_f_S c hash (n + m)), (fast_double_f_S c hash n).
      destruct (negb (nothrow c)); [|reflexivity].
      apply IH2. exact H.
    + rewrite (expand_simple_f_S c hash n) in H.
      rewrite (expand_simple_f_S c hash (n + m)), (expand_simple_f_S c hash n).
      apply es_body_mono; [|exact H].
      intros mode' t' hp' H'. apply IH1. exact H'.
Qed.

Corollary fast_double_f_mono n m auto mode t hp :
  snd (fast_double_f c hash n auto mode t hp) <> inl EOutOfFuel ->
  fast_double_f c hash (n + m) auto mode t hp = fast_double_f c hash n auto mode t hp.
Proof. apply (proj1 (resize_mono n)). Qed.

Corollary expand_simple_f_mono n m auto mode t new_hp :
  snd (expand_simple_f c hash n auto mode t new_hp) <> inl EOutOfFuel ->
  expand_simple_f c hash (n + m) auto mode t new_hp = expand_simple_f c hash n auto mode t new_hp.
Proof. apply (proj2 (resize_mono n)). Qed.

(* consequently the choice resize_fuel = 6 only matters for runs that exhaust it: any run that
   completes with less fuel is the run of the model, and a run of the model that completes is the
   run at every larger fuel *)
Corollary cuckoo_expand_simple_stable n auto mode t new_hp :
  (n <= resize_fuel)%nat ->
  snd (expand_simple_f c hash n auto mode t new_hp) <> inl EOutOfFuel ->
  cuckoo_expand_simple c hash auto mode t new_hp = expand_simple_f c hash n auto mode t new_hp.
Proof.
  intros Hn H. unfold cuckoo_expand_simple.
  replace resize_fuel with (n + (resize_fuel - n))%nat by (clear - Hn; lia).
  apply expand_simple_f_mono. exact H.
Qed.

Corollary cuckoo_expand_simple_more_fuel m auto mode t new_hp :
  snd (cuckoo_expand_simple c hash auto mode t new_hp) <> inl EOutOfFuel ->
  expand_simple_f c hash (resize_fuel + m) auto mode t new_hp = cuckoo_expand_simple c hash auto mode t new_hp.
Proof. intro H. unfold cuckoo_expand_simple in *. apply expand_simple_f_mono. exact H. Qed.

Corollary run_cuckoo_more_fuel mode t i1 i2 m :
  snd (run_cuckoo c hash mode t i1 i2) <> RC_fuel ->
  run_cuckoo_loop c hash mode t (hashpower t) i1 i2 (run_cuckoo_fuel + m) = run_cuckoo c hash mode t i1 i2.
Proof. intro H. unfold run_cuckoo in *. apply run_cuckoo_loop_mono. exact H. Qed.

(* ================================================================== J. N4: element types whose move may throw *)
(* For such types every expansion is a rebuild through a temporary map, and the temporary map's
   own expansions are rebuilds again: resize_fuel bounds the nesting.  expand_simple_fuel_origin
   says that an EOutOfFuel of a rebuild is an EOutOfFuel of an automatic expansion of its temporary
   map, whose hashpower is at least the target.  Iterating: the nested temporary maps have
   strictly increasing hashpowers, all within maximum_hashpower, so fuel n can only be exhausted
   when there is room for about n/2 nested doublings below the maximum. *)

Definition fuel_room (n : nat) (D : N) : Prop :=
  forall auto mode t new_hp, good t -> limC c (mhp t) ->
    snd (expand_simple_f c hash n auto mode t new_hp) = inl EOutOfFuel -> new_hp + D <= mhp t + 1.

Lemma good_within_cap t : good t -> limC c (mhp t) -> bhp (cur t) <= mhp t.
Proof.
  intros [_ [_ [_ [_ Hw]]]] [_ H58]. destruct Hw as [Hw|Hw]; [|exact Hw].
  rewrite Hw in H58. unfold NO_MAXIMUM_HASHPOWER in H58. lia.
Qed.

Lemma fuel_room_base n : fuel_room (S n) 1.
Proof.
  intros auto mode t new_hp G Hl E.
  destruct (expand_simple_fuel_origin n auto mode t new_hp G Hl E) as [nm [Gn [Hm [Hb _]]]].
  assert (Hln : limC c (mhp nm)) by (rewrite Hm; exact Hl).
  assert (H := good_within_cap nm Gn Hln). rewrite Hm in H. lia.
Qed.

Lemma fuel_room_step n D : nothrow c = false -> fuel_room (S n) D -> fuel_room (S (S (S n))) (D + 1).
Proof.
  intros Hnt HP auto mode t new_hp G Hl E.
  destruct (expand_simple_fuel_origin (S (S n)) auto mode t new_hp G Hl E) as [nm [Gn [Hm [Hb Hf]]]].
  assert (Hln : limC c (mhp nm)) by (rewrite Hm; exact Hl).
  rewrite (fast_double_f_S_throw c hash (S n) true false nm _ Hnt) in Hf.
  assert (H := HP true false nm (bhp (cur nm) + 1) Gn Hln Hf). rewrite Hm in H. lia.
Qed.

Theorem fuel_room_all : nothrow c = false ->
  forall j, fuel_room (S (2 * j)) (N.of_nat j + 1) /\ fuel_room (S (S (2 * j))) (N.of_nat j + 1).
Proof.
  intro Hnt. induction j as [|j [IH1 IH2]].
  - split; apply fuel_room_base.
  - replace (2 * S j)%nat with (S (S (2 * j))) by lia.
    replace (N.of_nat (S j) + 1) with (N.of_nat j + 1 + 1) by lia.
    split; apply fuel_room_step; assumption.
Qed.

(* with resize_fuel = 6: a rebuild towards new_hp can only exhaust the fuel if three nested
   temporary maps fit under the maximum hashpower *)
Theorem cuckoo_expand_simple_fuel_room auto mode t new_hp :
  nothrow c = false -> good t -> limC c (mhp t) ->
  snd (cuckoo_expand_simple c hash auto mode t new_hp) = inl EOutOfFuel -> new_hp + 2 <= mhp t.
Proof.
  intros Hnt G Hl E.
  assert (H := proj2 (fuel_room_all Hnt 2) auto mode t new_hp G Hl E). cbn in H. lia.
Qed.

(* ... hence, for every element type: *)
Theorem cuckoo_expand_simple_no_fuel_near_max auto mode t new_hp :
  good t -> limC c (mhp t) -> mhp t < new_hp + 2 ->
  snd (cuckoo_expand_simple c hash auto mode t new_hp) <> inl EOutOfFuel.
Proof.
  intros G Hl Hnear E. destruct (nothrow c) eqn:Hnt.
  - exact (cuckoo_expand_simple_no_fuel auto mode t new_hp Hnt G Hl E).
  - assert (H := cuckoo_expand_simple_fuel_room auto mode t new_hp Hnt G Hl E). lia.
Qed.

Theorem cuckoo_fast_double_fuel_room mode t :
  nothrow c = false -> good t -> limC c (mhp t) ->
  snd (cuckoo_fast_double c hash mode t (bhp (cur t))) = inl EOutOfFuel -> bhp (cur t) + 3 <= mhp t.
Proof.
  intros Hnt G Hl E. unfold cuckoo_fast_double, resize_fuel in E.
  rewrite (fast_double_f_S_throw c hash 5 true mode t _ Hnt) in E.
  assert (H := proj1 (fuel_room_all Hnt 2) true mode t (bhp (cur t) + 1) G Hl E). cbn in H. lia.
Qed.

(* the insert family of a throwing type (limits capped as for the rebuild, Refine.v) *)
Theorem uprase_gen_fuel_room mode t k v g :
  nothrow c = false -> good t -> limC c (mhp t) ->
  snd (uprase_gen c hash mode t k v g) = inl EOutOfFuel -> bhp (cur t) + 3 <= mhp t.
Proof.
  intros Hnt G Hl E. assert (St : settled t) by (destruct G as [St _]; exact St).
  destruct (uprase_gen c hash mode t k v g) as [t' r] eqn:Eu. cbn [snd] in E. subst r.
  apply (uprase_gen_exn _ _ _ _ _ _ _ St) in Eu.
  assert (Hf : 60 <= N.of_nat insert_loop_fuel + bhp (cur t)) by (unfold insert_loop_fuel; lia).
  destruct (insert_loop_fuel_origin (limC c) _ mode (fd_ok_capped c hash Hc mode)
              insert_loop_fuel t k G Hl Hf t' Eu) as [He|[t1 [Ev H1]]].
  - exfalso. destruct Hl as [_ H58]. apply (esc_capped c hash t); [lia|exact He].
  - assert (G1 := evolves_good c hash _ _ Ev).
    destruct Ev as [_ [_ [[_ [_ [Em _]]] Hb]]].
    assert (Hl1 : limC c (mhp t1)) by (rewrite Em; exact Hl).
    assert (H := cuckoo_fast_double_fuel_room mode t1 Hnt G1 Hl1 H1). rewrite Em in H. lia.
Qed.

Corollary uprase_gen_no_fuel_near_max mode t k v g :
  good t -> limC c (mhp t) -> mhp t < bhp (cur t) + 3 ->
  snd (uprase_gen c hash mode t k v g) <> inl EOutOfFuel.
Proof.
  intros G Hl Hnear E. destruct (nothrow c) eqn:Hnt.
  - assert (Him : immediate c mode t) by (right; destruct Hl as [H _]; exact H).
    apply (uprase_gen_no_fuel_capped mode t k v g Hnt G Him); [destruct Hl as [_ H]; lia|exact E].
  - assert (H := uprase_gen_fuel_room mode t k v g Hnt G Hl E). lia.
Qed.

End NoFuel.

(* ================================================================== non-vacuity *)
Module NoFuelExample.
Definition c2 : config := {| spb := 1; lbits := 16; simple := true; nothrow := true; destructive := false |}.

Lemma c2_ok : cfg_ok c2.
Proof. constructor; cbn; lia. Qed.

(* an insertion that returns normally keeps a capped table good *)
Lemma ins_keeps_good_gen c h mode t k v x :
  cfg_ok c -> nothrow c = true -> good c h t -> immediate c mode t -> mhp t <= 59 ->
  snd (uprase_gen c h mode t k v (fun _ _ => None)) = inr x ->
  good c h (fst (uprase_gen c h mode t k v (fun _ _ => None))) /\
  mhp (fst (uprase_gen c h mode t k v (fun _ _ => None))) = mhp t.
Proof.
  intros Hc Hnt G Him Hcap E.
  destruct (uprase_gen c h mode t k v (fun _ _ => None)) as [t' r] eqn:Eu. cbn [fst snd] in *. subst r.
  destruct (uprase_gen_good c h Hc mode t k v _ Hnt G Him t' _ Eu) as [Hin Hout].
  assert (St : settled c h t) by (destruct G as [St _]; exact St).
  destruct (key_in_dec c h t k (se_arr _ _ _ St)) as [Hk|Hk].
  - apply key_in_holds in Hk. destruct Hk as [v0 Hv0].
    destruct (Hin v0 Hv0) as [b [s [_ [G' [[_ [_ [Em _]]] _]]]]]. split; assumption.
  - destruct (Hout Hk) as [He|[[e [He _]]|[b [s [_ [G' [[_ [_ [Em _]]] _]]]]]]].
    + exfalso. apply (esc_capped c h t); [exact Hcap|exact He].
    + discriminate.
    + split; assumption.
Qed.

Lemma ins_keeps_good h t k v x :
  good c2 h t -> mhp t <= 16 ->
  snd (uprase_gen c2 h false t k v (fun _ _ => None)) = inr x ->
  good c2 h (fst (uprase_gen c2 h false t k v (fun _ _ => None))) /\
  mhp (fst (uprase_gen c2 h false t k v (fun _ _ => None))) = mhp t.
Proof.
  intros G Hcap E.
  apply (ins_keeps_good_gen c2 h false t k v x c2_ok eq_refl G); [right; exact Hcap|lia|exact E].
Qed.

(* ---- N1/N2: a displacement that succeeds at the first attempt.
   Identity hash, 4 buckets of 1 slot; keys 0 and 1 sit in buckets 0 and 1; key 4 has candidate
   buckets 0 and 1, both full: the BFS finds the path bucket 1 -> bucket 3 (depth 1). *)
Definition hid (k : N) : N := k.
Definition ins (t : table) (k : N) := uprase_gen c2 hid false t k 7%Z (fun _ _ => None).
Definition t0 := set_mhp (new_table c2 4) 10.
Definition t2 := fst (ins (fst (ins t0 0)) 1).

Lemma t0_good : good c2 hid t0.
Proof.
  apply (good_set_mhp c2 hid).
  - apply (good_new_table c2 hid c2_ok). vm_compute. reflexivity.
  - vm_compute. discriminate.
Qed.

Lemma t2_good : good c2 hid t2.
Proof.
  assert (H1 := ins_keeps_good hid t0 0 7%Z (true, [], (0, 0)) t0_good).
  destruct H1 as [G1 M1]; [vm_compute; discriminate|vm_compute; reflexivity|].
  assert (H2 := ins_keeps_good hid _ 1 7%Z (true, [], (1, 0)) G1).
  destruct H2 as [G2 _]; [rewrite M1; vm_compute; discriminate|vm_compute; reflexivity|].
  exact G2.
Qed.

Example run_cuckoo_displaces :
  settled c2 hid t2 /\
  (i1_of hid (bhp (cur t2)) 4, i2_of hid (bhp (cur t2)) 4) = (0, 1) /\
  snd (cuckoopath_search c2 hid false t2 2 0 1) =
    Some ([{| crbucket := 1; crslot := 0; crhash := 1; crpartial := 1 |};
           {| crbucket := 3; crslot := 0; crhash := 0; crpartial := 0 |}], 1) /\
  snd (run_cuckoo c2 hid false t2 0 1) = RC_ok 1 0 /\
  run_cuckoo_loop c2 hid false t2 2 0 1 1 = run_cuckoo c2 hid false t2 0 1 /\
  snd (cuckoo_insert c2 hid false t2 4 0 1) = CI_pos {| pindex := 1; pslot := 0; pstatus := St_ok |}.
Proof.
  split; [destruct t2_good as [St _]; exact St|]. vm_compute. repeat split.
Qed.

(* ---- N3: a failing insert that doubles the table four times and stops at the maximum
   hashpower, having used 5 of the 70 units of loop fuel (constant hash: the third key never fits) *)
Definition h0 (_ : N) : N := 0.
Definition ins0 (t : table) (k : N) := uprase_gen c2 h0 false t k 7%Z (fun _ _ => None).
Definition u0 := set_mlf (set_mhp (new_table c2 2) 5) 0 1.
Definition u2 := fst (ins0 (fst (ins0 u0 1)) 2).

Lemma u0_good : good c2 h0 u0.
Proof.
  apply (good_set_mlf c2 h0). apply (good_set_mhp c2 h0).
  - apply (good_new_table c2 h0 c2_ok). vm_compute. reflexivity.
  - vm_compute. discriminate.
Qed.

Lemma u2_good : good c2 h0 u2 /\ mhp u2 = 5.
Proof.
  assert (H1 := ins_keeps_good h0 u0 1 7%Z (true, [], (0, 0)) u0_good).
  destruct H1 as [G1 M1]; [vm_compute; discriminate|vm_compute; reflexivity|].
  assert (H2 := ins_keeps_good h0 _ 2 7%Z (true, [], (1, 0)) G1).
  destruct H2 as [G2 M2]; [rewrite M1; vm_compute; discriminate|vm_compute; reflexivity|].
  split; [exact G2|]. unfold u2, ins0. rewrite M2, M1. reflexivity.
Qed.

Example insert_doubles_without_fuel :
  nothrow c2 = true /\ good c2 h0 u2 /\ immediate c2 false u2 /\ mhp u2 <= 59 /\
  bhp (cur u2) = 1 /\
  snd (ins0 u2 3) = inl EMaxHashpower /\ bhp (cur (fst (ins0 u2 3))) = 5.
Proof.
  destruct u2_good as [G M].
  split; [reflexivity|]. split; [exact G|]. split; [right; rewrite M; vm_compute; discriminate|].
  split; [rewrite M; vm_compute; discriminate|]. vm_compute. repeat split.
Qed.

(* ---- M/N4: fuel that is too small is reported, enough fuel gives the model's answer.
   Shrinking u2 (2 elements, constant hash) to one bucket of one slot: the temporary map needs
   one automatic doubling.  With resize fuel 1 that doubling is out of fuel; with fuel 2 (and
   every larger fuel, by expand_simple_f_mono) the rehash succeeds at hashpower 1. *)
Example rehash_fuel :
  snd (expand_simple_f c2 h0 1 false false u2 0) = inl EOutOfFuel /\
  snd (expand_simple_f c2 h0 2 false false u2 0) = inr St_ok /\
  cuckoo_expand_simple c2 h0 false false u2 0 = expand_simple_f c2 h0 2 false false u2 0 /\
  snd (cuckoo_rehash c2 h0 false u2 0) = inr true.
Proof.
  split; [vm_compute; reflexivity|]. split; [vm_compute; reflexivity|]. split.
  - apply (cuckoo_expand_simple_stable c2 h0 2); [unfold resize_fuel; lia|vm_compute; discriminate].
  - vm_compute. reflexivity.
Qed.

(* ---- N1 with deferred migration: 2 lock stripes; a table of 4 buckets is doubled in normal
   mode, which defers the whole migration (both stripes un-migrated, the new array empty).
   run_cuckoo on that table migrates both stripes while it searches, finds the path
   bucket 0 -> bucket 5 and executes it at the first attempt. *)
Definition c3 : config := {| spb := 1; lbits := 1; simple := true; nothrow := true; destructive := false |}.

Lemma c3_ok : cfg_ok c3.
Proof. constructor; cbn; lia. Qed.

Definition insL (t : table) (k : N) := uprase_gen c3 hid true t k 7%Z (fun _ _ => None).
Definition v0 := set_mhp (new_table c3 4) 10.
Definition v2 := fst (insL (fst (insL v0 0)) 1).
Definition w := fast_double_body c3 hid false v2 3.

Lemma v2_good : good c3 hid v2.
Proof.
  assert (G0 : good c3 hid v0).
  { apply (good_set_mhp c3 hid).
    - apply (good_new_table c3 hid c3_ok). vm_compute. reflexivity.
    - vm_compute. discriminate. }
  assert (H1 := ins_keeps_good_gen c3 hid true v0 0 7%Z (true, [], (0, 0)) c3_ok eq_refl G0).
  destruct H1 as [G1 M1]; [left; reflexivity|vm_compute; discriminate|vm_compute; reflexivity|].
  assert (H2 := ins_keeps_good_gen c3 hid true _ 1 7%Z (true, [], (1, 0)) c3_ok eq_refl G1).
  destruct H2 as [G2 _]; [left; reflexivity|rewrite M1; vm_compute; discriminate|vm_compute; reflexivity|].
  exact G2.
Qed.

Example lazy_run_cuckoo_displaces :
  wf c3 hid w /\
  (mig (lock_at w 0), mig (lock_at w 1), nrem w) = (false, false, 2) /\
  snd (cuckoopath_search c3 hid false w 3 0 1) =
    Some ([{| crbucket := 0; crslot := 0; crhash := 0; crpartial := 0 |};
           {| crbucket := 5; crslot := 0; crhash := 0; crpartial := 0 |}], 1) /\
  snd (run_cuckoo c3 hid false w 0 1) = RC_ok 0 0 /\
  (let w' := fst (run_cuckoo c3 hid false w 0 1) in (mig (lock_at w' 0), mig (lock_at w' 1), nrem w'))
    = (true, true, 0).
Proof.
  split; [|vm_compute; repeat split].
  destruct v2_good as [St [Ct [_ [Hl _]]]].
  assert (E : bhp (cur v2) = 2) by (vm_compute; reflexivity).
  destruct (fast_double_body_deferred c3 hid c3_ok v2 St Ct) as [W _].
  - rewrite E. vm_compute. reflexivity.
  - rewrite E. vm_compute. discriminate.
  - exact Hl.
  - cbv zeta in W. rewrite E in W. exact W.
Qed.

End NoFuelExample.
