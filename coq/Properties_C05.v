(* C05 - size() and the derived statistics are exact at quiescence (model level, sequential).
   [counted c t] : the counters of the current lock array sum to the number of occupied slots.
   Statements only; closed by [exact] of lemmas of Stats.v. *)
From Coq Require Import NArith ZArith List.
From LC Require Import gen.HashGen Core Api InvDefs Stats.
Import ListNotations.
Local Open Scope N_scope.

Theorem C05_size_is_counter_sum :
  forall t, locks t <> [] -> (0 <= sum_cnt (cur_locks t) < 2 ^ 64)%Z -> Z.of_N (tsize t) = sum_cnt (cur_locks t).
Proof. exact tsize_spec. Qed.
Print Assumptions C05_size_is_counter_sum.

Theorem C05_fresh_table_counted :
  forall c hash n, cfg_ok c -> reserve_calc c n < 62 ->
  settled c hash (new_table c n) /\ counted c (new_table c n) /\ tsize (new_table c n) = 0 /\
  mhp (new_table c n) = NO_MAXIMUM_HASHPOWER /\ hashpower (new_table c n) = reserve_calc c n.
Proof. exact new_table_ok. Qed.
Print Assumptions C05_fresh_table_counted.

Theorem C05_insert_keeps_count :
  forall c hash t b s p k v, settled c hash t -> counted c t -> b < 2 ^ bhp (cur t) -> s < spb c ->
  bget (cur t) b s = None -> counted c (add_to_bucket c t b s p k v).
Proof. exact counted_add_to_bucket_settled. Qed.
Print Assumptions C05_insert_keeps_count.

Theorem C05_erase_keeps_count :
  forall c hash t b s e, settled c hash t -> counted c t -> bget (cur t) b s = Some e ->
  counted c (del_from_bucket c t b s).
Proof. exact counted_del_from_bucket_settled. Qed.
Print Assumptions C05_erase_keeps_count.

Theorem C05_lock_array_growth_keeps_count :
  forall c t nb, counted c t -> counted c (maybe_resize_locks c t nb).
Proof. exact counted_maybe_resize_locks. Qed.
Print Assumptions C05_lock_array_growth_keeps_count.

Theorem C05_clear_resets_count :
  forall c t, locks t <> [] -> counted c (cuckoo_clear t).
Proof. exact counted_cuckoo_clear. Qed.
Print Assumptions C05_clear_resets_count.

Theorem C05_clear_size_zero : forall t, tsize (cuckoo_clear t) = 0.
Proof. exact cuckoo_clear_tsize. Qed.
Print Assumptions C05_clear_size_zero.

Theorem C05_stream_extraction_sets_size :
  forall c t im, locks t <> [] -> cur_locks t <> [] ->
  sum_cnt (cur_locks (fst (stream_in c t im))) = Z.of_N (isize im).
Proof. exact stream_in_sum. Qed.
Print Assumptions C05_stream_extraction_sets_size.

Theorem C05_displacement_keeps_count :
  forall c a b1 s1 e b2 s2 e', b1 < 2 ^ bhp a -> s1 < spb c -> b2 < 2 ^ bhp a -> s2 < spb c ->
  bget a b1 s1 = Some e -> bget a b2 s2 = None ->
  count_arr c (bset (bset a b2 s2 (Some e')) b1 s1 None) = count_arr c a.
Proof. exact count_arr_move. Qed.
Print Assumptions C05_displacement_keeps_count.
