(* C05 - size() and the derived statistics are exact at quiescence (model level, sequential).
   [counted c t] : the counters of the current lock array sum to the number of occupied slots.
   Statements only; closed by [exact] of lemmas of Stats.v. *)
From Coq Require Import NArith ZArith List.
From LC Require Import gen.HashGen Core Api InvDefs ArrLemmas Stats InsertLemmas Resize Lazy.
Import ListNotations.
Local Open Scope N_scope.

Theorem C05_size_is_counter_sum :
  forall t, locks t <> [] -> (0 <= sum_cnt (cur_locks t) < 2 ^ 64)%Z -> Z.of_N (tsize t) = sum_cnt (cur_locks t).
Proof. exact tsize_spec. Qed.
Print Assumptions C05_size_is_counter_sum.

Theorem C05_fresh_table_counted :
  forall c hash n, cfg_ok c -> reserve_calc c n < 62 ->
  settled c hash (new_table c n) /\ counted c (new_table c n) /\ tsize (new_table c n) = 0 /\
  mhp (new_table c n) = NO_MAXIMUM_HASHPOWER /\ hashpower (new_table c n) = reserve_calc c n.
Proof. exact new_table_ok. Qed.
Print Assumptions C05_fresh_table_counted.

Theorem C05_insert_keeps_count :
  forall c hash t b s p k v, settled c hash t -> counted c t -> b < 2 ^ bhp (cur t) -> s < spb c ->
  bget (cur t) b s = None -> counted c (add_to_bucket c t b s p k v).
Proof. exact counted_add_to_bucket_settled. Qed.
Print Assumptions C05_insert_keeps_count.

Theorem C05_erase_keeps_count :
  forall c hash t b s e, settled c hash t -> counted c t -> bget (cur t) b s = Some e ->
  counted c (del_from_bucket c t b s).
Proof. exact counted_del_from_bucket_settled. Qed.
Print Assumptions C05_erase_keeps_count.

Theorem C05_lock_array_growth_keeps_count :
  forall c t nb, counted c t -> counted c (maybe_resize_locks c t nb).
Proof. exact counted_maybe_resize_locks. Qed.
Print Assumptions C05_lock_array_growth_keeps_count.

Theorem C05_clear_resets_count :
  forall c t, locks t <> [] -> counted c (cuckoo_clear t).
Proof. exact counted_cuckoo_clear. Qed.
Print Assumptions C05_clear_resets_count.

Theorem C05_clear_size_zero : forall t, tsize (cuckoo_clear t) = 0.
Proof. exact cuckoo_clear_tsize. Qed.
Print Assumptions C05_clear_size_zero.

Theorem C05_stream_extraction_sets_size :
  forall c t im, locks t <> [] -> cur_locks t <> [] ->
  sum_cnt (cur_locks (fst (stream_in c t im))) = Z.of_N (isize im).
Proof. exact stream_in_sum. Qed.
Print Assumptions C05_stream_extraction_sets_size.

Theorem C05_displacement_keeps_count :
  forall c a b1 s1 e b2 s2 e', b1 < 2 ^ bhp a -> s1 < spb c -> b2 < 2 ^ bhp a -> s2 < spb c ->
  bget a b1 s1 = Some e -> bget a b2 s2 = None ->
  count_arr c (bset (bset a b2 s2 (Some e')) b1 s1 None) = count_arr c a.
Proof. exact count_arr_move. Qed.
Print Assumptions C05_displacement_keeps_count.
(* ---- generated statements (tools/mkprops.py): counters through doubling and deferred migration ---- *)
(* [lcounted]: counter sum = elements of the current array + elements of pending old buckets (Lazy.v) *)

Theorem C05_doubling_keeps_count :
  forall (c : config) (hash : N -> N),
  cfg_ok c ->
  forall (mode : bool) (t : table),
  settled c hash t ->
  counted c t ->
  bhp (cur t) + 1 < 62 ->
  hashsize (bhp (cur t)) < kmax c \/ mode = true /\ (length (cur_locks t) <= N.to_nat (kmax c))%nat ->
  let t' := fast_double_body c hash mode t (bhp (cur t) + 1) in
  settled c hash t' /\
  counted c t' /\
  bhp (cur t') = bhp (cur t) + 1 /\
  (forall (k : N) (v : Z), holds (cur t') k v <-> holds (cur t) k v) /\
  rc t' = wrap64 (rc t + 1) /\
  mlfn t' = mlfn t /\
  mlfd t' = mlfd t /\
  mhp t' = mhp t /\
  workers t' = workers t /\
  nrem t' = 0 /\
  length (cur_locks t') =
  Nat.max (length (cur_locks t)) (N.to_nat (N.min (kmax c) (2 ^ (bhp (cur t) + 1)))).
Proof. exact fast_double_body_immediate. Qed.
Print Assumptions C05_doubling_keeps_count.

Theorem C05_deferred_doubling_keeps_count :
  forall (c : config) (hash : N -> N),
  cfg_ok c ->
  forall t : table,
  settled c hash t ->
  counted c t ->
  bhp (cur t) + 1 < 62 ->
  kmax c <= hashsize (bhp (cur t)) ->
  (length (cur_locks t) <= N.to_nat (kmax c))%nat ->
  let t' := fast_double_body c hash false t (bhp (cur t) + 1) in
  wf c hash t' /\
  lcounted c t' /\
  bhp (cur t') = bhp (cur t) + 1 /\
  (forall (k : N) (v : Z), lholds c t' k v <-> holds (cur t) k v) /\
  rc t' = wrap64 (rc t + 1) /\
  mlfn t' = mlfn t /\
  mlfd t' = mlfd t /\
  mhp t' = mhp t /\
  workers t' = workers t /\
  nrem t' = kmax c /\
  cur t' = bnew (bhp (cur t) + 1) /\
  old t' = cur t /\
  length (cur_locks t') = N.to_nat (kmax c) /\ (forall l : N, l < kmax c -> mig (lock_at t' l) = false).
Proof. exact fast_double_body_deferred. Qed.
Print Assumptions C05_deferred_doubling_keeps_count.

Theorem C05_stripe_migration_keeps_count :
  forall (c : config) (hash : N -> N),
  cfg_ok c ->
  forall (s : bool) (t : table) (l : N),
  wfg c hash s t ->
  let t' := rehash_lock c hash s t l in
  wfg c hash s t' /\
  (forall (k : N) (v : Z), lholds c t' k v <-> lholds c t k v) /\
  (lcounted c t -> lcounted c t') /\
  mig (lock_at t' l) = true /\
  (forall l' : N, l' <> l -> lock_at t' l' = lock_at t l') /\
  (forall l' : N, mig (lock_at t l') = true -> mig (lock_at t' l') = true) /\
  bhp (cur t') = bhp (cur t) /\
  bhp (old t') = bhp (old t) /\
  length (cur_locks t') = length (cur_locks t) /\
  rc t' = rc t /\
  mlfn t' = mlfn t /\
  mlfd t' = mlfd t /\
  mhp t' = mhp t /\
  workers t' = workers t /\
  (forall b s0 : N, mig (lock_at t (b mod kmax c)) = true -> bget (cur t') b s0 = bget (cur t) b s0).
Proof. exact rehash_lock_wf. Qed.
Print Assumptions C05_stripe_migration_keeps_count.

Theorem C05_lock_table_count_exact :
  forall (c : config) (hash : N -> N),
  cfg_ok c ->
  forall (s : bool) (t : table),
  wfg c hash s t ->
  let t' := rehash_with_workers c hash t in
  settled c hash t' /\
  (lcounted c t -> counted c t') /\
  (forall (k : N) (v : Z), holds (cur t') k v <-> lholds c t k v) /\
  bhp (cur t') = bhp (cur t) /\
  nrem t' = 0 /\
  length (cur_locks t') = length (cur_locks t) /\
  rc t' = rc t /\ mlfn t' = mlfn t /\ mlfd t' = mlfd t /\ mhp t' = mhp t /\ workers t' = workers t.
Proof. exact rehash_with_workers_wf. Qed.
Print Assumptions C05_lock_table_count_exact.

Theorem C05_count_predicates_agree_when_settled :
  forall (c : config) (t : table), all_migrated t -> lcounted c t <-> counted c t.
Proof. exact lcounted_settled. Qed.
Print Assumptions C05_count_predicates_agree_when_settled.

(* ---- size through deferred migration (LazyRefine.v): [lgood] includes [lcounted]; completing the migration keeps size and the load-factor test ---- *)
From LC Require Import LazyRefine.
Theorem C05_finishing_migration_keeps_size :
  forall (c : config) (hash : N -> N),
  cfg_ok c ->
  forall t : table,
  lgood c hash t ->
  Refine.good c hash (rehash_with_workers c hash t) /\
  (forall (k : N) (v : Z), holds (cur (rehash_with_workers c hash t)) k v <-> lholds c t k v) /\
  bhp (cur (rehash_with_workers c hash t)) = bhp (cur t) /\
  Refine.lim_same t (rehash_with_workers c hash t) /\
  rc (rehash_with_workers c hash t) = rc t /\
  nrem (rehash_with_workers c hash t) = 0 /\
  length (cur_locks (rehash_with_workers c hash t)) = length (cur_locks t) /\
  tsize (rehash_with_workers c hash t) = tsize t /\
  lf_lt_mlf c (rehash_with_workers c hash t) = lf_lt_mlf c t.
Proof. exact rww_lgood. Qed.
Print Assumptions C05_finishing_migration_keeps_size.

Theorem C05_clear_with_pending_stripes :
  forall (c : config) (hash : N -> N) (t : table),
  lgood c hash t ->
  Refine.good c hash (cuckoo_clear t) /\
  (forall (k : N) (v : Z), ~ lholds c (cuckoo_clear t) k v) /\
  Refine.lim_same t (cuckoo_clear t) /\
  bhp (cur (cuckoo_clear t)) = bhp (cur t) /\
  tsize (cuckoo_clear t) = 0 /\ bdead (old (cuckoo_clear t)) = true /\ nrem (cuckoo_clear t) = 0.
Proof. exact cuckoo_clear_lgood. Qed.
Print Assumptions C05_clear_with_pending_stripes.
