(* C02 - Sequential behaviour refines an associative map (model level; grows with the proofs).
   [settled c hash t] : no deferred migration pending, the current array is a well-formed cuckoo
   table (every element in one of its two candidate buckets, right tag, no key twice).
   [holds (cur t) k v] : the abstract map maps k to v.
   Statements only; closed by [exact] of lemmas of ArrLemmas.v. *)
From Coq Require Import NArith ZArith List.
From LC Require Import gen.HashGen Core Api InvDefs ArrLemmas.
Import ListNotations.
Local Open Scope N_scope.

(* lookup finds a key iff it is in the table, from its hash alone *)
Theorem C02_lookup_complete_and_sound :
  forall c hash t k, arr_ok c hash (cur t) ->
  let hp := bhp (cur t) in
  let pos := cuckoo_find c t k (partial_key (hash k)) (i1_of hash hp k) (i2_of hash hp k) in
  (key_in (cur t) k -> pstatus pos = St_ok /\ exists e, bget (cur t) (pindex pos) (pslot pos) = Some e /\ ekey e = k) /\
  (~ key_in (cur t) k -> pstatus pos = St_not_found).
Proof. exact cuckoo_find_spec. Qed.
Print Assumptions C02_lookup_complete_and_sound.

(* inserting a new key into a free candidate slot adds exactly that pair *)
Theorem C02_add_adds_exactly_one_pair :
  forall c hash t b s k v, settled c hash t -> bget (cur t) b s = None -> b < 2 ^ bhp (cur t) -> s < spb c ->
  cand hash (bhp (cur t)) k b -> ~ key_in (cur t) k ->
  let t' := add_to_bucket c t b s (partial_key (hash k)) k v in
  settled c hash t' /\ bhp (cur t') = bhp (cur t) /\
  forall k' v', holds (cur t') k' v' <-> (k' = k /\ v' = v) \/ (k' <> k /\ holds (cur t) k' v').
Proof. exact add_to_bucket_settled. Qed.
Print Assumptions C02_add_adds_exactly_one_pair.

Theorem C02_delete_removes_exactly_one_pair :
  forall c hash t b s e, settled c hash t -> bget (cur t) b s = Some e ->
  let t' := del_from_bucket c t b s in
  settled c hash t' /\ bhp (cur t') = bhp (cur t) /\
  forall k' v', holds (cur t') k' v' <-> (holds (cur t) k' v' /\ k' <> ekey e).
Proof. exact del_from_bucket_settled. Qed.
Print Assumptions C02_delete_removes_exactly_one_pair.

(* bucket displacement along ANY well-formed path (the BFS result is untrusted input, as in the
   code: each hop is re-validated) neither loses, duplicates nor alters a pair, whether or not the
   path turns out to be stale *)
Theorem C02_displacement_preserves_contents :
  forall c hash mode t path depth i1 i2, settled c hash t -> path_wf (bhp (cur t)) path ->
  (N.to_nat depth < length path)%nat -> Forall (fun r => crslot r < spb c) path ->
  exists t' ok, cuckoopath_move c hash mode t path depth i1 i2 = (t', ok) /\ settled c hash t' /\
    bhp (cur t') = bhp (cur t) /\ locks t' = locks t /\
    (forall k v, holds (cur t') k v <-> holds (cur t) k v) /\
    (ok = true -> bget (cur t') (crbucket (nth_rec path 0)) (crslot (nth_rec path 0)) = None).
Proof. exact cuckoopath_move_settled. Qed.
Print Assumptions C02_displacement_preserves_contents.

(* find / update / erase behave like a map (same theorem as C17's, stated here for the map view) *)
Theorem C02_lookup_update_erase_refine_map :
  forall c hash mode t k g v, settled c hash t -> holds (cur t) k v ->
  exists t', lookup_fn c hash mode t k g = (t', Some v) /\ settled c hash t' /\ bhp (cur t') = bhp (cur t) /\
    forall k' v', holds (cur t') k' v' <->
      (k' <> k /\ holds (cur t) k' v') \/ (k' = k /\ snd (g v) = false /\ v' = fst (g v)).
Proof. exact lookup_fn_present. Qed.
Print Assumptions C02_lookup_update_erase_refine_map.
