(* C02 - Sequential behaviour refines an associative map (model level; grows with the proofs).
   [settled c hash t] : no deferred migration pending, the current array is a well-formed cuckoo
   table (every element in one of its two candidate buckets, right tag, no key twice).
   [holds (cur t) k v] : the abstract map maps k to v.
   Statements only; closed by [exact] of lemmas of ArrLemmas.v. *)
From Coq Require Import NArith ZArith List.
From LC Require Import gen.HashGen Core Api InvDefs ArrLemmas Stats InsertLemmas Resize Lazy Refine.
Import ListNotations.
Local Open Scope N_scope.

(* lookup finds a key iff it is in the table, from its hash alone *)
Theorem C02_lookup_complete_and_sound :
  forall c hash t k, arr_ok c hash (cur t) ->
  let hp := bhp (cur t) in
  let pos := cuckoo_find c t k (partial_key (hash k)) (i1_of hash hp k) (i2_of hash hp k) in
  (key_in (cur t) k -> pstatus pos = St_ok /\ exists e, bget (cur t) (pindex pos) (pslot pos) = Some e /\ ekey e = k) /\
  (~ key_in (cur t) k -> pstatus pos = St_not_found).
Proof. exact cuckoo_find_spec. Qed.
Print Assumptions C02_lookup_complete_and_sound.

(* inserting a new key into a free candidate slot adds exactly that pair *)
Theorem C02_add_adds_exactly_one_pair :
  forall c hash t b s k v, settled c hash t -> bget (cur t) b s = None -> b < 2 ^ bhp (cur t) -> s < spb c ->
  cand hash (bhp (cur t)) k b -> ~ key_in (cur t) k ->
  let t' := add_to_bucket c t b s (partial_key (hash k)) k v in
  settled c hash t' /\ bhp (cur t') = bhp (cur t) /\
  forall k' v', holds (cur t') k' v' <-> (k' = k /\ v' = v) \/ (k' <> k /\ holds (cur t) k' v').
Proof. exact add_to_bucket_settled. Qed.
Print Assumptions C02_add_adds_exactly_one_pair.

Theorem C02_delete_removes_exactly_one_pair :
  forall c hash t b s e, settled c hash t -> bget (cur t) b s = Some e ->
  let t' := del_from_bucket c t b s in
  settled c hash t' /\ bhp (cur t') = bhp (cur t) /\
  forall k' v', holds (cur t') k' v' <-> (holds (cur t) k' v' /\ k' <> ekey e).
Proof. exact del_from_bucket_settled. Qed.
Print Assumptions C02_delete_removes_exactly_one_pair.

(* bucket displacement along ANY well-formed path (the BFS result is untrusted input, as in the
   code: each hop is re-validated) neither loses, duplicates nor alters a pair, whether or not the
   path turns out to be stale *)
Theorem C02_displacement_preserves_contents :
  forall c hash mode t path depth i1 i2, settled c hash t -> path_wf (bhp (cur t)) path ->
  (N.to_nat depth < length path)%nat -> Forall (fun r => crslot r < spb c) path ->
  exists t' ok, cuckoopath_move c hash mode t path depth i1 i2 = (t', ok) /\ settled c hash t' /\
    bhp (cur t') = bhp (cur t) /\ locks t' = locks t /\
    (forall k v, holds (cur t') k v <-> holds (cur t) k v) /\
    (ok = true -> bget (cur t') (crbucket (nth_rec path 0)) (crslot (nth_rec path 0)) = None).
Proof. exact cuckoopath_move_settled. Qed.
Print Assumptions C02_displacement_preserves_contents.

(* find / update / erase behave like a map (same theorem as C17's, stated here for the map view) *)
Theorem C02_lookup_update_erase_refine_map :
  forall c hash mode t k g v, settled c hash t -> holds (cur t) k v ->
  exists t', lookup_fn c hash mode t k g = (t', Some v) /\ settled c hash t' /\ bhp (cur t') = bhp (cur t) /\
    forall k' v', holds (cur t') k' v' <->
      (k' <> k /\ holds (cur t) k' v') \/ (k' = k /\ snd (g v) = false /\ v' = fst (g v)).
Proof. exact lookup_fn_present. Qed.
Print Assumptions C02_lookup_update_erase_refine_map.
(* ---- generated statements (tools/mkprops.py): insertion path, doubling, deferred migration ---- *)
(* [wf]/[lholds]: invariant and abstraction of a table with deferred migration pending (Lazy.v);
   they collapse to [settled]/[holds] when nothing is pending (Lazy.wfg_settled, lholds_settled). *)

Theorem C02_insert_path_specification :
  forall (c : config) (hash : N -> N),
  cfg_ok c ->
  forall (mode : bool) (t : table) (k : N),
  settled c hash t ->
  let hp := bhp (cur t) in
  let i1 := i1_of hash hp k in
  let i2 := i2_of hash hp k in
  exists (t' : table) (res : ci_result),
  cuckoo_insert c hash mode t k i1 i2 = (t', res) /\
  same_contents c hash t t' /\
  (key_in (cur t) k ->
  exists pos : table_position,
  res = CI_pos pos /\
  pstatus pos = St_duplicated /\
  (exists e : entry, bget (cur t') (pindex pos) (pslot pos) = Some e /\ ekey e = k)) /\
  (~ key_in (cur t) k ->
  res = CI_fuel \/
  (exists pos : table_position,
  res = CI_pos pos /\
  (pstatus pos = St_ok /\
  bget (cur t') (pindex pos) (pslot pos) = None /\
  (pindex pos = i1 \/ pindex pos = i2) /\ pslot pos < spb c \/ pstatus pos = St_table_full))).
Proof. exact cuckoo_insert_spec. Qed.
Print Assumptions C02_insert_path_specification.

Theorem C02_displacement_search_well_formed_and_bounded :
  forall (c : config) (hash : N -> N),
  cfg_ok c ->
  forall (mode : bool) (t : table) (hp i1 i2 : N) (t' : table) (path : list cuckoo_record) (depth : N),
  all_migrated t ->
  cuckoopath_search c hash mode t hp i1 i2 = (t', Some (path, depth)) ->
  t' = t /\
  (N.to_nat depth < length path)%nat /\
  Forall (slot_ok c) path /\
  path_wf hp path /\ (crbucket (nth_rec path 0) = i1 \/ crbucket (nth_rec path 0) = i2) /\ depth <= 4.
Proof. exact cuckoopath_search_shape. Qed.
Print Assumptions C02_displacement_search_well_formed_and_bounded.

Theorem C02_bfs_queue_never_overflows :
  forall (c : config) (hash : N -> N),
  cfg_ok c ->
  forall (mode : bool) (t : table) (hp i1 i2 : N) (extra : nat),
  slot_search_loop c hash mode t hp (bfs_init i1 i2) (S (N.to_nat (max_cuckoo_count c)) + extra) =
  slot_search c hash mode t hp i1 i2.
Proof. exact slot_search_fuel_enough. Qed.
Print Assumptions C02_bfs_queue_never_overflows.

Theorem C02_split_decision_on_doubling :
  forall (hash : N -> N) (ohp k b : N),
  ohp + 1 < 62 ->
  b < 2 ^ ohp ->
  cand hash ohp k b ->
  let nb := wrap64 (b + hashsize ohp) in
  let h := hash k in
  let p := partial_key h in
  let old_ihash := index_hash ohp h in
  let old_ahash := alt_index ohp p old_ihash in
  let new_ihash := index_hash (ohp + 1) h in
  let new_ahash := alt_index (ohp + 1) p new_ihash in
  let to_new := ((b =? old_ihash) && (new_ihash =? nb) || (b =? old_ahash) && (new_ahash =? nb))%bool in
  nb = b + 2 ^ ohp /\
  (to_new = true -> cand hash (ohp + 1) k nb) /\ (to_new = false -> cand hash (ohp + 1) k b).
Proof. exact move_decision. Qed.
Print Assumptions C02_split_decision_on_doubling.

Theorem C02_immediate_doubling_preserves_contents :
  forall (c : config) (hash : N -> N),
  cfg_ok c ->
  forall (mode : bool) (t : table),
  settled c hash t ->
  counted c t ->
  bhp (cur t) + 1 < 62 ->
  hashsize (bhp (cur t)) < kmax c \/ mode = true /\ (length (cur_locks t) <= N.to_nat (kmax c))%nat ->
  let t' := fast_double_body c hash mode t (bhp (cur t) + 1) in
  settled c hash t' /\
  counted c t' /\
  bhp (cur t') = bhp (cur t) + 1 /\
  (forall (k : N) (v : Z), holds (cur t') k v <-> holds (cur t) k v) /\
  rc t' = wrap64 (rc t + 1) /\
  mlfn t' = mlfn t /\
  mlfd t' = mlfd t /\
  mhp t' = mhp t /\
  workers t' = workers t /\
  nrem t' = 0 /\
  length (cur_locks t') =
  Nat.max (length (cur_locks t)) (N.to_nat (N.min (kmax c) (2 ^ (bhp (cur t) + 1)))).
Proof. exact fast_double_body_immediate. Qed.
Print Assumptions C02_immediate_doubling_preserves_contents.

Theorem C02_deferred_doubling_preserves_contents :
  forall (c : config) (hash : N -> N),
  cfg_ok c ->
  forall t : table,
  settled c hash t ->
  counted c t ->
  bhp (cur t) + 1 < 62 ->
  kmax c <= hashsize (bhp (cur t)) ->
  (length (cur_locks t) <= N.to_nat (kmax c))%nat ->
  let t' := fast_double_body c hash false t (bhp (cur t) + 1) in
  wf c hash t' /\
  lcounted c t' /\
  bhp (cur t') = bhp (cur t) + 1 /\
  (forall (k : N) (v : Z), lholds c t' k v <-> holds (cur t) k v) /\
  rc t' = wrap64 (rc t + 1) /\
  mlfn t' = mlfn t /\
  mlfd t' = mlfd t /\
  mhp t' = mhp t /\
  workers t' = workers t /\
  nrem t' = kmax c /\
  cur t' = bnew (bhp (cur t) + 1) /\
  old t' = cur t /\
  length (cur_locks t') = N.to_nat (kmax c) /\ (forall l : N, l < kmax c -> mig (lock_at t' l) = false).
Proof. exact fast_double_body_deferred. Qed.
Print Assumptions C02_deferred_doubling_preserves_contents.

Theorem C02_stripe_migration_preserves_contents :
  forall (c : config) (hash : N -> N),
  cfg_ok c ->
  forall (s : bool) (t : table) (l : N),
  wfg c hash s t ->
  let t' := rehash_lock c hash s t l in
  wfg c hash s t' /\
  (forall (k : N) (v : Z), lholds c t' k v <-> lholds c t k v) /\
  (lcounted c t -> lcounted c t') /\
  mig (lock_at t' l) = true /\
  (forall l' : N, l' <> l -> lock_at t' l' = lock_at t l') /\
  (forall l' : N, mig (lock_at t l') = true -> mig (lock_at t' l') = true) /\
  bhp (cur t') = bhp (cur t) /\
  bhp (old t') = bhp (old t) /\
  length (cur_locks t') = length (cur_locks t) /\
  rc t' = rc t /\
  mlfn t' = mlfn t /\
  mlfd t' = mlfd t /\
  mhp t' = mhp t /\
  workers t' = workers t /\
  (forall b s0 : N, mig (lock_at t (b mod kmax c)) = true -> bget (cur t') b s0 = bget (cur t) b s0).
Proof. exact rehash_lock_wf. Qed.
Print Assumptions C02_stripe_migration_preserves_contents.

Theorem C02_lock_table_finishes_migration :
  forall (c : config) (hash : N -> N),
  cfg_ok c ->
  forall (s : bool) (t : table),
  wfg c hash s t ->
  let t' := rehash_with_workers c hash t in
  settled c hash t' /\
  (lcounted c t -> counted c t') /\
  (forall (k : N) (v : Z), holds (cur t') k v <-> lholds c t k v) /\
  bhp (cur t') = bhp (cur t) /\
  nrem t' = 0 /\
  length (cur_locks t') = length (cur_locks t) /\
  rc t' = rc t /\ mlfn t' = mlfn t /\ mlfd t' = mlfd t /\ mhp t' = mhp t /\ workers t' = workers t.
Proof. exact rehash_with_workers_wf. Qed.
Print Assumptions C02_lock_table_finishes_migration.

Theorem C02_lookup_through_deferred_migration :
  forall (c : config) (hash : N -> N),
  cfg_ok c ->
  forall (t : table) (k : N) (g : Z -> Z * bool),
  wf c hash t ->
  (forall v : Z,
  lholds c t k v ->
  exists t' : table,
  lookup_fn c hash false t k g = (t', Some v) /\
  wf c hash t' /\
  bhp (cur t') = bhp (cur t) /\
  (lcounted c t -> lcounted c t') /\
  (forall (k' : N) (v' : Z),
  lholds c t' k' v' <-> k' <> k /\ lholds c t k' v' \/ k' = k /\ snd (g v) = false /\ v' = fst (g v))) /\
  ((forall v : Z, ~ lholds c t k v) ->
  exists t' : table, lookup_fn c hash false t k g = (t', None) /\ wf c hash t' /\ lstep c t t').
Proof. exact lookup_fn_wf. Qed.
Print Assumptions C02_lookup_through_deferred_migration.

Theorem C02_insert_path_through_deferred_migration :
  forall (c : config) (hash : N -> N),
  cfg_ok c ->
  forall (t : table) (k : N),
  wf c hash t ->
  let hp := bhp (cur t) in
  let i1 := i1_of hash hp k in
  let i2 := i2_of hash hp k in
  mig (lock_at t (lockind c i1)) = true ->
  mig (lock_at t (lockind c i2)) = true ->
  exists (t' : table) (res : ci_result),
  cuckoo_insert c hash false t k i1 i2 = (t', res) /\
  wf c hash t' /\
  lmv c t t' /\
  ((exists v : Z, lholds c t k v) ->
  exists pos : table_position,
  res = CI_pos pos /\
  pstatus pos = St_duplicated /\
  (exists e : entry, bget (cur t') (pindex pos) (pslot pos) = Some e /\ ekey e = k)) /\
  ((forall v : Z, ~ lholds c t k v) ->
  res = CI_fuel \/
  (exists pos : table_position,
  res = CI_pos pos /\
  (pstatus pos = St_ok /\
  bget (cur t') (pindex pos) (pslot pos) = None /\
  (pindex pos = i1 \/ pindex pos = i2) /\ pslot pos < spb c \/ pstatus pos = St_table_full))).
Proof. exact cuckoo_insert_wf. Qed.
Print Assumptions C02_insert_path_through_deferred_migration.

Theorem C02_insert_new_key_no_expansion :
  forall (c : config) (hash : N -> N),
  cfg_ok c ->
  forall (mode : bool) (t : table) (k : N) (v : Z) (t1 : table) (pos : table_position),
  settled c hash t ->
  cuckoo_insert c hash mode t k (i1_of hash (bhp (cur t)) k) (i2_of hash (bhp (cur t)) k) =
  (t1, CI_pos pos) ->
  pstatus pos = St_ok ->
  exists t2 : table,
  uprase_gen c hash mode t k v (fun (_ : Z) (_ : bool) => None) =
  (t2, inr (true, [], (pindex pos, pslot pos))) /\
  ~ key_in (cur t) k /\
  settled c hash t2 /\
  bhp (cur t2) = bhp (cur t) /\
  (forall (k' : N) (v' : Z),
  holds (cur t2) k' v' <-> k' = k /\ v' = v \/ k' <> k /\ holds (cur t) k' v').
Proof. exact uprase_gen_insert_new. Qed.
Print Assumptions C02_insert_new_key_no_expansion.
(* ---- generated statements (tools/mkprops.py): the API on settled tables (Refine.v) ---- *)
(* [good t] = settled, counted, hashpower < 60, lock array <= stripe count, hashpower within the maximum;
   [immediate mode t] = locked_table mode or maximum hashpower <= log2(stripe count): every doubling is immediate;
   [evolves t t'] = good t' with equal contents and limits; [esc t] = the run reached a 2^59-bucket table. *)

Theorem C02_insert_family_refines_map :
  forall (c : config) (hash : N -> N),
  cfg_ok c ->
  forall (mode : bool) (t : table) (k : N) (v : Z) (g : Z -> bool -> option (Z * bool)),
  nothrow c = true ->
  good c hash t ->
  immediate c mode t ->
  forall (t' : table) (r : exn + bool * list rv * (N * N)),
  uprase_gen c hash mode t k v g = (t', r) ->
  (forall v0 : Z,
  holds (cur t) k v0 ->
  exists b s : N,
  r = inr (false, log_of g v0 false, (b, s)) /\
  good c hash t' /\
  lim_same t t' /\
  immediate c mode t' /\
  bhp (cur t') = bhp (cur t) /\
  upd_holds (cur t) (cur t') k (final_of g v0 false) /\
  (forall vf : Z,
  final_of g v0 false = Some vf ->
  exists e : entry, bget (cur t') b s = Some e /\ ekey e = k /\ eval e = vf)) /\
  (~ key_in (cur t) k ->
  esc c hash t \/
  (exists e : exn, r = inl e /\ exn_ok c true t t' e /\ evolves c hash t t' /\ immediate c mode t') \/
  (exists b s : N,
  r = inr (true, log_of g v true, (b, s)) /\
  good c hash t' /\
  lim_same t t' /\
  immediate c mode t' /\
  bhp (cur t) <= bhp (cur t') /\
  upd_holds (cur t) (cur t') k (final_of g v true) /\
  (forall vf : Z,
  final_of g v true = Some vf ->
  exists e : entry, bget (cur t') b s = Some e /\ ekey e = k /\ eval e = vf))).
Proof. exact uprase_gen_good. Qed.
Print Assumptions C02_insert_family_refines_map.

Theorem C02_insert_family_any_element_type :
  forall (c : config) (hash : N -> N),
  cfg_ok c ->
  forall (mode : bool) (t : table) (k : N) (v : Z) (g : Z -> bool -> option (Z * bool)),
  good c hash t ->
  limC c (mhp t) ->
  forall (t' : table) (r : exn + bool * list rv * (N * N)),
  uprase_gen c hash mode t k v g = (t', r) -> up_post c hash t k v g t' r.
Proof. exact uprase_gen_good_capped. Qed.
Print Assumptions C02_insert_family_any_element_type.

Theorem C02_rebuild_preserves_contents :
  forall (c : config) (hash : N -> N),
  cfg_ok c ->
  forall (auto mode : bool) (t : table) (new_hp : N),
  good c hash t ->
  limC c (mhp t) ->
  let r := cuckoo_expand_simple c hash auto mode t new_hp in
  (maxed t new_hp -> r = (t, inl EMaxHashpower)) /\
  (~ maxed t new_hp -> auto = true -> lf_lt_mlf c t = true -> r = (t, inl ELoadFactorTooLow)) /\
  es_post c hash auto t new_hp r.
Proof. exact cuckoo_expand_simple_good. Qed.
Print Assumptions C02_rebuild_preserves_contents.

Theorem C02_rehash_refines :
  forall (c : config) (hash : N -> N),
  cfg_ok c ->
  forall (mode : bool) (t : table) (n : N),
  good c hash t ->
  limC c (mhp t) ->
  forall (t' : table) (r : exn + bool),
  cuckoo_rehash c hash mode t n = (t', r) ->
  (r = inr false <-> n = bhp (cur t)) /\
  (r = inr false -> t' = t) /\
  (r = inr true ->
  good c hash t' /\
  (forall (k : N) (v : Z), holds (cur t') k v <-> holds (cur t) k v) /\
  lim_same t t' /\ n <= bhp (cur t') /\ rc t' = wrap64 (rc t + 1) /\ ~ maxed t n) /\
  (forall e : exn,
  r = inl e ->
  n <> bhp (cur t) /\
  exn_ok0 false t e /\
  e <> ELoadFactorTooLow /\
  (maxed t n -> t' = t /\ e = EMaxHashpower) /\
  (destructive c = false -> evolves c hash t t' /\ bhp (cur t') = bhp (cur t))).
Proof. exact cuckoo_rehash_good. Qed.
Print Assumptions C02_rehash_refines.

Theorem C02_reserve_refines :
  forall (c : config) (hash : N -> N),
  cfg_ok c ->
  forall (mode : bool) (t : table) (n : N),
  good c hash t ->
  limC c (mhp t) ->
  forall (t' : table) (r : exn + bool),
  cuckoo_reserve c hash mode t n = (t', r) ->
  let new_hp := reserve_calc c n in
  (r = inr false <-> new_hp = bhp (cur t)) /\
  (r = inr false -> t' = t) /\
  (r = inr true ->
  good c hash t' /\
  (forall (k : N) (v : Z), holds (cur t') k v <-> holds (cur t) k v) /\
  lim_same t t' /\
  new_hp <= bhp (cur t') /\
  rc t' = wrap64 (rc t + 1) /\
  ~ maxed t new_hp /\ (n + spb c < 2 ^ 64 -> n <= 2 ^ bhp (cur t') * spb c)) /\
  (forall e : exn,
  r = inl e ->
  new_hp <> bhp (cur t) /\
  exn_ok0 false t e /\
  e <> ELoadFactorTooLow /\
  (maxed t new_hp -> t' = t /\ e = EMaxHashpower) /\
  (destructive c = false -> evolves c hash t t' /\ bhp (cur t') = bhp (cur t))).
Proof. exact cuckoo_reserve_good. Qed.
Print Assumptions C02_reserve_refines.

Theorem C02_clear_refines :
  forall (c : config) (hash : N -> N) (t : table),
  good c hash t ->
  good c hash (cuckoo_clear t) /\
  (forall (k : N) (v : Z), ~ holds (cur (cuckoo_clear t)) k v) /\
  lim_same t (cuckoo_clear t) /\ bhp (cur (cuckoo_clear t)) = bhp (cur t) /\ tsize (cuckoo_clear t) = 0.
Proof. exact cuckoo_clear_good. Qed.
Print Assumptions C02_clear_refines.

Theorem C02_iteration_equals_contents :
  forall (c : config) (hash : N -> N),
  cfg_ok c ->
  forall t : table,
  good c hash t ->
  let out := traverse_fwd c t (it_begin c t) (trav_fuel c t) in
  (forall (k : N) (v : Z), In (RKV k v) out <-> holds (cur t) k v) /\
  (forall (k : N) (v : Z), In (k, v) (kvs out) <-> holds (cur t) k v) /\
  NoDup (map fst (kvs out)) /\ length (kvs out) = count_arr c (cur t).
Proof. exact traverse_fwd_good. Qed.
Print Assumptions C02_iteration_equals_contents.

Theorem C02_lookup_family_refines_map :
  forall (c : config) (hash : N -> N) (mode : bool) (t : table) (k : N) (g : Z -> Z * bool),
  good c hash t ->
  forall (t' : table) (r : option Z),
  lookup_fn c hash mode t k g = (t', r) ->
  good c hash t' /\
  lim_same t t' /\
  bhp (cur t') = bhp (cur t) /\
  (~ key_in (cur t) k /\ r = None /\ t' = t \/
  (exists v0 : Z,
  holds (cur t) k v0 /\
  r = Some v0 /\ upd_holds (cur t) (cur t') k (if snd (g v0) then None else Some (fst (g v0))))).
Proof. exact lookup_fn_good. Qed.
Print Assumptions C02_lookup_family_refines_map.

(* ---- refinement THROUGH deferred migration (LazyRefine.v): [lgood] = well-formed table with possibly pending stripes, [lholds] = abstract contents (current array + unmigrated stripes of the superseded array), [rep t m] = lholds is the map m ---- *)
From LC Require Import LazyRefine.
Theorem C02_deferred_state_is_reached :
  forall (c : config) (hash : N -> N),
  cfg_ok c ->
  forall t : table,
  lgood c hash t ->
  bhp (cur t) + 1 < 60 ->
  ~ maxed t (bhp (cur t) + 1) ->
  kmax c <= hashsize (bhp (cur t)) ->
  let t' := fast_double_body c hash false t (bhp (cur t) + 1) in
  lgood c hash t' /\ ~ all_migrated t' /\ ~ good c hash t'.
Proof. exact deferred_state_reached. Qed.
Print Assumptions C02_deferred_state_is_reached.

Theorem C02_every_normal_mode_operation_refines_the_map_through_deferred_migration :
  forall (c : config) (hash : N -> N),
  cfg_ok c ->
  forall (fapply : fnk -> Z -> bool -> Z * bool) (w : world) (a : nat) (s : tslot)
  (o : op) (w' : world) (r : out) (m : amap),
  nothrow c = true ->
  active s = false ->
  normal_op o = true ->
  lgood c hash (tb s) ->
  rep c (tb s) m ->
  op_pre c (tb s) o ->
  step_some c hash fapply w a s o = (w', r) ->
  lesc c hash (tb s) \/
  (exists (t' : table) (m' : amap),
  w' = put_t w a s t' /\
  lgood c hash t' /\ lim_same (tb s) t' /\ rep c t' m' /\ op_spec c fapply (tb s) m o r m').
Proof. exact normal_mode_op_refines. Qed.
Print Assumptions C02_every_normal_mode_operation_refines_the_map_through_deferred_migration.

Theorem C02_lookup_family_through_deferred_migration :
  forall (c : config) (hash : N -> N),
  cfg_ok c ->
  forall (t : table) (k : N) (g : Z -> Z * bool),
  lgood c hash t ->
  forall (t' : table) (r : option Z),
  lookup_fn c hash false t k g = (t', r) ->
  lgood c hash t' /\
  lim_same t t' /\
  bhp (cur t') = bhp (cur t) /\
  ((forall v : Z, ~ lholds c t k v) /\ r = None /\ levolves c hash t t' \/
  (exists v0 : Z,
  lholds c t k v0 /\ r = Some v0 /\ lupd c t t' k (if snd (g v0) then None else Some (fst (g v0))))).
Proof. exact lookup_fn_lgood. Qed.
Print Assumptions C02_lookup_family_through_deferred_migration.

Theorem C02_insert_family_through_deferred_migration :
  forall (c : config) (hash : N -> N),
  cfg_ok c ->
  forall (t : table) (k : N) (v : Z) (g : Z -> bool -> option (Z * bool)),
  nothrow c = true ->
  lgood c hash t ->
  forall (t' : table) (r : exn + bool * list rv * (N * N)),
  uprase_gen c hash false t k v g = (t', r) ->
  (forall v0 : Z,
  lholds c t k v0 ->
  exists b s : N,
  r = inr (false, log_of g v0 false, (b, s)) /\
  lgood c hash t' /\
  lim_same t t' /\
  bhp (cur t') = bhp (cur t) /\
  lupd c t t' k (final_of g v0 false) /\
  (forall vf : Z,
  final_of g v0 false = Some vf ->
  exists e : entry, bget (cur t') b s = Some e /\ ekey e = k /\ eval e = vf)) /\
  ((forall v0 : Z, ~ lholds c t k v0) ->
  lesc c hash t \/
  (exists e : exn, r = inl e /\ exn_ok c true t t' e /\ levolves c hash t t') \/
  (exists b s : N,
  r = inr (true, log_of g v true, (b, s)) /\
  lgood c hash t' /\
  lim_same t t' /\
  bhp (cur t) <= bhp (cur t') /\
  lupd c t t' k (final_of g v true) /\
  (forall vf : Z,
  final_of g v true = Some vf ->
  exists e : entry, bget (cur t') b s = Some e /\ ekey e = k /\ eval e = vf))).
Proof. exact uprase_gen_lgood. Qed.
Print Assumptions C02_insert_family_through_deferred_migration.

Theorem C02_doubling_of_a_table_with_pending_stripes :
  forall (c : config) (hash : N -> N),
  cfg_ok c ->
  forall t : table,
  nothrow c = true ->
  lgood c hash t ->
  let hp := bhp (cur t) in
  (maxed t (hp + 1) -> cuckoo_fast_double c hash false t hp = (t, inl EMaxHashpower)) /\
  (~ maxed t (hp + 1) ->
  lf_lt_mlf c t = true -> cuckoo_fast_double c hash false t hp = (t, inl ELoadFactorTooLow)) /\
  (~ maxed t (hp + 1) ->
  lf_lt_mlf c t = false ->
  cuckoo_fast_double c hash false t hp = (fast_double_body c hash false t (hp + 1), inr St_ok) /\
  (hp + 1 < 60 ->
  let t' := fast_double_body c hash false t (hp + 1) in
  lgood c hash t' /\
  bhp (cur t') = hp + 1 /\
  (forall (k : N) (v : Z), lholds c t' k v <-> lholds c t k v) /\
  lim_same t t' /\ rc t' = wrap64 (rc t + 1))).
Proof. exact cuckoo_fast_double_lgood. Qed.
Print Assumptions C02_doubling_of_a_table_with_pending_stripes.

Theorem C02_rehash_through_deferred_migration :
  forall (c : config) (hash : N -> N),
  cfg_ok c ->
  forall (t : table) (n : N),
  lgood c hash t ->
  limC c (mhp t) ->
  forall (t' : table) (r : exn + bool),
  cuckoo_rehash c hash false t n = (t', r) ->
  (r = inr false <-> n = bhp (cur t)) /\
  (r = inr false -> t' = t) /\
  (r = inr true ->
  good c hash t' /\
  (forall (k : N) (v : Z), holds (cur t') k v <-> lholds c t k v) /\
  lim_same t t' /\ n <= bhp (cur t') /\ rc t' = wrap64 (rc t + 1) /\ ~ maxed t n) /\
  (forall e : exn,
  r = inl e ->
  n <> bhp (cur t) /\
  exn_ok0 false t e /\
  e <> ELoadFactorTooLow /\
  (maxed t n -> t' = t /\ e = EMaxHashpower) /\
  (destructive c = false -> levolves c hash t t' /\ bhp (cur t') = bhp (cur t))).
Proof. exact cuckoo_rehash_lgood. Qed.
Print Assumptions C02_rehash_through_deferred_migration.

Theorem C02_reserve_through_deferred_migration :
  forall (c : config) (hash : N -> N),
  cfg_ok c ->
  forall (t : table) (n : N),
  lgood c hash t ->
  limC c (mhp t) ->
  forall (t' : table) (r : exn + bool),
  cuckoo_reserve c hash false t n = (t', r) ->
  let new_hp := reserve_calc c n in
  (r = inr false <-> new_hp = bhp (cur t)) /\
  (r = inr false -> t' = t) /\
  (r = inr true ->
  good c hash t' /\
  (forall (k : N) (v : Z), holds (cur t') k v <-> lholds c t k v) /\
  lim_same t t' /\
  new_hp <= bhp (cur t') /\
  rc t' = wrap64 (rc t + 1) /\
  ~ maxed t new_hp /\ (n + spb c < 2 ^ 64 -> n <= 2 ^ bhp (cur t') * spb c)) /\
  (forall e : exn,
  r = inl e ->
  new_hp <> bhp (cur t) /\
  exn_ok0 false t e /\
  e <> ELoadFactorTooLow /\
  (maxed t new_hp -> t' = t /\ e = EMaxHashpower) /\
  (destructive c = false -> levolves c hash t t' /\ bhp (cur t') = bhp (cur t))).
Proof. exact cuckoo_reserve_lgood. Qed.
Print Assumptions C02_reserve_through_deferred_migration.

Theorem C02_clear_through_deferred_migration :
  forall (c : config) (hash : N -> N) (t : table),
  lgood c hash t ->
  good c hash (cuckoo_clear t) /\
  (forall (k : N) (v : Z), ~ lholds c (cuckoo_clear t) k v) /\
  lim_same t (cuckoo_clear t) /\
  bhp (cur (cuckoo_clear t)) = bhp (cur t) /\
  tsize (cuckoo_clear t) = 0 /\ bdead (old (cuckoo_clear t)) = true /\ nrem (cuckoo_clear t) = 0.
Proof. exact cuckoo_clear_lgood. Qed.
Print Assumptions C02_clear_through_deferred_migration.

Theorem C02_lock_table_finishes_migration_refinement :
  forall (c : config) (hash : N -> N),
  cfg_ok c ->
  forall t : table,
  lgood c hash t ->
  good c hash (rehash_with_workers c hash t) /\
  (forall (k : N) (v : Z), holds (cur (rehash_with_workers c hash t)) k v <-> lholds c t k v) /\
  bhp (cur (rehash_with_workers c hash t)) = bhp (cur t) /\
  lim_same t (rehash_with_workers c hash t) /\
  rc (rehash_with_workers c hash t) = rc t /\
  nrem (rehash_with_workers c hash t) = 0 /\
  length (cur_locks (rehash_with_workers c hash t)) = length (cur_locks t) /\
  tsize (rehash_with_workers c hash t) = tsize t /\
  lf_lt_mlf c (rehash_with_workers c hash t) = lf_lt_mlf c t.
Proof. exact rww_lgood. Qed.
Print Assumptions C02_lock_table_finishes_migration_refinement.

(* ---- fuel is never the reason for an outcome (NoFuel.v) ---- *)
From LC Require Import NoFuel.
Theorem C02_found_path_always_moves :
  forall (c : config) (hash : N -> N),
  cfg_ok c ->
  forall (mode : bool) (t : table) (hp i1 i2 : N) (t1 : table) (path : list cuckoo_record) (depth : N),
  all_migrated t ->
  tags_ok hash (cur t) ->
  cuckoopath_search c hash mode t hp i1 i2 = (t1, Some (path, depth)) ->
  snd (cuckoopath_move c hash mode t1 path depth i1 i2) = true.
Proof. exact search_then_move. Qed.
Print Assumptions C02_found_path_always_moves.

Theorem C02_found_path_always_moves_with_pending_stripes :
  forall (c : config) (hash : N -> N),
  cfg_ok c ->
  forall (hp i1 i2 : N) (t t1 : table) (path : list cuckoo_record) (depth : N),
  wf c hash t ->
  cuckoopath_search c hash false t hp i1 i2 = (t1, Some (path, depth)) ->
  snd (cuckoopath_move c hash false t1 path depth i1 i2) = true.
Proof. exact lazy_search_then_move. Qed.
Print Assumptions C02_found_path_always_moves_with_pending_stripes.

Theorem C02_insert_loop_fuel_monotone :
  forall (c : config) (hash : N -> N) (fd fd' : bool -> table -> N -> rres) (mode : bool) (m : nat),
  fd_le fd fd' ->
  forall (n : nat) (t : table) (k i1 i2 : N),
  snd (cuckoo_insert_loop c hash fd mode t k i1 i2 n) <> IL_exn EOutOfFuel ->
  cuckoo_insert_loop c hash fd' mode t k i1 i2 (n + m) = cuckoo_insert_loop c hash fd mode t k i1 i2 n.
Proof. exact cuckoo_insert_loop_mono. Qed.
Print Assumptions C02_insert_loop_fuel_monotone.

Theorem C02_present_key_never_throws :
  forall (c : config) (hash : N -> N),
  cfg_ok c ->
  forall (mode : bool) (t : table) (k : N) (v : Z) (g : Z -> bool -> option (Z * bool)),
  good c hash t -> key_in (cur t) k -> forall e : exn, snd (uprase_gen c hash mode t k v g) <> inl e.
Proof. exact uprase_gen_present_no_exn. Qed.
Print Assumptions C02_present_key_never_throws.

(* ---- inside a locked_table (LockedRefine.v): every locked-table operation refines the abstract map; lock_table on a table with pending stripes exposes every element ---- *)
From LC Require Import LockedRefine.
Theorem C02_every_locked_table_operation_refines_the_map :
  forall (c : config) (hash : N -> N),
  cfg_ok c ->
  forall (fapply : fnk -> Z -> bool -> Z * bool) (w : world) (a : nat) (s : tslot)
  (o : op) (w' : world) (r : out) (m : amap),
  nothrow c = true ->
  active s = true ->
  locked_op o = true ->
  good c hash (tb s) ->
  rep c (tb s) m ->
  lop_pre c (tb s) o ->
  step_some c hash fapply w a s o = (w', r) -> esc c hash (tb s) \/ lpost c hash w a s o w' r m.
Proof. exact locked_mode_op_refines. Qed.
Print Assumptions C02_every_locked_table_operation_refines_the_map.

Theorem C02_lock_table_from_any_pending_state :
  forall (c : config) (hash : N -> N),
  cfg_ok c ->
  forall (fapply : fnk -> Z -> bool -> Z * bool) (w : world) (a : nat) (s : tslot)
  (w' : world) (r : out) (m : amap),
  active s = false ->
  lgood c hash (tb s) ->
  rep c (tb s) m ->
  step_some c hash fapply w a s OLock = (w', r) ->
  let t' := rehash_with_workers c hash (tb s) in
  w' = reset_its (put_tab w a (Some {| tb := t'; active := true |})) /\
  r = [RNone] /\
  good c hash t' /\
  lim_same (tb s) t' /\
  rep c t' m /\
  bhp (cur t') = bhp (cur (tb s)) /\ tsize t' = tsize (tb s) /\ rc t' = rc (tb s) /\ nrem t' = 0.
Proof. exact refines_OLock. Qed.
Print Assumptions C02_lock_table_from_any_pending_state.

Theorem C02_locked_step_keeps_the_section_invariant :
  forall (c : config) (hash : N -> N),
  cfg_ok c ->
  forall (fapply : fnk -> Z -> bool -> Z * bool) (w : world) (a : nat) (t : table)
  (m : amap) (o : op) (w' : world) (r : out),
  nothrow c = true ->
  destructive c = false ->
  locked_op o = true ->
  o <> OUnlock ->
  sect c hash w a t m ->
  step c hash fapply w a o = (w', r) ->
  exists (t' : table) (m' : amap),
  w' = lop_world w a o t' r /\ sect c hash w' a t' m' /\ lim_same t t' /\ lop_spec c t m o r t' m'.
Proof. exact locked_step_in_section. Qed.
Print Assumptions C02_locked_step_keeps_the_section_invariant.

(* ---- the test oracle is tied to the specification of the refinement theorem (SpecSound.v): the executable acceptor Spec.judge_op - the judge of every output of the real library - accepts an output of a normal-mode operation exactly when it is the output op_spec prescribes (soundness and completeness), and accepts the model's own outputs ---- *)
From LC Require Import Spec LazyRefine SpecSound.
Theorem C02_acceptor_sound :
  forall (c : config) (fapply : fnk -> Z -> bool -> Z * bool) (spb_ : N) (tb : table) 
  (s : sst) (a : nat) (t : stab) (m : amap) (o : op) (r : out) (pre post : obs)
  (s' : sst),
  normal_op o = true ->
  spb c = spb_ ->
  obs_pre tb pre ->
  get_st s a = Some t ->
  st_moved t = false ->
  srep (st_m t) m ->
  is_exn r EUnmodelled = false ->
  judge_op fapply spb_ s a o r pre post = (s', []) ->
  exists m' : amap, post_ok s' a t m' /\ op_spec c fapply tb m o (norm_out r) m'.
Proof. exact judge_sound. Qed.
Print Assumptions C02_acceptor_sound.

Theorem C02_acceptor_complete :
  forall (c : config) (fapply : fnk -> Z -> bool -> Z * bool) (spb_ : N) (tb : table) 
  (s : sst) (a : nat) (t : stab) (m : amap) (o : op) (r : out) (m' : amap)
  (pre post : obs),
  normal_op o = true ->
  spb c = spb_ ->
  get_st s a = Some t ->
  st_moved t = false ->
  srep (st_m t) m ->
  op_spec c fapply tb m o (norm_out r) m' ->
  obs_consistent spb_ tb o r pre post ->
  exists s' : sst, judge_op fapply spb_ s a o r pre post = (s', []) /\ post_ok s' a t m'.
Proof. exact judge_complete. Qed.
Print Assumptions C02_acceptor_complete.

Theorem C02_acceptor_accepts_the_model :
  forall (c : config) (hash : N -> N),
  cfg_ok c ->
  forall (fapply : fnk -> Z -> bool -> Z * bool) (spb_ : N) (w : world) (a : nat)
  (sl : tslot) (o : op) (w' : world) (r : out) (m : amap) (s : sst) (ts : stab)
  (pre post : obs),
  spb c = spb_ ->
  nothrow c = true ->
  active sl = false ->
  normal_op o = true ->
  lgood c hash (tb sl) ->
  rep c (tb sl) m ->
  op_pre c (tb sl) o ->
  step_some c hash fapply w a sl o = (w', r) ->
  get_st s a = Some ts ->
  st_moved ts = false ->
  srep (st_m ts) m ->
  obs_consistent spb_ (tb sl) o r pre post ->
  lesc c hash (tb sl) \/
  (exists (t' : table) (m' : amap) (s' : sst),
  w' = put_t w a sl t' /\
  lgood c hash t' /\
  lim_same (tb sl) t' /\
  rep c t' m' /\ judge_op fapply spb_ s a o r pre post = (s', []) /\ post_ok s' a ts m').
Proof. exact model_accepted. Qed.
Print Assumptions C02_acceptor_accepts_the_model.

Theorem C02_acceptor_statistics :
  forall (spb_ : N) (s : sst) (posts : list (option obs)),
  judge_stats spb_ s posts = [] <-> Forall (stat_entry_ok spb_) (combine (s_tabs s) posts).
Proof. exact judge_stats_nil. Qed.
Print Assumptions C02_acceptor_statistics.

(* ---- RUN-TIED statements (RunTied.v). The escape clause [esc]/[lesc] of the theorems above is an existential that is not tied to the run: it holds of every table whose maximum hashpower is unset or >= 60 (RunTied.lesc_holds_of_tN), so for such tables those theorems say nothing. The statements below replace it by a fact about the table the call RETURNS: either it has at least 2^59 buckets (false of every execution that fits in memory, decidable on the result), or the specification holds - for any limits, including none ---- *)
From LC Require Import AcceptModel RunTied.
Theorem C02_every_normal_mode_operation_refines_the_map_tied :
  forall (c : config) (hash : N -> N),
  cfg_ok c ->
  forall (fapply : fnk -> Z -> bool -> Z * bool) (w : world) (a : nat) (s : tslot)
  (o : op) (w' : world) (r : out) (m : amap),
  nothrow c = true ->
  active s = false ->
  normal_op o = true ->
  lgood c hash (tb s) ->
  rep c (tb s) m ->
  op_pre c (tb s) o ->
  step_some c hash fapply w a s o = (w', r) ->
  tied_step w a s w' \/
  (exists (t' : table) (m' : amap),
  w' = put_t w a s t' /\
  lgood c hash t' /\ lim_same (tb s) t' /\ rep c t' m' /\ op_spec c fapply (tb s) m o r m').
Proof. exact normal_mode_op_refines_tied. Qed.
Print Assumptions C02_every_normal_mode_operation_refines_the_map_tied.

Theorem C02_insert_family_tied :
  forall (c : config) (hash : N -> N),
  cfg_ok c ->
  forall (t : table) (k : N) (v : Z) (g : Z -> bool -> option (Z * bool)),
  nothrow c = true ->
  lgood c hash t ->
  forall (t' : table) (r : exn + bool * list rv * (N * N)),
  uprase_gen c hash false t k v g = (t', r) ->
  (forall v0 : Z,
  lholds c t k v0 ->
  exists b s : N,
  r = inr (false, log_of g v0 false, (b, s)) /\
  lgood c hash t' /\
  lim_same t t' /\
  bhp (cur t') = bhp (cur t) /\
  lupd c t t' k (final_of g v0 false) /\
  (forall vf : Z,
  final_of g v0 false = Some vf ->
  exists e : entry, bget (cur t') b s = Some e /\ ekey e = k /\ eval e = vf)) /\
  ((forall v0 : Z, ~ lholds c t k v0) ->
  tied_esc t' \/
  (exists e : exn, r = inl e /\ exn_ok c true t t' e /\ levolves c hash t t') \/
  (exists b s : N,
  r = inr (true, log_of g v true, (b, s)) /\
  lgood c hash t' /\
  lim_same t t' /\
  bhp (cur t) <= bhp (cur t') /\
  lupd c t t' k (final_of g v true) /\
  (forall vf : Z,
  final_of g v true = Some vf ->
  exists e : entry, bget (cur t') b s = Some e /\ ekey e = k /\ eval e = vf))).
Proof. exact uprase_gen_lgood_tied. Qed.
Print Assumptions C02_insert_family_tied.

Theorem C02_insert_family_immediate_regime_tied :
  forall (c : config) (hash : N -> N),
  cfg_ok c ->
  forall (mode : bool) (t : table) (k : N) (v : Z) (g : Z -> bool -> option (Z * bool)),
  nothrow c = true ->
  good c hash t ->
  immediate c mode t ->
  forall (t' : table) (r : exn + bool * list rv * (N * N)),
  uprase_gen c hash mode t k v g = (t', r) ->
  (forall v0 : Z,
  holds (cur t) k v0 ->
  exists b s : N,
  r = inr (false, log_of g v0 false, (b, s)) /\
  good c hash t' /\
  lim_same t t' /\
  immediate c mode t' /\
  bhp (cur t') = bhp (cur t) /\
  upd_holds (cur t) (cur t') k (final_of g v0 false) /\
  (forall vf : Z,
  final_of g v0 false = Some vf ->
  exists e : entry, bget (cur t') b s = Some e /\ ekey e = k /\ eval e = vf)) /\
  (~ key_in (cur t) k ->
  tied_esc t' \/
  (exists e : exn, r = inl e /\ exn_ok c true t t' e /\ evolves c hash t t' /\ immediate c mode t') \/
  (exists b s : N,
  r = inr (true, log_of g v true, (b, s)) /\
  good c hash t' /\
  lim_same t t' /\
  immediate c mode t' /\
  bhp (cur t) <= bhp (cur t') /\
  upd_holds (cur t) (cur t') k (final_of g v true) /\
  (forall vf : Z,
  final_of g v true = Some vf ->
  exists e : entry, bget (cur t') b s = Some e /\ ekey e = k /\ eval e = vf))).
Proof. exact uprase_gen_good_tied. Qed.
Print Assumptions C02_insert_family_immediate_regime_tied.

Theorem C02_every_locked_table_operation_refines_the_map_tied :
  forall (c : config) (hash : N -> N),
  cfg_ok c ->
  forall (fapply : fnk -> Z -> bool -> Z * bool) (w : world) (a : nat) (s : tslot)
  (o : op) (w' : world) (r : out) (m : amap),
  nothrow c = true ->
  active s = true ->
  locked_op o = true ->
  good c hash (tb s) ->
  rep c (tb s) m ->
  lop_pre c (tb s) o ->
  step_some c hash fapply w a s o = (w', r) -> tied_step w a s w' \/ lpost c hash w a s o w' r m.
Proof. exact locked_mode_op_refines_tied. Qed.
Print Assumptions C02_every_locked_table_operation_refines_the_map_tied.

Theorem C02_hashpower_never_decreases_along_an_insertion :
  forall (c : config) (hash : N -> N),
  nothrow c = true ->
  forall (fuel : nat) (mode : bool) (t : table) (k i1 i2 : N) (t' : table) (res : il_result),
  cuckoo_insert_loop c hash (cuckoo_fast_double c hash) mode t k i1 i2 fuel = (t', res) ->
  bhp (cur t) <= bhp (cur t').
Proof. exact cuckoo_insert_loop_mono. Qed.
Print Assumptions C02_hashpower_never_decreases_along_an_insertion.

Theorem C02_model_outputs_accepted_by_the_oracle :
  forall (c : config) (hash : N -> N),
  cfg_ok c ->
  forall (fapply : fnk -> Z -> bool -> Z * bool) (spb_ : N) (w : world) (a : nat)
  (sl : tslot) (o : op) (w' : world) (r : out) (m : amap) (s : sst) (ts : stab)
  (x y : bool),
  spb c = spb_ ->
  nothrow c = true ->
  normal_op o = true ->
  op_pre c (tb sl) o ->
  reserve_fits c o ->
  related c hash sl m s a ts ->
  step_some c hash fapply w a sl o = (w', r) ->
  tied_step w a sl w' \/ accepted_step c hash fapply spb_ w a sl o w' r s ts x y.
Proof. exact model_outputs_accepted_tied. Qed.
Print Assumptions C02_model_outputs_accepted_by_the_oracle.

Theorem C02_whole_scripts_of_the_model_are_accepted :
  forall (c : config) (hash : N -> N),
  cfg_ok c ->
  forall (fapply : fnk -> Z -> bool -> Z * bool) (spb_ : N),
  spb c = spb_ ->
  forall (ops : list op) (w : world) (a : nat) (sl : tslot) (m : amap) (s : sst) (ts : stab),
  nothrow c = true ->
  mhp (tb sl) <= 59 ->
  Forall (op_side c (mhp (tb sl))) ops ->
  related c hash sl m s a ts -> script_accepted c hash fapply spb_ w a sl s ops.
Proof. exact script_accepted_from_initial. Qed.
Print Assumptions C02_whole_scripts_of_the_model_are_accepted.
